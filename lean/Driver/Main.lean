import TF.Drv.Proto
import TF.Drv.Registry
/-!
`tfm`: the executable model. Reads one request per line on stdin, writes one reply per line on stdout.
Imports only core-Lean modules (TF.Gen / TF.Model / TF.Spec / TF.Drv), so it links without Mathlib.
-/
open TF.Proto TF.Drv

def reply (line : String) : String :=
  match (line.trimAscii.toString.splitOn " ").filter (· ≠ "") with
  | fam :: op :: args =>
    match dispatch fam with
    | none => "skip"
    | some h =>
      match args.mapM parseArg with
      | none => "bad-request"
      | some as =>
        match h op as with
        | some r => r
        | none => "skip"
  | _ => "bad-request"

partial def loop (hin : IO.FS.Stream) (hout : IO.FS.Stream) : IO Unit := do
  let line ← hin.getLine
  if line.isEmpty then return ()
  hout.putStrLn (reply line)
  loop hin hout

def main : IO Unit := do
  let hin ← IO.getStdin
  let hout ← IO.getStdout
  loop hin hout
  hout.flush
