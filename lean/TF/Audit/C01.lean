import TF.Props.C01
#print axioms TF.C01.montyred_exact
#print axioms TF.C01.new_exact
#print axioms TF.C01.value_canonical
#print axioms TF.C01.value_new_roundtrip
#print axioms TF.C01.new_value_roundtrip
#print axioms TF.C01.representation_unique
#print axioms TF.C01.add_exact
#print axioms TF.C01.sub_exact
#print axioms TF.C01.mul_exact
