import TF.Model.PolyDiv
/-!
`truncate` of the C09 model (`TF/Model/PolyDiv.lean`) with the machine arithmetic of the release build
(API audit, docs/POLY_API_COVERAGE.md; the C17 twin is `TF.Model.Poly.truncateUsize` in `TF/Model/PolyApi.lean`).
Core Lean only.
-/
namespace TF.Model.PolyD
variable {α : Type}
/-- `usize::MAX + 1` on the 64-bit targets the crate is built for -/
def USIZE_MOD : Nat := 2 ^ 64
/-- `truncate(k)` as compiled in the release profile (`overflow-checks = false`): `k + 1` wraps at `usize::MAX`
    (the dev/test profile panics there) -/
def truncateUsize (F : FieldOps α) (p : List α) (k : Nat) : List α :=
  ((revNorm F p).take ((k + 1) % USIZE_MOD)).reverse
end TF.Model.PolyD
