import TF.Model.PolyDiv
/-!
`truncate` of the C09 model (`TF/Model/PolyDiv.lean`) with the machine arithmetic of the release build
(API audit, docs/POLY_API_COVERAGE.md; the C17 twin is `TF.Model.Poly.truncateUsize` in `TF/Model/PolyApi.lean`).
Core Lean only.
-/
namespace TF.Model.PolyD
variable {α : Type}
/-- `usize::MAX + 1` on the 64-bit targets the crate is built for -/
def USIZE_MOD : Nat := 2 ^ 64
/-- `truncate(k)` as compiled **after the repair F13**: `coefficients().rev().take(k.saturating_add(1)).rev()` -/
def truncateUsize (F : FieldOps α) (p : List α) (k : Nat) : List α :=
  ((revNorm F p).take (min (k + 1) (USIZE_MOD - 1))).reverse
/-- `truncate(k)` as it was compiled in the release profile **before the repair F13** (`take(k + 1)` with `k + 1` in
    `usize`, `overflow-checks = false`): `k + 1` wraps at `usize::MAX` (the dev/test profile panicked there) -/
def truncateBeforeF13 (F : FieldOps α) (p : List α) (k : Nat) : List α :=
  ((revNorm F p).take ((k + 1) % USIZE_MOD)).reverse
end TF.Model.PolyD
