import TF.Model.FieldOps
import TF.Model.Poly
/-!
# Model of polynomial division, reduction, gcd and power-series inversion (property C09)

Hand-written executable model of `twenty-first/src/math/polynomial.rs`:
`naive_divide`/`divide`/`Div`/`Rem`, `reduce`, `fast_reduce`, `shift_factor_ntt_with_tail_length`,
`reduce_by_ntt_friendly_modulus`, `structured_multiple(_of_degree)`, `reduce_by_structured_modulus`, `xgcd`,
`formal_power_series_inverse_minimal/_newton`, `reverse`, `truncate`, `mod_x_to_the_n`, `clean_divide`.

Conventions
* a polynomial is its coefficient **storage** `List α`, lowest degree first; stored leading (high-order) zeros are
  representable and are handled exactly where the Rust code handles them (`degree()`, `coefficients()`, `normalize`);
* a Rust panic (`expect`, `unwrap`, `assert!`, index out of bounds, inverse of zero, division by zero) is `none`;
* the model is generic in the field through `TF.FieldOps α`; every dispatch threshold is a parameter;
* `ntt`/`intt` are parameters (`NttOps`): the model follows the call sites; that `ntt` is the DFT is property C06;
* `Polynomial::multiply` (dispatch naive/NTT) is modelled by `TF.Model.Poly.mul` (= `naive_multiply`, which is
  also the `*` operator) — that every multiplication strategy returns this product is property C07;
* storage, `normalize`, `degree`, `add`, `sub`, `mul`, … come from the shared core `TF/Model/Poly.lean`.
Core Lean only (linked into `tfm`).
-/
namespace TF.Model.PolyD
open TF TF.Model.Poly

variable {α : Type}

/-! ## storage, degree, normalisation — from the shared core `TF.Model.Poly` (builder G)

`normalize`, `degree`, `leadingCoefficient`, `isZero`, `add`, `sub`, `scalarMul`, `mul` (= `naive_multiply`),
`xToThe`, `shiftCoefficients`, `reverse`, `scaleG` are the shared definitions; only what division needs in addition is
defined here. -/
section basic
variable (F : FieldOps α)

/-- the stored coefficients from the leading non-zero one downwards (highest degree first);
    `normalize F p = (revNorm F p).reverse` by definition -/
def revNorm (p : List α) : List α := p.reverse.dropWhile F.isZero

/-- `degree() + 1`; `0` for the zero polynomial; `degree F p = degSucc F p - 1` by definition -/
def degSucc (p : List α) : Nat := (normalize F p).length

/-- `Vec::resize(n, ZERO)` -/
def resize (p : List α) (n : Nat) : List α := p.take n ++ List.replicate (n - p.length) F.zero

/-- `truncate(k)`: the `k+1` highest coefficients of the normalised polynomial -/
def truncate (p : List α) (k : Nat) : List α := ((revNorm F p).take (k + 1)).reverse

/-- `mod_x_to_the_n(n)`: the first `min n len` stored coefficients -/
def modXToTheN (p : List α) (n : Nat) : List α := p.take n

/-- `usize::next_power_of_two` (1 for 0) -/
def nextPowerOfTwo (n : Nat) : Nat := if n ≤ 1 then 1 else 2 ^ (Nat.log2 (n - 1) + 1)

/-- `usize::is_power_of_two` (false for 0) -/
def isPowerOfTwo (n : Nat) : Bool := n != 0 && 2 ^ Nat.log2 n == n

end basic

/-! ## long division -/
section division
variable (F : FieldOps α)

/-- inner loop of `naive_divide`: `rest[top - i] -= qc * divisor[i]` for the divisor coefficients below the leading
    one; both lists highest degree first; `none` = index out of bounds -/
def subScaled (qc : α) : List α → List α → Option (List α)
  | [], rest => some rest
  | _ :: _, [] => none
  | t :: tl, r :: rest =>
    match subScaled qc tl rest with
    | none => none
    | some l => some (F.sub r (F.mul qc t) :: l)

/-- outer loop of `naive_divide`, `n` iterations left. `rr` = remainder, highest degree first (so `pop()` is the
    head); `q` = quotient coefficients found so far, lowest degree first (Rust pushes and reverses at the end);
    `tl` = normalised divisor without its leading coefficient, highest degree first -/
def divLoop (lcInv : α) (tl : List α) : Nat → List α → List α → Option (List α × List α)
  | 0, rr, q => some (q, rr)
  | n + 1, rr, q =>
    match rr with
    | [] => none                                            -- `pop().unwrap()`
    | c :: rest =>
      let qc := F.mul c lcInv
      if F.isZero qc then divLoop lcInv tl n rest (qc :: q)
      else match subScaled F qc tl rest with
        | none => none
        | some rest' => divLoop lcInv tl n rest' (qc :: q)

/-- `naive_divide` (= `divide`): `(quotient, remainder)`; panics exactly for the zero divisor -/
def naiveDivide (a d : List α) : Option (List α × List α) :=
  match revNorm F d with
  | [] => none                                              -- `expect("divisor should be non-zero")`
  | lc :: tl =>
    let lcInv := F.inv lc
    let ra := revNorm F a
    if ra.length < tl.length + 1 then some ([], a)          -- `self.degree() < divisor.degree()`: (0, self.clone())
    else
      match divLoop F lcInv tl (ra.length - tl.length) ra [] with
      | none => none
      | some (q, rr) => some (q, rr.reverse)

def divide (a d : List α) : Option (List α × List α) := naiveDivide F a d
/-- `Div` operator -/
def div (a d : List α) : Option (List α) := (naiveDivide F a d).map (·.1)
/-- `Rem` operator, `reduce_long_division` -/
def rem (a d : List α) : Option (List α) := (naiveDivide F a d).map (·.2)

end division

/-! ## extended Euclid -/
section xgcd
variable (F : FieldOps α)

/-- the `while !y.is_zero()` loop; `fuel` bounds the number of iterations (the degree of `y` strictly decreases,
    `xgcd` starts it with `deg y + 2`); running out of fuel is `none` and is proved unreachable -/
def xgcdLoop : Nat → List α → List α → List α → List α → List α → List α → Option (List α × List α × List α)
  | 0, _, _, _, _, _, _ => none
  | fuel + 1, x, y, a0, a1, b0, b1 =>
    if isZero F y then some (x, a0, b0)
    else
      match naiveDivide F x y with
      | none => none
      | some (q, r) =>
        let c := sub F a0 (mul F q a1)
        let d := sub F b0 (mul F q b1)
        xgcdLoop fuel y r a1 c b1 d

/-- `xgcd(x, y) = (gcd, a, b)`, normalised by the inverse of the gcd's leading coefficient (`ONE` if the gcd is 0) -/
def xgcd (x y : List α) : Option (List α × List α × List α) :=
  match xgcdLoop F (degSucc F y + 2) x y [F.one] [] [] [F.one] with
  | none => none
  | some (g, a, b) =>
    let lc := match leadingCoefficient F g with            -- `unwrap_or(FF::ONE)`
      | some c => c
      | none => F.one
    let li := F.inv lc
    some (scalarMul F g li, scalarMul F a li, scalarMul F b li)

end xgcd

/-! ## power series inverse (minimal), structured multiples -/
section series
variable (F : FieldOps α)

/-- `zip … map(l*r) fold(0,+)` (the zip stops at the shorter list) -/
def dot : List α → List α → α
  | a :: as, b :: bs => F.add (F.mul a b) (dot as bs)
  | _, _ => F.zero

/-- loop of `formal_power_series_inverse_minimal`; `grev` = `g` highest degree first, `ft` = `f` without its constant
    term. (`skip(1).take(g.len()).zip(g.rev())`: the `take` is implied by the zip.) -/
def fpsLoop (ft : List α) (c0Inv : α) : Nat → List α → List α
  | 0, grev => grev
  | k + 1, grev => fpsLoop ft c0Inv k (F.mul (F.neg (dot F ft grev)) c0Inv :: grev)

/-- `formal_power_series_inverse_minimal(precision)`: `g` with `precision+1` stored coefficients,
    `f·g ≡ 1 mod X^(precision+1)`; panics if `f` has no stored coefficient or constant term zero -/
def fpsInverseMinimal (f : List α) (precision : Nat) : Option (List α) :=
  match f with
  | [] => none                                              -- `first().unwrap()`
  | c0 :: ft =>
    if F.isZero c0 then none                                -- `inverse()` of zero
    else
      let c0Inv := F.inv c0
      some (fpsLoop F ft c0Inv precision [c0Inv]).reverse

/-- `structured_multiple_of_degree(n)` -/
def structuredMultipleOfDegree (p : List α) (n : Nat) : Option (List α) :=
  match degSucc F p with
  | 0 => none                                               -- "cannot compute multiples of zero"
  | deg + 1 =>
    if n < deg then none                                    -- `assert!(degree <= n)`
    else if deg = 0 then
      match p with
      | [] => none
      | c0 :: _ => some (List.replicate n F.zero ++ [F.inv c0])
    else
      let rev := reverse F p
      match fpsInverseMinimal F rev (n - deg) with
      | none => none
      | some inv =>
        let productReverse := mul F rev inv
        let product := reverse F productReverse
        match degSucc F product with
        | 0 => none                                         -- `-1 as usize`, then `n - …` / allocation fails
        | pd + 1 =>
          if n < pd then none                               -- `n - product_degree` underflows
          else some (shiftCoefficients F product (n - pd))

/-- `structured_multiple()`: of degree `3·deg + 1` -/
def structuredMultiple (p : List α) : Option (List α) :=
  match degSucc F p with
  | 0 => none                                               -- "cannot compute multiple of zero"
  | deg + 1 => structuredMultipleOfDegree F p (3 * deg + 1)

end series

/-! ## NTT interface -/

/-- the transform pair used by the NTT-based strategies (`ntt::ntt`, `ntt::intt`); lengths are powers of two at
    every call site, checked by `nttChecked` -/
structure NttOps (α : Type) where
  ntt : List α → List α
  intt : List α → List α

def nttChecked (N : NttOps α) (l : List α) : Option (List α) :=
  if l.length == 0 || isPowerOfTwo l.length then some (N.ntt l) else none
def inttChecked (N : NttOps α) (l : List α) : Option (List α) :=
  if l.length == 0 || isPowerOfTwo l.length then some (N.intt l) else none

/-! ## chunk-wise reductions, `fast_reduce`, `reduce` -/
section reduce
variable (F : FieldOps α) (N : NttOps α)

def divCeil (a b : Nat) : Nat := (a + b - 1) / b

/-- `ww[i] -= product.get(i).unwrap_or(ZERO)` -/
def subPadded : List α → List α → List α
  | [], _ => []
  | w :: ws, [] => w :: ws
  | w :: ws, p :: ps => F.sub w p :: subPadded ws ps

/-- `shift_factor_ntt_with_tail_length()`; `cutoff` = `FAST_REDUCE_CUTOFF_THRESHOLD` -/
def shiftFactorNtt (cutoff : Nat) (p : List α) : Option (List α × Nat) :=
  match degSucc F p with
  | 0 => none            -- `-1 as usize * 2` (overflow), in release wraps and `structured_multiple_of_degree` panics
  | deg + 1 =>
    let n := nextPowerOfTwo (max cutoff (deg * 2))
    match structuredMultipleOfDegree F p n with
    | none => none
    | some mult =>
      -- `1 + ` index of the highest non-zero coefficient below the last stored one, `1 + 0` if there is none
      let m := 1 + ((revNorm F mult.dropLast).length - 1)
      if mult.length < n then none                          -- `coefficients[..n]`
      else (nttChecked N (mult.take n)).map (fun v => (v, m))

/-- loop of `reduce_by_ntt_friendly_modulus`: chunk indices `k-1, …, 0` -/
def nttReduceLoop (a shiftNtt : List α) (chunk tail : Nat) : Nat → List α → Option (List α)
  | 0, ww => some ww
  | k + 1, ww =>
    match nttChecked N (ww.drop tail ++ List.replicate tail F.zero) with
    | none => none
    | some pn =>
      match inttChecked N (List.zipWith F.mul pn shiftNtt) with      -- both have `domain_length` entries
      | none => none
      | some product =>
        let fresh := (a.drop (k * chunk)).take chunk
        if fresh.length < chunk then none                   -- `self.coefficients[chunk_index * chunk_size + i]`
        else
          let ww' := fresh ++ ww.take tail
          if product.length < ww'.length then none          -- `product[i]`
          else nttReduceLoop a shiftNtt chunk tail k (subPadded F ww' product)

/-- `reduce_by_ntt_friendly_modulus(shift_ntt, tail_length)` -/
def reduceByNttFriendlyModulus (a shiftNtt : List α) (tail : Nat) : Option (List α) :=
  let dl := shiftNtt.length
  if !isPowerOfTwo dl then none                             -- `assert!(domain_length.is_power_of_two())`
  else if dl < tail then none                               -- `domain_length - tail_length` underflows
  else
    let chunk := dl - tail
    if a.length < chunk + tail then some a
    else if chunk = 0 then none                             -- `div_ceil(0)`
    else
      let numChunks := divCeil (a.length - (tail + chunk)) chunk
      let rangeStart := numChunks * chunk
      let ww0 := if rangeStart ≥ a.length then List.replicate (chunk + tail) F.zero else a.drop rangeStart
      nttReduceLoop F N a shiftNtt chunk tail numChunks (resize F ww0 (chunk + tail))

/-- loop of `reduce_by_structured_modulus`; `ws` = `window_start` -/
def structReduceLoop (a shiftPoly : List α) (chunk tail : Nat) : Nat → Nat → List α → Option (List α)
  | 0, _, ww => some ww
  | k + 1, ws, ww =>
    let product := mul F (ww.drop tail) shiftPoly
    if ws < chunk then none                                 -- `window_start -= chunk_size`
    else
      let ws' := ws - chunk
      let fresh := (a.drop ws').take chunk
      if fresh.length < chunk then none                     -- slice out of range
      else structReduceLoop a shiftPoly chunk tail k ws' (subPadded F (fresh ++ ww.take tail) product)

/-- `reduce_by_structured_modulus(multiple)` -/
def reduceByStructuredModulus (a multiple : List α) : Option (List α) :=
  match degSucc F multiple with
  | 0 => none                                               -- "cannot reduce by zero"
  | 1 => none                                               -- `assert_ne!(0, multiple.degree())`
  | md + 1 =>
    match leadingCoefficient F multiple with
    | none => none
    | some lc =>
      if !F.beq lc F.one then none                          -- "multiple must be monic"
      else
        let shiftPoly := sub F multiple (xToThe F md)
        let tail := degSucc F shiftPoly
        if ¬ tail < md + 1 then none                        -- `assert!(shift_polynomial.degree() < multiple.degree())`
        else
          let chunk := md - tail
          if a.length < chunk + tail then some a
          else if chunk = 0 then none                       -- `div_ceil(0)`
          else
            let numChunks := divCeil (a.length - (tail + chunk)) chunk
            let windowStop := (tail + chunk) + numChunks * chunk
            let windowStart := windowStop - md
            if a.length < windowStart then none             -- `self.coefficients[window_start..]`
            else structReduceLoop F a shiftPoly chunk tail numChunks windowStart
                   (resize F (a.drop windowStart) (chunk + tail))

/-- stage 2 of `fast_reduce`: `if intermediate_remainder.degree() > 4 * modulus.degree()` reduce by the structured
    multiple; `stage2` = the literal `4` -/
def fastReduceStage2 (stage2 : Nat) (ir m : List α) : Option (List α) :=
  if degree F ir > (stage2 : Int) * degree F m then
    match structuredMultiple F m with
    | none => none
    | some sm => reduceByStructuredModulus F ir sm
  else some ir

/-- `fast_reduce(modulus)`; `cutoff` = `FAST_REDUCE_CUTOFF_THRESHOLD`, `stage2` = the literal `4` in
    `intermediate_remainder.degree() > 4 * modulus.degree()` -/
def fastReduce (cutoff stage2 : Nat) (a m : List α) : Option (List α) :=
  if degree F m = 0 then some []
  else if degree F a < degree F m then some a
  else
    match shiftFactorNtt F N cutoff m with
    | none => none
    | some (sh, tail) =>
      match reduceByNttFriendlyModulus F N a sh tail with
      | none => none
      | some ir =>
        match fastReduceStage2 F stage2 ir m with
        | none => none
        | some r => rem F r m

/-- the four-way dispatch of `reduce(modulus)`; `makesSense` = `FAST_REDUCE_MAKES_SENSE_MULTIPLE` -/
def reduce (makesSense cutoff stage2 : Nat) (a m : List α) : Option (List α) :=
  if degree F m < 0 then none                               -- "Cannot divide by zero; needed for reduce."
  else if degree F m = 0 then some []
  else if degree F a < degree F m then some a
  else if degree F a > (makesSense : Int) * degree F m then fastReduce F N cutoff stage2 a m
  else rem F a m

end reduce

/-! ## Newton iteration for the power series inverse -/
section newton
variable (F : FieldOps α) (N : NttOps α)

/-- `iter().step_by(k)` -/
def stepBy (k : Nat) (l : List α) : List α :=
  match l with
  | [] => []
  | x :: xs => x :: stepBy k (xs.drop (k - 1))
termination_by l.length
decreasing_by simp only [List.length_cons, List.length_drop]; omega

/-- the "standard part": `rounds` Newton steps with polynomial arithmetic -/
def newtonStandard (f : List α) : Nat → List α → List α
  | 0, g => g
  | k + 1, g =>
    let s := mul F (mul F g g) f
    let g2 := scalarMul F g (F.ofNat 2)
    newtonStandard f k (sub F g2 s)

/-- "migrate to a larger domain as necessary": if the tracked degree no longer fits, `intt` on the old domain and
    `ntt` on the next power of two (`lde`); `fn` = the first `cur` entries of the Rust buffer `f_ntt` (the rest of the
    buffer is zero) -/
def newtonGrow (full : Nat) (fdeg' : Int) (cur : Nat) (fn : List α) : Option (Nat × List α) :=
  if fdeg'.toNat ≥ cur then
    let next := nextPowerOfTwo (1 + fdeg'.toNat)
    if full < next then none                                -- `&mut v[..new_domain_length]`
    else
      match inttChecked N fn with
      | none => none
      | some c =>
        match nttChecked N (resize F c next) with
        | none => none
        | some e => some (next, e)
  else some (cur, fn)

/-- the point-wise Newton step `ff ← 2·ff − ff·ff·dd` against every `full/cur`-th entry of `ntt(self)` -/
def newtonPointwise (selfNtt : List α) (full cur : Nat) (fn : List α) : List α :=
  List.zipWith (fun ff d => F.sub (F.mul (F.ofNat 2) ff) (F.mul (F.mul ff ff) d)) fn (stepBy (full / cur) selfNtt)

/-- the NTT-domain rounds -/
def newtonNttLoop (selfNtt : List α) (full : Nat) (selfDeg : Int) :
    Nat → Int → Nat → List α → Option (Nat × List α)
  | 0, _, cur, fn => some (cur, fn)
  | k + 1, fdeg, cur, fn =>
    match newtonGrow F N full (2 * fdeg + selfDeg) cur fn with
    | none => none
    | some (cur', fn') =>
      if cur' = 0 then none                                 -- `step_by(0)`
      else newtonNttLoop selfNtt full selfDeg k (2 * fdeg + selfDeg) cur' (newtonPointwise F selfNtt full cur' fn')

/-- `formal_power_series_inverse_newton(precision)`; `cutoff` = `FORMAL_POWER_SERIES_INVERSE_CUTOFF` -/
def fpsInverseNewton (cutoff : Nat) (f : List α) (precision : Nat) : Option (List α) :=
  let sd := degree F f
  if sd = 0 then
    match f with
    | [] => none
    | c :: _ => some [F.inv c]
  else if sd < 0 then none                                  -- `(CUTOFF / -1).ilog2()` of a negative number
  else
    let s := sd.toNat
    let numRounds := Nat.log2 (nextPowerOfTwo precision)
    let switchPoint := if cutoff < s then 0 else Nat.log2 (cutoff / s)
    match f with
    | [] => none
    | cc :: _ =>
      if F.isZero cc then none                              -- `cc.inverse()`
      else
        let g := newtonStandard F f (min numRounds switchPoint) [F.inv cc]
        if switchPoint ≥ numRounds then some g
        else
          let full := nextPowerOfTwo (2 ^ (numRounds + 1) * s)
          match nttChecked N (resize F f full) with
          | none => none
          | some selfNtt =>
            let cur := nextPowerOfTwo g.length
            if full < cur then none                         -- `&mut f_ntt[..current_domain_length]`
            else
              match nttChecked N (resize F g cur) with
              | none => none
              | some fn =>
                match newtonNttLoop F N selfNtt full sd (numRounds - switchPoint) (degree F g) cur fn with
                | none => none
                | some (cur', fn') =>
                  match inttChecked N fn' with
                  | none => none
                  | some c => some (c ++ List.replicate (full - cur') F.zero)

end newton

/-! ## `clean_divide` (base field, internally over the extension field) -/
section clean
variable {β χ : Type}

/-- what `clean_divide` needs from the pair base field / extension field -/
structure ExtOps (β χ : Type) where
  lift : β → χ
  unlift : χ → Option β
  /-- `XFieldElement::from([0, 1, 0])` -/
  offset : χ

variable (FB : FieldOps β) (FX : FieldOps χ) (E : ExtOps β χ) (NX : NttOps χ)

/-- backward pass of Montgomery batch inversion over `(input, prefix product)` pairs -/
def batchBack : List (χ × χ) → χ → List χ × χ
  | [], acc => ([], acc)
  | (x, s) :: rest, acc =>
    let r := batchBack rest acc
    (FX.mul r.2 s :: r.1, FX.mul r.2 x)

/-- prefix products `acc, acc·x₀, acc·x₀·x₁, …` (one per input) and the total -/
def prefixProducts : List χ → χ → List χ × χ
  | [], acc => ([], acc)
  | x :: xs, acc =>
    let r := prefixProducts xs (FX.mul acc x)
    (acc :: r.1, r.2)

/-- `batch_inversion`: panics if an input is zero -/
def batchInversion (l : List χ) : Option (List χ) :=
  if l.any FX.isZero then none
  else
    let pp := prefixProducts FX l FX.one
    some (batchBack FX (l.zip pp.1) (FX.inv pp.2)).1

/-- "Incompleteness workaround: manually check whether 0 is a root of the divisor": removes the factor `X` once
    from both operands; `none` = the `assert!` on the dividend's constant term fails -/
def cleanDivideStrip (a d : List β) : Option (List β × List β) :=
  match d with
  | d0 :: dt =>
    if FB.isZero d0 then
      match a with
      | [] => some ([], dt)
      | a0 :: at' => if FB.isZero a0 then some (at', dt) else none      -- `assert!`
    else some (a, d)
  | [] => some (a, d)

/-- the evaluation-domain part of `clean_divide`: scale by the extension-field offset, NTT, point-wise division
    (long division instead if the divisor vanishes on the coset), INTT, unscale, unlift -/
def cleanDivideNtt (a1 d1 : List β) : Option (List β) :=
  let aX := scaleG FX.one FX.mul (fun c pw => FX.mul (E.lift c) pw) a1 E.offset
  let dX := scaleG FX.one FX.mul (fun c pw => FX.mul (E.lift c) pw) d1 E.offset
  let order := nextPowerOfTwo (degSucc FB a1)
  match nttChecked NX (resize FX aX order), nttChecked NX (resize FX dX order) with
  | some aE, some dE =>
    if dE.any FX.isZero then div FB a1 d1                -- the divisor vanishes on the coset: long division
    else
      match batchInversion FX dE with
      | none => none
      | some inv =>
        match inttChecked NX (List.zipWith FX.mul aE inv) with
        | none => none
        | some q =>
          let qs := scale FX q (FX.inv E.offset)
          qs.mapM E.unlift                               -- `c.unlift().unwrap()`
  | _, _ => none

/-- `clean_divide(divisor)`; `cutoff` = `CLEAN_DIVIDE_CUTOFF_THRESHOLD` (512 in production builds) -/
def cleanDivide (cutoff : Nat) (a d : List β) : Option (List β) :=
  if degree FB d < (cutoff : Int) then div FB a d
  else
    match cleanDivideStrip FB a d with
    | none => none
    | some (a1, d1) => cleanDivideNtt FB FX E NX a1 d1

end clean

/-! ## an executable NTT for the driver (recursive radix 2; output in natural order like `ntt::ntt`) -/
section exec
variable (F : FieldOps α)

def evens : List α → List α
  | [] => []
  | [x] => [x]
  | x :: _ :: r => x :: evens r
def odds : List α → List α
  | [] => []
  | [_] => []
  | _ :: y :: r => y :: odds r

/-- `w^0, w^1, …` (`n` powers starting from `cur`) -/
def powersFrom (w : α) : Nat → α → List α
  | 0, _ => []
  | n + 1, cur => cur :: powersFrom w n (F.mul cur w)

/-- twiddle factors per recursion level: for size `2^k` the `2^(k-1)` powers of `w`, then those of `w²`, … -/
def twiddleLevels : Nat → α → List (List α)
  | 0, _ => []
  | k + 1, w => powersFrom F w (2 ^ k) F.one :: twiddleLevels k (F.mul w w)

/-- `E[j] + w^j·O[j]` followed by `E[j] - w^j·O[j]` -/
def butterfly : List α → List α → List α → List α × List α
  | t :: ts, e :: es, o :: os =>
    let x := F.mul o t
    let r := butterfly ts es os
    (F.add e x :: r.1, F.sub e x :: r.2)
  | _, _, _ => ([], [])

/-- DFT of a list whose length is `2^k`, given the twiddle levels of a primitive `2^k`-th root of unity -/
def dftRec : List (List α) → List α → List α
  | [], l => l
  | tw :: rest, l =>
    let e := dftRec rest (evens l)
    let o := dftRec rest (odds l)
    let r := butterfly F tw e o
    r.1 ++ r.2

/-- `ntt::ntt` / `ntt::intt` computed recursively; root from `F.rootOfUnity` -/
def nttExec : NttOps α where
  ntt := fun l =>
    match F.rootOfUnity l.length with
    | some w => dftRec F (twiddleLevels F (Nat.log2 l.length) w) l
    | none => l
  intt := fun l =>
    match F.rootOfUnity l.length with
    | some w =>
      let ninv := F.inv (F.ofNat l.length)
      (dftRec F (twiddleLevels F (Nat.log2 l.length) (F.inv w)) l).map (fun x => F.mul x ninv)
    | none => l

end exec

end TF.Model.PolyD
