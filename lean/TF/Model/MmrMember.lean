import TF.Model.MmrAccE
/-!
Hand model of `MmrMembershipProof::{verify, update_from_append, batch_update_from_append, update_from_leaf_mutation,
batch_update_from_leaf_mutation, batch_update_from_batch_leaf_mutation}` (`mmr_membership_proof.rs`) and
`MmrAccumulator::batch_mutate_leaf_and_update_mps` (`mmr_accumulator.rs`), over an abstract digest type and hash.

A membership proof is its `authentication_path : List D`.  A `HashMap<u64, Digest>` is an association list with
newest-first lookup (`AMap`); nothing that is observable depends on iteration order (the one `HashSet` iteration,
in `update_from_leaf_mutation`, is followed by `assert!(intersection.next().is_none())`, so either the intersection
has at most one element or the code panics).  `none` = panic (failed `assert!`/`unwrap`, missing map key, index out
of bounds) or non-termination.  Machine arithmetic is that of a release build (as in `TF/Model/MmrIndex.lean`).
Core Lean only.
-/
namespace TF.Model.MmrE
open TF.Gen TF.Model.Mmr

variable {D : Type} [DecidableEq D] (H : D → D → D)

/-- `HashMap<u64, Digest>` -/
abbrev AMap (D : Type) := List (Nat × D)

def AMap.get? (m : AMap D) (k : Nat) : Option D :=
  match m with
  | [] => none
  | (k', v) :: rest => if k' = k then some v else AMap.get? rest k

def AMap.insert (m : AMap D) (k : Nat) (v : D) : AMap D := (k, v) :: m

/-- `LeafMutation { leaf_index, new_leaf, membership_proof }` -/
structure LeafMutation (D : Type) where
  leaf_index : Nat
  new_leaf : D
  path : List D

/-- `MmrMembershipProof::verify(&self, leaf_index, leaf_hash, peaks, leaf_count)` -/
def memberVerify (path : List D) (leaf_index : Nat) (leaf : D) (peaks : List D) (leaf_count : Nat) : Option Bool :=
  if leaf_index ≥ leaf_count then some false else
  let mp := leaf_index_to_mt_index_and_peak_index leaf_index leaf_count
  if peaks.length ≥ 2 ^ 32 then none else                              -- `len().try_into::<u32>().unwrap()`
  if TF.popCount leaf_count ≠ peaks.length then some false else
  if Nat.log2 mp.1 ≠ path.length then some false else
  match foldMt H descentFuel mp.1 leaf path with
  | none => none
  | some acc =>
    match peaks[mp.2]? with
    | none => none                                                      -- `peaks[peak_index as usize]`
    | some p => some (p == acc)

/-- `get_peak_index_and_height`: node index of the peak the proof points to, and the path length as `u32` -/
def getPeakIndexAndHeight (path : List D) (leaf_index : Nat) : Option (Nat × Nat) :=
  match get_direct_path_indices leaf_index path.length with
  | none => none
  | some l => match l.getLast? with
    | none => none
    | some x => some (x, path.length % W32)

/-- digests derivable from the new leaf along the freshly merged peaks: the loop of `update_from_append` (`stop` =
    the set of node indices after whose insertion the loop breaks) and of `batch_update_from_append`
    (`stopAt` = the position `added.len() - 2` at which it breaks *before* hashing) -/
def knownFromAppend (stop : List Nat) (stopAt : Option Nat) :
    List Nat → List D → Nat → D → AMap D → AMap D
  | ni :: nis, pk :: pks, count, acc, known =>
    let known' := known.insert ni acc
    if stopAt = some count then known' else
    let acc' := H pk acc
    if stop.contains ni then known' else knownFromAppend stop stopAt nis pks (count + 1) acc' known'
  | _, _, _, _, known => known

/-- look up every missing digest (`known_digests[&idx]` panics on a missing key) -/
def lookupAll (known : AMap D) : List Nat → Option (List D)
  | [] => some []
  | i :: is => match known.get? i, lookupAll known is with
    | some d, some ds => some (d :: ds)
    | _, _ => none

/-- `update_from_append(&mut self, leaf_index, old_leaf_count, new_leaf, old_peaks) -> bool`;
    result: `(updated path, returned bool)` -/
def updateFromAppend (path : List D) (leaf_index old_leaf_count : Nat) (new_leaf : D) (old_peaks : List D) :
    Option (List D × Bool) := do
  let (own_peak, own_height) ← getPeakIndexAndHeight path leaf_index
  let added ← node_indices_added_by_append old_leaf_count
  let peak_parent := add64 own_peak (shl1 (inc32 own_height))
  if !(added.contains peak_parent) then pure (path, false) else
  let new_peak_index ← added.getLast?
  let new_node_count := num_leafs_to_num_nodes (add64 old_leaf_count 1)
  let missing ← (← get_authentication_path_node_indices own_peak new_peak_index new_node_count)   -- `.unwrap()`
  let (_, old_peak_indices) ← get_peak_heights_and_peak_node_indices old_leaf_count
  let known0 : AMap D := (old_peak_indices.zip old_peaks).foldl (fun m (i, d) => m.insert i d) []
  let known := knownFromAppend H missing none added old_peaks.reverse 0 new_leaf known0
  let ext ← lookupAll known missing
  pure (path ++ ext, true)

/-- the per-proof loop of `batch_update_from_append` -/
def batchAppendLoop (added : List Nat) (new_peak_index new_node_count : Nat) (known : AMap D) :
    List (List D) → List Nat → Nat → Option (List (List D) × List Nat)
  | path :: paths, li :: lis, i => do
    let (old_peak, old_height) ← getPeakIndexAndHeight path li
    let peak_parent := add64 old_peak (shl1 (inc32 old_height))
    if !(added.contains peak_parent) then
      let (ps, ms) ← batchAppendLoop added new_peak_index new_node_count known paths lis (i + 1)
      pure (path :: ps, ms)
    else
      let missing ← (← get_authentication_path_node_indices old_peak new_peak_index new_node_count)
      let ext ← lookupAll known missing
      let (ps, ms) ← batchAppendLoop added new_peak_index new_node_count known paths lis (i + 1)
      pure ((path ++ ext) :: ps, i :: ms)
  | _, _, _ => some ([], [])

/-- `batch_update_from_append(membership_proofs, leaf_indices, old_leaf_count, new_leaf, old_peaks) -> Vec<usize>` -/
def batchUpdateFromAppend (paths : List (List D)) (leaf_indices : List Nat) (old_leaf_count : Nat) (new_leaf : D)
    (old_peaks : List D) : Option (List (List D) × List Nat) := do
  if paths.length ≠ leaf_indices.length then none else            -- assert_eq!
  if !(leaf_indices.all (· < old_leaf_count)) then none else      -- assert!
  let added ← node_indices_added_by_append old_leaf_count
  if added.length = 1 then pure (paths, []) else
  let (_, old_peak_indices) ← get_peak_heights_and_peak_node_indices old_leaf_count
  let known0 : AMap D := (old_peak_indices.zip old_peaks).foldl (fun m (i, d) => m.insert i d) []
  let known := knownFromAppend H [] (some (added.length - 2)) added old_peaks.reverse 0 new_leaf known0
  let new_peak_index ← added.getLast?
  let new_node_count := num_leafs_to_num_nodes (add64 old_leaf_count 1)
  batchAppendLoop added new_peak_index new_node_count known paths leaf_indices 0

/-- hashes deducible from a leaf mutation, walking up its path.
    `stopNode`: break *before* processing a digest when the current node is this one (`update_from_leaf_mutation`);
    `skipLast`: do not process the last digest of the path (the batch routines);
    `useMap`: take the sibling from the map when present (the batch-mutation routines);
    `insertLast`: whether the node reached by the last digest is stored (`batch_mutate_leaf_and_update_mps`: no).
    Returns the map, and the last accumulated hash. -/
def deducible (stopNode : Option Nat) (skipLast useMap insertLast : Bool) :
    List D → Nat → D → AMap D → Option (AMap D × D)
  | [], _, acc, m => some (m, acc)
  | hash :: rest, ni, acc, m =>
    if stopNode = some ni then some (m, acc) else
    if skipLast && rest.isEmpty then some (m, acc) else
    match siblingAndParent ni with
    | none => none
    | some (isRight, sib, par) =>
      let sibHash := if useMap then (m.get? sib).getD hash else hash
      let acc' := if isRight then H sibHash acc else H acc sibHash
      let m' := if rest.isEmpty && !insertLast then m else m.insert par acc'
      deducible stopNode skipLast useMap insertLast rest par acc' m'

def eraseDupsNat : List Nat → List Nat
  | [] => []
  | x :: xs => x :: (eraseDupsNat xs).filter (· ≠ x)

/-- replace the digests of a path whose node index is in the map; `onlyIfDifferent`: the batch routines compare
    first; `stopAfterFirst`: `batch_update_from_leaf_mutation` breaks after the first replacement.
    Returns the new path and whether a replacement happened. -/
def replaceFromMap (m : AMap D) (onlyIfDifferent stopAfterFirst : Bool) : List D → List Nat → List D × Bool
  | d :: ds, i :: is =>
    match m.get? i with
    | some v =>
      if onlyIfDifferent && d == v then
        let (r, b) := replaceFromMap m onlyIfDifferent stopAfterFirst ds is
        (d :: r, b)
      else if stopAfterFirst then (v :: ds, true)
      else
        let (r, _) := replaceFromMap m onlyIfDifferent stopAfterFirst ds is
        (v :: r, true)
    | none =>
      let (r, b) := replaceFromMap m onlyIfDifferent stopAfterFirst ds is
      (d :: r, b)
  | ds, _ => (ds, false)

/-- `update_from_leaf_mutation(&mut self, own_leaf_index, leaf_mutation) -> bool` -/
def updateFromLeafMutation (path : List D) (own_leaf_index : Nat) (lm : LeafMutation D) : Option (List D × Bool) := do
  let affected ← get_direct_path_indices lm.leaf_index lm.path.length
  let own_ap ← get_node_indices own_leaf_index path.length
  match (eraseDupsNat own_ap).filter (affected.contains ·) with
  | [] => pure (path, false)
  | [x] =>
    let ni := leaf_index_to_node_index lm.leaf_index
    let (m, _) ← deducible H (some x) false false true lm.path ni lm.new_leaf (AMap.insert [] ni lm.new_leaf)
    pure ((replaceFromMap m false false path own_ap).1, true)
  | _ => none                                                       -- `assert!(intersection.next().is_none())`

/-- the per-proof loop shared by the three batch mutation routines -/
def batchReplaceLoop (m : AMap D) (stopAfterFirst : Bool) :
    List (List D) → List Nat → Nat → Option (List (List D) × List Nat)
  | path :: paths, li :: lis, i => do
    let ap ← get_node_indices li path.length
    let (p', b) := replaceFromMap m true stopAfterFirst path ap
    let (ps, ms) ← batchReplaceLoop m stopAfterFirst paths lis (i + 1)
    pure (p' :: ps, if b then i :: ms else ms)
  | _, _, _ => some ([], [])

/-- `batch_update_from_leaf_mutation(membership_proofs, leaf_indices, leaf_mutation) -> Vec<u64>` -/
def batchUpdateFromLeafMutation (paths : List (List D)) (leaf_indices : List Nat) (lm : LeafMutation D) :
    Option (List (List D) × List Nat) := do
  if paths.length ≠ leaf_indices.length then none else
  let ni := leaf_index_to_node_index lm.leaf_index
  let (m, _) ← deducible H none true false true lm.path ni lm.new_leaf (AMap.insert [] ni lm.new_leaf)
  batchReplaceLoop m true paths leaf_indices 0

/-- the `while let Some(..) = leaf_mutations.pop()` loop (last mutation first) of the two batch-mutation routines;
    `forAcc`: the accumulator variant walks the whole path and writes the peak -/
def mutationsLoop (forAcc : Bool) (leaf_count : Nat) :
    List (LeafMutation D) → AMap D → List D → Option (AMap D × List D)
  | [], m, peaks => some (m, peaks)
  | lm :: rest, m, peaks => do
    let ni := leaf_index_to_node_index lm.leaf_index
    if (m.get? ni).isSome then none else                          -- duplicated leaf: `assert!(former_value.is_none())`
    let m1 := m.insert ni lm.new_leaf
    let (m2, acc) ← deducible H none (!forAcc) true false lm.path ni lm.new_leaf m1
    if forAcc then
      if !(lm.leaf_index < leaf_count) then none else             -- assert of `leaf_index_to_mt_index_and_peak_index`
      let pk := (leaf_index_to_mt_index_and_peak_index lm.leaf_index leaf_count).2
      if pk < peaks.length then mutationsLoop forAcc leaf_count rest m2 (peaks.set pk acc) else none
    else mutationsLoop forAcc leaf_count rest m2 peaks

/-- `dedup()` of a sorted-by-construction index list (consecutive duplicates) -/
def dedupConsecutive : List Nat → List Nat
  | a :: b :: rest => if a = b then dedupConsecutive (b :: rest) else a :: dedupConsecutive (b :: rest)
  | l => l

/-- `batch_update_from_batch_leaf_mutation(membership_proofs, leaf_indices, leaf_mutations) -> Vec<usize>` -/
def batchUpdateFromBatchLeafMutation (paths : List (List D)) (leaf_indices : List Nat)
    (lms : List (LeafMutation D)) : Option (List (List D) × List Nat) := do
  if paths.length ≠ leaf_indices.length then none else
  let (m, _) ← mutationsLoop H false 0 lms.reverse [] []
  batchReplaceLoop m false paths leaf_indices 0

/-- `MmrAccumulator::batch_mutate_leaf_and_update_mps(&mut self, membership_proofs, leaf_indices, mutation_data)`:
    `(new accumulator, updated proofs, modified indices)` -/
def Acc.batchMutateLeafAndUpdateMps (a : Acc D) (paths : List (List D)) (leaf_indices : List Nat)
    (lms : List (LeafMutation D)) : Option (Acc D × List (List D) × List Nat) := do
  if paths.length ≠ leaf_indices.length then none else
  if !(leaf_indices.all (· < a.count)) then none else
  let (m, peaks) ← mutationsLoop H true a.count lms.reverse [] a.peaks
  let (ps, ms) ← batchReplaceLoop m false paths leaf_indices 0
  pure ({ a with peaks := peaks }, ps, ms)

/-! ### histories (used by the history theorem of C05 and by the bounded model check of the driver)

Every leaf is tracked: the state is the accumulator and, for every leaf index in order, its membership proof. -/

/-- operations of a history -/
inductive HOp (D : Type) where
  | append (d : D)
  | mutate (i : Nat) (d : D)
  | batch (ms : List (Nat × D))

structure HState (D : Type) where
  acc : Acc D
  proofs : List (List D)            -- `proofs[i]` = membership proof of leaf `i`

/-- `mapM` over the tracked proofs with their leaf indices -/
def mapIdxM (f : Nat → List D → Option (List D)) : List (List D) → Nat → Option (List (List D))
  | [], _ => some []
  | p :: ps, i => (f i p).bind (fun p' => (mapIdxM f ps (i + 1)).bind (fun r => some (p' :: r)))

/-- one operation: every tracked proof goes through the matching update routine
    (`update_from_append` / `update_from_leaf_mutation` one by one; `batch_mutate_leaf_and_update_mps` for a batch) -/
def HState.step (st : HState D) : HOp D → Option (HState D)
  | .append d =>
    (mapIdxM (fun i p => (updateFromAppend H p i st.acc.count d st.acc.peaks).map (·.1)) st.proofs 0).bind fun ps =>
    (st.acc.append H d).bind fun r => some { acc := r.1, proofs := ps ++ [r.2] }
  | .mutate i d =>
    (st.proofs[i]?).bind fun pi =>
    (mapIdxM (fun k p => (updateFromLeafMutation H p k { leaf_index := i, new_leaf := d, path := pi }).map (·.1))
      st.proofs 0).bind fun ps =>
    (st.acc.mutateLeaf H i d pi).bind fun a => some { acc := a, proofs := ps }
  | .batch ms =>
    (ms.mapM (fun m => (st.proofs[m.1]?).map (fun pi => ({ leaf_index := m.1, new_leaf := m.2, path := pi } : LeafMutation D)))).bind
      fun lms =>
    (st.acc.batchMutateLeafAndUpdateMps H st.proofs (List.range st.proofs.length) lms).bind fun r =>
      some { acc := r.1, proofs := r.2.1 }

def HState.run (st : HState D) : List (HOp D) → Option (HState D)
  | [] => some st
  | op :: ops => (st.step H op).bind (fun st' => HState.run st' ops)

end TF.Model.MmrE
