import TF.Gen.Consts
import TF.Gen.Tip5
/-!
A *fast* executable `Tip5::hash_pair` for the MMR model drivers (families `mmrs`, `mmrp`): the same function as
`TF.Hash.hashPair` (`TF/Model/HashTip5.lean`), computed on `UInt64` words instead of `Nat` (≈ 20× faster, which is
what makes whole MMR histories affordable in the quick tier).  No theorem depends on it (all MMR theorems are over an
abstract hash); it is validated on every run against the real crate by the ops `mmrs hp` / `mmrp hp` **and** against
`TF.Hash.hashPair` by `mmrs hp2`.  Tables and constants come from `TF/Gen` (regenerated from the source).
Core Lean only.
-/
namespace TF.HashFast
open TF.Gen

def P64 : UInt64 := 0xFFFFFFFF00000001
def EPS : UInt64 := 0xFFFFFFFF

/-- `hi·2^64 + lo mod P`, canonical (`2^64 ≡ 2^32 − 1`, `2^96 ≡ −1`) -/
@[inline] def reduce128 (hi lo : UInt64) : UInt64 :=
  let hh := hi >>> 32
  let hl := hi &&& EPS
  let t0 := if lo < hh then lo - hh - EPS else lo - hh
  let t1 := hl * EPS
  let s := t0 + t1
  let t2 := if s < t0 then s + EPS else s
  if t2 ≥ P64 then t2 - P64 else t2

@[inline] def mulmod (a b : UInt64) : UInt64 :=
  let a0 := a &&& EPS
  let a1 := a >>> 32
  let b0 := b &&& EPS
  let b1 := b >>> 32
  let p00 := a0 * b0
  let p01 := a0 * b1
  let p10 := a1 * b0
  let p11 := a1 * b1
  let mid := p01 + p10
  let midc : UInt64 := if mid < p01 then 1 else 0
  let lo := p00 + (mid <<< 32)
  let loc : UInt64 := if lo < p00 then 1 else 0
  let hi := p11 + (mid >>> 32) + (midc <<< 32) + loc
  reduce128 hi lo

@[inline] def addmod (a b : UInt64) : UInt64 :=
  let s := a + b
  if s < a then s + EPS else if s ≥ P64 then s - P64 else s

/-- canonical value → Montgomery word (`v·2^64 mod P`) -/
@[inline] def toMonty (v : UInt64) : UInt64 := reduce128 v 0

/-- Montgomery word → canonical value: `montyred` with high half 0 -/
@[inline] def fromMonty (x : UInt64) : UInt64 :=
  let a := x + (x <<< 32)
  let e : UInt64 := if a < x then 1 else 0
  let b := a - (a >>> 32) - e
  let r := 0 - b
  if b ≠ 0 then r - EPS else r

def lookupArr : Array UInt64 := (LOOKUP_TABLE.map (fun n => n.toUInt64)).toArray
def rcArr : Array UInt64 := (ROUND_CONSTANTS.map (fun n => n.toUInt64)).toArray
def mdsArr : Array UInt64 := (MDS_MATRIX_FIRST_COLUMN.map (fun n => n.toUInt64)).toArray

@[inline] def lookupByte (w : UInt64) (sh : UInt64) : UInt64 :=
  (lookupArr[((w >>> sh) &&& 0xFF).toNat]!) <<< sh

def lookupWord (w : UInt64) : UInt64 :=
  lookupByte w 0 ||| lookupByte w 8 ||| lookupByte w 16 ||| lookupByte w 24 |||
  lookupByte w 32 ||| lookupByte w 40 ||| lookupByte w 48 ||| lookupByte w 56

@[inline] def sboxLookup (v : UInt64) : UInt64 := fromMonty (lookupWord (toMonty v))

@[inline] def pow7 (v : UInt64) : UInt64 :=
  let sq := mulmod v v
  let qu := mulmod sq sq
  mulmod (mulmod v sq) qu

def sboxLayer (s : Array UInt64) : Array UInt64 :=
  Array.ofFn (n := 16) fun i => if i.val < NUM_SPLIT_AND_LOOKUP then sboxLookup s[i.val]! else pow7 s[i.val]!

/-- circulant MDS product; the entries of the first column are below `2^16`, so the two 32-bit halves accumulate
    without overflow (16 terms < 2^52) -/
def mdsLayer (s : Array UInt64) : Array UInt64 :=
  Array.ofFn (n := 16) fun i => Id.run do
    let mut lo : UInt64 := 0
    let mut hi : UInt64 := 0
    for j in [0:16] do
      let m := mdsArr[(i.val + 16 - j) % 16]!
      let x := s[j]!
      lo := lo + m * (x &&& EPS)
      hi := hi + m * (x >>> 32)
    let l := lo + (hi <<< 32)
    let c : UInt64 := if l < lo then 1 else 0
    return reduce128 ((hi >>> 32) + c) l

def round (r : Nat) (s : Array UInt64) : Array UInt64 :=
  let t := mdsLayer (sboxLayer s)
  Array.ofFn (n := 16) fun i => addmod t[i.val]! rcArr[r * 16 + i.val]!

def permutation (s : Array UInt64) : Array UInt64 :=
  (List.range NUM_ROUNDS).foldl (fun st r => round r st) s

/-- `Tip5::hash_pair` on two digests given as lists of five canonical values -/
def hashPair (l r : List Nat) : List Nat :=
  let inp := (l ++ r).map (fun n => n.toUInt64)
  let st := (inp ++ List.replicate (RATE - inp.length) 0 ++ List.replicate CAPACITY 1).toArray
  ((permutation st).toList.take DIGEST_LEN).map (fun w => w.toNat)

end TF.HashFast
