/-!
Control-flow helper for the definitions regenerated from source by `tools/rs2lean_mmr.py`
(`TF/Gen/MmrProofLoops.lean`).  Core Lean only.

A Rust loop that contains `return` *and* can also end normally is regenerated as a recursive function whose result is
`Except R S`: `Except.error v` = the loop body executed `return v`, `Except.ok s` = the loop ended with the state `s` of
the variables it assigns.  `flow` is the statement after the loop: leave the function with `v`, or go on with `s`.
-/
namespace TF.RustCtl

@[inline] def flow {R S β : Type} (x : Except R S) (onRet : R → β) (onNext : S → β) : β :=
  match x with
  | .error v => onRet v
  | .ok s => onNext s

@[simp] theorem flow_error {R S β : Type} (v : R) (f : R → β) (g : S → β) : flow (.error v : Except R S) f g = f v := rfl
@[simp] theorem flow_ok {R S β : Type} (s : S) (f : R → β) (g : S → β) : flow (.ok s : Except R S) f g = g s := rfl

end TF.RustCtl
