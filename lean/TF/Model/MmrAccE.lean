import TF.Model.MmrIndex
/-!
Hand model of the parts of `MmrAccumulator` / `shared_basic.rs` that the successor-proof (C12) and membership-proof
(C05) models need, over an abstract digest type `D` and hash `H : D → D → D` (the driver instantiates
`D := List Nat`, `H := TF.Hash.hashPair`).  `none` = the Rust code panics (failed `unwrap`, index out of bounds,
failed `assert!`) or does not terminate.  Machine arithmetic is that of a release build (wrapping), as in
`TF/Model/MmrIndex.lean`; the theorems show that nothing wraps on the property's domain.

Core Lean only.
-/
namespace TF.Model.MmrE
open TF.Gen TF.Model.Mmr

/-- `MmrAccumulator { leaf_count, peaks }`; `MmrAccumulator::init(peaks, leaf_count)` builds *any* such pair -/
structure Acc (D : Type) where
  count : Nat
  peaks : List D
deriving Repr, DecidableEq

variable {D : Type} (H : D → D → D)

/-- the `while right_lineage_count != 0` loop of `calculate_new_peaks_from_append`; the peak stack is kept
    reversed (last peak first); second component: the authentication path of the new leaf -/
def mergeLoop : Nat → List D → List D → Option (List D × List D)
  | 0, st, ap => some (st, ap)
  | t+1, new :: prev :: rest, ap => mergeLoop t (H prev new :: rest) (ap ++ [prev])
  | _+1, _, _ => none          -- `peaks.pop().unwrap()` on an empty vector

/-- `calculate_new_peaks_from_append(old_leaf_count, old_peaks, new_leaf)` = `(new peaks, auth path of new leaf)` -/
def calculateNewPeaksFromAppend (old_leaf_count : Nat) (old_peaks : List D) (new_leaf : D) :
    Option (List D × List D) := do
  let t := right_lineage_length_from_leaf_index old_leaf_count
  let (st, ap) ← mergeLoop H t (new_leaf :: old_peaks.reverse) []
  pure (st.reverse, ap)

/-- `MmrAccumulator::append`: new accumulator and the membership proof of the appended leaf -/
def Acc.append (a : Acc D) (new_leaf : D) : Option (Acc D × List D) := do
  let (ps, ap) ← calculateNewPeaksFromAppend H a.count a.peaks new_leaf
  pure ({ count := add64 a.count 1, peaks := ps }, ap)

/-- `for leaf in leafs { mmra.append(leaf); }` -/
def Acc.appendAll : List D → Acc D → Option (Acc D)
  | [], a => some a
  | x :: xs, a => (a.append H x).bind (fun r => Acc.appendAll xs r.1)

/-- `MmrAccumulator::new_from_leafs` -/
def Acc.newFromLeafs : List D → Acc D → Option (Acc D)
  | [], a => some a
  | x :: xs, a => (a.append H x).bind (fun r => Acc.newFromLeafs xs r.1)

/-- the `while acc_mt_index != 1` loop shared by `MmrMembershipProof::verify` and
    `calculate_new_peaks_from_leaf_mutation`: indexes the path with `[i]` (panic when too short) -/
def foldMt : Nat → Nat → D → List D → Option D
  | 0, _, _, _ => none
  | fuel+1, mt, acc, path =>
    if mt = 1 then some acc else
    match path with
    | [] => none                   -- `authentication_path[i]` out of bounds
    | s :: ss => foldMt fuel (mt / 2) (if mt % 2 = 0 then H acc s else H s acc) ss

/-- `calculate_new_peaks_from_leaf_mutation(old_peaks, leaf_count, new_leaf, leaf_index, membership_proof)` -/
def calculateNewPeaksFromLeafMutation (old_peaks : List D) (leaf_count : Nat) (new_leaf : D) (leaf_index : Nat)
    (path : List D) : Option (List D) := do
  if !(leaf_index < leaf_count) then none      -- the `assert!` of `leaf_index_to_mt_index_and_peak_index`
  let (mt, pk) := leaf_index_to_mt_index_and_peak_index leaf_index leaf_count
  let acc ← foldMt H descentFuel mt new_leaf path
  if pk < old_peaks.length then pure (old_peaks.set pk acc) else none

/-- `MmrAccumulator::mutate_leaf` -/
def Acc.mutateLeaf (a : Acc D) (leaf_index : Nat) (new_leaf : D) (path : List D) : Option (Acc D) := do
  let ps ← calculateNewPeaksFromLeafMutation H a.peaks a.count new_leaf leaf_index path
  pure { a with peaks := ps }

end TF.Model.MmrE
