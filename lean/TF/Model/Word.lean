/-!
Helpers used by the translated definitions in `TF/Gen` (machine-integer intrinsics over `Nat`). Core Lean only.
-/
namespace TF

/-- number of bits needed to write `n` (0 for 0): `64 - n.leading_zeros()` for a `u64` -/
def bitLen (n : Nat) : Nat := if n = 0 then 0 else Nat.log2 n + 1

/-- `count_ones` -/
def popCount : Nat → Nat
  | 0 => 0
  | n+1 => (n+1) % 2 + popCount ((n+1) / 2)
decreasing_by omega

/-- `trailing_ones` -/
def trailingOnes : Nat → Nat
  | 0 => 0
  | n+1 => if (n+1) % 2 = 1 then trailingOnes ((n+1)/2) + 1 else 0
decreasing_by omega

/-- `trailing_zeros` of a `w`-bit word (`w` for 0) -/
def trailingZeros (w : Nat) (n : Nat) : Nat :=
  if n = 0 then w else
    let rec go (fuel n acc : Nat) : Nat :=
      match fuel with
      | 0 => acc
      | f+1 => if n % 2 = 1 then acc else go f (n / 2) (acc + 1)
    go w n 0

/-- `is_power_of_two` -/
def isPow2 (n : Nat) : Bool := n != 0 && (n &&& (n - 1)) == 0

end TF
