import TF.Gen.Consts
import TF.Gen.BField
/-!
Hand-written model of the parts of `b_field_element.rs` / `traits.rs` that contain loops or signed
arithmetic, on top of the *translated* word-level functions of `TF/Gen/BField.lean`.
All functions work on **raw Montgomery words** exactly like the Rust code. Core Lean only.
`none` models a panic.
-/
namespace TF.Model.BF
open TF.Gen

def zero : Nat := bfe_new 0
def one : Nat := bfe_new 1
def neg (a : Nat) : Nat := bfe_sub zero a
def square (a : Nat) : Nat := bfe_mul a a

/-- `mod_pow`: left-to-right square-and-multiply over the bits of `exp` (the recursion visits the bits in the
    same order as the `while i < bit_length` loop: prefix `exp >> i` of the exponent) -/
def modPow (a : Nat) : Nat → Nat
  | 0 => one
  | e+1 =>
    let acc := modPow a ((e+1) / 2)
    -- the source inlines `Self(Self::montyred(acc.0 as u128 * acc.0 as u128))`, textually the body of `Mul::mul`
    let acc := bfe_mul acc acc
    if (e+1) % 2 = 1 then bfe_mul acc a else acc
decreasing_by omega

/-- the inner `exp` of `inverse`: `k` squarings -/
def sqN (base : Nat) : Nat → Nat
  | 0 => base
  | k+1 => sqN (bfe_mul base base) k

/-- `Inverse::inverse` for `BFieldElement`: addition chain for `x^(p-2)`; panics on zero -/
def inverse (x : Nat) : Option Nat :=
  if x == zero then none else
  let bin_2_ones := bfe_mul (square x) x
  let bin_3_ones := bfe_mul (square bin_2_ones) x
  let bin_6_ones := bfe_mul (sqN bin_3_ones 3) bin_3_ones
  let bin_12_ones := bfe_mul (sqN bin_6_ones 6) bin_6_ones
  let bin_24_ones := bfe_mul (sqN bin_12_ones 12) bin_12_ones
  let bin_30_ones := bfe_mul (sqN bin_24_ones 6) bin_6_ones
  let bin_31_ones := bfe_mul (square bin_30_ones) x
  let bin_31_ones_1_zero := square bin_31_ones
  let bin_32_ones := bfe_mul (square bin_31_ones) x
  some (bfe_mul (sqN bin_31_ones_1_zero 32) bin_32_ones)

def inverseOrZero (x : Nat) : Nat :=
  if x == zero then zero else (inverse x).getD zero

/-- `Div`: `other.inverse() * self` -/
def div (a b : Nat) : Option Nat := (inverse b).map (fun bi => bfe_mul bi a)

/-- first loop of `batch_inversion`: `scratch[i] = acc; acc *= input[i]`, panics on a zero input -/
def batchPrefix : List Nat → Nat → Option (List Nat × Nat)
  | [], acc => some ([], acc)
  | x :: xs, acc =>
    if x == zero then none else
    match batchPrefix xs (bfe_mul acc x) with
    | some (sc, fin) => some (acc :: sc, fin)
    | none => none

/-- second loop (from the last index down): `tmp = acc * res[i]; res[i] = acc * scratch[i]; acc = tmp`.
    Lists are given reversed. -/
def batchBack : List Nat → List Nat → Nat → List Nat → List Nat
  | x :: xs, s :: ss, acc, out => batchBack xs ss (bfe_mul acc x) (bfe_mul acc s :: out)
  | _, _, _, out => out

def batchInversion (input : List Nat) : Option (List Nat) :=
  match input with
  | [] => some []
  | _ =>
    match batchPrefix input one with
    | none => none
    | some (scratch, acc) =>
      match inverse acc with
      | none => none
      | some ai => some (batchBack input.reverse scratch.reverse ai [])

/-- `From<u128>` -/
def fromU128 (x : Nat) : Nat := bfe_new (mod_reduce x)

/-- `From<i64>` (argument as a mathematical integer in the `i64` range) -/
def fromI64 (v : Int) : Nat :=
  if v ≥ 0 then fromU128 v.toNat
  else fromU128 ((2^128 - (-v).toNat) - R2)     -- `(value as u128) - R2 as u128`

/-- `bfe_to_i64` -/
def toI64 (a : Nat) : Int :=
  let v := bfe_value a
  if v ≤ 2^63 - 1 then (v : Int) else (v : Int) - (P : Int)

/-- `TryFrom<BFieldElement>` for an unsigned type of `bits` bits -/
def tryIntoU (bits : Nat) (a : Nat) : Option Nat :=
  let v := bfe_value a
  if v < 2^bits then some v else none

/-- `TryFrom<BFieldElement>` for a signed type of `bits` bits: `iN::try_from(u64)` -/
def tryIntoI (bits : Nat) (a : Nat) : Option Nat :=
  let v := bfe_value a
  if v < 2^(bits-1) then some v else none

/-- `Sum` -/
def sum (xs : List Nat) : Nat :=
  match xs with
  | [] => zero
  | x :: rest => rest.foldl bfe_add x

/-- `power_accumulator::<N, M>` on one lane -/
def powerAccumulator (m : Nat) (base tail : Nat) : Nat :=
  bfe_mul (sqN base m) tail

end TF.Model.BF
