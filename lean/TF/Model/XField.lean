import TF.Model.BField
/-!
Model of `x_field_element.rs` over raw Montgomery words: triples `(c0, c1, c2)`.
Inversion in the Rust code goes through the polynomial extended gcd; it is modelled step by step in
`TF/Model/XFieldInv.lean` (`XF.inverse`, `XF.inverseOrZero`, `XF.div`) on top of the C09 polynomial models.
Everything follows the Rust code operation by operation.
-/
namespace TF.Model.XF
open TF.Gen TF.Model.BF

abbrev X3 := Nat × Nat × Nat

def zero : X3 := (BF.zero, BF.zero, BF.zero)
def one : X3 := (BF.one, BF.zero, BF.zero)
def lift (a : Nat) : X3 := (a, BF.zero, BF.zero)
def unlift (a : X3) : Option Nat := if a.2.1 == BF.zero && a.2.2 == BF.zero then some a.1 else none

def add (a b : X3) : X3 := (bfe_add a.1 b.1, bfe_add a.2.1 b.2.1, bfe_add a.2.2 b.2.2)
def sub (a b : X3) : X3 := (bfe_sub a.1 b.1, bfe_sub a.2.1 b.2.1, bfe_sub a.2.2 b.2.2)
def neg (a : X3) : X3 := (BF.neg a.1, BF.neg a.2.1, BF.neg a.2.2)
def addB (a : X3) (b : Nat) : X3 := (bfe_add a.1 b, a.2.1, a.2.2)
def subB (a : X3) (b : Nat) : X3 := (bfe_sub a.1 b, a.2.1, a.2.2)
/-- `BFieldElement - XFieldElement` -/
def bSub (b : Nat) (a : X3) : X3 := (bfe_sub b a.1, BF.neg a.2.1, BF.neg a.2.2)
def mulB (a : X3) (k : Nat) : X3 := (bfe_mul a.1 k, bfe_mul a.2.1 k, bfe_mul a.2.2 k)

/-- `Mul<XFieldElement> for XFieldElement`, the three result expressions as in the source -/
def mul (s o : X3) : X3 :=
  let (c, b, a) := s
  let (f, e, d) := o
  let r0 := bfe_sub (bfe_sub (bfe_mul c f) (bfe_mul a e)) (bfe_mul b d)
  let r1 := bfe_add (bfe_add (bfe_sub (bfe_add (bfe_mul b f) (bfe_mul c e)) (bfe_mul a d)) (bfe_mul a e)) (bfe_mul b d)
  let r2 := bfe_add (bfe_add (bfe_add (bfe_mul a f) (bfe_mul b e)) (bfe_mul c d)) (bfe_mul a d)
  (r0, r1, r2)

/-- `mod_pow_u64`: right-to-left binary exponentiation with fuel 64 -/
def modPowAux : Nat → X3 → X3 → Nat → X3
  | 0, _, result, _ => result
  | fuel+1, x, result, i =>
    if i == 0 then result else
    let result := if i % 2 == 1 then mul result x else result
    modPowAux fuel (mul x x) result (i / 2)

def modPow (a : X3) (e : Nat) : X3 := modPowAux 64 a one e

end TF.Model.XF
