import TF.Gen.Consts
import TF.Model.Word
import TF.Spec.Field
/-!
Model of `twenty-first/src/math/ntt.rs` (C06): `ntt`, `intt`, `ntt_unchecked`, `bitreverse`, `bitreverse_usize`,
`bitreverse_order`, `ntt_noswap`, `intt_noswap`, `unscale`, and `primitive_root_of_unity`.

One model, generic over a record of ring operations `Ops σ α` (`σ` = the scalars the twiddle factors live in, in the
Rust code always `BFieldElement`; `α` = the element type `FF: FiniteField + MulAssign<BFieldElement>`).  The driver runs
it on base-field values (`bOps`) and on extension-field triples (`xOps`); the theorems instantiate it with the
operations of an arbitrary commutative ring (`TF/Proofs/Ntt.lean`).

The in-place butterfly loops of the Rust code are written as one `Array.ofFn` pass per stage (every index pair
`(k+j, k+j+m)` is written exactly once per stage, so the in-place update and the functional pass coincide; that step is
tied by the correspondence check, not proved).  The bit-reversal swap loop is modelled as the loop it is.
`none` models a panic.  Core Lean only.
-/
namespace TF.Model.Ntt
open TF.Gen

/-- the operations the transforms use -/
structure Ops (σ α : Type) where
  szero : σ
  sone : σ
  smul : σ → σ → σ
  /-- `mod_pow_u32` -/
  spow : σ → Nat → σ
  /-- `Inverse::inverse` (panics on zero) -/
  sinv : σ → Option σ
  /-- `inverse_or_zero` -/
  sinv0 : σ → σ
  /-- `BFieldElement::from(usize)` / `BFieldElement::new(len as u64)` -/
  sofNat : Nat → σ
  zero : α
  add : α → α → α
  sub : α → α → α
  /-- `v *= w` for a `BFieldElement` `w` -/
  scale : σ → α → α

/-- `bitreverse(n, l)` and `bitreverse_usize(n, l)`: `l` rounds of `r = (r << 1) | (n & 1); n >>= 1`
    (`(r << 1) | b = 2r + b` for a bit `b`; `r < 2^l` so nothing overflows for `l ≤ 32` resp. `64`) -/
def bitrevAux : Nat → Nat → Nat → Nat
  | 0, _, r => r
  | l+1, n, r => bitrevAux l (n / 2) (2 * r + n % 2)

def bitreverse (n l : Nat) : Nat := bitrevAux l n 0

/-- the loop `for k in 0..len { let rk = bitreverse(k, log); if k < rk { x.swap(rk, k) } }`;
    `swap` panics when `rk` is out of bounds -/
def swapLoop {α : Type} (log : Nat) : Nat → Nat → Array α → Option (Array α)
  | 0, _, a => some a
  | fuel+1, k, a =>
    let rk := bitreverse k log
    if k < rk then
      if h : rk < a.size ∧ k < a.size then swapLoop log fuel (k+1) (a.swap rk k h.1 h.2) else none
    else swapLoop log fuel (k+1) a

def bitrevPermute {α : Type} (a : Array α) (log : Nat) : Option (Array α) := swapLoop log a.size 0 a

/-- `[1, w, w², …]` (`m` entries) by repeated `w *= w_m` -/
def powersAux {σ α : Type} (ops : Ops σ α) (w : σ) : Nat → σ → Array σ → Array σ
  | 0, _, acc => acc
  | k+1, cur, acc => powersAux ops w k (ops.smul cur w) (acc.push cur)

def powers {σ α : Type} (ops : Ops σ α) (w : σ) (m : Nat) : Array σ := powersAux ops w m ops.sone (Array.mkEmpty m)

/-- one butterfly stage with half-block size `m`; `tw[j]` is the twiddle of position `j` in a block:
    `x[k+j] = u + w·v; x[k+j+m] = u - w·v` with `u = x[k+j]`, `v = x[k+j+m]`.
    (All indices read are in range whenever `2m` divides the length; `getD` is never hit on the lengths the public
    functions admit.) -/
def stage {σ α : Type} (ops : Ops σ α) (m : Nat) (tw : Array σ) (x : Array α) : Array α :=
  Array.ofFn (n := x.size) fun i =>
    let idx := i.val
    let j := idx % m
    let base := idx - idx % (2*m)
    let u := x.getD (base + j) ops.zero
    let v := ops.scale (tw.getD j ops.szero) (x.getD (base + j + m) ops.zero)
    if idx % (2*m) < m then ops.add u v else ops.sub u v

/-- the stage loop `m = 1; for _ in 0..log { w_m = omega^(n/(2m)); …; m *= 2 }` -/
def stagesLoop {σ α : Type} (ops : Ops σ α) (omega : σ) (n : Nat) : Nat → Nat → Array α → Array α
  | 0, _, x => x
  | f+1, m, x =>
    let w_m := ops.spow omega (n / (2*m))
    stagesLoop ops omega n f (2*m) (stage ops m (powers ops w_m m) x)

/-- `ntt_unchecked(x, omega, log2_slice_len)` -/
def nttUnchecked {σ α : Type} (ops : Ops σ α) (x : Array α) (omega : σ) (log : Nat) : Option (Array α) :=
  (bitrevPermute x log).map fun y => stagesLoop ops omega x.size log 1 y

/-- `ntt`: length must fit a `u32` and be 0 or a power of two; the root comes from the table -/
def ntt {σ α : Type} (ops : Ops σ α) (root : Nat → Option σ) (x : Array α) : Option (Array α) :=
  if 2^32 ≤ x.size then none
  else if !(x.size == 0 || TF.isPow2 x.size) then none
  else
    let log := if x.size == 0 then 0 else Nat.log2 x.size
    match root x.size with
    | none => none
    | some omega => nttUnchecked ops x omega log

/-- `intt`: the same with `omega.inverse()`, then every element `*= BFieldElement::from(len).inverse_or_zero()` -/
def intt {σ α : Type} (ops : Ops σ α) (root : Nat → Option σ) (x : Array α) : Option (Array α) :=
  if 2^32 ≤ x.size then none
  else if !(x.size == 0 || TF.isPow2 x.size) then none
  else
    let log := if x.size == 0 then 0 else Nat.log2 x.size
    match root x.size with
    | none => none
    | some omega =>
      match ops.sinv omega with
      | none => none
      | some oi =>
        match nttUnchecked ops x oi log with
        | none => none
        | some y =>
          let ninv := ops.sinv0 (ops.sofNat x.size)
          some (y.map (ops.scale ninv))

/-- `while (1 << logn) < len { logn += 1 }` -/
def ceilLog2Aux (n : Nat) : Nat → Nat → Nat
  | 0, l => l
  | f+1, l => if 2^l < n then ceilLog2Aux n f (l+1) else l

def ceilLog2 (n : Nat) : Nat := ceilLog2Aux n n 0

/-- `bitreverse_order`: any length; a swap target beyond the end panics -/
def bitreverseOrder {α : Type} (a : Array α) : Option (Array α) := bitrevPermute a (ceilLog2 a.size)

/-- `for i in 0..n/2 { p[bitreverse_usize(i, logn-1)] = omegai; omegai *= omega }` on `vec![ZERO; n]` -/
def powersBitrevAux {σ α : Type} (ops : Ops σ α) (omega : σ) (lg : Nat) : Nat → Nat → σ → Array σ → Option (Array σ)
  | 0, _, _, acc => some acc
  | f+1, i, cur, acc =>
    let idx := bitreverse i lg
    if idx < acc.size then powersBitrevAux ops omega lg f (i+1) (ops.smul cur omega) (acc.setIfInBounds idx cur)
    else none

def powersBitrev {σ α : Type} (ops : Ops σ α) (omega : σ) (n logn : Nat) : Option (Array σ) :=
  powersBitrevAux ops omega (logn - 1) (n / 2) 0 ops.sone (Array.replicate n ops.szero)

/-- one stage of `ntt_noswap`: blocks of size `2t`, block `i` uses `zeta = p[i]`:
    `x[j] = u + zeta·v; x[j+t] = u - zeta·v` with `u = x[j]`, `v = x[j+t]`, `j ∈ [2it, 2it+t)` -/
def stageNoswap {σ α : Type} (ops : Ops σ α) (t : Nat) (zetas : Array σ) (x : Array α) : Array α :=
  Array.ofFn (n := x.size) fun i =>
    let idx := i.val
    let zeta := zetas.getD (idx / (2*t)) ops.szero
    if idx % (2*t) < t then ops.add (x.getD idx ops.zero) (ops.scale zeta (x.getD (idx + t) ops.zero))
    else ops.sub (x.getD (idx - t) ops.zero) (ops.scale zeta (x.getD idx ops.zero))

/-- `m = 1; t = n; while m < n { t >>= 1; …; m *= 2 }` -/
def noswapLoop {σ α : Type} (ops : Ops σ α) (zetas : Array σ) (n : Nat) : Nat → Nat → Nat → Array α → Array α
  | 0, _, _, x => x
  | f+1, m, t, x =>
    if m < n then noswapLoop ops zetas n f (2*m) (t/2) (stageNoswap ops (t/2) zetas x) else x

/-- `ntt_noswap` (release build: the `debug_assert!` is not compiled; a length that is not in the root table
    panics in `unwrap`) -/
def nttNoswap {σ α : Type} (ops : Ops σ α) (root : Nat → Option σ) (x : Array α) : Option (Array α) :=
  let n := x.size
  match root n with
  | none => none
  | some omega =>
    let logn := ceilLog2 n
    match powersBitrev ops omega n logn with
    | none => none
    | some zetas => some (noswapLoop ops zetas n n 1 n x)

/-- `intt_noswap`: the butterfly stages of `ntt_unchecked` with the inverse root, no swap loop, no scaling -/
def inttNoswap {σ α : Type} (ops : Ops σ α) (root : Nat → Option σ) (x : Array α) : Option (Array α) :=
  let n := x.size
  match root n with
  | none => none
  | some omega =>
    match ops.sinv omega with
    | none => none
    | some oi => some (stagesLoop ops oi n (ceilLog2 n) 1 x)

/-- `unscale`: `ninv = BFieldElement::new(len).inverse()` panics for the empty array -/
def unscale {σ α : Type} (ops : Ops σ α) (x : Array α) : Option (Array α) :=
  match ops.sinv (ops.sofNat x.size) with
  | none => none
  | some ninv => some (x.map (ops.scale ninv))

/-- `BFieldElement::primitive_root_of_unity`: lookup in the translated table -/
def rootTable : List (Nat × Nat) → Nat → Option Nat
  | [], _ => none
  | (k, r) :: rest, n => if k == n then some r else rootTable rest n

def primitiveRoot (n : Nat) : Option Nat := if 2^64 ≤ n then none else rootTable PRIMITIVE_ROOTS n

/-! ### the two instances the driver runs (canonical values, `TF/Spec/Field.lean`) -/

def bInv (a : Nat) : Option Nat := if a % P == 0 then none else some (Spec.finv a)
def bInv0 (a : Nat) : Nat := if a % P == 0 then 0 else Spec.finv a

def bOps : Ops Nat Nat where
  szero := 0
  sone := 1
  smul := Spec.fmul
  spow := Spec.fpow
  sinv := bInv
  sinv0 := bInv0
  sofNat := fun n => n % P
  zero := 0
  add := Spec.fadd
  sub := Spec.fsub
  scale := Spec.fmul

def xOps : Ops Nat Spec.X3 where
  szero := 0
  sone := 1
  smul := Spec.fmul
  spow := Spec.fpow
  sinv := bInv
  sinv0 := bInv0
  sofNat := fun n => n % P
  zero := Spec.xzero
  add := Spec.xadd
  sub := Spec.xsub
  scale := Spec.xscale

end TF.Model.Ntt
