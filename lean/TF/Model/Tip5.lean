import TF.Gen.Consts
import TF.Gen.BField
import TF.Gen.Tip5
/-!
Hand-written model of `Tip5` (`twenty-first/src/math/tip5.rs`) on **raw Montgomery words**, exactly like the
Rust state `[BFieldElement; 16]` (a `BFieldElement` is a `u64` holding `value · 2^64 mod P`).

Translated from source on every run and only *used* here (`TF/Gen`): `LOOKUP_TABLE`, `ROUND_CONSTANTS` (arguments of
`BFieldElement::new`), `generated_function` (wrapping `u64` = Lean `UInt64`), `mds_recombine` (body of the `for r` loop
of `mds_generated`), `bfe_new`, `bfe_mul`, `bfe_add`.
Modelled by hand (tied by the correspondence check, family `tip5`): the byte split, the lane wiring of the S-box
layer, the limb split and the two calls of `generated_function`, the round-constant indexing, the round loop, the
trace, the fixed-length hashes.  Core Lean only; every index is in range by construction (no defaults).
-/
namespace TF.Model.Tip5
open TF.Gen

/-- the sizes the model is written for; if the source changes one of them this file no longer compiles -/
theorem sizes_ok : STATE_SIZE = 16 ∧ NUM_SPLIT_AND_LOOKUP = 4 ∧ NUM_ROUNDS = 5 ∧ RATE = 10 ∧ CAPACITY = 6 ∧
    DIGEST_LEN = 5 ∧ BFE_BYTES = 8 := by decide

theorem lookup_table_len : LOOKUP_TABLE.length = 256 := by decide +kernel
theorem round_constants_len : ROUND_CONSTANTS.length = 80 := by decide +kernel

/-- the sponge state: 16 raw words -/
abbrev State := Vector Nat 16

/-- `LOOKUP_TABLE[b as usize]` for a byte `b` -/
def lookup (b : Fin 256) : Nat := LOOKUP_TABLE[b.val]'(by rw [lookup_table_len]; exact b.isLt)

/-- apply `f` to each of the `n` low bytes of `w` (little endian) and reassemble:
    `to_le_bytes`, the `for i in 0..8` loop of `split_and_lookup`, `from_le_bytes` -/
def mapBytes (f : Fin 256 → Nat) : Nat → Nat → Nat
  | 0, _ => 0
  | n+1, w => f ⟨w % 256, Nat.mod_lt _ (by decide)⟩ + 256 * mapBytes f n (w / 256)

/-- `Tip5::split_and_lookup` on the raw word -/
def split_and_lookup (w : Nat) : Nat := mapBytes lookup 8 w

/-- the power-map lane of `sbox_layer`: `sq = x*x; qu = sq*sq; x *= sq*qu` -/
def pow7 (x : Nat) : Nat :=
  let sq := bfe_mul x x
  let qu := bfe_mul sq sq
  bfe_mul x (bfe_mul sq qu)

/-- `Tip5::sbox_layer` -/
def sbox_layer (s : State) : State :=
  Vector.ofFn fun i : Fin 16 => if i.val < NUM_SPLIT_AND_LOOKUP then split_and_lookup s[i] else pow7 s[i]

/-- `b & 0xffffffff` -/
def limbLo (w : Nat) : UInt64 := UInt64.ofNat (w % 4294967296)
/-- `b >> 32` (for a 64-bit word) -/
def limbHi (w : Nat) : UInt64 := UInt64.ofNat (w / 4294967296)

theorem generated_function_len (x0 x1 x2 x3 x4 x5 x6 x7 x8 x9 x10 x11 x12 x13 x14 x15 : UInt64) :
    (generated_function x0 x1 x2 x3 x4 x5 x6 x7 x8 x9 x10 x11 x12 x13 x14 x15).length = 16 := rfl

/-- `mds::generated_function(&x)` for a 16-element array -/
def genFn (x : Vector UInt64 16) : Vector UInt64 16 :=
  ⟨(generated_function x[0] x[1] x[2] x[3] x[4] x[5] x[6] x[7] x[8] x[9] x[10] x[11] x[12] x[13] x[14] x[15]).toArray,
   by rw [List.size_toArray]; exact generated_function_len ..⟩

/-- `Tip5::mds_generated` -/
def mds_generated (s : State) : State :=
  let lo := genFn (s.map limbLo)
  let hi := genFn (s.map limbHi)
  Vector.ofFn fun r : Fin 16 => mds_recombine lo[r].toNat hi[r].toNat

/-- `ROUND_CONSTANTS[round_index * STATE_SIZE + i]` as a raw word (`BFieldElement::new` of the listed value) -/
def roundConstant (r : Fin 5) (i : Fin 16) : Nat :=
  bfe_new (ROUND_CONSTANTS[r.val * 16 + i.val]'(by
    rw [round_constants_len]; have := r.isLt; have := i.isLt; omega))

/-- `Tip5::round` -/
def round (r : Fin 5) (s : State) : State :=
  let m := mds_generated (sbox_layer s)
  Vector.ofFn fun i : Fin 16 => bfe_add m[i] (roundConstant r i)

/-- the states after each of the rounds `rs`, starting from `s` -/
def traceFrom : List (Fin 5) → State → List State
  | [], _ => []
  | r :: rs, s => let s' := round r s; s' :: traceFrom rs s'

/-- `Tip5::trace`: the initial state and the state after each round -/
def trace (s : State) : List State := s :: traceFrom (List.finRange 5) s

/-- `Tip5::permutation` -/
def permutation (s : State) : State := (List.finRange 5).foldl (fun s r => round r s) s

def zero : Nat := bfe_new 0
def one : Nat := bfe_new 1

/-- `Tip5::new(Domain::FixedLength)` with the first ten elements overwritten by `input` -/
def fixedLengthState (input : Vector Nat 10) : State :=
  Vector.ofFn fun i : Fin 16 => if h : i.val < 10 then input[i.val] else one

/-- `Tip5::hash_10` -/
def hash_10 (input : Vector Nat 10) : Vector Nat 5 :=
  let out := permutation (fixedLengthState input)
  Vector.ofFn fun i : Fin 5 => out[i.val]

/-- `Tip5::hash_pair` -/
def hash_pair (left right : Vector Nat 5) : Vector Nat 5 :=
  hash_10 (Vector.ofFn fun i : Fin 10 => if h : i.val < 5 then left[i.val] else right[i.val - 5])

/-- `Digest::hash`: `Tip5::hash_pair(self, Digest::ALL_ZERO)` -/
def digest_hash (d : Vector Nat 5) : Vector Nat 5 := hash_pair d (Vector.replicate 5 zero)

/-- `Tip5::new(Domain::VariableLength)` -/
def varlenState : State := Vector.replicate 16 zero

/-- `Sponge::absorb`: overwrite the rate part, permute -/
def absorb (s : State) (chunk : Vector Nat 10) : State :=
  permutation (Vector.ofFn fun i : Fin 16 => if h : i.val < 10 then chunk[i.val] else s[i])

/-- absorb a list chunk-wise; `none` if the length is not a multiple of 10 (cannot happen after padding) -/
def absorbAll (fuel : Nat) (s : State) (xs : List Nat) : Option State :=
  match fuel with
  | 0 => if xs.isEmpty then some s else none
  | fuel+1 =>
    if xs.isEmpty then some s else
    if h : (xs.take 10).length = 10 then
      absorbAll fuel (absorb s ⟨(xs.take 10).toArray, by rw [List.size_toArray]; exact h⟩) (xs.drop 10)
    else none

/-- `Tip5::hash_varlen` (padding `1, 0, 0, …` to the next multiple of `RATE`, absorb, first five of the squeeze) -/
def hash_varlen (input : List Nat) : Option (Vector Nat 5) :=
  let padLen := (input.length + 1 + 9) / 10 * 10
  let padded := input ++ one :: List.replicate (padLen - input.length - 1) zero
  (absorbAll (padLen / 10) varlenState padded).map fun s => Vector.ofFn fun i : Fin 5 => s[i.val]

end TF.Model.Tip5
