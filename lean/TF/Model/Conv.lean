import TF.Gen.Consts
/-!
Hand-written executable model of the conversions of `Digest`, `BFieldElement` and `XFieldElement` (C20):
`twenty-first/src/math/digest.rs`, `b_field_element.rs` (bytes / `FromStr`), `x_field_element.rs` (`TryFrom<Digest>`).
Core Lean only.

A field element is its canonical value (`< P`); a digest is the list of its five canonical values, index 0 first.
Bytes are naturals `< 256`. Strings are `List Char`. `none` is `Err(_)` (no function here panics).
External functions are modelled by what this code can observe of them: `u64::from_str` (`parseU64`: optional leading
`+`, at least one ASCII digit, nothing else, value `≤ u64::MAX`), `u64::to_string` (`toDecimal`), `hex::encode`
(lower case, two characters per byte), `hex::decode` (even length; `0-9a-fA-F`), `str::split(',')`, `to_le_bytes`,
`from_le_bytes`, `chunks_exact`.
-/
namespace TF.Conv
open TF.Gen (P)

def U64MAX : Nat := 18446744073709551615

/-! ### bytes -/

/-- `to_le_bytes` of an `n`-byte integer -/
def leBytes : Nat → Nat → List Nat
  | 0, _ => []
  | n+1, v => (v % 256) :: leBytes n (v / 256)

/-- `from_le_bytes` -/
def ofLeBytes : List Nat → Nat
  | [] => 0
  | b :: bs => b + 256 * ofLeBytes bs

/-- `BFieldElement::try_new`: canonical or error -/
def bfeTryNew (v : Nat) : Option Nat := if v < P then some v else none

/-- `From<BFieldElement> for [u8; 8]` -/
def bfeToBytes (v : Nat) : List Nat := leBytes 8 v

/-- `TryFrom<&[u8]> for BFieldElement`: exactly 8 bytes, then `try_new(u64::from_le_bytes(..))` -/
def bfeFromBytes (bs : List Nat) : Option Nat :=
  if bs.length ≠ 8 then none else bfeTryNew (ofLeBytes bs)

/-- `From<Digest> for [u8; 40]`: `innards.map(to bytes).concat()` -/
def digestToBytes (d : List Nat) : List Nat := (d.map bfeToBytes).flatten

/-- `chunks_exact(k)` (the incomplete tail is dropped); `fuel` bounds the number of chunks -/
def chunksAux (k : Nat) : Nat → List Nat → List (List Nat)
  | 0, _ => []
  | f+1, l => if l.length < k ∨ k = 0 then [] else l.take k :: chunksAux k f (l.drop k)

def chunksExact (k : Nat) (l : List Nat) : List (List Nat) := chunksAux k l.length l

/-- `TryFrom<[u8; 40]> for Digest`: every 8-byte chunk through `BFieldElement::try_from(&[u8])` -/
def digestFromByteArray (bs : List Nat) : Option (List Nat) := (chunksExact 8 bs).mapM bfeFromBytes

/-- `TryFrom<&[u8]> for Digest`: exactly 40 bytes -/
def digestFromBytes (bs : List Nat) : Option (List Nat) :=
  if bs.length ≠ 40 then none else digestFromByteArray bs

/-- `TryFrom<&[BFieldElement]>` / `TryFrom<Vec<BFieldElement>>`: exactly five elements -/
def digestFromVec (v : List Nat) : Option (List Nat) := if v.length = 5 then some v else none

/-! ### hex -/

/-- `hex::encode`: two lower-case characters per byte -/
def hexEncode (bs : List Nat) : List Char := bs.flatMap fun b => [Nat.digitChar (b / 16), Nat.digitChar (b % 16)]

/-- `hex::encode_upper` -/
def hexEncodeUpper (bs : List Nat) : List Char := (hexEncode bs).map Char.toUpper

/-- value of one hex character as `hex::decode` sees it -/
def hexVal (c : Char) : Option Nat :=
  if 'A' ≤ c ∧ c ≤ 'F' then some (c.toNat - 65 + 10)
  else if 'a' ≤ c ∧ c ≤ 'f' then some (c.toNat - 97 + 10)
  else if '0' ≤ c ∧ c ≤ '9' then some (c.toNat - 48)
  else none

def hexPairs : List Char → Option (List Nat)
  | c1 :: c2 :: rest =>
    (hexVal c1).bind fun hi => (hexVal c2).bind fun lo => (hexPairs rest).bind fun r => some ((hi * 16 + lo) :: r)
  | _ => some []

/-- `hex::decode`: odd length is an error, then pairs -/
def hexDecode (s : List Char) : Option (List Nat) := if s.length % 2 ≠ 0 then none else hexPairs s

/-- `Digest::to_hex` / `{:x}` -/
def digestToHex (d : List Nat) : List Char := hexEncode (digestToBytes d)
/-- `{:X}` -/
def digestToHexUpper (d : List Nat) : List Char := hexEncodeUpper (digestToBytes d)

/-- `Digest::try_from_hex` -/
def digestFromHex (s : List Char) : Option (List Nat) := (hexDecode s).bind digestFromBytes

/-! ### decimal strings -/

/-- decimal digits of `v`, most significant first (`fuel` > number of digits) -/
def decDigitsAux : Nat → Nat → List Nat
  | 0, _ => []
  | f+1, v => if v < 10 then [v] else decDigitsAux f (v / 10) ++ [v % 10]

/-- `u64::to_string` -/
def toDecimal (v : Nat) : List Char := (decDigitsAux (v + 1) v).map Nat.digitChar

/-- `to_digit(10)` -/
def digitVal (c : Char) : Option Nat := if '0' ≤ c ∧ c ≤ '9' then some (c.toNat - 48) else none

/-- the accumulation loop of `u64::from_str_radix(_, 10)` with its overflow checks -/
def parseDigits : Nat → List Char → Option Nat
  | acc, [] => some acc
  | acc, c :: cs => (digitVal c).bind fun x =>
      let r := acc * 10 + x
      if r > U64MAX then none else parseDigits r cs

/-- `u64::from_str`: empty, a lone sign, a `-`, any non-digit and overflow are errors; one leading `+` is accepted -/
def parseU64 (s : List Char) : Option Nat :=
  match s with
  | [] => none
  | [c] => if c = '+' ∨ c = '-' then none else parseDigits 0 [c]
  | c :: rest => if c = '+' then parseDigits 0 rest else parseDigits 0 (c :: rest)

/-- `BFieldElement::from_str` -/
def bfeFromStr (s : List Char) : Option Nat := (parseU64 s).bind bfeTryNew

/-- `str::split(',')` -/
def splitComma : List Char → List (List Char)
  | [] => [[]]
  | c :: cs =>
    if c = ',' then [] :: splitComma cs
    else match splitComma cs with
      | [] => [[c]]
      | h :: t => (c :: h) :: t

/-- `join(",")` -/
def joinComma : List (List Char) → List Char
  | [] => []
  | [x] => x
  | x :: y :: rest => x ++ ',' :: joinComma (y :: rest)

/-- `Display for Digest` (after the fix of F8): canonical values, comma separated -/
def digestToString (d : List Nat) : List Char := joinComma (d.map toDecimal)

/-- `Digest::from_str`: every item must parse (first), then exactly five -/
def digestFromStr (s : List Char) : Option (List Nat) :=
  ((splitComma s).mapM bfeFromStr).bind fun l => if l.length = 5 then some l else none

/-! ### big integers and order -/

/-- `From<Digest> for BigUint`: Horner from the last element -/
def digestToNat (d : List Nat) : Nat := d.reverse.foldl (fun acc x => acc * P + x) 0

/-- the loop of `TryFrom<BigUint>`: `n` times `(remaining % P, remaining /= P)` -/
def takeBaseP : Nat → Nat → List Nat × Nat
  | 0, v => ([], v)
  | n+1, v => let r := takeBaseP n (v / P); ((v % P) :: r.1, r.2)

/-- `TryFrom<BigUint> for Digest`: `Overflow` unless nothing remains -/
def digestFromNat (v : Nat) : Option (List Nat) :=
  let r := takeBaseP 5 v
  if r.2 ≠ 0 then none else some r.1

/-- `Iterator::cmp` -/
def lexCmp : List Nat → List Nat → Ordering
  | [], [] => .eq
  | [], _ :: _ => .lt
  | _ :: _, [] => .gt
  | x :: xs, y :: ys =>
    match compare x y with
    | .eq => lexCmp xs ys
    | o => o

/-- `Ord for Digest`: reversed values, lexicographic (last element most significant) -/
def digestCmp (a b : List Nat) : Ordering := lexCmp a.reverse b.reverse

/-! ### extension-field elements -/

/-- `From<XFieldElement> for Digest` -/
def xfeToDigest (x : Nat × Nat × Nat) : List Nat := [x.1, x.2.1, x.2.2, 0, 0]

/-- `TryFrom<Digest> for XFieldElement` -/
def xfeFromDigest : List Nat → Option (Nat × Nat × Nat)
  | [c0, c1, c2, z0, z1] => if z0 ≠ 0 ∨ z1 ≠ 0 then none else some (c0, c1, c2)
  | _ => none

/-! ### serde forms (external crates; tied by correspondence only) -/

/-- serde_json of a digest: the hex string in quotes -/
def jsonDigest (d : List Nat) : List Char := '"' :: digestToHex d ++ ['"']

/-- bincode (fixint) of a digest / element: the values as little-endian `u64` -/
def bincodeDigest (d : List Nat) : List Nat := (d.map (leBytes 8)).flatten

/-- bincode deserialisation of `[BFieldElement; 5]`: five `u64` (trailing bytes allowed), each through `new` (reduced) -/
def bincodeDigestDe (bs : List Nat) : Option (List Nat) :=
  if bs.length < 40 then none else some ((chunksExact 8 (bs.take 40)).map fun c => ofLeBytes c % P)

def bincodeBfeDe (bs : List Nat) : Option Nat :=
  if bs.length < 8 then none else some (ofLeBytes (bs.take 8) % P)

/-- serde_json deserialisation of an element from a plain decimal numeral without sign or leading zeros -/
def jsonBfeDe (v : Nat) : Option Nat := if v ≤ U64MAX then some (v % P) else none

/-! ### accessors / constructors (C20 audit): `new`, `values`, `reversed`, `Default`, `From<Digest> for Vec` -/

/-- `Digest::reversed`: `Digest([d4, d3, d2, d1, d0])`; `none` = not five elements (cannot be expressed in Rust) -/
def digestReversed : List Nat → Option (List Nat)
  | [d0, d1, d2, d3, d4] => some [d4, d3, d2, d1, d0]
  | _ => none

/-- `Default` = `ALL_ZERO` = `[BFieldElement::ZERO; LEN]` -/
def digestDefault : List Nat := List.replicate TF.Gen.DIGEST_LEN 0

/-- `From<Digest> for Vec<BFieldElement>` (`val.0.to_vec()`), `Digest::values`, `Digest::new` are the identity on the
    five elements -/
def digestToVec (d : List Nat) : List Nat := d

/-- `Digest::BYTES = LEN * BFieldElement::BYTES` -/
def digestBytesConst : Nat := TF.Gen.DIGEST_LEN * TF.Gen.BFE_BYTES

end TF.Conv
