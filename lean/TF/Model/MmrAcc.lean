import TF.Model.MmrIndex
/-!
# Hand-written model of the MMR accumulator (C11)

Source: `util_types/mmr/mmr_accumulator.rs`, `shared_basic.rs` (`calculate_new_peaks_from_append`,
`calculate_new_peaks_from_leaf_mutation`), `util_types/shared.rs` (`bag_peaks`), and the one routine of
`mmr_membership_proof.rs` that `verify_batch_update` calls (`batch_update_from_leaf_mutation`).

Generic over the digest type `D` and the compression function `H : D → D → D` (`Tip5::hash_pair`) — the theorems of
`TF/Props/C11.lean` hold for every `H`; the driver instantiates `D := List Nat`, `H := TF.Hash.hashPair`.
`hashZero` stands for `Tip5::hash(&0u128)` = `hash_varlen` of the four-element encoding of a 128-bit zero.

`none` = the Rust code panics (`unwrap` on an empty `Vec`, index out of bounds, failing `assert!`) or one of the
index loops does not finish (impossible on the documented domain, see C16).  `HashMap<u64, Digest>` is modelled as a
function `Nat → Option D`.
-/
namespace TF.Model.MmrAcc
open TF.Gen TF.Model.Mmr

variable {D : Type}

/-- `MmrAccumulator { leaf_count, peaks }` -/
structure Acc (D : Type) where
  leaf_count : Nat
  peaks : List D
deriving Repr, BEq

/-- `LeafMutation { leaf_index, new_leaf, membership_proof }` (the proof is its authentication path) -/
structure LeafMutation (D : Type) where
  leaf_index : Nat
  new_leaf : D
  auth : List D

/-- `MmrAccumulator::init` -/
def init (peaks : List D) (leaf_count : Nat) : Acc D := { leaf_count := leaf_count, peaks := peaks }

/-- the `while right_lineage_count != 0` loop of `calculate_new_peaks_from_append`.  The peak list is kept
    **reversed** (`Vec::pop`/`push` act on the head); `ap` collects the authentication path of the new leaf. -/
def mergeLoop (H : D → D → D) : (right_lineage_count : Nat) → (revPeaks ap : List D) → Option (List D × List D)
  | 0, st, ap => some (st, ap)
  | t+1, new_hash :: previous_peak :: rest, ap => mergeLoop H t (H previous_peak new_hash :: rest) (ap ++ [previous_peak])
  | _+1, _, _ => none      -- `pop().unwrap()` on an empty vector

/-- `calculate_new_peaks_from_append` after `right_lineage_count` has been computed -/
def appendWith (H : D → D → D) (right_lineage_count : Nat) (old_peaks : List D) (new_leaf : D) :
    Option (List D × List D) :=
  (mergeLoop H right_lineage_count (new_leaf :: old_peaks.reverse) []).map fun r => (r.1.reverse, r.2)

/-- `shared_basic::calculate_new_peaks_from_append(old_leaf_count, old_peaks, new_leaf)`:
    new peaks and the authentication path of the new leaf -/
def calculate_new_peaks_from_append (H : D → D → D) (old_leaf_count : Nat) (old_peaks : List D) (new_leaf : D) :
    Option (List D × List D) :=
  appendWith H (right_lineage_length_from_leaf_index old_leaf_count) old_peaks new_leaf

/-- `Mmr::append`: returns the new accumulator and the membership proof of the new leaf -/
def append (H : D → D → D) (a : Acc D) (new_leaf : D) : Option (Acc D × List D) :=
  (calculate_new_peaks_from_append H a.leaf_count a.peaks new_leaf).map fun r =>
    ({ leaf_count := add64 a.leaf_count 1, peaks := r.1 }, r.2)

/-- `MmrAccumulator::new_from_leafs` -/
def new_from_leafs (H : D → D → D) (digests : List D) : Option (Acc D) :=
  digests.foldlM (fun a d => (append H a d).map Prod.fst) { leaf_count := 0, peaks := [] }

/-- the `while acc_mt_index != 1` loop shared by `calculate_new_peaks_from_leaf_mutation` and `verify`:
    consumes one path element per level; `none` = index out of bounds (path too short) -/
def foldPath (H : D → D → D) : (acc_mt_index : Nat) → (acc_hash : D) → (ap : List D) → Option D
  | mt, acc, [] => if mt = 1 then some acc else none
  | mt, acc, a :: rest =>
    if mt = 1 then some acc
    else foldPath H (mt / 2) (if mt % 2 = 1 then H a acc else H acc a) rest

/-- `v[i] = x` with bounds check -/
def setAt? (l : List D) (i : Nat) (x : D) : Option (List D) :=
  if i < l.length then some (l.set i x) else none

/-- `calculate_new_peaks_from_leaf_mutation` after the Merkle-tree index and the peak index have been computed -/
def mutateWith (H : D → D → D) (old_peaks : List D) (mt_index peak_index : Nat) (new_leaf : D) (ap : List D) :
    Option (List D) :=
  (foldPath H mt_index new_leaf ap).bind fun acc_hash => setAt? old_peaks peak_index acc_hash

/-- `shared_basic::calculate_new_peaks_from_leaf_mutation` -/
def calculate_new_peaks_from_leaf_mutation (H : D → D → D) (old_peaks : List D) (leaf_count : Nat) (new_leaf : D)
    (leaf_index : Nat) (ap : List D) : Option (List D) :=
  if leaf_index < leaf_count then
    mutateWith H old_peaks (leaf_index_to_mt_index_and_peak_index leaf_index leaf_count).1
      (leaf_index_to_mt_index_and_peak_index leaf_index leaf_count).2 new_leaf ap
  else none     -- `assert!(leaf_index < leaf_count)`

/-- `Mmr::mutate_leaf` -/
def mutate_leaf (H : D → D → D) (a : Acc D) (m : LeafMutation D) : Option (Acc D) :=
  (calculate_new_peaks_from_leaf_mutation H a.peaks a.leaf_count m.new_leaf m.leaf_index m.auth).map
    fun ps => { a with peaks := ps }

/-- `bag_peaks` of `util_types/shared.rs`: `hashZero` for no peak, the peak itself for one peak, otherwise the
    right-to-left fold `H p₀ (H p₁ (… (H pₖ₋₂ pₖ₋₁)))` -/
def bag_peaks (H : D → D → D) (hashZero : D) (peaks : List D) : D :=
  match peaks.reverse with
  | [] => hashZero
  | [last] => last
  | last :: second_to_last :: rest => rest.foldl (fun acc peak => H peak acc) (H second_to_last last)

def Acc.bag_peaks (H : D → D → D) (hashZero : D) (a : Acc D) : D := TF.Model.MmrAcc.bag_peaks H hashZero a.peaks
def Acc.is_empty (a : Acc D) : Bool := a.leaf_count == 0
def Acc.num_leafs (a : Acc D) : Nat := a.leaf_count

/-! ### `HashMap<u64, Digest>` as a function -/

abbrev DMap (D : Type) := Nat → Option D
def DMap.empty : DMap D := fun _ => none
def DMap.insert (m : DMap D) (k : Nat) (v : D) : DMap D := fun k' => if k' = k then some v else m k'

/-- one round of the `for (count, &hash) in authentication_path.iter().enumerate()` loop of
    `batch_mutate_leaf_and_update_mps`, after `(is_right_child, sibling index, parent index)` has been computed:
    the sibling digest comes from the map when it is there; the new digest is inserted unless it is the last (the peak) -/
def batchRound (H : D → D → D) (hash : D) (last : Bool) (acc : D) (m : DMap D) (sp : Bool × Nat × Nat) : D × DMap D :=
  let sibling_hash := (m sp.2.1).getD hash
  let acc' := if sp.1 then H sibling_hash acc else H acc sibling_hash
  (acc', if last then m else m.insert sp.2.2 acc')

/-- the whole loop: climbs from `node_index` -/
def batchClimb (H : D → D → D) : (ap : List D) → (node_index : Nat) → (acc_hash : D) → (m : DMap D) →
    Option (D × DMap D)
  | [], _, acc, m => some (acc, m)
  | hash :: rest, node_index, acc, m =>
    (siblingAndParent node_index).bind fun sp =>
      batchClimb H rest sp.2.2 (batchRound H hash rest.isEmpty acc m sp).1 (batchRound H hash rest.isEmpty acc m sp).2

/-- the `while let Some(..) = mutation_data.pop()` loop: mutations are processed **last first** -/
def batchMutateLoop (H : D → D → D) (leaf_count : Nat) : (revMutations : List (LeafMutation D)) → (peaks : List D) →
    (m : DMap D) → Option (List D × DMap D)
  | [], peaks, m => some (peaks, m)
  | mu :: rest, peaks, m =>
    if (m (leaf_index_to_node_index mu.leaf_index)).isSome then none   -- `assert!(former_value.is_none())`
    else
      (batchClimb H mu.auth (leaf_index_to_node_index mu.leaf_index) mu.new_leaf
          (m.insert (leaf_index_to_node_index mu.leaf_index) mu.new_leaf)).bind fun r =>
        if mu.leaf_index < leaf_count then
          (setAt? peaks (leaf_index_to_mt_index_and_peak_index mu.leaf_index leaf_count).2 r.1).bind fun peaks' =>
            batchMutateLoop H leaf_count rest peaks' r.2
        else none

/-- replace, in one proof, the digests whose node index is in the map; `true` if something changed -/
def updateProof [BEq D] (m : DMap D) (ap : List D) (idxs : List Nat) : List D × Bool :=
  let upd := (ap.zip idxs).map fun (d, k) =>
    match m k with
    | some d' => if d != d' then (d', true) else (d, false)
    | none => (d, false)
  (upd.map Prod.fst, upd.any Prod.snd)

/-- second half of `batch_mutate_leaf_and_update_mps`: returns the updated proofs and the (deduplicated) indices of
    the modified ones -/
def updateProofs [BEq D] (m : DMap D) : (proofs : List (List D × Nat)) → (i : Nat) → Option (List (List D) × List Nat)
  | [], _ => some ([], [])
  | (ap, leaf_index) :: rest, i =>
    (get_node_indices leaf_index ap.length).bind fun idxs =>
      (updateProofs m rest (i + 1)).bind fun r =>
        some ((updateProof m ap idxs).1 :: r.1, if (updateProof m ap idxs).2 then i :: r.2 else r.2)

/-- `Mmr::batch_mutate_leaf_and_update_mps` for the accumulator: new accumulator, updated proofs, modified indices -/
def batch_mutate_leaf_and_update_mps [BEq D] (H : D → D → D) (a : Acc D) (membership_proofs : List (List D))
    (membership_proof_leaf_indices : List Nat) (mutation_data : List (LeafMutation D)) :
    Option (Acc D × List (List D) × List Nat) :=
  if membership_proofs.length ≠ membership_proof_leaf_indices.length then none
  else if !(membership_proof_leaf_indices.all (· < a.leaf_count)) then none
  else
    (batchMutateLoop H a.leaf_count mutation_data.reverse a.peaks DMap.empty).bind fun r =>
      (updateProofs r.2 (membership_proofs.zip membership_proof_leaf_indices) 0).bind fun u =>
        some ({ a with peaks := r.1 }, u.1, u.2)

/-! ### `verify_batch_update` -/

/-- first loop of `MmrMembershipProof::batch_update_from_leaf_mutation`: the digests deducible from the mutation,
    without the peak -/
def deducibleClimb (H : D → D → D) : (ap : List D) → (node_index : Nat) → (acc_hash : D) → (m : DMap D) →
    Option (DMap D)
  | [], _, _, m => some m
  | [_], _, _, m => some m            -- `if count == len - 1 { break }`
  | hash :: rest, node_index, acc, m =>
    (siblingAndParent node_index).bind fun sp =>
      deducibleClimb H rest sp.2.2 (if sp.1 then H hash acc else H acc hash)
        (m.insert sp.2.2 (if sp.1 then H hash acc else H acc hash))

/-- replace the **first** digest of the path that the map knows with a different value -/
def replaceFirst [BEq D] (m : DMap D) : (ap : List D) → (idxs : List Nat) → List D
  | d :: ds, k :: ks =>
    match m k with
    | some d' => if d != d' then d' :: ds else d :: replaceFirst m ds ks
    | none => d :: replaceFirst m ds ks
  | ds, _ => ds

/-- `MmrMembershipProof::batch_update_from_leaf_mutation` (the returned index list is not used by the caller) -/
def batch_update_from_leaf_mutation [BEq D] (H : D → D → D) (proofs : List (List D × Nat)) (mu : LeafMutation D) :
    Option (List (List D × Nat)) :=
  (deducibleClimb H mu.auth (leaf_index_to_node_index mu.leaf_index) mu.new_leaf
      (DMap.empty.insert (leaf_index_to_node_index mu.leaf_index) mu.new_leaf)).bind fun m =>
    proofs.mapM fun p => (get_node_indices p.2 p.1.length).map fun idxs => (replaceFirst m p.1 idxs, p.2)

/-- the mutation loop of `verify_batch_update`: mutations in the given order; the proofs of the remaining ones are
    updated after every step -/
def verifyMutLoop [BEq D] (H : D → D → D) (leaf_count : Nat) : (fuel : Nat) → (muts : List (LeafMutation D)) →
    (running_peaks : List D) → Option (List D)
  | _, [], peaks => some peaks
  | 0, _ :: _, _ => none
  | fuel+1, mu :: rest, peaks =>
    (calculate_new_peaks_from_leaf_mutation H peaks leaf_count mu.new_leaf mu.leaf_index mu.auth).bind fun peaks' =>
      (batch_update_from_leaf_mutation H (rest.map fun r => (r.auth, r.leaf_index)) mu).bind fun upd =>
        verifyMutLoop H leaf_count fuel ((rest.zip upd).map fun ru => { ru.1 with auth := ru.2.1 }) peaks'

/-- the append loop of `verify_batch_update` -/
def verifyAppendLoop (H : D → D → D) : (leafs : List D) → (running_leaf_count : Nat) → (running_peaks : List D) →
    Option (List D)
  | [], _, peaks => some peaks
  | x :: xs, n, peaks =>
    (calculate_new_peaks_from_append H n peaks x).bind fun r => verifyAppendLoop H xs (add64 n 1) r.1

/-- `all_unique` -/
def allUnique : List Nat → Bool
  | [] => true
  | x :: xs => !xs.contains x && allUnique xs

/-- `Mmr::verify_batch_update(new_peaks, appended_leafs, leaf_mutations)`; `none` = panic -/
def verify_batch_update [BEq D] (H : D → D → D) (a : Acc D) (new_peaks appended_leafs : List D)
    (leaf_mutations : List (LeafMutation D)) : Option Bool :=
  if !allUnique (leaf_mutations.map (·.leaf_index)) then some false
  else if (a.is_empty && !(leaf_mutations.map (·.leaf_index)).isEmpty) ||
      (!(leaf_mutations.map (·.leaf_index)).isEmpty && (leaf_mutations.map (·.leaf_index)).any (· ≥ a.leaf_count))
    then some false
  else
    (verifyMutLoop H a.leaf_count leaf_mutations.length leaf_mutations a.peaks).bind fun peaks1 =>
      (verifyAppendLoop H appended_leafs a.leaf_count peaks1).map fun peaks2 => peaks2 == new_peaks

end TF.Model.MmrAcc
