import TF.Model.FieldOps
/-!
Models of the `std` / `itertools` functions that the definitions regenerated from `polynomial.rs` by
`tools/rs2lean_poly.py` (`TF/Gen/PolyLoops.lean`) refer to.  They are part of the trusted base ("`std` behaves as
documented", DESIGN §6); each is the documented behaviour written out.  `none` is a panic.  Core Lean only.

Integer convention of `TF/Gen/PolyLoops.lean` (also stated in its header): `usize`/`u64` are `Nat`, `isize` is `Int`;
`+` and `*` are the unbounded operations (all such quantities are bounded by small multiples of `Vec` lengths, which
Rust bounds by `isize::MAX`); `usize - usize` is checked (`usub?`, `none` below zero — the debug-build panic; in a release
build the wrapped value is then used as a length or an index, which panics as well in every translated function);
`isize as usize` is `toUsize?` (`none` for a negative value: outside the range where machine and unbounded arithmetic
agree — proved unreachable by every bridge theorem).
-/
namespace TF.PolyStd

variable {α β γ : Type}

/-- `usize::try_from(i: isize)` as an `Option` (`Ok` = `some`); also used for `i as usize` (see the header) -/
def toUsize? (i : Int) : Option Nat := if 0 ≤ i then some i.toNat else none

/-- checked `usize - usize` -/
def usub? (a b : Nat) : Option Nat := if b ≤ a then some (a - b) else none

/-- `a >> s` on an unsigned integer of width `w`: a shift amount `≥ w` panics in a debug build (and is masked in release) -/
def ushr? (w a s : Nat) : Option Nat := if s < w then some (a >>> s) else none

/-- `Iterator::rposition`: index (from the front) of the last element satisfying `p` -/
def rposition (p : α → Bool) : List α → Option Nat
  | [] => none
  | x :: xs =>
    match rposition p xs with
    | some i => some (i + 1)
    | none => if p x then some 0 else none

/-- `&xs[a..=b]` -/
def sliceIncl? (xs : List α) (a b : Nat) : Option (List α) :=
  if a ≤ b + 1 ∧ b < xs.length then some ((xs.take (b + 1)).drop a) else none

/-- `&xs[..n]` -/
def sliceTo? (xs : List α) (n : Nat) : Option (List α) := if n ≤ xs.length then some (xs.take n) else none

/-- `&xs[n..]` -/
def sliceFrom? (xs : List α) (n : Nat) : Option (List α) := if n ≤ xs.length then some (xs.drop n) else none

/-- `xs[i] = v` -/
def setAt? (xs : List α) (i : Nat) (v : α) : Option (List α) := if i < xs.length then some (xs.set i v) else none

/-- `Vec::pop().unwrap()`: the last element and the rest -/
def pop? (xs : List α) : Option (α × List α) := xs.getLast?.map fun x => (x, xs.dropLast)

/-- `Inverse::inverse` (panics on zero) -/
def inverse? (F : FieldOps α) (x : α) : Option α := if F.isZero x then none else some (F.inv x)

/-- `a.zip_longest(b).map(|e| match e { Both(l, r) => fb l r, Left(l) => fl l, Right(r) => fr r })` -/
def zipLongestMap (fb : α → β → γ) (fl : α → γ) (fr : β → γ) : List α → List β → List γ
  | [], ys => ys.map fr
  | xs, [] => xs.map fl
  | x :: xs, y :: ys => fb x y :: zipLongestMap fb fl fr xs ys

/-- `for (l, r) in a.iter_mut().zip(b) { *l = f(*l, r) }`: the common prefix is updated, the rest of `a` is kept -/
def zipMutWith (f : α → β → α) : List α → List β → List α
  | [], _ => []
  | xs, [] => xs
  | x :: xs, y :: ys => f x y :: zipMutWith f xs ys

/-- `Iterator::enumerate` (index first, as in Rust) -/
def enumFrom (n : Nat) : List α → List (Nat × α)
  | [] => []
  | x :: xs => (n, x) :: enumFrom (n + 1) xs
def enumerate (xs : List α) : List (Nat × α) := enumFrom 0 xs

/-- `Vec::resize(n, z)` -/
def resize (xs : List α) (n : Nat) (z : α) : List α := xs.take n ++ List.replicate (n - xs.length) z

/-- `usize::next_power_of_two` (1 for 0 and 1) -/
def nextPowerOfTwo (n : Nat) : Nat := if n ≤ 1 then 1 else 2 ^ (Nat.log2 (n - 1) + 1)

/-- `assert!(c)` / `debug_assert!(c)` -/
def assert? (c : Bool) : Option Unit := if c then some () else none

end TF.PolyStd
