import TF.Model.Poly
import TF.Model.PolyMul
/-!
Remaining storage-sensitive public operations of `Polynomial<FF>` for property C17 (value semantics):
`truncate`, `mod_x_to_the_n`, `Hash`, `BFieldCodec::encode`, plus small wrappers (`AddAssign`, `into_owned`, `clone`).
Everything else C17 speaks about is in `TF/Model/Poly.lean` (core) and `TF/Model/PolyMul.lean` (products).

`Cow::Borrowed` versus `Cow::Owned` has no counterpart here: both are the same `List α`; that borrowing never changes
a result is covered by the differential run (family `polyv`) only.
Core Lean only.
-/
namespace TF.Model.Poly
open TF

variable {α δ : Type}

/-- `truncate(k)` (after fix F6): the `k+1` highest coefficients of `coefficients()`, i.e. of the *normalised* storage -/
def truncate (F : FieldOps α) (p : List α) (k : Nat) : List α :=
  let c := normalize F p
  c.drop (c.length - (k + 1))

/-- `mod_x_to_the_n(n)`: the first `min n len` stored coefficients -/
def modXToTheN (p : List α) (n : Nat) : List α := p.take n

/-- `Hash::hash` (after fix F4): the hasher is fed `coefficients()`, the normalised slice -/
def hashWith (F : FieldOps α) (h : List α → δ) (p : List α) : δ := h (normalize F p)

/-- `BFieldCodec::encode` for `Polynomial<T>`: `Vec<T>::encode` of `coefficients()` (length, then the items of static
    width back to back), prefixed by the length of that field.  `encE` is the item encoding
    (`[c]` for `BFieldElement`, `[c0,c1,c2]` for `XFieldElement`). -/
def encode (F : FieldOps α) (encE : α → List Nat) (p : List α) : List Nat :=
  let c := normalize F p
  let field := c.length :: c.flatMap encE
  field.length :: field

/-- `AddAssign::add_assign`: add into the raw storage of `self`, extend by the rest of `rhs` -/
def addAssign (F : FieldOps α) (a b : List α) : List α :=
  List.zipWith F.add a b ++ a.drop b.length ++ b.drop a.length

/-- `into_owned`, `clone`: the same storage -/
def intoOwned (p : List α) : List α := p

end TF.Model.Poly
