import TF.Gen.Consts
import TF.Gen.BField
/-!
Executable value-level Tip5 (permutation, `hash_pair`, `hash_10`, `hash_varlen`) used by the *driver* wherever the
Rust code calls `Tip5::hash_pair` / `hash_varlen`, so that Merkle roots, peaks and digests can be compared bit for
bit.  All Merkle/MMR **theorems** are proved for an arbitrary hash function and do not depend on this file.
This instance follows the Tip5 specification on canonical values (byte-wise lookup on the Montgomery word of lanes
0–3, seventh power on lanes 4–15, circulant MDS matrix, round constants); C02's correspondence validates it against
the real crate (families `tip5`/`hash`).  Core Lean only.
-/
namespace TF.Hash
open TF.Gen

def lookupArr : Array Nat := LOOKUP_TABLE.toArray
def rcArr : Array Nat := ROUND_CONSTANTS.toArray
def mdsArr : Array Nat := MDS_MATRIX_FIRST_COLUMN.toArray

/-- byte-wise lookup on a 64-bit word (little endian bytes, each through the table) -/
def lookupWord (w : Nat) : Nat := Id.run do
  let mut r := 0
  for i in [0:8] do
    let b := (w >>> (8 * i)) % 256
    r := r + (lookupArr[b]! <<< (8 * i))
  return r

def sboxLookup (v : Nat) : Nat := bfe_value (lookupWord (bfe_new v))

def pow7 (v : Nat) : Nat :=
  let sq := (v * v) % P
  let qu := (sq * sq) % P
  (((v * sq) % P) * qu) % P

def sboxLayer (s : Array Nat) : Array Nat :=
  Array.ofFn (n := 16) fun i => if i.val < NUM_SPLIT_AND_LOOKUP then sboxLookup s[i.val]! else pow7 s[i.val]!

def mdsLayer (s : Array Nat) : Array Nat :=
  Array.ofFn (n := 16) fun i => Id.run do
    let mut acc := 0
    for j in [0:16] do
      acc := acc + mdsArr[(i.val + 16 - j) % 16]! * s[j]!
    return acc % P

def round (r : Nat) (s : Array Nat) : Array Nat :=
  let t := mdsLayer (sboxLayer s)
  Array.ofFn (n := 16) fun i => (t[i.val]! + rcArr[r * 16 + i.val]!) % P

def permutation (s : Array Nat) : Array Nat :=
  (List.range NUM_ROUNDS).foldl (fun st r => round r st) s

/-- states before round 0 and after each round -/
def trace (s : Array Nat) : List (Array Nat) :=
  ((List.range NUM_ROUNDS).foldl (fun (acc : List (Array Nat) × Array Nat) r =>
      let st := round r acc.2
      (acc.1 ++ [st], st)) ([s], s)).1

def fixedStart (inp : List Nat) : Array Nat :=
  (inp ++ List.replicate (RATE - inp.length) 0 ++ List.replicate CAPACITY 1).toArray

/-- `Tip5::hash_pair` on two digests given as lists of five canonical values -/
def hashPair (l r : List Nat) : List Nat :=
  ((permutation (fixedStart (l ++ r))).toList).take DIGEST_LEN

def hash10 (inp : List Nat) : List Nat :=
  ((permutation (fixedStart inp)).toList).take DIGEST_LEN

def absorb (st : Array Nat) (chunk : List Nat) : Array Nat :=
  permutation ((chunk ++ (st.toList.drop RATE)).toArray)

/-- padding: input, a single one, then the fewest zeros completing a multiple of the rate -/
def pad (inp : List Nat) : List Nat :=
  let n := inp.length + 1
  let padded := (n + RATE - 1) / RATE * RATE
  inp ++ [1] ++ List.replicate (padded - n) 0

def chunks (k : Nat) (xs : List Nat) (fuel : Nat := xs.length + 1) : List (List Nat) :=
  match fuel with
  | 0 => []
  | f+1 => if xs.isEmpty then [] else xs.take k :: chunks k (xs.drop k) f

def hashVarlen (inp : List Nat) : List Nat :=
  let st0 : Array Nat := (List.replicate STATE_SIZE 0).toArray
  let st := (chunks RATE (pad inp)).foldl absorb st0
  st.toList.take DIGEST_LEN

end TF.Hash
