import TF.Gen.Consts
import TF.Model.Ntt
import TF.Spec.Field
/-!
Model of `twenty-first/src/math/lattice.rs` (C18): the negacyclic ("coset") transforms of length 64 with the tabulated
powers of ψ, `CyclotomicRingElement` (`add`, `sub`, `mul`, `hadamard`), `ModuleElement` (`ntt`, `intt`, `multiply`,
`fast_multiply`, `multiply_hadamard`, `add`, `sub`), `embed_msg`/`extract_msg`, the samplers and `kem::{keygen, enc, dec}`.

* Ring elements are arrays of 64 canonical values, module elements arrays of ring elements (row major).
* The transforms are generic over the operation record `TF.Model.Ntt.Ops` (as in C06) so that linearity and the
  transfer to `ZMod P` are one naturality lemma; `ring*`/`mod*` instantiate them with `bOps` (canonical values).
* The in-place butterfly loops are one `Array.ofFn` pass per stage (tied by correspondence).
* SHAKE256 / SHA3-256 are **parameters** of the KEM model (`Oracles`); the theorems hold for every choice, the driver
  instantiates them with `TF/Model/Keccak.lean`.
* bytes are naturals `< 256`.  Nothing here panics on well-shaped inputs; shapes are fixed by the Rust types and
  checked by the driver before it calls the model.
Core Lean only.
-/
namespace TF.Model.Lattice
open TF.Gen TF.Model.Ntt

/-! ### the transforms, generic -/

/-- one stage of `coset_ntt_noswap_64`: `m` blocks of size `2t`, block `i` uses `zeta = psi[m + i]`:
    `a[j] = u + v·zeta; a[j+t] = u - v·zeta` with `u = a[j]`, `v = a[j+t]` -/
def cosetNttStage {σ α : Type} (ops : Ops σ α) (m t : Nat) (psi : Array σ) (x : Array α) : Array α :=
  Array.ofFn (n := x.size) fun i =>
    let idx := i.val
    let zeta := psi.getD (m + idx / (2*t)) ops.szero
    if idx % (2*t) < t then ops.add (x.getD idx ops.zero) (ops.scale zeta (x.getD (idx + t) ops.zero))
    else ops.sub (x.getD (idx - t) ops.zero) (ops.scale zeta (x.getD idx ops.zero))

/-- `m = 1; t = N; while m < N { t >>= 1; …; m *= 2 }` -/
def cosetNttLoop {σ α : Type} (ops : Ops σ α) (psi : Array σ) (n : Nat) : Nat → Nat → Nat → Array α → Array α
  | 0, _, _, x => x
  | f+1, m, t, x =>
    if m < n then cosetNttLoop ops psi n f (2*m) (t/2) (cosetNttStage ops m (t/2) psi x) else x

/-- `coset_ntt_noswap_64` -/
def cosetNtt {σ α : Type} (ops : Ops σ α) (psi : Array σ) (x : Array α) : Array α :=
  cosetNttLoop ops psi LATTICE_N LATTICE_N 1 LATTICE_N x

/-- one stage of `coset_intt_noswap_64`: `h` blocks of size `2t`, block `i` uses `zeta = psi_inv[h + i]`:
    `a[j] = u + v; a[j+t] = (u - v)·zeta` -/
def cosetInttStage {σ α : Type} (ops : Ops σ α) (h t : Nat) (psiInv : Array σ) (x : Array α) : Array α :=
  Array.ofFn (n := x.size) fun i =>
    let idx := i.val
    let zeta := psiInv.getD (h + idx / (2*t)) ops.szero
    if idx % (2*t) < t then ops.add (x.getD idx ops.zero) (x.getD (idx + t) ops.zero)
    else ops.scale zeta (ops.sub (x.getD (idx - t) ops.zero) (x.getD idx ops.zero))

/-- `t = 1; h = N/2; for _ in 0..LOGN { …; t *= 2; h >>= 1 }` -/
def cosetInttLoop {σ α : Type} (ops : Ops σ α) (psiInv : Array σ) : Nat → Nat → Nat → Array α → Array α
  | 0, _, _, x => x
  | f+1, t, h, x => cosetInttLoop ops psiInv f (2*t) (h/2) (cosetInttStage ops h t psiInv x)

/-- `coset_intt_noswap_64` (`LOGN = 6`), including the final multiplication by `N_INV` -/
def cosetIntt {σ α : Type} (ops : Ops σ α) (psiInv : Array σ) (ninv : σ) (x : Array α) : Array α :=
  (cosetInttLoop ops psiInv 6 1 (LATTICE_N / 2) x).map (ops.scale ninv)

/-! ### `CyclotomicRingElement` on canonical values -/

abbrev Ring := Array Nat
abbrev Module := Array Ring

def psi : Array Nat := PSI_POWERS_BITREVERSED.toArray
def psiInv : Array Nat := PSI_INV_POWERS_BITREVERSED.toArray

def ntt64 (x : Ring) : Ring := cosetNtt bOps psi x
def intt64 (x : Ring) : Ring := cosetIntt bOps psiInv LATTICE_N_INV x

def ringZero : Ring := Array.replicate 64 0
/-- coefficient-wise operations `(0..64).map(|i| a[i] ∘ b[i])` -/
def ringZip (f : Nat → Nat → Nat) (a b : Ring) : Ring := Array.ofFn (n := 64) fun i => f (a.getD i.val 0) (b.getD i.val 0)
def ringAdd (a b : Ring) : Ring := ringZip Spec.fadd a b
def ringSub (a b : Ring) : Ring := ringZip Spec.fsub a b
def ringHadamard (a b : Ring) : Ring := ringZip Spec.fmul a b
/-- `Mul for CyclotomicRingElement` -/
def ringMul (a b : Ring) : Ring := intt64 (ringHadamard (ntt64 a) (ntt64 b))

/-- schoolbook product modulo `X^64 + 1` (specification) -/
def negacyclic (a b : Ring) : Ring :=
  Array.ofFn (n := 64) fun k =>
    (List.range 64).foldl (fun acc i =>
      let j := (k.val + 64 - i) % 64
      let t := Spec.fmul (a.getD i 0) (b.getD j 0)
      if i ≤ k.val then Spec.fadd acc t else Spec.fsub acc t) 0

/-! ### `ModuleElement` -/

def modNtt (a : Module) : Module := a.map ntt64
def modIntt (a : Module) : Module := a.map intt64
def modZip (f : Ring → Ring → Ring) (a b : Module) : Module :=
  Array.ofFn (n := a.size) fun i => f (a.getD i.val ringZero) (b.getD i.val ringZero)
def modAdd (a b : Module) : Module := modZip ringAdd a b
def modSub (a b : Module) : Module := modZip ringSub a b

/-- the triple loop of `multiply` / `multiply_hadamard`:
    `out[h*W + w] += prod(lhs[h*INNER + i], rhs[i*W + w])` for `i = 0..INNER` -/
def modMulWith (prod : Ring → Ring → Ring) (H INNER W : Nat) (lhs rhs : Module) : Module :=
  Array.ofFn (n := H * W) fun idx =>
    let h := idx.val / W
    let w := idx.val % W
    (List.range INNER).foldl (fun acc i =>
      ringAdd acc (prod (lhs.getD (h * INNER + i) ringZero) (rhs.getD (i * W + w) ringZero))) ringZero

def modMultiply (H INNER W : Nat) (lhs rhs : Module) : Module := modMulWith ringMul H INNER W lhs rhs
def modMultiplyHadamard (H INNER W : Nat) (lhs rhs : Module) : Module := modMulWith ringHadamard H INNER W lhs rhs
def modFastMultiply (H INNER W : Nat) (lhs rhs : Module) : Module :=
  modIntt (modMultiplyHadamard H INNER W (modNtt lhs) (modNtt rhs))

/-! ### message embedding -/

/-- the 4 bits `(b >> (s+j)) & 1`, `j = 0..4`, placed at `15 + 16j` -/
def embedNibble (b s : Nat) : Nat :=
  (List.range 4).foldl (fun acc j => acc + ((b / 2^(s + j)) % 2) * 2^(15 + 16 * j)) 0

/-- `embed_msg`: byte `i` goes to coefficients `2i` (low nibble) and `2i+1` (high nibble) -/
def embedMsg (msg : List Nat) : Ring :=
  Array.ofFn (n := 64) fun k =>
    let b := msg.getD (k.val / 2) 0
    embedNibble b (if k.val % 2 = 0 then 0 else 4)

/-- the decision for one 16-bit lane -/
def laneBit (chunk : Nat) : Nat := if chunk < 2^14 ∨ 2^16 - chunk < 2^14 then 0 else 1

/-- four lanes of one coefficient value -/
def extractNibble (v : Nat) : Nat :=
  (List.range 4).foldl (fun acc j => acc + laneBit ((v / 2^(16 * j)) % 2^16) * 2^j) 0

/-- `extract_msg` -/
def extractMsg (e : Ring) : List Nat :=
  (List.range 32).map fun c => extractNibble (e.getD (2 * c) 0) + 16 * extractNibble (e.getD (2 * c + 1) 0)

/-! ### samplers -/

/-- `sample_short_bfield_element`: difference of two packed vectors of four bit counts -/
def sampleShortElem (r : List Nat) : Nat :=
  let nsb := fun (k : Nat) => TF.popCount (r.getD k 0)
  let left := nsb 0 * 2^48 + nsb 1 * 2^32 + nsb 2 * 2^16 + nsb 3
  let right := nsb 4 * 2^48 + nsb 5 * 2^32 + nsb 6 * 2^16 + nsb 7
  Spec.fsub left right

/-- `CyclotomicRingElement::sample_short` (8 bytes per coefficient) -/
def sampleShortRing (rnd : List Nat) : Ring :=
  Array.ofFn (n := 64) fun i => sampleShortElem ((rnd.drop (8 * i.val)).take 8)

/-- `CyclotomicRingElement::sample_uniform` (9 bytes per coefficient, big endian, reduced mod P) -/
def sampleUniformRing (rnd : List Nat) : Ring :=
  Array.ofFn (n := 64) fun i =>
    ((rnd.drop (9 * i.val)).take 9).foldl (fun acc b => acc * 256 + b) 0 % P

def sampleShortModule (n : Nat) (rnd : List Nat) : Module :=
  Array.ofFn (n := n) fun k => sampleShortRing ((rnd.drop (8 * 64 * k.val)).take (8 * 64))
def sampleUniformModule (n : Nat) (rnd : List Nat) : Module :=
  Array.ofFn (n := n) fun k => sampleUniformRing ((rnd.drop (9 * 64 * k.val)).take (9 * 64))

/-! ### the KEM, hash functions as parameters -/

structure Oracles where
  /-- SHAKE256: input bytes, number of output bytes -/
  xof : List Nat → Nat → List Nat
  /-- SHA3-256 -/
  hash : List Nat → List Nat

structure SecretKey where
  key : List Nat
  seed : List Nat
deriving DecidableEq

structure PublicKey where
  seed : List Nat
  ga : Module
deriving DecidableEq

structure Ciphertext where
  bg : Module
  bgaM : Module
deriving DecidableEq

def derivePublicMatrix (O : Oracles) (seed : List Nat) : Module :=
  sampleUniformModule 16 (O.xof seed (9 * 64 * 16))

def deriveSecretVectors (O : Oracles) (seed : List Nat) : Module × Module :=
  let rnd := O.xof seed (2 * 4 * 64 * 8)
  (sampleShortModule 4 (rnd.take 2048), sampleShortModule 4 (rnd.drop 2048))

def derivePublicKey (O : Oracles) (key seed : List Nat) : PublicKey :=
  let (a, c) := deriveSecretVectors O key
  let g := derivePublicMatrix O seed
  { seed := seed, ga := modAdd (modMultiplyHadamard 4 4 1 g (modNtt a)) (modNtt c) }

def keygen (O : Oracles) (randomness : List Nat) : SecretKey × PublicKey :=
  let seed := O.xof (randomness ++ [0]) 32
  let key := O.xof (randomness ++ [1]) 32
  ({ key := key, seed := seed }, derivePublicKey O key seed)

def generateCiphertext (O : Oracles) (pk : PublicKey) (payload : List Nat) : Ciphertext :=
  let (b, d) := deriveSecretVectors O payload
  let bNtt := modNtt b
  let dNtt := modNtt d
  let g := derivePublicMatrix O pk.seed
  let bg := modAdd (modMultiplyHadamard 1 4 4 bNtt g) dNtt
  let m := embedMsg payload
  let bgaM := modAdd (modMultiplyHadamard 1 4 1 bNtt pk.ga) (modNtt #[m])
  { bg := bg, bgaM := bgaM }

def enc (O : Oracles) (pk : PublicKey) (randomness : List Nat) : List Nat × Ciphertext :=
  let payload := O.xof randomness 32
  (O.hash payload, generateCiphertext O pk payload)

/-- the payload `dec` extracts before it re-encrypts -/
def decPayload (O : Oracles) (sk : SecretKey) (ct : Ciphertext) : List Nat :=
  let (a, _) := deriveSecretVectors O sk.key
  let bga := modMultiplyHadamard 1 4 1 ct.bg (modNtt a)
  let m := modIntt (modSub ct.bgaM bga)
  extractMsg (m.getD 0 ringZero)

def dec (O : Oracles) (sk : SecretKey) (ct : Ciphertext) : Option (List Nat) :=
  let payload := decPayload O sk ct
  let pk := derivePublicKey O sk.key sk.seed
  if generateCiphertext O pk payload = ct then some (O.hash payload) else none

/-- `From<[BFieldElement; 320]> for Ciphertext` -/
def ciphertextOfArray (v : Array Nat) : Ciphertext :=
  { bg := Array.ofFn (n := 4) fun k => Array.ofFn (n := 64) fun i => v.getD (64 * k.val + i.val) 0,
    bgaM := #[Array.ofFn (n := 64) fun i => v.getD (256 + i.val) 0] }

/-- `From<Ciphertext> for [BFieldElement; 320]` -/
def ciphertextToArray (c : Ciphertext) : Array Nat :=
  (c.bg.toList.flatMap Array.toList ++ c.bgaM.toList.flatMap Array.toList).toArray

end TF.Model.Lattice
