import TF.Gen.Consts
/-!
Hand-written executable model of the sponge discipline (C15): `Sponge::pad_and_absorb_all` (default trait method,
`twenty-first/src/util_types/sponge.rs`), `Tip5::{new, init, absorb, squeeze, hash_varlen, hash_10, hash_pair,
sample_indices, sample_scalars}` (`math/tip5.rs`) over an **abstract permutation** `perm : List Nat → List Nat`.
Core Lean only.

A sponge state is the list of its 16 canonical values. `Option`'s `none` is a panic (`try_into().unwrap()`,
`pop().unwrap()`, slice indexing) or, for `sampleIndices`, exhausted fuel (the Rust loop has no bound).
-/
namespace TF.Sponge
open TF.Gen (RATE STATE_SIZE CAPACITY DIGEST_LEN P)

/-- `usize::next_multiple_of` -/
def nextMultipleOf (n k : Nat) : Nat := if n % k = 0 then n else n + (k - n % k)

/-- `Tip5::new(domain)`: all zero; the fixed-length domain sets the capacity to ones -/
def newState (fixedLength : Bool) : List Nat :=
  if fixedLength then List.replicate RATE 0 ++ List.replicate (STATE_SIZE - RATE) 1
  else List.replicate STATE_SIZE 0

/-- `Sponge::init` for Tip5 -/
def initState : List Nat := newState false

/-- `absorb`: overwrite the rate part, permute -/
def absorb (perm : List Nat → List Nat) (st : List Nat) (block : List Nat) : List Nat :=
  perm (block ++ st.drop RATE)

/-- `squeeze`: output the rate part, then permute -/
def squeeze (perm : List Nat → List Nat) (st : List Nat) : List Nat × List Nat :=
  (st.take RATE, perm st)

/-- `input.iter().chain(once(1)).chain(repeat(0)).take(padded_length)` -/
def padded (input : List Nat) : List Nat :=
  let paddedLength := nextMultipleOf (input.length + 1) RATE
  (input ++ [1] ++ List.replicate paddedLength 0).take paddedLength

/-- itertools `chunks(k)`: groups of `k`, the last one possibly shorter, none for the empty input -/
def chunksOf (k : Nat) : Nat → List Nat → List (List Nat)
  | 0, _ => []
  | f+1, l => if l.isEmpty then [] else l.take k :: chunksOf k f (l.drop k)

/-- the chunks that `pad_and_absorb_all` hands to `absorb` -/
def padBlocks (input : List Nat) : List (List Nat) :=
  chunksOf RATE (padded input).length (padded input)

/-- `pad_and_absorb_all` for any sponge with absorb function `ab`; `try_into().unwrap()` panics on a chunk that is not
    a full block -/
def padAndAbsorbAll {σ : Type} (ab : σ → List Nat → σ) (s : σ) (input : List Nat) : Option σ :=
  (padBlocks input).foldl (fun acc c => acc.bind fun st => if c.length = RATE then some (ab st c) else none) (some s)

/-- `Tip5::hash_varlen` -/
def hashVarlen (perm : List Nat → List Nat) (input : List Nat) : Option (List Nat) :=
  (padAndAbsorbAll (absorb perm) initState input).map fun st => (squeeze perm st).1.take DIGEST_LEN

/-- `Tip5::hash_10`: fixed-length domain, write the ten inputs, permute, first five -/
def hash10 (perm : List Nat → List Nat) (input : List Nat) : List Nat :=
  (perm (input ++ (newState true).drop RATE)).take DIGEST_LEN

/-- `Tip5::hash_pair` -/
def hashPair (perm : List Nat → List Nat) (l r : List Nat) : List Nat := hash10 perm (l ++ r)

/-- index derived from one squeezed element: `element.value() as u32 % upper_bound` -/
def toIndex (bound : Nat) (e : Nat) : Nat := (e % 4294967296) % bound

/-- the loop of `sample_indices` (`fuel` bounds the number of iterations): `buf` is what is left of the last squeeze
    (popped front to back), `acc` the indices so far -/
def sampleLoop (perm : List Nat → List Nat) (bound num : Nat) :
    Nat → List Nat → List Nat → List Nat → Option (List Nat × List Nat)
  | 0, st, _, acc => if acc.length = num then some (acc, st) else none
  | f+1, st, buf, acc =>
    if acc.length = num then some (acc, st) else
    let bs := if buf.isEmpty then squeeze perm st else (buf, st)
    match bs.1 with
    | [] => none
    | e :: rest =>
      if e ≠ P - 1 then sampleLoop perm bound num f bs.2 rest (acc ++ [toIndex bound e])
      else sampleLoop perm bound num f bs.2 rest acc

/-- `sample_indices(upper_bound, num_indices)`: (indices, sponge state afterwards) -/
def sampleIndices (perm : List Nat → List Nat) (fuel : Nat) (st : List Nat) (bound num : Nat) :
    Option (List Nat × List Nat) :=
  sampleLoop perm bound num fuel st [] []

/-- `k` successive squeezes: (all outputs concatenated, state afterwards) -/
def squeezeN (perm : List Nat → List Nat) : Nat → List Nat → List Nat × List Nat
  | 0, st => ([], st)
  | k+1, st =>
    let r := squeezeN perm k (squeeze perm st).2
    ((squeeze perm st).1 ++ r.1, r.2)

/-- slice `chunks(3)` -/
def chunks3 : Nat → List Nat → List (List Nat)
  | 0, _ => []
  | f+1, l => if l.isEmpty then [] else l.take 3 :: chunks3 f (l.drop 3)

/-- `XFieldElement::new([elem[0], elem[1], elem[2]])` on a chunk (indexing a short chunk panics) -/
def toTriple : List Nat → Option (Nat × Nat × Nat)
  | [x0, x1, x2] => some (x0, x1, x2)
  | _ => none

/-- `sample_scalars(num)`: `⌈3·num / RATE⌉` squeezes, chunks of three, the first `num` (indexing a short chunk panics) -/
def sampleScalars (perm : List Nat → List Nat) (st : List Nat) (num : Nat) :
    Option (List (Nat × Nat × Nat) × List Nat) :=
  let numSqueezes := (num * 3 + RATE - 1) / RATE
  let r := squeezeN perm numSqueezes st
  (((chunks3 r.1.length r.1).take num).mapM toTriple).map fun xs => (xs, r.2)

end TF.Sponge
