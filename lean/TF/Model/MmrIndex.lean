import TF.Gen.MmrIndex
/-!
# Hand-written models of the *loop* functions of `util_types/mmr/shared_advanced.rs`

The loop-free index functions are translated (`TF/Gen/MmrIndex.lean`); the functions below contain loops or
recursion and are modelled by hand, calling the translated ones.  They are tied to the source by the correspondence
family `mmri` (C16) and are shared with the membership-proof / successor-proof models (C05, C11, C12).

Conventions
* Machine arithmetic is the arithmetic of a **release build without overflow checks** (what the harness links):
  `u64`/`u32` `+ -` wrap, `1 << s` masks the shift amount to 6 bits.  The translated functions have the same
  convention; their `_ok` predicates (and the theorems of `TF/Props/C16.lean`) say when nothing wraps, i.e. when a
  debug build computes the same value instead of panicking.
* A Rust loop becomes a structural recursion on a fuel / height argument bounded by the word size.  Running out of
  fuel is **not** given a default value: every function whose Rust loop is not obviously bounded returns
  `Option _`, where `none` means "the Rust loop does not finish within the bound" (for
  `get_peak_heights_and_peak_node_indices` the Rust loop provably spins forever in that case, e.g. for `2^63`).
  Theorems in `TF/Props/C16.lean` show `isSome` on the documented domain.
* A Rust `Option` result is an inner `Option`, so e.g. `node_index_to_leaf_index : Nat → Option (Option Nat)`.
-/
namespace TF.Model.Mmr
open TF.Gen

/-- `2^64` -/
def W64 : Nat := 18446744073709551616
/-- `2^32` -/
def W32 : Nat := 4294967296

/-- `u64` wrapping addition -/
@[inline] def add64 (a b : Nat) : Nat := (a + b) % W64
/-- `u64` wrapping subtraction (for `a, b < 2^64`) -/
@[inline] def sub64 (a b : Nat) : Nat := (a + W64 - b) % W64
/-- `u32` wrapping decrement -/
@[inline] def dec32 (a : Nat) : Nat := (a + W32 - 1) % W32
/-- `u32` wrapping increment -/
@[inline] def inc32 (a : Nat) : Nat := (a + 1) % W32
/-- `1u64 << s` for a `u32` shift amount `s` (release build: the amount is taken modulo 64) -/
@[inline] def shl1 (s : Nat) : Nat := 2 ^ (s % 64)

/-- number of loop-head evaluations granted to the descent loops: heights are below 64 -/
def descentFuel : Nat := 65

/-- the `loop` of `right_lineage_length_and_own_height` -/
def rllLoop (node_index : Nat) : (fuel : Nat) → (candidate height count : Nat) → Option (Nat × Nat)
  | 0, _, _, _ => none
  | fuel+1, candidate, height, count =>
    if candidate = node_index then some (count, height)
    else
      let lc := left_child candidate height
      if lc < node_index then rllLoop node_index fuel (right_child candidate) (dec32 height) (inc32 count)
      else rllLoop node_index fuel lc (dec32 height) 0

/-- `right_lineage_length_and_own_height(node_index) -> (right_ancestor_count, own_height)` -/
def right_lineage_length_and_own_height (node_index : Nat) : Option (Nat × Nat) :=
  let la := leftmost_ancestor node_index
  rllLoop node_index descentFuel la.1 la.2 0

/-- the recursion of `right_lineage_length_from_node_index` -/
def rllFromNodeIndexAux : (fuel : Nat) → (node_index : Nat) → Option Nat
  | 0, _ => none
  | fuel+1, n =>
    let bit_width := TF.bitLen n                 -- u64::BITS - leading_zeros
    let npo2 := 2 ^ bit_width                    -- u128
    let dist := (npo2 - n) % W64                 -- `as u64`
    if bit_width < dist then
      rllFromNodeIndexAux fuel (add64 (sub64 n (shl1 (dec32 bit_width))) 1)
    else some (sub64 dist 1 % W32)               -- `(dist - 1) as u32`

/-- `right_lineage_length_from_node_index(node_index)` -/
def right_lineage_length_from_node_index (node_index : Nat) : Option Nat :=
  rllFromNodeIndexAux descentFuel node_index

/-- `parent(node_index)` -/
def parent (node_index : Nat) : Option Nat :=
  match right_lineage_length_and_own_height node_index with
  | none => none
  | some (right_ancestor_count, height) =>
    if right_ancestor_count ≠ 0 then some (add64 node_index 1)
    else some (add64 node_index (shl1 (inc32 height)))

/-- `node_indices_added_by_append(old_leaf_count)`
    (written with `Option.map` rather than `match`: a `match` whose discriminant contains the translated word
    arithmetic makes equation-lemma generation evaluate `% 2^64` on open terms) -/
def node_indices_added_by_append (old_leaf_count : Nat) : Option (List Nat) :=
  (right_lineage_length_from_node_index (leaf_index_to_node_index old_leaf_count)).map fun right_count =>
    (List.range (right_count + 1)).map fun k => add64 (leaf_index_to_node_index old_leaf_count) k

/-- the `while` loop of `get_authentication_path_node_indices`; returns the final node index and the path -/
def authPathLoop (peak_node_index node_count : Nat) :
    (fuel : Nat) → (node_index : Nat) → (acc : List Nat) → Option (Nat × List Nat)
  | 0, _, _ => none
  | fuel+1, node_index, acc =>
    if node_index ≤ node_count ∧ node_index ≠ peak_node_index then
      match right_lineage_length_and_own_height node_index with
      | none => none
      | some (right_ancestor_count, height) =>
        if right_ancestor_count ≠ 0 then
          authPathLoop peak_node_index node_count fuel (add64 node_index 1) (acc ++ [left_sibling node_index height])
        else
          authPathLoop peak_node_index node_count fuel (add64 node_index (shl1 (inc32 height)))
            (acc ++ [right_sibling node_index height])
    else some (node_index, acc)

/-- `get_authentication_path_node_indices(start_node_index, peak_node_index, node_count)`;
    outer `none`: the loop does not finish within `descentFuel + 1` rounds (impossible for `node_count ≤ 2^64-2`) -/
def get_authentication_path_node_indices (start_node_index peak_node_index node_count : Nat) :
    Option (Option (List Nat)) :=
  match authPathLoop peak_node_index node_count (descentFuel + 1) start_node_index [] with
  | none => none
  | some (node_index, path) => if node_index = peak_node_index then some (some path) else some none

/-- `get_peak_heights(leaf_count)` -/
def get_peak_heights (leaf_count : Nat) : List Nat :=
  if leaf_count = 0 then []
  else ((List.range (Nat.log2 leaf_count + 1)).filter fun bit_index => (2 ^ bit_index &&& leaf_count) != 0).reverse

/-- the two nested `while` loops of `get_peak_heights_and_peak_node_indices` as one recursion on `height`
    (every productive round decrements `height`; a round with `candidate ≤ node_count` and `height > 0` leaves the
    state unchanged, i.e. the Rust code spins forever: `none`) -/
def peaksLoop (node_count : Nat) : (height : Nat) → (candidate : Nat) → (heights node_indices : List Nat) →
    Option (List Nat × List Nat)
  | 0, _, heights, node_indices => some (heights, node_indices)
  | h+1, candidate, heights, node_indices =>
    if candidate > node_count then
      let c := left_child candidate (h+1)
      if c ≤ node_count then peaksLoop node_count h (right_sibling c h) (heights ++ [h]) (node_indices ++ [c])
      else peaksLoop node_count h c heights node_indices
    else none

/-- `get_peak_heights_and_peak_node_indices(leaf_count)` -/
def get_peak_heights_and_peak_node_indices (leaf_count : Nat) : Option (List Nat × List Nat) :=
  if leaf_count = 0 then some ([], [])
  else
    let node_index_of_rightmost_leaf := leaf_index_to_node_index (leaf_count - 1)
    let node_count := num_leafs_to_num_nodes leaf_count
    let la := leftmost_ancestor node_index_of_rightmost_leaf
    let top := if la.1 > node_count then (left_child la.1 la.2, dec32 la.2) else la
    peaksLoop node_count top.2 (right_sibling top.1 top.2) [top.2] [top.1]

/-- the `while node_height > 0` loop of `node_index_to_leaf_index` -/
def n2lLoop (node_index : Nat) : (node_height : Nat) → (node leaf_index : Nat) → Nat
  | 0, _, leaf_index => leaf_index
  | h+1, node, leaf_index =>
    let lc := left_child node (h+1)
    if node_index ≤ lc then n2lLoop node_index h lc leaf_index
    else n2lLoop node_index h (right_child node) (add64 leaf_index (shl1 h))

/-- `node_index_to_leaf_index(node_index) -> Option<u64>` -/
def node_index_to_leaf_index (node_index : Nat) : Option (Option Nat) :=
  match right_lineage_length_and_own_height node_index with
  | none => none
  | some (_, own_height) =>
    if own_height ≠ 0 then some none
    else
      let la := leftmost_ancestor node_index
      some (some (n2lLoop node_index la.2 la.1 0))

/-! ### helpers shared with the membership-proof models (`mmr_membership_proof.rs`, crate-private there) -/

/-- one step "sibling of `node_index`, then move to its parent" used by `get_node_indices`, the batch updaters and
    `get_authentication_path_node_indices`: returns `(is_right_child, sibling_node_index, parent_node_index)` -/
def siblingAndParent (node_index : Nat) : Option (Bool × Nat × Nat) :=
  match right_lineage_length_and_own_height node_index with
  | none => none
  | some (right_ancestor_count, height) =>
    if right_ancestor_count ≠ 0 then some (true, left_sibling node_index height, add64 node_index 1)
    else some (false, right_sibling node_index height, add64 node_index (shl1 (inc32 height)))

/-- `MmrMembershipProof::get_node_indices` for a path of length `len` -/
def get_node_indices (leaf_index len : Nat) : Option (List Nat) :=
  let rec go : (k : Nat) → (node_index : Nat) → (acc : List Nat) → Option (List Nat)
    | 0, _, acc => some acc
    | k+1, node_index, acc =>
      match siblingAndParent node_index with
      | none => none
      | some (_, sib, par) => go k par (acc ++ [sib])
  go len (leaf_index_to_node_index leaf_index) []

/-- `MmrMembershipProof::get_direct_path_indices` for a path of length `len` -/
def get_direct_path_indices (leaf_index len : Nat) : Option (List Nat) :=
  let rec go : (k : Nat) → (node_index : Nat) → (acc : List Nat) → Option (List Nat)
    | 0, _, acc => some acc
    | k+1, node_index, acc =>
      match parent node_index with
      | none => none
      | some p => go k p (acc ++ [p])
  let start := leaf_index_to_node_index leaf_index
  go len start [start]

end TF.Model.Mmr
