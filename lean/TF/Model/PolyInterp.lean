import TF.Model.FieldOps
import TF.Model.Poly
import TF.Gen.Consts
/-!
Model of the interpolation / bulk evaluation / zerofier / coset extrapolation routines of
`twenty-first/src/math/polynomial.rs` and of `math/zerofier_tree.rs` (property C08).  Core Lean only.

* Polynomials are coefficient lists, lowest degree first; stored leading zeros are representable, as in Rust.
  The shared polynomial core (`normalize`, `add`, `sub`, `scale`, `evaluate`, …) is `TF/Model/Poly.lean`.
* Generic in the field through `TF.FieldOps α`.
* `Option`: `none` models a panic (or, for the dispatchers run with a degenerate threshold, unbounded recursion).
* Routines that belong to other properties are *parameters* (`Ext α`): `multiply` / operator `*` /
  `par_batch_multiply` (C07), `reduce` / `fast_reduce` and the chunk-wise `reduce_by_ntt_friendly_modulus` (C09),
  `ntt` / `intt` (C06).  The theorems of C08 are stated for every `Ext` that satisfies the contracts of those
  properties; the driver instantiates `Ext.std` (schoolbook / radix-2 transform / long division).
* Every dispatch threshold is a parameter of a `…T` function; the un-suffixed function plugs in the constant
  translated from the Rust source (`TF.Gen.*`).  Thread counts (`available_parallelism`) are parameters too.
-/
namespace TF.Model.PolyI
open TF TF.Model.Poly

variable {α : Type}

/-- routines specified by other properties -/
structure Ext (α : Type) where
  /-- `Polynomial::multiply`, operator `*` (C07): the product -/
  mul : List α → List α → List α
  /-- `Polynomial::par_batch_multiply` with the given thread count (C07): the product of all factors -/
  parBatchMul : Nat → List (List α) → List α
  /-- `reduce` / `fast_reduce` by a non-zero modulus (C09): the remainder -/
  rem : List α → List α → List α
  /-- `reduce_by_ntt_friendly_modulus` with the data preprocessed from the given non-zero modulus (C09):
      something congruent to the input modulo the modulus -/
  redNtt : List α → List α → List α
  /-- `ntt` on a slice whose length is a power of two (C06) -/
  ntt : List α → List α
  /-- `intt` on a slice whose length is a power of two (C06) -/
  intt : List α → List α

/-! ### basic coefficient-list operations -/
section basic
variable (F : FieldOps α)

/-- `degree() + 1` (0 for the zero polynomial) -/
def degSucc (p : List α) : Nat := (normalize F p).length

/-- `Vec::resize(n, ZERO)` -/
def resize (p : List α) (n : Nat) : List α := p.take n ++ List.replicate (n - p.length) F.zero

/-- `FiniteField::batch_inversion` by its specification (C01): panics iff some input is zero -/
def batchInversion (xs : List α) : Option (List α) :=
  if xs.any F.isZero then none else some (xs.map F.inv)

def isPow2 (n : Nat) : Bool := n != 0 && n &&& (n - 1) == 0

/-- `slice::chunks(k)` for `k ≥ 1` -/
def chunksAux (k : Nat) : Nat → List α → List (List α)
  | 0, _ => []
  | _+1, [] => []
  | fuel+1, x :: xs => (x :: xs).take k :: chunksAux k fuel ((x :: xs).drop k)

def chunks (k : Nat) (l : List α) : List (List α) := chunksAux k l.length l

def ceilDiv (a b : Nat) : Nat := (a + b - 1) / b

/-- `[x0, x0*g, x0*g^2, …]` (`scan` with `acc *= g`), `n` elements -/
def geom (x0 g : α) : Nat → List α
  | 0 => []
  | n+1 => x0 :: geom (F.mul x0 g) g n

end basic

/-! ### zerofiers -/
section zerofier
variable (F : FieldOps α) (E : Ext α)

/-- inner loop of `smart_zerofier` for indices `1..=m` (`j` = how many indices are still to be updated, `prev` =
    the *old* value one index below): `z[k] = z[k-1] - root * z[k]`; indices above `num_coeffs` are untouched.
    The Rust loop runs downwards so that `z[k-1]` is still the old value; reading the old values explicitly is
    the same computation. -/
def smartGo (r : α) : Nat → α → List α → List α
  | 0, _, cs => cs
  | _+1, _, [] => []
  | j+1, prev, c :: cs => F.sub prev (F.mul r c) :: smartGo r j c cs

/-- one root: indices `1..=m`, then `z[0] = -root * z[0]` -/
def smartStep (r : α) (m : Nat) : List α → List α
  | [] => []
  | c :: cs => F.mul (F.neg r) c :: smartGo F r m c cs

/-- state = (array, num_coeffs) -/
def smartLoop : List α → List α × Nat → List α × Nat
  | [], st => st
  | r :: rs, (z, m) => smartLoop rs (smartStep F r m z, m + 1)

def smartZerofier (roots : List α) : List α :=
  (smartLoop F roots (F.one :: List.replicate roots.length F.zero, 1)).1

/-- `naive_zerofier`: `map(|r| [-r, 1]).reduce(|acc, lin| acc * lin).unwrap_or(one)` -/
def naiveZerofier (roots : List α) : List α :=
  match roots with
  | [] => one F
  | r :: rs => rs.foldl (fun acc r' => E.mul acc [F.neg r', F.one]) [F.neg r, F.one]

/-- `zerofier` with cut-off `T` (mutually recursive with `fast_zerofier`, which is inlined).
    `none`: the Rust recursion does not terminate (only possible for `T ≤ 1`). -/
def zerofierT (T : Nat) : Nat → List α → Option (List α)
  | 0, _ => none
  | fuel+1, roots =>
    if roots.length < T then some (smartZerofier F roots)
    else do
      let mid := roots.length / 2
      let l ← zerofierT T fuel (roots.take mid)
      let r ← zerofierT T fuel (roots.drop mid)
      pure (E.mul l r)

def zerofierWith (T : Nat) (roots : List α) : Option (List α) := zerofierT F E T (roots.length + 1) roots

def zerofier (roots : List α) : Option (List α) :=
  zerofierWith F E TF.Gen.FAST_ZEROFIER_CUTOFF_THRESHOLD roots

/-- `fast_zerofier` -/
def fastZerofierWith (T : Nat) (roots : List α) : Option (List α) := do
  let mid := roots.length / 2
  let l ← zerofierWith F E T (roots.take mid)
  let r ← zerofierWith F E T (roots.drop mid)
  pure (E.mul l r)

def fastZerofier (roots : List α) : Option (List α) :=
  fastZerofierWith F E TF.Gen.FAST_ZEROFIER_CUTOFF_THRESHOLD roots

/-- `par_zerofier` with `available_parallelism() = threads` -/
def parZerofierWith (T : Nat) (threads : Nat) (roots : List α) : Option (List α) :=
  if roots.isEmpty then some (one F) else
  let chunk := max (ceilDiv roots.length threads) T
  if chunk == 0 then none else do   -- `par_chunks(0)` panics (unreachable: roots non-empty)
    let factors ← (chunks chunk roots).mapM (zerofierWith F E T)
    pure (E.parBatchMul threads factors)

def parZerofier (threads : Nat) (roots : List α) : Option (List α) :=
  parZerofierWith F E TF.Gen.FAST_ZEROFIER_CUTOFF_THRESHOLD threads roots

end zerofier

/-! ### zerofier tree, bulk evaluation -/
inductive ZTree (α : Type) where
  | leaf (points : List α) (zf : List α)
  | branch (zf : List α) (left right : ZTree α)
  | padding

namespace ZTree
def isPadding : ZTree α → Bool
  | padding => true
  | _ => false

/-- points in left-to-right order -/
def points : ZTree α → List α
  | leaf pts _ => pts
  | branch _ l r => l.points ++ r.points
  | padding => []

/-- preorder shape, `L`/`B`/`P` -/
def shape : ZTree α → String
  | leaf _ _ => "L"
  | branch _ l r => "B" ++ l.shape ++ r.shape
  | padding => "P"
end ZTree

section tree
variable (F : FieldOps α) (E : Ext α)

def ZTree.zerofier : ZTree α → List α
  | .leaf _ z => z
  | .branch z _ _ => z
  | .padding => one F

def nextPow2Aux : Nat → Nat → Nat → Nat
  | 0, p, _ => p
  | fuel+1, p, n => if p ≥ n then p else nextPow2Aux fuel (2 * p) n

/-- `usize::next_power_of_two` (1 for 0) -/
def nextPow2 (n : Nat) : Nat := nextPow2Aux n 1 n

/-- `Branch::new` -/
def mkBranch (l r : ZTree α) : ZTree α := .branch (E.mul (l.zerofier F) (r.zerofier F)) l r

/-- the `while nodes.len() > 1` loop over the deque: pop two from the back, push the parent to the front -/
def treeLoop : Nat → List (ZTree α) → Option (ZTree α)
  | 0, nodes => nodes.head?
  | fuel+1, nodes =>
    if nodes.length > 1 then
      match nodes.reverse with
      | right :: left :: restRev =>
        if left.isPadding then treeLoop fuel (ZTree.padding :: restRev.reverse)
        else treeLoop fuel (mkBranch F E left right :: restRev.reverse)
      | _ => none
    else nodes.head?

/-- `ZerofierTree::new_from_domain` with leaf size `RT` and zerofier cut-off `T` -/
def newFromDomainWith (RT T : Nat) (domain : List α) : Option (ZTree α) :=
  if RT == 0 then none else do      -- `chunks(0)` panics
    let leaves ← (chunks RT domain).mapM (fun ch => do
      let z ← zerofierWith F E T ch
      pure (ZTree.leaf ch z))
    let nodes := leaves ++ List.replicate (nextPow2 leaves.length - leaves.length) ZTree.padding
    treeLoop F E nodes.length nodes

def newFromDomain (domain : List α) : Option (ZTree α) :=
  newFromDomainWith F E TF.Gen.ZEROFIER_TREE_RECURSION_CUTOFF_THRESHOLD TF.Gen.FAST_ZEROFIER_CUTOFF_THRESHOLD domain

/-- `reduce`: panics on the zero modulus, otherwise the remainder -/
def reduce (p m : List α) : Option (List α) :=
  if Poly.isZero F m then none else some (E.rem p m)

/-- `iterative_batch_evaluate` -/
def iterativeBatchEvaluate (p : List α) (domain : List α) : List α := domain.map (evaluate F p)

/-- `divide_and_conquer_batch_evaluate` -/
def dcEval (p : List α) : ZTree α → Option (List α)
  | .leaf pts z => do
    let r ← reduce F E p z
    pure (iterativeBatchEvaluate F r pts)
  | .branch _ l r => do
    let a ← dcEval p l
    let b ← dcEval p r
    pure (a ++ b)
  | .padding => some []

/-- `batch_evaluate` with ratio `R` (and tree parameters) -/
def batchEvaluateWith (R RT T : Nat) (p : List α) (domain : List α) : Option (List α) :=
  if Poly.isZero F p then some (List.replicate domain.length F.zero)
  else if degSucc F p ≥ R * domain.length + 1 then do   -- degree ≥ R * len
    -- reduce_then_batch_evaluate
    let t ← newFromDomainWith F E RT T domain
    let r ← reduce F E p (t.zerofier F)       -- `fast_reduce`
    dcEval F E r t
  else do
    let t ← newFromDomainWith F E RT T domain
    dcEval F E p t

def batchEvaluate (p : List α) (domain : List α) : Option (List α) :=
  batchEvaluateWith F E TF.Gen.REDUCE_BEFORE_EVALUATE_THRESHOLD_RATIO
    TF.Gen.ZEROFIER_TREE_RECURSION_CUTOFF_THRESHOLD TF.Gen.FAST_ZEROFIER_CUTOFF_THRESHOLD p domain

/-- `par_batch_evaluate` with `available_parallelism() = threads` -/
def parBatchEvaluateWith (R RT T : Nat) (threads : Nat) (p : List α) (domain : List α) : Option (List α) :=
  if domain.isEmpty || Poly.isZero F p then some (List.replicate domain.length F.zero) else
  let chunk := ceilDiv domain.length threads
  if chunk == 0 then none else do
    let parts ← (chunks chunk domain).mapM (batchEvaluateWith F E R RT T p)
    pure parts.flatten

def parBatchEvaluate (threads : Nat) (p : List α) (domain : List α) : Option (List α) :=
  parBatchEvaluateWith F E TF.Gen.REDUCE_BEFORE_EVALUATE_THRESHOLD_RATIO
    TF.Gen.ZEROFIER_TREE_RECURSION_CUTOFF_THRESHOLD TF.Gen.FAST_ZEROFIER_CUTOFF_THRESHOLD threads p domain

end tree

/-! ### interpolation -/
section interp
variable (F : FieldOps α) (E : Ext α)

/-- the `for j in (1..n).rev()` loop of `lagrange_interpolate` plus the two statements after it: synthetic division
    of the zerofier by `X - x`, Horner evaluation of the quotient on the fly.  `rest` = the not yet consumed zerofier
    coefficients in *descending* order (the next `supporting_coefficient` first), `acc` = quotient coefficients found
    so far (ascending). Returns (summand_array, summand_eval). -/
def synthGo (x : α) : α → α → List α → List α → List α × α
  | _, ev, acc, [] => (acc, ev)                 -- not reached for a non-empty domain
  | lc, ev, acc, [_] => (lc :: acc, F.add (F.mul ev x) lc)
  | lc, ev, acc, s :: s' :: rest =>
    synthGo x (F.add s (F.mul lc x)) (F.add (F.mul ev x) lc) (lc :: acc) (s' :: rest)

/-- the outer loop over `values.iter().enumerate()` (points = zip of domain and values) -/
def lagrangeLoop (zdesc : List α) : List (α × α) → List α → Option (List α)
  | [], sum => some sum
  | (x, y) :: rest, sum =>
    match zdesc with
    | [] => none
    | zn :: zs =>
      let (summand, ev) := synthGo F x zn F.zero [] zs
      if F.isZero ev then none          -- `abscis / summand_eval` panics
      else
        let c := F.div y ev
        lagrangeLoop zdesc rest (List.zipWith (fun a s => F.add a (F.mul c s)) sum summand)

/-- `lagrange_interpolate` (release build: the `debug_assert`s are compiled out) -/
def lagrangeInterpolateWith (T : Nat) (domain values : List α) : Option (List α) :=
  let n := domain.length
  if values.length > n then none      -- `domain[i]` out of bounds (for n = 0: `zerofier[domain.len() - 1]`)
  else do
    let z ← zerofierWith F E T domain
    if z.length < n + 1 then none else
    lagrangeLoop F ((z.take (n + 1)).reverse) (domain.zip values) (List.replicate n F.zero)

def lagrangeInterpolate (domain values : List α) : Option (List α) :=
  lagrangeInterpolateWith F E TF.Gen.FAST_ZEROFIER_CUTOFF_THRESHOLD domain values

def allUnique : List α → Bool
  | [] => true
  | x :: xs => !(xs.any (F.beq x)) && allUnique xs

/-- `lagrange_interpolate_zipped` -/
def lagrangeInterpolateZipped (points : List (α × α)) : Option (List α) :=
  if points.isEmpty then none
  else if !(allUnique F (points.map (·.1))) then none
  else lagrangeInterpolate F E (points.map (·.1)) (points.map (·.2))

/-- thresholds of the interpolation routines -/
structure Thr where
  zf : Nat      -- FAST_ZEROFIER_CUTOFF_THRESHOLD
  rt : Nat      -- ZerofierTree::RECURSION_CUTOFF_THRESHOLD
  ratio : Nat   -- REDUCE_BEFORE_EVALUATE_THRESHOLD_RATIO
  seq : Nat     -- FAST_INTERPOLATE_CUTOFF_THRESHOLD_SEQUENTIAL
  par : Nat     -- FAST_INTERPOLATE_CUTOFF_THRESHOLD_PARALLEL
  batch : Nat   -- OPTIMAL_CUTOFF_POINT_FOR_BATCHED_INTERPOLATION
  lag : Nat     -- FAST_MODULAR_COSET_INTERPOLATE_CUTOFF_THRESHOLD_PREFER_LAGRANGE
  intt : Nat    -- FAST_MODULAR_COSET_INTERPOLATE_CUTOFF_THRESHOLD_PREFER_INTT
  extra : Nat   -- FAST_COSET_EXTRAPOLATE_THRESHOLD

/-- the thresholds of the current source -/
def Thr.src : Thr where
  zf := TF.Gen.FAST_ZEROFIER_CUTOFF_THRESHOLD
  rt := TF.Gen.ZEROFIER_TREE_RECURSION_CUTOFF_THRESHOLD
  ratio := TF.Gen.REDUCE_BEFORE_EVALUATE_THRESHOLD_RATIO
  seq := TF.Gen.FAST_INTERPOLATE_CUTOFF_THRESHOLD_SEQUENTIAL
  par := TF.Gen.FAST_INTERPOLATE_CUTOFF_THRESHOLD_PARALLEL
  batch := TF.Gen.OPTIMAL_CUTOFF_POINT_FOR_BATCHED_INTERPOLATION
  lag := TF.Gen.FAST_MODULAR_COSET_INTERPOLATE_CUTOFF_THRESHOLD_PREFER_LAGRANGE
  intt := TF.Gen.FAST_MODULAR_COSET_INTERPOLATE_CUTOFF_THRESHOLD_PREFER_INTT
  extra := TF.Gen.FAST_COSET_EXTRAPOLATE_THRESHOLD

/-- body of `fast_interpolate` / `par_fast_interpolate`; `interp` = the dispatcher called on the halves,
    `bev` = `batch_evaluate` resp. `par_batch_evaluate` -/
def fastInterpolateStep (zfT : Nat) (interp : List α → List α → Option (List α))
    (bev : List α → List α → Option (List α)) (domain values : List α) : Option (List α) :=
  if domain.length == 1 then
    match values with
    | [] => none                       -- `values[0]`
    | v :: _ => some [v]
  else
    let mid := domain.length / 2
    if values.length < mid then none else do   -- `&values[..mid]`
      let ld := domain.take mid
      let lv := values.take mid
      let rd := domain.drop mid
      let rv := values.drop mid
      let lz ← zerofierWith F E zfT ld
      let rz ← zerofierWith F E zfT rd
      let lo ← bev rz ld
      let ro ← bev lz rd
      let loi ← batchInversion F lo
      let li ← interp ld (List.zipWith F.mul lv loi)
      let roi ← batchInversion F ro
      let ri ← interp rd (List.zipWith F.mul rv roi)
      pure (add F (E.mul li rz) (E.mul ri lz))

/-- `interpolate` (`cut = seq`, sequential batch evaluation) and `par_interpolate` (`cut = par`, parallel batch
    evaluation with `threads`), by recursion on `fuel ≥ domain.length` -/
def interpolateFuel (t : Thr) (cut : Nat) (bev : List α → List α → Option (List α)) :
    Nat → List α → List α → Option (List α)
  | 0, _, _ => none
  | fuel+1, domain, values =>
    if domain.isEmpty then none
    else if domain.length != values.length then none
    else if domain.length ≤ cut then lagrangeInterpolateWith F E t.zf domain values
    else fastInterpolateStep F E t.zf (interpolateFuel t cut bev fuel) bev domain values

def bevSeq (t : Thr) : List α → List α → Option (List α) := batchEvaluateWith F E t.ratio t.rt t.zf
def bevPar (t : Thr) (threads : Nat) : List α → List α → Option (List α) :=
  parBatchEvaluateWith F E t.ratio t.rt t.zf threads

def interpolateWith (t : Thr) (domain values : List α) : Option (List α) :=
  interpolateFuel F E t t.seq (bevSeq F E t) (domain.length + 1) domain values

def parInterpolateWith (t : Thr) (threads : Nat) (domain values : List α) : Option (List α) :=
  interpolateFuel F E t t.par (bevPar F E t threads) (domain.length + 1) domain values

def fastInterpolateWith (t : Thr) (domain values : List α) : Option (List α) :=
  fastInterpolateStep F E t.zf (interpolateWith F E t) (bevSeq F E t) domain values

def parFastInterpolateWith (t : Thr) (threads : Nat) (domain values : List α) : Option (List α) :=
  fastInterpolateStep F E t.zf (parInterpolateWith F E t threads) (bevPar F E t threads) domain values

def interpolate := interpolateWith F E Thr.src
def parInterpolate := parInterpolateWith F E Thr.src
def fastInterpolate := fastInterpolateWith F E Thr.src
def parFastInterpolate := parFastInterpolateWith F E Thr.src

/-! `batch_fast_interpolate`: the two `HashMap`s keyed by (first, last) point of a half -/
abbrev Dict (α : Type) := List ((α × α) × List α)

def Dict.get (F : FieldOps α) (d : Dict α) (k : α × α) : Option (List α) :=
  (d.find? (fun e => F.beq e.1.1 k.1 && F.beq e.1.2 k.2)).map (·.2)

/-- `match dict.get(&key) { Some(v) => v.to_owned(), None => { let v = compute; dict.insert(key, v.clone()); v } }` -/
def memoGet (d : Dict α) (key : α × α) (compute : Option (List α)) : Option (List α × Dict α) :=
  match Dict.get F d key with
  | some v => some (v, d)
  | none => do
    let v ← compute
    pure (v, d ++ [(key, v)])

def batchMemoFuel (t : Thr) : Nat → List α → List (List α) → Dict α × Dict α →
    Option (List (List α) × (Dict α × Dict α))
  | 0, _, _, _ => none
  | fuel+1, domain, matrix, (zd, od) =>
    if domain.length < t.batch then do
      let r ← matrix.mapM (fun values => lagrangeInterpolateWith F E t.zf domain values)
      pure (r, (zd, od))
    else
      let half := domain.length / 2
      if half == 0 then none else            -- `domain[half - 1]` (resp. `domain[0]`)
      match domain[0]?, domain[half - 1]?, domain[half]?, domain.getLast? with
      | some d0, some dh1, some dh, some dl => do
        let lkey := (d0, dh1)
        let rkey := (dh, dl)
        let (lz, zd) ← memoGet F zd lkey (zerofierWith F E t.zf (domain.take half))
        let (rz, zd) ← memoGet F zd rkey (zerofierWith F E t.zf (domain.drop half))
        let (loi, od) ← memoGet F od lkey (do
            let lo ← bevSeq F E t rz (domain.take half)
            batchInversion F lo)
        let (roi, od) ← memoGet F od rkey (do
            let ro ← bevSeq F E t lz (domain.drop half)
            batchInversion F ro)
        -- `values[..half]`, `values[half..]` panic on short rows
        if matrix.any (fun values => values.length < half) then none else
        let ltargets := matrix.map (fun values => List.zipWith F.mul (values.take half) loi)
        let rtargets := matrix.map (fun values => List.zipWith F.mul (values.drop half) roi)
        let (lis, dicts) ← batchMemoFuel t fuel (domain.take half) ltargets (zd, od)
        let (ris, dicts) ← batchMemoFuel t fuel (domain.drop half) rtargets dicts
        pure (List.zipWith (fun li ri => add F (E.mul li rz) (E.mul ri lz)) lis ris, dicts)
      | _, _, _, _ => none

/-- `batch_fast_interpolate` (`primitive_root`, `root_order` only occur in a `debug_assert`) -/
def batchFastInterpolateWith (t : Thr) (domain : List α) (matrix : List (List α)) : Option (List (List α)) :=
  if domain.isEmpty then none else
  (batchMemoFuel F E t (domain.length + 1) domain matrix ([], [])).map (·.1)

def batchFastInterpolate := batchFastInterpolateWith F E Thr.src

end interp

/-! ### cosets: NTT-based evaluation / interpolation, barycentric formula, extrapolation -/
section coset
variable (F : FieldOps α) (E : Ext α)

def nttChecked (xs : List α) : Option (List α) :=
  if xs.length == 0 || isPow2 xs.length then some (E.ntt xs) else none
def inttChecked (xs : List α) : Option (List α) :=
  if xs.length == 0 || isPow2 xs.length then some (E.intt xs) else none

/-- `fast_coset_evaluate` (offset already lifted into the field of the coefficients) -/
def fastCosetEvaluate (p : List α) (offset : α) (order : Nat) : Option (List α) :=
  if !(order ≥ degSucc F p) then none     -- assert order > degree
  else nttChecked E (resize F (scale F p offset) order)

/-- `fast_coset_interpolate` -/
def fastCosetInterpolate (offset : α) (values : List α) : Option (List α) := do
  let c ← inttChecked E values
  if F.isZero offset then none else
  pure (scale F c (F.inv offset))

/-- `barycentric_evaluate` (codeword and indeterminate in one field) -/
def barycentricEvaluate (codeword : List α) (x : α) : Option α := do
  let g ← F.rootOfUnity codeword.length
  let domain := geom F F.one g codeword.length
  let shiftInv ← batchInversion F (domain.map (fun d => F.sub x d))
  let dods := List.zipWith (fun d inv => F.mul inv d) domain shiftInv
  let den := dods.foldl F.add F.zero
  let num := (List.zipWith (fun dsi c => F.mul c dsi) dods codeword).foldl F.add F.zero
  if F.isZero den then none else
  pure (F.mul num (F.inv den))

def log2 (n : Nat) : Nat := Nat.log2 n

/-- `ModularInterpolationPreprocessingData`; the NTT-friendly multiple (`shift_coefficients`, `tail_length`) is
    represented by the modulus it was computed from -/
structure Pre (α : Type) where
  evenZ : List (List α)
  oddZ : List (List α)
  modulus : List α

/-- `X^(2^i) mod m` for `i < k` -/
def modSquares (m : List α) : Nat → List α → List (List α)
  | 0, _ => []
  | k+1, acc => acc :: modSquares m k (E.rem (E.mul acc acc) m)

def sparseZerofiers (base : α) (squares : List (List α)) : List (List α) :=
  (squares.zipIdx).map (fun (sq, i) => sub F (scalarMul F sq (F.pow base (2 ^ i))) (one F))

/-- `fast_modular_coset_interpolate_preprocess` -/
def fmciPreprocess (n : Nat) (offset : α) (modulus : List α) : Option (Pre α) := do
  let omega ← F.rootOfUnity n
  if n == 0 then none else                       -- `n.ilog2()`
  let k := log2 n
  if k ≥ 1 && Poly.isZero F modulus then none else   -- `.reduce(modulus)`
  if k ≥ 1 && F.isZero offset then none else        -- `offset.inverse()`, `(offset * omega).inverse()`
  if Poly.isZero F modulus then none else            -- `shift_factor_ntt_with_tail_length`
  let squares := modSquares E modulus k [F.zero, F.one]
  pure { evenZ := sparseZerofiers F (F.inv offset) squares
         oddZ := sparseZerofiers F (F.inv (F.mul offset omega)) squares
         modulus := modulus }

def evens : List α → List α
  | [] => []
  | [x] => [x]
  | x :: _ :: rest => x :: evens rest
def odds : List α → List α
  | [] => []
  | [_] => []
  | _ :: y :: rest => y :: odds rest

/-- `fast_modular_coset_interpolate_with_zerofiers_and_ntt_friendly_multiple`; the recursive calls go through
    `fast_modular_coset_interpolate`, which recomputes the preprocessing -/
def fmciWithFuel (t : Thr) : Nat → List α → α → List α → Pre α → Option (List α)
  | 0, _, _, _, _ => none
  | fuel+1, values, offset, modulus, pre =>
    if Poly.isZero F modulus then none else
    let n := values.length
    match F.rootOfUnity n with
    | none => none
    | some omega =>
      if n < t.lag then do
        let interpolant ← lagrangeInterpolateWith F E t.zf (geom F offset omega n) values
        reduce F E interpolant modulus
      else if n ≤ t.intt then do
        let c ← inttChecked E values
        if F.isZero offset then none else
        reduce F E (E.redNtt (scale F c (F.inv offset)) pre.modulus) modulus
      else
        let half := n / 2
        if half == 0 then none else          -- `(n / 2).ilog2()`
        let m2i := F.ofNat TF.Gen.MINUS_TWO_INVERSE
        let evenT := (evens values).map (fun v => F.mul m2i v)
        let oddT := (odds values).map (fun v => F.mul m2i v)
        do
          let preE ← fmciPreprocess F E evenT.length offset modulus
          let ei ← fmciWithFuel t fuel evenT offset modulus preE
          let preO ← fmciPreprocess F E oddT.length (F.mul offset omega) modulus
          let oi ← fmciWithFuel t fuel oddT (F.mul offset omega) modulus preO
          let oz ← pre.oddZ[log2 half]?
          let ez ← pre.evenZ[log2 half]?
          reduce F E (add F (E.mul ei oz) (E.mul oi ez)) modulus

def fmciWith (t : Thr) (values : List α) (offset : α) (modulus : List α) (pre : Pre α) : Option (List α) :=
  fmciWithFuel F E t (values.length + 1) values offset modulus pre

/-- `fast_modular_coset_interpolate` -/
def fmci (t : Thr) (values : List α) (offset : α) (modulus : List α) : Option (List α) := do
  let pre ← fmciPreprocess F E values.length offset modulus
  fmciWith F E t values offset modulus pre

/-- `naive_coset_extrapolate` -/
def naiveCosetExtrapolate (t : Thr) (offset : α) (codeword points : List α) : Option (List α) := do
  let c ← inttChecked E codeword
  if F.isZero offset then none else
  bevSeq F E t (scale F c (F.inv offset)) points

/-- `fast_coset_extrapolate` -/
def fastCosetExtrapolate (t : Thr) (offset : α) (codeword points : List α) : Option (List α) := do
  let tree ← newFromDomainWith F E t.rt t.zf points
  let mi ← fmci F E t codeword offset (tree.zerofier F)
  dcEval F E mi tree

/-- `coset_extrapolate` -/
def cosetExtrapolateWith (t : Thr) (offset : α) (codeword points : List α) : Option (List α) :=
  if points.length < t.extra then fastCosetExtrapolate F E t offset codeword points
  else naiveCosetExtrapolate F E t offset codeword points

def cosetExtrapolate := cosetExtrapolateWith F E Thr.src

/-- the codewords `codewords[i*n .. (i+1)*n]`, `i < codewords.len() / n` -/
def codewordSlices (n : Nat) (codewords : List α) : List (List α) :=
  (List.range (codewords.length / n)).map (fun i => (codewords.drop (i * n)).take n)

/-- `batch_coset_extrapolate` and `par_batch_coset_extrapolate` (the closures are pure and the parallel iterator
    is order preserving, so both have the same model) -/
def batchCosetExtrapolateWith (t : Thr) (offset : α) (n : Nat) (codewords points : List α) : Option (List α) :=
  if points.length < t.extra then do
    let tree ← newFromDomainWith F E t.rt t.zf points
    let modulus := tree.zerofier F
    let pre ← fmciPreprocess F E n offset modulus
    let parts ← (codewordSlices n codewords).mapM (fun cw => do
      let mi ← fmciWith F E t cw offset modulus pre
      dcEval F E mi tree)
    pure parts.flatten
  else do
    let tree ← newFromDomainWith F E t.rt t.zf points
    let modulus := tree.zerofier F
    if Poly.isZero F modulus then none else      -- `shift_factor_ntt_with_tail_length`
    if n == 0 then none else                    -- `codewords.len() / n`
    let parts ← (codewordSlices n codewords).mapM (fun cw => do
      let c ← inttChecked E cw
      if F.isZero offset then none else
      dcEval F E (E.redNtt (scale F c (F.inv offset)) modulus) tree)
    pure parts.flatten

def batchCosetExtrapolate := batchCosetExtrapolateWith F E Thr.src

end coset

/-! ### the instance of `Ext` used by the driver: schoolbook product, long division, radix-2 transform -/
section std
variable (F : FieldOps α)

def subScaled (q : α) : List α → List α → List α
  | x :: xs, y :: ys => F.sub x (F.mul q y) :: subScaled q xs ys
  | xs, [] => xs
  | [], _ => []

/-- long division on descending coefficient lists; `mtail` = divisor without its leading coefficient -/
def remLoop (lcInv : α) (mtail : List α) : Nat → List α → List α
  | 0, ar => ar
  | _+1, [] => []
  | k+1, top :: rest => remLoop lcInv mtail k (subScaled F (F.mul top lcInv) rest mtail)

def remNaive (a m : List α) : List α :=
  match (normalize F m).reverse with
  | [] => a          -- zero modulus: callers test before
  | lc :: mtail =>
    let ar := (normalize F a).reverse
    if ar.length ≤ mtail.length then a else
    (remLoop F (F.inv lc) mtail (ar.length - mtail.length) ar).reverse

def powers (w : α) (n : Nat) : List α := geom F F.one w n

/-- recursive radix-2 DFT: `out[i] = Σ_j xs[j] * w^(i j)`, length a power of two -/
def fftFuel : Nat → α → List α → List α
  | 0, _, xs => xs
  | fuel+1, w, xs =>
    if xs.length ≤ 1 then xs else
    let w2 := F.mul w w
    let e := fftFuel fuel w2 (evens xs)
    let o := fftFuel fuel w2 (odds xs)
    let tw := List.zipWith F.mul (powers F w o.length) o
    List.zipWith F.add e tw ++ List.zipWith F.sub e tw

def nttStd (xs : List α) : List α :=
  match F.rootOfUnity xs.length with
  | some w => fftFuel F (xs.length + 1) w xs
  | none => xs

def inttStd (xs : List α) : List α :=
  match F.rootOfUnity xs.length with
  | some w =>
    let ninv := F.inv (F.ofNat xs.length)
    (fftFuel F (xs.length + 1) (F.inv w) xs).map (fun v => F.mul v ninv)
  | none => xs

/-- product through the transform when both factors are large -/
def mulStd (a b : List α) : List α :=
  let a' := normalize F a
  let b' := normalize F b
  if a'.length < 64 || b'.length < 64 then naiveMultiply F a' b' else
  let deg1 := a'.length + b'.length - 1
  let order := nextPow2 deg1
  match F.rootOfUnity order with
  | none => naiveMultiply F a' b'
  | some w =>
    let fa := fftFuel F (order + 1) w (resize F a' order)
    let fb := fftFuel F (order + 1) w (resize F b' order)
    let ninv := F.inv (F.ofNat order)
    ((fftFuel F (order + 1) (F.inv w) (List.zipWith F.mul fa fb)).map (fun v => F.mul v ninv)).take deg1

def Ext.std : Ext α where
  mul := mulStd F
  parBatchMul := fun _ fs => fs.foldl (mulStd F) (one F)
  rem := remNaive F
  redNtt := remNaive F
  ntt := nttStd F
  intt := inttStd F

end std

end TF.Model.PolyI
