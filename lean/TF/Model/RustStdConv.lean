import TF.Model.RustStd
import TF.Model.WordBytes
/-!
Models of the `std` / `itertools` functions that the definitions regenerated from source by `tools/rs2lean_conv.py`
refer to (`TF/Gen/ConvLoops.lean`, `TF/Gen/CodecLeaves.lean`, `TF/Gen/MerkleIndex.lean`).  They are part of the trusted
base ("`std` behaves as documented", DESIGN §6); each is the documented behaviour written out.  Core Lean only.

`Result<T, E>` is `Except String T`: the error is the *name of the variant* of `E` (payloads are dropped; the translator
only accepts payload expressions that cannot panic).  `Option<T>` is `Option T`.  Iterators, slices, arrays and `Vec`s are
lists (the translator tracks the static length of `[T; N]` in its own types).
-/
namespace TF.RustStd

/-- `Option::ok_or(err)` -/
def ok_or {α : Type} (o : Option α) (err : String) : Except String α :=
  match o with
  | some v => .ok v
  | none => .error err

/-- `Result::map_err(|_| err)`: the closure ignores its argument -/
def map_err {α : Type} (r : Except String α) (err : String) : Except String α :=
  match r with
  | .ok v => .ok v
  | .error _ => .error err

/-- the `?` operator on a `Result` inside a function returning `Result<_, E>` with the *same* error type -/
def tryE {α β : Type} (r : Except String α) (f : α → Except String β) : Except String β :=
  match r with
  | .ok v => f v
  | .error e => .error e

/-- the `?` operator where the error is converted by `From` (a `#[from]` variant `conv` of the function's error type) -/
def tryFrom {α β : Type} (conv : String) (r : Except String α) (f : α → Except String β) : Except String β :=
  match r with
  | .ok v => f v
  | .error _ => .error conv

/-- the `_ok` twin of `?`: what follows is only evaluated on `Ok` -/
def okE {α : Type} (r : Except String α) (f : α → Bool) : Bool :=
  match r with
  | .ok v => f v
  | .error _ => true

/-- the `_ok` twin of `?` on an `Option` -/
def okO {α : Type} (r : Option α) (f : α → Bool) : Bool :=
  match r with
  | some v => f v
  | none => true

def isOk {α : Type} (r : Except String α) : Bool :=
  match r with
  | .ok _ => true
  | .error _ => false

/-- `Result::unwrap()` in a build that did not panic (`isOk` is the `_ok` condition) -/
def unwrapE {α : Type} [Inhabited α] (r : Except String α) : α :=
  match r with
  | .ok v => v
  | .error _ => default

/-- `<[T; N]>::try_from(&[T])` / `Vec<T>::try_into::<[T; N]>()`: succeeds iff the length is exactly `N` -/
def array_try_from {α : Type} (n : Nat) (l : List α) (err : String) : Except String (List α) :=
  if l.length == n then .ok l else .error err

/-- `uN::try_from(v)` for an unsigned `v`: succeeds iff `v < 2^bits` -/
def int_try_from (bound : Nat) (v : Nat) : Except String Nat :=
  if v < bound then .ok v else .error "TryFromIntError"

/-- `slice::chunks_exact(k)` for `k ≠ 0` (`k = 0` panics: recorded by the `_ok` twin); the incomplete tail is dropped -/
def chunksAux {α : Type} (k : Nat) : Nat → List α → List (List α)
  | 0, _ => []
  | f+1, l => if l.length < k ∨ k = 0 then [] else l.take k :: chunksAux k f (l.drop k)

def chunks_exact {α : Type} (k : Nat) (l : List α) : List (List α) := chunksAux k l.length l

/-- `Itertools::try_collect()` / `collect::<Result<Vec<_>, _>>()`: the first `Err` wins -/
def try_collect {α : Type} : List (Except String α) → Except String (List α)
  | [] => .ok []
  | .error e :: _ => .error e
  | .ok v :: rest =>
    match try_collect rest with
    | .ok vs => .ok (v :: vs)
    | .error e => .error e

/-- `Iterator::enumerate()` -/
def enumerateFrom {α : Type} : Nat → List α → List (Nat × α)
  | _, [] => []
  | i, x :: xs => (i, x) :: enumerateFrom (i + 1) xs

def enumerate {α : Type} (l : List α) : List (Nat × α) := enumerateFrom 0 l

/-- `Iterator::sum()` over `uN` in a release build (wrapping); `bound = 2^N` -/
def sum_w (bound : Nat) : List Nat → Nat
  | [] => 0
  | x :: xs => (x + sum_w bound xs) % bound

/-- `Iterator::sum()`: no partial sum overflows (a debug build would panic).  Rust folds from the left; since all
    summands are non-negative, *some* partial sum overflows iff the total does. -/
def sum_ok (bound : Nat) (l : List Nat) : Bool := decide (l.foldl (· + ·) 0 < bound)

/-- `usize::checked_add` / `checked_mul` (`bound = 2^64`) -/
def checked_add (bound a b : Nat) : Option Nat := if a + b < bound then some (a + b) else none
def checked_mul (bound a b : Nat) : Option Nat := if a * b < bound then some (a * b) else none

end TF.RustStd
