/-!
Executable Keccak-f[1600], SHAKE256 and SHA3-256 on byte lists (bytes as `Nat < 256`).
Used only by the *driver* to instantiate the hash parameters of the KEM model (`TF/Model/Lattice.lean`); no theorem
depends on it.  Validated on every run by the correspondence family `lat` (key generation / encapsulation outputs
of the real crate, which uses the `sha3` crate).  Core Lean only.
-/
namespace TF.Keccak

def RC : Array UInt64 := #[
  0x0000000000000001, 0x0000000000008082, 0x800000000000808A, 0x8000000080008000,
  0x000000000000808B, 0x0000000080000001, 0x8000000080008081, 0x8000000000008009,
  0x000000000000008A, 0x0000000000000088, 0x0000000080008009, 0x000000008000000A,
  0x000000008000808B, 0x800000000000008B, 0x8000000000008089, 0x8000000000008003,
  0x8000000000008002, 0x8000000000000080, 0x000000000000800A, 0x800000008000000A,
  0x8000000080008081, 0x8000000000008080, 0x0000000080000001, 0x8000000080008008]

/-- rotation offsets, lane index `x + 5*y` -/
def ROT : Array Nat := #[0, 1, 62, 28, 27, 36, 44, 6, 55, 20, 3, 10, 43, 25, 39, 41, 45, 15, 21, 8, 18, 2, 61, 56, 14]

def rotl (v : UInt64) (n : Nat) : UInt64 :=
  if n % 64 == 0 then v else (v <<< (UInt64.ofNat (n % 64))) ||| (v >>> (UInt64.ofNat (64 - n % 64)))

def round (a : Array UInt64) (r : Nat) : Array UInt64 :=
  let g := fun (i : Nat) => a.getD i 0
  let c : Array UInt64 := Array.ofFn (n := 5) fun x => g x.val ^^^ g (x.val + 5) ^^^ g (x.val + 10) ^^^ g (x.val + 15) ^^^ g (x.val + 20)
  let d : Array UInt64 := Array.ofFn (n := 5) fun x => c.getD ((x.val + 4) % 5) 0 ^^^ rotl (c.getD ((x.val + 1) % 5) 0) 1
  let a1 : Array UInt64 := Array.ofFn (n := 25) fun i => g i.val ^^^ d.getD (i.val % 5) 0
  -- rho + pi: B[y + 5*((2x+3y)%5)] = rotl(A[x+5y]); computed by destination: dest (X,Y) comes from x = (X + 3Y) % 5, y = X
  let b : Array UInt64 := Array.ofFn (n := 25) fun i =>
    let X := i.val % 5
    let Y := i.val / 5
    let x := (X + 3 * Y) % 5
    let y := X
    rotl (a1.getD (x + 5 * y) 0) (ROT.getD (x + 5 * y) 0)
  let a2 : Array UInt64 := Array.ofFn (n := 25) fun i =>
    let x := i.val % 5
    let y := i.val / 5
    b.getD i.val 0 ^^^ ((~~~ b.getD ((x + 1) % 5 + 5 * y) 0) &&& b.getD ((x + 2) % 5 + 5 * y) 0)
  a2.setIfInBounds 0 (a2.getD 0 0 ^^^ RC.getD r 0)

def keccakF (a : Array UInt64) : Array UInt64 := (List.range 24).foldl round a

def RATE : Nat := 136

/-- little-endian lane `i` of a block of bytes -/
def lane (block : Array Nat) (i : Nat) : UInt64 :=
  (List.range 8).foldl (fun acc k => acc ||| (UInt64.ofNat (block.getD (8 * i + k) 0) <<< (UInt64.ofNat (8 * k)))) 0

def absorbBlock (st : Array UInt64) (block : Array Nat) : Array UInt64 :=
  keccakF (Array.ofFn (n := 25) fun i => if i.val < RATE / 8 then st.getD i.val 0 ^^^ lane block i.val else st.getD i.val 0)

def pad (suffix : Nat) (msg : List Nat) : List Nat :=
  let padLen := RATE - msg.length % RATE
  if padLen == 1 then msg ++ [suffix ||| 0x80]
  else msg ++ [suffix] ++ List.replicate (padLen - 2) 0 ++ [0x80]

def absorbAll : Nat → Array UInt64 → List Nat → Array UInt64
  | 0, st, _ => st
  | f+1, st, bytes =>
    if bytes.isEmpty then st else absorbAll f (absorbBlock st (bytes.take RATE).toArray) (bytes.drop RATE)

def stateBytes (st : Array UInt64) : List Nat :=
  (List.range RATE).map fun k => ((st.getD (k / 8) 0 >>> (UInt64.ofNat (8 * (k % 8)))) &&& 0xff).toNat

def squeeze : Nat → Array UInt64 → Nat → List Nat → List Nat
  | 0, _, _, acc => acc
  | f+1, st, need, acc =>
    if need == 0 then acc
    else
      let out := (stateBytes st).take need
      squeeze f (keccakF st) (need - out.length) (acc ++ out)

def sponge (suffix : Nat) (msg : List Nat) (outLen : Nat) : List Nat :=
  let p := pad suffix msg
  let st := absorbAll (p.length / RATE + 1) (Array.replicate 25 0) p
  squeeze (outLen / RATE + 2) st outLen []

/-- SHAKE256, first `n` output bytes -/
def shake256 (msg : List Nat) (n : Nat) : List Nat := sponge 0x1f msg n
/-- SHA3-256 -/
def sha3_256 (msg : List Nat) : List Nat := sponge 0x06 msg 32

end TF.Keccak
