/-!
Byte-level intrinsics used by the definitions that `tools/rs2lean_bfe.py` regenerates from source
(`u64::to_le_bytes`, `u64::from_le_bytes`). Core Lean only.
-/
namespace TF

/-- `x.to_le_bytes()` of an `n`-byte word: the `n` low bytes of `x`, least significant first -/
def toLeBytes : Nat → Nat → List Nat
  | 0, _ => []
  | n+1, x => x % 256 :: toLeBytes n (x / 256)

/-- `uN::from_le_bytes(b)`: the word whose bytes, least significant first, are `b` -/
def ofLeBytes : List Nat → Nat
  | [] => 0
  | b :: bs => b + 256 * ofLeBytes bs

end TF
