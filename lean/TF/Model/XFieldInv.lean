import TF.Model.PolyDiv
import TF.Model.XField
/-!
# Model of `XFieldElement::inverse` (property C01) — the extended-gcd route the Rust code takes

```rust
fn inverse(&self) -> Self {
    assert!(!self.is_zero(), "Cannot invert the zero element in the extension field.");
    let self_as_poly: Polynomial<BFieldElement> = self.to_owned().into();          // Polynomial::new([c0, c1, c2])
    let (_, a, _) = Polynomial::<BFieldElement>::xgcd(self_as_poly, Self::shah_polynomial());
    a.into()                                                                        // From<Polynomial> below
}
impl From<Polynomial<'_, BFieldElement>> for XFieldElement {
    fn from(poly) -> Self {
        let (_, rem) = poly.naive_divide(&Self::shah_polynomial());
        let mut xfe = [ZERO; 3];
        let Ok(rem_degree) = usize::try_from(rem.degree()) else { return Self::ZERO; };
        xfe[..=rem_degree].copy_from_slice(&rem.coefficients()[..=rem_degree]);     // panics if rem_degree ≥ 3
        XFieldElement::new(xfe)
    }
}
```
The polynomial functions are the C09 models `TF.Model.PolyD.xgcd` / `naiveDivide` (`TF/Model/PolyDiv.lean`).  The
functions are generic in the field record (`…G`), so that the theorems proved over `FieldOps.ofField (ZMod P)` transfer
to the executable instance `bfieldOps` (canonical values) along `ZMod.val`; `xfeInverse` is the `bfieldOps` instance,
`XF.inverse`/`XF.inverseOrZero`/`XF.div` wrap it for raw Montgomery words (`bfe_value` in, `bfe_new` out).
Core Lean only (linked into `tfm`).
-/
namespace TF.Model.XFInv
open TF TF.Model.Poly TF.Model.PolyD

variable {α : Type}

/-- `XFieldElement::shah_polynomial()`: `bfe_vec![1, -1, 0, 1]`, i.e. `X³ − X + 1` -/
def shahG (F : FieldOps α) : List α := [F.one, F.neg F.one, F.zero, F.one]

/-- `From<XFieldElement> for Polynomial<BFieldElement>`: `Polynomial::new(coefficients.to_vec())` -/
def toPoly (x : α × α × α) : List α := [x.1, x.2.1, x.2.2]

/-- `From<Polynomial<BFieldElement>> for XFieldElement`: the remainder modulo the shah polynomial, its (normalised)
    coefficients copied into `[ZERO; 3]`; `none` = a panic (`naive_divide`, or a remainder of degree ≥ 3 in
    `xfe[..=rem_degree]`) -/
def ofPolyG (F : FieldOps α) (p : List α) : Option (α × α × α) :=
  match naiveDivide F p (shahG F) with
  | none => none
  | some (_, rem) =>
    match coefficients F rem with
    | [] => some (F.zero, F.zero, F.zero)                   -- `rem.degree() = -1`: `Self::ZERO`
    | [c0] => some (c0, F.zero, F.zero)
    | [c0, c1] => some (c0, c1, F.zero)
    | [c0, c1, c2] => some (c0, c1, c2)
    | _ => none                                             -- `xfe[..=rem_degree]` out of range

/-- `XFieldElement::is_zero` -/
def isZeroG (F : FieldOps α) (x : α × α × α) : Bool := F.isZero x.1 && F.isZero x.2.1 && F.isZero x.2.2

/-- `XFieldElement::inverse`; `none` = panic -/
def inverseG (F : FieldOps α) (x : α × α × α) : Option (α × α × α) :=
  if isZeroG F x then none                                  -- `assert!(!self.is_zero(), …)`
  else
    match xgcd F (toPoly x) (shahG F) with
    | none => none
    | some (_, a, _) => ofPolyG F a

/-- `XFieldElement::inverse` on triples of canonical values -/
def xfeInverse (x : Spec.X3) : Option Spec.X3 := inverseG bfieldOps x

end TF.Model.XFInv

namespace TF.Model.XF
open TF.Gen

/-- raw Montgomery words → canonical values and back -/
def toVal (x : X3) : Spec.X3 := (bfe_value x.1, bfe_value x.2.1, bfe_value x.2.2)
def ofVal (x : Spec.X3) : X3 := (bfe_new x.1, bfe_new x.2.1, bfe_new x.2.2)

/-- `XFieldElement::inverse` on raw words; `none` = panic -/
def inverse (x : X3) : Option X3 := (XFInv.xfeInverse (toVal x)).map ofVal

/-- `Inverse::inverse_or_zero` (trait default): zero for zero, else `inverse()` -/
def inverseOrZero (x : X3) : Option X3 := if x == zero then some zero else inverse x

/-- `Div`: `self * other.inverse()` -/
def div (a b : X3) : Option X3 := (inverse b).map (mul a)

end TF.Model.XF
