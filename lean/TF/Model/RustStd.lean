/-!
Models of the few `std` functions that the definitions regenerated from source by `tools/rs2lean_ext.py` refer to
(`TF/Gen/U32sLoops2.lean`, `TF/Gen/NttLoops.lean`, …).  They are part of the trusted base ("`std` behaves as documented",
DESIGN §6); each is the documented behaviour written out.  Core Lean only.
-/
namespace TF.RustStd

/-- `Iterator::cmp` on two iterators over integers: lexicographic comparison, the shorter sequence is smaller when it
    is a prefix of the other -/
def iter_cmp : List Nat → List Nat → Ordering
  | [], [] => .eq
  | [], _ :: _ => .lt
  | _ :: _, [] => .gt
  | x :: xs, y :: ys =>
    match compare x y with
    | .eq => iter_cmp xs ys
    | o => o

/-- `PartialOrd::ge` / `gt` / `le` / `lt` (the provided methods): defined through `partial_cmp` -/
def ord_ge : Option Ordering → Bool
  | some .gt => true
  | some .eq => true
  | _ => false

def ord_gt : Option Ordering → Bool
  | some .gt => true
  | _ => false

def ord_le : Option Ordering → Bool
  | some .lt => true
  | some .eq => true
  | _ => false

def ord_lt : Option Ordering → Bool
  | some .lt => true
  | _ => false

/-- `slice::swap(a, b)` (both indices in range; out of range is a panic and is recorded by the `_ok` twin) -/
def swap {α : Type} (l : List α) (a b : Nat) : List α :=
  match l[a]?, l[b]? with
  | some x, some y => (l.set a y).set b x
  | _, _ => l

end TF.RustStd
