import TF.Model.FieldOps
/-!
Shared polynomial core (`Polynomial<FF>` of `twenty-first/src/math/polynomial.rs`), used by C07, C08, C09, C17.

A polynomial is its **raw coefficient storage** `List α`, lowest degree first, exactly as the Rust
`coefficients: Cow<[FF]>`: stored leading zeros (zeros at the *end* of the list) are representable and are kept by
`Polynomial::new`/`new_borrowed`.  `Cow::Borrowed` and `Cow::Owned` are the same list here.
All functions are generic over an explicit `FieldOps α` (base field on canonical values, extension field on
triples, `FieldOps.ofField K` in proofs).  Functions that are generic over several element types in Rust
(`FF: Mul<FF2>`) have a `…G` version taking the mixed operation explicitly; the same-field version is its instance.

Core Lean only (linked into `tfm`).  Lemmas through `denote : List K → K[X]` are in `TF/Proofs/Poly.lean`.
-/
namespace TF.Model.Poly
open TF

variable {α β γ σ : Type}

/-! ### storage, normalisation, accessors -/

/-- `normalize`: pop stored leading zeros (the last elements of the list) -/
def normalize (F : FieldOps α) (p : List α) : List α :=
  (p.reverse.dropWhile F.isZero).reverse

/-- `Polynomial::coefficients()`: the slice up to the last non-zero element (empty for zero) -/
def coefficients (F : FieldOps α) (p : List α) : List α := normalize F p

/-- `Polynomial::into_coefficients()` -/
def intoCoefficients (F : FieldOps α) (p : List α) : List α := normalize F p

/-- `Polynomial::degree()`: `-1` for the zero polynomial (any all-zero storage, including empty) -/
def degree (F : FieldOps α) (p : List α) : Int := ((normalize F p).length : Int) - 1

/-- `Polynomial::leading_coefficient()` -/
def leadingCoefficient (F : FieldOps α) (p : List α) : Option α := (normalize F p).getLast?

/-- `Zero::is_zero`: `*self == Self::zero()`, i.e. degree −1 -/
def isZero (F : FieldOps α) (p : List α) : Bool := (normalize F p).isEmpty

/-- `One::is_one`: `degree() == 0 && coefficients[0].is_one()` -/
def isOne (F : FieldOps α) (p : List α) : Bool :=
  match normalize F p with
  | [c] => F.beq c F.one
  | _ => false

/-- `is_x`: `degree() == 1 && coefficients[0].is_zero() && coefficients[1].is_one()` -/
def isX (F : FieldOps α) (p : List α) : Bool :=
  match normalize F p with
  | [c0, c1] => F.isZero c0 && F.beq c1 F.one
  | _ => false

/-- `PartialEq::eq`: equal degrees, then the raw storages zipped (to the shorter length) agree -/
def eq (F : FieldOps α) (a b : List α) : Bool :=
  degree F a == degree F b && (a.zip b).all (fun xy => F.beq xy.1 xy.2)

/-- constructors -/
def zero : List α := []
def one (F : FieldOps α) : List α := [F.one]
def fromConstant (c : α) : List α := [c]
/-- `x_to_the(n)` -/
def xToThe (F : FieldOps α) (n : Nat) : List α := List.replicate n F.zero ++ [F.one]

/-! ### ring operations -/

/-- `zip_longest` combinator: `f` where both sides have an element, identity on a left rest, `g` on a right rest -/
def zipLongestWith (f : α → α → α) (g : α → α) : List α → List α → List α
  | [], ys => ys.map g
  | xs, [] => xs
  | x :: xs, y :: ys => f x y :: zipLongestWith f g xs ys

/-- `Add::add` (raw storages, `zip_longest`) -/
def add (F : FieldOps α) (a b : List α) : List α := zipLongestWith F.add id a b

/-- `Sub::sub` (`Right(r) => ZERO - r`) -/
def sub (F : FieldOps α) (a b : List α) : List α := zipLongestWith F.sub (fun r => F.sub F.zero r) a b

/-- `Polynomial::scalar_mul` / `scalar_mul_mut` / `Mul<S>`; general scalar type -/
def scalarMulG (mul : α → σ → γ) (p : List α) (s : σ) : List γ := p.map (fun c => mul c s)
def scalarMul (F : FieldOps α) (p : List α) (s : α) : List α := scalarMulG F.mul p s

/-- `Neg::neg`: `scalar_mul_mut(-ONE)` -/
def neg (F : FieldOps α) (p : List α) : List α := scalarMul F p (F.neg F.one)

/-- `shift_coefficients(power)`: splice `power` zeros in front -/
def shiftCoefficients (F : FieldOps α) (p : List α) (power : Nat) : List α := List.replicate power F.zero ++ p

/-- loop of `scale`: coefficient `i` times `alpha^i`, the running power kept in the scalar type -/
def scaleAux (mulS : σ → σ → σ) (mul : α → σ → γ) (alpha : σ) : σ → List α → List γ
  | _, [] => []
  | pw, c :: cs => mul c pw :: scaleAux mulS mul alpha (mulS pw alpha) cs

/-- `scale(alpha)`: `P(x) ↦ P(alpha·x)`, general scalar type `σ` with its own `one`/`mul` -/
def scaleG (oneS : σ) (mulS : σ → σ → σ) (mul : α → σ → γ) (p : List α) (alpha : σ) : List γ :=
  scaleAux mulS mul alpha oneS p
def scale (F : FieldOps α) (p : List α) (alpha : α) : List α := scaleG F.one F.mul F.mul p alpha

/-- the double loop of `naive_multiply` on two coefficient lists, row by row:
    `Σᵢ aᵢ·Xⁱ·b` as `a₀·b + X·(rest·b)`.  For non-empty `a` and `b` the length is `|a| + |b| - 1`
    (`degree_lhs + degree_rhs + 1` in the Rust code). -/
def mulRows (F3 : FieldOps γ) (mul : α → β → γ) : List α → List β → List γ
  | [], _ => []
  | [a0], b => b.map (mul a0)
  | a0 :: a1 :: as, b =>
      zipLongestWith F3.add id (b.map (mul a0)) (F3.zero :: mulRows F3 mul (a1 :: as) b)

/-- `naive_multiply<FF2>`: zero if either operand has degree −1, else the schoolbook product of the
    coefficients up to the degree (stored leading zeros of the operands are not read) -/
def naiveMultiplyG (F1 : FieldOps α) (F2 : FieldOps β) (F3 : FieldOps γ) (mul : α → β → γ)
    (a : List α) (b : List β) : List γ :=
  match normalize F1 a, normalize F2 b with
  | [], _ => []
  | _, [] => []
  | a', b' => mulRows F3 mul a' b'

def naiveMultiply (F : FieldOps α) (a b : List α) : List α := naiveMultiplyG F F F F.mul a b

/-- `Mul<Polynomial<FF2>> for Polynomial<FF>` is `naive_multiply` -/
def mul (F : FieldOps α) (a b : List α) : List α := naiveMultiply F a b

/-! ### evaluation -/

/-- `evaluate<Ind, Eval>`: Horner over the raw storage from the top; general indeterminate/result types -/
def evaluateG {ι ε : Type} (zeroE : ε) (mulX : ε → ι → ε) (addC : ε → α → ε) (p : List α) (x : ι) : ε :=
  p.foldr (fun c acc => addC (mulX acc x) c) zeroE

/-- `evaluate_in_same_field` -/
def evaluate (F : FieldOps α) (p : List α) (x : α) : α := evaluateG F.zero F.mul F.add p x

/-- `formal_derivative`: `i·cᵢ` for `i ≥ 1` over the raw storage -/
def formalDerivativeAux (F : FieldOps α) : Nat → List α → List α
  | _, [] => []
  | i, c :: cs => F.mul (F.ofNat i) c :: formalDerivativeAux F (i+1) cs
def formalDerivative (F : FieldOps α) (p : List α) : List α := (formalDerivativeAux F 0 p).drop 1

/-- `reverse` (crate-private, used by division code): the normalised coefficients reversed -/
def reverse (F : FieldOps α) (p : List α) : List α := (normalize F p).reverse

end TF.Model.Poly
