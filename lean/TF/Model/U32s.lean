import TF.Spec.U32s
/-!
Hand-written executable model of `twenty-first/src/amount/u32s.rs` (C19). Core Lean only.

A `U32s<N>` is its limb array `values : [u32; N]` as a little-endian `List Nat` (each `< 2^32`, length `N`).
Every operation that can panic in Rust (the overflow `assert!`s, array indexing) returns `Option`, `none` = panic.
The loops follow the Rust control flow limb by limb (`overflowing_add`/`overflowing_sub`/`overflowing_mul` are
written out as `% W` plus the carry flag). A Rust loop `for i in 0..N` over parallel arrays is a structural recursion
over the limb lists with the loop-carried variables as arguments; `for i in (0..N).rev()` (div_two) is the same
recursion with the loop-carried variable *returned* (the higher limbs are processed first).
`get_bit`/`set_bit` (`values[i / 32]`, bit `i % 32`, guarded by `assert!(i < 32 * N)`) walk the list 32 bits at a time;
the bit-twiddling `(x & !(1 << e)) | (v << e)` is written arithmetically.
-/
namespace TF.U32s

def U32MAX : Nat := 4294967295

def zero (n : Nat) : List Nat := List.replicate n 0

def isZero (a : List Nat) : Bool := a.all (· == 0)

/-! ### Add / Sub (carry chains, final overflow assert) -/

/-- loop body of `Add::add`: `(int, carry_new) = a[i].overflowing_add(b[i]); (res[i], carry_old) =
    int.overflowing_add(carry_old); carry_old = carry_new || carry_old` -/
def addLoop : List Nat → List Nat → Bool → List Nat × Bool
  | x :: xs, y :: ys, c =>
    let s := x + y
    let int := s % W
    let carryNew := decide (W ≤ s)
    let s2 := int + c.toNat
    let r := s2 % W
    let carryOld := decide (W ≤ s2)
    let rest := addLoop xs ys (carryNew || carryOld)
    (r :: rest.1, rest.2)
  | _, _, c => ([], c)

def add (a b : List Nat) : Option (List Nat) :=
  let r := addLoop a b false
  if r.2 then none else some r.1

/-- loop body of `Sub::sub` with `overflowing_sub` twice -/
def subLoop : List Nat → List Nat → Bool → List Nat × Bool
  | x :: xs, y :: ys, c =>
    let int := (x + W - y) % W
    let carryNew := decide (x < y)
    let r := (int + W - c.toNat) % W
    let carryOld := decide (int < c.toNat)
    let rest := subLoop xs ys (carryNew || carryOld)
    (r :: rest.1, rest.2)
  | _, _, c => ([], c)

def sub (a b : List Nat) : Option (List Nat) :=
  let r := subLoop a b false
  if r.2 then none else some r.1

/-- `Sum::sum`: `iter.fold(Self::zero(), |a, b| a + b)` -/
def sum (n : Nat) (l : List (List Nat)) : Option (List Nat) :=
  l.foldl (fun acc b => acc.bind fun a => add a b) (some (zero n))

/-! ### mul_two / div_two -/

/-- `mul_two`: `(temp, carry_mul) = v.overflowing_mul(2); (v', carry) = temp.overflowing_add(carry); carry |= carry_mul` -/
def mulTwoLoop : List Nat → Bool → List Nat × Bool
  | [], c => ([], c)
  | x :: xs, c =>
    let t := 2 * x
    let temp := t % W
    let carryMul := decide (W ≤ t)
    let s := temp + c.toNat
    let v := s % W
    let carryAdd := decide (W ≤ s)
    let rest := mulTwoLoop xs (carryAdd || carryMul)
    (v :: rest.1, rest.2)

def mulTwo (a : List Nat) : Option (List Nat) :=
  let r := mulTwoLoop a false
  if r.2 then none else some r.1

/-- `div_two`: limbs are visited from the most significant one; the returned flag is the loop-carried `carry`
    after the limbs of the argument have been processed (the low bit of its least significant limb).
    `new_cell += 1 << 31` is a plain `u32` addition; the result component `ok` records that it did not overflow. -/
def divTwoLoop : List Nat → List Nat × Bool × Bool
  | [] => ([], false, true)
  | x :: xs =>
    let rest := divTwoLoop xs
    let carry := rest.2.1
    let newCarry := decide (x % 2 = 1)
    let cell := x / 2 + (if carry then 2147483648 else 0)
    (cell :: rest.1, newCarry, rest.2.2 && decide (cell < W))

def divTwo (a : List Nat) : Option (List Nat) :=
  let r := divTwoLoop a
  if r.2.2 then some r.1 else none

/-! ### Ord -/

/-- `Iterator::cmp`: lexicographic -/
def lexCmp : List Nat → List Nat → Ordering
  | [], [] => .eq
  | [], _ :: _ => .lt
  | _ :: _, [] => .gt
  | x :: xs, y :: ys =>
    match compare x y with
    | .eq => lexCmp xs ys
    | o => o

/-- `self.values.iter().rev().cmp(other.values.iter().rev())` -/
def cmp (a b : List Nat) : Ordering := lexCmp a.reverse b.reverse

/-- `>=` through `partial_cmp` -/
def ge (a b : List Nat) : Bool := cmp a b != .lt

/-! ### get_bit / set_bit / rem_div -/

def getBit : List Nat → Nat → Option Bool
  | [], _ => none
  | x :: xs, i => if i < 32 then some (decide (x / 2 ^ i % 2 = 1)) else getBit xs (i - 32)

def setBit : List Nat → Nat → Bool → Option (List Nat)
  | [], _, _ => none
  | x :: xs, i, v =>
    if i < 32 then some ((x - (x / 2 ^ i % 2) * 2 ^ i + (if v then 2 ^ i else 0)) :: xs)
    else (setBit xs (i - 32) v).map (x :: ·)

/-- one iteration of the loop of `rem_div` for bit index `i` -/
def remDivStep (a d : List Nat) (i : Nat) (q r : List Nat) : Option (List Nat × List Nat) :=
  (mulTwo r).bind fun r1 =>
  (getBit a i).bind fun b =>
  (setBit r1 0 b).bind fun r2 =>
  if ge r2 d then
    (sub r2 d).bind fun r3 =>
    (setBit q i true).bind fun q1 => some (q1, r3)
  else some (q, r2)

/-- `for i in (0..k).rev()` -/
def remDivLoop (a d : List Nat) : Nat → List Nat → List Nat → Option (List Nat × List Nat)
  | 0, q, r => some (q, r)
  | i+1, q, r => (remDivStep a d i q r).bind fun s => remDivLoop a d i s.1 s.2

/-- `rem_div`: (quotient, remainder) -/
def remDiv (a d : List Nat) : Option (List Nat × List Nat) :=
  if isZero d then none else
  remDivLoop a d (a.length * 32) (zero a.length) (zero a.length)

def div (a d : List Nat) : Option (List Nat) := (remDiv a d).map (·.1)
def rem (a d : List Nat) : Option (List Nat) := (remDiv a d).map (·.2)

/-! ### Mul -/

/-- the `while add_carry { assert!(idx < N); (res[idx], add_carry) = res[idx].overflowing_add(1); idx += 1 }` loops,
    applied to the limbs from `idx` on -/
def ripple : List Nat → Option (List Nat)
  | [] => none
  | x :: xs => if x + 1 < W then some ((x + 1) :: xs) else (ripple xs).map (((x + 1) % W) :: ·)

/-- `(res[p], add_carry) = res[p].overflowing_add(v)` followed by the carry loop, applied to the limbs from `p` on -/
def addHere : List Nat → Nat → Option (List Nat)
  | [], _ => none
  | x :: xs, v => if x + v < W then some ((x + v) :: xs) else (ripple xs).map (((x + v) % W) :: ·)

def addAt : List Nat → Nat → Nat → Option (List Nat)
  | l, 0, v => addHere l v
  | [], _+1, _ => none
  | x :: xs, p+1, v => (addAt xs p v).map (x :: ·)

/-- body of the inner loop of `Mul::mul` for `self[i] = x`, `other[j] = y`, `pos = i + j` -/
def mulStep (res : List Nat) (x y pos : Nat) : Option (List Nat) :=
  let hiLo := x * y
  let hi := hiLo / W
  let lo := hiLo % W
  if ¬ (pos < res.length ∨ (hi = 0 ∧ lo = 0)) then none
  else if hi = 0 ∧ lo = 0 then some res
  else
    (addAt res pos lo).bind fun r1 =>
    if hi = 0 then some r1
    else if ¬ (pos + 1 < res.length) then none
    else addAt r1 (pos + 1) hi

/-- `for j in 0..N` (remaining limbs `ys` of `other`, starting at `j`) -/
def mulInner (res : List Nat) (x : Nat) (i : Nat) : List Nat → Nat → Option (List Nat)
  | [], _ => some res
  | y :: ys, j => (mulStep res x y (i + j)).bind fun r => mulInner r x i ys (j + 1)

/-- `for i in 0..N` (remaining limbs `xs` of `self`, starting at `i`) -/
def mulOuter (b : List Nat) : List Nat → List Nat → Nat → Option (List Nat)
  | res, [], _ => some res
  | res, x :: xs, i => (mulInner res x i b 0).bind fun r => mulOuter b r xs (i + 1)

def mul (a b : List Nat) : Option (List Nat) := mulOuter b (zero a.length) a 0

/-! ### conversions -/

/-- `From<u32>`: `ret.values[0] = n` panics for `N = 0` -/
def fromU32 (n : Nat) (v : Nat) : Option (List Nat) :=
  match zero n with
  | [] => none
  | _ :: xs => some (v :: xs)

/-- `One::one` has the same shape -/
def one (n : Nat) : Option (List Nat) := fromU32 n 1

/-- `From<BigUint>`: takes the `N` low limbs (silently drops the rest) -/
def fromBig (n : Nat) (v : Nat) : List Nat := ofNat n v

/-- `From<U32s<N>> for BigUint`: Horner from the most significant limb -/
def toBig (a : List Nat) : Nat := a.reverse.foldl (fun acc x => acc * W + x) 0

/-- `TryFrom<u64>` (the match arms as they are in the source) -/
def tryFromU64 (n : Nat) (v : Nat) : Option (List Nat) :=
  match n with
  | 0 => if v ≠ 0 then none else some (fromBig n v)
  | 1 => if v > U32MAX then none else some (fromBig n v)
  | _ => some (fromBig n v)

/-- `TryFrom<u128>` -/
def tryFromU128 (n : Nat) (v : Nat) : Option (List Nat) :=
  match n with
  | 0 => if v ≠ 0 then none else some (fromBig n v)
  | 1 => if v > U32MAX then none else some (fromBig n v)
  | 2 => if v > 18446744073709551615 then none else some (fromBig n v)
  | 3 => if v ≥ 79228162514264337593543950336 then none else some (fromBig n v)
  | _ => some (fromBig n v)

/-- `From<U32s<N>> for [BFieldElement; N]`: canonical values of the elements -/
def toBfes (a : List Nat) : List Nat := a

/-- `BFieldCodec::encode`: one element per limb -/
def encode (a : List Nat) : List Nat := a

/-- `BFieldCodec::decode` (sequence given by canonical values): the three length checks, then `u32::decode` per element -/
def decode (n : Nat) (s : List Nat) : Option (List Nat) :=
  if 0 < n ∧ s.isEmpty then none
  else if s.length < n then none
  else if n < s.length then none
  else s.mapM fun e => if e ≤ U32MAX then some e else none

end TF.U32s
