import TF.Model.Poly
import TF.Gen.Consts
/-!
Multiplication strategies of `Polynomial<FF>` (property C07): `slow_square`, `square`, `fast_square`, `pow`,
`fast_pow`, `multiply` (dispatch), `fast_multiply`, `batch_multiply`, `par_batch_multiply`.
(`naive_multiply`, `mul`, `scalar_mul`, `scale`, `shift_coefficients` are in the core `TF/Model/Poly.lean`.)

* Dispatch thresholds are *parameters* of the model functions; the driver passes `TF.Gen.FAST_MULTIPLY_CUTOFF_THRESHOLD`
  and `TF.Gen.SQUARE_CUTOFF` (regenerated from the source), the theorems hold for every value.
* The NTT is a parameter (`Transform`): `ntt`/`intt` on a coefficient vector, `none` = the panic of `ntt`
  (length not a power of two or above `u32::MAX`).  `specTransform` is a *spec-level* executable instance (recursive
  radix-2 evaluation at the powers of `FieldOps.rootOfUnity n`); the Rust in-place NTT itself is property C06.
* `par_batch_multiply` takes `numThreads` where the code asks `available_parallelism()`.
* A panic is `none`.

Core Lean only.
-/
namespace TF.Model.Poly
open TF

variable {α β γ : Type}

/-! ### transform interface and a spec-level instance -/

/-- `ntt` / `intt` of `math/ntt.rs` as functions on coefficient vectors; `none` = panic -/
structure Transform (α : Type) where
  ntt : List α → Option (List α)
  intt : List α → Option (List α)

def evens : List α → List α
  | [] => []
  | [x] => [x]
  | x :: _ :: t => x :: evens t

def odds : List α → List α
  | [] => []
  | [_] => []
  | _ :: y :: t => y :: odds t

/-- butterflies: `(E[k] + w^k·O[k])ₖ` and `(E[k] − w^k·O[k])ₖ` -/
def butterflies (F : FieldOps α) (w : α) : α → List α → List α → List α × List α
  | pw, e :: es, o :: os =>
    let t := F.mul pw o
    let (lo, hi) := butterflies F w (F.mul pw w) es os
    (F.add e t :: lo, F.sub e t :: hi)
  | _, _, _ => ([], [])

/-- SPEC-LEVEL transform: values of `Σ xⱼ Xʲ` at `w⁰, w¹, …, w^(2^k − 1)` for a vector of length `2^k`
    (recursive even/odd splitting; `w` a primitive `2^k`-th root of unity) -/
def evalAtPowers (F : FieldOps α) : Nat → α → List α → List α
  | 0, _, xs => xs
  | k+1, w, xs =>
    let w2 := F.mul w w
    let e := evalAtPowers F k w2 (evens xs)
    let o := evalAtPowers F k w2 (odds xs)
    let (lo, hi) := butterflies F w F.one e o
    lo ++ hi

/-- `is_power_of_two` -/
def isPow2 (n : Nat) : Bool := n != 0 && n == 2 ^ Nat.log2 n

/-- spec-level `ntt`: panics like the Rust entry point (length above `u32::MAX`, or neither 0 nor a power of two) -/
def specNtt (F : FieldOps α) (xs : List α) : Option (List α) :=
  let n := xs.length
  if n > 4294967295 then none
  else if n == 0 then some []
  else if !isPow2 n then none
  else match F.rootOfUnity n with
    | none => none
    | some w => some (evalAtPowers F (Nat.log2 n) w xs)

/-- spec-level `intt`: the same with `ω⁻¹`, then scaling by `n⁻¹` (`inverse_or_zero`) -/
def specIntt (F : FieldOps α) (xs : List α) : Option (List α) :=
  let n := xs.length
  if n > 4294967295 then none
  else if n == 0 then some []
  else if !isPow2 n then none
  else match F.rootOfUnity n with
    | none => none
    | some w =>
      let nn := F.ofNat n
      let ninv := if F.isZero nn then F.zero else F.inv nn
      some ((evalAtPowers F (Nat.log2 n) (F.inv w) xs).map (fun c => F.mul c ninv))

def specTransform (F : FieldOps α) : Transform α := ⟨specNtt F, specIntt F⟩

/-! ### squares -/

/-- the double loop of `slow_square`/`square` on the normalised coefficients, row by row:
    row `i` contributes `cᵢ²` at `2i` and `(two·cᵢ)·cⱼ` at `i+j` for `j > i`.  Length `2|c| − 1`. -/
def squareRows (F : FieldOps α) : List α → List α
  | [] => []
  | [c] => [F.mul c c]
  | c :: c1 :: cs =>
    let two := F.add F.one F.one
    let row := F.mul c c :: (c1 :: cs).map (fun cj => F.mul (F.mul two c) cj)
    zipLongestWith F.add id row (F.zero :: F.zero :: squareRows F (c1 :: cs))

/-- `slow_square` (after fix F5: iterates over `coefficients()`, so stored leading zeros are not indexed) -/
def slowSquare (F : FieldOps α) (p : List α) : List α := squareRows F (normalize F p)

/-- `usize::next_power_of_two` (1 for 0 and 1) -/
def nextPowerOfTwo (n : Nat) : Nat := if n ≤ 1 then 1 else 2 ^ (Nat.log2 (n - 1) + 1)

/-- `Vec::resize(order, ZERO)`: truncate or pad -/
def resize (xs : List α) (n : Nat) (z : α) : List α := xs.take n ++ List.replicate (n - xs.length) z

/-- `fast_square`: zero / constant special cases, else pad the raw storage to the next power of two of
    `2·deg + 1`, transform, square pointwise, transform back, truncate -/
def fastSquare (F : FieldOps α) (T : Transform α) (p : List α) : Option (List α) :=
  match normalize F p with
  | [] => some []
  | [c] => some [F.mul c c]
  | _ :: cs =>
    let resultDegree := 2 * cs.length
    let order := nextPowerOfTwo (resultDegree + 1)
    do
      let v ← T.ntt (resize p order F.zero)
      let w ← T.intt (v.map (fun e => F.mul e e))
      pure (w.take (resultDegree + 1))

/-- `square`: `fast_square` when `2·deg + 1 > cutoff` (the literal 64, `TF.Gen.SQUARE_CUTOFF`), else the double loop -/
def square (F : FieldOps α) (cutoff : Nat) (T : Transform α) (p : List α) : Option (List α) :=
  match normalize F p with
  | [] => some []
  | c :: cs =>
    if 2 * cs.length + 1 > cutoff then fastSquare F T p else some (squareRows F (c :: cs))

/-! ### products -/

/-- `fast_multiply<FF2>`: zero if the degree sum is negative; else pad both raw storages to
    `order = next_power_of_two(deg sum + 1)`, transform both, Hadamard product, transform back, truncate.
    (With one operand zero and the other of degree ≥ 1 the code does *not* return early; it transforms and
    gets an all-zero vector — modelled as such.) -/
def fastMultiplyG (F1 : FieldOps α) (F2 : FieldOps β) (mul : α → β → γ)
    (T1 : Transform α) (T2 : Transform β) (T3 : Transform γ) (a : List α) (b : List β) : Option (List γ) :=
  let d : Int := degree F1 a + degree F2 b
  if d < 0 then some []
  else
    let deg := d.toNat
    let order := nextPowerOfTwo (deg + 1)
    do
      let l ← T1.ntt (resize a order F1.zero)
      let r ← T2.ntt (resize b order F2.zero)
      let c ← T3.intt (List.zipWith mul l r)
      pure (c.take (deg + 1))

def fastMultiply (F : FieldOps α) (T : Transform α) (a b : List α) : Option (List α) :=
  fastMultiplyG F F F.mul T T T a b

/-- `multiply<FF2>`: `naive_multiply` if `deg a + deg b < threshold` (an `isize` comparison), else `fast_multiply` -/
def multiplyG (F1 : FieldOps α) (F2 : FieldOps β) (F3 : FieldOps γ) (mul : α → β → γ) (threshold : Int)
    (T1 : Transform α) (T2 : Transform β) (T3 : Transform γ) (a : List α) (b : List β) : Option (List γ) :=
  if degree F1 a + degree F2 b < threshold then some (naiveMultiplyG F1 F2 F3 mul a b)
  else fastMultiplyG F1 F2 mul T1 T2 T3 a b

def multiply (F : FieldOps α) (threshold : Int) (T : Transform α) (a b : List α) : Option (List α) :=
  multiplyG F F F F.mul threshold T T T a b

/-! ### powers -/

/-- the square-and-multiply loop of `pow`/`fast_pow`, `i = 0..=bit_length`, bit `bit_length − i` of the exponent;
    `sq`/`mulSelf` are the squaring and the multiplication by `self` of the respective variant -/
def powLoop (sq : List α → Option (List α)) (mulSelf : List α → Option (List α)) (e bitLength : Nat) :
    Nat → List α → Option (List α)
  | 0, acc => some acc
  | n+1, acc => do
    let i := bitLength + 1 - (n+1)
    let acc ← sq acc
    let acc ← if (e >>> (bitLength - i)) &&& 1 == 1 then mulSelf acc else pure acc
    powLoop sq mulSelf e bitLength n acc

/-- `pow(e)`: `0⁰ = 1` first, then zero for a zero base, else square-and-multiply with `slow_square` and `*` -/
def pow (F : FieldOps α) (p : List α) (e : Nat) : List α :=
  if e == 0 then one F
  else if degree F p < 0 then []
  else
    let bl := Nat.log2 e
    match powLoop (fun acc => some (slowSquare F acc)) (fun acc => some (mul F acc p)) e bl (bl + 1) (one F) with
    | some r => r
    | none => []   -- not reachable: both steps are total

/-- `fast_pow(e)`: the same loop with `square` and `self.multiply(&acc)` -/
def fastPow (F : FieldOps α) (sqCutoff : Nat) (threshold : Int) (T : Transform α) (p : List α) (e : Nat) :
    Option (List α) :=
  if e == 0 then some (one F)
  else if degree F p < 0 then some []
  else
    let bl := Nat.log2 e
    powLoop (square F sqCutoff T) (fun acc => multiply F threshold T p acc) e bl (bl + 1) (one F)

/-! ### batch products -/

/-- one round of `products.chunks(2).map(..)`: pairs are multiplied, a single rest is cloned;
    entries are polynomials-or-panic so that the round is a total function on lists -/
def pairUp (mulf : List α → List α → Option (List α)) : List (Option (List α)) → List (Option (List α))
  | [] => []
  | [p] => [p]
  | p :: q :: rest => (do let a ← p; let b ← q; mulf a b) :: pairUp mulf rest

theorem pairUp_length (mulf : List α → List α → Option (List α)) (ps : List (Option (List α))) :
    (pairUp mulf ps).length = (ps.length + 1) / 2 := by
  fun_induction pairUp mulf ps with
  | case1 => simp
  | case2 => simp
  | case3 p q rest ih => simp only [List.length_cons, ih]; omega

/-- the `while products.len() != 1` loop of `batch_multiply` -/
def batchLoop (mulf : List α → List α → Option (List α)) (ps : List (Option (List α))) : Option (List α) :=
  match ps with
  | [] => none              -- not reachable from `batchMultiplyWith` (empty input returns early)
  | [p] => p
  | p :: q :: rest => batchLoop mulf (pairUp mulf (p :: q :: rest))
termination_by ps.length
decreasing_by simp only [pairUp_length, List.length_cons]; omega

/-- `batch_multiply(factors)` over an arbitrary binary product `mulf` (`multiply` in the code) -/
def batchMultiplyWith (F : FieldOps α) (mulf : List α → List α → Option (List α))
    (factors : List (Option (List α))) : Option (List α) :=
  if factors.isEmpty then some (one F) else batchLoop mulf factors

def batchMultiply (F : FieldOps α) (threshold : Int) (T : Transform α) (factors : List (List α)) :
    Option (List α) :=
  batchMultiplyWith F (multiply F threshold T) (factors.map some)

/-- `slice.chunks(n)` for `n ≥ 1`; the fuel is the length of the list -/
def chunksAux (n : Nat) : Nat → List β → List (List β)
  | 0, _ => []
  | fuel+1, xs => if xs.isEmpty then [] else xs.take n :: chunksAux n fuel (xs.drop n)

def chunks (n : Nat) (xs : List β) : List (List β) := chunksAux n xs.length xs

theorem chunksAux_length_le (n : Nat) (hn : 2 ≤ n) (fuel : Nat) (xs : List β) :
    2 * (chunksAux n fuel xs).length ≤ xs.length + 1 := by
  induction fuel generalizing xs with
  | zero => simp [chunksAux]
  | succ fuel ih =>
    unfold chunksAux
    split
    · simp
    · have := ih (xs.drop n)
      simp only [List.length_cons, List.length_drop] at this ⊢
      cases xs with
      | nil => simp at *
      | cons x xs => simp only [List.length_cons] at this ⊢; omega

/-- entries of a chunk are polynomials-or-panic: a panicked entry makes the chunk's product panic -/
def batchChunk (F : FieldOps α) (mulf : List α → List α → Option (List α))
    (chunk : List (Option (List α))) : Option (List α) := batchMultiplyWith F mulf chunk

/-- the `while products.len() != 1` loop of `par_batch_multiply`:
    `chunk_size = max(2, len / num_threads)`, every chunk reduced by `batch_multiply` -/
def parBatchLoop (F : FieldOps α) (mulf : List α → List α → Option (List α)) (numThreads : Nat)
    (ps : List (Option (List α))) : Option (List α) :=
  match ps with
  | [] => none              -- not reachable (empty input returns early)
  | [p] => p
  | p :: q :: rest =>
    let chunkSize := max 2 ((p :: q :: rest).length / numThreads)
    parBatchLoop F mulf numThreads ((chunks chunkSize (p :: q :: rest)).map (batchChunk F mulf))
termination_by ps.length
decreasing_by
  have := chunksAux_length_le (max 2 ((p :: q :: rest).length / numThreads)) (by omega)
    (p :: q :: rest).length (p :: q :: rest)
  simp only [List.length_map, chunks, List.length_cons] at this ⊢
  omega

def parBatchMultiplyWith (F : FieldOps α) (mulf : List α → List α → Option (List α)) (numThreads : Nat)
    (factors : List (Option (List α))) : Option (List α) :=
  if factors.isEmpty then some (one F) else parBatchLoop F mulf numThreads factors

/-- `par_batch_multiply(factors)` with `available_parallelism() = numThreads` -/
def parBatchMultiply (F : FieldOps α) (threshold : Int) (T : Transform α) (numThreads : Nat)
    (factors : List (List α)) : Option (List α) :=
  parBatchMultiplyWith F (multiply F threshold T) numThreads (factors.map some)

end TF.Model.Poly
