import TF.Gen.Consts
/-!
# Model of `BFieldCodec` (C03, C13, C14)

A universe `Ty` of codec types, untyped values `Val`, a typing predicate `hasTy`, and the three trait functions
`staticLength`, `encode`, `decode`, written after the control flow of

* `twenty-first/src/math/bfield_codec.rs` (primitives, `Box`, tuples, `Option`, `[T; N]`, `Vec`, `Polynomial`,
  `PhantomData`, the two list decoders),
* `twenty-first/src/amount/u32s.rs` (`U32s<N>`),
* `bfieldcodec_derive/src/lib.rs` (`struct` and `enum`: what the generated code does).

Conventions
* a sequence of field elements is a `List Nat` of canonical values (`< P`);
* `usize` is 64 bit: `checked_mul` fails at `2^64`; `sequence_index + item_length` overflowing `2^64` is a panic
  (debug: overflow check; release: the sum wraps below `sequence_index`, so the slice `[start..end]` has `start > end`);
* a Rust panic is the value `Outcome.panic`; errors carry a kind (`Err`), which is *not* part of the compared
  observable (the Rust error types differ per type and wrap inner errors);
* lengths that the Rust code converts with `usize -> BFieldElement` are emitted unreduced: a `Vec` of non-zero-width
  items or an encoding with `>= P` elements cannot be materialised (see `tools/props/C03.json`, assumptions);
* all functions are structurally recursive on the type, list-level work is done by combinators that take the item
  encoder/decoder as a parameter (`encodeItems`, `decodeChunks`, `decodeDyn`, `decodeItem`).
-/
namespace TF.Codec

abbrev P : Nat := TF.Gen.P

/-- the type grammar: what `bfield_codec.rs`, `u32s.rs` and the derive macro implement -/
inductive Ty where
  | bfe | u8 | u16 | u32 | u64 | u128 | bool
  | phantom                              -- `PhantomData<_>`
  | box (t : Ty)
  | option (t : Ty)
  | vec (t : Ty)
  | array (n : Nat) (t : Ty)             -- `[T; N]`
  | tuple (ts : List Ty)                 -- arity 2..12 in Rust
  | poly (t : Ty)                        -- `Polynomial<T>`, `T` a field type
  | u32s (n : Nat)                       -- `U32s<N>`
  | struct (fs : List Ty)                -- derived: included fields in declaration order (unit / named / tuple struct)
  | enum (vs : List (List Ty))           -- derived: variants in declaration order, each with its tuple fields
deriving Repr, Inhabited

inductive Val where
  | num (n : Nat)
  | unit                                 -- `PhantomData`
  | opt (o : Option Val)
  | list (vs : List Val)                 -- vec / array / tuple / struct fields / polynomial coefficients / limbs
  | variant (k : Nat) (vs : List Val)    -- enum variant `k` with its fields
deriving Repr, Inhabited

inductive Err where
  | empty | tooShort | tooLong | range | missingLen | invalidLen | trailingZeros | badDiscriminant
deriving DecidableEq, Repr

inductive Outcome (α : Type) where
  | ok (a : α) | err (k : Err) | panic
deriving Repr

namespace Outcome
@[inline] def bind {α β : Type} (x : Outcome α) (f : α → Outcome β) : Outcome β :=
  match x with
  | .ok a => f a
  | .err k => .err k
  | .panic => .panic
@[inline] def map {α β : Type} (f : α → β) (x : Outcome α) : Outcome β :=
  match x with
  | .ok a => .ok (f a)
  | .err k => .err k
  | .panic => .panic
end Outcome

/-! ## library types as definitions (what their `#[derive(BFieldCodec)]` sees) -/
/-- `XFieldElement { coefficients: [BFieldElement; 3] }` -/
def Ty.xfe : Ty := .struct [.array TF.Gen.EXTENSION_DEGREE .bfe]
/-- `Digest([BFieldElement; 5])` -/
def Ty.digest : Ty := .struct [.array TF.Gen.DIGEST_LEN .bfe]
/-- `Tip5 { state: [BFieldElement; 16] }` -/
def Ty.tip5 : Ty := .struct [.array TF.Gen.STATE_SIZE .bfe]
/-- `MmrAccumulator { leaf_count: u64, peaks: Vec<Digest> }` -/
def Ty.mmrAccumulator : Ty := .struct [.u64, .vec Ty.digest]
/-- `MmrMembershipProof { authentication_path: Vec<Digest> }` -/
def Ty.mmrMembershipProof : Ty := .struct [.vec Ty.digest]
/-- `MmrSuccessorProof { paths: Vec<Digest> }` -/
def Ty.mmrSuccessorProof : Ty := .struct [.vec Ty.digest]

/-! ## static length -/
mutual
/-- `<T as BFieldCodec>::static_length()` -/
def staticLength : Ty → Option Nat
  | .bfe | .u8 | .u16 | .u32 | .bool => some 1
  | .u64 => some 2
  | .u128 => some 4
  | .phantom => some 0
  | .box t => staticLength t
  | .option _ => none
  | .vec _ => none
  | .array n t => match staticLength t with
    | some w => some (w * n)
    | none => none
  | .tuple ts => staticLengthSum ts
  | .poly _ => none
  | .u32s n => some n
  | .struct fs => staticLengthSum fs
  | .enum vs => staticLengthEnum vs
/-- all components static: the sum of their lengths -/
def staticLengthSum : List Ty → Option Nat
  | [] => some 0
  | t :: ts => match staticLength t, staticLengthSum ts with
    | some a, some b => some (a + b)
    | _, _ => none
/-- derived enums: every variant static and of the width of the first one: that width + 1 (the discriminant).
    (For an enum all of whose variants are unit variants the macro emits the constant `Some(1)`, which is the same
    value; an enum without variants does not compile.) -/
def staticLengthEnum : List (List Ty) → Option Nat
  | [] => some 1
  | fs :: rest => match staticLengthSum fs with
    | some w => if variantsHaveWidth rest w then some (w + 1) else none
    | none => none
def variantsHaveWidth : List (List Ty) → Nat → Bool
  | [], _ => true
  | fs :: rest, w => (match staticLengthSum fs with
    | some w' => w' == w
    | none => false) && variantsHaveWidth rest w
end

/-- is the component length-prefixed? (iff its static length is `None`) -/
def isDyn (t : Ty) : Bool := (staticLength t).isNone

/-! ## values -/
mutual
/-- `is_zero` of a field element (all coefficients zero) -/
def valIsZero : Val → Bool
  | .num n => n == 0
  | .unit => true
  | .opt _ => false
  | .list vs => valsAreZero vs
  | .variant _ _ => false
def valsAreZero : List Val → Bool
  | [] => true
  | v :: vs => valIsZero v && valsAreZero vs
end

/-- `Polynomial::coefficients()`: the stored coefficients without leading zero coefficients
    (= trailing zeros of the little-endian list) -/
def normalize : List Val → List Val
  | [] => []
  | c :: cs => match normalize cs with
    | [] => if valIsZero c then [] else [c]
    | cs' => c :: cs'

def lastIsZero (cs : List Val) : Bool :=
  match cs.getLast? with
  | some c => valIsZero c
  | none => false

def isNumBelow (b : Nat) : Val → Bool
  | .num n => n < b
  | _ => false

mutual
/-- `v` is a value of type `t` -/
def hasTy : Ty → Val → Bool
  | .bfe, v => isNumBelow P v
  | .u8, v => isNumBelow (2^8) v
  | .u16, v => isNumBelow (2^16) v
  | .u32, v => isNumBelow (2^32) v
  | .u64, v => isNumBelow (2^64) v
  | .u128, v => isNumBelow (2^128) v
  | .bool, v => isNumBelow 2 v
  | .phantom, v => (match v with | .unit => true | _ => false)
  | .box t, v => hasTy t v
  | .option t, v => (match v with
    | .opt none => true
    | .opt (some x) => hasTy t x
    | _ => false)
  | .vec t, v => (match v with
    | .list vs => vs.all (fun x => hasTy t x)
    | _ => false)
  | .array n t, v => (match v with
    | .list vs => vs.length == n && vs.all (fun x => hasTy t x)
    | _ => false)
  | .tuple ts, v => (match v with
    | .list vs => hasTys ts vs
    | _ => false)
  | .poly t, v => (match v with
    | .list cs => cs.all (fun x => hasTy t x) && !lastIsZero cs
    | _ => false)
  | .u32s n, v => (match v with
    | .list ls => ls.length == n && ls.all (isNumBelow (2^32))
    | _ => false)
  | .struct fs, v => (match v with
    | .list vs => hasTys fs vs
    | _ => false)
  | .enum vars, v => (match v with
    | .variant k vs => hasTyVariant vars k vs
    | _ => false)
def hasTys : List Ty → List Val → Bool
  | [], vs => vs.isEmpty
  | t :: ts, vs => (match vs with
    | v :: vs' => hasTy t v && hasTys ts vs'
    | [] => false)
def hasTyVariant : List (List Ty) → Nat → List Val → Bool
  | [], _, _ => false
  | fs :: rest, k, vs => (match k with
    | 0 => hasTys fs vs
    | k' + 1 => hasTyVariant rest k' vs)
end

abbrev HasTy (t : Ty) (v : Val) : Prop := hasTy t v = true

/-! ## encoding -/

/-- a dynamically sized component is preceded by its length -/
def prefixed (dyn : Bool) (e : List Nat) : List Nat := if dyn then e.length :: e else e

/-- `bfield_codec_encode_list`: items in order, each prefixed iff the item type is dynamically sized -/
def encodeItems (enc : Val → List Nat) (dyn : Bool) : List Val → List Nat
  | [] => []
  | v :: vs => prefixed dyn (enc v) ++ encodeItems enc dyn vs

def numOf : Val → Nat
  | .num n => n
  | _ => 0

mutual
/-- `<T as BFieldCodec>::encode` -/
def encode : Ty → Val → List Nat
  | .bfe, v => [numOf v]
  | .u8, v => [numOf v]
  | .u16, v => [numOf v]
  | .u32, v => [numOf v]
  | .bool, v => [numOf v]
  | .u64, v => [numOf v % 2^32, numOf v / 2^32 % 2^32]
  | .u128, v => [numOf v % 2^32, numOf v / 2^32 % 2^32, numOf v / 2^64 % 2^32, numOf v / 2^96 % 2^32]
  | .phantom, _ => []
  | .box t, v => encode t v
  | .option t, v => (match v with
    | .opt (some x) => 1 :: encode t x
    | _ => [0])
  | .vec t, v => (match v with
    | .list vs => vs.length :: encodeItems (fun x => encode t x) (isDyn t) vs
    | _ => [0])
  | .array _ t, v => (match v with
    | .list vs => encodeItems (fun x => encode t x) (isDyn t) vs
    | _ => [])
  | .tuple ts, v => (match v with
    | .list vs => encodeFields ts vs
    | _ => [])
  | .poly t, v => (match v with
    | .list cs =>
      let coeffs := normalize cs
      let e := coeffs.length :: encodeItems (fun x => encode t x) (isDyn t) coeffs
      e.length :: e
    | _ => [1, 0])
  | .u32s _, v => (match v with
    | .list ls => encodeItems (fun x => [numOf x]) false ls
    | _ => [])
  | .struct fs, v => (match v with
    | .list vs => encodeFields fs vs
    | _ => [])
  | .enum vars, v => (match v with
    | .variant k vs => k :: encodeVariant vars k vs
    | _ => [])
/-- tuple / struct components: **reverse** declaration order, each prefixed iff dynamically sized.
    (`fields ts vs ++ item` instead of `List.reverse`, so the recursion stays structural.) -/
def encodeFields : List Ty → List Val → List Nat
  | [], _ => []
  | t :: ts, vs => (match vs with
    | v :: vs' => encodeFields ts vs' ++ prefixed (isDyn t) (encode t v)
    | [] => [])
def encodeVariant : List (List Ty) → Nat → List Val → List Nat
  | [], _, _ => []
  | fs :: rest, k, vs => (match k with
    | 0 => encodeFields fs vs
    | k' + 1 => encodeVariant rest k' vs)
end

/-! ## decoding -/

/-- `sequence.chunks_exact(w)` over a sequence of exactly `n * w` elements, items decoded in order, first failure
    returns -/
def decodeChunks (dec : List Nat → Outcome Val) (w : Nat) : Nat → List Nat → Outcome (List Val)
  | 0, _ => .ok []
  | n + 1, s =>
    match dec (s.take w) with
    | .ok v => (match decodeChunks dec w n (s.drop w) with
      | .ok vs => .ok (v :: vs)
      | .err k => .err k
      | .panic => .panic)
    | .err k => .err k
    | .panic => .panic

/-- `bfield_codec_decode_list_with_dynamically_sized_items`: `n` items left, `idx = sequence_index`,
    `s = sequence[idx..]`; returns the items and what is left of the sequence -/
def decodeDyn (dec : List Nat → Outcome Val) : Nat → Nat → List Nat → Outcome (List Val × List Nat)
  | 0, _, s => .ok ([], s)
  | n + 1, idx, s =>
    match s with
    | [] => .err .missingLen
    | len :: rest =>
      if idx + 1 + len ≥ 2^64 then .panic           -- `sequence_index + item_length` overflows `usize`
      else if rest.length < len then .err .tooShort
      else match dec (rest.take len) with
        | .ok v => (match decodeDyn dec n (idx + 1 + len) (rest.drop len) with
          | .ok (vs, r) => .ok (v :: vs, r)
          | .err k => .err k
          | .panic => .panic)
        | .err k => .err k
        | .panic => .panic

/-- `bfield_codec_decode_list(n, s)` for an item type with static length `sl` and decoder `dec` -/
def decodeList (dec : List Nat → Outcome Val) (sl : Option Nat) (n : Nat) (s : List Nat) : Outcome (List Val) :=
  match sl with
  | some w =>
    if n * w ≥ 2^64 then .err .invalidLen            -- `checked_mul`
    else if s.length < n * w then .err .tooShort
    else if s.length > n * w then .err .tooLong
    else if w = 0 then .panic                        -- `chunks_exact(0)`: "chunk size must be non-zero"
    else decodeChunks dec w n s
  | none =>
    match decodeDyn dec n 0 s with
    | .ok (vs, []) => .ok vs
    | .ok (_, _ :: _) => .err .tooLong
    | .err k => .err k
    | .panic => .panic

/-- `<Vec<T>>::decode` -/
def decodeVec (dec : List Nat → Outcome Val) (sl : Option Nat) (s : List Nat) : Outcome (List Val) :=
  match s with
  | [] => .err .empty
  | n :: rest => decodeList dec sl n rest

/-- one tuple / struct / variant component read from the front of `s` (hand-written tuples and the derive macro
    do the same steps) -/
def decodeItem (dec : List Nat → Outcome Val) (sl : Option Nat) (s : List Nat) : Outcome (Val × List Nat) :=
  match sl with
  | some w =>
    if s.length < w then .err .tooShort
    else match dec (s.take w) with
      | .ok v => .ok (v, s.drop w)
      | .err k => .err k
      | .panic => .panic
  | none =>
    match s with
    | [] => .err .missingLen
    | len :: r =>
      if r.length < len then .err .tooShort
      else match dec (r.take len) with
        | .ok v => .ok (v, r.drop len)
        | .err k => .err k
        | .panic => .panic

/-- one element that must be below `b` -/
def decodeSmall (b : Nat) (s : List Nat) : Outcome Val :=
  match s with
  | [] => .err .empty
  | [x] => if x < b then .ok (.num x) else .err .range
  | _ :: _ :: _ => .err .tooLong

/-- `u64` / `u128`: exactly `k` limbs below `2^32`, little endian -/
def limbsValue : List Nat → Nat
  | [] => 0
  | x :: xs => x + 2^32 * limbsValue xs

def decodeLimbs (k : Nat) (s : List Nat) : Outcome Val :=
  if s.isEmpty then .err .empty
  else if s.length < k then .err .tooShort
  else if s.length > k then .err .tooLong
  else if s.any (fun x => x > 2^32 - 1) then .err .range
  else .ok (.num (limbsValue s))

/-- `U32s<N>::decode` after its length checks: every element through `u32::decode` -/
def decodeU32Limbs : List Nat → Outcome (List Val)
  | [] => .ok []
  | x :: xs =>
    if x < 2^32 then (match decodeU32Limbs xs with
      | .ok vs => .ok (.num x :: vs)
      | .err k => .err k
      | .panic => .panic)
    else .err .range

/-- end of a tuple / struct / variant: nothing may be left -/
def finishFields (r : Outcome (List Val × List Nat)) : Outcome (List Val) :=
  match r with
  | .ok (vs, []) => .ok vs
  | .ok (_, _ :: _) => .err .tooLong
  | .err k => .err k
  | .panic => .panic

mutual
/-- `<T as BFieldCodec>::decode` -/
def decode : Ty → List Nat → Outcome Val
  | .bfe, s => (match s with
    | [] => .err .empty
    | [x] => .ok (.num x)
    | _ :: _ :: _ => .err .tooLong)
  | .u8, s => decodeSmall (2^8) s
  | .u16, s => decodeSmall (2^16) s
  | .u32, s => decodeSmall (2^32) s
  | .bool, s => decodeSmall 2 s
  | .u64, s => decodeLimbs 2 s
  | .u128, s => decodeLimbs 4 s
  | .phantom, s => (match s with
    | [] => .ok .unit
    | _ :: _ => .err .tooLong)
  | .box t, s => decode t s
  | .option t, s => (match s with
    | [] => .err .empty
    | tag :: rest =>
      if tag = 0 then (match rest with
        | [] => .ok (.opt none)
        | _ :: _ => .err .tooLong)
      else if tag = 1 then (match decode t rest with
        | .ok v => .ok (.opt (some v))
        | .err k => .err k
        | .panic => .panic)
      else .err .range)
  | .vec t, s => (decodeVec (fun c => decode t c) (staticLength t) s).map .list
  | .array n t, s =>
    if n > 0 ∧ s.isEmpty then .err .empty
    else (decodeList (fun c => decode t c) (staticLength t) n s).map .list
  | .tuple ts, s => (finishFields (decodeFields ts s)).map .list
  | .poly t, s => (match s with
    | [] => .err .empty
    | ind :: rest =>
      if s.length < ind + 1 then .err .tooShort
      else if s.length > ind + 1 then .err .tooLong
      else match decodeVec (fun c => decode t c) (staticLength t) rest with
        | .ok cs => if lastIsZero cs then .err .trailingZeros else .ok (.list cs)
        | .err k => .err k
        | .panic => .panic)
  | .u32s n, s =>
    if n > 0 ∧ s.isEmpty then .err .empty
    else if s.length < n then .err .tooShort
    else if s.length > n then .err .tooLong
    else (decodeU32Limbs s).map .list
  | .struct fs, s => (finishFields (decodeFields fs s)).map .list
  | .enum vars, s => (match s with
    | [] => .err .empty
    | d :: rest => (decodeVariant vars d rest).map (.variant d))
/-- components are read in **reverse** declaration order; returns the values in declaration order and what is
    left of the sequence -/
def decodeFields : List Ty → List Nat → Outcome (List Val × List Nat)
  | [], s => .ok ([], s)
  | t :: ts, s =>
    match decodeFields ts s with
    | .ok (vs, s') => (match decodeItem (fun c => decode t c) (staticLength t) s' with
      | .ok (v, r) => .ok (v :: vs, r)
      | .err k => .err k
      | .panic => .panic)
    | .err k => .err k
    | .panic => .panic
/-- `match discriminant { 0 => …, 1 => …, other => Err(InvalidVariantIndex) }` -/
def decodeVariant : List (List Ty) → Nat → List Nat → Outcome (List Val)
  | [], _, _ => .err .badDiscriminant
  | fs :: rest, d, s => (match d with
    | 0 => finishFields (decodeFields fs s)
    | d' + 1 => decodeVariant rest d' s)
end

/-! ## the excluded class (finding F10) and the types that exist in Rust -/
mutual
/-- no `Vec`/array/polynomial whose item type has static width 0 anywhere in the type -/
def noZW : Ty → Bool
  | .box t => noZW t
  | .option t => noZW t
  | .vec t => noZW t && staticLength t != some 0
  | .array _ t => noZW t && staticLength t != some 0
  | .tuple ts => noZWs ts
  | .poly t => noZW t && staticLength t != some 0
  | .struct fs => noZWs fs
  | .enum vars => noZWss vars
  | _ => true
def noZWs : List Ty → Bool
  | [] => true
  | t :: ts => noZW t && noZWs ts
def noZWss : List (List Ty) → Bool
  | [] => true
  | fs :: rest => noZWs fs && noZWss rest
end

/-- the hypothesis of the round-trip and totality theorems; decidable -/
abbrev NoZeroWidthItems (t : Ty) : Prop := noZW t = true

def isFieldTy : Ty → Bool
  | .bfe => true
  | .struct [.array 3 .bfe] => true
  | _ => false

mutual
/-- the types that can be written in Rust: tuple arity 2..12, polynomials over `BFieldElement`/`XFieldElement`,
    at least one and fewer than `2^32` enum variants. Only `encode_canonical` needs it (for the discriminant); all
    other theorems hold for the whole universe. -/
def wf : Ty → Bool
  | .box t => wf t
  | .option t => wf t
  | .vec t => wf t
  | .array _ t => wf t
  | .tuple ts => 2 ≤ ts.length && ts.length ≤ 12 && wfs ts
  | .poly t => isFieldTy t
  | .struct fs => wfs fs
  | .enum vars => !vars.isEmpty && vars.length < 2^32 && wfss vars
  | _ => true
def wfs : List Ty → Bool
  | [] => true
  | t :: ts => wf t && wfs ts
def wfss : List (List Ty) → Bool
  | [] => true
  | fs :: rest => wfs fs && wfss rest
end

/-! ## size measures for the resource bound (C13) -/
mutual
def Val.size : Val → Nat
  | .num _ => 1
  | .unit => 1
  | .opt none => 1
  | .opt (some v) => 1 + v.size
  | .list vs => 1 + Val.sizes vs
  | .variant _ vs => 1 + Val.sizes vs
def Val.sizes : List Val → Nat
  | [] => 0
  | v :: vs => v.size + Val.sizes vs
end

mutual
def Ty.size : Ty → Nat
  | .box t => 1 + t.size
  | .option t => 1 + t.size
  | .vec t => 1 + t.size
  | .array _ t => 1 + t.size
  | .tuple ts => 1 + Ty.sizes ts
  | .poly t => 1 + t.size
  | .struct fs => 1 + Ty.sizes fs
  | .enum vars => 1 + Ty.sizess vars
  | .u32s _ => 2
  | _ => 1
def Ty.sizes : List Ty → Nat
  | [] => 0
  | t :: ts => t.size + Ty.sizes ts
def Ty.sizess : List (List Ty) → Nat
  | [] => 0
  | fs :: rest => Ty.sizes fs + Ty.sizess rest
end

/-! ## cost semantics for the work bound (C13)

`cost t s` counts what `decode t s` *does* on any outcome: one unit per call of a decoder and per loop iteration,
following the same control flow (it consults `decode` only to know whether the loop goes on). Primitive decoders
(at most four limbs) are one unit. `Ty.work` is the per-type constant of the bound. -/
def costChunks (dec : List Nat → Outcome Val) (cost : List Nat → Nat) (w : Nat) : Nat → List Nat → Nat
  | 0, _ => 0
  | n + 1, s => 1 + cost (s.take w) + (match dec (s.take w) with
    | .ok _ => costChunks dec cost w n (s.drop w)
    | _ => 0)

def costDyn (dec : List Nat → Outcome Val) (cost : List Nat → Nat) : Nat → Nat → List Nat → Nat
  | 0, _, _ => 0
  | n + 1, idx, s =>
    match s with
    | [] => 1
    | len :: rest =>
      if idx + 1 + len ≥ 2^64 then 1
      else if rest.length < len then 1
      else 1 + cost (rest.take len) + (match dec (rest.take len) with
        | .ok _ => costDyn dec cost n (idx + 1 + len) (rest.drop len)
        | _ => 0)

def costList (dec : List Nat → Outcome Val) (cost : List Nat → Nat) (sl : Option Nat) (n : Nat) (s : List Nat) : Nat :=
  match sl with
  | some w =>
    if n * w ≥ 2^64 then 1
    else if s.length < n * w then 1
    else if s.length > n * w then 1
    else if w = 0 then 1
    else 1 + costChunks dec cost w n s
  | none => 1 + costDyn dec cost n 0 s

def costItem (cost : List Nat → Nat) (sl : Option Nat) (s : List Nat) : Nat :=
  match sl with
  | some w => if s.length < w then 1 else 1 + cost (s.take w)
  | none =>
    match s with
    | [] => 1
    | len :: r => if r.length < len then 1 else 1 + cost (r.take len)

mutual
def cost : Ty → List Nat → Nat
  | .box t, s => 1 + cost t s
  | .option t, s => (match s with
    | [] => 1
    | tag :: rest => if tag = 1 then 1 + cost t rest else 1)
  | .vec t, s => (match s with
    | [] => 1
    | n :: rest => 1 + costList (fun c => decode t c) (fun c => cost t c) (staticLength t) n rest)
  | .array n t, s =>
    if n > 0 ∧ s.isEmpty then 1
    else 1 + costList (fun c => decode t c) (fun c => cost t c) (staticLength t) n s
  | .tuple ts, s => 1 + costFields ts s
  | .poly t, s => (match s with
    | [] => 1
    | ind :: rest =>
      if s.length < ind + 1 then 1
      else if s.length > ind + 1 then 1
      else match rest with
        | [] => 2
        | n :: rest' => 2 + costList (fun c => decode t c) (fun c => cost t c) (staticLength t) n rest')
  | .u32s n, s => if s.length = n then 1 + s.length else 1
  | .struct fs, s => 1 + costFields fs s
  | .enum vars, s => (match s with
    | [] => 1
    | d :: rest => 1 + costVariant vars d rest)
  | _, _ => 1
def costFields : List Ty → List Nat → Nat
  | [], _ => 0
  | t :: ts, s => costFields ts s + (match decodeFields ts s with
    | .ok (_, s') => costItem (fun c => cost t c) (staticLength t) s'
    | _ => 0)
def costVariant : List (List Ty) → Nat → List Nat → Nat
  | [], _, _ => 0
  | fs :: rest, d, s => (match d with
    | 0 => costFields fs s
    | d' + 1 => costVariant rest d' s)
end

mutual
def Ty.work : Ty → Nat
  | .box t => 1 + t.work
  | .option t => 1 + t.work
  | .vec t => 3 + t.work
  | .array _ t => 4 + t.work
  | .tuple ts => 1 + Ty.works ts
  | .poly t => 4 + t.work
  | .struct fs => 1 + Ty.works fs
  | .enum vars => 1 + Ty.workss vars
  | .u32s _ => 2
  | _ => 1
def Ty.works : List Ty → Nat
  | [] => 0
  | t :: ts => 1 + t.work + Ty.works ts
def Ty.workss : List (List Ty) → Nat
  | [] => 0
  | fs :: rest => Ty.works fs + Ty.workss rest
end

end TF.Codec
