import TF.Model.BField
import TF.Model.XField
import TF.Model.XFieldInv
/-!
C01 growth: hand-written models of the remaining public surface of `b_field_element.rs`, `x_field_element.rs` and
`traits.rs` that contains loops, containers or trait dispatch, on top of the **translated** word-level and
field-level one-liners of `TF/Gen/BField.lean` (`bfe_increment`, `bfe_add_assign`, `bfe_is_one`, `bfe_raw_u16s`, ...).
Raw Montgomery words in and out, exactly like the Rust code.  `none` models a panic.  Core Lean only.
-/
namespace TF.Model

/-! ### generic `CyclicGroupGenerator::get_cyclic_group_elements` (the two impls are textually the same loop) -/

/-- the `loop` of `get_cyclic_group_elements`, entered with `ret.len() = len` and the current `val`; returns the
    elements pushed from here on.  One iteration: `ret.push(val); val *= self; if val.is_one() || max.is_some() &&
    ret.len() >= max.unwrap() { break }`.  The Rust loop has no bound of its own: `fuel` bounds the number of
    iterations the model is willing to run, `none` = "still running after `fuel` iterations". -/
def cyclicTail {α : Type} (mulAssign : α → α → α) (isOne : α → Bool) (g : α) (max : Option Nat) :
    Nat → α → Nat → Option (List α)
  | 0, _, _ => none
  | fuel+1, val, len =>
    let val' := mulAssign val g
    let stop := isOne val' || (match max with | some m => decide (len + 1 ≥ m) | none => false)
    if stop then some [val] else (cyclicTail mulAssign isOne g max fuel val' (len + 1)).map (val :: ·)

/-- `get_cyclic_group_elements`: `ret = vec![one]`, then the loop starting with `val = self` -/
def cyclicGroupG {α : Type} (mulAssign : α → α → α) (isOne : α → Bool) (one : α) (fuel : Nat) (g : α)
    (max : Option Nat) : Option (List α) :=
  (cyclicTail mulAssign isOne g max fuel g 1).map (one :: ·)

/-! ### generic `FiniteField::batch_inversion` (instantiated for the extension field; the base-field instance is
    `BF.batchInversion`) -/

def batchPrefixG {α : Type} (mul : α → α → α) (isZero : α → Bool) : List α → α → Option (List α × α)
  | [], acc => some ([], acc)
  | x :: xs, acc =>
    if isZero x then none else
    match batchPrefixG mul isZero xs (mul acc x) with
    | some (sc, fin) => some (acc :: sc, fin)
    | none => none

def batchBackG {α : Type} (mul : α → α → α) : List α → List α → α → List α → List α
  | x :: xs, s :: ss, acc, out => batchBackG mul xs ss (mul acc x) (mul acc s :: out)
  | _, _, _, out => out

def batchInversionG {α : Type} (mul : α → α → α) (isZero : α → Bool) (inverse : α → Option α) (one : α)
    (input : List α) : Option (List α) :=
  match input with
  | [] => some []
  | _ =>
    match batchPrefixG mul isZero input one with
    | none => none
    | some (scratch, acc) =>
      match inverse acc with
      | none => none
      | some ai => some (batchBackG mul input.reverse scratch.reverse ai [])

namespace BF
open TF.Gen

/-- `ModPowU32::mod_pow_u32`: `self.mod_pow(exp as u64)` -/
def modPowU32 (a e : Nat) : Nat := modPow a e
/-- `ModPowU64::mod_pow_u64`: `self.mod_pow(pow)` -/
def modPowU64 (a e : Nat) : Nat := modPow a e

/-- `CyclicGroupGenerator for BFieldElement` -/
def cyclicGroup (fuel : Nat) (g : Nat) (max : Option Nat) : Option (List Nat) :=
  cyclicGroupG bfe_mul_assign bfe_is_one bfe_one fuel g max

/-- `From<u8/u16/u32/u64/usize>`: `Self::new(u64::from(value))` -/
def fromU64 (v : Nat) : Nat := bfe_new v

/-- `From<BFieldElement> for u64 / u128 / i128`: `Self::from(elem.canonical_representation())` -/
def toU64 (a : Nat) : Nat := bfe_value a

/-- `PrimitiveRootOfUnity for BFieldElement`: `PRIMITIVE_ROOTS.get(&n).map(|&r| BFieldElement::new(r))` -/
def primitiveRoot (n : Nat) : Option Nat := (PRIMITIVE_ROOTS.lookup n).map bfe_new

/-- `Default` (derived): the raw word 0 -/
def default : Nat := 0

/-- `raw_u16s` / `from_raw_u16s` / `raw_bytes` / `from_raw_bytes` with the array as a list; `none` = not an array of
    that length (cannot be expressed in Rust) -/
def fromRawU16s : List Nat → Option Nat
  | [c0, c1, c2, c3] => some (bfe_from_raw_u16s c0 c1 c2 c3)
  | _ => none
def fromRawBytes : List Nat → Option Nat
  | [b0, b1, b2, b3, b4, b5, b6, b7] => some (bfe_from_raw_bytes b0 b1 b2 b3 b4 b5 b6 b7)
  | _ => none

end BF

namespace XF
open TF.Gen TF.Model.BF

/-- `XFieldElement::new` -/
def new (c0 c1 c2 : Nat) : X3 := (c0, c1, c2)
/-- `XFieldElement::new_const`: `Self::new([element, zero, zero])` with `zero = BFieldElement::ZERO` -/
def newConst (a : Nat) : X3 := new a bfe_ZERO bfe_ZERO

/-- `is_zero` / `is_one`: derived `==` with the constants -/
def isZero (x : X3) : Bool := x == (bfe_ZERO, bfe_ZERO, bfe_ZERO)
def isOne (x : X3) : Bool := x == (bfe_ONE, bfe_ZERO, bfe_ZERO)

/-- `unlift` through the translated `is_zero` -/
def unlift' (a : X3) : Option Nat := if bfe_is_zero a.2.1 && bfe_is_zero a.2.2 then some a.1 else none

/-- `increment(index)` / `decrement(index)`: `self.coefficients[index].increment()`; an index ≥ 3 panics -/
def increment (x : X3) : Nat → Option X3
  | 0 => some (bfe_increment x.1, x.2.1, x.2.2)
  | 1 => some (x.1, bfe_increment x.2.1, x.2.2)
  | 2 => some (x.1, x.2.1, bfe_increment x.2.2)
  | _ => none
def decrement (x : X3) : Nat → Option X3
  | 0 => some (bfe_decrement x.1, x.2.1, x.2.2)
  | 1 => some (x.1, bfe_decrement x.2.1, x.2.2)
  | 2 => some (x.1, x.2.1, bfe_decrement x.2.2)
  | _ => none

/-- `Add<BFieldElement> for XFieldElement` and `AddAssign<BFieldElement>`: `self.coefficients[0] += other` -/
def addB' (a : X3) (b : Nat) : X3 := (bfe_add_assign a.1 b, a.2.1, a.2.2)
/-- `Add<XFieldElement> for BFieldElement`: `other.coefficients[0] += self` -/
def bAdd (b : Nat) (a : X3) : X3 := (bfe_add_assign a.1 b, a.2.1, a.2.2)
/-- `Mul<XFieldElement> for BFieldElement`: `other.coefficients.map(|c| c * self)` -/
def bMul (b : Nat) (a : X3) : X3 := (bfe_mul a.1 b, bfe_mul a.2.1 b, bfe_mul a.2.2 b)
/-- `Neg`: `coefficients.map(Neg::neg)` through the translated `neg` -/
def neg' (a : X3) : X3 := (bfe_neg a.1, bfe_neg a.2.1, bfe_neg a.2.2)
/-- `Sub<XFieldElement> for XFieldElement`: `self + (-other)` -/
def sub' (a b : X3) : X3 := add a (neg' b)
/-- `Sub<BFieldElement> for XFieldElement`: `self + (-other)` -/
def subB' (a : X3) (b : Nat) : X3 := addB' a (bfe_neg b)
/-- `Sub<XFieldElement> for BFieldElement`: `self + (-other)` -/
def bSub' (b : Nat) (a : X3) : X3 := bAdd b (neg' a)

/-- `AddAssign<XFieldElement>`: three `+=` -/
def addAssign (a b : X3) : X3 := (bfe_add_assign a.1 b.1, bfe_add_assign a.2.1 b.2.1, bfe_add_assign a.2.2 b.2.2)
/-- `SubAssign<XFieldElement>`: three `-=` -/
def subAssign (a b : X3) : X3 := (bfe_sub_assign a.1 b.1, bfe_sub_assign a.2.1 b.2.1, bfe_sub_assign a.2.2 b.2.2)
/-- `SubAssign<BFieldElement>`: `self.coefficients[0] -= rhs` -/
def subAssignB (a : X3) (b : Nat) : X3 := (bfe_sub_assign a.1 b, a.2.1, a.2.2)
/-- `MulAssign<XFieldElement>` / `MulAssign<BFieldElement>`: `*self = *self * rhs` -/
def mulAssign (a b : X3) : X3 := mul a b
def mulAssignB (a : X3) (b : Nat) : X3 := mulB a b

/-- `Sum`: `iter.reduce(|a, b| a + b).unwrap_or(ZERO)` -/
def sum : List X3 → X3
  | [] => (bfe_ZERO, bfe_ZERO, bfe_ZERO)
  | x :: rest => rest.foldl add x

/-- `ModPowU32::mod_pow_u32`: `self.mod_pow_u64(exp as u64)` -/
def modPowU32 (a : X3) (e : Nat) : X3 := modPow a e

/-- `PrimitiveRootOfUnity for XFieldElement`: `BFieldElement::primitive_root_of_unity(n).map(XFieldElement::new_const)` -/
def primitiveRoot (n : Nat) : Option X3 := (BF.primitiveRoot n).map newConst

/-- `CyclicGroupGenerator for XFieldElement` -/
def cyclicGroup (fuel : Nat) (g : X3) (max : Option Nat) : Option (List X3) :=
  cyclicGroupG mulAssign isOne (bfe_ONE, bfe_ZERO, bfe_ZERO) fuel g max

/-- `TryFrom<&[BFieldElement]>` / `TryFrom<Vec<BFieldElement>>`: exactly three elements, else `InvalidLength` -/
def tryFromSlice : List Nat → Option X3
  | [c0, c1, c2] => some (new c0 c1 c2)
  | _ => none

/-- `FiniteField::batch_inversion` for `XFieldElement`; the inner `Option` of `inverse` is a panic -/
def batchInversion (input : List X3) : Option (List X3) :=
  batchInversionG mul isZero inverse (bfe_ONE, bfe_ZERO, bfe_ZERO) input

end XF
end TF.Model
