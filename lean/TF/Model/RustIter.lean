/-!
Models of the `std::iter` / `itertools` / `Vec` functions that the definitions regenerated from source by
`tools/rs2lean_bt4.py` refer to (`TF/Gen/SpongeLoops.lean`, `TF/Gen/MmrPeaksLoops.lean`, `TF/Gen/MerkleLoops.lean`).
They are part of the trusted base ("`std` behaves as documented", DESIGN §6); each is the documented behaviour written
out.  Core Lean only.
-/
namespace TF.RustIter

/-- a (possibly infinite) iterator: yields the elements of `pre` and then, if `rep = some x`, `x` forever
    (`iter::repeat(x)`); `rep = none` is a finite iterator -/
structure RIter (α : Type) where
  pre : List α
  rep : Option α

variable {α : Type}

/-- `slice.iter()` / `vec.into_iter()` -/
def ofList (l : List α) : RIter α := ⟨l, none⟩
/-- `iter::once(x)` -/
def once (x : α) : RIter α := ⟨[x], none⟩
/-- `iter::repeat(x)` -/
def rept (x : α) : RIter α := ⟨[], some x⟩
/-- `a.chain(b)`: `b` is reached only when `a` is finite -/
def chain (a b : RIter α) : RIter α :=
  match a.rep with
  | some _ => a
  | none => ⟨a.pre ++ b.pre, b.rep⟩
/-- `it.take(n)` (always finite; collected) -/
def take (n : Nat) (a : RIter α) : List α :=
  match a.rep with
  | none => a.pre.take n
  | some x => a.pre.take n ++ List.replicate (n - a.pre.length) x

def chunksAux (k : Nat) : Nat → List α → List (List α)
  | 0, _ => []
  | f+1, l => if l.isEmpty then [] else l.take k :: chunksAux k f (l.drop k)
/-- itertools `chunks(k)` of a finite iterator / slice `chunks(k)`: groups of `k`, the last one possibly shorter, none
    for the empty input (`k = 0` panics; recorded by the `_ok` twin) -/
def chunks (k : Nat) (l : List α) : List (List α) := chunksAux k l.length l

/-- `usize::next_multiple_of` (`match self % rhs { 0 => self, r => self + (rhs - r) }`; `rhs = 0` panics) -/
def nextMultipleOf (a b : Nat) : Nat := if a % b = 0 then a else a + (b - a % b)

/-- `Vec::pop().unwrap()`: the last element (`d` stands for the unreachable value after the panic on an empty vector,
    which is recorded by the `_ok` twin) -/
def popVal (l : List α) (d : α) : α := l.getLast?.getD d

end TF.RustIter
