import TF.Model.Poly
import TF.Model.PolyVal
import TF.Model.PolyDiv
import TF.Model.PolyInterp
/-!
Public functions of `Polynomial<FF>` (twenty-first/src/math/polynomial.rs) that had no model before the API audit
(docs/POLY_API_COVERAGE.md): the remaining constructors, the `usize` arithmetic of `truncate`, mixed-field evaluation
and the three colinearity helpers.  Each definition follows the Rust control flow; `none` is a panic.
Core Lean only (linked into `tfm`).
-/
namespace TF.Model.Poly
open TF

variable {α β γ : Type}

/-! ### constructors -/

/-- `From<Vec<E>>`, `From<[E; N]>` (`Polynomial::new` of the converted items) and `From<&[FF]>`
    (`Polynomial::new_borrowed`): the given list is the raw storage, stored leading zeros included -/
def fromList (p : List α) : List α := p

/-- `From<XFieldElement> for Polynomial<BFieldElement>`: `xfe.coefficients.to_vec()` -/
def fromXfe (c : α × α × α) : List α := [c.1, c.2.1, c.2.2]

/-! ### `truncate` with the machine arithmetic of the release build -/

/-- `usize::MAX + 1` on the 64-bit targets the crate is built for -/
def USIZE_MOD : Nat := 2 ^ 64

/-- `truncate(k)` exactly as it was compiled in the release profile **before the repair F13** (`overflow-checks = false`):
    `coefficients().rev().take(k + 1).rev()` where `k + 1` **wraps** for `k = usize::MAX`
    (the dev/test profile panics there instead).  For `k + 1 < 2^64` this is `truncate`. -/
def truncateBeforeF13 (F : FieldOps α) (p : List α) (k : Nat) : List α :=
  let c := normalize F p
  c.drop (c.length - ((k + 1) % USIZE_MOD))

/-- `truncate(k)` as compiled **after the repair F13** (`take(k.saturating_add(1))`) -/
def truncateUsize (F : FieldOps α) (p : List α) (k : Nat) : List α :=
  let c := normalize F p
  c.drop (c.length - min (k + 1) (USIZE_MOD - 1))

/-! ### evaluation with indeterminate / result in another field -/

/-- `evaluate::<Ind, Eval>` of a polynomial over `α` at a point of `γ`, result in `γ`, the coefficients entering
    through `lift : α → γ` (`Eval: Add<FF>`): Horner from the top of the raw storage.
    (`Polynomial<BFieldElement>::evaluate::<XFieldElement, XFieldElement>`: `lift = XFieldElement::new_const`;
    `Polynomial<XFieldElement>::evaluate::<BFieldElement, XFieldElement>`: the point is lifted, `lift = id`.) -/
def evaluateLift (G : FieldOps γ) (lift : α → γ) (p : List α) (x : γ) : γ :=
  evaluateG G.zero G.mul (fun acc c => G.add acc (lift c)) p x

/-! ### colinearity helpers -/

/-- `are_colinear_3` -/
def areColinear3 (F : FieldOps α) (p0 p1 p2 : α × α) : Bool :=
  if F.beq p0.1 p1.1 || F.beq p1.1 p2.1 || F.beq p2.1 p0.1 then false
  else
    let dy := F.sub p0.2 p1.2
    let dx := F.sub p0.1 p1.1
    F.beq (F.mul dx (F.sub p2.2 p0.2)) (F.mul dy (F.sub p2.1 p0.1))

/-- `Itertools::all_unique` -/
def allUniqueBy (F : FieldOps α) : List α → Bool
  | [] => true
  | x :: xs => !(xs.any (fun y => F.beq x y)) && allUniqueBy F xs

/-- `are_colinear`: fewer than three points or a repeated abscissa give `false`; otherwise the line through the
    first two points is computed (`/` cannot panic: the abscissae are distinct) and the others are tested -/
def areColinear (F : FieldOps α) (points : List (α × α)) : Bool :=
  if points.length < 3 then false
  else if !(allUniqueBy F (points.map (·.1))) then false
  else
    match points with
    | p0 :: p1 :: rest =>
      let a := F.div (F.sub p0.2 p1.2) (F.sub p0.1 p1.1)
      let b := F.sub p0.2 (F.mul a p0.1)
      rest.all (fun p => F.beq (F.add (F.mul a p.1) b) p.2)
    | _ => false

/-- `get_colinear_y`: `assert_ne!(p0.0, p1.0)`, then `(dy·(x − x0) + dx·y0) / dx` -/
def getColinearY (F : FieldOps α) (p0 p1 : α × α) (x : α) : Option α :=
  if F.beq p0.1 p1.1 then none
  else
    let dy := F.sub p0.2 p1.2
    let dx := F.sub p0.1 p1.1
    some (F.div (F.add (F.mul dy (F.sub x p0.1)) (F.mul dx p0.2)) dx)

end TF.Model.Poly

/-! ### zerofier trees assembled by hand from the public constructors `Leaf::new`, `Branch::new`, `Padding` -/
namespace TF.Model.PolyI
variable {α : Type}

/-- shape of a hand-built tree: the points of every leaf, in place -/
inductive TreeSpec (α : Type) where
  | leaf (points : List α)
  | branch (left right : TreeSpec α)
  | padding

/-- `Leaf::new(points)` (zerofier cut-off `T`), `Branch::new(left, right)`, `ZerofierTree::Padding`, bottom-up -/
def buildTree (F : FieldOps α) (E : Ext α) (T : Nat) : TreeSpec α → Option (ZTree α)
  | .leaf pts => (zerofierWith F E T pts).map (ZTree.leaf pts)
  | .branch l r => do
      let l ← buildTree F E T l
      let r ← buildTree F E T r
      pure (mkBranch F E l r)
  | .padding => some ZTree.padding

/-- all points of the shape, left to right -/
def TreeSpec.points : TreeSpec α → List α
  | .leaf pts => pts
  | .branch l r => l.points ++ r.points
  | .padding => []

end TF.Model.PolyI
