import TF.Model.RustStdConv
/-!
Models of the `std` behaviour that the **generic** codec combinators regenerated from source by `tools/rs2lean_codec.py`
refer to (`TF/Gen/CodecGeneric.lean`).  Part of the trusted base ("`std` behaves as documented"); core Lean only.

A Rust function returning `Result<A, E>` that may also *panic* is a function into `Res E A` (`ok | err | panic`).  A
`Result` that is a first-class *value* inside such a function (the thing `map_err`, `transpose`, `?` work on) is a pure
`Except E A`: `Res.call` evaluates a call (its panic is the caller's panic) and hands the returned `Result` on as a value,
`Res.tryQ` is the `?` operator (with the `From` conversion of the error), `Res.need c` is a panic point that is passed iff
`c` (index / slice bound, `usize` overflow of a plain `+`/`*` in a debug build, `chunks_exact(0)`, `unwrap()` on `None`),
`Res.forIn` is a `for` loop whose body may leave the *function* through `?` / `return Err(..)`: a fold that stops at the
first `err` / `panic`.
-/
namespace TF.RustStd

/-- outcome of a call of a function returning `Result<α, ε>`: the `Result`, or a panic -/
inductive Res (ε α : Type) where
  | ok (a : α)
  | err (e : ε)
  | panic
deriving Repr

/-- `Box<dyn Error + Send + Sync>`: opaque (only ever produced by `Into::into` of an item error and consumed by `#[from]`) -/
structure DynErr where
  msg : String
deriving Repr

namespace Res
variable {ε ε' α β γ σ : Type}

/-- a call: its panic is ours; otherwise the returned `Result` is a value -/
@[inline] def call (x : Res ε α) (k : Except ε α → Res ε' β) : Res ε' β :=
  match x with
  | .ok a => k (.ok a)
  | .err e => k (.error e)
  | .panic => .panic

/-- the function returns the `Result` value `r` -/
@[inline] def ret (r : Except ε α) : Res ε α :=
  match r with
  | .ok a => .ok a
  | .error e => .err e

/-- the `?` operator on a `Result` value; `conv` is the `From` conversion into the function's error type -/
@[inline] def tryQ (r : Except ε α) (conv : ε → ε') (k : α → Res ε' β) : Res ε' β :=
  match r with
  | .ok a => k a
  | .error e => .err (conv e)

/-- a panic point, passed iff `c` -/
@[inline] def need (c : Bool) (k : Res ε α) : Res ε α := if c then k else .panic

/-- `Option::unwrap()` -/
@[inline] def unwrapO (o : Option α) (k : α → Res ε β) : Res ε β :=
  match o with
  | some a => k a
  | none => .panic

/-- the loop `for x in l { body }` with loop-carried state `s`; `err` / `panic` of the body leave the function -/
def loop (f : β → σ → Res ε σ) : List β → σ → Res ε σ
  | [], s => .ok s
  | x :: xs, s =>
    match f x s with
    | .ok s' => loop f xs s'
    | .err e => .err e
    | .panic => .panic

@[inline] def forIn (l : List β) (s : σ) (f : β → σ → Res ε σ) (k : σ → Res ε γ) : Res ε γ :=
  match loop f l s with
  | .ok s' => k s'
  | .err e => .err e
  | .panic => .panic

/-- the loop `for i in lo..hi { body }`: like `loop` over `lo, lo+1, …`, without materialising the range (the count may be an
    untrusted `usize`; the body's first `err` ends the loop) -/
def loopRange (f : Nat → σ → Res ε σ) : Nat → Nat → σ → Res ε σ
  | 0, _, s => .ok s
  | n + 1, i, s =>
    match f i s with
    | .ok s' => loopRange f n (i + 1) s'
    | .err e => .err e
    | .panic => .panic

@[inline] def forRange (lo hi : Nat) (s : σ) (f : Nat → σ → Res ε σ) (k : σ → Res ε γ) : Res ε γ :=
  match loopRange f (hi - lo) lo s with
  | .ok s' => k s'
  | .err e => .err e
  | .panic => .panic

def noPanic : Res ε α → Bool
  | .panic => false
  | _ => true

end Res

/-- the `_ok` twin of a loop body: the flag in front of the loop state is lowered when a panic point fails -/
@[inline] def andFst {σ : Type} (c : Bool) (r : Bool × σ) : Bool × σ := (c && r.1, r.2)

/-- `Option::ok_or(err)` for any error type -/
def okOr {ε α : Type} (o : Option α) (err : ε) : Except ε α :=
  match o with
  | some v => .ok v
  | none => .error err

/-- `Option<Result<T, E>>::transpose()` -/
def transpose {ε α : Type} (o : Option (Except ε α)) : Except ε (Option α) :=
  match o with
  | some (.ok v) => .ok (some v)
  | some (.error e) => .error e
  | none => .ok none

/-- `Vec<T>::try_into::<[T; N]>()`: succeeds iff the length is exactly `N`; the error is the vector itself -/
def vec_try_into_array {α : Type} (n : Nat) (l : List α) : Except (List α) (List α) :=
  if l.length == n then .ok l else .error l

/-- `Iterator::rposition(p)` on a slice iterator: index of the last element satisfying `p` -/
def rposition {α : Type} (p : α → Bool) : List α → Option Nat
  | [] => none
  | x :: xs =>
    match rposition p xs with
    | some i => some (i + 1)
    | none => if p x then some 0 else none

end TF.RustStd
