import TF.Model.MmrAccE
/-!
Hand model of `MmrSuccessorProof::{verify, new_from_batch_append}` (`util_types/mmr/mmr_successor_proof.rs`),
over an abstract digest type and hash.  `dflt` is `Digest::default()`.
`none` = panic or non-termination of the Rust code.  Core Lean only.
-/
namespace TF.Model.MmrE
open TF.Gen TF.Model.Mmr

variable {D : Type} [DecidableEq D] (H : D → D → D) (dflt : D)

/-- the inner `while current_merkle_tree_index != 1` loop of `verify`:
    reads `paths.get(ap_index).copied().unwrap_or(Digest::default())`; returns `(current_node, ap_index)`.
    A Merkle tree index of 0 would spin forever: fuel exhaustion = `none`. -/
def climb (paths : List D) : Nat → Nat → D → Nat → Option (D × Nat)
  | 0, _, _, _ => none
  | fuel+1, mt, node, ap =>
    if mt = 1 then some (node, ap) else
    let sib := (paths[ap]?).getD dflt
    climb paths fuel (mt / 2) (if mt % 2 = 0 then H node sib else H sib node) (ap + 1)

/-- one iteration of the `for old_peak in old_mmra.peaks()` loop of `verify`, on the state
    `(num_leafs_remaining, running_leaf_count, ap_index)`:
    `none` = panic / divergence, `some none` = `return false`, `some (some state')` = next iteration -/
def verifyStep (paths : List D) (new_count : Nat) (new_peaks : List D) (old_peak : D)
    (remaining running ap : Nat) : Option (Option (Nat × Nat × Nat)) :=
  if remaining = 0 then none else                         -- `0.ilog2()` panics
  let old_height := Nat.log2 remaining
  if !(running < new_count) then none else                -- `assert!(leaf_index < leaf_count)`
  let mp := leaf_index_to_mt_index_and_peak_index running new_count      -- `(mt_index, peak_index)`
  match climb H dflt paths descentFuel (mp.1 / 2 ^ old_height) old_peak ap with
  | none => none
  | some (node, ap') =>
    match new_peaks[mp.2]? with
    | none => none                                        -- `new_mmra.peaks()[new_peak_index]` out of bounds
    | some p =>
      if p ≠ node then some none
      else some (some (remaining - 2 ^ old_height, running + 2 ^ old_height, ap'))

/-- the `for old_peak in old_mmra.peaks()` loop of `verify` and the final `ap_index == self.paths.len()` -/
def verifyPeaks (paths : List D) (new_count : Nat) (new_peaks : List D) :
    List D → Nat → Nat → Nat → Option Bool
  | [], _, _, ap => some (ap == paths.length)
  | old_peak :: rest, remaining, running, ap =>
    match verifyStep H dflt paths new_count new_peaks old_peak remaining running ap with
    | none => none
    | some none => some false
    | some (some (remaining', running', ap')) => verifyPeaks paths new_count new_peaks rest remaining' running' ap'

/-- `MmrSuccessorProof::verify(&self, old_mmra, new_mmra)` (after fix F3) -/
def verify (paths : List D) (old new : Acc D) : Option Bool :=
  if old.count > new.count then some false else
  if new.peaks.length ≥ 2 ^ 32 then none else               -- `len().try_into::<u32>().unwrap()`
  if TF.popCount new.count ≠ new.peaks.length then some false else
  if TF.popCount old.count ≠ old.peaks.length then some false else
  verifyPeaks H dflt paths new.count new.peaks old.peaks old.count 0 0

/-- the `while !indices_of_new_peaks.contains(&current_index)` loop: sibling node indices from an old peak up to
    the new peak above it.  `parent(..)` not returning (`none`) makes the round `none`.
    (Written with `Option.bind` rather than `match parent idx, parent rs with`: a `match` whose discriminant contains
    the translated word arithmetic makes equation-lemma generation evaluate `% 2^64` on open terms.) -/
def neededLoop (new_peak_indices : List Nat) : Nat → Nat → Nat → List Nat → Option (List Nat)
  | 0, _, _, _ => none
  | fuel+1, idx, h, acc =>
    if new_peak_indices.contains idx then some acc else
    (parent idx).bind fun parent_index =>
    (parent (right_sibling idx h)).bind fun parent_of_right_sibling =>
      neededLoop new_peak_indices fuel parent_index (inc32 h)
        (acc ++ [if parent_of_right_sibling ≠ parent_index then left_sibling idx h else right_sibling idx h])

/-- for one path: find the first still-needed entry whose node index is `index`; store `node`, clear the entry -/
def fillOne (index : Nat) (node : D) (path : List D) (needed : List (Option (Nat × Nat))) :
    Option (List D × List (Option (Nat × Nat))) :=
    match needed.findIdx? (fun e => match e with | some (_, s) => s == index | none => false) with
    | none => some (path, needed)
    | some j =>
      match needed[j]? with
      | some (some (pos, _)) =>
        if pos < path.length then some (path.set pos node, needed.set j none) else none
      | _ => some (path, needed)

/-- the `for (path, path_indices) in paths.iter_mut().zip(needed_indices.iter_mut())` loop for one `(index, node)` -/
def fillAll (index : Nat) (node : D) : List (List D) → List (List (Option (Nat × Nat))) →
    Option (List (List D) × List (List (Option (Nat × Nat))))
  | p :: ps, n :: ns =>
    match fillOne index node p n, fillAll index node ps ns with
    | some (p', n'), some (ps', ns') => some (p' :: ps', n' :: ns')
    | _, _ => none
  | ps, ns => some (ps, ns)

/-- the node digests derivable from one append: `scan(new_leaf, |runner, path_node| …)` -/
def scanNodes : D → List D → List D
  | _, [] => []
  | runner, p :: ps => runner :: scanNodes (H p runner) ps

def fillMany : List (Nat × D) → List (List D) → List (List (Option (Nat × Nat))) →
    Option (List (List D) × List (List (Option (Nat × Nat))))
  | [], ps, ns => some (ps, ns)
  | (i, d) :: rest, ps, ns =>
    match fillAll i d ps ns with
    | none => none
    | some (ps', ns') => fillMany rest ps' ns'

/-- the `for &new_leaf in new_leafs` loop; state `(current_peaks, current_peak_indices, current_leaf_count)` -/
def replayAppends : List D → List D → List Nat → Nat → List (List D) → List (List (Option (Nat × Nat))) →
    Option (List (List D))
  | [], _, _, _, paths, _ => some paths
  | leaf :: rest, cur_peaks, cur_idx, cnt, paths, needed => do
    let new_node_indices ← node_indices_added_by_append cnt
    let (new_peaks, ap) ← calculateNewPeaksFromAppend H cnt cur_peaks leaf
    let (_, new_peak_indices) ← get_peak_heights_and_peak_node_indices (add64 cnt 1)
    let new_nodes := scanNodes H leaf ap
    let items := (new_node_indices.zip new_nodes) ++ (cur_idx.zip cur_peaks)
    let (paths', needed') ← fillMany items paths needed
    replayAppends rest new_peaks new_peak_indices (add64 cnt 1) paths' needed'

def enumFrom0 {α : Type} : List α → Nat → List (Nat × α)
  | [], _ => []
  | x :: xs, k => (k, x) :: enumFrom0 xs (k + 1)

/-- `MmrSuccessorProof::new_from_batch_append(mmra, new_leafs)` = `paths` -/
def newFromBatchAppend (mmra : Acc D) (new_leafs : List D) : Option (List D) := do
  let (old_heights, old_indices) ← get_peak_heights_and_peak_node_indices mmra.count
  let (_, new_indices) ← get_peak_heights_and_peak_node_indices (add64 mmra.count new_leafs.length)
  let neededIdx ← (old_indices.zip old_heights).mapM (fun (i, h) => neededLoop new_indices (2 * descentFuel) i h [])
  let needed := neededIdx.map (fun l => (enumFrom0 l 0).map some)
  let paths := neededIdx.map (fun l => l.map (fun _ => dflt))
  let filled ← replayAppends H new_leafs mmra.peaks old_indices mmra.count paths needed
  pure filled.flatten

end TF.Model.MmrE
