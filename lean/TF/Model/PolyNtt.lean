import TF.Model.PolyMul
import TF.Model.Ntt
/-!
The executable model of the Rust in-place NTT (`TF/Model/Ntt.lean`, property C06: bit-reversal swap loop + one
butterfly pass per stage, the root looked up in the translated table `PRIMITIVE_ROOTS`) packaged as the `Transform`
parameter of the NTT-based polynomial products (`TF/Model/PolyMul.lean`, property C07).

`Polynomial::fast_multiply` etc. call `ntt(&mut Vec<FF>)` / `intt(&mut Vec<FF>)` on a freshly resized coefficient
vector; a `Vec` is an array here and a list in the polynomial model, `List.toArray` / `Array.toList` convert.
`none` = the panic of `ntt`/`intt`.

Core Lean only (linked into `tfm`).  `TF/Proofs/PolyNttBridge.lean` proves `TransformSpec` for these transforms.
-/
namespace TF.Model.Poly

/-- `ntt` / `intt` of `TF.Model.Ntt` over an operations record `ops` and a root table, on coefficient lists -/
def nttTransform {σ α : Type} (ops : TF.Model.Ntt.Ops σ α) (root : Nat → Option σ) : Transform α where
  ntt := fun xs => (TF.Model.Ntt.ntt ops root xs.toArray).map Array.toList
  intt := fun xs => (TF.Model.Ntt.intt ops root xs.toArray).map Array.toList

/-- base field, canonical values: `ntt::<BFieldElement>` with `BFieldElement::primitive_root_of_unity` -/
def bNtt : Transform Nat := nttTransform TF.Model.Ntt.bOps TF.Model.Ntt.primitiveRoot

/-- extension field, triples of canonical values: `ntt::<XFieldElement>` (twiddles are base-field elements) -/
def xNtt : Transform TF.Spec.X3 := nttTransform TF.Model.Ntt.xOps TF.Model.Ntt.primitiveRoot

end TF.Model.Poly
