import TF.Model.Merkle
/-!
# `CpuParallel::from_digests` under an explicit task schedule

`TF.Merkle.parLevel` models one parallel level of `from_digests` as a pure `map`.  This file models the same level as
rayon executes it, at the granularity of tasks: the indexed parallel iterator
`(0..cnt).into_par_iter().map(closure).collect_into_vec(&mut local_digests)` runs one task per index `i`; every task
reads the shared, immutably borrowed `nodes` (the borrow checker guarantees that nobody writes `nodes` while the
iterator is alive) and writes its result into slot `i` of the output buffer.  Which worker thread runs which task, how
the index range is split into chunks and how the chunks interleave is *not* fixed: a **schedule** is the order in which
the tasks complete — any list of task indices.  Any number of worker threads, any chunking and any interleaving of the
chunks induces such an order, and it is a permutation of `0..cnt` because rayon runs every task exactly once.

Core Lean only.  The theorems (`TF/Proofs/MerkleSched.lean`, `TF/Props/C10.lean`) show that the result is the same for
every schedule that is a permutation of the tasks, for every cut-off.
-/
namespace TF.Merkle
open Res

section Sched
variable {D : Type} (H : D → D → D)

/-- run the tasks in completion order `sched`; task `i` computes `f i` and stores it in slot `i` of the buffer.
    A panicking task panics the whole parallel iterator (rayon propagates the panic); a slot outside the buffer cannot
    be written (that would be an out-of-bounds write inside `collect_into_vec`) -/
def runTasks (f : Nat → Res D) : List Nat → List (Option D) → Res (List (Option D))
  | [], buf => ok buf
  | i :: rest, buf =>
    match f i with
    | .ok d => if i < buf.length then runTasks f rest (buf.set i (some d)) else panic
    | .err e => .err e
    | .panic => panic

/-- `collect_into_vec` hands the buffer back only when every slot has been written -/
def collectBuf : List (Option D) → Res (List D)
  | [] => ok []
  | some d :: r => do
    let t ← collectBuf r
    ok (d :: t)
  | none :: _ => panic

/-- one parallel level under the schedule `sched` -/
def parLevelSched (sched : List Nat) (nodes : List D) (cnt : Nat) : Res (List D) := do
  let buf ← runTasks (fun i => hashChildren H nodes (cnt + i)) sched (List.replicate cnt none)
  let loc ← collectBuf buf
  if 2 * cnt ≤ nodes.length then ok (nodes.take cnt ++ loc ++ nodes.drop (2 * cnt)) else panic

/-- the parallel phase, the level with `cnt` nodes running under the schedule `scheds cnt` -/
def parLoopSched (scheds : Nat → List Nat) (cutoff : Nat) : Nat → Nat → Nat → List D → Option (Res (List D × Nat))
  | 0, _, _, _ => none
  | fuel+1, cnt, acc, nodes =>
    if cnt > 0 ∧ cnt ≥ cutoff then
      match parLevelSched H (scheds cnt) nodes cnt with
      | .ok nodes' => parLoopSched scheds cutoff fuel (cnt / 2) (acc + cnt) nodes'
      | .err e => some (.err e)
      | .panic => some .panic
    else some (.ok (nodes, acc))

/-- `from_digests` with every parallel level running under its own schedule -/
def fromDigestsSchedFuel (scheds : Nat → List Nat) (filler : D) (cutoff fuel : Nat) (digests : List D) :
    Option (Res (Tree D)) :=
  if digests.isEmpty then some (err .tooFewLeafs) else
  let n := digests.length
  if !isPow2 n then some (err .incorrectNumberOfLeafs) else
  let nodes0 := List.replicate n filler ++ digests
  match parLoopSched H scheds cutoff fuel (n / 2) 0 nodes0 with
  | none => none
  | some (.err e) => some (.err e)
  | some .panic => some .panic
  | some (.ok (nodes1, acc)) => some (do
      let m ← csub n acc
      let nodes2 ← seqLoop H nodes1 (revRange m)
      ok ⟨nodes2⟩)

def fromDigestsSched (scheds : Nat → List Nat) (filler : D) (cutoff : Nat) (digests : List D) : Res (Tree D) :=
  match fromDigestsSchedFuel H scheds filler cutoff (digests.length + 1) digests with
  | some r => r
  | none => panic

/-- the schedule of `t` worker threads that each take a contiguous chunk of `⌈cnt/t⌉` tasks and are served round-robin,
    one task at a time (an example of a non-trivial interleaving; used in non-vacuity examples) -/
def roundRobin (t cnt : Nat) : List Nat :=
  let c := (cnt + t - 1) / t
  (List.range c).flatMap fun k => (List.range t).filterMap fun w =>
    let i := w * c + k
    if i < cnt then some i else none
end Sched

end TF.Merkle
