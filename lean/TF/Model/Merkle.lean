import TF.Gen.Consts
/-!
Hand-written executable model of `twenty-first/src/util_types/merkle_tree.rs` over an **abstract hash**
`H : D → D → D` (the driver instantiates `D := List Nat`, `H := TF.Hash.hashPair`).  Core Lean only.

Conventions
* `Res α` is the outcome of a Rust function returning `Result<α, MerkleTreeError>`: `ok`, `err kind`, or `panic`
  (arithmetic overflow in a debug build / slice index out of bounds / `zip_eq` length mismatch / `ilog2(0)`).
  Every `usize` operation that can overflow is modelled by a checked operation (`cadd`, `cmul`, `csub`, `shl1`)
  that yields `panic`; the theorems of C04/C10 show that `panic` is unreachable, hence debug and release builds agree.
* `HashMap<usize, Digest>` is an association list, `insert` = cons, `get` = first match (= most recent insert);
  `HashSet<usize>`s are lists, a sorted de-duplicated `Vec` is produced by `toSortedSet`.
* `MerkleTree.nodes` is a `List D` (index 0 = the unused filler, 1 = root, leafs at `[n, 2n)`).
* loops: `while node_index > ROOT_INDEX { …; node_index /= 2 }` is `pathUp` (structural on a fuel that is the start
  value itself, which always suffices); `for _ in 0..tree_height` is structural on the counter; the parallel
  `while` of `from_digests` carries explicit fuel and returns `none` when it runs out (= non-termination), the
  termination theorem of C10 shows that fuel `leafs+1` always suffices **for every cut-off** (after fix F2).
-/
namespace TF.Merkle
open TF.Gen

/-! ## A.4: perfect trees over an abstract hash (used by specifications and theorems) -/
section Core
variable {D : Type} (H : D → D → D)

def sib (k : Nat) : Nat := if k % 2 = 0 then k + 1 else k - 1

/-- value of the heap node `k` that has `lvl` levels below it; at level 0, `f` gives the leaf (indexed by heap index) -/
def nodeVal (f : Nat → D) : (lvl : Nat) → (k : Nat) → D
  | 0, k => f k
  | l+1, k => H (nodeVal f l (2*k)) (nodeVal f l (2*k+1))

def step (k : Nat) (acc s : D) : D := if k % 2 = 0 then H acc s else H s acc

/-- hash a node up along a path of siblings; `k` is the heap index of the current node -/
def foldPath : (k : Nat) → D → List D → D
  | _, acc, [] => acc
  | k, acc, s :: ss => foldPath (k/2) (step H k acc s) ss

/-- siblings from node `k` (with `below` levels under it) going `up` levels up -/
def authPath (f : Nat → D) : (below : Nat) → (up : Nat) → (k : Nat) → List D
  | _, 0, _ => []
  | below, u+1, k => nodeVal H f below (sib k) :: authPath f (below+1) u (k/2)

/-- an explicit collision of `H` -/
def Collision : Prop := ∃ a b c d : D, (a, b) ≠ (c, d) ∧ H a b = H c d
end Core

/-! ## outcomes -/

inductive Err where
  | leafIndexInvalid | authenticationStructureLengthMismatch | repeatedLeafDigestMismatch
  | spuriousNodeIndex | missingNodeIndex | rootNotFound | tooFewLeafs | incorrectNumberOfLeafs | treeTooHigh
deriving DecidableEq, Repr

inductive Res (α : Type) where
  | ok (a : α)
  | err (e : Err)
  | panic
deriving Repr, DecidableEq

namespace Res
variable {α β : Type}
def bind (x : Res α) (f : α → Res β) : Res β :=
  match x with
  | ok a => f a
  | err e => err e
  | panic => panic
instance : Monad Res where
  pure := ok
  bind := bind

/-- `iter.map(f).collect::<Result<Vec<_>>>()`: first failure wins -/
def mapM (f : α → Res β) : List α → Res (List β)
  | [] => ok []
  | a :: as => do
    let b ← f a
    let bs ← mapM f as
    ok (b :: bs)

/-- a `for` loop with `?` in its body -/
def foldlM (f : β → α → Res β) : β → List α → Res β
  | b, [] => ok b
  | b, a :: as => do
    let b' ← f b a
    foldlM f b' as

def isPanic : Res α → Bool
  | panic => true
  | _ => false
end Res
open Res

/-! ## `usize` arithmetic with its panic points -/

def USIZE : Nat := 2^64
def cadd (a b : Nat) : Res Nat := if a + b < USIZE then ok (a + b) else panic
def cmul (a b : Nat) : Res Nat := if a * b < USIZE then ok (a * b) else panic
def csub (a b : Nat) : Res Nat := if b ≤ a then ok (a - b) else panic
/-- `1 << h` -/
def shl1 (h : Nat) : Res Nat := if h < 64 then ok (2^h) else panic

/-! ## sets and maps -/

/-- insert into a strictly ascending list, keeping it strictly ascending (set semantics) -/
def insertSet (x : Nat) : List Nat → List Nat
  | [] => [x]
  | y :: ys => if x < y then x :: y :: ys else if x = y then y :: ys else y :: insertSet x ys

/-- `sort_unstable(); dedup()` of a `Vec<usize>` / the sorted content of a `HashSet<usize>` -/
def toSortedSet (l : List Nat) : List Nat := l.foldr insertSet []

/-- `Vec::dedup`: removes consecutive repeated elements -/
def dedupAdj : List Nat → List Nat
  | [] => []
  | [x] => [x]
  | x :: y :: ys => if x = y then dedupAdj (y :: ys) else x :: dedupAdj (y :: ys)

abbrev NodeMap (D : Type) := List (Nat × D)
def NodeMap.get {D : Type} (m : NodeMap D) (k : Nat) : Option D := m.lookup k
def NodeMap.insert {D : Type} (m : NodeMap D) (k : Nat) (v : D) : NodeMap D := (k, v) :: m

/-- `while node_index > ROOT_INDEX { visit node_index; node_index /= 2 }`: the visited indices -/
def pathUp : Nat → Nat → List Nat
  | 0, _ => []
  | f+1, k => if k > ROOT_INDEX then k :: pathUp f (k / 2) else []
def nodePath (k : Nat) : List Nat := pathUp k k

/-! ## `MerkleTree::authentication_structure_node_indices` -/

def authIdx (numLeafs : Nat) (leafIndices : List Nat) : Res (List Nat) := do
  let ks ← Res.mapM (fun i => if i ≥ numLeafs then err .leafIndexInvalid else cadd i numLeafs) leafIndices
  let canBeComputed := ks.flatMap nodePath
  let isNeeded := canBeComputed.map (· ^^^ 1)
  let difference := isNeeded.filter (fun k => !canBeComputed.contains k)
  ok (toSortedSet difference).reverse

/-! ## proofs and partial trees -/

structure Proof (D : Type) where
  height : Nat
  leafs : List (Nat × D)
  auth : List D
deriving Repr, DecidableEq

structure Partial (D : Type) where
  height : Nat
  idxs : List Nat
  nodes : NodeMap D

section Verify
variable {D : Type} [DecidableEq D] (H : D → D → D)

def numLeafs (height : Nat) : Res Nat :=
  if height > MAX_TREE_HEIGHT then err .treeTooHigh else shl1 height

def getNode (m : NodeMap D) (k : Nat) : Res D :=
  match m.get k with
  | some d => ok d
  | none => err .missingNodeIndex

def childrenOf (m : NodeMap D) (parent : Nat) : Res (D × D) := do
  let l ← cmul parent 2
  let r := l ^^^ 1
  let a ← getNode m l
  let b ← getNode m r
  ok (a, b)

def insertDigest (m : NodeMap D) (parent : Nat) : Res (NodeMap D) := do
  let (a, b) ← childrenOf m parent
  match m.get parent with
  | some _ => err .spuriousNodeIndex
  | none => ok (m.insert parent (H a b))

def moveUp (l : List Nat) : List Nat := dedupAdj (l.map (· / 2))

/-- `for _ in 0..tree_height { for p in parents { insert(p)? }; parents = move_up(parents) }` -/
def fillLoop : Nat → List Nat → NodeMap D → Res (NodeMap D)
  | 0, _, m => ok m
  | j+1, ps, m => do
    let m' ← Res.foldlM (insertDigest H) m ps
    fillLoop j (moveUp ps) m'

def firstLayerParents (height : Nat) (idxs : List Nat) : Res (List Nat) := do
  let n ← numLeafs height
  let ps ← Res.mapM (fun i => do let k ← cadd i n; ok (k / 2)) idxs
  ok (toSortedSet ps)

def fill (pt : Partial D) : Res (Partial D) := do
  let ps ← firstLayerParents pt.height pt.idxs
  let m ← fillLoop H pt.height ps pt.nodes
  ok { pt with nodes := m }

/-- one iteration of `for (leaf_index, leaf_digest) in proof.indexed_leafs` in `try_from` -/
def insertLeaf (n : Nat) (m : NodeMap D) (x : Nat × D) : Res (NodeMap D) := do
  let k ← cadd x.1 n
  match m.get k with
  | none => ok (m.insert k x.2)
  | some d => if d = x.2 then ok m else err .repeatedLeafDigestMismatch

/-- `zip_eq(..).collect::<HashMap>()` -/
def collectMap (ks : List Nat) (vs : List D) : Res (NodeMap D) :=
  if ks.length = vs.length then ok ((ks.zip vs).foldl (fun m kv => m.insert kv.1 kv.2) []) else panic

/-- `impl TryFrom<MerkleTreeInclusionProof> for PartialMerkleTree` -/
def tryFrom (p : Proof D) : Res (Partial D) := do
  let idxs := p.leafs.map (·.1)
  let n ← numLeafs p.height
  if idxs.any (· ≥ n) then err .leafIndexInvalid else
  let nodeIdx ← authIdx n idxs
  if p.auth.length ≠ nodeIdx.length then err .authenticationStructureLengthMismatch else
  let nodes ← collectMap nodeIdx p.auth
  let nodes ← Res.foldlM (insertLeaf n) nodes p.leafs
  fill H { height := p.height, idxs := idxs, nodes := nodes }

def Partial.root (pt : Partial D) : Res D :=
  match pt.nodes.get ROOT_INDEX with
  | some d => ok d
  | none => err .rootNotFound

def Proof.isTrivial (p : Proof D) : Bool := p.leafs.isEmpty && p.auth.isEmpty

/-- `MerkleTreeInclusionProof::verify` -/
def verify (p : Proof D) (expectedRoot : D) : Res Bool :=
  if p.isTrivial then ok true else
  match tryFrom H p with
  | .panic => .panic
  | .err _ => ok false
  | .ok pt =>
    match pt.root with
    | .panic => .panic
    | .err _ => ok false
    | .ok r => ok (decide (r = expectedRoot))

def authPathFor (pt : Partial D) (leafIndex : Nat) : Res (List D) := do
  let n ← numLeafs pt.height
  let k ← cadd leafIndex n
  Res.mapM (fun c => getNode pt.nodes (c ^^^ 1)) (nodePath k)

/-- `MerkleTreeInclusionProof::into_authentication_paths` -/
def intoAuthPaths (p : Proof D) : Res (List (List D)) := do
  let pt ← tryFrom H p
  Res.mapM (authPathFor pt) pt.idxs
end Verify

/-! ## `MerkleTree` and its accessors -/

structure Tree (D : Type) where
  nodes : List D
deriving Repr, DecidableEq

section TreeOps
variable {D : Type}

def Tree.numLeafs (t : Tree D) : Nat := t.nodes.length / 2
/-- `leaf_count.ilog2()` (panics on 0) -/
def Tree.height (t : Tree D) : Res Nat := if t.numLeafs = 0 then panic else ok (Nat.log2 t.numLeafs)
def Tree.root (t : Tree D) : Res D :=
  match t.nodes[ROOT_INDEX]? with
  | some d => ok d
  | none => panic
def Tree.node (t : Tree D) (i : Nat) : Option D := t.nodes[i]?
def Tree.leafs (t : Tree D) : List D := t.nodes.drop (t.nodes.length / 2)
/-- after fix F1: `first_leaf.checked_add(index)?` -/
def Tree.leaf (t : Tree D) (i : Nat) : Option D :=
  let first := t.nodes.length / 2
  if first + i < USIZE then t.nodes[first + i]? else none
def Tree.indexedLeafs (t : Tree D) (idxs : List Nat) : Res (List (Nat × D)) :=
  Res.mapM (fun i => match t.leaf i with
    | some d => ok (i, d)
    | none => err .leafIndexInvalid) idxs
def Tree.authStructure (t : Tree D) (idxs : List Nat) : Res (List D) := do
  let ks ← authIdx t.numLeafs idxs
  Res.mapM (fun k => match t.nodes[k]? with
    | some d => ok d
    | none => panic) ks
def Tree.inclusionProof (t : Tree D) (idxs : List Nat) : Res (Proof D) := do
  let h ← t.height
  let ls ← t.indexedLeafs idxs
  let a ← t.authStructure idxs
  ok { height := h, leafs := ls, auth := a }
end TreeOps

/-! ## `CpuParallel::from_digests` with the parallelisation cut-off as a parameter -/

section Build
variable {D : Type} (H : D → D → D)

/-- `usize::is_power_of_two` -/
def isPow2 (n : Nat) : Bool := n != 0 && 2 ^ (Nat.log2 n) == n

/-- `Tip5::hash_pair(nodes[j * 2], nodes[j * 2 + 1])` (slice indexing panics when out of bounds) -/
def hashChildren (nodes : List D) (j : Nat) : Res D :=
  match nodes[2 * j]?, nodes[2 * j + 1]? with
  | some a, some b => ok (H a b)
  | _, _ => panic

/-- one parallel level: `(0..cnt).into_par_iter().map(..).collect_into_vec(..)`, then the slice assignment
    `nodes[cnt..2cnt].clone_from_slice(..)`.  The closure is pure and `collect_into_vec` preserves order, so the
    level is a pure `map` (schedule independence is argued from this, not proved). -/
def parLevel (nodes : List D) (cnt : Nat) : Res (List D) := do
  let loc ← Res.mapM (fun i => hashChildren H nodes (cnt + i)) (List.range cnt)
  if 2 * cnt ≤ nodes.length then ok (nodes.take cnt ++ loc ++ nodes.drop (2 * cnt)) else panic

/-- `while cnt > 0 && cnt >= cutoff { level; count_acc += cnt; cnt /= 2 }`; `none` = out of fuel -/
def parLoop (cutoff : Nat) : Nat → Nat → Nat → List D → Option (Res (List D × Nat))
  | 0, _, _, _ => none
  | fuel+1, cnt, acc, nodes =>
    if cnt > 0 ∧ cnt ≥ cutoff then
      match parLevel H nodes cnt with
      | .ok nodes' => parLoop cutoff fuel (cnt / 2) (acc + cnt) nodes'
      | .err e => some (.err e)
      | .panic => some .panic
    else some (.ok (nodes, acc))

/-- the loop as it was before fix F2 (`while cnt >= cutoff`): with cut-off 0 it never exits -/
def parLoopBeforeF2 (cutoff : Nat) : Nat → Nat → Nat → List D → Option (Res (List D × Nat))
  | 0, _, _, _ => none
  | fuel+1, cnt, acc, nodes =>
    if cnt ≥ cutoff then
      match parLevel H nodes cnt with
      | .ok nodes' => parLoopBeforeF2 cutoff fuel (cnt / 2) (acc + cnt) nodes'
      | .err e => some (.err e)
      | .panic => some .panic
    else some (.ok (nodes, acc))

/-- `for i in (ROOT_INDEX..m).rev() { nodes[i] = hash_pair(nodes[2i], nodes[2i+1]) }`, given the index list -/
def seqLoop (nodes : List D) : List Nat → Res (List D)
  | [] => ok nodes
  | i :: is => do
    let d ← hashChildren H nodes i
    if i < nodes.length then seqLoop (nodes.set i d) is else panic

/-- `(ROOT_INDEX..m).rev()` -/
def revRange (m : Nat) : List Nat := (List.range' ROOT_INDEX (m - ROOT_INDEX)).reverse

def fromDigestsFuel (filler : D) (cutoff fuel : Nat) (digests : List D) : Option (Res (Tree D)) :=
  if digests.isEmpty then some (err .tooFewLeafs) else
  let n := digests.length
  if !isPow2 n then some (err .incorrectNumberOfLeafs) else
  let nodes0 := List.replicate n filler ++ digests
  match parLoop H cutoff fuel (n / 2) 0 nodes0 with
  | none => none
  | some (.err e) => some (.err e)
  | some .panic => some .panic
  | some (.ok (nodes1, acc)) => some (do
      let m ← csub n acc
      let nodes2 ← seqLoop H nodes1 (revRange m)
      ok ⟨nodes2⟩)

/-- `CpuParallel::from_digests`; fuel `n+1` always suffices (theorem `from_digests_terminates`), so the
    `none ↦ panic` arm is dead code -/
def fromDigests (filler : D) (cutoff : Nat) (digests : List D) : Res (Tree D) :=
  match fromDigestsFuel H filler cutoff (digests.length + 1) digests with
  | some r => r
  | none => panic

/-- value of the environment variable `TWENTY_FIRST_MERKLE_TREE_PARALLELIZATION_CUTOFF` -> cut-off:
    `.ok().and_then(|v| v.parse().ok()).unwrap_or(DEFAULT)`; `none` = unset or unparsable -/
def cutoffOfEnv : Option Nat → Nat
  | some c => c
  | none => DEFAULT_PARALLELIZATION_CUTOFF
end Build

end TF.Merkle
