import TF.Spec.Field
/-!
Interface through which the generic (trait-polymorphic) Rust code — `Polynomial<FF>`, `ntt<FF>`, zerofier trees —
reaches field arithmetic.  The executable models take an explicit `FieldOps α`; the driver instantiates it with the
base field on canonical values (`bfieldOps`) and with the extension field on triples (`xfieldOps`); theorems are
proved for the instance `FieldOps.ofField` of an arbitrary Mathlib `Field` (in `TF/Proofs`, where Mathlib may be
imported).  That the Rust `BFieldElement`/`XFieldElement` operators implement these two fields is property C01.
Core Lean only.
-/
namespace TF

structure FieldOps (α : Type) where
  zero : α
  one : α
  add : α → α → α
  sub : α → α → α
  mul : α → α → α
  neg : α → α
  /-- multiplicative inverse; the Rust `inverse()` panics on zero — models must test `isZero` first where the code
      can reach that panic; `inv zero` is unspecified here -/
  inv : α → α
  isZero : α → Bool
  beq : α → α → Bool
  /-- `From<u64>` -/
  ofNat : Nat → α
  /-- `PrimitiveRootOfUnity::primitive_root_of_unity(n)` -/
  rootOfUnity : Nat → Option α

namespace FieldOps
variable {α : Type} (F : FieldOps α)

def div (a b : α) : α := F.mul a (F.inv b)

/-- `mod_pow_u32`-style square and multiply -/
def pow (a : α) : Nat → α
  | 0 => F.one
  | e+1 =>
    let h := pow a ((e+1) / 2)
    let s := F.mul h h
    if (e+1) % 2 = 1 then F.mul s a else s
decreasing_by omega

end FieldOps

open TF.Spec TF.Gen in
/-- the base field on canonical values `0 ≤ v < P` -/
def bfieldOps : FieldOps Nat where
  zero := 0
  one := 1
  add := fadd
  sub := fsub
  mul := fmul
  neg := fneg
  inv := finv
  isZero := fun a => a == 0
  beq := fun a b => a == b
  ofNat := fun n => n % P
  rootOfUnity := fun n => (PRIMITIVE_ROOTS.find? (fun e => e.1 == n)).map (·.2)

open TF.Spec TF.Gen in
/-- the cubic extension on triples of canonical values -/
def xfieldOps : FieldOps X3 where
  zero := xzero
  one := xone
  add := xadd
  sub := xsub
  mul := xmul
  neg := xneg
  inv := xinv
  isZero := fun a => a == xzero
  beq := fun a b => a == b
  ofNat := fun n => xlift (n % P)
  rootOfUnity := fun n => (PRIMITIVE_ROOTS.find? (fun e => e.1 == n)).map (fun e => xlift e.2)

end TF
