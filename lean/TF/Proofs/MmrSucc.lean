import TF.Proofs.MmrE
import TF.Model.MmrSucc
/-!
Part C of the MMR helper lemmas: the model of `MmrSuccessorProof::verify` (`TF/Model/MmrSucc.lean`) is total and
equals the reference verifier `succVerify` of `TF/Spec/MmrE.lean`; properties of the reference verifier.
-/
namespace TF.MmrE
open TF.Gen TF.Spec.MmrE


section C
open TF.Model.MmrE TF.Model.Mmr
variable {D : Type} [DecidableEq D] (H : D → D → D) (dflt : D)

/-- the inner loop never diverges on a positive Merkle tree index below `2^fuel` and consumes `⌊log2 m⌋` digests -/
theorem climb_total (paths : List D) : ∀ (k fuel m : Nat) (node : D) (ap : Nat),
    2 ^ k ≤ m → m < 2 ^ (k + 1) → k < fuel → ∃ d, climb H dflt paths fuel m node ap = some (d, ap + k) := by
  intro k
  induction k with
  | zero =>
    intro fuel m node ap h1 h2 hf
    have : m = 1 := by simp at h1 h2; omega
    subst this
    cases fuel with
    | zero => omega
    | succ f => exact ⟨node, by simp [climb]⟩
  | succ k ih =>
    intro fuel m node ap h1 h2 hf
    cases fuel with
    | zero => omega
    | succ f =>
      rw [Nat.pow_succ] at h1 h2
      have hm : m ≠ 1 := by have : 0 < 2 ^ k := Nat.pow_pos (by omega); omega
      obtain ⟨d, hd⟩ := ih f (m / 2) (if m % 2 = 0 then H node ((paths[ap]?).getD dflt) else H ((paths[ap]?).getD dflt) node)
        (ap + 1) (by omega) (by rw [Nat.pow_succ]; omega) (by omega)
      refine ⟨d, ?_⟩
      rw [climb]; simp only [hm, if_false]
      rw [hd]; congr 2; omega

/-- with enough digests left the inner loop is the reference fold over the next `k` digests -/
theorem climb_spec (paths : List D) : ∀ (k fuel m : Nat) (node : D) (ap : Nat),
    2 ^ k ≤ m → m < 2 ^ (k + 1) → k < fuel → ap + k ≤ paths.length →
    climb H dflt paths fuel m node ap = some (foldBlk H m node ((paths.drop ap).take k), ap + k) := by
  intro k
  induction k with
  | zero =>
    intro fuel m node ap h1 h2 hf _
    have : m = 1 := by simp at h1 h2; omega
    subst this
    cases fuel with
    | zero => omega
    | succ f => simp [climb, foldBlk]
  | succ k ih =>
    intro fuel m node ap h1 h2 hf hap
    cases fuel with
    | zero => omega
    | succ f =>
      rw [Nat.pow_succ] at h1 h2
      have hm : m ≠ 1 := by have : 0 < 2 ^ k := Nat.pow_pos (by omega); omega
      have hlt : ap < paths.length := by omega
      rw [climb]; simp only [hm, if_false]
      rw [ih f (m / 2) _ (ap + 1) (by omega) (by rw [Nat.pow_succ]; omega) (by omega) (by omega)]
      have hdrop : paths.drop ap = paths[ap] :: paths.drop (ap + 1) := List.drop_eq_getElem_cons hlt
      rw [hdrop, List.take_succ_cons, foldBlk, List.getElem?_eq_getElem hlt]
      simp only [Option.getD_some]
      congr 2; omega

/-- per-iteration facts of the loop of `verify` (`h = ⌊log2 rem⌋` the old peak's height, `h' = (locate nc run).1` the
    height of the new tree above it) -/
theorem iter_facts (nc rem run : Nat) (hnc : nc < 2 ^ 64) (hrem : rem ≠ 0)
    (hinv : ∃ t, rem < 2 ^ t ∧ 2 ^ t ∣ run) (hsum : run + rem ≤ nc) :
    run < nc ∧ Nat.log2 rem ≤ (locate nc run).1 ∧ (locate nc run).1 < 64 ∧
    leaf_index_to_mt_index_and_peak_index run nc
      = (2 ^ (locate nc run).1 + run % 2 ^ (locate nc run).1, (locate nc run).2.2) ∧
    (locate nc run).2.2 < TF.popCount nc ∧
    2 ^ ((locate nc run).1 - Nat.log2 rem)
      ≤ (2 ^ (locate nc run).1 + run % 2 ^ (locate nc run).1) / 2 ^ Nat.log2 rem ∧
    (2 ^ (locate nc run).1 + run % 2 ^ (locate nc run).1) / 2 ^ Nat.log2 rem
      < 2 ^ ((locate nc run).1 - Nat.log2 rem + 1) ∧
    ((2 ^ (locate nc run).1 + run % 2 ^ (locate nc run).1) / 2 ^ Nat.log2 rem) % 2 ^ ((locate nc run).1 - Nat.log2 rem)
      = (run / 2 ^ Nat.log2 rem) % 2 ^ ((locate nc run).1 - Nat.log2 rem) ∧
    (∃ t, rem - 2 ^ Nat.log2 rem < 2 ^ t ∧ 2 ^ t ∣ run + 2 ^ Nat.log2 rem) ∧
    run + 2 ^ Nat.log2 rem + (rem - 2 ^ Nat.log2 rem) ≤ nc := by
  generalize hh : Nat.log2 rem = h
  generalize hh' : (locate nc run).1 = h'
  have h1 : 2 ^ h ≤ rem := by rw [← hh]; exact two_pow_log2_le hrem
  have h2 : rem < 2 ^ h * 2 := by rw [← hh, ← Nat.pow_succ]; exact lt_two_pow_log2_succ rem
  have hpos : 0 < 2 ^ h := Nat.pow_pos (by omega)
  obtain ⟨t, ht1, ht2⟩ := hinv
  have hlt : run < nc := by
    have : 0 < rem := Nat.pos_of_ne_zero hrem
    omega
  have hht : h < t := by
    by_contra hc
    have : 2 ^ t ≤ 2 ^ h := Nat.pow_le_pow_right (by omega) (by omega)
    omega
  have hdvd : 2 ^ h ∣ run := Nat.dvd_trans (Nat.pow_dvd_pow 2 (by omega)) ht2
  have hge : h ≤ h' := by rw [← hh']; exact locate_height_ge h nc run hdvd (by omega)
  have h64 : h' < 64 := by rw [← hh']; exact height_lt_64 nc run hlt hnc
  have hgen := (gen_locate run nc hlt hnc).1
  rw [hh'] at hgen
  have hpk := locate_pk_lt nc run hlt
  have hsplit : 2 ^ h' = 2 ^ h * 2 ^ (h' - h) := by rw [← Nat.pow_add]; congr 1; omega
  have hq : (2 ^ h' + run % 2 ^ h') / 2 ^ h = 2 ^ (h' - h) + (run / 2 ^ h) % 2 ^ (h' - h) := by
    rw [hsplit, Nat.mul_add_div hpos, Nat.mod_mul_right_div_self]
  have hk : 0 < 2 ^ (h' - h) := Nat.pow_pos (by omega)
  have hmodlt : (run / 2 ^ h) % 2 ^ (h' - h) < 2 ^ (h' - h) := Nat.mod_lt _ hk
  refine ⟨hlt, hge, h64, ?_, hpk, ?_, ?_, ?_, ⟨h, ?_, ?_⟩, ?_⟩
  · rw [hgen, Nat.add_comm]
  · rw [hq]; omega
  · rw [hq, Nat.pow_succ]; omega
  · rw [hq, Nat.add_mod, Nat.mod_self, Nat.zero_add, Nat.mod_mod, Nat.mod_mod]
  · omega
  · exact Nat.dvd_add hdvd (Nat.dvd_refl _)
  · omega

/-- one loop iteration never panics; it consumes `h' − h` digests -/
theorem verifyStep_total (paths : List D) (nc : Nat) (np : List D) (hnc : nc < 2 ^ 64)
    (hnp : TF.popCount nc = np.length) (p : D) (rem run ap : Nat) (hrem : rem ≠ 0)
    (hinv : ∃ t, rem < 2 ^ t ∧ 2 ^ t ∣ run) (hsum : run + rem ≤ nc) :
    ∃ (d q : D), np[(locate nc run).2.2]? = some q ∧
      verifyStep H dflt paths nc np p rem run ap =
        if q ≠ d then some none
        else some (some (rem - 2 ^ Nat.log2 rem, run + 2 ^ Nat.log2 rem, ap + ((locate nc run).1 - Nat.log2 rem))) := by
  obtain ⟨hlt, hge, h64, hgen, hpk, hm1, hm2, _, _, _⟩ := iter_facts nc rem run hnc hrem hinv hsum
  obtain ⟨d, hd⟩ := climb_total H dflt paths _ descentFuel _ p ap hm1 hm2 (by simp [descentFuel]; omega)
  have hpk' : (locate nc run).2.2 < np.length := by omega
  refine ⟨d, np[(locate nc run).2.2], List.getElem?_eq_getElem hpk', ?_⟩
  unfold verifyStep
  generalize descentFuel = fuel at *
  simp only [hrem, if_false, hlt, decide_true, Bool.not_true, Bool.false_eq_true, hgen, hd,
    List.getElem?_eq_getElem hpk']

/-- with enough digests left, one loop iteration is one step of the reference verifier -/
theorem verifyStep_spec (paths : List D) (nc : Nat) (np : List D) (hnc : nc < 2 ^ 64)
    (hnp : TF.popCount nc = np.length) (p : D) (rem run ap : Nat) (hrem : rem ≠ 0)
    (hinv : ∃ t, rem < 2 ^ t ∧ 2 ^ t ∣ run) (hsum : run + rem ≤ nc)
    (hap : ap + ((locate nc run).1 - Nat.log2 rem) ≤ paths.length) :
    ∃ q : D, np[(locate nc run).2.2]? = some q ∧
      verifyStep H dflt paths nc np p rem run ap =
        if q ≠ foldBlk H (run / 2 ^ Nat.log2 rem) p ((paths.drop ap).take ((locate nc run).1 - Nat.log2 rem))
        then some none
        else some (some (rem - 2 ^ Nat.log2 rem, run + 2 ^ Nat.log2 rem, ap + ((locate nc run).1 - Nat.log2 rem))) := by
  obtain ⟨hlt, hge, h64, hgen, hpk, hm1, hm2, hmod, _, _⟩ := iter_facts nc rem run hnc hrem hinv hsum
  have hc := climb_spec H dflt paths _ descentFuel _ p ap hm1 hm2 (by simp [descentFuel]; omega) hap
  have hpk' : (locate nc run).2.2 < np.length := by omega
  have hl : (List.take ((locate nc run).1 - Nat.log2 rem) (List.drop ap paths)).length
      = (locate nc run).1 - Nat.log2 rem := by
    rw [List.length_take, List.length_drop]; omega
  have hfold : foldBlk H ((2 ^ (locate nc run).1 + run % 2 ^ (locate nc run).1) / 2 ^ Nat.log2 rem) p
        (List.take ((locate nc run).1 - Nat.log2 rem) (List.drop ap paths))
      = foldBlk H (run / 2 ^ Nat.log2 rem) p (List.take ((locate nc run).1 - Nat.log2 rem) (List.drop ap paths)) := by
    rw [foldBlk_mod H _ ((2 ^ (locate nc run).1 + run % 2 ^ (locate nc run).1) / 2 ^ Nat.log2 rem),
      foldBlk_mod H _ (run / 2 ^ Nat.log2 rem), hl, hmod]
  refine ⟨np[(locate nc run).2.2], List.getElem?_eq_getElem hpk', ?_⟩
  unfold verifyStep
  generalize descentFuel = fuel at *
  simp only [hrem, if_false, hlt, decide_true, Bool.not_true, Bool.false_eq_true, hgen, hc, hfold,
    List.getElem?_eq_getElem hpk']

theorem popCount_strip_len {rem : Nat} {p : D} {ps : List D} (hrem : rem ≠ 0)
    (hlen : TF.popCount rem = (p :: ps).length) : TF.popCount (rem - 2 ^ Nat.log2 rem) = ps.length := by
  have := popCount_strip hrem
  simp at hlen; omega

theorem verifyPeaks_over (paths : List D) (nc : Nat) (np : List D) (hnc : nc < 2 ^ 64)
    (hnp : TF.popCount nc = np.length) :
    ∀ (ops : List D) (rem run ap : Nat), TF.popCount rem = ops.length →
      (∃ t, rem < 2 ^ t ∧ 2 ^ t ∣ run) → run + rem ≤ nc → paths.length < ap →
      verifyPeaks H dflt paths nc np ops rem run ap = some false := by
  intro ops
  induction ops with
  | nil =>
    intro rem run ap _ _ _ hap
    simp only [verifyPeaks]
    congr 1; simp; omega
  | cons p ps ih =>
    intro rem run ap hlen hinv hsum hap
    have hrem : rem ≠ 0 := by
      intro h0; subst h0; simp [popCount_zero] at hlen
    obtain ⟨_, _, _, _, _, _, _, _, hinv', hsum'⟩ := iter_facts nc rem run hnc hrem hinv hsum
    obtain ⟨d, q, _, hstep⟩ := verifyStep_total H dflt paths nc np hnc hnp p rem run ap hrem hinv hsum
    rw [verifyPeaks, hstep]
    by_cases hne : q ≠ d
    · rw [if_pos hne]
    · rw [if_neg hne]
      exact ih _ _ _ (popCount_strip_len hrem hlen) hinv' hsum' (by omega)

theorem verifyPeaks_spec (paths : List D) (nc : Nat) (np : List D) (hnc : nc < 2 ^ 64)
    (hnp : TF.popCount nc = np.length) :
    ∀ (ops : List D) (rem run ap : Nat), TF.popCount rem = ops.length →
      (∃ t, rem < 2 ^ t ∧ 2 ^ t ∣ run) → run + rem ≤ nc → ap ≤ paths.length →
      verifyPeaks H dflt paths nc np ops rem run ap
        = some (succGo H nc np ops (stripTop rem run) (paths.drop ap)) := by
  intro ops
  induction ops with
  | nil =>
    intro rem run ap _ _ _ hap
    simp only [verifyPeaks, succGo]
    congr 1
    rw [Bool.eq_iff_iff, beq_iff_eq, List.isEmpty_iff, List.drop_eq_nil_iff]
    omega
  | cons p ps ih =>
    intro rem run ap hlen hinv hsum hap
    have hrem : rem ≠ 0 := by
      intro h0; subst h0; simp [popCount_zero] at hlen
    obtain ⟨_, hge, _, _, _, _, _, _, hinv', hsum'⟩ := iter_facts nc rem run hnc hrem hinv hsum
    have hlen' := popCount_strip_len hrem hlen
    rw [stripTop_pos rem run hrem, succGo, verifyPeaks]
    simp only [hge, decide_true, Bool.true_and]
    by_cases hk : (locate nc run).1 - Nat.log2 rem ≤ (paths.drop ap).length
    · have hk' : ap + ((locate nc run).1 - Nat.log2 rem) ≤ paths.length := by
        rw [List.length_drop] at hk; omega
      obtain ⟨q, hq, hstep⟩ := verifyStep_spec H dflt paths nc np hnc hnp p rem run ap hrem hinv hsum hk'
      rw [hstep, hq]
      simp only [hk, decide_true, Bool.true_and]
      by_cases hne : q ≠ foldBlk H (run / 2 ^ Nat.log2 rem) p
          (List.take ((locate nc run).1 - Nat.log2 rem) (List.drop ap paths))
      · rw [if_pos hne]; simp [hne]
      · have heq := not_not.mp hne
        rw [if_neg hne]
        simp only
        rw [ih _ _ _ hlen' hinv' hsum' hk', List.drop_drop, heq]
        simp
    · obtain ⟨d, q, hq, hstep⟩ := verifyStep_total H dflt paths nc np hnc hnp p rem run ap hrem hinv hsum
      rw [hstep]
      simp only [hk, decide_false, Bool.false_and]
      by_cases hne : q ≠ d
      · rw [if_pos hne]
      · rw [if_neg hne]
        exact verifyPeaks_over H dflt paths nc np hnc hnp _ _ _ _ hlen' hinv' hsum'
          (by rw [List.length_drop] at hk; omega)

/-- **`verify` is total and equals the reference verifier**, for all `u64` leaf counts and all peak lists that fit a
    `u32` length -/
theorem verify_eq_spec (paths : List D) (old new : Acc D) (hoc : old.count < 2 ^ 64) (hnc : new.count < 2 ^ 64)
    (hlen : new.peaks.length < 2 ^ 32) :
    verify H dflt paths old new = some (succVerify H paths old.count old.peaks new.count new.peaks) := by
  unfold verify succVerify
  by_cases h1 : old.count > new.count
  · have : ¬ old.count ≤ new.count := by omega
    simp [h1, this]
  · have hle : old.count ≤ new.count := by omega
    have hl : ¬ (new.peaks.length ≥ 2 ^ 32) := by omega
    simp only [h1, if_false, hl, hle, decide_true, Bool.true_and]
    by_cases h2 : TF.popCount new.count = new.peaks.length
    · by_cases h3 : TF.popCount old.count = old.peaks.length
      · simp only [h2, h3, ne_eq, not_true_eq_false, if_false, decide_true, Bool.true_and]
        rw [verifyPeaks_spec H dflt paths new.count new.peaks hnc h2 old.peaks old.count 0 0 h3
          ⟨64, hoc, Nat.dvd_zero _⟩ (by omega) (by omega), stripTop_eq_peakPos, List.drop_zero]
      · simp [h2, h3]
    · simp [h2]

/-! ### properties of the reference verifier -/

/-- acceptance by the reference walk = existence of a segmentation of the digests, one segment per old peak -/
theorem succGo_sound (nc : Nat) (np : List D) : ∀ (qs : List (Nat × Nat)) (ops rest : List D),
    ops.length = qs.length → succGo H nc np ops qs rest = true →
    ∃ segs : List (List D), segs.flatten = rest ∧ segs.length = ops.length ∧
      ∀ (i : Nat) (p : D) (q : Nat × Nat) (seg : List D), ops[i]? = some p → qs[i]? = some q → segs[i]? = some seg →
        q.1 ≤ (locate nc q.2).1 ∧ seg.length = (locate nc q.2).1 - q.1 ∧
        np[(locate nc q.2).2.2]? = some (foldBlk H (q.2 / 2 ^ q.1) p seg) := by
  intro qs
  induction qs with
  | nil =>
    intro ops rest hl h
    have : ops = [] := List.eq_nil_of_length_eq_zero (by simpa using hl)
    subst this
    simp only [succGo, List.isEmpty_iff] at h
    subst h
    exact ⟨[], rfl, rfl, by intro i p q seg h1; simp at h1⟩
  | cons q qs ih =>
    intro ops rest hl h
    match ops, hl with
    | p :: ps, hl =>
      obtain ⟨hq, sq⟩ := q
      simp only [succGo, Bool.and_eq_true, decide_eq_true_eq, beq_iff_eq] at h
      obtain ⟨⟨⟨h1, h2⟩, h3⟩, h4⟩ := h
      obtain ⟨segs, hs1, hs2, hs3⟩ := ih ps _ (by simpa using hl) h4
      refine ⟨rest.take ((locate nc sq).1 - hq) :: segs, ?_, by simp [hs2], ?_⟩
      · simp only [List.flatten_cons, hs1, List.take_append_drop]
      · intro i p' q' seg hp hq' hseg
        cases i with
        | zero =>
          simp only [List.getElem?_cons_zero, Option.some.injEq] at hp hq' hseg
          subst hp; subst hq'; subst hseg
          refine ⟨h1, ?_, h3⟩
          simp only
          rw [List.length_take]; omega
        | succ i =>
          simp only [List.getElem?_cons_succ] at hp hq' hseg
          exact hs3 i p' q' seg hp hq' hseg

theorem succGo_complete (nc : Nat) (np : List D) : ∀ (qs : List (Nat × Nat)) (ops : List D) (segs : List (List D)),
    ops.length = qs.length → segs.length = ops.length →
    (∀ (i : Nat) (p : D) (q : Nat × Nat) (seg : List D), ops[i]? = some p → qs[i]? = some q → segs[i]? = some seg →
        q.1 ≤ (locate nc q.2).1 ∧ seg.length = (locate nc q.2).1 - q.1 ∧
        np[(locate nc q.2).2.2]? = some (foldBlk H (q.2 / 2 ^ q.1) p seg)) →
    succGo H nc np ops qs segs.flatten = true := by
  intro qs
  induction qs with
  | nil =>
    intro ops segs hl hs _
    have : ops = [] := List.eq_nil_of_length_eq_zero (by simpa using hl)
    subst this
    have : segs = [] := List.eq_nil_of_length_eq_zero (by simpa using hs)
    subst this
    simp [succGo]
  | cons q qs ih =>
    intro ops segs hl hs hall
    match ops, hl, segs, hs with
    | p :: ps, hl, seg :: segs, hs =>
      obtain ⟨hq, sq⟩ := q
      obtain ⟨h1, h2, h3⟩ := hall 0 p (hq, sq) seg rfl rfl rfl
      simp only at h1 h2 h3
      have hih := ih ps segs (by simpa using hl) (by simpa using hs)
        (fun i p' q' seg' a b c => hall (i + 1) p' q' seg' (by simpa using a) (by simpa using b) (by simpa using c))
      simp only [succGo, List.flatten_cons, Bool.and_eq_true, decide_eq_true_eq, beq_iff_eq]
      rw [← h2, List.take_left', List.drop_left']
      · exact ⟨⟨⟨h1, by simp⟩, h3⟩, hih⟩
      · rfl
      · rfl

/-- the walk only looks at the new peaks above the old peaks -/
theorem succGo_congr_np (nc : Nat) (np np' : List D) : ∀ (qs : List (Nat × Nat)) (ops rest : List D),
    (∀ q ∈ qs, np[(locate nc q.2).2.2]? = np'[(locate nc q.2).2.2]?) →
    succGo H nc np ops qs rest = succGo H nc np' ops qs rest := by
  intro qs
  induction qs with
  | nil => intro ops rest _; cases ops <;> simp [succGo]
  | cons q qs ih =>
    intro ops rest hall
    cases ops with
    | nil => simp [succGo]
    | cons p ps =>
      obtain ⟨hq, sq⟩ := q
      have h0 := hall (hq, sq) (by simp)
      simp only at h0
      simp only [succGo, h0]
      rw [ih ps _ (fun q hq => hall q (by simp [hq]))]

/-- two accepted walks of the same old peaks and digests see the same new peaks above the old peaks -/
theorem succGo_np_agree (nc : Nat) (np np' : List D) : ∀ (qs : List (Nat × Nat)) (ops rest : List D),
    ops.length = qs.length → succGo H nc np ops qs rest = true → succGo H nc np' ops qs rest = true →
    ∀ q ∈ qs, np'[(locate nc q.2).2.2]? = np[(locate nc q.2).2.2]? := by
  intro qs
  induction qs with
  | nil => intro _ _ _ _ _ q hq; simp at hq
  | cons q0 qs ih =>
    intro ops rest hl h h' q hq
    match ops, hl with
    | p :: ps, hl =>
      obtain ⟨hq0, sq0⟩ := q0
      simp only [succGo, Bool.and_eq_true, decide_eq_true_eq, beq_iff_eq] at h h'
      obtain ⟨⟨_, h3⟩, h4⟩ := h
      obtain ⟨⟨_, h3'⟩, h4'⟩ := h'
      rcases List.mem_cons.mp hq with rfl | hq
      · simp only; rw [h3, h3']
      · exact ih ps _ (by simpa using hl) h4 h4' q hq

/-- two accepted walks over the same positions and new peaks agree in the old peaks and in every digest, or exhibit a
    collision -/
theorem succGo_inj (nc : Nat) (np : List D) : ∀ (qs : List (Nat × Nat)) (ops ops' rest rest' : List D),
    ops.length = qs.length → ops'.length = qs.length →
    succGo H nc np ops qs rest = true → succGo H nc np ops' qs rest' = true →
    (ops = ops' ∧ rest = rest') ∨ Collision H := by
  intro qs
  induction qs with
  | nil =>
    intro ops ops' rest rest' hl hl' h h'
    have e1 : ops = [] := List.eq_nil_of_length_eq_zero (by simpa using hl)
    have e2 : ops' = [] := List.eq_nil_of_length_eq_zero (by simpa using hl')
    subst e1; subst e2
    simp only [succGo, List.isEmpty_iff] at h h'
    exact Or.inl ⟨rfl, by rw [h, h']⟩
  | cons q qs ih =>
    intro ops ops' rest rest' hl hl' h h'
    match ops, hl, ops', hl' with
    | p :: ps, hl, p' :: ps', hl' =>
      obtain ⟨hq, sq⟩ := q
      simp only [succGo, Bool.and_eq_true, decide_eq_true_eq, beq_iff_eq] at h h'
      obtain ⟨⟨⟨h1, h2⟩, h3⟩, h4⟩ := h
      obtain ⟨⟨⟨_, h2'⟩, h3'⟩, h4'⟩ := h'
      rw [h3] at h3'
      have hf := Option.some.inj h3'
      rcases foldBlk_inj H _ _ _ _ _ (by rw [List.length_take, List.length_take]; omega) hf with ⟨hp, ht⟩ | hc
      · rcases ih ps ps' _ _ (by simpa using hl) (by simpa using hl') h4 h4' with ⟨hps, hd⟩ | hc
        · refine Or.inl ⟨by rw [hp, hps], ?_⟩
          rw [← List.take_append_drop ((locate nc sq).1 - hq) rest,
            ← List.take_append_drop ((locate nc sq).1 - hq) rest', ht, hd]
        · exact Or.inr hc
      · exact Or.inr hc

/-- semantic soundness of the walk: against honest new peaks, the old peaks are the honest block roots and the
    digests are the honest sibling digests, or a collision is at hand -/
theorem succGo_honest (g : Nat → D) (nc : Nat) : ∀ (qs : List (Nat × Nat)) (ops rest : List D),
    ops.length = qs.length → (∀ q ∈ qs, q.2 < nc) →
    succGo H nc (peaks H nc g) ops qs rest = true →
    (ops = qs.map (fun q => sub H g q.1 (q.2 / 2 ^ q.1)) ∧
      rest = (qs.map (fun q => sibPath H g q.1 ((locate nc q.2).1 - q.1) (q.2 / 2 ^ q.1))).flatten) ∨ Collision H := by
  intro qs
  induction qs with
  | nil =>
    intro ops rest hl _ h
    have e1 : ops = [] := List.eq_nil_of_length_eq_zero (by simpa using hl)
    subst e1
    simp only [succGo, List.isEmpty_iff] at h
    exact Or.inl ⟨rfl, by simp [h]⟩
  | cons q qs ih =>
    intro ops rest hl hin h
    match ops, hl with
    | p :: ps, hl =>
      obtain ⟨hq, sq⟩ := q
      have hlt : sq < nc := hin (hq, sq) (by simp)
      simp only [succGo, Bool.and_eq_true, decide_eq_true_eq, beq_iff_eq] at h
      obtain ⟨⟨⟨h1, h2⟩, h3⟩, h4⟩ := h
      rw [peaks_getElem_locate H nc g sq hlt] at h3
      have hf := (Option.some.inj h3).symm
      have hlen : (List.take ((locate nc sq).1 - hq) rest).length = (locate nc sq).1 - hq := by
        rw [List.length_take]; omega
      have hf' : foldBlk H (sq / 2 ^ hq) p (List.take ((locate nc sq).1 - hq) rest)
          = sub H g (hq + (List.take ((locate nc sq).1 - hq) rest).length)
              (sq / 2 ^ hq / 2 ^ (List.take ((locate nc sq).1 - hq) rest).length) := by
        have e : hq + ((locate nc sq).1 - hq) = (locate nc sq).1 := by omega
        rw [hf, hlen, Nat.div_div_eq_div_mul, ← Nat.pow_add, e]
      rcases foldBlk_sound H g _ hq (sq / 2 ^ hq) p hf' with ⟨hp, ht⟩ | hc
      · rcases ih ps _ (by simpa using hl) (fun q hq => hin q (by simp [hq])) h4 with ⟨hps, hd⟩ | hc
        · refine Or.inl ⟨by simp only [List.map_cons, hp, hps], ?_⟩
          rw [← List.take_append_drop ((locate nc sq).1 - hq) rest, hd, ht, hlen]
          simp only [List.map_cons, List.flatten_cons]
        · exact Or.inr hc
      · exact Or.inr hc

/-- completeness of the walk on the honest data -/
theorem succGo_honest_complete (g : Nat → D) (nc : Nat) : ∀ (qs : List (Nat × Nat)),
    (∀ q ∈ qs, 2 ^ q.1 ∣ q.2 ∧ q.2 + 2 ^ q.1 ≤ nc) →
    succGo H nc (peaks H nc g) (qs.map (fun q => sub H g q.1 (q.2 / 2 ^ q.1))) qs
      (qs.map (fun q => sibPath H g q.1 ((locate nc q.2).1 - q.1) (q.2 / 2 ^ q.1))).flatten = true := by
  intro qs
  induction qs with
  | nil => intro _; simp [succGo]
  | cons q qs ih =>
    intro hin
    obtain ⟨hq, sq⟩ := q
    obtain ⟨hd, hle⟩ := hin (hq, sq) (by simp)
    simp only at hd hle
    have hpos : 0 < 2 ^ hq := Nat.pow_pos (by omega)
    have hlt : sq < nc := by omega
    have hge := locate_height_ge hq nc sq hd hle
    have hih := ih (fun q hq => hin q (by simp [hq]))
    simp only [List.map_cons, List.flatten_cons, succGo, Bool.and_eq_true, decide_eq_true_eq, beq_iff_eq]
    have hl := sibPath_length H g ((locate nc sq).1 - hq) hq (sq / 2 ^ hq)
    have e : hq + ((locate nc sq).1 - hq) = (locate nc sq).1 := by omega
    rw [List.take_left' hl, List.drop_left' hl]
    refine ⟨⟨⟨hge, by rw [List.length_append, hl]; omega⟩, ?_⟩, hih⟩
    rw [peaks_getElem_locate H nc g sq hlt, foldBlk_sibPath, Nat.div_div_eq_div_mul, ← Nat.pow_add, e]

end C

end TF.MmrE
