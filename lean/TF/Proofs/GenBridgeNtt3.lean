import TF.Proofs.GenBridgeNtt2
/-!
# Bridge, part 3: the wrappers `ntt` / `intt`, `unscale` and `ntt_noswap` of `math/ntt.rs` as regenerated from source (C06)

* `mapLoop`: the desugared `for e in x.iter_mut() { *e *= c }` loops = `List.map`;
* `gen_unscale_eq`, `gen_ntt_eq`, `gen_intt_eq`: length check (`u32::try_from`), the `assert!` on the length, `checked_ilog2`,
  the root look-up, the call of the regenerated `ntt_unchecked` (bridged in part 2) and the scaling loop = the model, for
  **every** vector (the rejected lengths panic on both sides);
* `gen_ntt_noswap_eq`: the `logn` loop, the table of bit-reversed powers, the `while m < n` loop over the stages with the
  `enumerate().take(m)` block loop and the in-place butterflies = the model's `powersBitrev` / `noswapLoop` / `stageNoswap`.
Core Lean only.
-/
namespace TF.GenBridge.Ntt
open TF TF.Gen TF.Model.Ntt

variable {σ α : Type}

/-! ### in-place map loops -/

/-- `for i in i₀..i₀+n { l[i] = f(l[i]) }` -/
def mapLoop {β : Type} (f : β → β) (z : β) : Nat → Nat → List β → List β
  | 0, _, l => l
  | n+1, i, l => mapLoop f z n (i + 1) (l.set i (f (l.getD i z)))

theorem mapLoop_spec {β : Type} (f : β → β) (z : β) : ∀ n i (l : List β), i + n ≤ l.length →
    (mapLoop f z n i l).length = l.length ∧
    ∀ idx, (mapLoop f z n i l)[idx]? = if i ≤ idx ∧ idx < i + n then l[idx]?.map f else l[idx]? := by
  intro n
  induction n with
  | zero =>
    intro i l _
    refine ⟨rfl, fun idx => ?_⟩
    rw [if_neg (by omega)]; rfl
  | succ n ih =>
    intro i l h
    obtain ⟨il, ip⟩ := ih (i + 1) (l.set i (f (l.getD i z))) (by simp only [List.length_set]; omega)
    refine ⟨by rw [mapLoop, il, List.length_set], fun idx => ?_⟩
    rw [mapLoop, ip idx, List.getElem?_set]
    have hi : i < l.length := by omega
    by_cases e : i = idx
    · subst e
      rw [if_neg (by omega), if_pos rfl, if_pos hi, if_pos (by omega), List.getD_eq_getElem?_getD,
        List.getElem?_eq_getElem hi]
      rfl
    · rw [if_neg e]
      by_cases c : i + 1 ≤ idx ∧ idx < i + 1 + n
      · rw [if_pos c, if_pos (by omega)]
      · rw [if_neg c, if_neg (by omega)]

theorem mapLoop_all {β : Type} (f : β → β) (z : β) (l : List β) : mapLoop f z l.length 0 l = l.map f := by
  obtain ⟨hl, hp⟩ := mapLoop_spec f z l.length 0 l (by omega)
  apply List.ext_getElem?
  intro idx
  rw [hp idx, List.getElem?_map]
  by_cases c : idx < l.length
  · rw [if_pos (by omega)]
  · rw [if_neg (by omega), List.getElem?_eq_none (by omega)]; rfl

/-! ### `unscale` -/

theorem unscale_for_eq (ops : Ops σ σ) (ninv : σ) : ∀ n i (l : List σ), i + n ≤ l.length →
    Loops.ntt_unscale_for ops ninv n i l = mapLoop (fun a => ops.smul a ninv) ops.szero n i l ∧
    Loops.ntt_unscale_for_ok ops ninv n i l = true := by
  intro n
  induction n with
  | zero => intros; exact ⟨rfl, rfl⟩
  | succ n ih =>
    intro i l h
    obtain ⟨e, ok⟩ := ih (i + 1) (l.set i (ops.smul (l.getD i ops.szero) ninv)) (by simp only [List.length_set]; omega)
    have hi : i < l.length := by omega
    exact ⟨by simp only [Loops.ntt_unscale_for, mapLoop, e],
      by simp only [Loops.ntt_unscale_for_ok, hi, decide_true, Bool.and_self, ok]⟩

/-- **`unscale` regenerated from source = the model** for every array of `BFieldElement`s (`σ = α`): `*a *= ninv` is the
    multiplication of the scalar type, which the model writes as `scale ninv a` — they agree when multiplication
    commutes (`hc`; for the executable base-field instance `bOps` this is commutativity of `fmul`); the panic
    (`inverse` of zero for the empty array) is the same -/
theorem gen_unscale_eq (ops : Ops σ σ) (hc : ∀ a w, ops.smul a w = ops.scale w a) (a : Array σ) :
    (if Loops.ntt_unscale_ok ops a.toList then some (Loops.ntt_unscale ops a.toList) else none)
      = (unscale ops a).map Array.toList := by
  have hlen : a.toList.length = a.size := by simp
  cases hi : ops.sinv (ops.sofNat a.size) with
  | none => simp only [Loops.ntt_unscale_ok, unscale, hlen, hi, Option.isSome_none, Bool.false_and, Bool.false_eq_true,
      if_false, Option.map_none]
  | some ninv =>
    obtain ⟨e, ok⟩ := unscale_for_eq ops ninv a.toList.length 0 a.toList (by omega)
    rw [mapLoop_all] at e
    have hf : (fun a => ops.smul a ninv) = ops.scale ninv := funext fun a => hc a ninv
    rw [hlen] at e ok
    simp only [Loops.ntt_unscale_ok, Loops.ntt_unscale, unscale, hlen, hi, Option.isSome_some, Option.getD_some,
      Nat.sub_zero, e, ok, Bool.and_self, if_true, Option.map_some, hf, Array.toList_map]

/-! ### `ntt` and `intt` -/

theorem isPow2_two_pow' (k : Nat) : TF.isPow2 (2^k) = true := by
  have hpos : 0 < 2^k := Nat.two_pow_pos k
  have h : 2^k &&& (2^k - 1) = 0 := by
    apply Nat.eq_of_testBit_eq
    intro i
    rw [Nat.testBit_and, Nat.testBit_two_pow, Nat.testBit_two_pow_sub_one, Nat.zero_testBit]
    by_cases e : k = i
    · subst e; simp
    · simp [e]
  simp only [TF.isPow2, h, bne_iff_ne, ne_eq, Bool.and_eq_true, beq_self_eq_true, and_true]
  omega

theorem pow2_of_isPow2 (n : Nat) (h : TF.isPow2 n = true) : ∃ k, n = 2^k := by
  simp only [TF.isPow2, Bool.and_eq_true, bne_iff_ne, ne_eq, beq_iff_eq] at h
  obtain ⟨hn, ha⟩ := h
  -- the highest set bit is the only one
  refine ⟨Nat.log2 n, ?_⟩
  have hlt : n < 2^(Nat.log2 n + 1) := Nat.lt_log2_self
  have hge : 2^(Nat.log2 n) ≤ n := Nat.log2_self_le hn
  rcases Nat.lt_or_ge (2^(Nat.log2 n)) n with hgt | hle
  · exfalso
    -- n and n-1 both have bit `log2 n` set
    have b1 : n.testBit (Nat.log2 n) = true := by
      rw [Nat.testBit_eq_decide_div_mod_eq]  -- (n / 2^k) % 2 = 1
      have : n / 2^(Nat.log2 n) = 1 := by
        apply Nat.div_eq_of_lt_le
        · rw [Nat.one_mul]; exact hge
        · rw [Nat.pow_succ] at hlt; omega
      simp [this]
    have b2 : (n - 1).testBit (Nat.log2 n) = true := by
      rw [Nat.testBit_eq_decide_div_mod_eq]
      have : (n - 1) / 2^(Nat.log2 n) = 1 := by
        apply Nat.div_eq_of_lt_le
        · rw [Nat.one_mul]; omega
        · rw [Nat.pow_succ] at hlt; omega
      simp [this]
    have : (n &&& (n - 1)).testBit (Nat.log2 n) = true := by rw [Nat.testBit_and, b1, b2]; rfl
    rw [ha, Nat.zero_testBit] at this
    cases this
  · omega

theorem pow_lt_pow_iff_32 (k : Nat) (h : 2^k < 4294967296) : k ≤ 31 := by
  rcases Nat.lt_or_ge k 32 with h1 | h1
  · omega
  · have : (2:Nat)^32 ≤ 2^k := Nat.pow_le_pow_right (by omega) h1
    rw [two_pow_32] at this; omega

theorem stagesLoop_size' (ops : Ops σ α) (omega : σ) (n : Nat) : ∀ f m (x : Array α),
    (stagesLoop ops omega n f m x).size = x.size := by
  intro f
  induction f with
  | zero => intro m x; rfl
  | succ f ih => intro m x; rw [stagesLoop, ih]; simp [stage]

theorem nttUnchecked_size (ops : Ops σ α) (x y : Array α) (omega : σ) (log : Nat)
    (h : nttUnchecked ops x omega log = some y) : y.size = x.size := by
  simp only [nttUnchecked, bitrevPermute, Option.map_eq_some_iff] at h
  obtain ⟨z, hz, rfl⟩ := h
  rw [stagesLoop_size', swapLoop_size log _ _ _ _ hz]

theorem run_eq_some {β : Type} {o : Option β} {c : Bool} {v : β}
    (h : o.bind (fun r => if c = true then some r else none) = some v) : o = some v ∧ c = true := by
  cases o with
  | none => cases h
  | some r =>
    cases c
    · cases h
    · simp only [Option.bind_some, if_true, Option.some.injEq] at h; exact ⟨by rw [h], rfl⟩

theorem run_eq_none {β : Type} {o : Option β} {c : Bool}
    (h : o.bind (fun r => if c = true then some r else none) = none) (ho : o.isSome = true) : c = false := by
  cases o with
  | none => cases ho
  | some r =>
    cases c
    · rfl
    · cases h

/-- `ntt_unchecked` on the lengths the wrappers admit (`0` with `log = 0`, or `2^k` with `k ≤ 31`) -/
theorem gen_ntt_unchecked_wrapped (ops : Ops σ α) (x : Array α) (omega : σ)
    (hx : x.size = 0 ∨ ∃ k, k ≤ 31 ∧ x.size = 2^k) :
    (Loops.ntt_unchecked ops x.toList omega (if x.size == 0 then 0 else Nat.log2 x.size)).bind
        (fun r => if Loops.ntt_unchecked_ok ops x.toList omega (if x.size == 0 then 0 else Nat.log2 x.size) then some r
          else none)
      = (nttUnchecked ops x omega (if x.size == 0 then 0 else Nat.log2 x.size)).map Array.toList := by
  rcases hx with h0 | ⟨k, hk, hx⟩
  · have : x = #[] := Array.eq_empty_of_size_eq_zero h0
    subst this
    rfl
  · have hne : (x.size == 0) = false := by
      rw [hx]; have := Nat.two_pow_pos k; simp
    rw [hne]
    simp only [Bool.false_eq_true, if_false, hx, Nat.log2_two_pow]
    exact gen_ntt_unchecked_eq ops x omega k hk hx

/-- the admissible lengths, from the two checks of the wrappers -/
theorem wrapper_len (n : Nat) (h1 : n < 4294967296) (h2 : (n == 0 || TF.isPow2 n) = true) :
    n = 0 ∨ ∃ k, k ≤ 31 ∧ n = 2^k := by
  rcases Bool.or_eq_true _ _ |>.mp h2 with h | h
  · left; simpa using h
  · right
    obtain ⟨k, rfl⟩ := pow2_of_isPow2 n h
    exact ⟨k, pow_lt_pow_iff_32 k h1, rfl⟩

/-- **`ntt` regenerated from source = the model, for every vector**: `u32::try_from(len)`, the `assert!` on the length,
    `checked_ilog2().unwrap_or(0)`, `primitive_root_of_unity(len).unwrap()`, then the regenerated `ntt_unchecked` -/
theorem gen_ntt_eq (ops : Ops σ α) (root : Nat → Option σ) (x : Array α) :
    (Loops.ntt_ntt ops root x.toList).bind (fun r => if Loops.ntt_ntt_ok ops root x.toList then some r else none)
      = (ntt ops root x).map Array.toList := by
  have hlen : x.toList.length = x.size := by simp
  simp only [Loops.ntt_ntt, Loops.ntt_ntt_ok, ntt, hlen]
  by_cases h1 : x.size < 4294967296
  · have h1' : ¬ (2^32 ≤ x.size) := by rw [two_pow_32]; omega
    rw [if_neg h1']
    cases h2 : (x.size == 0 || TF.isPow2 x.size) with
    | false =>
      simp only [Bool.false_and, Bool.and_false, Bool.false_eq_true, if_false, bind_none_fun, Bool.not_false, if_true,
        Option.map_none]
    | true =>
      have hadm := wrapper_len x.size h1 h2
      cases hr : root x.size with
      | none =>
        simp only [Option.isSome_none, Bool.false_and, Bool.and_false, Bool.false_eq_true, if_false, bind_none_fun,
          Bool.not_true, Option.map_none]
      | some w =>
        have hb := gen_ntt_unchecked_wrapped ops x w hadm
        simp only [h1, decide_true, Bool.true_and, Option.isSome_some, Option.getD_some, Bool.not_true,
          Bool.false_eq_true, if_false]
        rw [← hb]
        cases Loops.ntt_unchecked ops x.toList w (if (x.size == 0) = true then 0 else x.size.log2) <;> rfl
  · have h1' : 2^32 ≤ x.size := by rw [two_pow_32]; omega
    rw [if_pos h1']
    simp only [h1, decide_false, Bool.false_and, Bool.false_eq_true, if_false, bind_none_fun, Option.map_none]

theorem intt_for_eq (ops : Ops σ α) (root : Nat → Option σ) (c : σ) : ∀ n i (l : List α), i + n ≤ l.length →
    Loops.ntt_intt_for ops root c n i l = mapLoop (ops.scale c) ops.zero n i l ∧
    Loops.ntt_intt_for_ok ops root c n i l = true := by
  intro n
  induction n with
  | zero => intros; exact ⟨rfl, rfl⟩
  | succ n ih =>
    intro i l h
    obtain ⟨e, ok⟩ := ih (i + 1) (l.set i (ops.scale c (l.getD i ops.zero))) (by simp only [List.length_set]; omega)
    have hi : i < l.length := by omega
    exact ⟨by simp only [Loops.ntt_intt_for, mapLoop, e],
      by simp only [Loops.ntt_intt_for_ok, hi, decide_true, Bool.and_self, ok]⟩

/-- **`intt` regenerated from source = the model, for every vector**: the checks of `ntt`, `omega.inverse()`, the
    regenerated `ntt_unchecked`, then `*elem *= BFieldElement::from(len).inverse_or_zero()` for every element -/
theorem gen_intt_eq (ops : Ops σ α) (root : Nat → Option σ) (x : Array α) :
    (Loops.ntt_intt ops root x.toList).bind (fun r => if Loops.ntt_intt_ok ops root x.toList then some r else none)
      = (intt ops root x).map Array.toList := by
  have hlen : x.toList.length = x.size := by simp
  simp only [Loops.ntt_intt, Loops.ntt_intt_ok, intt, hlen]
  by_cases h1 : x.size < 4294967296
  · have h1' : ¬ (2^32 ≤ x.size) := by rw [two_pow_32]; omega
    rw [if_neg h1']
    cases h2 : (x.size == 0 || TF.isPow2 x.size) with
    | false =>
      simp only [Bool.false_and, Bool.and_false, Bool.false_eq_true, if_false, bind_none_fun, Bool.not_false, if_true,
        Option.map_none]
    | true =>
      have hadm := wrapper_len x.size h1 h2
      cases hr : root x.size with
      | none =>
        simp only [Option.isSome_none, Bool.false_and, Bool.and_false, Bool.false_eq_true, if_false, bind_none_fun,
          Bool.not_true, Option.map_none]
      | some w =>
        cases hi : ops.sinv w with
        | none =>
          simp only [Option.isSome_some, Option.getD_some, hi, Option.isSome_none, Bool.false_and, Bool.and_false,
            Bool.false_eq_true, if_false, bind_none_fun, Bool.not_true, Option.map_none]
        | some wi =>
          have hb := gen_ntt_unchecked_wrapped ops x wi hadm
          simp only [h1, hi, decide_true, Bool.true_and, Option.isSome_some, Option.getD_some, Bool.not_true,
            Bool.false_eq_true, if_false, Nat.sub_zero]
          generalize (if (x.size == 0) = true then 0 else x.size.log2) = lg at hb ⊢
          cases hm : nttUnchecked ops x wi lg with
          | none =>
            rw [hm] at hb
            cases hg : Loops.ntt_unchecked ops x.toList wi lg with
            | none => rfl
            | some r =>
              have hf := run_eq_none hb (by rw [hg]; rfl)
              simp only [hf, Bool.false_and, Bool.false_eq_true, if_false, Option.bind_some, Option.map_none]
          | some y =>
            rw [hm] at hb
            obtain ⟨hg, hok⟩ := run_eq_some hb
            have hys : y.toList.length = x.size := by
              rw [Array.length_toList]; exact nttUnchecked_size ops x y wi lg hm
            obtain ⟨e, ok⟩ := intt_for_eq ops root (ops.sinv0 (ops.sofNat x.size)) y.toList.length 0 y.toList (by omega)
            rw [mapLoop_all] at e
            rw [hys] at e ok
            simp only [hg, hok, Option.bind_some, Option.elim_some, hys, e, ok, Bool.and_self, if_true, Option.map_some,
              Array.toList_map]
  · have h1' : 2^32 ≤ x.size := by rw [two_pow_32]; omega
    rw [if_pos h1']
    simp only [h1, decide_false, Bool.false_and, Bool.false_eq_true, if_false, bind_none_fun, Option.map_none]

/-! ### `ntt_noswap`: constant-twiddle block passes -/

/-- the same operations with a twiddle update that does nothing: `refBlock` over it is the butterfly pass of `ntt_noswap`
    (one `zeta` per block) -/
def constOps (ops : Ops σ α) : Ops σ α := { ops with smul := fun w _ => w }

theorem wp_const (ops : Ops σ α) (w_m : σ) : ∀ t w, wp (constOps ops) w_m w t = w := by
  intro t
  induction t with
  | zero => intro w; rfl
  | succ t ih => intro w; rw [wp, ih]; rfl

theorem noswap_for5_eq (ops : Ops σ α) (root : Nat → Option σ) (t : Nat) (zeta : σ) (s : Nat) : ∀ n j (x : List α),
    s + j + n + t ≤ x.length → x.length < 18446744073709551616 →
    Loops.ntt_noswap_for5 ops root t zeta n (s + j) x = (refBlock (constOps ops) t zeta s n j x zeta).1 ∧
    Loops.ntt_noswap_for5_ok ops root t zeta n (s + j) x = true := by
  intro n
  induction n with
  | zero => intros; exact ⟨rfl, rfl⟩
  | succ n ih =>
    intro j x hlen hU
    have h2 : (s + j + t) % 18446744073709551616 = s + j + t := Nat.mod_eq_of_lt (by omega)
    have h4 : s + j + t < 18446744073709551616 := by omega
    have h5 : s + j < x.length := by omega
    have h6 : s + j + t < x.length := by omega
    obtain ⟨e, ok⟩ := ih (j + 1) ((x.set (s + j) (ops.add (x.getD (s + j) ops.zero) (ops.scale zeta (x.getD (s + j + t) ops.zero)))).set
      (s + j + t) (ops.sub (x.getD (s + j) ops.zero) (ops.scale zeta (x.getD (s + j + t) ops.zero))))
      (by simp only [List.length_set]; omega) (by simp only [List.length_set]; omega)
    rw [← Nat.add_assoc] at e ok
    constructor
    · simp only [Loops.ntt_noswap_for5, h2, e]; rfl
    · simp only [Loops.ntt_noswap_for5_ok, h2, h4, h5, h6, List.length_set, decide_true, Bool.and_self, ok]

/-- the pointwise formula of one stage of `ntt_noswap` on lists -/
def nsAt (ops : Ops σ α) (t : Nat) (zetas : List σ) (x : List α) (idx : Nat) : α :=
  if idx % (2*t) < t then
    ops.add (x.getD idx ops.zero) (ops.scale (zetas.getD (idx / (2*t)) ops.szero) (x.getD (idx + t) ops.zero))
  else
    ops.sub (x.getD (idx - t) ops.zero) (ops.scale (zetas.getD (idx / (2*t)) ops.szero) (x.getD idx ops.zero))

theorem stageNoswap_toList (ops : Ops σ α) (t : Nat) (zetas : Array σ) (a : Array α) :
    (stageNoswap ops t zetas a).size = a.size ∧
    ∀ idx, idx < a.size → (stageNoswap ops t zetas a).toList[idx]? = some (nsAt ops t zetas.toList a.toList idx) := by
  constructor
  · simp [stageNoswap]
  · intro idx hi
    simp only [Array.getElem?_toList, stageNoswap, Array.getElem?_ofFn, hi, dite_true, nsAt, Array.getD_eq_getD_getElem?,
      List.getD_eq_getElem?_getD]

def NsInv (ops : Ops σ α) (t : Nat) (zetas : List σ) (x y : List α) (b : Nat) : Prop :=
  y.length = x.length ∧ ∀ idx, y[idx]? = if idx < b*(2*t) then some (nsAt ops t zetas x idx) else x[idx]?

theorem blk_div (b t r : Nat) (ht : 0 < t) (hr : r < 2*t) : (b*(2*t) + r) / (2*t) = b := by
  rw [Nat.add_comm, Nat.add_mul_div_right _ _ (by omega), Nat.div_eq_of_lt hr, Nat.zero_add]

theorem nsInv_step (ops : Ops σ α) (t : Nat) (ht : 0 < t) (zetas : List σ) (w_m : σ) (x y : List α) (b : Nat)
    (inv : NsInv ops t zetas x y b) (hk : b*(2*t) + 2*t ≤ x.length) :
    NsInv ops t zetas x (refBlock (constOps ops) t w_m (b*(2*t)) t 0 y (zetas.getD b ops.szero)).1 (b+1) := by
  obtain ⟨hl, hy⟩ := inv
  obtain ⟨rl, _, rp⟩ := refBlock_spec (constOps ops) t w_m (b*(2*t)) t 0 y (zetas.getD b ops.szero) (by omega) (by omega)
  refine ⟨by rw [rl, hl], fun idx => ?_⟩
  rw [rp idx]
  simp only [wp_const]
  have hk1 : (b+1)*(2*t) = b*(2*t) + 2*t := by rw [Nat.add_mul]; omega
  generalize hkk : b*(2*t) = k at *
  simp only [Nat.add_zero]
  by_cases c0 : idx < k
  · have c1 : ¬ (k ≤ idx ∧ idx < k + t) := by omega
    have c2 : ¬ (k + t ≤ idx ∧ idx < k + t + t) := by omega
    rw [if_neg c1, if_neg c2, hy idx, if_pos c0, if_pos (by omega)]
  · by_cases c1 : k ≤ idx ∧ idx < k + t
    · obtain ⟨r, rfl⟩ := Nat.exists_eq_add_of_le c1.1
      have hr : r < t := by omega
      have e1 : y.getD (k + r) ops.zero = x.getD (k + r) ops.zero :=
        getD_of_getElem?_eq (by rw [hy, if_neg (by omega)]) _
      have e2 : y.getD (k + r + t) ops.zero = x.getD (k + r + t) ops.zero :=
        getD_of_getElem?_eq (by rw [hy, if_neg (by omega)]) _
      have m1 : (k + r) % (2*t) = r := by rw [← hkk]; exact blk_mod2 b t r (by omega)
      have d1 : (k + r) / (2*t) = b := by rw [← hkk]; exact blk_div b t r ht (by omega)
      rw [if_pos c1, if_pos (by omega)]
      show some ((constOps ops).add (y.getD (k + r) (constOps ops).zero) ((constOps ops).scale (zetas.getD b ops.szero)
        (y.getD (k + r + t) (constOps ops).zero))) = _
      show some (ops.add (y.getD (k + r) ops.zero) (ops.scale (zetas.getD b ops.szero) (y.getD (k + r + t) ops.zero))) = _
      rw [e1, e2, nsAt, m1, d1, if_pos hr]
    · by_cases c2 : k + t ≤ idx ∧ idx < k + t + t
      · obtain ⟨r, rfl⟩ := Nat.exists_eq_add_of_le c2.1
        have hr : r < t := by omega
        have e1 : y.getD (k + t + r - t) ops.zero = x.getD (k + t + r - t) ops.zero :=
          getD_of_getElem?_eq (by rw [hy, if_neg (by omega)]) _
        have e2 : y.getD (k + t + r) ops.zero = x.getD (k + t + r) ops.zero :=
          getD_of_getElem?_eq (by rw [hy, if_neg (by omega)]) _
        have m1 : (k + t + r) % (2*t) = t + r := by
          rw [← hkk, Nat.add_assoc]; exact blk_mod2 b t (t + r) (by omega)
        have d1 : (k + t + r) / (2*t) = b := by rw [← hkk, Nat.add_assoc]; exact blk_div b t (t + r) ht (by omega)
        rw [if_neg c1, if_pos c2, if_pos (by omega)]
        show some (ops.sub (y.getD (k + t + r - t) ops.zero) (ops.scale (zetas.getD b ops.szero) (y.getD (k + t + r) ops.zero))) = _
        rw [e1, e2, nsAt, m1, d1, if_neg (by omega)]
      · rw [if_neg c1, if_neg c2, hy idx, if_neg c0, if_neg (by omega)]

theorem nsInv_zero (ops : Ops σ α) (t : Nat) (zetas : List σ) (x : List α) : NsInv ops t zetas x x 0 :=
  ⟨rfl, fun idx => by simp⟩

theorem nsInv_full (ops : Ops σ α) (t : Nat) (zetas : Array σ) (a : Array α) (M : Nat) (hlen : a.size = M*(2*t))
    (z : List α) (h : NsInv ops t zetas.toList a.toList z M) : z = (stageNoswap ops t zetas a).toList := by
  obtain ⟨hs, hp⟩ := stageNoswap_toList ops t zetas a
  apply List.ext_getElem?
  intro idx
  by_cases hi : idx < a.size
  · rw [h.2 idx, if_pos (by omega), hp idx hi]
  · rw [List.getElem?_eq_none (by rw [h.1]; simpa using hi), List.getElem?_eq_none (by simp [hs]; omega)]

/-- the `enumerate().take(m)` block loop of `ntt_noswap` -/
theorem noswap_for4_eq (ops : Ops σ α) (root : Nat → Option σ) (p : List σ) (t : Nat) (ht : 0 < t) (x : List α) (M : Nat)
    (hlen : x.length = M*(2*t)) (hU : x.length < 18446744073709551616) (hp : M ≤ p.length) :
    ∀ r b (y : List α), b + r = M → NsInv ops t p x y b →
    Loops.ntt_noswap_for4_ok ops root p t r b y = true ∧ NsInv ops t p x (Loops.ntt_noswap_for4 ops root p t r b y) M := by
  intro r
  induction r with
  | zero =>
    intro b y hb inv
    have : b = M := by omega
    subst this
    exact ⟨rfl, inv⟩
  | succ r ih =>
    intro b y hb inv
    have hk : b*(2*t) + 2*t ≤ x.length := by rw [hlen]; exact blk_le b r M t hb
    have hs : b * t * 2 = b*(2*t) := by rw [Nat.mul_assoc, Nat.mul_comm t 2]
    have hbt : b * t < 18446744073709551616 := by omega
    have h1 : (b * t) % 18446744073709551616 = b * t := Nat.mod_eq_of_lt hbt
    have h2 : (b * t * 2) % 18446744073709551616 = b*(2*t) := by rw [hs]; exact Nat.mod_eq_of_lt (by omega)
    have h2' : b * t * 2 < 18446744073709551616 := by omega
    have h3 : (b*(2*t) + t) % 18446744073709551616 - b*(2*t) = t := by rw [Nat.mod_eq_of_lt (by omega)]; omega
    have h3' : b*(2*t) + t < 18446744073709551616 := by omega
    have hbp : b < p.length := by omega
    obtain ⟨e, ok⟩ := noswap_for5_eq ops root t (p.getD b ops.szero) (b*(2*t)) t 0 y (by rw [inv.1]; omega)
      (by rw [inv.1]; exact hU)
    rw [Nat.add_zero] at e ok
    have inv' := nsInv_step ops t ht p (p.getD b ops.szero) x y b inv hk
    obtain ⟨iok, iinv⟩ := ih (b+1) _ (by omega) inv'
    constructor
    · simp only [Loops.ntt_noswap_for4_ok, h1, h2, h2', h3, h3', hbt, hbp, e, ok, iok, decide_true, Bool.and_self]
    · simp only [Loops.ntt_noswap_for4, h1, h2, h3, e]; exact iinv

/-! ### `ntt_noswap`: the stage loop `while m < n { t >>= 1; ..; m *= 2 }` -/

theorem noswap_loop3_eq (ops : Ops σ α) (root : Nat → Option σ) (L : Nat) (hL : L ≤ 32) (zetas : Array σ)
    (hz : zetas.size = 2^L) :
    ∀ r s (a : Array α) fuel f, s + r = L → a.size = 2^L → r + 1 ≤ fuel → r ≤ f →
    (∃ m t, Loops.ntt_noswap_loop3 ops root (2^L) zetas.toList fuel a.toList (2^s) (2^(L-s))
      = some ((noswapLoop ops zetas (2^L) f (2^s) (2^(L-s)) a).toList, m, t)) ∧
    Loops.ntt_noswap_loop3_ok ops root (2^L) zetas.toList fuel a.toList (2^s) (2^(L-s)) = true := by
  intro r
  induction r with
  | zero =>
    intro s a fuel f hs ha hfu _
    obtain ⟨fu, rfl⟩ : ∃ fu, fuel = fu + 1 := ⟨fuel - 1, by omega⟩
    have : s = L := by omega
    subst this
    have hn : ¬ ((2:Nat)^s < 2^s) := Nat.lt_irrefl _
    constructor
    · refine ⟨2^s, 2^(s-s), ?_⟩
      cases f with
      | zero => simp only [Loops.ntt_noswap_loop3, hn, decide_false, Bool.false_eq_true, if_false, noswapLoop]
      | succ f => simp only [Loops.ntt_noswap_loop3, hn, decide_false, Bool.false_eq_true, if_false, noswapLoop]
    · simp only [Loops.ntt_noswap_loop3_ok, hn, decide_false, Bool.false_eq_true, if_false]
  | succ r ih =>
    intro s a fuel f hs ha hfu hf
    obtain ⟨fu, rfl⟩ : ∃ fu, fuel = fu + 1 := ⟨fuel - 1, by omega⟩
    obtain ⟨f', rfl⟩ : ∃ f', f = f' + 1 := ⟨f - 1, by omega⟩
    have hle : (2:Nat)^L ≤ 2^32 := Nat.pow_le_pow_right (by omega) hL
    rw [two_pow_32] at hle
    have hlt : (2:Nat)^s < 2^L := Nat.pow_lt_pow_right (by omega) (by omega)
    have ht2 : 2^(L-s) / 2 = 2^(L-(s+1)) := by
      have : L - s = (L - (s+1)) + 1 := by omega
      rw [this, Nat.pow_succ, Nat.mul_div_cancel _ (by omega)]
    have htpos : 0 < 2^(L-(s+1)) := Nat.two_pow_pos _
    have hmin : Nat.min (2^s) zetas.toList.length = 2^s := by
      rw [Array.length_toList, hz]; exact Nat.min_eq_left (by omega)
    have hx : a.toList.length = 2^L := by simpa using ha
    have hsplit : 2^L = 2^s * (2 * 2^(L-(s+1))) := by
      have : 2 * 2^(L-(s+1)) = 2^(L-s) := by
        have h' : L - s = (L - (s+1)) + 1 := by omega
        rw [h', Nat.pow_succ, Nat.mul_comm]
      rw [this, ← Nat.pow_add]; congr 1; omega
    have e2' : 2^s * 2 = 2^(s+1) := by rw [Nat.pow_succ]
    have e2 : 2 * 2^s = 2^(s+1) := by rw [Nat.pow_succ, Nat.mul_comm]
    have hm2 : (2^s * 2) % 18446744073709551616 = 2^(s+1) := by
      rw [e2']; apply Nat.mod_eq_of_lt
      have : (2:Nat)^(s+1) ≤ 2^L := Nat.pow_le_pow_right (by omega) (by omega)
      omega
    have hm2' : 2^s * 2 < 18446744073709551616 := by
      have : (2:Nat)^(s+1) ≤ 2^L := Nat.pow_le_pow_right (by omega) (by omega)
      rw [e2']; omega
    obtain ⟨ok4, inv4⟩ := noswap_for4_eq ops root zetas.toList (2^(L-(s+1))) htpos a.toList (2^s) (by rw [hx]; exact hsplit)
      (by omega) (by rw [Array.length_toList, hz]; omega) (2^s) 0 a.toList (by omega) (nsInv_zero _ _ _ _)
    have hfull := nsInv_full ops (2^(L-(s+1))) zetas a (2^s) (by rw [ha]; exact hsplit) _ inv4
    obtain ⟨⟨m, t, e⟩, ok⟩ := ih (s+1) (stageNoswap ops (2^(L-(s+1))) zetas a) fu f' (by omega)
      (by simp [stageNoswap, ha]) (by omega) (by omega)
    constructor
    · refine ⟨m, t, ?_⟩
      simp only [Loops.ntt_noswap_loop3, hlt, decide_true, if_true, ht2, hmin, Nat.sub_zero, hfull, hm2, e, noswapLoop, e2]
    · simp only [Loops.ntt_noswap_loop3_ok, hlt, decide_true, if_true, ht2, hmin, Nat.sub_zero, ok4, hfull, hm2, hm2', ok,
        Bool.and_self]

/-! ### `ntt_noswap`: the table of bit-reversed powers and the `logn` loop -/

theorem noswap_for2_eq (ops : Ops σ α) (root : Nat → Option σ) (omega : σ) (logn : Nat) (hl : logn ≤ 64) (h1 : 1 ≤ logn) :
    ∀ n i (acc : Array σ) (cur : σ),
    (if Loops.ntt_noswap_for2_ok ops root omega logn n i acc.toList cur
      then some (Loops.ntt_noswap_for2 ops root omega logn n i acc.toList cur).1 else none)
      = (powersBitrevAux ops omega (logn - 1) n i cur acc).map Array.toList := by
  intro n
  induction n with
  | zero => intro i acc cur; rfl
  | succ n ih =>
    intro i acc cur
    have hsub : (logn + 18446744073709551616 - 1) % 18446744073709551616 = logn - 1 := by omega
    obtain ⟨e, ok⟩ := gen_bitreverse_usize_eq i (logn - 1) (by omega)
    simp only [Loops.ntt_noswap_for2, Loops.ntt_noswap_for2_ok, powersBitrevAux, hsub, e, ok, h1, decide_true,
      Bool.true_and, Array.length_toList]
    by_cases hb : bitreverse i (logn - 1) < acc.size
    · simp only [hb, decide_true, Bool.true_and, if_true]
      have := ih (i + 1) (acc.setIfInBounds (bitreverse i (logn - 1)) cur) (ops.smul cur omega)
      rw [Array.toList_setIfInBounds] at this
      exact this
    · simp only [hb, decide_false, Bool.false_and, Bool.false_eq_true, if_false, Option.map_none]

theorem powersBitrevAux_size (ops : Ops σ α) (omega : σ) (lg : Nat) : ∀ n i (cur : σ) (acc z : Array σ),
    powersBitrevAux ops omega lg n i cur acc = some z → z.size = acc.size := by
  intro n
  induction n with
  | zero => intro i cur acc z h; simp only [powersBitrevAux, Option.some.injEq] at h; rw [← h]
  | succ n ih =>
    intro i cur acc z h
    rw [powersBitrevAux] at h
    split at h
    · have := ih _ _ _ _ h; simpa using this
    · cases h

theorem noswap_loop_eq (ops : Ops σ α) (root : Nat → Option σ) (array : List α) (hN : array.length ≤ 2^63) :
    ∀ f l fuel, f + l = array.length → l ≤ 63 → 65 ≤ fuel + l →
    Loops.ntt_noswap_loop ops root array fuel l = some (ceilLog2Aux array.length f l) ∧
    Loops.ntt_noswap_loop_ok ops root array fuel l = true ∧ ceilLog2Aux array.length f l ≤ 63 := by
  intro f
  induction f with
  | zero =>
    intro l fuel hf hl hfu
    obtain ⟨fu, rfl⟩ : ∃ fu, fuel = fu + 1 := ⟨fuel - 1, by omega⟩
    have hn : ¬ (2^l < array.length) := by
      have := Nat.lt_two_pow_self (n := l); omega
    have hl64 : l < 64 := by omega
    simp only [Loops.ntt_noswap_loop, Loops.ntt_noswap_loop_ok, shl_one_eq l hl64, hn, decide_false,
      Bool.false_eq_true, if_false, ceilLog2Aux, hl64, decide_true, Bool.and_self, true_and]
    exact hl
  | succ f ih =>
    intro l fuel hf hl hfu
    obtain ⟨fu, rfl⟩ : ∃ fu, fuel = fu + 1 := ⟨fuel - 1, by omega⟩
    have hl64 : l < 64 := by omega
    by_cases hc : 2^l < array.length
    · have hl63 := lt_of_two_pow_lt l _ hc hN
      obtain ⟨e, ok, hb⟩ := ih (l+1) fu (by omega) (by omega) (by omega)
      have h1 : (l + 1) % 18446744073709551616 = l + 1 := Nat.mod_eq_of_lt (by omega)
      have h2 : l + 1 < 18446744073709551616 := by omega
      simp only [Loops.ntt_noswap_loop, Loops.ntt_noswap_loop_ok, shl_one_eq l hl64, hc, decide_true,
        if_true, h1, h2, e, ok, ceilLog2Aux, hl64, Bool.and_self, true_and]
      exact hb
    · simp only [Loops.ntt_noswap_loop, Loops.ntt_noswap_loop_ok, shl_one_eq l hl64, hc, decide_false,
        Bool.false_eq_true, if_false, ceilLog2Aux, hl64, decide_true, Bool.and_self, true_and]
      exact hl

/-! ### `ntt_noswap` -/

/-- **`ntt_noswap` regenerated from source = the model** for every `ops`, every root look-up and every vector of length
    `2^L`, `L ≤ 32`: same panics, both loops finish within their fuel, same values -/
theorem gen_ntt_noswap_eq (ops : Ops σ α) (root : Nat → Option σ) (x : Array α) (L : Nat) (hL : L ≤ 32)
    (hx : x.size = 2^L) :
    (Loops.ntt_noswap ops root x.toList).bind
        (fun r => if Loops.ntt_noswap_ok ops root x.toList then some r else none)
      = (nttNoswap ops root x).map Array.toList := by
  have hle : (2:Nat)^L ≤ 2^32 := Nat.pow_le_pow_right (by omega) hL
  rw [two_pow_32] at hle
  have hlen : x.toList.length = 2^L := by simpa using hx
  obtain ⟨e, ok, _⟩ := noswap_loop_eq ops root x.toList (by rw [hlen, two_pow_63]; omega) (2^L) 0 65 (by omega) (by omega)
    (by omega)
  have hc : ceilLog2Aux x.toList.length (2^L) 0 = L := by rw [hlen]; exact ceilLog2_pow L
  rw [hc] at e
  have hlt : 2^L < 18446744073709551616 := by omega
  cases hr : root (2^L) with
  | none =>
    simp only [Loops.ntt_noswap_ok, nttNoswap, hx, hlen, hr, Option.isSome_none, Bool.false_and, Bool.and_false,
      Bool.false_eq_true, if_false, bind_none_fun, Option.map_none]
  | some w =>
    simp only [Loops.ntt_noswap, Loops.ntt_noswap_ok, nttNoswap, hx, hlen, hr, Option.getD_some, Option.isSome_some, e, ok,
      Option.bind_some, Option.elim_some, Nat.sub_zero, hlt, decide_true, Bool.true_and, ceilLog2_pow, powersBitrev]
    have hrep : (List.replicate (2^L) ops.szero) = (Array.replicate (2^L) ops.szero).toList := by simp
    rw [hrep]
    have hpow : (if Loops.ntt_noswap_for2_ok ops root w L (2^L / 2) 0 (Array.replicate (2^L) ops.szero).toList ops.sone
        then some (Loops.ntt_noswap_for2 ops root w L (2^L / 2) 0 (Array.replicate (2^L) ops.szero).toList ops.sone).1
        else none)
        = (powersBitrevAux ops w (L - 1) (2^L / 2) 0 ops.sone (Array.replicate (2^L) ops.szero)).map Array.toList := by
      rcases Nat.eq_zero_or_pos L with h0 | hpos
      · subst h0; rfl
      · exact noswap_for2_eq ops root w L (by omega) hpos _ _ _ _
    have h2 : ((2:Nat) != 0) = true := rfl
    cases hm : powersBitrevAux ops w (L - 1) (2^L / 2) 0 ops.sone (Array.replicate (2^L) ops.szero) with
    | none =>
      rw [hm] at hpow
      have hf := ite_some_none_eq_none hpow
      simp only [hf, Bool.and_false, Bool.false_and, Bool.false_eq_true, if_false, bind_none_fun, Option.map_none]
    | some zetas =>
      rw [hm] at hpow
      obtain ⟨hok, hval⟩ := ite_some_none_eq_some hpow
      have hzs : zetas.size = 2^L := by
        rw [powersBitrevAux_size ops w _ _ _ _ _ _ hm]; simp
      have hL0 : L - 0 = L := Nat.sub_zero L
      obtain ⟨⟨m, t, e3⟩, ok3⟩ := noswap_loop3_eq ops root L hL zetas hzs L 0 x 65 (2^L) (by omega) hx (by omega)
        (by have := Nat.lt_two_pow_self (n := L); omega)
      rw [Nat.pow_zero, hL0] at e3 ok3
      simp only [hok, hval, h2, e3, ok3, Bool.and_self, if_true, Option.bind_some, Option.map_some]

theorem gen_ntt_noswap_empty (ops : Ops σ α) (root : Nat → Option σ) :
    (Loops.ntt_noswap ops root ([] : List α)).bind
        (fun r => if Loops.ntt_noswap_ok ops root ([] : List α) then some r else none)
      = (nttNoswap ops root (#[] : Array α)).map Array.toList := by
  cases hr : root 0 with
  | none =>
    simp only [Loops.ntt_noswap_ok, nttNoswap, List.length_nil, List.size_toArray, hr, Option.isSome_none,
      Bool.false_and, Bool.and_false, Bool.false_eq_true, if_false, bind_none_fun, Option.map_none]
  | some w =>
    simp [Loops.ntt_noswap, Loops.ntt_noswap_ok, nttNoswap, hr, Loops.ntt_noswap_loop, Loops.ntt_noswap_loop_ok,
      Loops.ntt_noswap_for2_ok, Loops.ntt_noswap_loop3, Loops.ntt_noswap_loop3_ok, ceilLog2,
      ceilLog2Aux, powersBitrev, powersBitrevAux, noswapLoop]

/-- **every length** (root look-up defined only on `0` and the powers of two up to `2^32`) -/
theorem gen_ntt_noswap_eq_all (ops : Ops σ α) (root : Nat → Option σ)
    (hroot : ∀ n, (root n).isSome = true → n = 0 ∨ ∃ L, L ≤ 32 ∧ n = 2^L) (x : Array α) :
    (Loops.ntt_noswap ops root x.toList).bind
        (fun r => if Loops.ntt_noswap_ok ops root x.toList then some r else none)
      = (nttNoswap ops root x).map Array.toList := by
  cases hr : root x.size with
  | none =>
    have hlen : x.toList.length = x.size := by simp
    simp only [Loops.ntt_noswap_ok, nttNoswap, hlen, hr, Option.isSome_none, Bool.false_and, Bool.and_false,
      Bool.false_eq_true, if_false, bind_none_fun, Option.map_none]
  | some w =>
    rcases hroot x.size (by rw [hr]; rfl) with h0 | ⟨L, hL, hx⟩
    · have : x = #[] := Array.eq_empty_of_size_eq_zero h0
      subst this
      exact gen_ntt_noswap_empty ops root
    · exact gen_ntt_noswap_eq ops root x L hL hx

/-- reading a bridge equation at a value of the model: the regenerated function returns that value and does not panic -/
theorem run_transfer {β : Type} {g : Option (List β)} {c : Bool} {m : Option (Array β)} {y : Array β}
    (h : g.bind (fun r => if c = true then some r else none) = m.map Array.toList) (hm : m = some y) :
    g = some y.toList ∧ c = true := by
  rw [hm] at h; exact run_eq_some h

end TF.GenBridge.Ntt
