import TF.Model.PolyInterp
import TF.Proofs.Poly
import Mathlib.LinearAlgebra.Lagrange
import Mathlib.Algebra.Polynomial.Div
import Mathlib.Algebra.Polynomial.FieldDivision
import Mathlib.Algebra.BigOperators.Group.List.Basic
import Mathlib.Algebra.Polynomial.Eval.Degree
/-!
Helper lemmas for property C08 (`TF/Props/C08.lean`): the model of `TF/Model/PolyInterp.lean` instantiated with
`FieldOps.ofField K` for an arbitrary field `K`, denoted into `K[X]` by `TF.Model.Poly.denote`.
-/
open Polynomial

namespace TF.Model.PolyI
open TF TF.Model.Poly

variable {K : Type} [Field K]
variable (root : Nat → Option K)
local notation "FK" => FieldOps.ofField K root

/-- `∏ (X - rᵢ)` over a list of roots (repetitions allowed) -/
noncomputable def zpoly (roots : List K) : K[X] := (roots.map (fun r => X - C r)).prod

@[simp] theorem zpoly_nil : zpoly ([] : List K) = 1 := by simp [zpoly]
@[simp] theorem zpoly_cons (r : K) (rs : List K) : zpoly (r :: rs) = (X - C r) * zpoly rs := by simp [zpoly]
theorem zpoly_append (a b : List K) : zpoly (a ++ b) = zpoly a * zpoly b := by simp [zpoly]
theorem zpoly_monic (roots : List K) : (zpoly roots).Monic := by
  induction roots with
  | nil => simp
  | cons r rs ih => rw [zpoly_cons]; exact (monic_X_sub_C r).mul ih
theorem zpoly_ne_zero (roots : List K) : zpoly roots ≠ 0 := (zpoly_monic roots).ne_zero
theorem natDegree_zpoly (roots : List K) : (zpoly roots).natDegree = roots.length := by
  induction roots with
  | nil => simp
  | cons r rs ih =>
    rw [zpoly_cons, (monic_X_sub_C r).natDegree_mul (zpoly_monic rs), ih, natDegree_X_sub_C]
    simp [Nat.add_comm]
theorem degree_zpoly (roots : List K) : (zpoly roots).degree = roots.length := by
  rw [degree_eq_natDegree (zpoly_ne_zero roots), natDegree_zpoly]
theorem eval_zpoly (roots : List K) (x : K) : (zpoly roots).eval x = (roots.map (fun r => x - r)).prod := by
  induction roots with
  | nil => simp
  | cons r rs ih => simp [ih]
theorem eval_zpoly_eq_zero_iff (roots : List K) (x : K) : (zpoly roots).eval x = 0 ↔ x ∈ roots := by
  induction roots with
  | nil => simp
  | cons r rs ih => simp [ih, sub_eq_zero]

/-! ### the interpolation certificate -/

/-- the certificate: `deg f < n` and `f(xᵢ) = yᵢ` for every point -/
def Interpolates (xs ys : List K) (f : K[X]) : Prop :=
  f.degree < xs.length ∧ ∀ p ∈ xs.zip ys, f.eval p.1 = p.2

theorem mem_zip_of_mem_left {α β : Type} : ∀ (xs : List α) (ys : List β), xs.length = ys.length →
    ∀ x ∈ xs, ∃ y, (x, y) ∈ xs.zip ys := by
  intro xs
  induction xs with
  | nil => intro ys _ x hx; simp at hx
  | cons a as ih =>
    intro ys hl x hx
    cases ys with
    | nil => simp at hl
    | cons b bs =>
      rcases List.mem_cons.1 hx with rfl | hx
      · exact ⟨b, by simp⟩
      · obtain ⟨y, hy⟩ := ih bs (by simpa using hl) x hx
        exact ⟨y, by simp [hy]⟩

/-- for pairwise distinct abscissae the certificate determines the polynomial -/
theorem Interpolates.unique {xs ys : List K} (hn : xs.Nodup) (hl : xs.length = ys.length) {f g : K[X]}
    (hf : Interpolates xs ys f) (hg : Interpolates xs ys g) : f = g := by
  classical
  have hcard : xs.toFinset.card = xs.length := List.toFinset_card_of_nodup hn
  apply eq_of_degrees_lt_of_eval_finset_eq xs.toFinset
  · rw [hcard]; exact hf.1
  · rw [hcard]; exact hg.1
  · intro x hx
    obtain ⟨y, hy⟩ := mem_zip_of_mem_left xs ys hl x (List.mem_toFinset.1 hx)
    rw [hf.2 _ hy, hg.2 _ hy]

/-! ### contracts of the routines that belong to other properties -/

/-- what C07 / C09 prove about `multiply`, `par_batch_multiply`, `reduce`, `reduce_by_ntt_friendly_modulus` -/
structure Ext.Lawful (E : Ext K) : Prop where
  mul : ∀ a b, denote (E.mul a b) = denote a * denote b
  parBatchMul : ∀ t fs, denote (E.parBatchMul t fs) = (fs.map denote).prod
  rem : ∀ p m, denote m ≠ 0 → denote (E.rem p m) = denote p % denote m
  redNtt : ∀ p m, denote m ≠ 0 → denote m ∣ denote (E.redNtt p m) - denote p

/-- coefficient list of a polynomial -/
noncomputable def ofPoly (q : K[X]) : List K := (List.range (q.natDegree + 1)).map q.coeff

theorem denote_ofPoly (q : K[X]) : denote (ofPoly q) = q := by
  ext i
  rw [coeff_denote, ofPoly]
  by_cases hi : i < q.natDegree + 1
  · rw [getD_of_lt _ _ _ (by simpa using hi)]; simp
  · rw [getD_of_ge _ _ _ (by simp; omega), coeff_eq_zero_of_natDegree_lt (by omega)]

/-- the contracts are satisfiable: the routines defined by their specification -/
noncomputable def Ext.ideal : Ext K where
  mul a b := ofPoly (denote a * denote b)
  parBatchMul _ fs := ofPoly (fs.map denote).prod
  rem p m := ofPoly (denote p % denote m)
  redNtt p m := ofPoly (denote p % denote m)
  ntt xs := xs
  intt xs := xs

theorem Ext.ideal_lawful : (Ext.ideal : Ext K).Lawful where
  mul a b := denote_ofPoly _
  parBatchMul t fs := denote_ofPoly _
  rem p m _ := denote_ofPoly _
  redNtt p m _ := by
    show denote m ∣ denote (ofPoly (denote p % denote m)) - denote p
    rw [denote_ofPoly]
    exact ⟨-(denote p / denote m), by
      have := EuclideanDomain.div_add_mod (denote p) (denote m)
      have h2 : denote p % denote m = denote p - denote m * (denote p / denote m) := by
        rw [eq_sub_iff_add_eq, add_comm]; exact this
      rw [h2]; ring⟩

/-! ### smart zerofier: the in-place loop multiplies by `X - r` -/

/-- `[prev - r a₀, a₀ - r a₁, …, a_{k-1}]` -/
def lin (r : K) : K → List K → List K
  | prev, [] => [prev]
  | prev, c :: cs => (prev - r * c) :: lin r c cs

theorem length_lin (r prev : K) (a : List K) : (lin r prev a).length = a.length + 1 := by
  induction a generalizing prev with
  | nil => rfl
  | cons c cs ih => simp [lin, ih]

theorem denote_lin (r prev : K) (a : List K) : denote (lin r prev a) = C prev + (X - C r) * denote a := by
  induction a generalizing prev with
  | nil => simp [lin]
  | cons c cs ih => simp only [lin, denote_cons, ih, C_sub, C_mul]; ring

theorem smartGo_eq (r prev : K) (a zs : List K) :
    smartGo FK r (a.length + 1) prev (a ++ 0 :: zs) = lin r prev a ++ zs := by
  induction a generalizing prev with
  | nil => simp [smartGo, lin]
  | cons c cs ih =>
    simp only [List.length_cons, List.cons_append, smartGo, lin, FieldOps.ofField_sub, FieldOps.ofField_mul]
    rw [ih]

/-- one root: the live prefix `c :: a` (of length `num_coeffs`) is multiplied by `X - r`, one zero is consumed -/
theorem smartStep_eq (r c : K) (a zs : List K) :
    smartStep FK r (a.length + 1) (c :: a ++ 0 :: zs) = ((-r) * c :: lin r c a) ++ zs := by
  simp only [smartStep, List.cons_append, FieldOps.ofField_mul, FieldOps.ofField_neg]
  rw [smartGo_eq]

theorem denote_mulLin (r c : K) (a : List K) :
    denote ((-r) * c :: lin r c a) = (X - C r) * denote (c :: a) := by
  simp only [denote_cons, denote_lin, C_mul, C_neg]; ring

theorem smartLoop_spec (roots : List K) (c : K) (a : List K) (j : Nat) (hj : roots.length ≤ j) :
    ∃ c' a', (smartLoop FK roots (c :: a ++ List.replicate j 0, a.length + 1)).1
        = c' :: a' ++ List.replicate (j - roots.length) 0
      ∧ denote (c' :: a') = zpoly roots * denote (c :: a) ∧ a'.length = a.length + roots.length := by
  induction roots generalizing c a j with
  | nil => exact ⟨c, a, by simp [smartLoop], by simp, by simp⟩
  | cons r rs ih =>
    obtain ⟨j', rfl⟩ : ∃ j', j = j' + 1 := ⟨j - 1, by simp at hj; omega⟩
    simp only [smartLoop, List.replicate_succ]
    rw [smartStep_eq]
    have h := ih ((-r) * c) (lin r c a) j' (by simpa using hj)
    simp only [length_lin] at h
    obtain ⟨c', a', h1, h2, h3⟩ := h
    refine ⟨c', a', ?_, ?_, ?_⟩
    · simpa using h1
    · rw [h2, denote_mulLin, zpoly_cons]; ring
    · simp [h3]; omega

/-- `smart_zerofier` = `∏ (X - rᵢ)`, any root list -/
theorem denote_smartZerofier (roots : List K) : denote (smartZerofier FK roots) = zpoly roots := by
  unfold smartZerofier
  obtain ⟨c', a', h1, h2, _⟩ := smartLoop_spec root roots 1 [] roots.length (Nat.le_refl _)
  simp only [List.cons_append, List.nil_append, List.length_nil, Nat.zero_add, FieldOps.ofField_one,
    FieldOps.ofField_zero] at h1 ⊢
  rw [h1, Nat.sub_self]
  simpa using h2

theorem length_smartZerofier (roots : List K) : (smartZerofier FK roots).length = roots.length + 1 := by
  unfold smartZerofier
  obtain ⟨c', a', h1, _, h3⟩ := smartLoop_spec root roots 1 [] roots.length (Nat.le_refl _)
  simp only [List.cons_append, List.nil_append, List.length_nil, Nat.zero_add, FieldOps.ofField_one,
    FieldOps.ofField_zero] at h1 ⊢
  rw [h1]; simp [h3]


/-! ### generic list helpers -/

theorem mapM_option_forall₂ {α β : Type} {f : α → Option β} {P : α → β → Prop}
    (h : ∀ a b, f a = some b → P a b) :
    ∀ (l : List α) (bs : List β), l.mapM f = some bs → List.Forall₂ P l bs := by
  intro l
  induction l with
  | nil => intro bs hbs; simp at hbs; subst hbs; exact List.Forall₂.nil
  | cons a l ih =>
    intro bs hbs
    rw [List.mapM_cons] at hbs
    cases hfa : f a with
    | none => simp [hfa] at hbs
    | some b =>
      cases hl : l.mapM f with
      | none => simp [hfa, hl] at hbs
      | some bs' =>
        simp [hfa, hl] at hbs
        subst hbs
        exact List.Forall₂.cons (h a b hfa) (ih bs' hl)

theorem mapM_option_isSome {α β : Type} {f : α → Option β} :
    ∀ (l : List α), (∀ a ∈ l, (f a).isSome) → (l.mapM f).isSome := by
  intro l
  induction l with
  | nil => intro _; simp
  | cons a l ih =>
    intro h
    rw [List.mapM_cons]
    have ha := h a (by simp)
    have hl := ih (fun x hx => h x (by simp [hx]))
    obtain ⟨b, hb⟩ := Option.isSome_iff_exists.1 ha
    obtain ⟨bs, hbs⟩ := Option.isSome_iff_exists.1 hl
    simp [hb, hbs]

theorem flatten_chunksAux {α : Type} (k : Nat) (hk : 0 < k) :
    ∀ (fuel : Nat) (l : List α), l.length ≤ fuel → (chunksAux k fuel l).flatten = l := by
  intro fuel
  induction fuel with
  | zero => intro l hl; have : l = [] := List.length_eq_zero_iff.1 (by omega); subst this; simp [chunksAux]
  | succ fuel ih =>
    intro l hl
    cases l with
    | nil => simp [chunksAux]
    | cons x xs =>
      rw [chunksAux, List.flatten_cons, ih]
      · exact List.take_append_drop k (x :: xs)
      · simp only [List.length_drop, List.length_cons] at hl ⊢; omega

theorem flatten_chunks {α : Type} (k : Nat) (hk : 0 < k) (l : List α) : (chunks k l).flatten = l :=
  flatten_chunksAux k hk l.length l (Nat.le_refl _)

theorem forall₂_flatten_map {α β : Type} (f : α → β) {chs : List (List α)} {parts : List (List β)}
    (hf : List.Forall₂ (fun ch o => o = ch.map f) chs parts) : parts.flatten = chs.flatten.map f := by
  induction hf with
  | nil => rfl
  | cons h1 _ ih => simp [h1, ih]

/-! ### the other zerofier strategies -/
section zerofiers
variable {E : Ext K} (hE : E.Lawful)
include hE

theorem denote_naiveZerofier (roots : List K) : denote (naiveZerofier FK E roots) = zpoly roots := by
  have key : ∀ (rs : List K) (acc : List K),
      denote (rs.foldl (fun acc r' => E.mul acc [(FK).neg r', (FK).one]) acc) = denote acc * zpoly rs := by
    intro rs
    induction rs with
    | nil => intro acc; simp
    | cons r rs ih =>
      intro acc
      rw [List.foldl_cons, ih, hE.mul, zpoly_cons]
      simp only [FieldOps.ofField_neg, FieldOps.ofField_one, denote_cons, denote_nil, C_neg, C_1]
      ring
  cases roots with
  | nil => simp [naiveZerofier]
  | cons r rs =>
    simp only [naiveZerofier]
    rw [key, zpoly_cons]
    simp only [FieldOps.ofField_neg, FieldOps.ofField_one, denote_cons, denote_nil, C_neg, C_1]
    ring

/-- partial correctness of the `zerofier`/`fast_zerofier` recursion, for every cut-off and every fuel -/
theorem zerofierT_sound (T : Nat) : ∀ (fuel : Nat) (roots z : List K),
    zerofierT FK E T fuel roots = some z → denote z = zpoly roots := by
  intro fuel
  induction fuel with
  | zero => intro roots z h; simp [zerofierT] at h
  | succ fuel ih =>
    intro roots z h
    rw [zerofierT] at h
    split at h
    · simp only [Option.some.injEq] at h; subst h; exact denote_smartZerofier root roots
    · cases hl : zerofierT FK E T fuel (roots.take (roots.length / 2)) with
      | none => simp [hl] at h
      | some l =>
        cases hr : zerofierT FK E T fuel (roots.drop (roots.length / 2)) with
        | none => simp [hl, hr] at h
        | some r =>
          simp [hl, hr] at h
          subst h
          rw [hE.mul, ih _ _ hl, ih _ _ hr, ← zpoly_append, List.take_append_drop]

omit hE in
/-- the recursion terminates for every cut-off `T ≥ 2` -/
theorem zerofierT_total (T : Nat) (hT : 2 ≤ T) : ∀ (fuel : Nat) (roots : List K),
    roots.length < fuel → (zerofierT FK E T fuel roots).isSome := by
  intro fuel
  induction fuel with
  | zero => intro roots h; omega
  | succ fuel ih =>
    intro roots h
    rw [zerofierT]
    split
    · simp
    · next hlen =>
      have h2 : 2 ≤ roots.length := by omega
      have h1 := ih (roots.take (roots.length / 2)) (by simp; omega)
      have h3 := ih (roots.drop (roots.length / 2)) (by simp; omega)
      obtain ⟨l, hl⟩ := Option.isSome_iff_exists.1 h1
      obtain ⟨r, hr⟩ := Option.isSome_iff_exists.1 h3
      simp [hl, hr]

omit hE in
/-- for a cut-off `T ≤ 1` the Rust recursion never ends on inputs of length `≥ T` (modelled as `none`) -/
theorem zerofierT_diverges (T : Nat) (hT : T ≤ 1) : ∀ (fuel : Nat) (roots : List K),
    T ≤ roots.length → zerofierT FK E T fuel roots = none := by
  intro fuel
  induction fuel with
  | zero => intro roots _; rfl
  | succ fuel ih =>
    intro roots h
    rw [zerofierT]
    split
    · omega
    · have : zerofierT FK E T fuel (roots.drop (roots.length / 2)) = none := by
        apply ih; simp; omega
      cases hl : zerofierT FK E T fuel (roots.take (roots.length / 2)) <;> simp [this]

theorem zerofierWith_sound (T : Nat) (roots z : List K) (h : zerofierWith FK E T roots = some z) :
    denote z = zpoly roots := zerofierT_sound root hE T _ roots z h

omit hE in
theorem zerofierWith_total (T : Nat) (hT : 2 ≤ T) (roots : List K) : (zerofierWith FK E T roots).isSome :=
  zerofierT_total root T hT _ roots (Nat.lt_succ_self _)

theorem fastZerofierWith_sound (T : Nat) (roots z : List K) (h : fastZerofierWith FK E T roots = some z) :
    denote z = zpoly roots := by
  unfold fastZerofierWith at h
  cases hl : zerofierWith FK E T (roots.take (roots.length / 2)) with
  | none => simp [hl] at h
  | some l =>
    cases hr : zerofierWith FK E T (roots.drop (roots.length / 2)) with
    | none => simp [hl, hr] at h
    | some r =>
      simp [hl, hr] at h
      subst h
      rw [hE.mul, zerofierWith_sound root hE T _ _ hl, zerofierWith_sound root hE T _ _ hr, ← zpoly_append,
        List.take_append_drop]

theorem parZerofierWith_sound (T threads : Nat) (roots z : List K)
    (h : parZerofierWith FK E T threads roots = some z) : denote z = zpoly roots := by
  unfold parZerofierWith at h
  split at h
  · next hemp =>
    simp only [Option.some.injEq] at h; subst h
    have : roots = [] := by simpa using hemp
    subst this; simp
  · simp only at h
    split at h
    · simp at h
    · next hchunk =>
      cases hm : (chunks (max (ceilDiv roots.length threads) T) roots).mapM (zerofierWith FK E T) with
      | none => simp [hm] at h
      | some fs =>
        simp [hm] at h
        subst h
        rw [hE.parBatchMul]
        have hf := mapM_option_forall₂ (P := fun (ch z : List K) => denote z = zpoly ch)
          (fun a b hab => zerofierWith_sound root hE T a b hab) _ _ hm
        have hk : 0 < max (ceilDiv roots.length threads) T := by
          rcases Nat.eq_zero_or_pos (max (ceilDiv roots.length threads) T) with h0 | h0
          · simp [h0] at hchunk
          · exact h0
        have hfl := flatten_chunks (max (ceilDiv roots.length threads) T) hk roots
        generalize chunks (max (ceilDiv roots.length threads) T) roots = chs at hf hfl
        rw [← hfl]
        clear hm hfl
        induction hf with
        | nil => simp
        | cons h1 _ ih => simp [h1, ih, zpoly_append]

end zerofiers


/-! ### zerofier tree: the deque loop builds the perfect tree over the nodes, in order -/

theorem nextPow2Aux_spec : ∀ (fuel p n : Nat), (∃ j, p = 2 ^ j) → n ≤ p * 2 ^ fuel →
    (∃ k, nextPow2Aux fuel p n = 2 ^ k) ∧ n ≤ nextPow2Aux fuel p n := by
  intro fuel
  induction fuel with
  | zero => intro p n hp hn; simp [nextPow2Aux] at *; exact ⟨hp, hn⟩
  | succ fuel ih =>
    intro p n hp hn
    rw [nextPow2Aux]
    split
    · next h => exact ⟨hp, h⟩
    · obtain ⟨j, rfl⟩ := hp
      apply ih
      · exact ⟨j + 1, by ring⟩
      · rw [pow_succ] at hn; nlinarith [hn]

theorem nextPow2_spec (n : Nat) : (∃ k, nextPow2 n = 2 ^ k) ∧ n ≤ nextPow2 n := by
  apply nextPow2Aux_spec n 1 n ⟨0, rfl⟩
  simp; exact Nat.le_of_lt Nat.lt_two_pow_self

/-- every stored zerofier is `∏ (X - x)` over the points below the node -/
def ZTree.Good : ZTree K → Prop
  | .leaf pts z => denote z = zpoly pts
  | .branch z l r => denote z = zpoly (l.points ++ r.points) ∧ l.Good ∧ r.Good
  | .padding => True

theorem ZTree.Good.zerofier {t : ZTree K} (h : t.Good) : denote (t.zerofier FK) = zpoly t.points := by
  cases t with
  | leaf pts z => exact h
  | branch z l r => exact h.1
  | padding => simp [ZTree.zerofier, ZTree.points]

/-- the parent the loop builds from two adjacent nodes -/
noncomputable def pair (E : Ext K) (l r : ZTree K) : ZTree K :=
  if l.isPadding then ZTree.padding else mkBranch FK E l r

/-- one level: adjacent nodes paired up, in order -/
noncomputable def pairUp (E : Ext K) : List (ZTree K) → List (ZTree K)
  | l :: r :: rest => pair root E l r :: pairUp E rest
  | _ => []

theorem pairUp_append_two (E : Ext K) : ∀ (m : Nat) (a : List (ZTree K)) (l r : ZTree K), a.length = 2 * m →
    pairUp root E (a ++ [l, r]) = pairUp root E a ++ [pair root E l r] := by
  intro m
  induction m with
  | zero => intro a l r h; have : a = [] := List.length_eq_zero_iff.1 (by omega); subst this; simp [pairUp]
  | succ m ih =>
    intro a l r h
    match a, h with
    | x :: y :: a', h =>
      simp only [List.cons_append, pairUp]
      rw [ih a' l r (by simp at h; omega)]

theorem length_pairUp (E : Ext K) : ∀ (m : Nat) (a : List (ZTree K)), a.length = 2 * m →
    (pairUp root E a).length = m := by
  intro m
  induction m with
  | zero => intro a h; have : a = [] := List.length_eq_zero_iff.1 (by omega); subst this; simp [pairUp]
  | succ m ih =>
    intro a h
    match a, h with
    | x :: y :: a', h => simp only [pairUp, List.length_cons]; rw [ih a' (by simp at h; omega)]

theorem treeLoop_step (E : Ext K) (fuel : Nat) (a : List (ZTree K)) (l r : ZTree K) :
    treeLoop FK E (fuel + 1) (a ++ [l, r]) = treeLoop FK E fuel (pair root E l r :: a) := by
  rw [treeLoop]
  have hlen : (a ++ [l, r]).length > 1 := by simp
  rw [if_pos hlen]
  simp only [List.reverse_append, List.reverse_cons, List.reverse_nil, List.nil_append, List.cons_append,
    List.reverse_reverse, pair]
  split <;> rfl

/-- a whole level: the new nodes accumulate at the front, in order -/
theorem treeLoop_level (E : Ext K) : ∀ (m : Nat) (back front : List (ZTree K)) (fuel : Nat),
    back.length = 2 * m →
    treeLoop FK E (fuel + m) (front ++ back) = treeLoop FK E fuel (pairUp root E back ++ front) := by
  intro m
  induction m with
  | zero =>
    intro back front fuel h
    have : back = [] := List.length_eq_zero_iff.1 (by omega)
    subst this; simp [pairUp]
  | succ m ih =>
    intro back front fuel h
    obtain ⟨b1, r, rfl⟩ : ∃ b1 r, back = b1 ++ [r] := by
      rcases List.eq_nil_or_concat' back with h0 | ⟨b1, r, hb⟩
      · subst h0; simp at h
      · exact ⟨b1, r, hb⟩
    obtain ⟨b2, l, rfl⟩ : ∃ b2 l, b1 = b2 ++ [l] := by
      rcases List.eq_nil_or_concat' b1 with h0 | ⟨b2, l, hb⟩
      · subst h0; simp at h; omega
      · exact ⟨b2, l, hb⟩
    have hb2 : b2.length = 2 * m := by simp at h; omega
    have e1 : front ++ ((b2 ++ [l]) ++ [r]) = (front ++ b2) ++ [l, r] := by simp
    have e2 : (b2 ++ [l]) ++ [r] = b2 ++ [l, r] := by simp
    rw [e1, show fuel + (m + 1) = (fuel + m) + 1 by omega, treeLoop_step, e2, pairUp_append_two root E m b2 l r hb2]
    have := ih b2 (pair root E l r :: front) fuel hb2
    simp only [List.cons_append] at this
    rw [this]
    simp

/-- `k` levels -/
noncomputable def levels (E : Ext K) : Nat → List (ZTree K) → List (ZTree K)
  | 0, nodes => nodes
  | k+1, nodes => levels E k (pairUp root E nodes)

theorem treeLoop_eq_levels (E : Ext K) : ∀ (k : Nat) (nodes : List (ZTree K)) (fuel : Nat),
    nodes.length = 2 ^ k → 2 ^ k - 1 ≤ fuel →
    treeLoop FK E fuel nodes = (levels root E k nodes).head? ∧ (levels root E k nodes).length = 1 := by
  intro k
  induction k with
  | zero =>
    intro nodes fuel h _
    simp only [pow_zero] at h
    refine ⟨?_, by simpa [levels] using h⟩
    cases fuel with
    | zero => simp [treeLoop, levels]
    | succ f => rw [treeLoop]; simp [h, levels]
  | succ k ih =>
    intro nodes fuel h hf
    have h2 : nodes.length = 2 * 2 ^ k := by rw [h, pow_succ]; ring
    have hpos : 0 < 2 ^ k := Nat.pos_of_ne_zero (by positivity)
    obtain ⟨f', rfl⟩ : ∃ f', fuel = f' + 2 ^ k := ⟨fuel - 2 ^ k, by rw [pow_succ] at hf; omega⟩
    have := treeLoop_level root E (2 ^ k) nodes [] f' h2
    simp only [List.nil_append, List.append_nil] at this
    rw [this]
    simp only [levels]
    apply ih
    · exact length_pairUp root E _ _ h2
    · rw [pow_succ] at hf; omega

/-- paddings form a suffix -/
def PadSuffix (nodes : List (ZTree K)) : Prop :=
  nodes.Pairwise (fun a b => a.isPadding = true → b.isPadding = true)

def allPoints (nodes : List (ZTree K)) : List K := (nodes.map ZTree.points).flatten

omit [Field K] in
theorem points_of_isPadding {t : ZTree K} (h : t.isPadding = true) : t.points = [] := by
  cases t <;> simp_all [ZTree.isPadding, ZTree.points]

theorem isPadding_pair (E : Ext K) (l r : ZTree K) : (pair root E l r).isPadding = l.isPadding := by
  unfold pair
  split
  · next h => rw [h]; rfl
  · next h => rw [Bool.eq_false_iff.2 h]; rfl

theorem points_pair (E : Ext K) (l r : ZTree K) (h : l.isPadding = true → r.isPadding = true) :
    (pair root E l r).points = l.points ++ r.points := by
  unfold pair
  split
  · next hl => simp [ZTree.points, points_of_isPadding hl, points_of_isPadding (h hl)]
  · simp [mkBranch, ZTree.points]

theorem pairUp_invariants {E : Ext K} (hE : E.Lawful) : ∀ (m : Nat) (nodes : List (ZTree K)),
    nodes.length = 2 * m → PadSuffix nodes → (∀ t ∈ nodes, t.Good) →
    PadSuffix (pairUp root E nodes) ∧ (∀ t ∈ pairUp root E nodes, t.Good) ∧
      allPoints (pairUp root E nodes) = allPoints nodes ∧
      (∀ t ∈ pairUp root E nodes, ∃ l ∈ nodes, t.isPadding = l.isPadding) := by
  intro m
  induction m with
  | zero =>
    intro nodes h _ _
    have : nodes = [] := List.length_eq_zero_iff.1 (by omega)
    subst this; simp [pairUp, PadSuffix, allPoints]
  | succ m ih =>
    intro nodes h hp hg
    match nodes, h with
    | l :: r :: rest, h =>
      have hrest : rest.length = 2 * m := by simp at h; omega
      have hp' : PadSuffix rest := by
        unfold PadSuffix at hp ⊢
        exact (List.pairwise_cons.1 (List.pairwise_cons.1 hp).2).2
      obtain ⟨i1, i2, i3, i4⟩ := ih rest hrest hp' (fun t ht => hg t (by simp [ht]))
      have hlr : l.isPadding = true → r.isPadding = true := (List.pairwise_cons.1 hp).1 r (by simp)
      have hlall : ∀ t ∈ rest, l.isPadding = true → t.isPadding = true :=
        fun t ht => (List.pairwise_cons.1 hp).1 t (by simp [ht])
      refine ⟨?_, ?_, ?_, ?_⟩
      · unfold PadSuffix
        simp only [pairUp]
        refine List.pairwise_cons.2 ⟨?_, i1⟩
        intro t ht hpad
        rw [isPadding_pair] at hpad
        obtain ⟨l', hl', e⟩ := i4 t ht
        rw [e]; exact hlall l' hl' hpad
      · intro t ht
        simp only [pairUp, List.mem_cons] at ht
        rcases ht with rfl | ht
        · unfold pair
          split
          · trivial
          · have gl := hg l (by simp)
            have gr := hg r (by simp)
            refine ⟨?_, gl, gr⟩
            rw [hE.mul, gl.zerofier root, gr.zerofier root, zpoly_append]
        · exact i2 t ht
      · simp only [pairUp, allPoints, List.map_cons, List.flatten_cons] at i3 ⊢
        rw [points_pair root E l r hlr, i3]; simp
      · intro t ht
        simp only [pairUp, List.mem_cons] at ht
        rcases ht with rfl | ht
        · exact ⟨l, by simp, isPadding_pair root E l r⟩
        · obtain ⟨l', hl', e⟩ := i4 t ht
          exact ⟨l', by simp [hl'], e⟩

theorem levels_invariants {E : Ext K} (hE : E.Lawful) : ∀ (k : Nat) (nodes : List (ZTree K)),
    nodes.length = 2 ^ k → PadSuffix nodes → (∀ t ∈ nodes, t.Good) →
    (∀ t ∈ levels root E k nodes, t.Good) ∧ allPoints (levels root E k nodes) = allPoints nodes := by
  intro k
  induction k with
  | zero => intro nodes _ _ hg; exact ⟨hg, rfl⟩
  | succ k ih =>
    intro nodes h hp hg
    have h2 : nodes.length = 2 * 2 ^ k := by rw [h, pow_succ]; ring
    obtain ⟨i1, i2, i3, _⟩ := pairUp_invariants root hE (2 ^ k) nodes h2 hp hg
    obtain ⟨j1, j2⟩ := ih (pairUp root E nodes) (length_pairUp root E _ _ h2) i1 i2
    exact ⟨j1, by rw [← i3, ← j2]; rfl⟩

/-- what the deque loop returns on nodes whose count is a power of two: one tree, every stored zerofier right,
    the points in the order of the nodes -/
theorem treeLoop_spec {E : Ext K} (hE : E.Lawful) (k : Nat) (nodes : List (ZTree K)) (fuel : Nat)
    (hlen : nodes.length = 2 ^ k) (hf : 2 ^ k - 1 ≤ fuel) (hp : PadSuffix nodes) (hg : ∀ t ∈ nodes, t.Good) :
    ∃ t, treeLoop FK E fuel nodes = some t ∧ t.Good ∧ t.points = allPoints nodes := by
  obtain ⟨h1, h2⟩ := treeLoop_eq_levels root E k nodes fuel hlen hf
  obtain ⟨g1, g2⟩ := levels_invariants root hE k nodes hlen hp hg
  obtain ⟨t, ht⟩ : ∃ t, levels root E k nodes = [t] := List.length_eq_one_iff.1 h2
  refine ⟨t, by rw [h1, ht]; rfl, g1 t (by rw [ht]; simp), ?_⟩
  rw [← g2, ht]; simp [allPoints]


/-- a correct tree over the domain: what `ZerofierTree::new_from_domain` must deliver -/
def ZTree.Over (t : ZTree K) (domain : List K) : Prop := t.Good ∧ t.points = domain

theorem leaves_spec {chs : List (List K)} {leaves : List (ZTree K)}
    (hf : List.Forall₂ (fun (ch : List K) (lf : ZTree K) => lf.Good ∧ lf.points = ch ∧ lf.isPadding = false)
      chs leaves) :
    (∀ lf ∈ leaves, lf.Good ∧ lf.isPadding = false) ∧ allPoints leaves = chs.flatten := by
  induction hf with
  | nil => exact ⟨by simp, rfl⟩
  | cons h1 _ ih =>
    refine ⟨?_, ?_⟩
    · intro lf hlf
      rcases List.mem_cons.1 hlf with rfl | hlf
      · exact ⟨h1.1, h1.2.2⟩
      · exact ih.1 lf hlf
    · have := ih.2
      simp only [allPoints, List.map_cons, List.flatten_cons] at this ⊢
      rw [h1.2.1, this]

section tree
variable {E : Ext K} (hE : E.Lawful)
include hE

theorem tree_of_leaves {chs : List (List K)} {leaves : List (ZTree K)}
    (hf : List.Forall₂ (fun (ch : List K) (lf : ZTree K) => lf.Good ∧ lf.points = ch ∧ lf.isPadding = false)
      chs leaves) :
    ∃ t, treeLoop FK E (leaves ++ List.replicate (nextPow2 leaves.length - leaves.length) ZTree.padding).length
        (leaves ++ List.replicate (nextPow2 leaves.length - leaves.length) ZTree.padding) = some t
      ∧ t.Over chs.flatten := by
  obtain ⟨hgoodL, hptsL⟩ := leaves_spec hf
  obtain ⟨⟨k, hk2⟩, hle⟩ := nextPow2_spec leaves.length
  generalize hnodes : leaves ++ List.replicate (nextPow2 leaves.length - leaves.length) ZTree.padding = nodes
  have hlen : nodes.length = 2 ^ k := by rw [← hnodes]; simp; omega
  have hpts : allPoints nodes = chs.flatten := by
    rw [← hptsL, ← hnodes]
    simp [allPoints, ZTree.points]
  have hpad : PadSuffix nodes := by
    unfold PadSuffix
    rw [← hnodes, List.pairwise_append]
    refine ⟨?_, ?_, ?_⟩
    · exact List.Pairwise.imp_of_mem (R := fun _ _ => True)
        (fun ha _ _ hpa => by rw [(hgoodL _ ha).2] at hpa; cases hpa) (List.pairwise_of_forall (fun _ _ => trivial))
    · exact List.pairwise_replicate.2 (Or.inr (fun _ => rfl))
    · intro a _ b hb _
      rw [(List.mem_replicate.1 hb).2]; rfl
  have hgood : ∀ t ∈ nodes, t.Good := by
    intro t ht
    rw [← hnodes, List.mem_append] at ht
    rcases ht with ht | ht
    · exact (hgoodL t ht).1
    · rw [(List.mem_replicate.1 ht).2]; trivial
  obtain ⟨t', ht', g, pts⟩ := treeLoop_spec root hE k nodes nodes.length hlen (by omega) hpad hgood
  exact ⟨t', ht', g, by rw [pts, hpts]⟩

theorem leaf_ok (T : Nat) (ch : List K) (lf : ZTree K)
    (hlf : (do let z ← zerofierWith FK E T ch; pure (ZTree.leaf ch z)) = some lf) :
    lf.Good ∧ lf.points = ch ∧ lf.isPadding = false := by
  obtain ⟨z, hz, hlf⟩ := Option.bind_eq_some_iff.1 hlf
  simp only [Option.pure_def, Option.some.injEq] at hlf
  subst hlf
  exact ⟨zerofierWith_sound root hE T ch z hz, rfl, rfl⟩

/-- `new_from_domain`, any leaf size and cut-off: whatever is returned is a correct tree with the points in
    domain order -/
theorem newFromDomainWith_sound (RT T : Nat) (domain : List K) (t : ZTree K)
    (h : newFromDomainWith FK E RT T domain = some t) : t.Over domain := by
  unfold newFromDomainWith at h
  split at h
  · simp at h
  · next hrt =>
    have hk : 0 < RT := by
      rcases Nat.eq_zero_or_pos RT with h0 | h0
      · simp [h0] at hrt
      · exact h0
    obtain ⟨leaves, hm, h⟩ := Option.bind_eq_some_iff.1 h
    have hf := mapM_option_forall₂ (leaf_ok root hE T) _ _ hm
    obtain ⟨t', ht', hov⟩ := tree_of_leaves root hE hf
    rw [ht'] at h
    simp only [Option.some.injEq] at h
    subst h
    rw [flatten_chunks RT hk domain] at hov
    exact hov

/-- … and for leaf size `≥ 1` and cut-off `≥ 2` it returns -/
theorem newFromDomainWith_total (RT T : Nat) (hRT : 0 < RT) (hT : 2 ≤ T) (domain : List K) :
    ∃ t, newFromDomainWith FK E RT T domain = some t ∧ t.Over domain := by
  have hsome : ((chunks RT domain).mapM (fun ch => do
      let z ← zerofierWith FK E T ch
      pure (ZTree.leaf ch z))).isSome := by
    apply mapM_option_isSome
    intro ch _
    obtain ⟨z, hz⟩ := Option.isSome_iff_exists.1 (zerofierWith_total root (E := E) T hT ch)
    simp [hz]
  obtain ⟨leaves, hm⟩ := Option.isSome_iff_exists.1 hsome
  have hf := mapM_option_forall₂ (leaf_ok root hE T) _ _ hm
  obtain ⟨t', ht', _⟩ := tree_of_leaves root hE hf
  have : newFromDomainWith FK E RT T domain = some t' := by
    unfold newFromDomainWith
    have : ¬ (RT == 0) = true := by simp; omega
    rw [if_neg this]
    simp only [Option.bind_eq_bind] at hm ⊢
    rw [hm]
    exact ht'
  exact ⟨t', this, newFromDomainWith_sound root hE RT T domain t' this⟩

/-! ### bulk evaluation -/

omit hE in
theorem eval_mod_of_root (p z : K[X]) (x : K) (hx : z.eval x = 0) : (p % z).eval x = p.eval x := by
  conv_rhs => rw [← EuclideanDomain.div_add_mod p z]
  simp [hx]

/-- `divide_and_conquer_batch_evaluate` on a correct tree: the evaluations in the order of the points -/
theorem dcEval_spec (p : List K) : ∀ (t : ZTree K), t.Good →
    dcEval FK E p t = some (t.points.map (fun x => (denote p).eval x)) := by
  intro t
  induction t with
  | leaf pts z =>
    intro hg
    have hz : denote z = zpoly pts := hg
    have hne : Poly.isZero FK z = false := by
      rw [Bool.eq_false_iff]; intro h0
      exact zpoly_ne_zero pts (hz ▸ (isZero_iff root z).1 h0)
    simp only [dcEval, reduce, hne, Bool.false_eq_true, if_false, Option.bind_eq_bind, Option.bind_some,
      Option.pure_def, iterativeBatchEvaluate, ZTree.points, Option.some.injEq]
    apply List.map_congr_left
    intro x hx
    rw [eval_denote, hE.rem _ _ (hz ▸ zpoly_ne_zero pts), hz]
    exact eval_mod_of_root _ _ x ((eval_zpoly_eq_zero_iff pts x).2 hx)
  | branch z l r ihl ihr =>
    intro hg
    simp [dcEval, ihl hg.2.1, ihr hg.2.2, ZTree.points]
  | padding => intro _; simp [dcEval, ZTree.points]

/-- `batch_evaluate`, every ratio / leaf size / cut-off: whatever is returned are the evaluations in input order -/
theorem batchEvaluateWith_sound (R RT T : Nat) (p domain out : List K)
    (h : batchEvaluateWith FK E R RT T p domain = some out) :
    out = domain.map (fun x => (denote p).eval x) := by
  unfold batchEvaluateWith at h
  split at h
  · next hz =>
    simp only [Option.some.injEq] at h; subst h
    rw [(isZero_iff root p).1 hz]
    simp [List.map_const']
  · split at h
    · obtain ⟨t, ht, h⟩ := Option.bind_eq_some_iff.1 h
      obtain ⟨r, hr, h⟩ := Option.bind_eq_some_iff.1 h
      obtain ⟨hg, hpts⟩ := newFromDomainWith_sound root hE RT T domain t ht
      rw [dcEval_spec root hE r t hg] at h
      simp only [Option.some.injEq] at h; subst h
      unfold reduce at hr
      split at hr
      · simp at hr
      · simp only [Option.some.injEq] at hr; subst hr
        have hzne : denote (t.zerofier FK) ≠ 0 := by rw [hg.zerofier root]; exact zpoly_ne_zero _
        rw [hpts]
        apply List.map_congr_left
        intro x hx
        rw [hE.rem _ _ hzne, hg.zerofier root, hpts]
        exact eval_mod_of_root _ _ x ((eval_zpoly_eq_zero_iff domain x).2 hx)
    · obtain ⟨t, ht, h⟩ := Option.bind_eq_some_iff.1 h
      obtain ⟨hg, hpts⟩ := newFromDomainWith_sound root hE RT T domain t ht
      rw [dcEval_spec root hE p t hg, hpts] at h
      simp only [Option.some.injEq] at h; exact h.symm

theorem batchEvaluateWith_total (R RT T : Nat) (hRT : 0 < RT) (hT : 2 ≤ T) (p domain : List K) :
    batchEvaluateWith FK E R RT T p domain = some (domain.map (fun x => (denote p).eval x)) := by
  have hsome : (batchEvaluateWith FK E R RT T p domain).isSome := by
    obtain ⟨t, ht, hg, hpts⟩ := newFromDomainWith_total root hE RT T hRT hT domain
    unfold batchEvaluateWith
    split
    · simp
    · split
      · have hne : Poly.isZero FK (t.zerofier FK) = false := by
          rw [Bool.eq_false_iff]; intro h0
          exact zpoly_ne_zero t.points ((hg.zerofier root) ▸ (isZero_iff root _).1 h0)
        simp [ht, reduce, hne, dcEval_spec root hE _ t hg]
      · simp [ht, dcEval_spec root hE _ t hg]
  obtain ⟨out, hout⟩ := Option.isSome_iff_exists.1 hsome
  rw [hout, batchEvaluateWith_sound root hE R RT T p domain out hout]

/-- `par_batch_evaluate`, every thread count -/
theorem parBatchEvaluateWith_sound (R RT T threads : Nat) (p domain out : List K)
    (h : parBatchEvaluateWith FK E R RT T threads p domain = some out) :
    out = domain.map (fun x => (denote p).eval x) := by
  unfold parBatchEvaluateWith at h
  split at h
  · next hz =>
    simp only [Option.some.injEq] at h; subst h
    rcases Bool.or_eq_true_iff.1 hz with hd | hp
    · have : domain = [] := by simpa using hd
      subst this; rfl
    · rw [(isZero_iff root p).1 hp]; simp [List.map_const']
  · simp only at h
    split at h
    · simp at h
    · next hchunk =>
      obtain ⟨parts, hm, h⟩ := Option.bind_eq_some_iff.1 h
      simp only [Option.pure_def, Option.some.injEq] at h; subst h
      have hk : 0 < ceilDiv domain.length threads := by
        rcases Nat.eq_zero_or_pos (ceilDiv domain.length threads) with h0 | h0
        · simp [h0] at hchunk
        · exact h0
      have hf := mapM_option_forall₂
        (P := fun (ch o : List K) => o = ch.map (fun x => (denote p).eval x))
        (fun a b hab => batchEvaluateWith_sound root hE R RT T p a b hab) _ _ hm
      have hfl := flatten_chunks (ceilDiv domain.length threads) hk domain
      generalize chunks (ceilDiv domain.length threads) domain = chs at hf hfl
      rw [← hfl]
      exact forall₂_flatten_map _ hf

end tree


/-! ### Lagrange interpolation: synthetic division of the zerofier, weighted sum -/
section lagrange
open Classical

theorem degree_denote_lt (p : List K) : (denote p).degree < p.length := by
  rw [degree_lt_iff_coeff_zero]
  intro m hm
  rw [coeff_denote, getD_of_ge _ _ _ (by exact_mod_cast hm)]

theorem denote_take_of_natDegree (z : List K) (n : Nat) (h : (denote z).natDegree ≤ n) :
    denote (z.take (n + 1)) = denote z := by
  ext i
  rw [coeff_denote, coeff_denote]
  by_cases hi : i < n + 1
  · simp [List.getD_eq_getElem?_getD, hi]
  · have h0 : (denote z).coeff i = 0 := coeff_eq_zero_of_natDegree_lt (by omega)
    rw [coeff_denote] at h0
    rw [h0, getD_of_ge]
    simp; omega

/-- the synthetic-division loop: `rest` are the remaining zerofier coefficients in descending order -/
theorem synthGo_spec (x : K) : ∀ (rest : List K), rest ≠ [] → ∀ (lc ev : K) (acc : List K),
    ev = (denote acc).eval x →
    ∃ r : K, denote rest.reverse + X ^ rest.length * (C lc + (X - C x) * denote acc)
        = (X - C x) * denote (synthGo FK x lc ev acc rest).1 + C r
      ∧ (synthGo FK x lc ev acc rest).2 = (denote (synthGo FK x lc ev acc rest).1).eval x
      ∧ (synthGo FK x lc ev acc rest).1.length = acc.length + rest.length := by
  intro rest
  induction rest with
  | nil => intro h; exact absurd rfl h
  | cons s rest ih =>
    intro _ lc ev acc hev
    cases rest with
    | nil =>
      refine ⟨s + x * lc, ?_, ?_, ?_⟩
      · simp only [synthGo, List.reverse_cons, List.reverse_nil, List.nil_append, denote_cons, denote_nil,
          List.length_singleton, C_add, C_mul]
        ring
      · simp [synthGo, hev]; ring
      · simp [synthGo]
    | cons s' rest =>
      have h := ih (by simp) (s + lc * x) (ev * x + lc) (lc :: acc) (by simp [hev]; ring)
      obtain ⟨r, h1, h2, h3⟩ := h
      refine ⟨r, ?_, ?_, ?_⟩
      · simp only [synthGo, FieldOps.ofField_add, FieldOps.ofField_mul]
        rw [← h1]
        simp only [List.reverse_cons, denote_append, denote_cons, denote_nil, List.length_cons, List.length_append,
          List.length_reverse, List.length_nil, C_add, C_mul]
        ring
      · simpa only [synthGo, FieldOps.ofField_add, FieldOps.ofField_mul] using h2
      · simp only [synthGo, FieldOps.ofField_add, FieldOps.ofField_mul]
        rw [h3]; simp; omega

theorem zpoly_eq_mul_erase (domain : List K) (x : K) (hx : x ∈ domain) :
    zpoly domain = (X - C x) * zpoly (domain.erase x) := by
  induction domain with
  | nil => simp at hx
  | cons d ds ih =>
    by_cases hd : d = x
    · subst hd; simp
    · have hx' : x ∈ ds := by
        rcases List.mem_cons.1 hx with h | h
        · exact absurd h.symm hd
        · exact h
      rw [List.erase_cons_tail (by simpa using hd), zpoly_cons, zpoly_cons, ih hx']
      ring

/-- what one pass of the inner loop computes for the abscissa `x ∈ domain`: the cofactor `Z / (X - x)` and its
    value at `x` -/
theorem synth_zerofier (domain : List K) (x : K) (hx : x ∈ domain) (zn : K) (zs : List K)
    (hz : denote (zn :: zs).reverse = zpoly domain) (hlen : zs.length = domain.length) :
    denote (synthGo FK x zn 0 [] zs).1 = zpoly (domain.erase x)
    ∧ (synthGo FK x zn 0 [] zs).2 = (zpoly (domain.erase x)).eval x
    ∧ (synthGo FK x zn 0 [] zs).1.length = domain.length := by
  have hne : zs ≠ [] := by
    intro h; subst h
    cases domain with
    | nil => simp at hx
    | cons _ _ => simp at hlen
  obtain ⟨r, h1, h2, h3⟩ := synthGo_spec root x zs hne zn 0 [] (by simp)
  have hz' : denote zs.reverse + X ^ zs.length * C zn = zpoly domain := by
    rw [← hz, List.reverse_cons, denote_append]; simp
  simp only [denote_nil, mul_zero, add_zero] at h1
  rw [hz'] at h1
  have hr : r = 0 := by
    have := congrArg (eval x) h1
    simp only [eval_add, eval_mul, eval_sub, eval_X, eval_C, sub_self, zero_mul, zero_add] at this
    rw [← this, (eval_zpoly_eq_zero_iff domain x).2 hx]
  rw [hr, zpoly_eq_mul_erase domain x hx] at h1
  simp only [map_zero, add_zero] at h1
  have hq : denote (synthGo FK x zn 0 [] zs).1 = zpoly (domain.erase x) :=
    (mul_left_cancel₀ (X_sub_C_ne_zero x) h1).symm
  exact ⟨hq, by rw [h2, hq], by rw [h3, hlen]; simp⟩

theorem denote_zipWith_axpy' (c : K) : ∀ (u v : List K), u.length = v.length →
    denote (List.zipWith (fun a s => a + c * s) u v) = denote u + C c * denote v := by
  intro u
  induction u with
  | nil => intro v h; cases v <;> simp_all
  | cons a u ih =>
    intro v h
    cases v with
    | nil => simp at h
    | cons b v =>
      simp only [List.zipWith_cons_cons, denote_cons, C_add, C_mul]
      rw [ih v (by simpa using h)]
      ring

theorem denote_zipWith_axpy (c : K) (u v : List K) (h : u.length = v.length) :
    denote (List.zipWith (fun a s => (FK).add a ((FK).mul c s)) u v) = denote u + C c * denote v :=
  denote_zipWith_axpy' c u v h

/-- the weighted sum of cofactors the outer loop accumulates -/
noncomputable def lsum (domain : List K) (pairs : List (K × K)) : K[X] :=
  (pairs.map (fun p => C (p.2 / (zpoly (domain.erase p.1)).eval p.1) * zpoly (domain.erase p.1))).sum

theorem lagrangeLoop_spec (domain : List K) (hn : domain.Nodup) (zn : K) (zs : List K)
    (hz : denote (zn :: zs).reverse = zpoly domain) (hlen : zs.length = domain.length) :
    ∀ (pairs : List (K × K)) (sum : List K), (∀ p ∈ pairs, p.1 ∈ domain) → sum.length = domain.length →
    ∃ f, lagrangeLoop FK (zn :: zs) pairs sum = some f ∧ f.length = domain.length
      ∧ denote f = denote sum + lsum domain pairs := by
  intro pairs
  induction pairs with
  | nil => intro sum _ hs; exact ⟨sum, rfl, hs, by simp [lsum]⟩
  | cons p pairs ih =>
    intro sum hmem hs
    obtain ⟨x, y⟩ := p
    have hx : x ∈ domain := hmem (x, y) (by simp)
    obtain ⟨q1, q2, q3⟩ := synth_zerofier root domain x hx zn zs hz hlen
    have hev : (zpoly (domain.erase x)).eval x ≠ 0 := by
      rw [Ne, eval_zpoly_eq_zero_iff]
      intro h
      exact (List.Nodup.mem_erase_iff hn).1 h |>.1 rfl
    rw [lagrangeLoop]
    simp only
    have hnz : (FK).isZero (synthGo FK x zn (FK).zero [] zs).2 = false := by
      rw [FieldOps.ofField_zero, q2]; simpa using hev
    rw [hnz]
    simp only [Bool.false_eq_true, if_false]
    obtain ⟨f, hf1, hf2, hf3⟩ := ih
      (List.zipWith (fun a s => (FK).add a ((FK).mul ((FK).div y (synthGo FK x zn (FK).zero [] zs).2) s)) sum
        (synthGo FK x zn (FK).zero [] zs).1)
      (fun p hp => hmem p (by simp [hp]))
      (by simp only [FieldOps.ofField_zero, List.length_zipWith, q3, hs]; simp)
    refine ⟨f, hf1, hf2, ?_⟩
    rw [hf3, denote_zipWith_axpy root _ _ _ (by rw [FieldOps.ofField_zero, q3, hs])]
    simp only [FieldOps.ofField_zero] at q1 q2 ⊢
    rw [q1, q2]
    simp only [lsum, List.map_cons, List.sum_cons, FieldOps.div, FieldOps.ofField_mul, FieldOps.ofField_inv,
      div_eq_mul_inv]
    ring

theorem eval_lsum (domain : List K) (hn : domain.Nodup) : ∀ (pairs : List (K × K)),
    (pairs.map (·.1)).Nodup → (∀ p ∈ pairs, p.1 ∈ domain) → ∀ p ∈ pairs, (lsum domain pairs).eval p.1 = p.2 := by
  intro pairs
  induction pairs with
  | nil => intro _ _ p hp; simp at hp
  | cons p0 pairs ih =>
    intro hnd hmem p hp
    have hnd2 : (p0.1 :: pairs.map (·.1)).Nodup := hnd
    have hnd' := (List.nodup_cons.1 hnd2).2
    have hnot : p0.1 ∉ pairs.map (·.1) := (List.nodup_cons.1 hnd2).1
    have hcof : ∀ a b : K, a ∈ domain → b ∈ domain → a ≠ b → (zpoly (domain.erase b)).eval a = 0 := by
      intro a b ha _ hab
      rw [eval_zpoly_eq_zero_iff]
      exact (List.Nodup.mem_erase_iff hn).2 ⟨hab, ha⟩
    have hself : ∀ a : K, a ∈ domain → (zpoly (domain.erase a)).eval a ≠ 0 := by
      intro a _
      rw [Ne, eval_zpoly_eq_zero_iff]
      intro h
      exact (List.Nodup.mem_erase_iff hn).1 h |>.1 rfl
    simp only [lsum, List.map_cons, List.sum_cons, eval_add, eval_mul, eval_C]
    rcases List.mem_cons.1 hp with rfl | hp'
    · -- the head term gives y, every other term vanishes
      have hrest : ((pairs.map (fun q => C (q.2 / (zpoly (domain.erase q.1)).eval q.1) *
          zpoly (domain.erase q.1))).sum).eval p.1 = 0 := by
        rw [eval_listSum]
        apply List.sum_eq_zero
        intro v hv
        simp only [List.map_map, List.mem_map, Function.comp] at hv
        obtain ⟨q, hq, rfl⟩ := hv
        have hne : p.1 ≠ q.1 := fun e => hnot (e ▸ List.mem_map_of_mem hq)
        simp [hcof p.1 q.1 (hmem p (by simp)) (hmem q (by simp [hq])) hne]
      rw [hrest, add_zero, div_mul_cancel₀ _ (hself p.1 (hmem p (by simp)))]
    · have hne : p.1 ≠ p0.1 := fun e => hnot (e ▸ List.mem_map_of_mem hp')
      rw [hcof p.1 p0.1 (hmem p (by simp [hp'])) (hmem p0 (by simp)) hne, mul_zero, zero_add]
      exact ih hnd' (fun q hq => hmem q (by simp [hq])) p hp'

end lagrange

section lagrange2
variable {E : Ext K} (hE : E.Lawful)
include hE

/-- `lagrange_interpolate` on pairwise distinct abscissae: returns (whenever `zerofier` returns), and the result
    passes the certificate -/
theorem lagrangeInterpolateWith_spec (T : Nat) (domain values : List K) (hn : domain.Nodup)
    (hl : domain.length = values.length) (hz : (zerofierWith FK E T domain).isSome) :
    ∃ f, lagrangeInterpolateWith FK E T domain values = some f ∧ f.length = domain.length
      ∧ Interpolates domain values (denote f) := by
  classical
  obtain ⟨z, hz⟩ := Option.isSome_iff_exists.1 hz
  have hzd := zerofierWith_sound root hE T domain z hz
  have hnat : (denote z).natDegree = domain.length := by rw [hzd, natDegree_zpoly]
  have hzne : z ≠ [] := by
    intro h; subst h
    exact zpoly_ne_zero domain (by rw [← hzd]; rfl)
  have hzlen : domain.length + 1 ≤ z.length := by
    have := natDegree_denote_lt z hzne
    rw [hnat] at this
    omega
  have htake : denote (z.take (domain.length + 1)) = zpoly domain := by
    rw [denote_take_of_natDegree z _ (le_of_eq hnat), hzd]
  obtain ⟨zn, zs, hzz⟩ : ∃ zn zs, (z.take (domain.length + 1)).reverse = zn :: zs := by
    cases h : (z.take (domain.length + 1)).reverse with
    | nil =>
      have := congrArg List.length h
      simp at this; exact absurd this hzne
    | cons a b => exact ⟨a, b, rfl⟩
  have hzslen : zs.length = domain.length := by
    have := congrArg List.length hzz
    simp at this; omega
  have hzrev : denote (zn :: zs).reverse = zpoly domain := by
    rw [← hzz, List.reverse_reverse, htake]
  have hmem : ∀ p ∈ domain.zip values, p.1 ∈ domain := fun p hp => (List.of_mem_zip hp).1
  obtain ⟨f, hf1, hf2, hf3⟩ := lagrangeLoop_spec root domain hn zn zs hzrev hzslen (domain.zip values)
    (List.replicate domain.length (FK).zero) hmem (by simp)
  refine ⟨f, ?_, hf2, ?_, ?_⟩
  · unfold lagrangeInterpolateWith
    simp only [hz, Option.bind_eq_bind, Option.bind_some]
    rw [if_neg (by omega), if_neg (by omega), hzz]
    exact hf1
  · rw [← hf2]; exact degree_denote_lt f
  · intro p hp
    rw [hf3]
    simp only [FieldOps.ofField_zero, denote_replicate_zero, zero_add]
    apply eval_lsum domain hn (domain.zip values) _ hmem p hp
    rw [List.map_fst_zip (by omega)]
    exact hn

end lagrange2


/-! ### divide and conquer interpolation `f = L·Z_R + R·Z_L`, the dispatchers -/
section dc
variable {E : Ext K} (hE : E.Lawful)
include hE

/-- `par_batch_evaluate` returns for every thread count `≥ 1` -/
theorem parBatchEvaluateWith_total (R RT T threads : Nat) (hRT : 0 < RT) (hT : 2 ≤ T) (hth : 0 < threads)
    (p domain : List K) :
    parBatchEvaluateWith FK E R RT T threads p domain = some (domain.map (fun x => (denote p).eval x)) := by
  have hsome : (parBatchEvaluateWith FK E R RT T threads p domain).isSome := by
    unfold parBatchEvaluateWith
    split
    · simp
    · next hne =>
      simp only
      have hdom : domain ≠ [] := by
        intro h; subst h; simp at hne
      have hlen : 0 < domain.length := List.length_pos_iff.2 hdom
      have hk : 0 < ceilDiv domain.length threads := by
        unfold ceilDiv
        apply Nat.div_pos <;> omega
      rw [if_neg (by simp; omega)]
      have : ((chunks (ceilDiv domain.length threads) domain).mapM (batchEvaluateWith FK E R RT T p)).isSome := by
        apply mapM_option_isSome
        intro ch _
        rw [batchEvaluateWith_total root hE R RT T hRT hT p ch]; rfl
      obtain ⟨parts, hp⟩ := Option.isSome_iff_exists.1 this
      simp [hp]
  obtain ⟨out, hout⟩ := Option.isSome_iff_exists.1 hsome
  rw [hout, parBatchEvaluateWith_sound root hE R RT T threads p domain out hout]

omit hE in
theorem zip_zipWith_map {α β : Type} (g : α → β) (m : β → β → β) : ∀ (xs : List α) (ys : List β),
    xs.zip (List.zipWith m ys (xs.map g)) = (xs.zip ys).map (fun p => (p.1, m p.2 (g p.1))) := by
  intro xs
  induction xs with
  | nil => intro ys; simp
  | cons x xs ih =>
    intro ys
    cases ys with
    | nil => simp
    | cons y ys => simp [ih]

omit hE in
theorem batchInversion_map (xs : List K) (h : ∀ x ∈ xs, x ≠ 0) :
    batchInversion FK xs = some (xs.map (fun x => x⁻¹)) := by
  unfold batchInversion
  have : xs.any (FK).isZero = false := by
    rw [List.any_eq_false]
    intro x hx
    simpa using h x hx
  rw [this]; rfl

/-- evaluator contract used by the interpolation routines -/
def BevOK (bev : List K → List K → Option (List K)) : Prop :=
  ∀ p d, bev p d = some (d.map (fun x => (denote p).eval x))

/-- interpolator contract on a class of domains -/
def InterpOK (interp : List K → List K → Option (List K)) (bound : Nat) : Prop :=
  ∀ d v, d ≠ [] → d.length < bound → d.Nodup → d.length = v.length →
    ∃ f, interp d v = some f ∧ Interpolates d v (denote f)

omit hE in
/-- one half of the divide-and-conquer identity: the half interpolant through the rescaled targets, times the
    zerofier of the other half, takes the original values on its own half -/
theorem half_eval (own other : List K) (vals : List K) (hdisj : ∀ x ∈ own, x ∉ other)
    (hi : K[X]) (hhi : Interpolates own
      (List.zipWith (· * ·) vals ((own.map (fun x => (zpoly other).eval x)).map (fun x => x⁻¹))) hi) :
    ∀ p ∈ own.zip vals, hi.eval p.1 * (zpoly other).eval p.1 = p.2 := by
  intro p hp
  have hmem : (p.1, p.2 * ((zpoly other).eval p.1)⁻¹) ∈
      own.zip (List.zipWith (· * ·) vals ((own.map (fun x => (zpoly other).eval x)).map (fun x => x⁻¹))) := by
    rw [List.map_map, zip_zipWith_map]
    exact List.mem_map.2 ⟨p, hp, rfl⟩
  have := hhi.2 _ hmem
  simp only at this
  rw [this]
  have hne : (zpoly other).eval p.1 ≠ 0 := by
    rw [Ne, eval_zpoly_eq_zero_iff]
    exact hdisj p.1 (List.of_mem_zip hp).1
  field_simp

/-- body of `fast_interpolate` / `par_fast_interpolate`, any zerofier cut-off `≥ 2` -/
theorem fastInterpolateStep_spec (zfT : Nat) (hT : 2 ≤ zfT) (interp : List K → List K → Option (List K))
    (bev : List K → List K → Option (List K)) (hbev : BevOK bev) (domain values : List K)
    (hinterp : InterpOK interp domain.length)
    (hne : domain ≠ []) (hn : domain.Nodup) (hl : domain.length = values.length) :
    ∃ f, fastInterpolateStep FK E zfT interp bev domain values = some f ∧ Interpolates domain values (denote f) := by
  unfold fastInterpolateStep
  by_cases h1 : domain.length = 1
  · -- a single point: the constant polynomial
    obtain ⟨x, rfl⟩ := List.length_eq_one_iff.1 h1
    obtain ⟨v, rfl⟩ := List.length_eq_one_iff.1 (hl ▸ h1 : values.length = 1)
    refine ⟨[v], by simp, ?_, ?_⟩
    · simp only [denote_cons, denote_nil, mul_zero, add_zero, List.length_singleton, Nat.cast_one]
      exact lt_of_le_of_lt degree_C_le (by norm_num)
    · intro p hp; simp at hp; subst hp; simp
  · have hlen : 2 ≤ domain.length := by
      have := List.length_pos_iff.2 hne; omega
    rw [if_neg (by simpa using h1)]
    simp only
    rw [if_neg (by omega)]
    set mid := domain.length / 2 with hmid
    have hmid1 : 1 ≤ mid := by omega
    have hmid2 : mid < domain.length := by omega
    obtain ⟨lz, hlz⟩ := Option.isSome_iff_exists.1 (zerofierWith_total root (E := E) zfT hT (domain.take mid))
    obtain ⟨rz, hrz⟩ := Option.isSome_iff_exists.1 (zerofierWith_total root (E := E) zfT hT (domain.drop mid))
    have hlzd := zerofierWith_sound root hE zfT _ _ hlz
    have hrzd := zerofierWith_sound root hE zfT _ _ hrz
    have hsplit : domain.take mid ++ domain.drop mid = domain := List.take_append_drop mid domain
    have hnd : (domain.take mid ++ domain.drop mid).Nodup := by rw [hsplit]; exact hn
    obtain ⟨hnl, hnr, hdisj⟩ := List.nodup_append.1 hnd
    have hdisjL : ∀ x ∈ domain.take mid, x ∉ domain.drop mid := fun x hx hx' => hdisj x hx x hx' rfl
    have hdisjR : ∀ x ∈ domain.drop mid, x ∉ domain.take mid := fun x hx hx' => hdisj x hx' x hx rfl
    -- offsets are non-zero, batch inversion succeeds
    have hloi : batchInversion FK ((domain.take mid).map (fun x => (denote rz).eval x))
        = some (((domain.take mid).map (fun x => (denote rz).eval x)).map (fun x => x⁻¹)) := by
      apply batchInversion_map
      intro y hy
      obtain ⟨x, hx, rfl⟩ := List.mem_map.1 hy
      rw [hrzd, Ne, eval_zpoly_eq_zero_iff]; exact hdisjL x hx
    have hroi : batchInversion FK ((domain.drop mid).map (fun x => (denote lz).eval x))
        = some (((domain.drop mid).map (fun x => (denote lz).eval x)).map (fun x => x⁻¹)) := by
      apply batchInversion_map
      intro y hy
      obtain ⟨x, hx, rfl⟩ := List.mem_map.1 hy
      rw [hlzd, Ne, eval_zpoly_eq_zero_iff]; exact hdisjR x hx
    have hll : (domain.take mid).length = mid := by simp; omega
    have hrl : (domain.drop mid).length = domain.length - mid := by simp
    obtain ⟨li, hli, hliI⟩ := hinterp (domain.take mid)
      (List.zipWith (FK).mul (values.take mid)
        (((domain.take mid).map (fun x => (denote rz).eval x)).map (fun x => x⁻¹)))
      (by intro h; rw [h] at hll; simp at hll; omega) (by omega) hnl
      (by simp; omega)
    obtain ⟨ri, hri, hriI⟩ := hinterp (domain.drop mid)
      (List.zipWith (FK).mul (values.drop mid)
        (((domain.drop mid).map (fun x => (denote lz).eval x)).map (fun x => x⁻¹)))
      (by intro h; rw [h] at hrl; simp at hrl; omega) (by omega) hnr
      (by simp; omega)
    refine ⟨add FK (E.mul li rz) (E.mul ri lz), ?_, ?_, ?_⟩
    · simp only [hlz, hrz, hbev rz _, hbev lz _, Option.bind_eq_bind, Option.bind_some, hloi, hli, hroi, hri,
        Option.pure_def]
    · -- degree
      rw [denote_add, hE.mul, hE.mul, hlzd, hrzd]
      have dl : (denote li * zpoly (domain.drop mid)).degree < domain.length := by
        rw [degree_mul, degree_zpoly, hrl]
        have := hliI.1
        rw [hll] at this
        have h2 : ((mid : ℕ) : WithBot ℕ) + ((domain.length - mid : ℕ) : WithBot ℕ) = (domain.length : WithBot ℕ) := by
          rw [← Nat.cast_add]; congr 1; omega
        rw [← h2]
        exact WithBot.add_lt_add_right (by simp) this
      have dr : (denote ri * zpoly (domain.take mid)).degree < domain.length := by
        rw [degree_mul, degree_zpoly, hll]
        have := hriI.1
        rw [hrl] at this
        have h2 : ((domain.length - mid : ℕ) : WithBot ℕ) + ((mid : ℕ) : WithBot ℕ) = (domain.length : WithBot ℕ) := by
          rw [← Nat.cast_add]; congr 1; omega
        rw [← h2]
        exact WithBot.add_lt_add_right (by simp) this
      exact lt_of_le_of_lt (degree_add_le _ _) (max_lt dl dr)
    · -- values
      intro p hp
      have hzip : domain.zip values = (domain.take mid).zip (values.take mid) ++ (domain.drop mid).zip (values.drop mid) := by
        conv_lhs => rw [← hsplit, ← List.take_append_drop mid values]
        rw [List.zip_append]
        simp; omega
      rw [hzip, List.mem_append] at hp
      rw [denote_add, hE.mul, hE.mul, hlzd, hrzd, eval_add, eval_mul, eval_mul]
      have hliI' : Interpolates (domain.take mid)
          (List.zipWith (· * ·) (values.take mid)
            (((domain.take mid).map (fun x => (zpoly (domain.drop mid)).eval x)).map (fun x => x⁻¹))) (denote li) := by
        rw [← hrzd]; exact hliI
      have hriI' : Interpolates (domain.drop mid)
          (List.zipWith (· * ·) (values.drop mid)
            (((domain.drop mid).map (fun x => (zpoly (domain.take mid)).eval x)).map (fun x => x⁻¹))) (denote ri) := by
        rw [← hlzd]; exact hriI
      rcases hp with hp | hp
      · rw [half_eval _ _ _ hdisjL _ hliI' p hp,
          (eval_zpoly_eq_zero_iff (domain.take mid) p.1).2 (List.of_mem_zip hp).1]
        ring
      · rw [half_eval _ _ _ hdisjR _ hriI' p hp,
          (eval_zpoly_eq_zero_iff (domain.drop mid) p.1).2 (List.of_mem_zip hp).1]
        ring

/-- `interpolate` / `par_interpolate`: the dispatcher with any cut-off `cut`, any evaluator satisfying its contract -/
theorem interpolateFuel_spec (t : Thr) (hT : 2 ≤ t.zf) (cut : Nat) (bev : List K → List K → Option (List K))
    (hbev : BevOK bev) : ∀ (fuel : Nat), InterpOK (interpolateFuel FK E t cut bev fuel) fuel := by
  intro fuel
  induction fuel with
  | zero => intro d v _ h; omega
  | succ fuel ih =>
    intro d v hne hlen hn hl
    rw [interpolateFuel]
    rw [if_neg (by simpa using hne), if_neg (by simpa using hl)]
    split
    · obtain ⟨f, hf, _, hI⟩ := lagrangeInterpolateWith_spec root hE t.zf d v hn hl
        (zerofierWith_total root (E := E) t.zf hT d)
      exact ⟨f, hf, hI⟩
    · apply fastInterpolateStep_spec root hE t.zf hT _ bev hbev d v _ hne hn hl
      intro d' v' hne' hlen' hn' hl'
      exact ih d' v' hne' (by omega) hn' hl'

end dc


/-! ### cosets: NTT-based evaluation and interpolation, extrapolation -/
section coset

/-- what C06 proves about `ntt` / `intt` for the root `ω = root n` of the table: the forward transform evaluates at
    the powers of `ω`; the inverse transform returns the coefficients (length `n`) of the polynomial taking the
    given values there, provided the `n` powers are pairwise distinct (`ω` primitive) -/
structure Ext.LawfulNtt (E : Ext K) : Prop where
  ntt : ∀ (xs : List K) (ω : K), root xs.length = some ω →
    E.ntt xs = (List.range xs.length).map (fun i => (denote xs).eval (ω ^ i))
  intt : ∀ (vs : List K) (ω : K), root vs.length = some ω →
    ((List.range vs.length).map (fun i => ω ^ i)).Nodup →
    Interpolates ((List.range vs.length).map (fun i => ω ^ i)) vs (denote (E.intt vs))

/-- the coset `offset·⟨ω⟩` in the order the code enumerates it -/
def cosetDomain (offset ω : K) (n : Nat) : List K := (List.range n).map (fun i => offset * ω ^ i)

theorem geom_eq (g : K) : ∀ (n : Nat) (x0 : K), geom FK x0 g n = (List.range n).map (fun i => x0 * g ^ i) := by
  intro n
  induction n with
  | zero => intro x0; rfl
  | succ n ih =>
    intro x0
    rw [geom, ih, List.range_succ_eq_map]
    simp only [List.map_cons, pow_zero, mul_one, List.map_map, FieldOps.ofField_mul]
    congr 1
    apply List.map_congr_left
    intro i _
    simp [pow_succ]; ring

theorem cosetDomain_eq_map (offset ω : K) (n : Nat) :
    cosetDomain offset ω n = ((List.range n).map (fun i => ω ^ i)).map (fun x => offset * x) := by
  simp [cosetDomain]

theorem denote_resize (q : List K) (n : Nat) (h : ∀ i, n ≤ i → (denote q).coeff i = 0) :
    denote (resize FK q n) = denote q := by
  ext i
  rw [coeff_denote, coeff_denote, resize]
  by_cases hi : i < n
  · by_cases hq : i < q.length
    · rw [List.getD_eq_getElem?_getD, List.getD_eq_getElem?_getD, List.getElem?_append_left (by simp; omega),
        List.getElem?_take_of_lt hi]
    · have h1 : q.getD i 0 = 0 := getD_of_ge _ _ _ (by omega)
      have hlen : (q.take n).length = q.length := by simp; omega
      rw [h1, List.getD_eq_getElem?_getD, List.getElem?_append_right (by omega), hlen,
        List.getElem?_replicate, if_pos (by omega)]
      rfl
  · have h0 := h i (by omega)
    rw [coeff_denote] at h0
    rw [h0, getD_of_ge]
    simp; omega

theorem length_resize (q : List K) (n : Nat) : (resize FK q n).length = n := by
  simp [resize]; omega

variable {E : Ext K} (hN : Ext.LawfulNtt root E)
include hN

/-- `fast_coset_evaluate`: whatever it returns are the values on `offset·ω^i`, `i < order`, in order -/
theorem fastCosetEvaluate_sound (p : List K) (offset : K) (order : Nat) (ω : K) (hω : root order = some ω)
    (out : List K) (h : fastCosetEvaluate FK E p offset order = some out) :
    out = (cosetDomain offset ω order).map (fun x => (denote p).eval x) := by
  unfold fastCosetEvaluate at h
  split at h
  · simp at h
  · next hdeg =>
    have hdeg' : degSucc FK p ≤ order := by simpa using hdeg
    unfold nttChecked at h
    split at h
    · simp only [Option.some.injEq] at h
      subst h
      have hl := length_resize root (scale FK p offset) order
      rw [hN.ntt _ ω (by rw [hl]; exact hω), hl, cosetDomain, List.map_map]
      apply List.map_congr_left
      intro i _
      rw [denote_resize, denote_scale, eval_comp]
      · simp
      · intro j hj
        rw [denote_scale, comp_C_mul_X_coeff, coeff_denote,
          getD_eq_zero_of_ge root p j (le_trans hdeg' hj), zero_mul]
    · simp at h

omit hN in
theorem Interpolates.scale_domain {xs ys : List K} {f : K[X]} (hf : Interpolates xs ys f) (a : K) (ha : a ≠ 0) :
    Interpolates (xs.map (fun x => a * x)) ys (f.comp (C a⁻¹ * X)) := by
  refine ⟨?_, ?_⟩
  · rw [List.length_map, degree_lt_iff_coeff_zero]
    intro m hm
    rw [comp_C_mul_X_coeff, (degree_lt_iff_coeff_zero _ _).1 hf.1 m hm, zero_mul]
  · intro p hp
    rw [List.zip_map_left, List.mem_map] at hp
    obtain ⟨q, hq, rfl⟩ := hp
    simp only [Prod.map_fst, Prod.map_snd, id_eq, eval_comp, eval_mul, eval_C, eval_X]
    rw [← mul_assoc, inv_mul_cancel₀ ha, one_mul]
    exact hf.2 q hq

/-- `fast_coset_interpolate`: whatever it returns passes the certificate on the coset (for a primitive `ω`) -/
theorem fastCosetInterpolate_sound (offset : K) (values : List K) (ω : K) (hω : root values.length = some ω)
    (hprim : ((List.range values.length).map (fun i => ω ^ i)).Nodup)
    (f : List K) (h : fastCosetInterpolate FK E offset values = some f) :
    Interpolates (cosetDomain offset ω values.length) values (denote f) := by
  unfold fastCosetInterpolate at h
  obtain ⟨c, hc, h⟩ := Option.bind_eq_some_iff.1 h
  split at h
  · simp at h
  · next hoff =>
    simp only [Option.pure_def, Option.some.injEq] at h
    subst h
    have hoff' : offset ≠ 0 := by simpa using hoff
    unfold inttChecked at hc
    split at hc
    · simp only [Option.some.injEq] at hc
      subst hc
      rw [denote_scale, cosetDomain_eq_map]
      exact (hN.intt values ω hω hprim).scale_domain offset hoff'
    · simp at hc


variable (hE : E.Lawful)
include hE

omit hN hE in
theorem cosetDomain_nodup (offset ω : K) (n : Nat) (hoff : offset ≠ 0)
    (hprim : ((List.range n).map (fun i => ω ^ i)).Nodup) : (cosetDomain offset ω n).Nodup := by
  rw [cosetDomain_eq_map]
  exact hprim.map (fun a b hab => mul_left_cancel₀ hoff hab)

omit hN hE in
theorem length_cosetDomain (offset ω : K) (n : Nat) : (cosetDomain offset ω n).length = n := by
  simp [cosetDomain]

/-- `naive_coset_extrapolate` (INTT, scale by the inverse offset, bulk evaluation): the values of the coset
    interpolant at the points -/
theorem naiveCosetExtrapolate_sound (t : Thr) (offset : K) (codeword points : List K) (ω : K)
    (hω : root codeword.length = some ω) (hprim : ((List.range codeword.length).map (fun i => ω ^ i)).Nodup)
    (out : List K) (h : naiveCosetExtrapolate FK E t offset codeword points = some out) :
    ∃ g : K[X], Interpolates (cosetDomain offset ω codeword.length) codeword g ∧
      out = points.map (fun x => g.eval x) := by
  unfold naiveCosetExtrapolate at h
  obtain ⟨c, hc, h⟩ := Option.bind_eq_some_iff.1 h
  split at h
  · simp at h
  · next hoff =>
    have hoff' : offset ≠ 0 := by simpa using hoff
    have hfi : fastCosetInterpolate FK E offset codeword = some (scale FK c ((FK).inv offset)) := by
      unfold fastCosetInterpolate
      rw [hc]; simp [hoff]
    exact ⟨_, fastCosetInterpolate_sound root hN offset codeword ω hω hprim _ hfi,
      batchEvaluateWith_sound root hE _ _ _ _ _ _ h⟩

omit hN hE in
theorem fmciPreprocess_modulus (n : Nat) (offset : K) (modulus : List K) (pre : Pre K)
    (h : fmciPreprocess FK E n offset modulus = some pre) : pre.modulus = modulus ∧ denote modulus ≠ 0 := by
  unfold fmciPreprocess at h
  obtain ⟨ω, _, h⟩ := Option.bind_eq_some_iff.1 h
  simp only at h
  split_ifs at h with h1 h2 h3 hz
  simp only [Option.pure_def, Option.some.injEq] at h
  subst h
  refine ⟨rfl, ?_⟩
  intro h0
  exact hz ((isZero_iff root modulus).2 h0)

omit hN hE in
theorem reduce_eq (p m : List K) (r : List K) (h : reduce FK E p m = some r) :
    denote m ≠ 0 ∧ r = E.rem p m := by
  unfold reduce at h
  split at h
  · simp at h
  · next hz =>
    simp only [Option.some.injEq] at h
    exact ⟨fun h0 => hz ((isZero_iff root m).2 h0), h.symm⟩

/-- `fast_modular_coset_interpolate…with_zerofiers_and_ntt_friendly_multiple`, Lagrange arm and INTT-then-reduce arm
    (codeword length up to the INTT cut-off, **for every value of both cut-offs**): the coset interpolant modulo
    the modulus -/
theorem fmciWithFuel_sound_small (t : Thr) (hT : 2 ≤ t.zf) (fuel : Nat) (values : List K) (offset : K)
    (modulus : List K) (pre : Pre K)
    (hpre : pre.modulus = modulus) (hoff : offset ≠ 0) (hsmall : values.length ≤ t.intt ∨ values.length < t.lag)
    (ω : K) (hω : root values.length = some ω)
    (hprim : ((List.range values.length).map (fun i => ω ^ i)).Nodup)
    (r : List K) (h : fmciWithFuel FK E t (fuel + 1) values offset modulus pre = some r) :
    ∃ g : K[X], Interpolates (cosetDomain offset ω values.length) values g ∧
      denote r = g % denote modulus := by
  rw [fmciWithFuel] at h
  split at h
  · simp at h
  · simp only [FieldOps.ofField_rootOfUnity, hω] at h
    split at h
    · -- Lagrange on the explicit coset, then reduce
      obtain ⟨f, hf, h⟩ := Option.bind_eq_some_iff.1 h
      obtain ⟨hm, rfl⟩ := reduce_eq root f modulus r h
      rw [geom_eq] at hf
      have hnd := cosetDomain_nodup offset ω values.length hoff hprim
      obtain ⟨f', hf', _, hI⟩ := lagrangeInterpolateWith_spec root hE t.zf (cosetDomain offset ω values.length) values
        hnd (by rw [length_cosetDomain]) (zerofierWith_total root (E := E) t.zf hT _)
      have : f = f' := by
        have e : (List.range values.length).map (fun i => offset * ω ^ i) = cosetDomain offset ω values.length := rfl
        rw [e, hf'] at hf
        exact (Option.some.inj hf).symm
      subst this
      exact ⟨denote f, hI, hE.rem _ _ hm⟩
    · next hlag =>
      split at h
      · -- INTT, scale, chunk-wise reduction, reduce
        obtain ⟨c, hc, h⟩ := Option.bind_eq_some_iff.1 h
        split at h
        · simp at h
        · next hoffz =>
          obtain ⟨hm, rfl⟩ := reduce_eq root _ modulus r h
          have hfi : fastCosetInterpolate FK E offset values = some (scale FK c ((FK).inv offset)) := by
            unfold fastCosetInterpolate
            rw [hc]; simp [hoffz]
          refine ⟨_, fastCosetInterpolate_sound root hN offset values ω hω hprim _ hfi, ?_⟩
          rw [hE.rem _ _ hm, hpre]
          exact mod_eq_of_dvd_sub (hE.redNtt _ _ hm)
      · next hintt =>
        exfalso
        rcases hsmall with h1 | h1
        · exact hintt h1
        · exact hlag h1

theorem fmciWith_sound_small (t : Thr) (hT : 2 ≤ t.zf) (values : List K) (offset : K) (modulus : List K) (pre : Pre K)
    (hpre : pre.modulus = modulus) (hoff : offset ≠ 0) (hsmall : values.length ≤ t.intt ∨ values.length < t.lag)
    (ω : K) (hω : root values.length = some ω)
    (hprim : ((List.range values.length).map (fun i => ω ^ i)).Nodup)
    (r : List K) (h : fmciWith FK E t values offset modulus pre = some r) :
    ∃ g : K[X], Interpolates (cosetDomain offset ω values.length) values g ∧
      denote r = g % denote modulus :=
  fmciWithFuel_sound_small root hN hE t hT _ values offset modulus pre hpre hoff hsmall ω hω hprim r h

/-- `fast_coset_extrapolate`: modular interpolation by the zerofier of the points, then tree evaluation -/
theorem fastCosetExtrapolate_sound (t : Thr) (hT : 2 ≤ t.zf) (offset : K) (codeword points : List K)
    (hoff : offset ≠ 0) (hsmall : codeword.length ≤ t.intt ∨ codeword.length < t.lag) (ω : K)
    (hω : root codeword.length = some ω) (hprim : ((List.range codeword.length).map (fun i => ω ^ i)).Nodup)
    (out : List K) (h : fastCosetExtrapolate FK E t offset codeword points = some out) :
    ∃ g : K[X], Interpolates (cosetDomain offset ω codeword.length) codeword g ∧
      out = points.map (fun x => g.eval x) := by
  unfold fastCosetExtrapolate at h
  obtain ⟨tree, htree, h⟩ := Option.bind_eq_some_iff.1 h
  obtain ⟨mi, hmi, h⟩ := Option.bind_eq_some_iff.1 h
  obtain ⟨hg, hpts⟩ := newFromDomainWith_sound root hE t.rt t.zf points tree htree
  unfold fmci at hmi
  obtain ⟨pre, hpre, hmi⟩ := Option.bind_eq_some_iff.1 hmi
  obtain ⟨hpm, _⟩ := fmciPreprocess_modulus root _ _ _ _ hpre
  obtain ⟨g, hgI, hgm⟩ := fmciWith_sound_small root hN hE t hT codeword offset _ pre hpm hoff hsmall ω hω hprim mi hmi
  refine ⟨g, hgI, ?_⟩
  rw [dcEval_spec root hE mi tree hg, hpts] at h
  simp only [Option.some.injEq] at h
  rw [← h]
  apply List.map_congr_left
  intro x hx
  rw [hgm, hg.zerofier root, hpts]
  exact eval_mod_of_root _ _ x ((eval_zpoly_eq_zero_iff points x).2 hx)

/-- `coset_extrapolate`, both strategies, **for every value of the point-count cut-off** -/
theorem cosetExtrapolateWith_sound (t : Thr) (hT : 2 ≤ t.zf) (offset : K) (codeword points : List K)
    (hoff : offset ≠ 0) (hsmall : codeword.length ≤ t.intt ∨ codeword.length < t.lag) (ω : K)
    (hω : root codeword.length = some ω) (hprim : ((List.range codeword.length).map (fun i => ω ^ i)).Nodup)
    (out : List K) (h : cosetExtrapolateWith FK E t offset codeword points = some out) :
    ∃ g : K[X], Interpolates (cosetDomain offset ω codeword.length) codeword g ∧
      out = points.map (fun x => g.eval x) := by
  unfold cosetExtrapolateWith at h
  split at h
  · exact fastCosetExtrapolate_sound root hN hE t hT offset codeword points hoff hsmall ω hω hprim out h
  · exact naiveCosetExtrapolate_sound root hN hE t offset codeword points ω hω hprim out h

omit hN hE in
theorem length_of_mem_codewordSlices {α : Type} (n : Nat) (cws cw : List α) (h : cw ∈ codewordSlices n cws) :
    cw.length = n := by
  unfold codewordSlices at h
  obtain ⟨i, hi, rfl⟩ := List.mem_map.1 h
  have hi' : i < cws.length / n := List.mem_range.1 hi
  have h1 : (i + 1) * n ≤ cws.length := le_trans (Nat.mul_le_mul_right n hi') (Nat.div_mul_le_self _ _)
  simp only [List.length_take, List.length_drop]
  have : i * n + n ≤ cws.length := by rw [← Nat.succ_mul]; exact h1
  omega

/-- what one codeword contributes to the batch result -/
def SliceOK (offset ω : K) (n : Nat) (points : List K) (cw part : List K) : Prop :=
  ∃ g : K[X], Interpolates (cosetDomain offset ω n) cw g ∧ part = points.map (fun x => g.eval x)

omit hN hE in
theorem mapM_option_forall₂_mem {α β : Type} {f : α → Option β} {P : α → β → Prop} :
    ∀ (l : List α) (bs : List β), (∀ a ∈ l, ∀ b, f a = some b → P a b) → l.mapM f = some bs →
      List.Forall₂ P l bs := by
  intro l
  induction l with
  | nil => intro bs _ hbs; simp at hbs; subst hbs; exact List.Forall₂.nil
  | cons a l ih =>
    intro bs h hbs
    rw [List.mapM_cons] at hbs
    obtain ⟨b, hb, hbs⟩ := Option.bind_eq_some_iff.1 hbs
    obtain ⟨bs', hbs', hbs⟩ := Option.bind_eq_some_iff.1 hbs
    simp only [Option.pure_def, Option.some.injEq] at hbs
    subst hbs
    exact List.Forall₂.cons (h a (by simp) b hb) (ih bs' (fun x hx => h x (by simp [hx])) hbs')

/-- `batch_coset_extrapolate` / `par_batch_coset_extrapolate`: every codeword of the batch is extrapolated as by
    interpolate-then-evaluate, results concatenated in order (Lagrange and INTT arms of the fast strategy) -/
theorem batchCosetExtrapolateWith_sound (t : Thr) (hT : 2 ≤ t.zf) (offset : K) (n : Nat) (codewords points : List K)
    (hoff : offset ≠ 0) (hsmall : n ≤ t.intt ∨ n < t.lag) (ω : K)
    (hω : root n = some ω) (hprim : ((List.range n).map (fun i => ω ^ i)).Nodup)
    (out : List K) (h : batchCosetExtrapolateWith FK E t offset n codewords points = some out) :
    ∃ parts, List.Forall₂ (SliceOK offset ω n points) (codewordSlices n codewords) parts ∧ out = parts.flatten := by
  unfold batchCosetExtrapolateWith at h
  split at h
  · obtain ⟨tree, htree, h⟩ := Option.bind_eq_some_iff.1 h
    obtain ⟨pre, hpre, h⟩ := Option.bind_eq_some_iff.1 h
    obtain ⟨parts, hparts, h⟩ := Option.bind_eq_some_iff.1 h
    simp only [Option.pure_def, Option.some.injEq] at h
    obtain ⟨hg, hpts⟩ := newFromDomainWith_sound root hE t.rt t.zf points tree htree
    obtain ⟨hpm, _⟩ := fmciPreprocess_modulus root _ _ _ _ hpre
    refine ⟨parts, ?_, h.symm⟩
    apply mapM_option_forall₂_mem _ _ _ hparts
    intro cw hcw part hpart
    have hlen := length_of_mem_codewordSlices n codewords cw hcw
    obtain ⟨mi, hmi, hpart⟩ := Option.bind_eq_some_iff.1 hpart
    obtain ⟨g, hgI, hgm⟩ := fmciWith_sound_small root hN hE t hT cw offset _ pre hpm hoff (by rw [hlen]; exact hsmall)
      ω (by rw [hlen]; exact hω) (by rw [hlen]; exact hprim) mi hmi
    rw [hlen] at hgI
    refine ⟨g, hgI, ?_⟩
    rw [dcEval_spec root hE mi tree hg, hpts] at hpart
    simp only [Option.some.injEq] at hpart
    rw [← hpart]
    apply List.map_congr_left
    intro x hx
    rw [hgm, hg.zerofier root, hpts]
    exact eval_mod_of_root _ _ x ((eval_zpoly_eq_zero_iff points x).2 hx)
  · obtain ⟨tree, htree, h⟩ := Option.bind_eq_some_iff.1 h
    obtain ⟨hg, hpts⟩ := newFromDomainWith_sound root hE t.rt t.zf points tree htree
    simp only at h
    split at h
    · simp at h
    · next hmz =>
      have hm : denote (tree.zerofier FK) ≠ 0 := fun h0 => hmz ((isZero_iff root _).2 h0)
      split at h
      · simp at h
      · obtain ⟨parts, hparts, h⟩ := Option.bind_eq_some_iff.1 h
        simp only [Option.pure_def, Option.some.injEq] at h
        refine ⟨parts, ?_, h.symm⟩
        apply mapM_option_forall₂_mem _ _ _ hparts
        intro cw hcw part hpart
        have hlen := length_of_mem_codewordSlices n codewords cw hcw
        obtain ⟨c, hc, hpart⟩ := Option.bind_eq_some_iff.1 hpart
        split at hpart
        · simp at hpart
        · next hoffz =>
          have hfi : fastCosetInterpolate FK E offset cw = some (scale FK c ((FK).inv offset)) := by
            unfold fastCosetInterpolate
            rw [hc]; simp [hoffz]
          have hgI := fastCosetInterpolate_sound root hN offset cw ω (by rw [hlen]; exact hω)
            (by rw [hlen]; exact hprim) _ hfi
          rw [hlen] at hgI
          refine ⟨_, hgI, ?_⟩
          rw [dcEval_spec root hE _ tree hg, hpts] at hpart
          simp only [Option.some.injEq] at hpart
          rw [← hpart]
          apply List.map_congr_left
          intro x hx
          obtain ⟨q, hq⟩ := hE.redNtt (scale FK c ((FK).inv offset)) (tree.zerofier FK) hm
          have hroot : (denote (tree.zerofier FK)).eval x = 0 := by
            rw [hg.zerofier root, hpts]; exact (eval_zpoly_eq_zero_iff points x).2 hx
          have := congrArg (eval x) hq
          simp only [eval_sub, eval_mul, hroot, zero_mul] at this
          exact sub_eq_zero.1 this

end coset


/-! ### the NTT contract is satisfiable -/
section idealNtt
open Classical

/-- `ntt`/`intt` defined by their specification -/
noncomputable def Ext.idealNtt : Ext K :=
  { (Ext.ideal : Ext K) with
    ntt := fun xs => match root xs.length with
      | some ω => (List.range xs.length).map (fun i => (denote xs).eval (ω ^ i))
      | none => xs
    intt := fun vs => match root vs.length with
      | some ω =>
        if h : ∃ f : K[X], Interpolates ((List.range vs.length).map (fun i => ω ^ i)) vs f
        then ofPoly (Classical.choose h) else vs
      | none => vs }

theorem Ext.idealNtt_lawful : (Ext.idealNtt root : Ext K).Lawful where
  mul _ _ := denote_ofPoly _
  parBatchMul _ _ := denote_ofPoly _
  rem p m h := (Ext.ideal_lawful (K := K)).rem p m h
  redNtt p m h := (Ext.ideal_lawful (K := K)).redNtt p m h

theorem Ext.idealNtt_lawfulNtt : Ext.LawfulNtt root (Ext.idealNtt root : Ext K) where
  ntt xs ω hω := by
    show (match root xs.length with
      | some ω => (List.range xs.length).map (fun i => (denote xs).eval (ω ^ i))
      | none => xs) = _
    rw [hω]
  intt vs ω hω hprim := by
    have hex : ∃ f : K[X], Interpolates ((List.range vs.length).map (fun i => ω ^ i)) vs f := by
      obtain ⟨f, _, _, hf⟩ := lagrangeInterpolateWith_spec root (Ext.ideal_lawful (K := K)) 2
        ((List.range vs.length).map (fun i => ω ^ i)) vs hprim (by simp)
        (zerofierWith_total root (E := Ext.ideal) 2 (Nat.le_refl 2) _)
      exact ⟨_, hf⟩
    show Interpolates _ vs (denote (match root vs.length with
      | some ω =>
        if h : ∃ f : K[X], Interpolates ((List.range vs.length).map (fun i => ω ^ i)) vs f
        then ofPoly (Classical.choose h) else vs
      | none => vs))
    rw [hω]
    simp only [dif_pos hex, denote_ofPoly]
    exact Classical.choose_spec hex

end idealNtt

end TF.Model.PolyI
