import TF.Model.PolyInterp
import TF.Proofs.Poly
import Mathlib.LinearAlgebra.Lagrange
import Mathlib.Algebra.Polynomial.Div
import Mathlib.Algebra.Polynomial.FieldDivision
import Mathlib.Algebra.BigOperators.Group.List.Basic
/-!
Helper lemmas for property C08 (`TF/Props/C08.lean`): the model of `TF/Model/PolyInterp.lean` instantiated with
`FieldOps.ofField K` for an arbitrary field `K`, denoted into `K[X]` by `TF.Model.Poly.denote`.
-/
open Polynomial

namespace TF.Model.PolyI
open TF TF.Model.Poly

variable {K : Type} [Field K]
variable (root : Nat → Option K)
local notation "FK" => FieldOps.ofField K root

/-- `∏ (X - rᵢ)` over a list of roots (repetitions allowed) -/
noncomputable def zpoly (roots : List K) : K[X] := (roots.map (fun r => X - C r)).prod

@[simp] theorem zpoly_nil : zpoly ([] : List K) = 1 := by simp [zpoly]
@[simp] theorem zpoly_cons (r : K) (rs : List K) : zpoly (r :: rs) = (X - C r) * zpoly rs := by simp [zpoly]
theorem zpoly_append (a b : List K) : zpoly (a ++ b) = zpoly a * zpoly b := by simp [zpoly]
theorem zpoly_monic (roots : List K) : (zpoly roots).Monic := by
  induction roots with
  | nil => simp
  | cons r rs ih => rw [zpoly_cons]; exact (monic_X_sub_C r).mul ih
theorem zpoly_ne_zero (roots : List K) : zpoly roots ≠ 0 := (zpoly_monic roots).ne_zero
theorem natDegree_zpoly (roots : List K) : (zpoly roots).natDegree = roots.length := by
  induction roots with
  | nil => simp
  | cons r rs ih =>
    rw [zpoly_cons, (monic_X_sub_C r).natDegree_mul (zpoly_monic rs), ih, natDegree_X_sub_C]
    simp [Nat.add_comm]
theorem degree_zpoly (roots : List K) : (zpoly roots).degree = roots.length := by
  rw [degree_eq_natDegree (zpoly_ne_zero roots), natDegree_zpoly]
theorem eval_zpoly (roots : List K) (x : K) : (zpoly roots).eval x = (roots.map (fun r => x - r)).prod := by
  induction roots with
  | nil => simp
  | cons r rs ih => simp [ih]
theorem eval_zpoly_eq_zero_iff (roots : List K) (x : K) : (zpoly roots).eval x = 0 ↔ x ∈ roots := by
  induction roots with
  | nil => simp
  | cons r rs ih => simp [ih, sub_eq_zero]

/-! ### the interpolation certificate -/

/-- the certificate: `deg f < n` and `f(xᵢ) = yᵢ` for every point -/
def Interpolates (xs ys : List K) (f : K[X]) : Prop :=
  f.degree < xs.length ∧ ∀ p ∈ xs.zip ys, f.eval p.1 = p.2

theorem mem_zip_of_mem_left {α β : Type} : ∀ (xs : List α) (ys : List β), xs.length = ys.length →
    ∀ x ∈ xs, ∃ y, (x, y) ∈ xs.zip ys := by
  intro xs
  induction xs with
  | nil => intro ys _ x hx; simp at hx
  | cons a as ih =>
    intro ys hl x hx
    cases ys with
    | nil => simp at hl
    | cons b bs =>
      rcases List.mem_cons.1 hx with rfl | hx
      · exact ⟨b, by simp⟩
      · obtain ⟨y, hy⟩ := ih bs (by simpa using hl) x hx
        exact ⟨y, by simp [hy]⟩

/-- for pairwise distinct abscissae the certificate determines the polynomial -/
theorem Interpolates.unique {xs ys : List K} (hn : xs.Nodup) (hl : xs.length = ys.length) {f g : K[X]}
    (hf : Interpolates xs ys f) (hg : Interpolates xs ys g) : f = g := by
  classical
  have hcard : xs.toFinset.card = xs.length := List.toFinset_card_of_nodup hn
  apply eq_of_degrees_lt_of_eval_finset_eq xs.toFinset
  · rw [hcard]; exact hf.1
  · rw [hcard]; exact hg.1
  · intro x hx
    obtain ⟨y, hy⟩ := mem_zip_of_mem_left xs ys hl x (List.mem_toFinset.1 hx)
    rw [hf.2 _ hy, hg.2 _ hy]

/-! ### contracts of the routines that belong to other properties -/

/-- what C07 / C09 prove about `multiply`, `par_batch_multiply`, `reduce`, `reduce_by_ntt_friendly_modulus` -/
structure Ext.Lawful (E : Ext K) : Prop where
  mul : ∀ a b, denote (E.mul a b) = denote a * denote b
  parBatchMul : ∀ t fs, denote (E.parBatchMul t fs) = (fs.map denote).prod
  rem : ∀ p m, denote m ≠ 0 → denote (E.rem p m) = denote p % denote m
  redNtt : ∀ p m, denote m ≠ 0 → denote m ∣ denote (E.redNtt p m) - denote p

/-! ### smart zerofier: the in-place loop multiplies by `X - r` -/

/-- `[prev - r a₀, a₀ - r a₁, …, a_{k-1}]` -/
def lin (r : K) : K → List K → List K
  | prev, [] => [prev]
  | prev, c :: cs => (prev - r * c) :: lin r c cs

theorem length_lin (r prev : K) (a : List K) : (lin r prev a).length = a.length + 1 := by
  induction a generalizing prev with
  | nil => rfl
  | cons c cs ih => simp [lin, ih]

theorem denote_lin (r prev : K) (a : List K) : denote (lin r prev a) = C prev + (X - C r) * denote a := by
  induction a generalizing prev with
  | nil => simp [lin]
  | cons c cs ih => simp only [lin, denote_cons, ih, C_sub, C_mul]; ring

theorem smartGo_eq (r prev : K) (a zs : List K) :
    smartGo FK r (a.length + 1) prev (a ++ 0 :: zs) = lin r prev a ++ zs := by
  induction a generalizing prev with
  | nil => simp [smartGo, lin]
  | cons c cs ih =>
    simp only [List.length_cons, List.cons_append, smartGo, lin, FieldOps.ofField_sub, FieldOps.ofField_mul]
    rw [ih]

/-- one root: the live prefix `c :: a` (of length `num_coeffs`) is multiplied by `X - r`, one zero is consumed -/
theorem smartStep_eq (r c : K) (a zs : List K) :
    smartStep FK r (a.length + 1) (c :: a ++ 0 :: zs) = ((-r) * c :: lin r c a) ++ zs := by
  simp only [smartStep, List.cons_append, FieldOps.ofField_mul, FieldOps.ofField_neg]
  rw [smartGo_eq]

theorem denote_mulLin (r c : K) (a : List K) :
    denote ((-r) * c :: lin r c a) = (X - C r) * denote (c :: a) := by
  simp only [denote_cons, denote_lin, C_mul, C_neg]; ring

theorem smartLoop_spec (roots : List K) (c : K) (a : List K) (j : Nat) (hj : roots.length ≤ j) :
    ∃ c' a', (smartLoop FK roots (c :: a ++ List.replicate j 0, a.length + 1)).1
        = c' :: a' ++ List.replicate (j - roots.length) 0
      ∧ denote (c' :: a') = zpoly roots * denote (c :: a) ∧ a'.length = a.length + roots.length := by
  induction roots generalizing c a j with
  | nil => exact ⟨c, a, by simp [smartLoop], by simp, by simp⟩
  | cons r rs ih =>
    obtain ⟨j', rfl⟩ : ∃ j', j = j' + 1 := ⟨j - 1, by simp at hj; omega⟩
    simp only [smartLoop, List.replicate_succ]
    rw [smartStep_eq]
    have h := ih ((-r) * c) (lin r c a) j' (by simpa using hj)
    simp only [length_lin] at h
    obtain ⟨c', a', h1, h2, h3⟩ := h
    refine ⟨c', a', ?_, ?_, ?_⟩
    · simpa using h1
    · rw [h2, denote_mulLin, zpoly_cons]; ring
    · simp [h3]; omega

/-- `smart_zerofier` = `∏ (X - rᵢ)`, any root list -/
theorem denote_smartZerofier (roots : List K) : denote (smartZerofier FK roots) = zpoly roots := by
  unfold smartZerofier
  obtain ⟨c', a', h1, h2, _⟩ := smartLoop_spec root roots 1 [] roots.length (Nat.le_refl _)
  simp only [List.cons_append, List.nil_append, List.length_nil, Nat.zero_add, FieldOps.ofField_one,
    FieldOps.ofField_zero] at h1 ⊢
  rw [h1, Nat.sub_self]
  simpa using h2

theorem length_smartZerofier (roots : List K) : (smartZerofier FK roots).length = roots.length + 1 := by
  unfold smartZerofier
  obtain ⟨c', a', h1, _, h3⟩ := smartLoop_spec root roots 1 [] roots.length (Nat.le_refl _)
  simp only [List.cons_append, List.nil_append, List.length_nil, Nat.zero_add, FieldOps.ofField_one,
    FieldOps.ofField_zero] at h1 ⊢
  rw [h1]; simp [h3]


/-! ### generic list helpers -/

theorem mapM_option_forall₂ {α β : Type} {f : α → Option β} {P : α → β → Prop}
    (h : ∀ a b, f a = some b → P a b) :
    ∀ (l : List α) (bs : List β), l.mapM f = some bs → List.Forall₂ P l bs := by
  intro l
  induction l with
  | nil => intro bs hbs; simp at hbs; subst hbs; exact List.Forall₂.nil
  | cons a l ih =>
    intro bs hbs
    rw [List.mapM_cons] at hbs
    cases hfa : f a with
    | none => simp [hfa] at hbs
    | some b =>
      cases hl : l.mapM f with
      | none => simp [hfa, hl] at hbs
      | some bs' =>
        simp [hfa, hl] at hbs
        subst hbs
        exact List.Forall₂.cons (h a b hfa) (ih bs' hl)

theorem mapM_option_isSome {α β : Type} {f : α → Option β} :
    ∀ (l : List α), (∀ a ∈ l, (f a).isSome) → (l.mapM f).isSome := by
  intro l
  induction l with
  | nil => intro _; simp
  | cons a l ih =>
    intro h
    rw [List.mapM_cons]
    have ha := h a (by simp)
    have hl := ih (fun x hx => h x (by simp [hx]))
    obtain ⟨b, hb⟩ := Option.isSome_iff_exists.1 ha
    obtain ⟨bs, hbs⟩ := Option.isSome_iff_exists.1 hl
    simp [hb, hbs]

theorem flatten_chunksAux {α : Type} (k : Nat) (hk : 0 < k) :
    ∀ (fuel : Nat) (l : List α), l.length ≤ fuel → (chunksAux k fuel l).flatten = l := by
  intro fuel
  induction fuel with
  | zero => intro l hl; have : l = [] := List.length_eq_zero_iff.1 (by omega); subst this; simp [chunksAux]
  | succ fuel ih =>
    intro l hl
    cases l with
    | nil => simp [chunksAux]
    | cons x xs =>
      rw [chunksAux, List.flatten_cons, ih]
      · exact List.take_append_drop k (x :: xs)
      · simp only [List.length_drop, List.length_cons] at hl ⊢; omega

theorem flatten_chunks {α : Type} (k : Nat) (hk : 0 < k) (l : List α) : (chunks k l).flatten = l :=
  flatten_chunksAux k hk l.length l (Nat.le_refl _)

/-! ### the other zerofier strategies -/
section zerofiers
variable {E : Ext K} (hE : E.Lawful)
include hE

theorem denote_naiveZerofier (roots : List K) : denote (naiveZerofier FK E roots) = zpoly roots := by
  have key : ∀ (rs : List K) (acc : List K),
      denote (rs.foldl (fun acc r' => E.mul acc [(FK).neg r', (FK).one]) acc) = denote acc * zpoly rs := by
    intro rs
    induction rs with
    | nil => intro acc; simp
    | cons r rs ih =>
      intro acc
      rw [List.foldl_cons, ih, hE.mul, zpoly_cons]
      simp only [FieldOps.ofField_neg, FieldOps.ofField_one, denote_cons, denote_nil, C_neg, C_1]
      ring
  cases roots with
  | nil => simp [naiveZerofier]
  | cons r rs =>
    simp only [naiveZerofier]
    rw [key, zpoly_cons]
    simp only [FieldOps.ofField_neg, FieldOps.ofField_one, denote_cons, denote_nil, C_neg, C_1]
    ring

/-- partial correctness of the `zerofier`/`fast_zerofier` recursion, for every cut-off and every fuel -/
theorem zerofierT_sound (T : Nat) : ∀ (fuel : Nat) (roots z : List K),
    zerofierT FK E T fuel roots = some z → denote z = zpoly roots := by
  intro fuel
  induction fuel with
  | zero => intro roots z h; simp [zerofierT] at h
  | succ fuel ih =>
    intro roots z h
    rw [zerofierT] at h
    split at h
    · simp only [Option.some.injEq] at h; subst h; exact denote_smartZerofier root roots
    · cases hl : zerofierT FK E T fuel (roots.take (roots.length / 2)) with
      | none => simp [hl] at h
      | some l =>
        cases hr : zerofierT FK E T fuel (roots.drop (roots.length / 2)) with
        | none => simp [hl, hr] at h
        | some r =>
          simp [hl, hr] at h
          subst h
          rw [hE.mul, ih _ _ hl, ih _ _ hr, ← zpoly_append, List.take_append_drop]

omit hE in
/-- the recursion terminates for every cut-off `T ≥ 2` -/
theorem zerofierT_total (T : Nat) (hT : 2 ≤ T) : ∀ (fuel : Nat) (roots : List K),
    roots.length < fuel → (zerofierT FK E T fuel roots).isSome := by
  intro fuel
  induction fuel with
  | zero => intro roots h; omega
  | succ fuel ih =>
    intro roots h
    rw [zerofierT]
    split
    · simp
    · next hlen =>
      have h2 : 2 ≤ roots.length := by omega
      have h1 := ih (roots.take (roots.length / 2)) (by simp; omega)
      have h3 := ih (roots.drop (roots.length / 2)) (by simp; omega)
      obtain ⟨l, hl⟩ := Option.isSome_iff_exists.1 h1
      obtain ⟨r, hr⟩ := Option.isSome_iff_exists.1 h3
      simp [hl, hr]

omit hE in
/-- for a cut-off `T ≤ 1` the Rust recursion never ends on inputs of length `≥ T` (modelled as `none`) -/
theorem zerofierT_diverges (T : Nat) (hT : T ≤ 1) : ∀ (fuel : Nat) (roots : List K),
    T ≤ roots.length → zerofierT FK E T fuel roots = none := by
  intro fuel
  induction fuel with
  | zero => intro roots _; rfl
  | succ fuel ih =>
    intro roots h
    rw [zerofierT]
    split
    · omega
    · have : zerofierT FK E T fuel (roots.drop (roots.length / 2)) = none := by
        apply ih; simp; omega
      cases hl : zerofierT FK E T fuel (roots.take (roots.length / 2)) <;> simp [this]

theorem zerofierWith_sound (T : Nat) (roots z : List K) (h : zerofierWith FK E T roots = some z) :
    denote z = zpoly roots := zerofierT_sound root hE T _ roots z h

omit hE in
theorem zerofierWith_total (T : Nat) (hT : 2 ≤ T) (roots : List K) : (zerofierWith FK E T roots).isSome :=
  zerofierT_total root T hT _ roots (Nat.lt_succ_self _)

theorem fastZerofierWith_sound (T : Nat) (roots z : List K) (h : fastZerofierWith FK E T roots = some z) :
    denote z = zpoly roots := by
  unfold fastZerofierWith at h
  cases hl : zerofierWith FK E T (roots.take (roots.length / 2)) with
  | none => simp [hl] at h
  | some l =>
    cases hr : zerofierWith FK E T (roots.drop (roots.length / 2)) with
    | none => simp [hl, hr] at h
    | some r =>
      simp [hl, hr] at h
      subst h
      rw [hE.mul, zerofierWith_sound root hE T _ _ hl, zerofierWith_sound root hE T _ _ hr, ← zpoly_append,
        List.take_append_drop]

theorem parZerofierWith_sound (T threads : Nat) (roots z : List K)
    (h : parZerofierWith FK E T threads roots = some z) : denote z = zpoly roots := by
  unfold parZerofierWith at h
  split at h
  · next hemp =>
    simp only [Option.some.injEq] at h; subst h
    have : roots = [] := by simpa using hemp
    subst this; simp
  · simp only at h
    split at h
    · simp at h
    · next hchunk =>
      cases hm : (chunks (max (ceilDiv roots.length threads) T) roots).mapM (zerofierWith FK E T) with
      | none => simp [hm] at h
      | some fs =>
        simp [hm] at h
        subst h
        rw [hE.parBatchMul]
        have hf := mapM_option_forall₂ (P := fun (ch z : List K) => denote z = zpoly ch)
          (fun a b hab => zerofierWith_sound root hE T a b hab) _ _ hm
        have hk : 0 < max (ceilDiv roots.length threads) T := by
          rcases Nat.eq_zero_or_pos (max (ceilDiv roots.length threads) T) with h0 | h0
          · simp [h0] at hchunk
          · exact h0
        have hfl := flatten_chunks (max (ceilDiv roots.length threads) T) hk roots
        generalize chunks (max (ceilDiv roots.length threads) T) roots = chs at hf hfl
        rw [← hfl]
        clear hm hfl
        induction hf with
        | nil => simp
        | cons h1 _ ih => simp [h1, ih, zpoly_append]

end zerofiers

end TF.Model.PolyI
