import TF.Proofs.NttDft
/-!
`ntt_noswap`: Cooley–Tukey butterflies with bit-reversed twiddles, natural order in, bit-reversed order out.
Functional form of the stages and the invariant: after `s` stages, block `i` (of size `B = 2^(L-s)`) holds the
coefficients of `f mod (X^B - c_i)` with `c_i = ω^(B·bitrev s i)`:

  y_s[i·B + p] = Σ_{q<2^s} x[p + q·B] · c_i^q .
-/
namespace TF.NttFn
open Finset

variable {R : Type} [CommRing R]

theorem bitrev_zero (l : Nat) : bitrev l 0 = 0 := by
  induction l with
  | zero => rfl
  | succ l ih => simp [bitrev, ih]

/-- reversing `i < 2^s` in `s + d` bits shifts the `s`-bit reversal left by `d` -/
theorem bitrev_shift (d : Nat) : ∀ s i, i < 2^s → bitrev (s + d) i = 2^d * bitrev s i := by
  intro s
  induction s with
  | zero => intro i hi; have : i = 0 := by simpa using hi
            subst this; simp [bitrev_zero, bitrev]
  | succ s ih =>
    intro i hi
    rw [show s + 1 + d = (s + d) + 1 by omega, bitrev, bitrev, ih (i/2) (by rw [pow_succ] at hi; omega), pow_add]
    ring

/-- one stage of `ntt_noswap` with half-block `t`, block `i` using `ζ i` -/
def stageNs (t : Nat) (ζ : Nat → R) (x : Nat → R) : Nat → R := fun idx =>
  if idx % (2*t) < t then x idx + ζ (idx / (2*t)) * x (idx + t)
  else x (idx - t) - ζ (idx / (2*t)) * x idx

/-- `s` stages of the length-`2^L` transform (stage `s` has half-block `2^(L-s-1)`; block `i` uses
    `ω^(bitrev (L-1) i)`) -/
def nsStages (L : Nat) (ω : R) : Nat → (Nat → R) → (Nat → R)
  | 0, y => y
  | s+1, y => stageNs (2^(L-s-1)) (fun i => ω^(bitrev (L-1) i)) (nsStages L ω s y)

theorem ns_invariant (L : Nat) (ω : R) (hω : 0 < L → ω^(2^(L-1)) = -1) (x : Nat → R) :
    ∀ s, s ≤ L → ∀ i p, i < 2^s → p < 2^(L-s) →
      nsStages L ω s x (i * 2^(L-s) + p)
        = ∑ q ∈ range (2^s), x (p + q * 2^(L-s)) * (ω^(2^(L-s) * bitrev s i))^q := by
  intro s
  induction s with
  | zero =>
    intro _ i p hi hp
    have : i = 0 := by simpa using hi
    subst this
    simp [nsStages]
  | succ s ih =>
    intro hs i' p hi' hp
    have hsL : s ≤ L := by omega
    have hLpos : 0 < L := by omega
    obtain ⟨d, hd⟩ : ∃ d, L - s = d + 1 := ⟨L - s - 1, by omega⟩
    have hd' : L - (s+1) = d := by omega
    have hd'' : L - s - 1 = d := by omega
    rw [hd'] at hp ⊢
    set t := 2^d with ht
    have htpos : 0 < t := by positivity
    have hB : 2^(L-s) = 2*t := by rw [hd, pow_succ]; ring
    simp only [nsStages, hd'']
    rw [← ht]
    -- i' = 2 i + b
    obtain ⟨i, b, hb, rfl⟩ : ∃ i b, b < 2 ∧ i' = 2*i + b := ⟨i'/2, i'%2, Nat.mod_lt _ (by norm_num), by omega⟩
    have hi : i < 2^s := by rw [pow_succ] at hi'; omega
    have hLd : L - 1 = s + d := by omega
    have hζ : ω^(bitrev (L-1) i) = ω^(t * bitrev s i) := by
      rw [hLd, bitrev_shift d s i hi]
    have hc : ω^(2^(L-s) * bitrev s i) = (ω^(t * bitrev s i))^2 := by
      rw [hB, ← pow_mul]; congr 1; ring
    have e0 := ih hsL i p hi (by rw [hB]; omega)
    have e1 := ih hsL i (p + t) hi (by rw [hB]; omega)
    rw [hc] at e0 e1
    set ζ := ω^(t * bitrev s i) with hζdef
    rw [hB] at e0 e1
    have hidx : (2*i + b) * t + p = i * (2*t) + (b*t + p) := by ring
    have hmod : ((2*i + b) * t + p) % (2*t) = b*t + p := by
      rw [hidx, Nat.add_comm, Nat.add_mul_mod_self_right]
      apply Nat.mod_eq_of_lt
      rcases (show b = 0 ∨ b = 1 by omega) with rfl | rfl <;> omega
    have hdiv : ((2*i + b) * t + p) / (2*t) = i := by
      rw [hidx, Nat.add_comm, Nat.add_mul_div_right _ _ (by omega)]
      have : (b*t + p) / (2*t) = 0 := by
        apply Nat.div_eq_of_lt
        rcases (show b = 0 ∨ b = 1 by omega) with rfl | rfl <;> omega
      omega
    unfold stageNs
    simp only [hmod, hdiv, hζ]
    rw [show 2^(s+1) = 2 * 2^s by rw [pow_succ]; ring, sum_range_even_odd]
    have hsplit_even : ∀ (z : R), ∑ q ∈ range (2^s), x (p + 2*q*t) * z^(2*q)
        = ∑ q ∈ range (2^s), x (p + q*(2*t)) * (z^2)^q := by
      intro z; apply sum_congr rfl; intro q _
      rw [← pow_mul]; congr 2; ring
    have hsplit_odd : ∀ (z : R), ∑ q ∈ range (2^s), x (p + (2*q+1)*t) * z^(2*q+1)
        = z * ∑ q ∈ range (2^s), x (p + t + q*(2*t)) * (z^2)^q := by
      intro z; rw [mul_sum]; apply sum_congr rfl; intro q _
      rw [← pow_mul, pow_succ]
      have : p + (2*q+1)*t = p + t + q*(2*t) := by ring
      rw [this]; ring
    rcases (show b = 0 ∨ b = 1 by omega) with rfl | rfl
    · -- left half of the block
      have hlt : 0*t + p < t := by omega
      simp only [hlt, if_true]
      have hbr : bitrev (s+1) (2*i + 0) = bitrev s i := by simpa using bitrev_even s i
      rw [hbr, ← hζdef]
      rw [show (2*i + 0) * t + p = i * (2*t) + p by ring, e0,
          show i * (2*t) + p + t = i * (2*t) + (p + t) by ring, e1]
      rw [hsplit_even ζ, hsplit_odd ζ]
    · -- right half of the block
      have hge : ¬ (1*t + p < t) := by omega
      simp only [hge, if_false]
      have hbr : bitrev (s+1) (2*i + 1) = 2^s + bitrev s i := bitrev_odd s i
      have hneg : ω^(t * (2^s + bitrev s i)) = -ζ := by
        rw [Nat.mul_add, pow_add, ← hζdef]
        have : t * 2^s = 2^(L-1) := by rw [ht, ← pow_add, hLd]; congr 1; omega
        rw [this, hω hLpos]; ring
      rw [hbr, hneg]
      rw [show (2*i + 1) * t + p - t = i * (2*t) + p by
            have : (2*i + 1) * t + p = i * (2*t) + p + t := by ring
            omega,
          e0, show (2*i + 1) * t + p = i * (2*t) + (p + t) by ring, e1]
      rw [hsplit_even (-ζ), hsplit_odd (-ζ)]
      have : (-ζ)^2 = ζ^2 := by ring
      rw [this]; ring

/-- `ntt_noswap` computes the DFT in bit-reversed order -/
theorem ns_eq_dft (L : Nat) (ω : R) (hω : 0 < L → ω^(2^(L-1)) = -1) (x : Nat → R) (i : Nat) (hi : i < 2^L) :
    nsStages L ω L x i = dft (2^L) ω x (bitrev L i) := by
  have := ns_invariant L ω hω x L (le_refl L) i 0 hi (by simp)
  simp only [Nat.sub_self, pow_zero, Nat.mul_one, Nat.add_zero, Nat.zero_add, Nat.one_mul] at this
  rw [this]
  unfold dft
  apply sum_congr rfl; intro q _
  rw [← pow_mul, Nat.mul_comm]

end TF.NttFn
