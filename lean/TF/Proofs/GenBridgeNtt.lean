import TF.Gen.NttLoops
import TF.Model.Ntt
/-!
# Bridge: the loops of `math/ntt.rs` *as regenerated from source* = the hand-written model (C06)

`TF/Gen/NttLoops.lean` is written by `tools/rs2lean_ext.py` from the Rust text on every run.  The functions are generic
over the field (`FF: FiniteField + MulAssign<BFieldElement>`): the generated definitions take the field operations as a
PARAMETER `ops : TF.Model.Ntt.Ops σ α` (`u + v` = `ops.add`, `v *= w` = `ops.scale w v`, `w *= w_m` = `ops.smul`,
`mod_pow_u32` = `ops.spow`, …), a slice `&mut [FF]` is a `List α` and the function returns the final slice.
Value + `_ok` twin as for the other regenerated functions.
-/
namespace TF.GenBridge.Ntt
open TF TF.Gen TF.Model.Ntt

theorem shl_or_bit (r b : Nat) (hb : b < 2) : (r * 2) ||| b = 2 * r + b := by
  have h := Nat.two_pow_add_eq_or_of_lt (i := 1) (b := b) (by simpa using hb) r
  simp only [Nat.pow_one] at h
  rw [Nat.mul_comm r 2, ← h]

theorem bitreverse_for_eq : ∀ cnt it nv r, cnt ≤ 32 → r < 2 ^ (32 - cnt) →
    (Loops.ntt_bitreverse_for cnt it nv r).2 = bitrevAux cnt nv r := by
  intro cnt
  induction cnt with
  | zero => intros; rfl
  | succ c ih =>
    intro it nv r hc hr
    have h2 : r * 2 < 4294967296 := by
      have : (2:Nat) ^ (32 - (c + 1)) * 2 = 2 ^ (32 - c) := by
        rw [← Nat.pow_succ]; congr 1; omega
      have h32 : (2:Nat) ^ (32 - c) ≤ 2 ^ 32 := Nat.pow_le_pow_right (by omega) (by omega)
      omega
    have hb : nv % 2 < 2 := Nat.mod_lt _ (by omega)
    simp only [Loops.ntt_bitreverse_for, bitrevAux, Nat.mod_eq_of_lt h2, Nat.and_one_is_mod, shl_or_bit r _ hb]
    apply ih _ _ _ (by omega)
    have : (2:Nat) ^ (32 - (c + 1)) * 2 = 2 ^ (32 - c) := by
      rw [← Nat.pow_succ]; congr 1; omega
    omega

theorem bitreverse_for_ok : ∀ cnt it nv r, Loops.ntt_bitreverse_for_ok cnt it nv r = true := by
  intro cnt
  induction cnt with
  | zero => intros; rfl
  | succ c ih => intro it nv r; simp only [Loops.ntt_bitreverse_for_ok, ih]

/-- **`bitreverse`** (the `u32` bit loop) regenerated from source = hand model, for every `l ≤ 32`; never panics -/
theorem gen_bitreverse_eq (n l : Nat) (hl : l ≤ 32) :
    Loops.ntt_bitreverse n l = bitreverse n l ∧ Loops.ntt_bitreverse_ok n l = true := by
  constructor
  · simp only [Loops.ntt_bitreverse, bitreverse, Nat.sub_zero]
    exact bitreverse_for_eq l 0 n 0 hl (Nat.two_pow_pos _)
  · simp only [Loops.ntt_bitreverse_ok, Nat.sub_zero, bitreverse_for_ok]

theorem bitreverse_usize_for_eq : ∀ cnt it nv r, cnt ≤ 64 → r < 2 ^ (64 - cnt) →
    (Loops.ntt_bitreverse_usize_for cnt it nv r).2 = bitrevAux cnt nv r := by
  intro cnt
  induction cnt with
  | zero => intros; rfl
  | succ c ih =>
    intro it nv r hc hr
    have h2 : r * 2 < 18446744073709551616 := by
      have : (2:Nat) ^ (64 - (c + 1)) * 2 = 2 ^ (64 - c) := by
        rw [← Nat.pow_succ]; congr 1; omega
      have h64 : (2:Nat) ^ (64 - c) ≤ 2 ^ 64 := Nat.pow_le_pow_right (by omega) (by omega)
      omega
    have hb : nv % 2 < 2 := Nat.mod_lt _ (by omega)
    simp only [Loops.ntt_bitreverse_usize_for, bitrevAux, Nat.mod_eq_of_lt h2, Nat.and_one_is_mod, shl_or_bit r _ hb]
    apply ih _ _ _ (by omega)
    have : (2:Nat) ^ (64 - (c + 1)) * 2 = 2 ^ (64 - c) := by
      rw [← Nat.pow_succ]; congr 1; omega
    omega

theorem bitreverse_usize_for_ok : ∀ cnt it nv r, Loops.ntt_bitreverse_usize_for_ok cnt it nv r = true := by
  intro cnt
  induction cnt with
  | zero => intros; rfl
  | succ c ih => intro it nv r; simp only [Loops.ntt_bitreverse_usize_for_ok, ih]

/-- **`bitreverse`** (the `u64` bit loop) regenerated from source = hand model, for every `l ≤ 64`; never panics -/
theorem gen_bitreverse_usize_eq (n l : Nat) (hl : l ≤ 64) :
    Loops.ntt_bitreverse_usize n l = bitreverse n l ∧ Loops.ntt_bitreverse_usize_ok n l = true := by
  constructor
  · simp only [Loops.ntt_bitreverse_usize, bitreverse, Nat.sub_zero]
    exact bitreverse_usize_for_eq l 0 n 0 hl (Nat.two_pow_pos _)
  · simp only [Loops.ntt_bitreverse_usize_ok, Nat.sub_zero, bitreverse_usize_for_ok]


/-! ### the bit-reversal swap loop of `ntt_unchecked` -/

theorem swap_toList {α : Type} (a : Array α) (i j : Nat) (hi : i < a.size) (hj : j < a.size) :
    (a.swap i j hi hj).toList = TF.RustStd.swap a.toList i j := by
  have e1 : a.toList[i]? = some a[i] := by simp [hi]
  have e2 : a.toList[j]? = some a[j] := by simp [hj]
  simp only [TF.RustStd.swap, e1, e2, Array.swap_def, Array.toList_set]

theorem unchecked_for_eq {σ α : Type} (ops : Ops σ α) (log : Nat) (hl : log ≤ 32) : ∀ n k (a : Array α),
    (if Loops.ntt_unchecked_for_ok ops log n k a.toList then some (Loops.ntt_unchecked_for ops log n k a.toList) else none)
      = (swapLoop log n k a).map Array.toList := by
  intro n
  induction n with
  | zero => intro k a; rfl
  | succ n ih =>
    intro k a
    obtain ⟨e, ok⟩ := gen_bitreverse_eq k log hl
    simp only [Loops.ntt_unchecked_for, Loops.ntt_unchecked_for_ok, swapLoop, e, ok, Bool.true_and]
    by_cases h : k < bitreverse k log
    · simp only [h, decide_true, if_true]
      by_cases hb : bitreverse k log < a.size ∧ k < a.size
      · have h1 : bitreverse k log < a.toList.length := by simpa using hb.1
        have h2 : k < a.toList.length := by simpa using hb.2
        simp only [hb, and_self, dite_true, h1, h2, decide_true, Bool.and_self, Bool.true_and]
        rw [← swap_toList a _ _ hb.1 hb.2]
        exact ih (k + 1) _
      · have h3 : (decide (bitreverse k log < a.toList.length) && decide (k < a.toList.length)) = false := by
          rw [Bool.and_eq_false_iff]
          by_cases h1 : bitreverse k log < a.size
          · right; have : ¬ k < a.size := fun h2 => hb ⟨h1, h2⟩
            simpa using this
          · left; simpa using h1
        simp only [hb, dite_false, h3, Bool.false_and, Bool.false_eq_true, if_false, Option.map_none]
    · simp only [h, decide_false, Bool.false_eq_true, if_false, Bool.true_and]
      exact ih (k + 1) a

/-- the swap loop of `bitreverse_order` (over `bitreverse_usize`) -/
theorem bitreverse_order_for2_eq {σ α : Type} (ops : Ops σ α) (log : Nat) (hl : log ≤ 64) : ∀ n k (a : Array α),
    (if Loops.ntt_bitreverse_order_for2_ok ops log n k a.toList then some (Loops.ntt_bitreverse_order_for2 ops log n k a.toList) else none)
      = (swapLoop log n k a).map Array.toList := by
  intro n
  induction n with
  | zero => intro k a; rfl
  | succ n ih =>
    intro k a
    obtain ⟨e, ok⟩ := gen_bitreverse_usize_eq k log hl
    simp only [Loops.ntt_bitreverse_order_for2, Loops.ntt_bitreverse_order_for2_ok, swapLoop, e, ok, Bool.true_and]
    by_cases h : k < bitreverse k log
    · simp only [h, decide_true, if_true]
      by_cases hb : bitreverse k log < a.size ∧ k < a.size
      · have h1 : bitreverse k log < a.toList.length := by simpa using hb.1
        have h2 : k < a.toList.length := by simpa using hb.2
        simp only [hb, and_self, dite_true, h1, h2, decide_true, Bool.and_self, Bool.true_and]
        rw [← swap_toList a _ _ hb.1 hb.2]
        exact ih (k + 1) _
      · have h3 : (decide (bitreverse k log < a.toList.length) && decide (k < a.toList.length)) = false := by
          rw [Bool.and_eq_false_iff]
          by_cases h1 : bitreverse k log < a.size
          · right; have : ¬ k < a.size := fun h2 => hb ⟨h1, h2⟩
            simpa using this
          · left; simpa using h1
        simp only [hb, dite_false, h3, Bool.false_and, Bool.false_eq_true, if_false, Option.map_none]
    · simp only [h, decide_false, Bool.false_eq_true, if_false, Bool.true_and]
      exact ih (k + 1) a

/-! ### the butterfly loops: one block of one stage

`refBlock` is the in-place butterfly pass over the block `[k, k + 2m)` with plain (unbounded) index arithmetic:
`u = x[k+j]; v = w · x[k+j+m]; x[k+j] = u + v; x[k+j+m] = u - v; w *= w_m` for `j = j₀ .. j₀+n-1`.  The regenerated inner
`for j` loops of `ntt_unchecked` (`u32` indices, cast to `usize`) and of `intt_noswap` (`usize` indices) are proved equal
to it, with no index out of range and no index arithmetic overflowing, whenever the block lies inside the slice. -/

def refBlock {σ α : Type} (ops : Ops σ α) (m : Nat) (w_m : σ) (k : Nat) : Nat → Nat → List α → σ → List α × σ
  | 0, _, x, w => (x, w)
  | n+1, j, x, w =>
    let u := x.getD (k + j) ops.zero
    let v := ops.scale w (x.getD (k + j + m) ops.zero)
    refBlock ops m w_m k n (j + 1) ((x.set (k + j) (ops.add u v)).set (k + j + m) (ops.sub u v)) (ops.smul w w_m)

theorem unchecked_for4_eq {σ α : Type} (ops : Ops σ α) (m : Nat) (w_m : σ) (k : Nat) : ∀ n j (x : List α) (w : σ),
    k + j + n + m ≤ x.length → x.length < 4294967296 →
    Loops.ntt_unchecked_for4 ops m w_m k n j x w = refBlock ops m w_m k n j x w ∧
    Loops.ntt_unchecked_for4_ok ops m w_m k n j x w = true := by
  intro n
  induction n with
  | zero => intros; exact ⟨rfl, rfl⟩
  | succ n ih =>
    intro j x w hlen hU
    have h1 : (k + j) % 4294967296 = k + j := Nat.mod_eq_of_lt (by omega)
    have h2 : (k + j + m) % 4294967296 = k + j + m := Nat.mod_eq_of_lt (by omega)
    have h3 : k + j < 4294967296 := by omega
    have h4 : k + j + m < 4294967296 := by omega
    have h5 : k + j < x.length := by omega
    have h6 : k + j + m < x.length := by omega
    obtain ⟨e, ok⟩ := ih (j + 1) ((x.set (k + j) (ops.add (x.getD (k + j) ops.zero) (ops.scale w (x.getD (k + j + m) ops.zero)))).set
      (k + j + m) (ops.sub (x.getD (k + j) ops.zero) (ops.scale w (x.getD (k + j + m) ops.zero)))) (ops.smul w w_m)
      (by simp only [List.length_set]; omega) (by simp only [List.length_set]; omega)
    constructor
    · simp only [Loops.ntt_unchecked_for4, refBlock, h1, h2, e]
    · simp only [Loops.ntt_unchecked_for4_ok, h1, h2, h3, h4, h5, h6, List.length_set, decide_true, Bool.and_self,
        Bool.true_and, ok]

theorem intt_noswap_for4_eq {σ α : Type} (ops : Ops σ α) (root : Nat → Option σ) (m : Nat) (w_m : σ) (k : Nat) : ∀ n j (x : List α) (w : σ),
    k + j + n + m ≤ x.length → x.length < 18446744073709551616 →
    Loops.intt_noswap_for4 ops root m w_m k n j x w = refBlock ops m w_m k n j x w ∧
    Loops.intt_noswap_for4_ok ops root m w_m k n j x w = true := by
  intro n
  induction n with
  | zero => intros; exact ⟨rfl, rfl⟩
  | succ n ih =>
    intro j x w hlen hU
    have h1 : (k + j) % 18446744073709551616 = k + j := Nat.mod_eq_of_lt (by omega)
    have h2 : (k + j + m) % 18446744073709551616 = k + j + m := Nat.mod_eq_of_lt (by omega)
    have h3 : k + j < 18446744073709551616 := by omega
    have h4 : k + j + m < 18446744073709551616 := by omega
    have h5 : k + j < x.length := by omega
    have h6 : k + j + m < x.length := by omega
    obtain ⟨e, ok⟩ := ih (j + 1) ((x.set (k + j) (ops.add (x.getD (k + j) ops.zero) (ops.scale w (x.getD (k + j + m) ops.zero)))).set
      (k + j + m) (ops.sub (x.getD (k + j) ops.zero) (ops.scale w (x.getD (k + j + m) ops.zero)))) (ops.smul w w_m)
      (by simp only [List.length_set]; omega) (by simp only [List.length_set]; omega)
    constructor
    · simp only [Loops.intt_noswap_for4, refBlock, h1, h2, e]
    · simp only [Loops.intt_noswap_for4_ok, h1, h2, h3, h4, h5, h6, List.length_set, decide_true, Bool.and_self,
        Bool.true_and, ok]


/-! ### the in-place block pass, pointwise -/

/-- the twiddle after `t` further updates `w *= w_m` -/
def wp {σ α : Type} (ops : Ops σ α) (w_m : σ) : σ → Nat → σ
  | w, 0 => w
  | w, t+1 => wp ops w_m (ops.smul w w_m) t

theorem set2_getElem? {α : Type} (x : List α) (a b idx : Nat) (A S : α) (hab : a ≠ b) (ha : a < x.length) :
    ((x.set a A).set b S)[idx]? = if idx = b then (if b < x.length then some S else none) else if idx = a then some A else x[idx]? := by
  by_cases h1 : idx = b
  · subst h1; simp [List.getElem?_set]
  · by_cases h2 : idx = a
    · subst h2; simp [List.getElem?_set, h1, ha, Ne.symm h1]
    · simp [List.getElem?_set, h1, h2, Ne.symm h1, Ne.symm h2]

theorem set2_getD {α : Type} (x : List α) (a b idx : Nat) (A S z : α) (hab : a ≠ b) (ha : a < x.length) (hb : b < x.length) :
    ((x.set a A).set b S).getD idx z = if idx = b then S else if idx = a then A else x.getD idx z := by
  rw [List.getD_eq_getElem?_getD, set2_getElem? x a b idx A S hab ha, List.getD_eq_getElem?_getD]
  by_cases h1 : idx = b
  · simp [h1, hb]
  · by_cases h2 : idx = a
    · subst h2; simp [h1]
    · simp [h1, h2]

/-- **one in-place butterfly block, pointwise**: after the pass `j₀ .. j₀+n-1` over the block at `k`, position `k + j`
    holds `x[k+j] + w_j · x[k+j+m]`, position `k + m + j` holds `x[k+j] - w_j · x[k+j+m]` (values of `x` *before* the
    pass: each index pair is written exactly once), everything else is untouched, and the twiddle has advanced `n` times -/
theorem refBlock_spec {σ α : Type} (ops : Ops σ α) (m : Nat) (w_m : σ) (k : Nat) : ∀ n j (x : List α) (w : σ),
    j + n ≤ m → k + m + j + n ≤ x.length →
    (refBlock ops m w_m k n j x w).1.length = x.length ∧ (refBlock ops m w_m k n j x w).2 = wp ops w_m w n ∧
    ∀ idx, (refBlock ops m w_m k n j x w).1[idx]? =
      if k + j ≤ idx ∧ idx < k + j + n then
        some (ops.add (x.getD idx ops.zero) (ops.scale (wp ops w_m w (idx - (k + j))) (x.getD (idx + m) ops.zero)))
      else if k + m + j ≤ idx ∧ idx < k + m + j + n then
        some (ops.sub (x.getD (idx - m) ops.zero) (ops.scale (wp ops w_m w (idx - (k + m + j))) (x.getD idx ops.zero)))
      else x[idx]? := by
  intro n
  induction n with
  | zero =>
    intro j x w _ _
    refine ⟨rfl, rfl, fun idx => ?_⟩
    have c1 : ¬ (k + j ≤ idx ∧ idx < k + j + 0) := by omega
    have c2 : ¬ (k + m + j ≤ idx ∧ idx < k + m + j + 0) := by omega
    rw [if_neg c1, if_neg c2]; rfl
  | succ n ih =>
    intro j x w hj hlen
    have hab : k + j ≠ k + j + m := by omega
    have ha : k + j < x.length := by omega
    have hb : k + j + m < x.length := by omega
    generalize hA : ops.add (x.getD (k + j) ops.zero) (ops.scale w (x.getD (k + j + m) ops.zero)) = A
    generalize hS : ops.sub (x.getD (k + j) ops.zero) (ops.scale w (x.getD (k + j + m) ops.zero)) = S
    have hstep : refBlock ops m w_m k (n + 1) j x w
        = refBlock ops m w_m k n (j + 1) ((x.set (k + j) A).set (k + j + m) S) (ops.smul w w_m) := by
      simp only [refBlock, hA, hS]
    obtain ⟨il, iw, ip⟩ := ih (j + 1) ((x.set (k + j) A).set (k + j + m) S) (ops.smul w w_m) (by omega)
      (by simp only [List.length_set]; omega)
    have gd : ∀ i, ((x.set (k + j) A).set (k + j + m) S).getD i ops.zero
        = if i = k + j + m then S else if i = k + j then A else x.getD i ops.zero :=
      fun i => set2_getD x _ _ i A S ops.zero hab ha hb
    rw [hstep]
    refine ⟨by rw [il]; simp only [List.length_set], by rw [iw]; rfl, fun idx => ?_⟩
    rw [ip idx]
    by_cases e1 : idx = k + j
    · -- the low position written in this round
      subst e1
      have c1 : ¬ (k + (j + 1) ≤ k + j ∧ k + j < k + (j + 1) + n) := by omega
      have c2 : ¬ (k + m + (j + 1) ≤ k + j ∧ k + j < k + m + (j + 1) + n) := by omega
      have c3 : k + j ≤ k + j ∧ k + j < k + j + (n + 1) := by omega
      rw [if_neg c1, if_neg c2, if_pos c3, set2_getElem? x _ _ _ A S hab ha, if_neg hab, if_pos rfl, Nat.sub_self, ← hA]
      rfl
    · by_cases e2 : idx = k + j + m
      · -- the high position written in this round
        subst e2
        have c1 : ¬ (k + (j + 1) ≤ k + j + m ∧ k + j + m < k + (j + 1) + n) := by omega
        have c2 : ¬ (k + m + (j + 1) ≤ k + j + m ∧ k + j + m < k + m + (j + 1) + n) := by omega
        have c3 : ¬ (k + j ≤ k + j + m ∧ k + j + m < k + j + (n + 1)) := by omega
        have c4 : k + m + j ≤ k + j + m ∧ k + j + m < k + m + j + (n + 1) := by omega
        have s1 : k + j + m - m = k + j := by omega
        have s2 : k + j + m - (k + m + j) = 0 := by omega
        rw [if_neg c1, if_neg c2, if_neg c3, if_pos c4, set2_getElem? x _ _ _ A S hab ha, if_pos rfl, if_pos hb, s1, s2, ← hS]
        rfl
      · by_cases r1 : k + (j + 1) ≤ idx ∧ idx < k + (j + 1) + n
        · have c3 : k + j ≤ idx ∧ idx < k + j + (n + 1) := by omega
          have s : idx - (k + j) = (idx - (k + (j + 1))) + 1 := by omega
          have n1 : idx + m ≠ k + j + m := by omega
          have n2 : idx + m ≠ k + j := by omega
          rw [if_pos r1, if_pos c3, gd idx, gd (idx + m), if_neg e2, if_neg e1, if_neg n1, if_neg n2, s]
          rfl
        · by_cases r2 : k + m + (j + 1) ≤ idx ∧ idx < k + m + (j + 1) + n
          · have c3 : ¬ (k + j ≤ idx ∧ idx < k + j + (n + 1)) := by omega
            have c4 : k + m + j ≤ idx ∧ idx < k + m + j + (n + 1) := by omega
            have s : idx - (k + m + j) = (idx - (k + m + (j + 1))) + 1 := by omega
            have n1 : idx - m ≠ k + j + m := by omega
            have n2 : idx - m ≠ k + j := by omega
            rw [if_neg r1, if_pos r2, if_neg c3, if_pos c4, gd idx, gd (idx - m), if_neg e2, if_neg e1, if_neg n1, if_neg n2, s]
            rfl
          · have c3 : ¬ (k + j ≤ idx ∧ idx < k + j + (n + 1)) := by omega
            have c4 : ¬ (k + m + j ≤ idx ∧ idx < k + m + j + (n + 1)) := by omega
            rw [if_neg r1, if_neg r2, if_neg c3, if_neg c4, set2_getElem? x _ _ _ A S hab ha, if_neg e2, if_neg e1]

end TF.GenBridge.Ntt
