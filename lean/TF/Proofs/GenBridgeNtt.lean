import TF.Gen.NttLoops
import TF.Model.Ntt
/-!
# Bridge: the loops of `math/ntt.rs` *as regenerated from source* = the hand-written model (C06)

`TF/Gen/NttLoops.lean` is written by `tools/rs2lean_ext.py` from the Rust text on every run.  The functions are generic
over the field (`FF: FiniteField + MulAssign<BFieldElement>`): the generated definitions take the field operations as a
PARAMETER `ops : TF.Model.Ntt.Ops σ α` (`u + v` = `ops.add`, `v *= w` = `ops.scale w v`, `w *= w_m` = `ops.smul`,
`mod_pow_u32` = `ops.spow`, …), a slice `&mut [FF]` is a `List α` and the function returns the final slice.
Value + `_ok` twin as for the other regenerated functions.
-/
namespace TF.GenBridge.Ntt
open TF TF.Gen TF.Model.Ntt

theorem shl_or_bit (r b : Nat) (hb : b < 2) : (r * 2) ||| b = 2 * r + b := by
  have h := Nat.two_pow_add_eq_or_of_lt (i := 1) (b := b) (by simpa using hb) r
  simp only [Nat.pow_one] at h
  rw [Nat.mul_comm r 2, ← h]

theorem bitreverse_for_eq : ∀ cnt it nv r, cnt ≤ 32 → r < 2 ^ (32 - cnt) →
    (Loops.ntt_bitreverse_for cnt it nv r).2 = bitrevAux cnt nv r := by
  intro cnt
  induction cnt with
  | zero => intros; rfl
  | succ c ih =>
    intro it nv r hc hr
    have h2 : r * 2 < 4294967296 := by
      have : (2:Nat) ^ (32 - (c + 1)) * 2 = 2 ^ (32 - c) := by
        rw [← Nat.pow_succ]; congr 1; omega
      have h32 : (2:Nat) ^ (32 - c) ≤ 2 ^ 32 := Nat.pow_le_pow_right (by omega) (by omega)
      omega
    have hb : nv % 2 < 2 := Nat.mod_lt _ (by omega)
    simp only [Loops.ntt_bitreverse_for, bitrevAux, Nat.mod_eq_of_lt h2, Nat.and_one_is_mod, shl_or_bit r _ hb]
    apply ih _ _ _ (by omega)
    have : (2:Nat) ^ (32 - (c + 1)) * 2 = 2 ^ (32 - c) := by
      rw [← Nat.pow_succ]; congr 1; omega
    omega

theorem bitreverse_for_ok : ∀ cnt it nv r, Loops.ntt_bitreverse_for_ok cnt it nv r = true := by
  intro cnt
  induction cnt with
  | zero => intros; rfl
  | succ c ih => intro it nv r; simp only [Loops.ntt_bitreverse_for_ok, ih]

/-- **`bitreverse`** (the `u32` bit loop) regenerated from source = hand model, for every `l ≤ 32`; never panics -/
theorem gen_bitreverse_eq (n l : Nat) (hl : l ≤ 32) :
    Loops.ntt_bitreverse n l = bitreverse n l ∧ Loops.ntt_bitreverse_ok n l = true := by
  constructor
  · simp only [Loops.ntt_bitreverse, bitreverse, Nat.sub_zero]
    exact bitreverse_for_eq l 0 n 0 hl (Nat.two_pow_pos _)
  · simp only [Loops.ntt_bitreverse_ok, Nat.sub_zero, bitreverse_for_ok]

/-! ### the bit-reversal swap loop of `ntt_unchecked` -/

theorem swap_toList {α : Type} (a : Array α) (i j : Nat) (hi : i < a.size) (hj : j < a.size) :
    (a.swap i j hi hj).toList = TF.RustStd.swap a.toList i j := by
  have e1 : a.toList[i]? = some a[i] := by simp [hi]
  have e2 : a.toList[j]? = some a[j] := by simp [hj]
  simp only [TF.RustStd.swap, e1, e2, Array.swap_def, Array.toList_set]

theorem unchecked_for_eq {σ α : Type} (ops : Ops σ α) (log : Nat) (hl : log ≤ 32) : ∀ n k (a : Array α),
    (if Loops.ntt_unchecked_for_ok ops log n k a.toList then some (Loops.ntt_unchecked_for ops log n k a.toList) else none)
      = (swapLoop log n k a).map Array.toList := by
  intro n
  induction n with
  | zero => intro k a; rfl
  | succ n ih =>
    intro k a
    obtain ⟨e, ok⟩ := gen_bitreverse_eq k log hl
    simp only [Loops.ntt_unchecked_for, Loops.ntt_unchecked_for_ok, swapLoop, e, ok, Bool.true_and]
    by_cases h : k < bitreverse k log
    · simp only [h, decide_true, if_true]
      by_cases hb : bitreverse k log < a.size ∧ k < a.size
      · have h1 : bitreverse k log < a.toList.length := by simpa using hb.1
        have h2 : k < a.toList.length := by simpa using hb.2
        simp only [hb, and_self, dite_true, h1, h2, decide_true, Bool.and_self, Bool.true_and]
        rw [← swap_toList a _ _ hb.1 hb.2]
        exact ih (k + 1) _
      · have h3 : (decide (bitreverse k log < a.toList.length) && decide (k < a.toList.length)) = false := by
          rw [Bool.and_eq_false_iff]
          by_cases h1 : bitreverse k log < a.size
          · right; have : ¬ k < a.size := fun h2 => hb ⟨h1, h2⟩
            simpa using this
          · left; simpa using h1
        simp only [hb, dite_false, h3, Bool.false_and, Bool.false_eq_true, if_false, Option.map_none]
    · simp only [h, decide_false, Bool.false_eq_true, if_false, Bool.true_and]
      exact ih (k + 1) a

/-! ### the butterfly loops: one block of one stage

`refBlock` is the in-place butterfly pass over the block `[k, k + 2m)` with plain (unbounded) index arithmetic:
`u = x[k+j]; v = w · x[k+j+m]; x[k+j] = u + v; x[k+j+m] = u - v; w *= w_m` for `j = j₀ .. j₀+n-1`.  The regenerated inner
`for j` loops of `ntt_unchecked` (`u32` indices, cast to `usize`) and of `intt_noswap` (`usize` indices) are proved equal
to it, with no index out of range and no index arithmetic overflowing, whenever the block lies inside the slice. -/

def refBlock {σ α : Type} (ops : Ops σ α) (m : Nat) (w_m : σ) (k : Nat) : Nat → Nat → List α → σ → List α × σ
  | 0, _, x, w => (x, w)
  | n+1, j, x, w =>
    let u := x.getD (k + j) ops.zero
    let v := ops.scale w (x.getD (k + j + m) ops.zero)
    refBlock ops m w_m k n (j + 1) ((x.set (k + j) (ops.add u v)).set (k + j + m) (ops.sub u v)) (ops.smul w w_m)

theorem unchecked_for4_eq {σ α : Type} (ops : Ops σ α) (m : Nat) (w_m : σ) (k : Nat) : ∀ n j (x : List α) (w : σ),
    k + j + n + m ≤ x.length → x.length < 4294967296 →
    Loops.ntt_unchecked_for4 ops m w_m k n j x w = refBlock ops m w_m k n j x w ∧
    Loops.ntt_unchecked_for4_ok ops m w_m k n j x w = true := by
  intro n
  induction n with
  | zero => intros; exact ⟨rfl, rfl⟩
  | succ n ih =>
    intro j x w hlen hU
    have h1 : (k + j) % 4294967296 = k + j := Nat.mod_eq_of_lt (by omega)
    have h2 : (k + j + m) % 4294967296 = k + j + m := Nat.mod_eq_of_lt (by omega)
    have h3 : k + j < 4294967296 := by omega
    have h4 : k + j + m < 4294967296 := by omega
    have h5 : k + j < x.length := by omega
    have h6 : k + j + m < x.length := by omega
    obtain ⟨e, ok⟩ := ih (j + 1) ((x.set (k + j) (ops.add (x.getD (k + j) ops.zero) (ops.scale w (x.getD (k + j + m) ops.zero)))).set
      (k + j + m) (ops.sub (x.getD (k + j) ops.zero) (ops.scale w (x.getD (k + j + m) ops.zero)))) (ops.smul w w_m)
      (by simp only [List.length_set]; omega) (by simp only [List.length_set]; omega)
    constructor
    · simp only [Loops.ntt_unchecked_for4, refBlock, h1, h2, e]
    · simp only [Loops.ntt_unchecked_for4_ok, h1, h2, h3, h4, h5, h6, List.length_set, decide_true, Bool.and_self,
        Bool.true_and, ok]

theorem intt_noswap_for4_eq {σ α : Type} (ops : Ops σ α) (root : Nat → Option σ) (m : Nat) (w_m : σ) (k : Nat) : ∀ n j (x : List α) (w : σ),
    k + j + n + m ≤ x.length → x.length < 18446744073709551616 →
    Loops.intt_noswap_for4 ops root m w_m k n j x w = refBlock ops m w_m k n j x w ∧
    Loops.intt_noswap_for4_ok ops root m w_m k n j x w = true := by
  intro n
  induction n with
  | zero => intros; exact ⟨rfl, rfl⟩
  | succ n ih =>
    intro j x w hlen hU
    have h1 : (k + j) % 18446744073709551616 = k + j := Nat.mod_eq_of_lt (by omega)
    have h2 : (k + j + m) % 18446744073709551616 = k + j + m := Nat.mod_eq_of_lt (by omega)
    have h3 : k + j < 18446744073709551616 := by omega
    have h4 : k + j + m < 18446744073709551616 := by omega
    have h5 : k + j < x.length := by omega
    have h6 : k + j + m < x.length := by omega
    obtain ⟨e, ok⟩ := ih (j + 1) ((x.set (k + j) (ops.add (x.getD (k + j) ops.zero) (ops.scale w (x.getD (k + j + m) ops.zero)))).set
      (k + j + m) (ops.sub (x.getD (k + j) ops.zero) (ops.scale w (x.getD (k + j + m) ops.zero)))) (ops.smul w w_m)
      (by simp only [List.length_set]; omega) (by simp only [List.length_set]; omega)
    constructor
    · simp only [Loops.intt_noswap_for4, refBlock, h1, h2, e]
    · simp only [Loops.intt_noswap_for4_ok, h1, h2, h3, h4, h5, h6, List.length_set, decide_true, Bool.and_self,
        Bool.true_and, ok]

end TF.GenBridge.Ntt
