import TF.Proofs.NttDft
/-!
Orthogonality of the powers of a root `ω` with `ω^(n/2) = -1`, `n = 2^L`, in an arbitrary commutative ring, and
`dft n ω⁻¹ (dft n ω f) = n • f` on `[0, n)`.  No domain/field hypothesis is needed: the geometric sum
`Σ_{k<2^L} z^k = Π_{t<L} (1 + z^(2^t))` has a vanishing factor for every `z = ω^d`, `0 < d < n`.
-/
namespace TF.NttFn
open Finset

variable {R : Type} [CommRing R]

theorem geom_sum_zero (L : Nat) : ∀ (d : Nat) (η : R), η^(2^L) = -1 → 0 < d → d < 2^(L+1) →
    ∑ k ∈ range (2^(L+1)), (η^d)^k = 0 := by
  induction L with
  | zero =>
    intro d η hη hd0 hd
    have : d = 1 := by simp at hd; omega
    subst this
    simp only [pow_zero, pow_one] at hη
    simp [sum_range_succ, hη]
  | succ L ih =>
    intro d η hη hd0 hd
    set m := 2^(L+1) with hm
    rw [show 2^(L+1+1) = m + m by rw [hm, pow_succ 2 (L+1)]; ring, sum_range_add]
    have hzm : (η^d)^m = (-1)^d := by rw [← pow_mul, mul_comm, pow_mul, hη]
    have hshift : ∑ k ∈ range m, (η^d)^(m + k) = (-1)^d * ∑ k ∈ range m, (η^d)^k := by
      rw [mul_sum]; apply sum_congr rfl; intro k _; rw [pow_add, hzm]
    rw [hshift]
    rcases Nat.even_or_odd d with ⟨d', hd'⟩ | hodd
    · have hz : η^d = (η^2)^d' := by rw [← pow_mul, hd']; congr 1; ring
      have := ih d' (η^2) (by rw [← pow_mul, ← pow_succ']; exact hη) (by omega)
        (by rw [hm] at *; rw [pow_succ 2 (L+1)] at hd; omega)
      rw [hz, this]; ring
    · rw [hodd.neg_one_pow]; ring

theorem inv_pow_half (L : Nat) (ω ωi : R) (hω : ω^(2^(L-1)) = -1) (hinv : ωi * ω = 1) : ωi^(2^(L-1)) = -1 := by
  have h1 : (ωi * ω)^(2^(L-1)) = 1 := by rw [hinv, one_pow]
  rw [mul_pow, hω] at h1
  have : ωi^(2^(L-1)) = -(ωi^(2^(L-1)) * -1) := by ring
  rw [this, h1]

/-- orthogonality: `Σ_{k<n} ω^(j·k)·ωi^(k·i) = n·[j = i]` -/
theorem orthogonality (L : Nat) (ω ωi : R) (hω : 0 < L → ω^(2^(L-1)) = -1) (hinv : ωi * ω = 1) (i j : Nat)
    (hi : i < 2^L) (hj : j < 2^L) :
    ∑ k ∈ range (2^L), ω^(j*k) * ωi^(k*i) = if j = i then ((2^L : ℕ) : R) else 0 := by
  have hterm : ∀ k, ω^(j*k) * ωi^(k*i) = (ω^j * ωi^i)^k := by
    intro k; rw [mul_pow, ← pow_mul, ← pow_mul, mul_comm k i]
  simp only [hterm]
  by_cases hji : j = i
  · subst hji
    rw [if_pos rfl, ← mul_pow, mul_comm ω ωi, hinv]
    simp
  · rw [if_neg hji]
    obtain ⟨M, rfl⟩ : ∃ M, L = M + 1 := by
      refine ⟨L - 1, ?_⟩
      rcases L with _ | L
      · simp at hi hj; omega
      · omega
    have hω := hω (by omega)
    simp only [Nat.add_sub_cancel] at hω
    have hωi := inv_pow_half (M+1) ω ωi (by simpa using hω) hinv
    simp only [Nat.add_sub_cancel] at hωi
    rcases Nat.lt_or_gt_of_ne hji with hlt | hgt
    · -- j < i : ω^j ωi^i = ωi^(i-j)
      have : ω^j * ωi^i = ωi^(i-j) := by
        have : ωi^i = ωi^(i-j) * ωi^j := by rw [← pow_add]; congr 1; omega
        rw [this, mul_comm, mul_assoc, ← mul_pow, hinv]; simp
      rw [this]
      exact geom_sum_zero M (i-j) ωi hωi (by omega) (by omega)
    · have : ω^j * ωi^i = ω^(j-i) := by
        have : ω^j = ω^(j-i) * ω^i := by rw [← pow_add]; congr 1; omega
        rw [this, mul_assoc, ← mul_pow, mul_comm ω ωi, hinv]; simp
      rw [this]
      exact geom_sum_zero M (j-i) ω hω (by omega) (by omega)

/-- the inverse transform undoes the forward transform up to the factor `n` (any commutative ring) -/
theorem dft_inv (L : Nat) (ω ωi : R) (hω : 0 < L → ω^(2^(L-1)) = -1) (hinv : ωi * ω = 1) (f : Nat → R) (i : Nat)
    (hi : i < 2^L) : dft (2^L) ωi (dft (2^L) ω f) i = ((2^L : ℕ) : R) * f i := by
  unfold dft
  simp only [sum_mul]
  rw [sum_comm]
  have : ∀ j ∈ range (2^L), ∑ k ∈ range (2^L), f j * ω^(j*k) * ωi^(k*i)
      = f j * (if j = i then ((2^L : ℕ) : R) else 0) := by
    intro j hj
    rw [← orthogonality L ω ωi hω hinv i j hi (mem_range.1 hj), mul_sum]
    apply sum_congr rfl; intro k _; ring
  rw [sum_congr rfl this]
  simp only [mul_ite, mul_zero]
  rw [sum_ite_eq' , if_pos (mem_range.2 hi)]
  ring

/-- `ntt_eq_dft` with the hypothesis on `ω` only where it means something (`L ≥ 1`; for `L = 0` the transform
    of a single element is the identity whatever `ω` is) -/
theorem ntt_eq_dft' (L : Nat) (ω : R) (hω : 0 < L → ω^(2^(L-1)) = -1) (x : Nat → R) (j : Nat) (hj : j < 2^L) :
    nttStages L ω L (fun i => x (bitrev L i)) j = dft (2^L) ω x j := by
  rcases L with _ | L
  · have : j = 0 := by simpa using hj
    subst this
    simp [nttStages, dft, bitrev]
  · exact ntt_eq_dft (L+1) ω (hω (by omega)) x j hj

end TF.NttFn
