import TF.Proofs.PolyNttBridge
import TF.Proofs.Shah
import Mathlib.RingTheory.AdjoinRoot
import Mathlib.Tactic.LinearCombination
/-!
Extension-field part of the bridge C06 → C07.

* `algOps K` — the operations `ntt::<FF>` uses when `FF` is a field extension `K` of the base field: the twiddle
  factors are base-field scalars (`FF: MulAssign<BFieldElement>`), `scale c a = algebraMap c * a`.
  `algNtt_spec`: the model NTT over `algOps K` with the translated root table satisfies `TransformSpec`, for **every**
  field `K` that is a `ZMod P`-algebra (evaluation points: the images of the powers of the tabulated roots).
* `XK = (ZMod P)[X]/(X³ − X + 1)` (a field by `shah_irreducible`, property C01) and `xc : X3 → XK`, the element a triple
  of naturals stands for.  `xfield_opsMap`: `xfieldOps` (triples, `TF/Spec/Field.lean`) corresponds to the field
  operations of `XK`; `xNtt_transMap`: the transform the driver runs on triples corresponds to the model NTT over
  `algOps XK`.
-/
open Polynomial

namespace TF.Model.Poly
open TF.Model.Ntt TF.NttFn TF.NttProofs TF.Gen TF.Model.Poly.Hom TF.Spec

/-! ### any field extension of the base field -/
section Alg
variable (K : Type) [Field K] [Algebra (ZMod P) K]
open Classical

noncomputable def kinv (a : K) : Option K := if a = 0 then none else some a⁻¹
noncomputable def kinv0 (a : K) : K := a⁻¹

/-- operations of `ntt::<FF>` for an extension `K` of the base field: scalars (twiddles, `n⁻¹`) in `ZMod P` -/
noncomputable def algOps : Ops (ZMod P) K where
  szero := 0
  sone := 1
  smul := (· * ·)
  spow := (· ^ ·)
  sinv := zinv
  sinv0 := zinv0
  sofNat := fun n => (n : ZMod P)
  zero := 0
  add := (· + ·)
  sub := (· - ·)
  scale := fun c a => algebraMap (ZMod P) K c * a

/-- the root table seen in `K` -/
noncomputable def algRoot : Nat → Option K := fun n => (zRoot n).map (algebraMap (ZMod P) K)

theorem algHom : OpsHom (algOps K) (ringOps K (kinv K) (kinv0 K)) (algebraMap (ZMod P) K) id where
  szero := map_zero _
  sone := map_one _
  smul := fun a b => map_mul _ a b
  spow := fun a e => map_pow _ a e
  sinv := fun a => by
    simp only [algOps, ringOps, zinv, kinv]
    by_cases h : a = 0
    · subst h; simp
    · have h' : algebraMap (ZMod P) K a ≠ 0 := (_root_.map_ne_zero _).2 h
      simp [h, h']
  sinv0 := fun a => by simp [algOps, ringOps, zinv0, kinv0]
  sofNat := fun n => by simp [algOps, ringOps]
  zero := rfl
  add := fun _ _ => rfl
  sub := fun _ _ => rfl
  scale := fun _ _ => rfl

theorem algRoot_ok : RootOK (algRoot K) := by
  intro k w h
  obtain ⟨z, hz, rfl⟩ := Option.map_eq_some_iff.1 h
  rw [← map_pow, zRoot_ok k z hz, map_neg, map_one]

theorem kInvOK : InvOK (kinv K) (kinv0 K) where
  inv_mul := by
    intro a b h
    unfold kinv at h
    split at h
    · cases h
    · next hne => cases h; exact inv_mul_cancel₀ hne
  inv0_mul := fun L hL => by
    have : ((2^L : ℕ) : K) ≠ 0 := by
      rw [← map_natCast (algebraMap (ZMod P) K)]
      exact (_root_.map_ne_zero _).2 (two_pow_cast_ne_zero L (by omega))
    exact inv_mul_cancel₀ this

theorem algTransform_eq :
    nttTransform (algOps K) zRoot = nttTransform (ringOps K (kinv K) (kinv0 K)) (algRoot K) := by
  have h1 := fun x => ntt_map (algHom K) zRoot x
  have h2 := fun x => intt_map (algHom K) zRoot x
  simp only [Array.map_id_fun, id_eq, Option.map_id_fun] at h1 h2
  unfold nttTransform algRoot
  congr 1 <;> funext xs
  · rw [← h1]
  · rw [← h2]

/-- **`TransformSpec` for the model of the Rust NTT over every field extension `K` of the base field** (twiddles in
    the base field, as in `ntt::<XFieldElement>`), at the points `algebraMap (ω_n^i)` -/
theorem algNtt_spec : TransformSpec (nttTransform (algOps K) zRoot) (rootPts (algRoot K)) := by
  rw [algTransform_eq]
  exact nttTransform_spec _ _ _ (kInvOK K) (algRoot_ok K)

end Alg

/-! ### the cubic extension `(ZMod P)[X]/(X³ − X + 1)` and triples of canonical values -/
section XField

/-- the "shah polynomial" -/
noncomputable def shah : (ZMod P)[X] := X^3 - X + 1

instance shah_fact : Fact (Irreducible shah) := ⟨TF.Shah.shah_irreducible⟩

/-- the field `XFieldElement` lives in -/
abbrev XK := AdjoinRoot shah

noncomputable def θ : XK := AdjoinRoot.root shah

theorem θ_rel : θ^3 - θ + 1 = 0 := by
  have h : AdjoinRoot.mk shah (X^3 - X + 1 : (ZMod P)[X]) = 0 := AdjoinRoot.mk_self (f := shah)
  simpa [map_add, map_sub, map_pow, AdjoinRoot.mk_X, θ] using h

/-- canonical triples -/
def Canon3 (a : X3) : Prop := a.1 < P ∧ a.2.1 < P ∧ a.2.2 < P

/-- the base field inside `XK` -/
noncomputable def φ : ZMod P →+* XK := algebraMap (ZMod P) XK

/-- the element of `XK` a triple stands for: `c0 + c1·θ + c2·θ²` -/
noncomputable def xc (a : X3) : XK := φ (a.1 : ZMod P) + φ (a.2.1 : ZMod P) * θ + φ (a.2.2 : ZMod P) * θ^2

theorem xc_zero : xc xzero = 0 := by simp [xc, xzero]
theorem xc_one : xc xone = 1 := by simp [xc, xone]

theorem xc_add (a b : X3) : xc (xadd a b) = xc a + xc b := by
  simp only [xc, xadd, cast_fadd, map_add]; ring

theorem xc_sub (a b : X3) : xc (xsub a b) = xc a - xc b := by
  simp only [xc, xsub, cast_fsub, map_sub]; ring

theorem xc_scale (c : Nat) (a : X3) : xc (xscale c a) = φ (c : ZMod P) * xc a := by
  simp only [xc, xscale, cast_fmul, map_mul]; ring

theorem xc_mul (x y : X3) : xc (xmul x y) = xc x * xc y := by
  obtain ⟨c, b, a⟩ := x
  obtain ⟨f, e, d⟩ := y
  simp only [xc, xmul, cast_fadd, cast_fsub, cast_fmul, map_add, map_sub, map_mul]
  linear_combination (-((φ (a : ZMod P) * φ (e : ZMod P) + φ (b : ZMod P) * φ (d : ZMod P))
    + φ (a : ZMod P) * φ (d : ZMod P) * θ)) * θ_rel

theorem xc_eq_mk (a : X3) :
    xc a = AdjoinRoot.mk shah (C (a.1 : ZMod P) + C (a.2.1 : ZMod P) * X + C (a.2.2 : ZMod P) * X^2) := by
  simp only [xc, φ, θ, map_add, map_mul, map_pow, AdjoinRoot.mk_X, AdjoinRoot.algebraMap_eq]
  rfl

theorem xc_eq_zero_iff (a : X3) (ha : Canon3 a) : xc a = 0 ↔ a = xzero := by
  constructor
  · intro h
    rw [xc_eq_mk, AdjoinRoot.mk_eq_zero] at h
    obtain ⟨h0, h1, h2⟩ := TF.Shah.quad_eq_zero_of_shah_dvd _ _ _ h
    obtain ⟨l0, l1, l2⟩ := ha
    have z (n : Nat) (hn : n < P) (hz : ((n : ℕ) : ZMod P) = 0) : n = 0 := by
      have := (cast_eq_zero_iff n).1 hz
      rwa [Nat.mod_eq_of_lt hn] at this
    exact Prod.ext (z _ l0 h0) (Prod.ext (z _ l1 h1) (z _ l2 h2))
  · rintro rfl; exact xc_zero

/-- the operation record of `XK` -/
noncomputable abbrev FX : FieldOps XK := FieldOps.ofField XK (algRoot XK)

theorem canon3_mod (a b c : Nat) : Canon3 (a % P, b % P, c % P) :=
  ⟨Nat.mod_lt _ P_pos, Nat.mod_lt _ P_pos, Nat.mod_lt _ P_pos⟩

/-- `xfieldOps` (triples of naturals, product reduced with `X³ = X − 1`) corresponds to the field operations of `XK` -/
theorem xfield_opsMap : OpsMap TF.xfieldOps FX xc Canon3 where
  zero := xc_zero
  one := xc_one
  add := xc_add
  sub := xc_sub
  mul := xc_mul
  isZero := by
    intro a ha
    rw [Bool.eq_iff_iff, FX, FieldOps.ofField_isZero, xc_eq_zero_iff a ha]
    simp [TF.xfieldOps]
  ok_zero := ⟨P_pos, P_pos, P_pos⟩
  ok_one := ⟨by decide, by decide, by decide⟩
  ok_add := fun a b => canon3_mod _ _ _
  ok_sub := fun a b => canon3_mod _ _ _
  ok_mul := fun a b => by
    obtain ⟨c, b', a'⟩ := a
    obtain ⟨f, e, d⟩ := b
    exact canon3_mod _ _ _

/-- `Nat.cast` on the twiddles and `xc` on the elements commute with every operation of the instance `xOps` -/
theorem xHom : OpsHom xOps (algOps XK) (fun n : Nat => (n : ZMod P)) xc where
  szero := castHom.szero
  sone := castHom.sone
  smul := castHom.smul
  spow := castHom.spow
  sinv := castHom.sinv
  sinv0 := castHom.sinv0
  sofNat := castHom.sofNat
  zero := xc_zero
  add := xc_add
  sub := xc_sub
  scale := xc_scale

/-- the model NTT over `XK` (twiddles in `ZMod P`) -/
noncomputable def xkNtt : Transform XK := nttTransform (algOps XK) zRoot

theorem xkNtt_spec : TransformSpec xkNtt (rootPts (algRoot XK)) := algNtt_spec XK

/-- the transform on triples (what the driver runs) corresponds to the model NTT over `XK` -/
theorem xNtt_transMap : TransMap xNtt xkNtt xc Canon3 where
  ntt := fun xs => by
    have h1 := ntt_map xHom primitiveRoot xs.toArray
    change _ = TF.Model.Ntt.ntt (algOps XK) zRoot _ at h1
    simp only [xNtt, xkNtt, nttTransform, ← List.map_toArray, ← h1, Option.map_map]
    congr 1; funext y; simp
  intt := fun xs => by
    have h2 := intt_map xHom primitiveRoot xs.toArray
    change _ = TF.Model.Ntt.intt (algOps XK) zRoot _ at h2
    simp only [xNtt, xkNtt, nttTransform, ← List.map_toArray, ← h2, Option.map_map]
    congr 1; funext y; simp
  ok_intt := by
    intro xs ys h
    obtain ⟨z, hz, rfl⟩ := Option.map_eq_some_iff.1 h
    obtain ⟨c, w, rfl⟩ := intt_some_form _ _ _ _ hz
    intro y hy
    simp only [Array.toList_map, List.mem_map] at hy
    obtain ⟨a, _, rfl⟩ := hy
    exact canon3_mod _ _ _

/-- the transform on triples is defined on every length `2^L`, `L ≤ 31`, and preserves the length -/
theorem xNtt_definedAt (L : Nat) (hL : L ≤ 31) : DefinedAt xNtt (2^L) := by
  apply DefinedAt.of_transMap xNtt_transMap
  obtain ⟨r, hr, h0, hlt, _⟩ := root_zmod L (by omega)
  have hne : φ ((r : ℕ) : ZMod P) ≠ 0 := (_root_.map_ne_zero _).2 (cast_ne_zero_of_lt r h0 hlt)
  have hrK : algRoot XK (2^L) = some (φ ((r : ℕ) : ZMod P)) := by simp [algRoot, zRoot, hr, φ]
  have := nttTransform_definedAt (kinv XK) (kinv0 XK) (algRoot XK) (algRoot_ok XK) L hL _ _ hrK
    (by rw [kinv, if_neg hne]) (inv_mul_cancel₀ hne)
  rw [xkNtt, algTransform_eq]
  exact this

/-! ### base-field operand × extension-field operand -/

/-- the embedding `ZMod P → XK` commutes with the operations of the model NTT (base-field twiddles on both sides) -/
theorem zToXHom : OpsHom zOps (algOps XK) id φ where
  szero := rfl
  sone := rfl
  smul := fun _ _ => rfl
  spow := fun _ _ => rfl
  sinv := fun a => by simp [algOps, ringOps]
  sinv0 := fun _ => rfl
  sofNat := fun _ => rfl
  zero := map_zero φ
  add := fun a b => map_add φ a b
  sub := fun a b => map_sub φ a b
  scale := fun c a => map_mul φ c a

/-- the model NTT over `ZMod P` and over `XK` correspond along the embedding -/
theorem zNtt_to_xk (xs : List (ZMod P)) : (zNtt.ntt xs).map (List.map φ) = xkNtt.ntt (xs.map φ) := by
  have h1 := ntt_map zToXHom zRoot xs.toArray
  simp only [Option.map_id_fun, id_eq] at h1
  simp only [zNtt, xkNtt, nttTransform, ← List.map_toArray, ← h1, Option.map_map]
  congr 1; funext y; simp

theorem xkNtt_id (xs : List XK) :
    (xkNtt.ntt xs).map (List.map (RingHom.id XK)) = xkNtt.ntt (xs.map (RingHom.id XK)) := by
  simp

/-- `BFieldElement * XFieldElement` on canonical values / triples is the product in `XK` -/
theorem xc_mulBX (a : Nat) (b : X3) : xc (xscale a b) = φ (zc a) * (RingHom.id XK) (xc b) := by
  simp [xc_scale, zc]

/-- `XFieldElement * BFieldElement` -/
theorem xc_mulXB (a : X3) (b : Nat) : xc (xscale b a) = (RingHom.id XK) (xc a) * φ (zc b) := by
  simp [xc_scale, zc, mul_comm]

end XField

end TF.Model.Poly
