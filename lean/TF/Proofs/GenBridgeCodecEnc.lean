import TF.Proofs.GenBridgeCodecTuple
/-!
Bridge: the regenerated encoders of `Vec<T>`, `[T; N]`, `Option<T>`, `Polynomial<T>` (`TF/Gen/CodecGeneric.lean`) are the
`vec` / `array` / `option` / `poly` cases of `encode` of the hand model, for every item encoder that is the model's
(`vals (enc x) = encode t (toVal x)`).  Lengths that the code converts with `usize -> BFieldElement` are assumed `< P`
(what can be materialised; the model emits them unreduced, see TF/Model/Codec.lean).  Core Lean only.
-/
set_option linter.unusedVariables false
namespace TF.GenBridge.CodecG
open TF.Gen TF.Gen.Loops TF.Codec TF.RustStd TF.GenBridge.Codec

theorem vals_ZERO : vals [bfe_ZERO] = [0] := by
  simp only [vals, List.map_cons, List.map_nil, bfe_ZERO]; rw [TF.BF.value_new 0 (by decide)]

theorem vals_ONE : vals [bfe_ONE] = [1] := by
  simp only [vals, List.map_cons, List.map_nil, bfe_ONE]; rw [TF.BF.value_new 1 (by decide)]

/-- **`Vec<T>::encode`**: the length, then the items through `bfield_codec_encode_list` -/
theorem gen_vec_encode {α : Type} (t : Ty) (enc : α → List Nat) (toVal : α → Val)
    (he : ∀ x, vals (enc x) = encode t (toVal x)) (xs : List α) (hn : xs.length < TF.BF.Pn)
    (hl : ∀ x ∈ xs, (enc x).length < TF.BF.Pn) :
    vals (codec_vec_encode (staticLength t) enc xs) = encode (.vec t) (.list (xs.map toVal)) := by
  have h := gen_encode_list (staticLength t) enc toVal (fun x => encode t x) he xs hl
  simp only [codec_vec_encode, encode, isDyn, List.length_map]
  rw [vals_append, from_usize_value _ hn, h]
  rfl

/-- **`[T; N]::encode`**: the items through `bfield_codec_encode_list`, no length -/
theorem gen_array_encode {α : Type} (n : Nat) (t : Ty) (enc : α → List Nat) (toVal : α → Val)
    (he : ∀ x, vals (enc x) = encode t (toVal x)) (xs : List α) (hl : ∀ x ∈ xs, (enc x).length < TF.BF.Pn) :
    vals (codec_array_encode n (staticLength t) enc xs) = encode (.array n t) (.list (xs.map toVal)) := by
  have h := gen_encode_list (staticLength t) enc toVal (fun x => encode t x) he xs hl
  simp only [codec_array_encode, encode, isDyn]
  exact h

/-- **`Option<T>::encode`**: `[0]` or `1` followed by the item -/
theorem gen_option_encode {α : Type} (t : Ty) (enc : α → List Nat) (toVal : α → Val)
    (he : ∀ x, vals (enc x) = encode t (toVal x)) (o : Option α) :
    vals (codec_option_encode enc o) = encode (.option t) (.opt (o.map toVal)) := by
  cases o with
  | none => simp only [codec_option_encode, Option.map_none, encode]; exact vals_ZERO
  | some x =>
    simp only [codec_option_encode, Option.map_some, encode, List.flatten_cons, List.flatten_nil, List.append_nil]
    rw [vals_append, vals_ONE, he]
    rfl

/-- `Polynomial::coefficients()` regenerated (`rposition` of the last non-zero coefficient, slice up to it) = `normalize` of
    the hand model, for every `is_zero` that is the model's -/
theorem poly_coefficients_map {α : Type} (toVal : α → Val) (isz : α → Bool) (hz : ∀ a, isz a = valIsZero (toVal a)) :
    ∀ (l : List α), (codec_poly_coefficients isz l).map toVal = normalize (l.map toVal) := by
  intro l
  induction l with
  | nil => rfl
  | cons c cs ih =>
    simp only [codec_poly_coefficients, TF.RustStd.rposition] at ih ⊢
    cases hr : TF.RustStd.rposition (fun c => !isz c) cs with
    | some i =>
      rw [hr] at ih
      cases cs with
      | nil => simp [TF.RustStd.rposition] at hr
      | cons d ds =>
        simp only [List.take_succ_cons, List.map_cons, normalize] at ih ⊢
        rw [← ih]
    | none =>
      rw [hr] at ih
      simp only [List.map_nil] at ih
      simp only [List.map_cons, normalize, ← ih, ← hz]
      by_cases hc : isz c = true
      · simp [hc]
      · simp [hc]

/-- **`Polynomial<T>::encode`**: the length of the `Vec` encoding of the *normalised* coefficients, then that encoding -/
theorem gen_poly_encode {α : Type} (t : Ty) (enc : α → List Nat) (isz : α → Bool) (toVal : α → Val)
    (he : ∀ x, vals (enc x) = encode t (toVal x)) (hz : ∀ a, isz a = valIsZero (toVal a)) (cs : List α)
    (hn : (codec_poly_coefficients isz cs).length < TF.BF.Pn)
    (hl : ∀ x ∈ codec_poly_coefficients isz cs, (enc x).length < TF.BF.Pn)
    (hlen : (codec_vec_encode (staticLength t) enc (codec_poly_coefficients isz cs)).length < TF.BF.Pn) :
    vals (codec_poly_encode (staticLength t) enc isz cs) = encode (.poly t) (.list (cs.map toVal)) := by
  have hv := gen_vec_encode t enc toVal he (codec_poly_coefficients isz cs) hn hl
  rw [poly_coefficients_map toVal isz hz] at hv
  simp only [encode] at hv
  simp only [codec_poly_encode, encode, List.flatten_cons, List.flatten_nil, List.append_nil]
  rw [vals_append, from_usize_value _ hlen, hv, ← vals_length, hv]
  rfl

end TF.GenBridge.CodecG
