import TF.Proofs.PolyInterp
/-!
The even/odd recursion arm of `fast_modular_coset_interpolate` (C08): codewords longer than the INTT cut-off.
-/
open Polynomial

namespace TF.Model.PolyI
open TF TF.Model.Poly

variable {K : Type} [Field K]
variable (root : Nat → Option K)
local notation "FK" => FieldOps.ofField K root

/-! ### interleaving -/

def interleave {α : Type} : List α → List α → List α
  | a :: as, b :: bs => a :: b :: interleave as bs
  | _, _ => []

theorem interleave_evens_odds {α : Type} : ∀ (h : Nat) (l : List α), l.length = 2 * h →
    interleave (evens l) (odds l) = l ∧ (evens l).length = h ∧ (odds l).length = h := by
  intro h
  induction h with
  | zero => intro l hl; have : l = [] := List.length_eq_zero_iff.1 (by omega); subst this; simp [evens, odds, interleave]
  | succ h ih =>
    intro l hl
    match l, hl with
    | x :: y :: rest, hl =>
      obtain ⟨i1, i2, i3⟩ := ih rest (by simp at hl; omega)
      simp only [evens, odds, interleave, i1, List.length_cons, i2, i3, and_self]

theorem zip_interleave {α β : Type} : ∀ (a b : List α) (c d : List β), a.length = c.length → b.length = d.length →
    (interleave a b).zip (interleave c d) = interleave (a.zip c) (b.zip d) := by
  intro a
  induction a with
  | nil => intro b c d h1 _; cases c <;> simp_all [interleave]
  | cons x a ih =>
    intro b c d h1 h2
    cases c with
    | nil => simp at h1
    | cons y c =>
      cases b with
      | nil => cases d <;> simp_all [interleave]
      | cons u b =>
        cases d with
        | nil => simp at h2
        | cons v d =>
          simp only [interleave, List.zip_cons_cons]
          rw [ih b c d (by simpa using h1) (by simpa using h2)]

theorem mem_interleave {α : Type} (p : α) : ∀ (a b : List α), p ∈ interleave a b → p ∈ a ∨ p ∈ b := by
  intro a
  induction a with
  | nil => intro b h; simp [interleave] at h
  | cons x a ih =>
    intro b h
    cases b with
    | nil => simp [interleave] at h
    | cons y b =>
      simp only [interleave, List.mem_cons] at h ⊢
      rcases h with h | h | h
      · exact Or.inl (Or.inl h)
      · exact Or.inr (Or.inl h)
      · rcases ih b h with h | h
        · exact Or.inl (Or.inr h)
        · exact Or.inr (Or.inr h)

theorem geom_interleave (g : K) : ∀ (h : Nat) (x0 : K),
    geom FK x0 g (2 * h) = interleave (geom FK x0 (g ^ 2) h) (geom FK (x0 * g) (g ^ 2) h) := by
  intro h
  induction h with
  | zero => intro x0; rfl
  | succ h ih =>
    intro x0
    rw [show 2 * (h + 1) = (2 * h + 1) + 1 by ring, geom, geom, ih]
    simp only [geom, interleave, FieldOps.ofField_mul]
    congr 3 <;> ring_nf


/-! ### preprocessing: the sparse zerofiers modulo the modulus -/
section pre
variable {E : Ext K} (hE : E.Lawful)
include hE

theorem modSquares_spec (m : List K) (hm : denote m ≠ 0) : ∀ (k : Nat) (acc : List K) (j : Nat), j < k →
    ∃ s, (modSquares E m k acc)[j]? = some s ∧ denote m ∣ denote s - (denote acc) ^ (2 ^ j) := by
  intro k
  induction k with
  | zero => intro acc j hj; omega
  | succ k ih =>
    intro acc j hj
    cases j with
    | zero => exact ⟨acc, by simp [modSquares], by simp⟩
    | succ j =>
      obtain ⟨s, hs, hd⟩ := ih (E.rem (E.mul acc acc) m) j (by omega)
      refine ⟨s, by simpa [modSquares] using hs, ?_⟩
      have h1 : denote m ∣ denote (E.rem (E.mul acc acc) m) - denote acc ^ 2 := by
        rw [hE.rem _ _ hm, hE.mul, EuclideanDomain.mod_eq_sub_mul_div]
        exact ⟨-(denote acc * denote acc / denote m), by ring⟩
      have h2 : denote m ∣ denote (E.rem (E.mul acc acc) m) ^ (2 ^ j) - (denote acc ^ 2) ^ (2 ^ j) :=
        dvd_trans h1 (sub_dvd_pow_sub_pow _ _ _)
      have : denote s - denote acc ^ 2 ^ (j + 1) =
          (denote s - denote (E.rem (E.mul acc acc) m) ^ (2 ^ j)) +
          (denote (E.rem (E.mul acc acc) m) ^ (2 ^ j) - (denote acc ^ 2) ^ (2 ^ j)) := by
        rw [← pow_mul, pow_succ 2 j, mul_comm (2 ^ j) 2]; ring
      rw [this]
      exact dvd_add hd h2

omit hE in
theorem sparseZerofiers_get (base : K) (squares : List (List K)) (j : Nat) (sq : List K)
    (h : squares[j]? = some sq) :
    (sparseZerofiers FK base squares)[j]? = some (sub FK (scalarMul FK sq ((FK).pow base (2 ^ j))) (one FK)) := by
  unfold sparseZerofiers
  rw [List.getElem?_map, List.getElem?_zipIdx, h]
  simp

/-- the zerofiers stored by `fast_modular_coset_interpolate_preprocess`, modulo the modulus -/
theorem fmciPreprocess_zerofiers (k : Nat) (offset : K) (modulus : List K) (pre : Pre K) (ω : K)
    (hω : root (2 ^ k) = some ω)
    (h : fmciPreprocess FK E (2 ^ k) offset modulus = some pre) (j : Nat) (hj : j < k) :
    ∃ ez oz, pre.evenZ[j]? = some ez ∧ pre.oddZ[j]? = some oz ∧
      denote modulus ∣ denote ez - (C ((offset⁻¹) ^ (2 ^ j)) * X ^ (2 ^ j) - 1) ∧
      denote modulus ∣ denote oz - (C (((offset * ω)⁻¹) ^ (2 ^ j)) * X ^ (2 ^ j) - 1) := by
  obtain ⟨_, hm⟩ := fmciPreprocess_modulus root _ _ _ _ h
  unfold fmciPreprocess at h
  simp only [FieldOps.ofField_rootOfUnity, hω, Option.bind_eq_bind, Option.bind_some] at h
  split_ifs at h with h1 h2 h3 hz
  simp only [Option.pure_def, Option.some.injEq] at h
  subst h
  have hlog : log2 (2 ^ k) = k := by unfold log2; exact Nat.log2_two_pow
  simp only [hlog]
  obtain ⟨s, hs, hd⟩ := modSquares_spec hE modulus hm k [(FK).zero, (FK).one] j hj
  have hX : denote [(FK).zero, (FK).one] = (X : K[X]) := by simp
  rw [hX] at hd
  refine ⟨_, _, sparseZerofiers_get root _ _ j s hs, sparseZerofiers_get root _ _ j s hs, ?_, ?_⟩
  · rw [denote_sub, denote_scalarMul, denote_one, FieldOps.ofField_pow, FieldOps.ofField_inv]
    obtain ⟨q, hq⟩ := hd
    exact ⟨q * C (offset⁻¹ ^ 2 ^ j), by rw [← mul_assoc, ← hq]; ring⟩
  · rw [denote_sub, denote_scalarMul, denote_one, FieldOps.ofField_pow, FieldOps.ofField_inv, FieldOps.ofField_mul]
    obtain ⟨q, hq⟩ := hd
    exact ⟨q * C ((offset * ω)⁻¹ ^ 2 ^ j), by rw [← mul_assoc, ← hq]; ring⟩

end pre


/-! ### the even/odd identity `f = E·Z_odd + O·Z_even` with the sparse zerofiers -/

theorem length_geom (x0 g : K) (n : Nat) : (geom FK x0 g n).length = n := by
  rw [geom_eq]; simp

theorem mem_geom (x0 g : K) (n : Nat) (x : K) (hx : x ∈ geom FK x0 g n) : ∃ i, x = x0 * g ^ i := by
  rw [geom_eq] at hx
  obtain ⟨i, _, rfl⟩ := List.mem_map.1 hx
  exact ⟨i, rfl⟩

theorem degree_mul_sparse_lt (g : K[X]) (c : K) (h : Nat) (_hh : 0 < h) (hg : g.degree < h) :
    (g * (C c * X ^ h - 1)).degree < ((2 * h : ℕ) : WithBot ℕ) := by
  by_cases hg0 : g = 0
  · rw [hg0, zero_mul, degree_zero]; exact WithBot.bot_lt_coe _
  · have h1 : g.natDegree < h := (natDegree_lt_iff_degree_lt hg0).2 hg
    have h2 : (C c * X ^ h - 1 : K[X]).natDegree ≤ h := by
      refine (natDegree_sub_le _ _).trans (max_le ?_ (by simp))
      exact (natDegree_C_mul_le _ _).trans (by simp)
    have h3 : (g * (C c * X ^ h - 1)).natDegree < 2 * h :=
      lt_of_le_of_lt natDegree_mul_le (by omega)
    exact lt_of_le_of_lt degree_le_natDegree (by exact_mod_cast h3)

theorem evenodd_combine (h : Nat) (hh : 0 < h) (ω offset m2 : K) (hω : ω ^ h = -1) (hoff : offset ≠ 0)
    (hm2 : m2 * (-2) = 1) (values : List K) (hlen : values.length = 2 * h) (gE gO : K[X])
    (hgE : Interpolates (geom FK offset (ω ^ 2) h) ((evens values).map (fun v => m2 * v)) gE)
    (hgO : Interpolates (geom FK (offset * ω) (ω ^ 2) h) ((odds values).map (fun v => m2 * v)) gO) :
    Interpolates (geom FK offset ω (2 * h)) values
      (gE * (C (((offset * ω)⁻¹) ^ h) * X ^ h - 1) + gO * (C ((offset⁻¹) ^ h) * X ^ h - 1)) := by
  obtain ⟨hil, hel, hol⟩ := interleave_evens_odds h values hlen
  have hω0 : ω ≠ 0 := by
    intro h0; rw [h0, zero_pow (Nat.pos_iff_ne_zero.1 hh)] at hω
    exact (neg_ne_zero.2 one_ne_zero) hω.symm
  have hoh : offset ^ h ≠ 0 := pow_ne_zero _ hoff
  have hw2 : ∀ i : Nat, ((ω ^ 2) ^ i) ^ h = 1 := by
    intro i
    have : ((ω ^ 2) ^ i) ^ h = (ω ^ h) ^ (2 * i) := by
      rw [← pow_mul, ← pow_mul, ← pow_mul]; congr 1; ring
    rw [this, hω, pow_mul]; simp
  refine ⟨?_, ?_⟩
  · rw [length_geom]
    have d1 := degree_mul_sparse_lt gE (((offset * ω)⁻¹) ^ h) h hh (by simpa [length_geom] using hgE.1)
    have d2 := degree_mul_sparse_lt gO ((offset⁻¹) ^ h) h hh (by simpa [length_geom] using hgO.1)
    exact lt_of_le_of_lt (degree_add_le _ _) (max_lt d1 d2)
  · intro p hp
    rw [geom_interleave] at hp
    conv at hp => rw [← hil]
    rw [zip_interleave _ _ _ _ (by rw [length_geom, hel]) (by rw [length_geom, hol])] at hp
    simp only [eval_add, eval_mul, eval_sub, eval_C, eval_pow, eval_X, eval_one]
    rcases mem_interleave p _ _ hp with hp | hp
    · -- a point of the even coset
      have hv : gE.eval p.1 = m2 * p.2 := by
        have : (p.1, m2 * p.2) ∈ (geom FK offset (ω ^ 2) h).zip ((evens values).map (fun v => m2 * v)) := by
          rw [List.zip_map_right]
          exact List.mem_map.2 ⟨p, hp, rfl⟩
        exact hgE.2 _ this
      obtain ⟨i, hi⟩ := mem_geom root _ _ _ _ (List.of_mem_zip hp).1
      have hxh : p.1 ^ h = offset ^ h := by rw [hi, mul_pow, hw2, mul_one]
      rw [hv, hxh, inv_pow, inv_pow, mul_pow, hω]
      have : m2 * p.2 * ((offset ^ h * -1)⁻¹ * offset ^ h - 1) + gO.eval p.1 * ((offset ^ h)⁻¹ * offset ^ h - 1)
          = (m2 * (-2)) * p.2 := by
        field_simp; ring
      rw [this, hm2, one_mul]
    · -- a point of the odd coset
      have hv : gO.eval p.1 = m2 * p.2 := by
        have : (p.1, m2 * p.2) ∈ (geom FK (offset * ω) (ω ^ 2) h).zip ((odds values).map (fun v => m2 * v)) := by
          rw [List.zip_map_right]
          exact List.mem_map.2 ⟨p, hp, rfl⟩
        exact hgO.2 _ this
      obtain ⟨i, hi⟩ := mem_geom root _ _ _ _ (List.of_mem_zip hp).1
      have hxh : p.1 ^ h = - offset ^ h := by rw [hi, mul_pow, hw2, mul_one, mul_pow, hω]; ring
      rw [hv, hxh, inv_pow, inv_pow, mul_pow, hω]
      have : gE.eval p.1 * ((offset ^ h * -1)⁻¹ * -offset ^ h - 1) + m2 * p.2 * ((offset ^ h)⁻¹ * -offset ^ h - 1)
          = (m2 * (-2)) * p.2 := by
        field_simp; ring
      rw [this, hm2, one_mul]


/-! ### the recursion -/

/-- what C06 proves about the table of roots of unity: `root (2^(k+1))` squares to `root (2^k)`, its `2^k`-th power
    is `-1`, and the `2^k` powers of `root (2^k)` are pairwise distinct -/
structure RootsOK : Prop where
  sq : ∀ k ω, root (2 ^ (k + 1)) = some ω → root (2 ^ k) = some (ω ^ 2)
  neg : ∀ k ω, root (2 ^ (k + 1)) = some ω → ω ^ (2 ^ k) = -1
  prim : ∀ k ω, root (2 ^ k) = some ω → ((List.range (2 ^ k)).map (fun i => ω ^ i)).Nodup

section recursion
variable {E : Ext K} (hE : E.Lawful) (hN : Ext.LawfulNtt root E) (hR : RootsOK root)
include hE hN hR

/-- **all three arms** of `fast_modular_coset_interpolate…`, every cut-off value, every codeword length `2^k` -/
theorem fmciWithFuel_sound (t : Thr) (hT : 2 ≤ t.zf) (modulus : List K)
    (hm2 : ((TF.Gen.MINUS_TWO_INVERSE : ℕ) : K) * (-2) = 1) :
    ∀ (fuel k : Nat) (values : List K) (offset : K) (pre : Pre K) (r : List K) (ω : K),
      values.length = 2 ^ k → offset ≠ 0 → root (2 ^ k) = some ω →
      fmciPreprocess FK E (2 ^ k) offset modulus = some pre →
      fmciWithFuel FK E t fuel values offset modulus pre = some r →
      ∃ g : K[X], Interpolates (cosetDomain offset ω (2 ^ k)) values g ∧ denote r = g % denote modulus := by
  intro fuel
  induction fuel with
  | zero => intro k values offset pre r ω _ _ _ _ h; simp [fmciWithFuel] at h
  | succ fuel ih =>
    intro k values offset pre r ω hlen hoff hω hpre h
    obtain ⟨hpm, hmne⟩ := fmciPreprocess_modulus root _ _ _ _ hpre
    by_cases hsmall : values.length ≤ t.intt ∨ values.length < t.lag
    · have := fmciWithFuel_sound_small root hN hE t hT fuel values offset modulus pre hpm hoff hsmall ω
        (by rw [hlen]; exact hω) (by rw [hlen]; exact hR.prim k ω hω) r h
      rw [hlen] at this
      exact this
    · -- even/odd split
      have hnl : ¬ values.length < t.lag := fun h' => hsmall (Or.inr h')
      have hni : ¬ values.length ≤ t.intt := fun h' => hsmall (Or.inl h')
      rw [fmciWithFuel] at h
      split at h
      · simp at h
      · simp only [FieldOps.ofField_rootOfUnity] at h
        rw [hlen, hω] at h
        rw [hlen] at hnl hni
        simp only [if_neg hnl, if_neg hni] at h
        split at h
        · simp at h
        · next hhalf =>
          obtain ⟨k', rfl⟩ : ∃ k', k = k' + 1 := by
            cases k with
            | zero => simp at hhalf
            | succ k' => exact ⟨k', rfl⟩
          have hdiv : 2 ^ (k' + 1) / 2 = 2 ^ k' := by rw [pow_succ]; exact Nat.mul_div_cancel _ (by norm_num)
          have hlen2 : values.length = 2 * 2 ^ k' := by rw [hlen, pow_succ]; ring
          obtain ⟨hil, hel, hol⟩ := interleave_evens_odds (2 ^ k') values hlen2
          simp only [List.length_map, hel, hol, hdiv] at h
          obtain ⟨preE, hpreE, h⟩ := Option.bind_eq_some_iff.1 h
          obtain ⟨ei, hei, h⟩ := Option.bind_eq_some_iff.1 h
          obtain ⟨preO, hpreO, h⟩ := Option.bind_eq_some_iff.1 h
          obtain ⟨oi, hoi, h⟩ := Option.bind_eq_some_iff.1 h
          obtain ⟨oz, hoz, h⟩ := Option.bind_eq_some_iff.1 h
          obtain ⟨ez, hez, h⟩ := Option.bind_eq_some_iff.1 h
          obtain ⟨_, rfl⟩ := reduce_eq root _ modulus r h
          have hωneg := hR.neg k' ω hω
          have hω2 := hR.sq k' ω hω
          have hω0 : ω ≠ 0 := by
            intro h0; rw [h0, zero_pow (by positivity)] at hωneg
            exact (neg_ne_zero.2 one_ne_zero) hωneg.symm
          obtain ⟨gE, hgE, hEm⟩ := ih k' _ offset preE ei (ω ^ 2) (by simp [hel]) hoff hω2 hpreE hei
          obtain ⟨gO, hgO, hOm⟩ := ih k' _ ((FK).mul offset ω) preO oi (ω ^ 2) (by simp [hol])
            (by simpa using mul_ne_zero hoff hω0) hω2 hpreO hoi
          have hlog : log2 (2 ^ k') = k' := by unfold log2; exact Nat.log2_two_pow
          rw [hlog] at hoz hez
          obtain ⟨ez', oz', hez', hoz', hde, hdo⟩ :=
            fmciPreprocess_zerofiers root hE (k' + 1) offset modulus pre ω hω hpre k' (by omega)
          rw [hez'] at hez; rw [hoz'] at hoz
          simp only [Option.some.injEq] at hez hoz
          subst hez; subst hoz
          simp only [FieldOps.ofField_mul, FieldOps.ofField_ofNat] at hgE hgO hEm hOm
          rw [cosetDomain, ← geom_eq root] at hgE hgO
          have hcomb := evenodd_combine root (2 ^ k') (by positivity) ω offset _ hωneg hoff hm2 values hlen2 gE gO
            hgE hgO
          refine ⟨gE * (C (((offset * ω)⁻¹) ^ 2 ^ k') * X ^ 2 ^ k' - 1) + gO * (C ((offset⁻¹) ^ 2 ^ k') * X ^ 2 ^ k' - 1),
            ?_, ?_⟩
          · rw [cosetDomain, ← geom_eq root, show 2 ^ (k' + 1) = 2 * 2 ^ k' by rw [pow_succ]; ring]
            exact hcomb
          · rw [hE.rem _ _ hmne, denote_add, hE.mul, hE.mul, hEm, hOm]
            apply mod_eq_of_dvd_sub
            have e1 : denote modulus ∣ gE % denote modulus - gE :=
              ⟨-(gE / denote modulus), by rw [EuclideanDomain.mod_eq_sub_mul_div]; ring⟩
            have e2 : denote modulus ∣ gO % denote modulus - gO :=
              ⟨-(gO / denote modulus), by rw [EuclideanDomain.mod_eq_sub_mul_div]; ring⟩
            have key : ∀ (a a' b b' c c' d d' : K[X]),
                a * b + c * d - (a' * b' + c' * d') = a * (b - b') + (a - a') * b' + c * (d - d') + (c - c') * d' := by
              intros; ring
            rw [key]
            exact dvd_add (dvd_add (dvd_add (Dvd.dvd.mul_left hdo _) (Dvd.dvd.mul_right e1 _))
              (Dvd.dvd.mul_left hde _)) (Dvd.dvd.mul_right e2 _)

/-- `fast_modular_coset_interpolate` -/
theorem fmci_sound (t : Thr) (hT : 2 ≤ t.zf) (modulus : List K)
    (hm2 : ((TF.Gen.MINUS_TWO_INVERSE : ℕ) : K) * (-2) = 1) (k : Nat) (values : List K) (offset : K)
    (hlen : values.length = 2 ^ k) (hoff : offset ≠ 0) (ω : K) (hω : root (2 ^ k) = some ω) (r : List K)
    (h : fmci FK E t values offset modulus = some r) :
    ∃ g : K[X], Interpolates (cosetDomain offset ω (2 ^ k)) values g ∧ denote r = g % denote modulus := by
  unfold fmci at h
  obtain ⟨pre, hpre, h⟩ := Option.bind_eq_some_iff.1 h
  rw [hlen] at hpre
  exact fmciWithFuel_sound root hE hN hR t hT modulus hm2 _ k values offset pre r ω hlen hoff hω hpre h

omit hN hR in
theorem dcEval_of_mod (tree : ZTree K) (points : List K) (hov : tree.Over points) (mi : List K) (g : K[X])
    (hgm : denote mi = g % denote (tree.zerofier FK)) (out : List K) (h : dcEval FK E mi tree = some out) :
    out = points.map (fun x => g.eval x) := by
  obtain ⟨hg, hpts⟩ := hov
  rw [dcEval_spec root hE mi tree hg, hpts] at h
  simp only [Option.some.injEq] at h
  rw [← h]
  apply List.map_congr_left
  intro x hx
  rw [hgm, hg.zerofier root, hpts]
  exact eval_mod_of_root _ _ x ((eval_zpoly_eq_zero_iff points x).2 hx)

/-- `coset_extrapolate`: every strategy, every arm, every cut-off value, every codeword length `2^k` -/
theorem cosetExtrapolateWith_sound_full (t : Thr) (hT : 2 ≤ t.zf)
    (hm2 : ((TF.Gen.MINUS_TWO_INVERSE : ℕ) : K) * (-2) = 1) (k : Nat) (offset : K) (codeword points : List K)
    (hlen : codeword.length = 2 ^ k) (hoff : offset ≠ 0) (ω : K) (hω : root (2 ^ k) = some ω)
    (out : List K) (h : cosetExtrapolateWith FK E t offset codeword points = some out) :
    ∃ g : K[X], Interpolates (cosetDomain offset ω (2 ^ k)) codeword g ∧ out = points.map (fun x => g.eval x) := by
  unfold cosetExtrapolateWith at h
  split at h
  · unfold fastCosetExtrapolate at h
    obtain ⟨tree, htree, h⟩ := Option.bind_eq_some_iff.1 h
    obtain ⟨mi, hmi, h⟩ := Option.bind_eq_some_iff.1 h
    have hov := newFromDomainWith_sound root hE t.rt t.zf points tree htree
    obtain ⟨g, hgI, hgm⟩ := fmci_sound root hE hN hR t hT _ hm2 k codeword offset hlen hoff ω hω mi hmi
    exact ⟨g, hgI, dcEval_of_mod root hE tree points hov mi g hgm out h⟩
  · have := naiveCosetExtrapolate_sound root hN hE t offset codeword points ω (by rw [hlen]; exact hω)
      (by rw [hlen]; exact hR.prim k ω hω) out h
    rw [hlen] at this
    exact this

/-- `batch_coset_extrapolate` / `par_batch_coset_extrapolate`: every strategy, arm, cut-off value, length `2^k` -/
theorem batchCosetExtrapolateWith_sound_full (t : Thr) (hT : 2 ≤ t.zf)
    (hm2 : ((TF.Gen.MINUS_TWO_INVERSE : ℕ) : K) * (-2) = 1) (k : Nat) (offset : K) (codewords points : List K)
    (hoff : offset ≠ 0) (ω : K) (hω : root (2 ^ k) = some ω)
    (out : List K) (h : batchCosetExtrapolateWith FK E t offset (2 ^ k) codewords points = some out) :
    ∃ parts, List.Forall₂ (SliceOK offset ω (2 ^ k) points) (codewordSlices (2 ^ k) codewords) parts ∧
      out = parts.flatten := by
  by_cases hfast : points.length < t.extra
  · unfold batchCosetExtrapolateWith at h
    rw [if_pos hfast] at h
    obtain ⟨tree, htree, h⟩ := Option.bind_eq_some_iff.1 h
    obtain ⟨pre, hpre, h⟩ := Option.bind_eq_some_iff.1 h
    obtain ⟨parts, hparts, h⟩ := Option.bind_eq_some_iff.1 h
    simp only [Option.pure_def, Option.some.injEq] at h
    have hov := newFromDomainWith_sound root hE t.rt t.zf points tree htree
    refine ⟨parts, ?_, h.symm⟩
    apply mapM_option_forall₂_mem _ _ _ hparts
    intro cw hcw part hpart
    have hl := length_of_mem_codewordSlices (2 ^ k) codewords cw hcw
    obtain ⟨mi, hmi, hpart⟩ := Option.bind_eq_some_iff.1 hpart
    obtain ⟨g, hgI, hgm⟩ := fmciWithFuel_sound root hE hN hR t hT _ hm2 _ k cw offset pre mi ω hl hoff hω hpre hmi
    exact ⟨g, hgI, dcEval_of_mod root hE tree points hov mi g hgm part hpart⟩
  · -- the naive strategy does not look at the codeword length
    have hsmall : 2 ^ k ≤ max t.intt (2 ^ k) ∨ 2 ^ k < t.lag := Or.inl (le_max_right _ _)
    have h' : batchCosetExtrapolateWith FK E { t with intt := max t.intt (2 ^ k) } offset (2 ^ k) codewords points
        = some out := by
      unfold batchCosetExtrapolateWith at h ⊢
      rw [if_neg hfast] at h
      rw [if_neg hfast]
      exact h
    exact batchCosetExtrapolateWith_sound root hN hE { t with intt := max t.intt (2 ^ k) } hT offset (2 ^ k)
      codewords points hoff hsmall ω hω (hR.prim k ω hω) out h'

end recursion

end TF.Model.PolyI
