import TF.Model.MmrSucc
/-!
Unfolding lemmas for the model of `MmrSuccessorProof::new_from_batch_append` (`TF/Model/MmrSucc.lean`).

Core Lean only, on purpose: the lemmas are proved by `rfl`, which must see exactly the instances the model was
elaborated with (under Mathlib a different `Decidable` instance can be chosen for `a ≠ b`, and a failed syntactic match
makes the unifier evaluate the translated `% 2^64` arithmetic on open terms).
-/
namespace TF.MmrE
open TF.Gen TF.Model.MmrE TF.Model.Mmr

variable {D : Type} (H : D → D → D) (dflt : D)

theorem neededLoop_succ (newIdx : List Nat) (fuel idx h : Nat) (acc : List Nat) :
    neededLoop newIdx (fuel + 1) idx h acc =
      if newIdx.contains idx then some acc else
      (parent idx).bind fun pi => (parent (right_sibling idx h)).bind fun prs =>
        neededLoop newIdx fuel pi (inc32 h) (acc ++ [if prs ≠ pi then left_sibling idx h else right_sibling idx h]) :=
  rfl

theorem replayAppends_nil (cur_peaks : List D) (cur_idx : List Nat) (cnt : Nat) (paths : List (List D))
    (needed : List (List (Option (Nat × Nat)))) :
    replayAppends H [] cur_peaks cur_idx cnt paths needed = some paths := by
  rw [replayAppends]

theorem replayAppends_cons (leaf : D) (rest cur_peaks : List D) (cur_idx : List Nat) (cnt : Nat) (paths : List (List D))
    (needed : List (List (Option (Nat × Nat)))) :
    replayAppends H (leaf :: rest) cur_peaks cur_idx cnt paths needed =
      (node_indices_added_by_append cnt).bind fun new_node_indices =>
      (calculateNewPeaksFromAppend H cnt cur_peaks leaf).bind fun r =>
      (get_peak_heights_and_peak_node_indices (add64 cnt 1)).bind fun q =>
      (fillMany ((new_node_indices.zip (scanNodes H leaf r.2)) ++ (cur_idx.zip cur_peaks)) paths needed).bind fun s =>
      replayAppends H rest r.1 q.2 (add64 cnt 1) s.1 s.2 := by
  rw [replayAppends]
  rfl

theorem newFromBatchAppend_def (mmra : Acc D) (new_leafs : List D) :
    newFromBatchAppend H dflt mmra new_leafs =
      (get_peak_heights_and_peak_node_indices mmra.count).bind fun o =>
      (get_peak_heights_and_peak_node_indices (add64 mmra.count new_leafs.length)).bind fun nw =>
      ((o.2.zip o.1).mapM (fun (ih : Nat × Nat) => neededLoop nw.2 (2 * descentFuel) ih.1 ih.2 [])).bind fun neededIdx =>
      (replayAppends H new_leafs mmra.peaks o.2 mmra.count (neededIdx.map (fun l => l.map (fun _ => dflt)))
        (neededIdx.map (fun l => (enumFrom0 l 0).map some))).bind fun filled => some filled.flatten := by
  unfold newFromBatchAppend
  rfl

theorem calculateNewPeaksFromAppend_def (c : Nat) (ps : List D) (x : D) :
    calculateNewPeaksFromAppend H c ps x =
      (mergeLoop H (right_lineage_length_from_leaf_index c) (x :: ps.reverse) []).bind fun r =>
        some (r.1.reverse, r.2) := by
  unfold calculateNewPeaksFromAppend
  rfl

theorem fillMany_nil (ps : List (List D)) (ns : List (List (Option (Nat × Nat)))) : fillMany [] ps ns = some (ps, ns) := by
  rw [fillMany]

theorem fillMany_cons (i : Nat) (d : D) (rest : List (Nat × D)) (ps : List (List D))
    (ns : List (List (Option (Nat × Nat)))) :
    fillMany ((i, d) :: rest) ps ns = (fillAll i d ps ns).bind fun r => fillMany rest r.1 r.2 := by
  rw [fillMany]
  cases fillAll i d ps ns <;> rfl

theorem fillAll_cons (i : Nat) (d : D) (p : List D) (ps : List (List D)) (n : List (Option (Nat × Nat)))
    (ns : List (List (Option (Nat × Nat)))) :
    fillAll i d (p :: ps) (n :: ns) =
      (fillOne i d p n).bind fun a => (fillAll i d ps ns).bind fun b => some (a.1 :: b.1, a.2 :: b.2) := by
  rw [fillAll]
  cases fillOne i d p n <;> cases fillAll i d ps ns <;> rfl

theorem fillAll_nil (i : Nat) (d : D) : fillAll i d ([] : List (List D)) [] = some ([], []) := by
  rw [fillAll]
  · intros; simp_all

end TF.MmrE
