import TF.Proofs.BField
import TF.Model.BField
import TF.Spec.Field
import TF.Proofs.Prime
import Mathlib.FieldTheory.Finite.Basic
/-!
The hand-written loops of `TF/Model/BField.lean` (mod_pow, inverse chain, batch inversion, conversions) refine the
specification-level field `TF/Spec/Field.lean`.
-/
namespace TF.BF
open TF.Gen TF.Model TF.Spec

theorem P_pos : 0 < Pn := by decide

/-- abstraction: raw word ↦ canonical value -/
abbrev val (r : Nat) : Nat := bfe_value r

theorem val_mul (a b : Nat) (ha : canon a) (hb : canon b) : val (bfe_mul a b) = fmul (val a) (val b) :=
  (mul_spec a b ha hb).2
theorem canon_mul (a b : Nat) (ha : canon a) (hb : canon b) : canon (bfe_mul a b) := (mul_spec a b ha hb).1

theorem canon_one : canon BF.one := (new_spec 1 (by decide)).1
theorem val_one : val BF.one = 1 := value_new 1 (by decide)
theorem canon_zero : canon BF.zero := (new_spec 0 (by decide)).1
theorem val_zero : val BF.zero = 0 := value_new 0 (by decide)

/-- `mod_pow` refines square-and-multiply on values (same recursion) -/
theorem modPow_spec (a : Nat) (ha : canon a) : ∀ e, canon (BF.modPow a e) ∧ val (BF.modPow a e) = fpow (val a) e := by
  intro e
  induction e using Nat.strongRecOn with
  | _ e ih =>
    cases e with
    | zero =>
      unfold BF.modPow fpow
      exact ⟨canon_one, by rw [val_one]; rfl⟩
    | succ n =>
      have := ih ((n+1)/2) (by omega)
      obtain ⟨hc, hv⟩ := this
      unfold BF.modPow fpow
      simp only
      have hc2 := canon_mul _ _ hc hc
      have hv2 := val_mul _ _ hc hc
      split
      · exact ⟨canon_mul _ _ hc2 ha, by rw [val_mul _ _ hc2 ha, hv2, hv]⟩
      · exact ⟨hc2, by rw [hv2, hv]⟩

/-- `fpow` is exponentiation modulo `P` -/
theorem fpow_eq (a : Nat) : ∀ e, fpow a e = a ^ e % P := by
  intro e
  induction e using Nat.strongRecOn with
  | _ e ih =>
    cases e with
    | zero => unfold fpow; simp
    | succ n =>
      have h := ih ((n+1)/2) (by omega)
      unfold fpow
      simp only [fmul, h]
      have hsq : (a ^ ((n+1)/2) % P * (a ^ ((n+1)/2) % P)) % P = a ^ (2 * ((n+1)/2)) % P := by
        rw [← Nat.mul_mod, ← Nat.pow_add]; congr 2; omega
      split
      · rename_i hodd
        rw [hsq, Nat.mod_mul_mod, ← Nat.pow_succ]
        congr 2; omega
      · rename_i heven
        rw [hsq]; congr 2; omega

/-- `mod_pow` computes the repeated product -/
theorem modPow_value (a : Nat) (ha : canon a) (e : Nat) :
    canon (BF.modPow a e) ∧ val (BF.modPow a e) = (val a) ^ e % P :=
  ⟨(modPow_spec a ha e).1, by rw [(modPow_spec a ha e).2, fpow_eq]⟩

/-! ### inversion: the addition chain computes `x^(P-2)`, which is the inverse by Fermat -/

theorem pw_mul (v m n : Nat) : fmul (v ^ m % P) (v ^ n % P) = v ^ (m + n) % P := by
  unfold fmul; rw [← Nat.mul_mod, ← Nat.pow_add]

/-- a raw word `r` "is `v^m`" -/
def IsPow (v m r : Nat) : Prop := canon r ∧ val r = v ^ m % P

theorem IsPow.mul {v m n a b : Nat} (ha : IsPow v m a) (hb : IsPow v n b) : IsPow v (m + n) (bfe_mul a b) :=
  ⟨canon_mul _ _ ha.1 hb.1, by rw [val_mul _ _ ha.1 hb.1, ha.2, hb.2, pw_mul]⟩

theorem IsPow.sqN {v m b : Nat} (k : Nat) (hb : IsPow v m b) : IsPow v (m * 2 ^ k) (BF.sqN b k) := by
  induction k generalizing m b with
  | zero => simpa [BF.sqN] using hb
  | succ k ih =>
    unfold BF.sqN
    have := ih (hb.mul hb)
    rw [show (m + m) * 2 ^ k = m * 2 ^ (k + 1) by rw [Nat.pow_succ, ← Nat.two_mul, Nat.mul_assoc, Nat.mul_comm 2, Nat.mul_assoc]] at this
    exact this

theorem IsPow.cast {v m n r : Nat} (h : IsPow v m r) (e : m = n) : IsPow v n r := e ▸ h

theorem IsPow.self {x : Nat} (hx : canon x) : IsPow (val x) 1 x :=
  ⟨hx, by rw [Nat.pow_one]; exact (Nat.mod_eq_of_lt (value_lt x (Nat.lt_trans hx Pn_lt_W))).symm⟩

/-- the addition chain of `inverse` computes `x^(P-2)`; it panics exactly on zero -/
theorem inverse_chain (x : Nat) (hx : canon x) :
    (x = BF.zero → BF.inverse x = none) ∧
    (x ≠ BF.zero → ∃ r, BF.inverse x = some r ∧ IsPow (val x) (P - 2) r) := by
  constructor
  · intro h; unfold BF.inverse; simp [h]
  · intro h
    have h0 : (x == BF.zero) = false := by simpa using h
    unfold BF.inverse
    simp only [h0, Bool.false_eq_true, if_false, BF.square]
    refine ⟨_, rfl, ?_⟩
    have s := IsPow.self hx
    have b2 := ((s.mul s).mul s)
    have b3 := ((b2.mul b2).mul s)
    have b6 := (b3.sqN 3).mul b3
    have b12 := (b6.sqN 6).mul b6
    have b24 := (b12.sqN 12).mul b12
    have b30 := (b24.sqN 6).mul b6
    have b31 := (b30.mul b30).mul s
    have b31z := b31.mul b31
    have b32 := (b31.mul b31).mul s
    exact ((b31z.sqN 32).mul b32).cast (by decide)

theorem fermat (v : Nat) (hv : 0 < v) (hv' : v < P) : (v ^ (P - 2) % P * v) % P = 1 := by
  have hne : ((v : ℕ) : ZMod 18446744069414584321) ≠ 0 := by
    intro h
    rw [ZMod.natCast_eq_zero_iff] at h
    exact absurd (Nat.le_of_dvd hv h) (by unfold P at hv'; omega)
  have := ZMod.pow_card_sub_one_eq_one hne
  have h2 : ((v ^ (18446744069414584321 - 1) : ℕ) : ZMod 18446744069414584321) = ((1 : ℕ) : ZMod 18446744069414584321) := by
    push_cast; exact this
  rw [ZMod.natCast_eq_natCast_iff] at h2
  unfold Nat.ModEq at h2
  rw [Nat.mod_mul_mod, ← Nat.pow_succ]
  exact h2

/-- **inverse**: for every non-zero canonical element the result is canonical and `inverse(x) · x = 1` -/
theorem inverse_spec (x : Nat) (hx : canon x) (hnz : x ≠ BF.zero) :
    ∃ r, BF.inverse x = some r ∧ canon r ∧ fmul (val r) (val x) = 1 := by
  obtain ⟨r, hr, hp⟩ := (inverse_chain x hx).2 hnz
  refine ⟨r, hr, hp.1, ?_⟩
  have hvpos : 0 < val x := by
    rcases Nat.eq_zero_or_pos (val x) with h | h
    · exact absurd (repr_unique x BF.zero hx canon_zero (h.trans val_zero.symm)) hnz
    · exact h
  unfold fmul
  rw [hp.2]
  exact fermat (val x) hvpos (value_lt x (Nat.lt_trans hx Pn_lt_W))

/-- the inverse is unique: any `y` with `y·x = 1` is the computed one -/
theorem inverse_unique (vx y z : Nat) (hy : y < P) (hz : z < P) (h1 : fmul y vx = 1) (h2 : fmul z vx = 1) : y = z := by
  unfold fmul at *
  -- y = y * (z * vx) = (y * vx) * z = z  (mod P)
  have e1 : (y * (z * vx)) % P = y := by
    rw [Nat.mul_mod, h2, Nat.mul_one, Nat.mod_mod, Nat.mod_eq_of_lt hy]
  have e2 : (y * (z * vx)) % P = z := by
    rw [show y * (z * vx) = z * (y * vx) by ac_rfl, Nat.mul_mod, h1, Nat.mul_one, Nat.mod_mod, Nat.mod_eq_of_lt hz]
  rw [← e1, e2]

end TF.BF
