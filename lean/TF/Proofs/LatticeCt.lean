import TF.Proofs.LatticeModule
/-! `Ciphertext <-> [BFieldElement; 320]` round trips -/
namespace TF.LatticeProofs
open TF.Gen TF.Model.Lattice

theorem flatMap_length (l : List (Array Nat)) (h : ∀ a ∈ l, a.size = 64) :
    (l.flatMap Array.toList).length = 64 * l.length := by
  induction l with
  | nil => simp
  | cons a l ih =>
    rw [List.flatMap_cons, List.length_append, ih (fun b hb => h b (List.mem_cons_of_mem _ hb)), List.length_cons]
    have := h a List.mem_cons_self
    simp only [Array.length_toList, this]; ring

theorem flatMap_getElem? (l : List (Array Nat)) (h : ∀ a ∈ l, a.size = 64) (i : Nat) (hi : i < 64 * l.length) :
    (l.flatMap Array.toList)[i]? = (l.getD (i / 64) #[])[i % 64]? := by
  induction l generalizing i with
  | nil => simp at hi
  | cons a l ih =>
    have ha := h a List.mem_cons_self
    rw [List.flatMap_cons]
    by_cases hlt : i < 64
    · rw [List.getElem?_append_left (by simp [ha, hlt])]
      simp [Nat.div_eq_of_lt hlt, Nat.mod_eq_of_lt hlt]
    · rw [List.getElem?_append_right (by simp [ha]; omega)]
      simp only [Array.length_toList, ha]
      rw [ih (fun b hb => h b (List.mem_cons_of_mem _ hb)) (i - 64) (by simp at hi; omega)]
      have h1 : i / 64 = (i - 64) / 64 + 1 := by omega
      have h2 : i % 64 = (i - 64) % 64 := by omega
      rw [h1, h2]; simp

/-- array -> ciphertext -> array -/
theorem ciphertext_array_roundtrip_1 (v : Array Nat) (hv : v.size = 320) :
    ciphertextToArray (ciphertextOfArray v) = v := by
  apply Array.ext'
  simp only [ciphertextToArray, ciphertextOfArray]
  apply List.ext_getElem?
  intro i
  set bg : Module := Array.ofFn (n := 4) fun k => Array.ofFn (n := 64) fun i => v.getD (64 * k.val + i.val) 0 with hbg
  set bm : Module := #[Array.ofFn (n := 64) fun i => v.getD (256 + i.val) 0] with hbm
  have hbgs : ∀ a ∈ bg.toList, a.size = 64 := by
    intro a ha
    simp only [hbg, Array.toList_ofFn, List.mem_ofFn] at ha
    obtain ⟨k, rfl⟩ := ha; simp
  have hbms : ∀ a ∈ bm.toList, a.size = 64 := by
    intro a ha
    simp only [hbm, List.mem_singleton, Array.toList] at ha
    subst ha; simp
  have hl1 := flatMap_length bg.toList hbgs
  have hl2 := flatMap_length bm.toList hbms
  have hbgl : bg.toList.length = 4 := by simp [hbg]
  have hbml : bm.toList.length = 1 := by simp [hbm]
  by_cases h1 : i < 256
  · rw [List.getElem?_append_left (by rw [hl1, hbgl]; omega),
      flatMap_getElem? _ hbgs i (by rw [hbgl]; omega)]
    have hk : i / 64 < 4 := by omega
    have : bg.toList.getD (i / 64) #[] = Array.ofFn (n := 64) fun j => v.getD (64 * (i/64) + j.val) 0 := by
      rw [hbg, Array.toList_ofFn, List.getD_eq_getElem?_getD, List.getElem?_ofFn]
      simp only [hk, dite_true, Option.getD_some]
    rw [this]
    simp only [Array.getElem?_ofFn, Nat.mod_lt i (by norm_num : 0 < 64), dite_true]
    have : 64 * (i / 64) + i % 64 = i := Nat.div_add_mod i 64
    rw [this]
    simp [Array.getD_eq_getD_getElem?, show i < v.size by omega]
  · rw [List.getElem?_append_right (by rw [hl1, hbgl]; omega), hl1, hbgl]
    by_cases h2 : i < 320
    · rw [flatMap_getElem? _ hbms (i - 64*4) (by rw [hbml]; omega)]
      have hd : (i - 64*4) / 64 = 0 := by omega
      have hm : (i - 64*4) % 64 = i - 256 := by omega
      rw [hd, hm]
      simp only [hbm, Array.toList, List.getD_cons_zero]
      simp only [Array.getElem?_ofFn, show i - 256 < 64 by omega, dite_true]
      rw [show 256 + (i - 256) = i by omega]
      simp [Array.getD_eq_getD_getElem?, show i < v.size by omega]
    · rw [List.getElem?_eq_none (by rw [hl2, hbml]; omega), List.getElem?_eq_none (by simp [hv]; omega)]


theorem shaped_mem (n : Nat) (m : Module) (h : Shaped n m) : ∀ a ∈ m.toList, a.size = 64 := by
  intro a ha
  obtain ⟨k, hk, rfl⟩ := List.getElem_of_mem ha
  have hk' : k < n := by rw [← h.1]; simpa using hk
  have := h.2 k hk'
  simpa [Array.getD_eq_getD_getElem?, show k < m.size by simpa using hk] using this

theorem toArray_getD (c : Ciphertext) (hbg : Shaped 4 c.bg) (hbm : Shaped 1 c.bgaM) (i : Nat) (hi : i < 320) :
    (ciphertextToArray c).getD i 0 =
      if i < 256 then (c.bg.getD (i / 64) ringZero).getD (i % 64) 0
      else (c.bgaM.getD 0 ringZero).getD (i - 256) 0 := by
  have h1 := shaped_mem 4 c.bg hbg
  have h2 := shaped_mem 1 c.bgaM hbm
  have hl1 := flatMap_length c.bg.toList h1
  have hl2 := flatMap_length c.bgaM.toList h2
  have hbgl : c.bg.toList.length = 4 := by simpa using hbg.1
  have hbml : c.bgaM.toList.length = 1 := by simpa using hbm.1
  simp only [ciphertextToArray, Array.getD_eq_getD_getElem?, List.getElem?_toArray]
  by_cases hlt : i < 256
  · rw [if_pos hlt, List.getElem?_append_left (by rw [hl1, hbgl]; omega),
      flatMap_getElem? _ h1 i (by rw [hbgl]; omega)]
    have hk : i / 64 < c.bg.size := by rw [hbg.1]; omega
    simp [List.getD_eq_getElem?_getD, hk]
  · rw [if_neg hlt, List.getElem?_append_right (by rw [hl1, hbgl]; omega), hl1, hbgl,
      flatMap_getElem? _ h2 (i - 64*4) (by rw [hbml]; omega)]
    have hd : (i - 64*4) / 64 = 0 := by omega
    have hm : (i - 64*4) % 64 = i - 256 := by omega
    rw [hd, hm]
    have hk : 0 < c.bgaM.size := by rw [hbm.1]; omega
    simp [List.getD_eq_getElem?_getD, hk]

/-- ciphertext -> array -> ciphertext -/
theorem ciphertext_array_roundtrip_2 (c : Ciphertext) (hbg : Shaped 4 c.bg) (hbm : Shaped 1 c.bgaM) :
    ciphertextOfArray (ciphertextToArray c) = c := by
  obtain ⟨bg, bm⟩ := c
  simp only [ciphertextOfArray, Ciphertext.mk.injEq]
  simp only at hbg hbm
  constructor
  · apply Array.ext (by simp [hbg.1])
    intro k h1 h2
    have hk : k < 4 := by simpa using h1
    simp only [Array.getElem_ofFn]
    have hsz : (bg.getD k ringZero).size = 64 := hbg.2 k hk
    have hg : bg.getD k ringZero = bg[k] := by simp [Array.getD_eq_getD_getElem?, h2]
    apply Array.ext (by simp; rw [← hg, hsz])
    intro i h3 h4
    have hi : i < 64 := by simpa using h3
    simp only [Array.getElem_ofFn]
    rw [toArray_getD ⟨bg, bm⟩ hbg hbm (64 * k + i) (by omega), if_pos (by omega)]
    have e1 : (64 * k + i) / 64 = k := by omega
    have e2 : (64 * k + i) % 64 = i := by omega
    simp only [e1, e2, hg]
    simp [Array.getD_eq_getD_getElem?, h4]
  · have h0 : 0 < bm.size := by rw [hbm.1]; omega
    have hsz : (bm.getD 0 ringZero).size = 64 := hbm.2 0 (by omega)
    have hg : bm.getD 0 ringZero = bm[0] := by simp [Array.getD_eq_getD_getElem?, h0]
    apply Array.ext (by simp [hbm.1])
    intro k h1 h2
    have hk : k = 0 := by simp at h1; omega
    subst hk
    simp only [List.getElem_toArray, List.getElem_cons_zero]
    apply Array.ext (by simp; rw [← hg, hsz])
    intro i h3 h4
    have hi : i < 64 := by simpa using h3
    simp only [Array.getElem_ofFn]
    rw [toArray_getD ⟨bg, bm⟩ hbg hbm (256 + i) (by omega), if_neg (by omega)]
    simp only [show 256 + i - 256 = i by omega, hg]
    simp [Array.getD_eq_getD_getElem?, h4]

end TF.LatticeProofs
