import TF.Gen.MmrProofLoops
import TF.Model.MmrMember
import TF.Model.MmrSucc
import TF.Proofs.GenBridgeMmr
import TF.Proofs.GenBridgeMmrPeaks
/-!
# Bridge: the MMR proof machinery *as regenerated from source* = the hand-written models (C05, C11, C12)

`TF/Gen/MmrProofLoops.lean` is written by `tools/rs2lean_mmr.py` from the text of `mmr_membership_proof.rs`,
`mmr_accumulator.rs` and `mmr_successor_proof.rs` on every run: digests opaque (`D`), `Tip5::hash_pair` the parameter `H`,
`Digest::default()` the parameter `dflt`, `d0` the value read after a panic (index out of range: the `_ok` twin is false
there); `MmrMembershipProof` / `MmrSuccessorProof` are their single `Vec<Digest>` field, `MmrAccumulator` is the pair
`(leaf_count, peaks)`.  The index functions they call are the ones regenerated into `TF/Gen/MmrIndex.lean` /
`TF/Gen/MmrLoops.lean`, the peak calculations the ones in `TF/Gen/MmrPeaksLoops.lean`.

With `outcome ok v = if ok then v else none` (a panic of the Rust code is `none`, as in the hand models) the theorems say,
for **every** `H`, `d0` and input, `outcome (Loops.f_ok ..) (Loops.f ..) = Model.f ..`: every theorem of C05/C11/C12 about
the hand model is a theorem about the current source text, and a one-token change of a translated function changes the
left-hand sides — the proofs are re-checked or break.
-/
namespace TF.GenBridge.MmrProof
open TF TF.Gen TF.Model.Mmr TF.Model.MmrE TF.GenBridge.MmrPeaks

variable {D : Type} [DecidableEq D] (H : D → D → D) (d0 : D)

theorem two64 : (18446744073709551616 : Nat) = 2 ^ 64 := by decide
theorem two32 : (4294967296 : Nat) = 2 ^ 32 := by decide

/-! ### `MmrMembershipProof::verify` -/

omit [DecidableEq D] in
theorem foldMt_succ (f mt : Nat) (acc : D) (path : List D) :
    foldMt H (f + 1) mt acc path = if mt = 1 then some acc else
      match path with
      | [] => none
      | s :: ss => foldMt H f (mt / 2) (if mt % 2 = 0 then H acc s else H s acc) ss := rfl

omit [DecidableEq D] in
/-- the regenerated `while mt_index != 1` loop (indexing `authentication_path[i]`, `i += 1`) = the hand model's recursion
    over the rest of the path, with the same fuel: running out of the path is a panic on both sides -/
theorem verify_loop_eq (ap : List D) (hap : ap.length < 2 ^ 64) : ∀ (f mt : Nat) (acc : D) (i : Nat),
    (outcome (Loops.mmrmp_verify_loop_ok H d0 ap f mt i acc) (Loops.mmrmp_verify_loop H d0 ap f mt i acc)).map
        (fun t => t.2.2) = foldMt H f mt acc (ap.drop i) := by
  intro f
  induction f with
  | zero => intro mt acc i; rfl
  | succ f ih =>
    intro mt acc i
    rw [Loops.mmrmp_verify_loop, Loops.mmrmp_verify_loop_ok, foldMt_succ]
    by_cases hm : mt = 1
    · subst hm
      rw [if_neg (by simp), if_neg (by simp), if_pos rfl]
      rfl
    · have hne : (mt != 1) = true := by simpa using hm
      rw [if_pos hne, if_pos hne, if_neg hm]
      by_cases hi : i < ap.length
      · have hd : decide (i < ap.length) = true := by simpa using hi
        have hi1 : decide (i + 1 < 18446744073709551616) = true := by
          simp only [decide_eq_true_eq]; omega
        have hmod : (i + 1) % 18446744073709551616 = i + 1 := Nat.mod_eq_of_lt (by omega)
        have h2ne : ((2 : Nat) != 0) = true := rfl
        have hacc : (if (mt % 2 == 0) = true then H acc (ap.getD i d0) else H (ap.getD i d0) acc)
            = (if mt % 2 = 0 then H acc (ap.getD i d0) else H (ap.getD i d0) acc) := by
          by_cases hev : mt % 2 = 0 <;> simp [hev]
        simp only [hd, hi1, hmod, h2ne, Bool.true_and]
        rw [hacc, drop_cons_getD d0 ap i hi]
        exact ih (mt / 2) _ (i + 1)
      · have hd : decide (i < ap.length) = false := by simpa using hi
        simp only [hd, Bool.false_and, outcome_false, Option.map_none]
        rw [List.drop_of_length_le (by omega)]

/-- the last two steps of `memberVerify` (`peaks[peak_index]`, comparison) in `Option.bind` form -/
def memberFinish (peaks : List D) (pk : Nat) (r : Option D) : Option Bool :=
  r.bind fun acc => (peaks[pk]?).bind fun p => some (p == acc)

/-- `memberVerify` with its two final `match`es written as `memberFinish` (so that the proofs below never compare two
    different auxiliary matchers) -/
theorem memberVerify_unfold (path : List D) (i : Nat) (leaf : D) (peaks : List D) (n : Nat) :
    memberVerify H path i leaf peaks n =
      if i ≥ n then some false else
      if peaks.length ≥ 2 ^ 32 then none else
      if TF.popCount n ≠ peaks.length then some false else
      if Nat.log2 (leaf_index_to_mt_index_and_peak_index i n).1 ≠ path.length then some false else
      memberFinish peaks (leaf_index_to_mt_index_and_peak_index i n).2
        (foldMt H descentFuel (leaf_index_to_mt_index_and_peak_index i n).1 leaf path) := by
  unfold memberVerify memberFinish
  dsimp only
  generalize leaf_index_to_mt_index_and_peak_index i n = mp
  generalize foldMt H descentFuel mp.1 leaf path = r
  generalize peaks[mp.2]? = q
  cases r with
  | none => rfl
  | some a => cases q <;> rfl

omit H in
theorem member_finish_eq (lok : Bool) (l : Option (Nat × Nat × D)) (peaks : List D) (pk : Nat) :
    outcome (lok && l.elim true fun _ => decide (pk < peaks.length))
        (l.bind fun t => some (peaks.getD pk d0 == t.2.2))
      = memberFinish peaks pk (Option.map (fun t => t.2.2) (outcome lok l)) := by
  unfold memberFinish
  cases lok with
  | false => rfl
  | true =>
    cases l with
    | none => rfl
    | some t =>
      by_cases hp : pk < peaks.length
      · have hd : decide (pk < peaks.length) = true := decide_eq_true hp
        rw [List.getD_eq_getElem?_getD, List.getElem?_eq_getElem hp]
        show outcome (true && decide (pk < peaks.length)) _ = _
        rw [hd]
        rfl
      · have hd : decide (pk < peaks.length) = false := decide_eq_false hp
        rw [List.getElem?_eq_none (Nat.le_of_not_lt hp)]
        show outcome (true && decide (pk < peaks.length)) _ = _
        rw [hd]
        rfl

/-- everything after the index computation, for an arbitrary Merkle-tree index `mt ≥ 1`, peak index, popcount and fuel -/
theorem member_core (fuel pc mt pk : Nat) (path : List D) (leaf : D) (peaks : List D) (hmt1 : 1 ≤ mt)
    (hap : path.length < 2 ^ 64) :
    outcome (decide (peaks.length < 4294967296) &&
        if (pc != peaks.length % 4294967296) = true then true
        else mt != 0 &&
          if (Nat.log2 mt != path.length) = true then true
          else Loops.mmrmp_verify_loop_ok H d0 path fuel mt 0 leaf &&
            (Loops.mmrmp_verify_loop H d0 path fuel mt 0 leaf).elim true fun _ => decide (pk < peaks.length))
      (if (pc != peaks.length % 4294967296) = true then some false
        else if (Nat.log2 mt != path.length) = true then some false
        else (Loops.mmrmp_verify_loop H d0 path fuel mt 0 leaf).bind fun a => some (peaks.getD pk d0 == a.2.2))
      = if peaks.length ≥ 2 ^ 32 then none else
        if pc ≠ peaks.length then some false else
        if Nat.log2 mt ≠ path.length then some false else
        memberFinish peaks pk (foldMt H fuel mt leaf path) := by
  by_cases hlen : peaks.length ≥ 2 ^ 32
  · have : decide (peaks.length < 4294967296) = false := by
      simp only [decide_eq_false_iff_not]; omega
    rw [if_pos hlen, this]; rfl
  · have hl : decide (peaks.length < 4294967296) = true := by
      simp only [decide_eq_true_eq]; omega
    have hmod : peaks.length % 4294967296 = peaks.length := Nat.mod_eq_of_lt (by omega)
    rw [if_neg hlen, hl, hmod, Bool.true_and]
    by_cases hpc : pc ≠ peaks.length
    · have : (pc != peaks.length) = true := by rw [bne_iff_ne]; exact hpc
      rw [if_pos this, if_pos this, if_pos hpc]; rfl
    · have : ¬ ((pc != peaks.length) = true) := by rw [bne_iff_ne]; exact hpc
      rw [if_neg this, if_neg this, if_neg hpc]
      have hmt0 : (mt != 0) = true := by rw [bne_iff_ne]; omega
      rw [hmt0, Bool.true_and]
      by_cases hlg : Nat.log2 mt ≠ path.length
      · have : (Nat.log2 mt != path.length) = true := by rw [bne_iff_ne]; exact hlg
        rw [if_pos this, if_pos this, if_pos hlg]; rfl
      · have : ¬ ((Nat.log2 mt != path.length) = true) := by rw [bne_iff_ne]; exact hlg
        rw [if_neg this, if_neg this, if_neg hlg]
        have hloop := verify_loop_eq H d0 path hap fuel mt leaf 0
        rw [List.drop_zero] at hloop
        rw [← hloop]
        exact member_finish_eq d0 _ _ peaks pk

/-- **`MmrMembershipProof::verify`** regenerated from source = hand model (a panic is `none`): every `H`, every path, leaf
    index, leaf, peak list and `u64` leaf count -/
theorem gen_member_verify_eq (path : List D) (i : Nat) (leaf : D) (peaks : List D) (n : Nat)
    (hn : n < 2 ^ 64) (hap : path.length < 2 ^ 64) :
    outcome (Loops.mmrmp_verify_ok H d0 path i leaf peaks n) (Loops.mmrmp_verify H d0 path i leaf peaks n)
      = memberVerify H path i leaf peaks n := by
  rw [memberVerify_unfold]
  unfold Loops.mmrmp_verify Loops.mmrmp_verify_ok
  by_cases hin : i ≥ n
  · have : decide (i ≥ n) = true := by simpa using hin
    rw [if_pos this, if_pos this, if_pos hin]; rfl
  · have hdec : ¬ (decide (i ≥ n) = true) := by simpa using hin
    have hspec := TF.Mmr.mt_spec i n (by omega) hn
    rw [if_neg hdec, if_neg hdec, if_neg hin]
    simp only [hspec.2, Bool.true_and]
    have hmt1 : 1 ≤ (leaf_index_to_mt_index_and_peak_index i n).1 := by
      rw [hspec.1]
      have := Nat.two_pow_pos (i ^^^ n).log2
      show 1 ≤ 2 ^ (i ^^^ n).log2 + i % 2 ^ (i ^^^ n).log2
      omega
    exact member_core H d0 65 (TF.popCount n) _ _ path leaf peaks hmt1 hap

/-! ### `get_node_indices`, `get_direct_path_indices`, `get_peak_index_and_height` (values; release arithmetic on both sides) -/

omit [DecidableEq D] in
theorem node_indices_for_eq : ∀ (k it ni : Nat) (acc : List Nat),
    (Loops.mmrmp_get_node_indices_for H d0 k it ni acc).map (fun t => t.2) = get_node_indices.go k ni acc := by
  intro k
  induction k with
  | zero => intro it ni acc; rfl
  | succ k ih =>
    intro it ni acc
    rw [Loops.mmrmp_get_node_indices_for, get_node_indices.go, siblingAndParent, TF.GenBridge.gen_rll_own_eq]
    cases right_lineage_length_and_own_height ni with
    | none => rfl
    | some p =>
      obtain ⟨a, b⟩ := p
      simp only [Option.bind_some]
      by_cases ha : a = 0
      · subst ha
        have h0 : ((0 : Nat) != 0) = false := rfl
        simp only [h0, Bool.false_eq_true, if_false, ne_eq, not_true_eq_false]
        rw [ih]
        simp only [add64, shl1, inc32, W64, W32, TF.GenBridge.shl_one]
      · have h1 : (a != 0) = true := by rw [bne_iff_ne]; exact ha
        simp only [h1, if_true, ne_eq, ha, not_false_eq_true]
        rw [ih]
        simp only [add64, W64]

omit [DecidableEq D] in
/-- **`get_node_indices`** regenerated from source = hand model, every input -/
theorem gen_get_node_indices_eq (path : List D) (li : Nat) :
    Loops.mmrmp_get_node_indices H d0 path li = get_node_indices li path.length := by
  unfold Loops.mmrmp_get_node_indices get_node_indices
  dsimp only
  rw [Nat.sub_zero, ← node_indices_for_eq H d0 path.length 0 (leaf_index_to_node_index li) []]
  cases Loops.mmrmp_get_node_indices_for H d0 path.length 0 (leaf_index_to_node_index li) [] <;> rfl

omit [DecidableEq D] in
theorem direct_path_for_eq : ∀ (k it ni : Nat) (acc : List Nat),
    (Loops.mmrmp_get_direct_path_indices_for H d0 k it ni acc).map (fun t => t.2)
      = get_direct_path_indices.go k ni acc := by
  intro k
  induction k with
  | zero => intro it ni acc; rfl
  | succ k ih =>
    intro it ni acc
    rw [Loops.mmrmp_get_direct_path_indices_for, get_direct_path_indices.go, TF.GenBridge.gen_parent_eq]
    cases parent ni with
    | none => rfl
    | some p =>
      simp only [Option.bind_some]
      exact ih _ _ _

omit [DecidableEq D] in
/-- **`get_direct_path_indices`** regenerated from source = hand model, every input -/
theorem gen_get_direct_path_indices_eq (path : List D) (li : Nat) :
    Loops.mmrmp_get_direct_path_indices H d0 path li = get_direct_path_indices li path.length := by
  unfold Loops.mmrmp_get_direct_path_indices get_direct_path_indices
  dsimp only
  rw [Nat.sub_zero, ← direct_path_for_eq H d0 path.length 0 (leaf_index_to_node_index li) [leaf_index_to_node_index li]]
  cases Loops.mmrmp_get_direct_path_indices_for H d0 path.length 0 (leaf_index_to_node_index li)
    [leaf_index_to_node_index li] <;> rfl

omit [DecidableEq D] in
/-- **`get_peak_index_and_height`** regenerated from source = hand model, every input; the one check of its own,
    `last().unwrap()` on an empty vector, is a panic = `none` (release arithmetic in the index functions on both sides) -/
theorem gen_get_peak_index_and_height_eq (path : List D) (li : Nat) :
    outcome ((Loops.mmrmp_get_direct_path_indices H d0 path li).elim true fun l => !l.isEmpty)
        (Loops.mmrmp_get_peak_index_and_height H d0 path li) = getPeakIndexAndHeight path li := by
  unfold Loops.mmrmp_get_peak_index_and_height getPeakIndexAndHeight
  rw [gen_get_direct_path_indices_eq]
  cases get_direct_path_indices li path.length with
  | none => rfl
  | some l =>
    cases l with
    | nil => rfl
    | cons a t =>
      simp only [Option.elim_some, List.isEmpty_cons, Bool.not_false, outcome_true, Option.bind_some, W32]
      rw [List.getLastD_eq_getLast?]
      have hne : (a :: t).getLast? ≠ none := by simp
      cases hq : (a :: t).getLast? with
      | none => exact absurd hq hne
      | some x => rfl

end TF.GenBridge.MmrProof
