import TF.Gen.CodecLeaves
import TF.Proofs.BField
import TF.Proofs.Codec
import TF.Proofs.GenBridgeCodecArith
/-!
Bridge between the leaf codecs **regenerated from source** (`TF/Gen/CodecLeaves.lean`, written by `tools/rs2lean_conv.py`
from the two `macro_rules!` bodies and the hand-written impls of `bfield_codec.rs`, and the `From` impls of
`b_field_element.rs` they go through) and the leaf cases of the hand model `TF/Model/Codec.lean`.  Core Lean only.

The regenerated code works on *raw Montgomery words* (a `BFieldElement` is its `u64`), the hand model on canonical values:
`vals r = r.map bfe_value`.  A `Result<_, BFieldCodecError>` is `Except String _` whose error is the variant's name:
`exceptNat` / `exceptBool` / `exceptRaw` print a model outcome in that form (`errName` gives the variant of each model error
kind), so the bridges also say that the *error kinds* of the model's leaf decoders are the ones of the source.
-/
set_option linter.unusedVariables false
namespace TF.GenBridge.Codec
open TF.Gen TF.Gen.Loops TF.Codec TF.BF TF.GenBridge.CodecArith

/-- canonical values of a list of raw words -/
def vals (l : List Nat) : List Nat := l.map bfe_value

/-- raw words that are canonical (`< P`), as every `BFieldElement` built through `new` is -/
def Raw (l : List Nat) : Prop := ∀ x ∈ l, x < TF.Gen.P
instance (l : List Nat) : Decidable (Raw l) := inferInstanceAs (Decidable (∀ x ∈ l, x < TF.Gen.P))

/-- the variant of `BFieldCodecError` behind each error kind of the model's leaf decoders -/
def errName : Err → String
  | .empty => "EmptySequence"
  | .tooShort => "SequenceTooShort"
  | .tooLong => "SequenceTooLong"
  | .range => "ElementOutOfRange"
  | .missingLen => "MissingLengthIndicator"
  | .invalidLen => "InvalidLengthIndicator"
  | .trailingZeros => "TrailingZerosInPolynomialEncoding"
  | .badDiscriminant => "InvalidVariantIndex"

/-- a model outcome of an integer leaf as the `Result` of the source (`panic` has no counterpart: the `_ok` twin) -/
def exceptNat : Outcome Val → Except String Nat
  | .ok v => .ok (numOf v)
  | .err k => .error (errName k)
  | .panic => .error "panic"

/-- … of `bool`: the model's value is `0` / `1` -/
def exceptBool : Outcome Val → Except String Bool
  | .ok v => .ok (numOf v != 0)
  | .err k => .error (errName k)
  | .panic => .error "panic"

/-- … of `BFieldElement`: the source returns the raw word, the model its value -/
def exceptVal : Except String Nat → Except String Nat
  | .ok r => .ok (bfe_value r)
  | .error e => .error e

/-- decidable equality of `Result`s (for the non-vacuity examples; scoped) -/
def decEqExcept {α : Type} [DecidableEq α] : DecidableEq (Except String α)
  | .ok a, .ok b => if h : a = b then isTrue (by rw [h]) else isFalse (fun e => h (Except.ok.inj e))
  | .error a, .error b => if h : a = b then isTrue (by rw [h]) else isFalse (fun e => h (Except.error.inj e))
  | .ok _, .error _ => isFalse (fun e => by cases e)
  | .error _, .ok _ => isFalse (fun e => by cases e)
scoped instance {α : Type} [DecidableEq α] : DecidableEq (Except String α) := decEqExcept

theorem pow8 : (2 : Nat) ^ 8 = 256 := by decide
theorem pow16 : (2 : Nat) ^ 16 = 65536 := by decide
theorem pow32 : (2 : Nat) ^ 32 = 4294967296 := by decide
theorem pow32m : (2 : Nat) ^ 32 - 1 = 4294967295 := by decide

/-! ### small unsigned integers: `u8`, `u16`, `u32` (one macro body) -/

/-- core of the macro body over a plain value (no field arithmetic in sight): `uN::try_from(v).map_err(..)?` -/
theorem small_core (b x : Nat) :
    (TF.RustStd.tryE (TF.RustStd.map_err (TF.RustStd.int_try_from b x) "ElementOutOfRange")
      fun t_try1 => (Except.ok t_try1 : Except String Nat)) = exceptNat (decodeSmall b [x]) := by
  simp only [TF.RustStd.int_try_from, decodeSmall]
  by_cases h : x < b
  · rw [if_pos h, if_pos h]; rfl
  · rw [if_neg h, if_neg h]; rfl

/-- the decoder the macro `impl_bfield_codec_for_small_primitive_uint` expands to, for the bound `b = 2^BITS` -/
theorem small_decode (b : Nat) (r : List Nat) :
    (if (r.length == 0) then (Except.error "EmptySequence" : Except String Nat)
     else (if (r.length == 1) then
        (let arr_1 := r
         let first_v := arr_1.getD 0 0
         TF.RustStd.tryE (TF.RustStd.map_err (TF.RustStd.int_try_from b (conv_bfe_value first_v)) "ElementOutOfRange")
           fun t_try1 => let element_v := t_try1; (Except.ok element_v : Except String Nat))
       else (Except.error "SequenceTooLong" : Except String Nat)))
      = exceptNat (decodeSmall b (vals r)) := by
  match r with
  | [] => rfl
  | _ :: _ :: _ => rfl
  | [a] =>
    simp only [List.length_cons, List.length_nil, Nat.zero_add, Nat.reduceBEq, Bool.false_eq_true, if_false, if_true,
      BEq.rfl, List.getD_cons_zero, vals, List.map_cons, List.map_nil, conv_bfe_value]
    exact small_core b (bfe_value a)

theorem small_decode_ok (r : List Nat) :
    (if (r.length == 0) then true else (if (r.length == 1) then
      (let arr_1 := r
       let first_v := arr_1.getD 0 0
       (conv_bfe_value_ok first_v)) else true)) = true := by
  match r with
  | [] => rfl
  | _ :: _ :: _ => rfl
  | [a] => exact value_ok a

theorem gen_u8_decode (r : List Nat) :
    codec_u8_decode r = exceptNat (decode .u8 (vals r)) ∧ codec_u8_decode_ok r = true := by
  refine ⟨?_, small_decode_ok r⟩
  have h : decode .u8 (vals r) = decodeSmall 256 (vals r) := by simp only [decode, pow8]
  rw [h]; exact small_decode 256 r

theorem gen_u16_decode (r : List Nat) :
    codec_u16_decode r = exceptNat (decode .u16 (vals r)) ∧ codec_u16_decode_ok r = true := by
  refine ⟨?_, small_decode_ok r⟩
  have h : decode .u16 (vals r) = decodeSmall 65536 (vals r) := by simp only [decode, pow16]
  rw [h]; exact small_decode 65536 r

theorem gen_u32_decode (r : List Nat) :
    codec_u32_decode r = exceptNat (decode .u32 (vals r)) ∧ codec_u32_decode_ok r = true := by
  refine ⟨?_, small_decode_ok r⟩
  have h : decode .u32 (vals r) = decodeSmall 4294967296 (vals r) := by simp only [decode, pow32]
  rw [h]; exact small_decode 4294967296 r

/-! ### `bool` and `BFieldElement` -/

theorem bool_core (x : Nat) :
    (if (x == 0) then (Except.ok false : Except String Bool)
     else (if (x == 1) then (Except.ok true : Except String Bool)
       else (Except.error "ElementOutOfRange" : Except String Bool))) = exceptBool (decodeSmall 2 [x]) := by
  match x with
  | 0 => rfl
  | 1 => rfl
  | n + 2 =>
    simp only [decodeSmall]
    rw [if_neg (show ¬ n + 2 < 2 by omega)]
    rfl

theorem gen_bool_decode (r : List Nat) :
    codec_bool_decode r = exceptBool (decode .bool (vals r)) ∧ codec_bool_decode_ok r = true := by
  have h : decode .bool (vals r) = decodeSmall 2 (vals r) := by simp only [decode]
  rw [h]
  match r with
  | [] => exact ⟨rfl, rfl⟩
  | _ :: _ :: _ => exact ⟨rfl, rfl⟩
  | [a] =>
    constructor
    · unfold codec_bool_decode
      simp only [List.length_cons, List.length_nil, Nat.zero_add, Nat.reduceBEq, Bool.false_eq_true, if_false,
        gt_iff_lt, Nat.lt_irrefl, decide_false, List.getD_cons_zero, vals, List.map_cons, List.map_nil, conv_bfe_value]
      exact bool_core (bfe_value a)
    · unfold codec_bool_decode_ok
      simp only [List.length_cons, List.length_nil, Nat.zero_add, Nat.reduceBEq, Bool.false_eq_true, if_false,
        gt_iff_lt, Nat.lt_irrefl, decide_false, List.getD_cons_zero, conv_bfe_value_ok, value_ok, Nat.lt_add_one,
        decide_true, Bool.and_self]

theorem bfe_dec_raw (a : Nat) : exceptVal (codec_bfe_decode [a]) = Except.ok (bfe_value a) := by
  unfold codec_bfe_decode
  simp only [List.length_cons, List.length_nil, Nat.zero_add, Nat.reduceBEq, Bool.false_eq_true, if_false,
    gt_iff_lt, Nat.lt_irrefl, decide_false, List.getD_cons_zero, exceptVal]

theorem bfe_dec_model (x : Nat) : exceptNat (decode .bfe [x]) = Except.ok x := by
  simp only [decode, exceptNat, numOf]

theorem gen_bfe_decode (r : List Nat) :
    exceptVal (codec_bfe_decode r) = exceptNat (decode .bfe (vals r)) ∧ codec_bfe_decode_ok r = true := by
  match r with
  | [] => exact ⟨rfl, rfl⟩
  | _ :: _ :: _ => exact ⟨rfl, rfl⟩
  | [a] =>
    refine ⟨?_, rfl⟩
    rw [bfe_dec_raw]
    exact (bfe_dec_model (bfe_value a)).symm

/-! ### `u64` and `u128` (one macro body) -/

/-- the model's limb decoder on a sequence of the right length: range check, then the little-endian value -/
theorem decodeLimbs_exact (k : Nat) (s : List Nat) (hk : 0 < k) (hl : s.length = k) :
    decodeLimbs k s = if s.any (fun x => decide (4294967295 < x)) then .err .range else .ok (.num (limbsValue s)) := by
  unfold decodeLimbs
  have h0 : s.isEmpty = false := by
    cases s with
    | nil => simp at hl; omega
    | cons _ _ => rfl
  rw [h0, if_neg (by simp), if_neg (by omega), if_neg (by omega), pow32m]

theorem u64_core (x y : Nat) :
    (if (decide (4294967295 < x) || (decide (4294967295 < y) || false)) = true then
      (Except.error "ElementOutOfRange" : Except String Nat)
    else
      Except.ok
        (TF.RustStd.sum_w 18446744073709551616
          [x * 2 ^ (0 * 32 % 18446744073709551616 % 64) % 18446744073709551616,
            y * 2 ^ (1 * 32 % 18446744073709551616 % 64) % 18446744073709551616])) =
      exceptNat (decodeLimbs 2 [x, y]) ∧
    (if (decide (4294967295 < x) || (decide (4294967295 < y) || false)) = true then true
    else
      decide (0 * 32 < 18446744073709551616) && decide (0 * 32 % 18446744073709551616 < 64) &&
          (decide (1 * 32 < 18446744073709551616) && decide (1 * 32 % 18446744073709551616 < 64)) &&
        TF.RustStd.sum_ok 18446744073709551616
          [x * 2 ^ (0 * 32 % 18446744073709551616 % 64) % 18446744073709551616,
            y * 2 ^ (1 * 32 % 18446744073709551616 % 64) % 18446744073709551616]) = true := by
  rw [decodeLimbs_exact 2 [x, y] (by decide) rfl]
  have hA : (decide (4294967295 < x) || (decide (4294967295 < y) || false))
      = [x, y].any (fun v => decide (4294967295 < v)) := rfl
  have hs : (decide (0 * 32 < 18446744073709551616) && decide (0 * 32 % 18446744073709551616 < 64) &&
          (decide (1 * 32 < 18446744073709551616) && decide (1 * 32 % 18446744073709551616 < 64))) = true := by decide
  rw [hA, hs]
  cases hc : [x, y].any (fun v => decide (4294967295 < v)) with
  | true => exact ⟨rfl, rfl⟩
  | false =>
    simp only [List.any_cons, List.any_nil, Bool.or_false, Bool.or_eq_false_iff, decide_eq_false_iff_not, Nat.not_lt] at hc
    simp only [Bool.false_eq_true, if_false, Bool.true_and]
    rw [u64_sum x y hc.1 hc.2]
    exact ⟨rfl, u64_sum_ok x y hc.1 hc.2⟩

theorem gen_u64_decode (r : List Nat) :
    codec_u64_decode r = exceptNat (decode .u64 (vals r)) ∧ codec_u64_decode_ok r = true := by
  match r with
  | [] => exact ⟨rfl, rfl⟩
  | [_] => exact ⟨rfl, rfl⟩
  | _ :: _ :: _ :: _ => exact ⟨rfl, rfl⟩
  | [a, b] =>
    constructor
    · unfold codec_u64_decode
      simp only [List.length_cons, List.length_nil, Nat.zero_add, Nat.reduceAdd, Nat.reduceBEq, Nat.lt_irrefl,
        decide_false, gt_iff_lt, Bool.false_eq_true, if_false, List.any_cons, List.any_nil, TF.RustStd.enumerate,
        TF.RustStd.enumerateFrom, List.map_cons, List.map_nil, conv_bfe_value, codec_u64_from_bfe, vals, decode]
      exact (u64_core (bfe_value a) (bfe_value b)).1
    · unfold codec_u64_decode_ok
      simp only [List.length_cons, List.length_nil, Nat.zero_add, Nat.reduceAdd, Nat.reduceBEq, Nat.lt_irrefl,
        decide_false, gt_iff_lt, Bool.false_eq_true, if_false, List.any_cons, List.any_nil, List.all_cons, List.all_nil,
        TF.RustStd.enumerate, TF.RustStd.enumerateFrom, List.map_cons, List.map_nil, conv_bfe_value, codec_u64_from_bfe,
        conv_bfe_value_ok, codec_u64_from_bfe_ok, value_ok, Bool.true_and, Bool.and_true]
      exact (u64_core (bfe_value a) (bfe_value b)).2

theorem u128_core (x y z w : Nat) :
    (if (decide (4294967295 < x) || (decide (4294967295 < y) || (decide (4294967295 < z) ||
          (decide (4294967295 < w) || false)))) = true then
      (Except.error "ElementOutOfRange" : Except String Nat)
    else
      Except.ok
        (TF.RustStd.sum_w 340282366920938463463374607431768211456
          [x * 2 ^ (0 * 32 % 18446744073709551616 % 128) % 340282366920938463463374607431768211456,
            y * 2 ^ (1 * 32 % 18446744073709551616 % 128) % 340282366920938463463374607431768211456,
            z * 2 ^ (2 * 32 % 18446744073709551616 % 128) % 340282366920938463463374607431768211456,
            w * 2 ^ (3 * 32 % 18446744073709551616 % 128) % 340282366920938463463374607431768211456])) =
      exceptNat (decodeLimbs 4 [x, y, z, w]) ∧
    (if (decide (4294967295 < x) || (decide (4294967295 < y) || (decide (4294967295 < z) ||
          (decide (4294967295 < w) || false)))) = true then true
    else
      decide (0 * 32 < 18446744073709551616) && decide (0 * 32 % 18446744073709551616 < 128) &&
          (decide (1 * 32 < 18446744073709551616) && decide (1 * 32 % 18446744073709551616 < 128) &&
            (decide (2 * 32 < 18446744073709551616) && decide (2 * 32 % 18446744073709551616 < 128) &&
              (decide (3 * 32 < 18446744073709551616) && decide (3 * 32 % 18446744073709551616 < 128)))) &&
        TF.RustStd.sum_ok 340282366920938463463374607431768211456
          [x * 2 ^ (0 * 32 % 18446744073709551616 % 128) % 340282366920938463463374607431768211456,
            y * 2 ^ (1 * 32 % 18446744073709551616 % 128) % 340282366920938463463374607431768211456,
            z * 2 ^ (2 * 32 % 18446744073709551616 % 128) % 340282366920938463463374607431768211456,
            w * 2 ^ (3 * 32 % 18446744073709551616 % 128) % 340282366920938463463374607431768211456]) = true := by
  rw [decodeLimbs_exact 4 [x, y, z, w] (by decide) rfl]
  have hA : (decide (4294967295 < x) || (decide (4294967295 < y) || (decide (4294967295 < z) ||
          (decide (4294967295 < w) || false)))) = [x, y, z, w].any (fun v => decide (4294967295 < v)) := rfl
  have hs : (decide (0 * 32 < 18446744073709551616) && decide (0 * 32 % 18446744073709551616 < 128) &&
          (decide (1 * 32 < 18446744073709551616) && decide (1 * 32 % 18446744073709551616 < 128) &&
            (decide (2 * 32 < 18446744073709551616) && decide (2 * 32 % 18446744073709551616 < 128) &&
              (decide (3 * 32 < 18446744073709551616) && decide (3 * 32 % 18446744073709551616 < 128))))) = true := by
    decide
  rw [hA, hs]
  cases hc : [x, y, z, w].any (fun v => decide (4294967295 < v)) with
  | true => exact ⟨rfl, rfl⟩
  | false =>
    simp only [List.any_cons, List.any_nil, Bool.or_false, Bool.or_eq_false_iff, decide_eq_false_iff_not, Nat.not_lt] at hc
    simp only [Bool.false_eq_true, if_false, Bool.true_and]
    obtain ⟨e, o⟩ := u128_sum x y z w hc.1 hc.2.1 hc.2.2.1 hc.2.2.2
    rw [e]
    exact ⟨rfl, o⟩

theorem gen_u128_decode (r : List Nat) :
    codec_u128_decode r = exceptNat (decode .u128 (vals r)) ∧ codec_u128_decode_ok r = true := by
  match r with
  | [] => exact ⟨rfl, rfl⟩
  | [_] => exact ⟨rfl, rfl⟩
  | [_, _] => exact ⟨rfl, rfl⟩
  | [_, _, _] => exact ⟨rfl, rfl⟩
  | _ :: _ :: _ :: _ :: _ :: _ => exact ⟨rfl, rfl⟩
  | [a, b, c, d] =>
    constructor
    · unfold codec_u128_decode
      simp only [List.length_cons, List.length_nil, Nat.zero_add, Nat.reduceAdd, Nat.reduceBEq, Nat.lt_irrefl,
        decide_false, gt_iff_lt, Bool.false_eq_true, if_false, List.any_cons, List.any_nil, TF.RustStd.enumerate,
        TF.RustStd.enumerateFrom, List.map_cons, List.map_nil, conv_bfe_value, codec_u128_from_bfe, vals, decode]
      exact (u128_core (bfe_value a) (bfe_value b) (bfe_value c) (bfe_value d)).1
    · unfold codec_u128_decode_ok
      simp only [List.length_cons, List.length_nil, Nat.zero_add, Nat.reduceAdd, Nat.reduceBEq, Nat.lt_irrefl,
        decide_false, gt_iff_lt, Bool.false_eq_true, if_false, List.any_cons, List.any_nil, List.all_cons, List.all_nil,
        TF.RustStd.enumerate, TF.RustStd.enumerateFrom, List.map_cons, List.map_nil, conv_bfe_value, codec_u128_from_bfe,
        conv_bfe_value_ok, codec_u128_from_bfe_ok, value_ok, Bool.true_and, Bool.and_true]
      exact (u128_core (bfe_value a) (bfe_value b) (bfe_value c) (bfe_value d)).2

/-- an accepted sequence: the model's limb decoder returned exactly that number -/
theorem exceptNat_limbs_inv (k : Nat) (s : List Nat) (n : Nat) (h : exceptNat (decodeLimbs k s) = .ok n) :
    decodeLimbs k s = .ok (.num n) := by
  unfold decodeLimbs at h ⊢
  by_cases h1 : s.isEmpty = true
  · rw [if_pos h1] at h; simp only [exceptNat] at h; cases h
  · rw [if_neg h1] at h ⊢
    by_cases h2 : s.length < k
    · rw [if_pos h2] at h; simp only [exceptNat] at h; cases h
    · rw [if_neg h2] at h ⊢
      by_cases h3 : s.length > k
      · rw [if_pos h3] at h; simp only [exceptNat] at h; cases h
      · rw [if_neg h3] at h ⊢
        by_cases h4 : (s.any fun x => decide (x > 2 ^ 32 - 1)) = true
        · rw [if_pos h4] at h; simp only [exceptNat] at h; cases h
        · rw [if_neg h4] at h ⊢
          simp only [exceptNat, numOf, Except.ok.injEq] at h
          rw [h]

theorem exceptNat_u64_inv (s : List Nat) (n : Nat) (h : exceptNat (decode .u64 s) = .ok n) :
    decode .u64 s = .ok (.num n) := by
  have e : decode .u64 s = decodeLimbs 2 s := by simp only [decode]
  rw [e] at h ⊢; exact exceptNat_limbs_inv 2 s n h

theorem exceptNat_u128_inv (s : List Nat) (n : Nat) (h : exceptNat (decode .u128 s) = .ok n) :
    decode .u128 s = .ok (.num n) := by
  have e : decode .u128 s = decodeLimbs 4 s := by simp only [decode]
  rw [e] at h ⊢; exact exceptNat_limbs_inv 4 s n h

/-! ### encoders -/

theorem Pn_lt_W' : Pn < 18446744073709551616 := by decide
theorem H_lt_Pn (x : Nat) (h : x < 4294967296) : x < Pn := Nat.lt_trans h (by decide)

/-- `BFieldElement::from(v)` for `u8`/`u16`/`u32`/`u64` is `new(v as u64)`: the element with value `v` (for `v < P`) -/
theorem from_small (v : Nat) (h : v < Pn) :
    bfe_value (bfe_new v) = v ∧ bfe_new v < TF.Gen.P ∧ bfe_new_ok v = true :=
  ⟨value_new v h, (new_spec v (Nat.lt_trans h Pn_lt_W)).1, new_ok v (Nat.lt_trans h Pn_lt_W)⟩

/-- `BFieldElement::from(v: u128)` goes through `mod_reduce`; on a 32-bit limb it is the element with that value -/
theorem from_u128_limb (x : Nat) (h : x < 4294967296) :
    bfe_value (codec_bfe_from_u128 x) = x ∧ codec_bfe_from_u128 x < TF.Gen.P ∧ codec_bfe_from_u128_ok x = true := by
  have hW : x < W * W := Nat.lt_trans h (by decide)
  obtain ⟨m1, m2⟩ := mod_reduce_spec x hW
  obtain ⟨c, v⟩ := new_spec (mod_reduce x) m1
  unfold codec_bfe_from_u128 codec_bfe_from_u128_ok
  refine ⟨?_, c, ?_⟩
  · rw [v, m2]; exact Nat.mod_eq_of_lt (H_lt_Pn x h)
  · rw [mod_reduce_ok_true, new_ok _ m1]; rfl

theorem mod32_lt (v : Nat) : v % 2 ^ 32 < 4294967296 := Nat.mod_lt _ (by decide)

theorem gen_small_encode (n : Nat) (h : n < Pn) :
    vals (codec_u8_encode n) = encode .u8 (.num n) ∧ vals (codec_u16_encode n) = encode .u16 (.num n) ∧
    vals (codec_u32_encode n) = encode .u32 (.num n) ∧
    Raw (codec_u8_encode n) ∧ Raw (codec_u16_encode n) ∧ Raw (codec_u32_encode n) ∧
    codec_u8_encode_ok n = true ∧ codec_u16_encode_ok n = true ∧ codec_u32_encode_ok n = true := by
  obtain ⟨v, c, o⟩ := from_small n h
  have e : vals [bfe_new n] = [n] := congrArg (fun t => [t]) v
  have r : Raw [bfe_new n] := fun x hx => by rw [List.mem_singleton.mp hx]; exact c
  have m8 : encode .u8 (.num n) = [n] := by simp only [encode, numOf]
  have m16 : encode .u16 (.num n) = [n] := by simp only [encode, numOf]
  have m32 : encode .u32 (.num n) = [n] := by simp only [encode, numOf]
  rw [m8, m16, m32]
  exact ⟨e, e, e, r, r, r, o, o, o⟩

theorem gen_bool_encode (b : Bool) :
    vals (codec_bool_encode b) = encode .bool (.num (if b then 1 else 0)) ∧ Raw (codec_bool_encode b) ∧
    codec_bool_encode_ok b = true := by
  have m : ∀ k, encode .bool (.num k) = [k] := fun k => by simp only [encode, numOf]
  rw [m]
  cases b with
  | false =>
    obtain ⟨v, c, o⟩ := from_small 0 (by decide)
    exact ⟨congrArg (fun t => [t]) v, fun x hx => by rw [List.mem_singleton.mp hx]; exact c, o⟩
  | true =>
    obtain ⟨v, c, o⟩ := from_small 1 (by decide)
    exact ⟨congrArg (fun t => [t]) v, fun x hx => by rw [List.mem_singleton.mp hx]; exact c, o⟩

theorem gen_bfe_encode (r : Nat) :
    vals (codec_bfe_encode r) = encode .bfe (.num (bfe_value r)) ∧ codec_bfe_encode r = [r] ∧
    codec_bfe_encode_ok r = true := by
  have m : ∀ k, encode .bfe (.num k) = [k] := fun k => by simp only [encode, numOf]
  rw [m]
  exact ⟨rfl, rfl, rfl⟩

theorem range2 : List.range 2 = [0, 1] := by decide
theorem range4 : List.range 4 = [0, 1, 2, 3] := by decide
theorem pow64 : (2 : Nat) ^ 64 = 18446744073709551616 := by decide
theorem pow96 : (2 : Nat) ^ 96 = 79228162514264337593543950336 := by decide

/-- the two limbs `codec_u64_encode` produces, before they are turned into elements -/
theorem u64_encode_limbs (n : Nat) :
    codec_u64_encode n = [bfe_new (n % 2 ^ 32), bfe_new (n / 4294967296 % 2 ^ 32)] ∧
    codec_u64_encode_ok n = (bfe_new_ok (n % 2 ^ 32) && (bfe_new_ok (n / 4294967296 % 2 ^ 32) && true)) := by
  unfold codec_u64_encode codec_u64_encode_ok
  rw [range2]
  have c0 : (decide (0 * 32 < 18446744073709551616) && decide (0 * 32 % 18446744073709551616 < 64)) = true := by decide
  have c1 : (decide (1 * 32 < 18446744073709551616) && decide (1 * 32 % 18446744073709551616 < 64)) = true := by decide
  simp only [List.map_cons, List.map_nil, List.all_cons, List.all_nil, codec_bfe_from_u64, codec_bfe_from_u64_ok, c0, c1,
    Bool.true_and]
  rw [sh0, sh1, Nat.div_one, mask32, mask32]
  exact ⟨rfl, rfl⟩

theorem gen_u64_encode (n : Nat) :
    vals (codec_u64_encode n) = encode .u64 (.num n) ∧ Raw (codec_u64_encode n) ∧ codec_u64_encode_ok n = true := by
  obtain ⟨e, o⟩ := u64_encode_limbs n
  have m : encode .u64 (.num n) = [n % 2 ^ 32, n / 2 ^ 32 % 2 ^ 32] := by simp only [encode, numOf]
  obtain ⟨v0, c0, o0⟩ := from_small (n % 2 ^ 32) (H_lt_Pn _ (mod32_lt n))
  obtain ⟨v1, c1, o1⟩ := from_small (n / 4294967296 % 2 ^ 32) (H_lt_Pn _ (mod32_lt _))
  rw [e, o, m, o0, o1]
  refine ⟨?_, ?_, rfl⟩
  · show [bfe_value (bfe_new (n % 2 ^ 32)), bfe_value (bfe_new (n / 4294967296 % 2 ^ 32))] = _
    rw [v0, v1, ← pow32]
  · intro x hx
    simp only [List.mem_cons, List.not_mem_nil, or_false] at hx
    rcases hx with h | h
    · rw [h]; exact c0
    · rw [h]; exact c1

theorem u128_encode_limbs (n : Nat) :
    codec_u128_encode n = [codec_bfe_from_u128 (n % 2 ^ 32), codec_bfe_from_u128 (n / 4294967296 % 2 ^ 32),
      codec_bfe_from_u128 (n / 18446744073709551616 % 2 ^ 32),
      codec_bfe_from_u128 (n / 79228162514264337593543950336 % 2 ^ 32)] ∧
    codec_u128_encode_ok n = (codec_bfe_from_u128_ok (n % 2 ^ 32) && (codec_bfe_from_u128_ok (n / 4294967296 % 2 ^ 32) &&
      (codec_bfe_from_u128_ok (n / 18446744073709551616 % 2 ^ 32) &&
      (codec_bfe_from_u128_ok (n / 79228162514264337593543950336 % 2 ^ 32) && true)))) := by
  unfold codec_u128_encode codec_u128_encode_ok
  rw [range4]
  have c0 : (decide (0 * 32 < 18446744073709551616) && decide (0 * 32 % 18446744073709551616 < 128)) = true := by decide
  have c1 : (decide (1 * 32 < 18446744073709551616) && decide (1 * 32 % 18446744073709551616 < 128)) = true := by decide
  have c2 : (decide (2 * 32 < 18446744073709551616) && decide (2 * 32 % 18446744073709551616 < 128)) = true := by decide
  have c3 : (decide (3 * 32 < 18446744073709551616) && decide (3 * 32 % 18446744073709551616 < 128)) = true := by decide
  simp only [List.map_cons, List.map_nil, List.all_cons, List.all_nil, c0, c1, c2, c3, Bool.true_and]
  rw [lh0, lh1, lh2, lh3, Nat.div_one, mask32, mask32, mask32, mask32]
  exact ⟨rfl, rfl⟩

theorem gen_u128_encode (n : Nat) :
    vals (codec_u128_encode n) = encode .u128 (.num n) ∧ Raw (codec_u128_encode n) ∧
    codec_u128_encode_ok n = true := by
  obtain ⟨e, o⟩ := u128_encode_limbs n
  have m : encode .u128 (.num n) = [n % 2 ^ 32, n / 2 ^ 32 % 2 ^ 32, n / 2 ^ 64 % 2 ^ 32, n / 2 ^ 96 % 2 ^ 32] := by
    simp only [encode, numOf]
  obtain ⟨v0, c0, o0⟩ := from_u128_limb (n % 2 ^ 32) (mod32_lt n)
  obtain ⟨v1, c1, o1⟩ := from_u128_limb (n / 4294967296 % 2 ^ 32) (mod32_lt _)
  obtain ⟨v2, c2, o2⟩ := from_u128_limb (n / 18446744073709551616 % 2 ^ 32) (mod32_lt _)
  obtain ⟨v3, c3, o3⟩ := from_u128_limb (n / 79228162514264337593543950336 % 2 ^ 32) (mod32_lt _)
  rw [e, o, m, o0, o1, o2, o3]
  refine ⟨?_, ?_, rfl⟩
  · show [bfe_value (codec_bfe_from_u128 (n % 2 ^ 32)), bfe_value (codec_bfe_from_u128 (n / 4294967296 % 2 ^ 32)),
      bfe_value (codec_bfe_from_u128 (n / 18446744073709551616 % 2 ^ 32)),
      bfe_value (codec_bfe_from_u128 (n / 79228162514264337593543950336 % 2 ^ 32))] = _
    rw [v0, v1, v2, v3, pow64, pow96, pow32]
  · intro x hx
    simp only [List.mem_cons, List.not_mem_nil, or_false] at hx
    rcases hx with h | h | h | h
    · rw [h]; exact c0
    · rw [h]; exact c1
    · rw [h]; exact c2
    · rw [h]; exact c3

/-! ### static lengths -/
theorem gen_static_lengths :
    codec_u64_static_length = staticLength .u64 ∧ codec_u128_static_length = staticLength .u128 ∧
    codec_u8_static_length = staticLength .u8 ∧ codec_u16_static_length = staticLength .u16 ∧
    codec_u32_static_length = staticLength .u32 ∧ codec_bool_static_length = staticLength .bool ∧
    codec_bfe_static_length = staticLength .bfe := by decide

end TF.GenBridge.Codec
