import TF.Proofs.PolyInterp
/-!
`batch_fast_interpolate` (C08): the memoisation by (first, last) point of a half never hits for pairwise distinct
abscissae, and the batched divide-and-conquer returns the interpolant of every row.
-/
open Polynomial

namespace TF.Model.PolyI
open TF TF.Model.Poly

variable {K : Type} [Field K]
variable (root : Nat → Option K)
local notation "FK" => FieldOps.ofField K root

section
variable {E : Ext K} (hE : E.Lawful)
include hE

/-- recombination of the two half interpolants (the last step of every divide-and-conquer variant) -/
theorem combine_halves (domain values : List K) (mid : Nat) (_hmid1 : 1 ≤ mid) (hmid2 : mid < domain.length)
    (hn : domain.Nodup) (hl : domain.length = values.length) (lz rz li ri : List K)
    (hlzd : denote lz = zpoly (domain.take mid)) (hrzd : denote rz = zpoly (domain.drop mid))
    (hliI : Interpolates (domain.take mid)
      (List.zipWith (FK).mul (values.take mid)
        (((domain.take mid).map (fun x => (denote rz).eval x)).map (fun x => x⁻¹))) (denote li))
    (hriI : Interpolates (domain.drop mid)
      (List.zipWith (FK).mul (values.drop mid)
        (((domain.drop mid).map (fun x => (denote lz).eval x)).map (fun x => x⁻¹))) (denote ri)) :
    Interpolates domain values (denote (add FK (E.mul li rz) (E.mul ri lz))) := by
  have hsplit : domain.take mid ++ domain.drop mid = domain := List.take_append_drop mid domain
  have hnd : (domain.take mid ++ domain.drop mid).Nodup := by rw [hsplit]; exact hn
  obtain ⟨hnl, hnr, hdisj⟩ := List.nodup_append.1 hnd
  have hdisjL : ∀ x ∈ domain.take mid, x ∉ domain.drop mid := fun x hx hx' => hdisj x hx x hx' rfl
  have hdisjR : ∀ x ∈ domain.drop mid, x ∉ domain.take mid := fun x hx hx' => hdisj x hx' x hx rfl
  have hll : (domain.take mid).length = mid := by simp; omega
  have hrl : (domain.drop mid).length = domain.length - mid := by simp
  refine ⟨?_, ?_⟩
  · rw [denote_add, hE.mul, hE.mul, hlzd, hrzd]
    have dl : (denote li * zpoly (domain.drop mid)).degree < domain.length := by
      rw [degree_mul, degree_zpoly, hrl]
      have := hliI.1
      rw [hll] at this
      have h2 : ((mid : ℕ) : WithBot ℕ) + ((domain.length - mid : ℕ) : WithBot ℕ) = (domain.length : WithBot ℕ) := by
        rw [← Nat.cast_add]; congr 1; omega
      rw [← h2]
      exact WithBot.add_lt_add_right (by simp) this
    have dr : (denote ri * zpoly (domain.take mid)).degree < domain.length := by
      rw [degree_mul, degree_zpoly, hll]
      have := hriI.1
      rw [hrl] at this
      have h2 : ((domain.length - mid : ℕ) : WithBot ℕ) + ((mid : ℕ) : WithBot ℕ) = (domain.length : WithBot ℕ) := by
        rw [← Nat.cast_add]; congr 1; omega
      rw [← h2]
      exact WithBot.add_lt_add_right (by simp) this
    exact lt_of_le_of_lt (degree_add_le _ _) (max_lt dl dr)
  · intro p hp
    have hzip : domain.zip values = (domain.take mid).zip (values.take mid) ++ (domain.drop mid).zip (values.drop mid) := by
      conv_lhs => rw [← hsplit, ← List.take_append_drop mid values]
      rw [List.zip_append]
      simp; omega
    rw [hzip, List.mem_append] at hp
    rw [denote_add, hE.mul, hE.mul, hlzd, hrzd, eval_add, eval_mul, eval_mul]
    have hliI' : Interpolates (domain.take mid)
        (List.zipWith (· * ·) (values.take mid)
          (((domain.take mid).map (fun x => (zpoly (domain.drop mid)).eval x)).map (fun x => x⁻¹))) (denote li) := by
      rw [← hrzd]; exact hliI
    have hriI' : Interpolates (domain.drop mid)
        (List.zipWith (· * ·) (values.drop mid)
          (((domain.drop mid).map (fun x => (zpoly (domain.take mid)).eval x)).map (fun x => x⁻¹))) (denote ri) := by
      rw [← hlzd]; exact hriI
    rcases hp with hp | hp
    · rw [half_eval _ _ _ hdisjL _ hliI' p hp,
        (eval_zpoly_eq_zero_iff (domain.take mid) p.1).2 (List.of_mem_zip hp).1]
      ring
    · rw [half_eval _ _ _ hdisjR _ hriI' p hp,
        (eval_zpoly_eq_zero_iff (domain.drop mid) p.1).2 (List.of_mem_zip hp).1]
      ring

end

/-! ### the dictionaries -/

/-- no entry of the dictionary other than the slice's own (first, last) key has both components inside the slice -/
def DictInv (S : List K) (d : Dict K) : Prop :=
  ∀ e ∈ d, e.1.1 ∈ S → e.1.2 ∈ S → S.head? = some e.1.1 ∧ S.getLast? = some e.1.2

/-- the dictionary grew by entries whose keys lie inside the slice -/
def DictGrow (S : List K) (d d' : Dict K) : Prop :=
  ∃ extra : Dict K, d' = d ++ extra ∧ ∀ e ∈ extra, e.1.1 ∈ S ∧ e.1.2 ∈ S

theorem Dict.get_none (d : Dict K) (k : K × K) (h : ∀ e ∈ d, e.1 ≠ k) : Dict.get FK d k = none := by
  unfold Dict.get
  rw [Option.map_eq_none_iff, List.find?_eq_none]
  intro e he
  have := h e he
  simp only [Bool.and_eq_true, FieldOps.ofField_beq, not_and]
  intro h1 h2
  exact this (Prod.ext h1 h2)

theorem memoGet_miss (d : Dict K) (k : K × K) (c : Option (List K)) (v : List K) (h : ∀ e ∈ d, e.1 ≠ k)
    (hc : c = some v) : memoGet FK d k c = some (v, d ++ [(k, v)]) := by
  unfold memoGet
  rw [Dict.get_none root d k h, hc]
  rfl

theorem DictGrow.refl (S : List K) (d : Dict K) : DictGrow S d d := ⟨[], by simp, by simp⟩

theorem DictGrow.trans {S : List K} {d d' d'' : Dict K} (h1 : DictGrow S d d') (h2 : DictGrow S d' d'') :
    DictGrow S d d'' := by
  obtain ⟨e1, rfl, p1⟩ := h1
  obtain ⟨e2, rfl, p2⟩ := h2
  exact ⟨e1 ++ e2, by simp, fun e he => by
    rcases List.mem_append.1 he with h | h
    · exact p1 e h
    · exact p2 e h⟩

theorem DictGrow.mono {S S' : List K} {d d' : Dict K} (h : DictGrow S d d') (hs : ∀ x ∈ S, x ∈ S') :
    DictGrow S' d d' := by
  obtain ⟨e1, rfl, p1⟩ := h
  exact ⟨e1, rfl, fun e he => ⟨hs _ (p1 e he).1, hs _ (p1 e he).2⟩⟩


theorem mapM_option_exists {α β : Type} {f : α → Option β} {P : α → β → Prop} :
    ∀ (l : List α), (∀ a ∈ l, ∃ b, f a = some b ∧ P a b) → ∃ bs, l.mapM f = some bs ∧ List.Forall₂ P l bs := by
  intro l
  induction l with
  | nil => intro _; exact ⟨[], by simp, List.Forall₂.nil⟩
  | cons a l ih =>
    intro h
    obtain ⟨b, hb, hp⟩ := h a (by simp)
    obtain ⟨bs, hbs, hf⟩ := ih (fun x hx => h x (by simp [hx]))
    exact ⟨b :: bs, by rw [List.mapM_cons, hb, hbs]; rfl, List.Forall₂.cons hp hf⟩

theorem forall₂_zipWith {α β γ δ : Type} {P : α → β → Prop} {Q : α → γ → Prop} {R : α → δ → Prop} (f : β → γ → δ) :
    ∀ (l : List α) (bs : List β) (cs : List γ), (∀ a ∈ l, ∀ b c, P a b → Q a c → R a (f b c)) →
      List.Forall₂ P l bs → List.Forall₂ Q l cs → List.Forall₂ R l (List.zipWith f bs cs) := by
  intro l
  induction l with
  | nil => intro bs cs _ h1 h2; cases h1; cases h2; exact List.Forall₂.nil
  | cons a l ih =>
    intro bs cs h h1 h2
    cases h1 with
    | cons hab h1 =>
      cases h2 with
      | cons hac h2 =>
        exact List.Forall₂.cons (h a (by simp) _ _ hab hac) (ih _ _ (fun x hx => h x (by simp [hx])) h1 h2)

/-- key bookkeeping for one node of the recursion: `S = L ++ R`, keys `(first L, last L)`, `(first R, last R)` -/
theorem dict_step (L R : List K) (hnd : (L ++ R).Nodup) (d0 dh1 dh dl : K)
    (h0 : L.head? = some d0) (h1 : L.getLast? = some dh1) (h2 : R.head? = some dh) (h3 : R.getLast? = some dl)
    (d : Dict K) (hinv : DictInv (L ++ R) d) (v w : List K) :
    (∀ e ∈ d, e.1 ≠ (d0, dh1)) ∧ (∀ e ∈ d ++ [((d0, dh1), v)], e.1 ≠ (dh, dl)) ∧
    DictInv L (d ++ [((d0, dh1), v)] ++ [((dh, dl), w)]) ∧
    (∀ extra : Dict K, (∀ e ∈ extra, e.1.1 ∈ L ∧ e.1.2 ∈ L) →
      DictInv R (d ++ [((d0, dh1), v)] ++ [((dh, dl), w)] ++ extra)) ∧
    DictGrow (L ++ R) d (d ++ [((d0, dh1), v)] ++ [((dh, dl), w)]) := by
  obtain ⟨_, _, hdisj⟩ := List.nodup_append.1 hnd
  have m0 : d0 ∈ L := List.mem_of_mem_head? h0
  have m1 : dh1 ∈ L := List.mem_of_getLast? h1
  have m2 : dh ∈ R := List.mem_of_mem_head? h2
  have m3 : dl ∈ R := List.mem_of_getLast? h3
  have hLne : L ≠ [] := List.ne_nil_of_mem m0
  have hRne : R ≠ [] := List.ne_nil_of_mem m2
  have hSh : (L ++ R).head? = some d0 := by rw [List.head?_append_of_ne_nil _ hLne]; exact h0
  have hSl : (L ++ R).getLast? = some dl := by rw [List.getLast?_append_of_ne_nil _ hRne]; exact h3
  have no : ∀ a, a ∈ L → a ∈ R → False := fun a ha hb => hdisj a ha a hb rfl
  refine ⟨?_, ?_, ?_, ?_, ?_⟩
  · intro e he hk
    obtain ⟨_, hb⟩ := hinv e he (by rw [hk]; simp [m0]) (by rw [hk]; simp [m1])
    rw [hk, hSl] at hb
    have e1 : dl = dh1 := Option.some.inj hb
    exact no dh1 m1 (by rw [← e1]; exact m3)
  · intro e he hk
    rcases List.mem_append.1 he with he | he
    · obtain ⟨ha, _⟩ := hinv e he (by rw [hk]; simp [m2]) (by rw [hk]; simp [m3])
      rw [hk, hSh] at ha
      have e1 : d0 = dh := Option.some.inj ha
      exact no dh (by rw [← e1]; exact m0) m2
    · simp only [List.mem_singleton] at he
      rw [he] at hk
      have e1 : d0 = dh := (Prod.mk.inj hk).1
      exact no dh (by rw [← e1]; exact m0) m2
  · intro e he a1 a2
    simp only [List.append_assoc, List.mem_append, List.mem_singleton] at he
    rcases he with he | he | he
    · obtain ⟨_, hb⟩ := hinv e he (List.mem_append_left _ a1) (List.mem_append_left _ a2)
      rw [hSl] at hb
      have e1 : dl = e.1.2 := Option.some.inj hb
      exact absurd m3 (fun hm => no dl (by rw [e1]; exact a2) hm)
    · subst he; exact ⟨h0, h1⟩
    · subst he; exact absurd a1 (fun hm => no dh hm m2)
  · intro extra hex e he a1 a2
    simp only [List.append_assoc, List.mem_append, List.mem_singleton] at he
    rcases he with he | he | he | he
    · obtain ⟨ha, _⟩ := hinv e he (List.mem_append_right _ a1) (List.mem_append_right _ a2)
      rw [hSh] at ha
      have e1 : d0 = e.1.1 := Option.some.inj ha
      exact absurd m0 (fun hm => no d0 hm (by rw [e1]; exact a1))
    · subst he; exact absurd a1 (fun hm => no d0 m0 hm)
    · subst he; exact ⟨h2, h3⟩
    · exact absurd a1 (fun hm => no _ (hex e he).1 hm)
  · refine ⟨[((d0, dh1), v), ((dh, dl), w)], by simp, ?_⟩
    intro e he
    simp only [List.mem_cons, List.not_mem_nil, or_false] at he
    rcases he with he | he <;> subst he <;> simp [m0, m1, m2, m3]

section memo
variable {E : Ext K} (hE : E.Lawful)
include hE

/-- the recursion of `batch_fast_interpolate_with_memoization` on a slice with pairwise distinct points: no
    dictionary hit, every row interpolated -/
theorem batchMemoFuel_spec (t : Thr) (hT : 2 ≤ t.zf) (hRT : 0 < t.rt) (hB : 2 ≤ t.batch) :
    ∀ (fuel : Nat) (S : List K) (matrix : List (List K)) (zd od : Dict K), S.length < fuel → S.Nodup →
      (∀ row ∈ matrix, row.length = S.length) → DictInv S zd → DictInv S od →
      ∃ res zd' od', batchMemoFuel FK E t fuel S matrix (zd, od) = some (res, (zd', od')) ∧
        List.Forall₂ (fun row r => Interpolates S row (denote r)) matrix res ∧
        DictGrow S zd zd' ∧ DictGrow S od od' := by
  intro fuel
  induction fuel with
  | zero => intro S _ _ _ h; omega
  | succ fuel ih =>
    intro S matrix zd od hfuel hnd hrows hzd hod
    rw [batchMemoFuel]
    split
    · -- below the cut-off: Lagrange for every row
      obtain ⟨res, hres, hf⟩ := mapM_option_exists (f := fun values => lagrangeInterpolateWith FK E t.zf S values)
        (P := fun row r => Interpolates S row (denote r)) matrix (by
          intro row hrow
          obtain ⟨f, hf, _, hI⟩ := lagrangeInterpolateWith_spec root hE t.zf S row hnd (hrows row hrow).symm
            (zerofierWith_total root (E := E) t.zf hT S)
          exact ⟨f, hf, hI⟩)
      exact ⟨res, zd, od, by simp [hres], hf, DictGrow.refl _ _, DictGrow.refl _ _⟩
    · next hbig =>
      have hlen2 : 2 ≤ S.length := by omega
      set half := S.length / 2 with hhalf
      have hh1 : 1 ≤ half := by omega
      have hh2 : half < S.length := by omega
      simp only
      rw [if_neg (by simp; omega)]
      set L := S.take half with hL
      set R := S.drop half with hR
      have hSLR : L ++ R = S := List.take_append_drop half S
      have hLlen : L.length = half := by simp [hL]; omega
      have hRlen : R.length = S.length - half := by simp [hR]
      have hndLR : (L ++ R).Nodup := by rw [hSLR]; exact hnd
      obtain ⟨hnL, hnR, hdisj⟩ := List.nodup_append.1 hndLR
      -- the four index lookups
      obtain ⟨d0, hd0⟩ : ∃ d0, S[0]? = some d0 := ⟨S[0], List.getElem?_eq_getElem (by omega)⟩
      obtain ⟨dh1, hdh1⟩ : ∃ dh1, S[half - 1]? = some dh1 := ⟨S[half - 1], List.getElem?_eq_getElem (by omega)⟩
      obtain ⟨dh, hdh⟩ : ∃ dh, S[half]? = some dh := ⟨S[half], List.getElem?_eq_getElem hh2⟩
      obtain ⟨dl, hdl⟩ : ∃ dl, S.getLast? = some dl := by
        cases h : S.getLast? with
        | none => rw [List.getLast?_eq_none_iff] at h; rw [h] at hlen2; simp at hlen2
        | some x => exact ⟨x, rfl⟩
      have h0 : L.head? = some d0 := by
        rw [List.head?_eq_getElem?, hL, List.getElem?_take_of_lt (by omega)]; exact hd0
      have h1 : L.getLast? = some dh1 := by
        rw [List.getLast?_eq_getElem?, hLlen, hL, List.getElem?_take_of_lt (by omega)]; exact hdh1
      have h2 : R.head? = some dh := by
        rw [List.head?_eq_getElem?, hR, List.getElem?_drop]; simpa using hdh
      have h3 : R.getLast? = some dl := by
        rw [hR, List.getLast?_drop, if_neg (by omega)]; exact hdl
      simp only [hd0, hdh1, hdh, hdl]
      -- zerofiers
      obtain ⟨lz, hlz⟩ := Option.isSome_iff_exists.1 (zerofierWith_total root (E := E) t.zf hT L)
      obtain ⟨rz, hrz⟩ := Option.isSome_iff_exists.1 (zerofierWith_total root (E := E) t.zf hT R)
      have hlzd := zerofierWith_sound root hE t.zf _ _ hlz
      have hrzd := zerofierWith_sound root hE t.zf _ _ hrz
      have hzdS : DictInv (L ++ R) zd := by rw [hSLR]; exact hzd
      have hodS : DictInv (L ++ R) od := by rw [hSLR]; exact hod
      obtain ⟨z1, z2, z3, z4, z5⟩ := dict_step L R hndLR d0 dh1 dh dl h0 h1 h2 h3 zd hzdS lz rz
      -- offsets
      have hloi : (bevSeq FK E t rz L).bind (fun lo => batchInversion FK lo)
          = some ((L.map (fun x => (denote rz).eval x)).map (fun x => x⁻¹)) := by
        unfold bevSeq
        rw [batchEvaluateWith_total root hE t.ratio t.rt t.zf hRT hT rz L]
        simp only [Option.bind_some]
        apply batchInversion_map
        intro y hy
        obtain ⟨x, hx, rfl⟩ := List.mem_map.1 hy
        rw [hrzd, Ne, eval_zpoly_eq_zero_iff]; exact fun hx' => hdisj x hx x hx' rfl
      have hroi : (bevSeq FK E t lz R).bind (fun ro => batchInversion FK ro)
          = some ((R.map (fun x => (denote lz).eval x)).map (fun x => x⁻¹)) := by
        unfold bevSeq
        rw [batchEvaluateWith_total root hE t.ratio t.rt t.zf hRT hT lz R]
        simp only [Option.bind_some]
        apply batchInversion_map
        intro y hy
        obtain ⟨x, hx, rfl⟩ := List.mem_map.1 hy
        rw [hlzd, Ne, eval_zpoly_eq_zero_iff]; exact fun hx' => hdisj x hx' x hx rfl
      obtain ⟨o1, o2, o3, o4, o5⟩ := dict_step L R hndLR d0 dh1 dh dl h0 h1 h2 h3 od hodS
        ((L.map (fun x => (denote rz).eval x)).map (fun x => x⁻¹))
        ((R.map (fun x => (denote lz).eval x)).map (fun x => x⁻¹))
      rw [memoGet_miss root zd (d0, dh1) _ lz z1 hlz]
      simp only [Option.bind_eq_bind, Option.bind_some]
      rw [memoGet_miss root _ (dh, dl) _ rz z2 hrz]
      simp only [Option.bind_some]
      rw [memoGet_miss root od (d0, dh1) _ _ o1 hloi]
      simp only [Option.bind_some]
      rw [memoGet_miss root _ (dh, dl) _ _ o2 hroi]
      simp only [Option.bind_some]
      have hshort : (matrix.any (fun values => decide (values.length < half))) = false := by
        rw [List.any_eq_false]
        intro row hrow
        simp only [decide_eq_true_eq, not_lt]
        rw [hrows row hrow]; omega
      rw [hshort]
      simp only [Bool.false_eq_true, if_false]
      -- recursion on the halves
      set loi := (L.map (fun x => (denote rz).eval x)).map (fun x => x⁻¹) with hloid
      set roi := (R.map (fun x => (denote lz).eval x)).map (fun x => x⁻¹) with hroid
      obtain ⟨lis, zdL, odL, hlis, hlf, gzL, goL⟩ := ih L
        (matrix.map (fun values => List.zipWith (FK).mul (values.take half) loi))
        (zd ++ [((d0, dh1), lz)] ++ [((dh, dl), rz)]) (od ++ [((d0, dh1), loi)] ++ [((dh, dl), roi)])
        (by omega) hnL
        (by
          intro row hrow
          obtain ⟨r0, hr0, rfl⟩ := List.mem_map.1 hrow
          simp only [List.length_zipWith, List.length_take, hloid, List.length_map, hrows r0 hr0, hLlen]
          omega)
        z3 o3
      obtain ⟨exL, rfl, hexL⟩ := gzL
      obtain ⟨eoL, rfl, heoL⟩ := goL
      obtain ⟨ris, zdR, odR, hris, hrf, gzR, goR⟩ := ih R
        (matrix.map (fun values => List.zipWith (FK).mul (values.drop half) roi))
        (zd ++ [((d0, dh1), lz)] ++ [((dh, dl), rz)] ++ exL) (od ++ [((d0, dh1), loi)] ++ [((dh, dl), roi)] ++ eoL)
        (by omega) hnR
        (by
          intro row hrow
          obtain ⟨r0, hr0, rfl⟩ := List.mem_map.1 hrow
          simp only [List.length_zipWith, List.length_drop, hroid, List.length_map, hrows r0 hr0, hRlen]
          omega)
        (z4 exL hexL) (o4 eoL heoL)
      rw [hlis]
      simp only [Option.bind_some]
      rw [hris]
      simp only [Option.bind_some, Option.pure_def]
      refine ⟨_, zdR, odR, rfl, ?_, ?_, ?_⟩
      · rw [List.forall₂_map_left_iff] at hlf hrf
        refine forall₂_zipWith _ matrix lis ris ?_ hlf hrf
        intro row hrow li ri hli hri
        exact combine_halves root hE S row half hh1 hh2 hnd (hrows row hrow).symm lz rz li ri hlzd hrzd hli hri
      · have hsubL : ∀ x ∈ L, x ∈ S := fun x hx => hSLR ▸ List.mem_append_left _ hx
        have hsubR : ∀ x ∈ R, x ∈ S := fun x hx => hSLR ▸ List.mem_append_right _ hx
        have g1 : DictGrow S zd (zd ++ [((d0, dh1), lz)] ++ [((dh, dl), rz)]) := hSLR ▸ z5
        have g2 : DictGrow S (zd ++ [((d0, dh1), lz)] ++ [((dh, dl), rz)])
            (zd ++ [((d0, dh1), lz)] ++ [((dh, dl), rz)] ++ exL) :=
          DictGrow.mono (show DictGrow L _ _ from ⟨exL, rfl, hexL⟩) hsubL
        exact (g1.trans g2).trans (gzR.mono hsubR)
      · have hsubL : ∀ x ∈ L, x ∈ S := fun x hx => hSLR ▸ List.mem_append_left _ hx
        have hsubR : ∀ x ∈ R, x ∈ S := fun x hx => hSLR ▸ List.mem_append_right _ hx
        have g1 : DictGrow S od (od ++ [((d0, dh1), loi)] ++ [((dh, dl), roi)]) := hSLR ▸ o5
        have g2 : DictGrow S (od ++ [((d0, dh1), loi)] ++ [((dh, dl), roi)])
            (od ++ [((d0, dh1), loi)] ++ [((dh, dl), roi)] ++ eoL) :=
          DictGrow.mono (show DictGrow L _ _ from ⟨eoL, rfl, heoL⟩) hsubL
        exact (g1.trans g2).trans (goR.mono hsubR)

/-- `batch_fast_interpolate` -/
theorem batchFastInterpolateWith_spec (t : Thr) (hT : 2 ≤ t.zf) (hRT : 0 < t.rt) (hB : 2 ≤ t.batch)
    (domain : List K) (matrix : List (List K)) (hne : domain ≠ []) (hn : domain.Nodup)
    (hrows : ∀ row ∈ matrix, row.length = domain.length) :
    ∃ res, batchFastInterpolateWith FK E t domain matrix = some res ∧
      List.Forall₂ (fun row r => Interpolates domain row (denote r)) matrix res := by
  obtain ⟨res, zd', od', h, hf, _, _⟩ := batchMemoFuel_spec root hE t hT hRT hB (domain.length + 1) domain matrix [] []
    (Nat.lt_succ_self _) hn hrows (by intro e he; simp at he) (by intro e he; simp at he)
  refine ⟨res, ?_, hf⟩
  unfold batchFastInterpolateWith
  rw [if_neg (by simpa using hne), h]
  rfl

end memo

end TF.Model.PolyI
