import TF.Proofs.MmrAccBatch
/-!
# C11: `verify_batch_update` accepts exactly the from-scratch peaks

`verify_batch_update` applies the mutations one by one with `calculate_new_peaks_from_leaf_mutation`, repairing the
proofs of the remaining mutations after every step with `MmrMembershipProof::batch_update_from_leaf_mutation`
(which replaces, in every path, the first digest whose node index lies on the mutated leaf's direct path), then
applies the appends.  Invariant of the mutation loop: the remaining mutations carry their from-scratch paths in the
current leaf list and the running peaks are the from-scratch peaks of the current leaf list.
-/
namespace TF.MmrAccVerify
open TF TF.Gen TF.Model.Mmr TF.Model.MmrAcc TF.MmrE TF.MmrBM TF.Spec.MmrE TF.MmrAccBatch

section V
variable {D : Type} (H : D → D → D)

/-- the walk of `batch_update_from_leaf_mutation` from the node `(l, j)`: it stores the roots (in `g'`) of the proper
    ancestors below the end of the path and touches no other key -/
theorem deducibleClimb_spec (g' : Nat → D) : ∀ (ds : List D) (l j : Nat) (m : DMap D),
    l + ds.length ≤ 63 → nodeIdx (l + ds.length) (j / 2 ^ ds.length) < 2 ^ 64 →
    (∀ s d, ds[s]? = some d → d = sub H g' (l + s) (sibBlk (j / 2 ^ s))) →
    ∃ m', deducibleClimb H ds (nodeIdx l j) (sub H g' l j) m = some m' ∧
      (∀ s, 1 ≤ s → s < ds.length → m' (nodeIdx (l + s) (j / 2 ^ s)) = some (sub H g' (l + s) (j / 2 ^ s))) ∧
      (∀ k, (∀ s, 1 ≤ s → s < ds.length → k ≠ nodeIdx (l + s) (j / 2 ^ s)) → m' k = m k) := by
  intro ds
  induction ds with
  | nil =>
    intro l j m _ _ _
    exact ⟨m, by simp [deducibleClimb], by intro s _ h; simp at h, fun _ _ => rfl⟩
  | cons d rest ih =>
    intro l j m hl hlt hsib
    cases rest with
    | nil =>
      refine ⟨m, by simp [deducibleClimb], ?_, fun _ _ => rfl⟩
      intro s h1 h2; simp at h2; omega
    | cons d2 rest2 =>
      simp only [List.length_cons] at hl hlt
      have e1 : ∀ s, l + 1 + s = l + (s + 1) := by intro s; omega
      have e2 : ∀ s, j / 2 / 2 ^ s = j / 2 ^ (s + 1) := by
        intro s; rw [Nat.div_div_eq_div_mul, ← Nat.pow_succ']
      have hanc := nodeIdx_le_ancestor (l + 1) (j / 2) (rest2.length + 1)
      rw [e1, e2] at hanc
      have hpar : nodeIdx (l + 1) (j / 2) < 2 ^ 64 := by omega
      have h0 := hsib 0 d (by simp)
      simp only [Nat.add_zero, Nat.pow_zero, Nat.div_one] at h0
      have hacc : (if decide (j % 2 = 1) = true then H (sub H g' l (sibBlk j)) (sub H g' l j)
          else H (sub H g' l j) (sub H g' l (sibBlk j))) = sub H g' (l + 1) (j / 2) := by
        rw [← step_sib H g' l j]
        by_cases hj : j % 2 = 0
        · have : ¬ j % 2 = 1 := by omega
          simp [hj]
        · have : j % 2 = 1 := by omega
          simp [this]
      obtain ⟨m', hrun, hv, hk⟩ := ih (l + 1) (j / 2)
        (m.insert (nodeIdx (l + 1) (j / 2)) (sub H g' (l + 1) (j / 2))) (by simp only [List.length_cons]; omega)
        (by simp only [List.length_cons]; rw [e1, e2]; exact hlt)
        (by
          intro s d' hd'
          rw [e1, e2]
          exact hsib (s + 1) d' (by simpa using hd'))
      simp only [List.length_cons] at hv hk
      refine ⟨m', ?_, ?_, ?_⟩
      · rw [deducibleClimb, siblingAndParent_spec l j (by omega) hpar]
        · simp only [Option.bind_some, h0, hacc]
          exact hrun
        · simp
      · intro s hs1 hs2
        simp only [List.length_cons] at hs2
        by_cases hs : s = 1
        · subst hs
          simp only [Nat.pow_one]
          rw [hk (nodeIdx (l + 1) (j / 2)) (fun s' h1 _ => nodeIdx_ne_anc (l + 1) (j / 2) s' h1)]
          unfold DMap.insert; simp
        · have := hv (s - 1) (by omega) (by omega)
          rw [e1, e2] at this
          have e : s - 1 + 1 = s := by omega
          rw [e] at this
          exact this
      · intro k hkne
        simp only [List.length_cons] at hkne
        rw [hk k (fun s h1 h2 => by
          have := hkne (s + 1) (by omega) (by omega)
          rw [e1, e2]; exact this)]
        have := hkne 1 (by omega) (by omega)
        simp only [Nat.pow_one] at this
        unfold DMap.insert; simp [this]

/-- after the walk for the mutation of leaf `j`, the map satisfies the invariant of a one-element batch -/
theorem deducible_single (g : Nat → D) (n j : Nat) (d : D) (hj : j < n) (hn : n < 2 ^ 63) :
    ∃ m', deducibleClimb H (authPathOf H g n j) (leaf_index_to_node_index j) d
        (DMap.empty.insert (leaf_index_to_node_index j) d) = some m' ∧
      Inv H n g (Function.update g j d) [j] m' := by
  have hb0 : nodeIdx 0 j < 2 ^ 64 := by
    have := nodeIdx_lt_of_height n j 0 hj hn (Nat.zero_le _)
    simpa using this
  have hh : (locate n j).1 < 63 := by
    have h1 := two_pow_height_le n j hj
    by_contra hc
    have : 2 ^ 63 ≤ 2 ^ (locate n j).1 := Nat.pow_le_pow_right (by omega) (by omega)
    omega
  have hlen : (authPathOf H g n j).length = (locate n j).1 := by unfold authPathOf; rw [sibPath_length]
  obtain ⟨m', hrun, hv, hk⟩ := deducibleClimb_spec H (Function.update g j d) (authPathOf H g n j) 0 j
    (DMap.empty.insert (nodeIdx 0 j) d) (by omega)
    (by rw [hlen, Nat.zero_add]; exact nodeIdx_lt_of_height n j _ hj hn (Nat.le_refl _))
    (by
      intro s d' hs
      obtain ⟨_, rfl⟩ := authPathOf_getElem? H g n j s d' hs
      rw [Nat.zero_add, sub_update_ne H g j d s _ (sibBlk_ne _)])
  simp only [Nat.zero_add, hlen] at hrun hv hk
  simp only [sub] at hrun
  rw [Function.update_self] at hrun
  rw [l2n_eq_nodeIdx j (by omega)]
  refine ⟨m', hrun, ?_⟩
  apply (Inv.empty H n g (fun _ => none) (fun _ => rfl)).step H hn j d hj (by simp)
  · intro s hs
    by_cases hs0 : s = 0
    · subst hs0
      simp only [Nat.pow_zero, Nat.div_one, sub, Function.update_self]
      rw [hk _ (fun s' h1 _ => by
        have := nodeIdx_ne_anc 0 j s' h1; rwa [Nat.zero_add] at this)]
      unfold DMap.insert; simp
    · exact hv s (by omega) (by omega)
  · intro k hkne
    rw [hk k (fun s h1 h2 => hkne s (Or.inl h2))]
    have := hkne 0 (Or.inr rfl)
    simp only [Nat.pow_zero, Nat.div_one] at this
    unfold DMap.insert DMap.empty; simp [this]

/-- paths agree when the sibling roots agree level by level -/
theorem sibPath_congr_levels (g g' : Nat → D) : ∀ (u l j : Nat),
    (∀ s, s < u → sub H g' (l + s) (sibBlk (j / 2 ^ s)) = sub H g (l + s) (sibBlk (j / 2 ^ s))) →
    sibPath H g' l u j = sibPath H g l u j := by
  intro u
  induction u with
  | zero => intros; simp [sibPath]
  | succ u ih =>
    intro l j h
    have h0 := h 0 (by omega)
    simp only [Nat.add_zero, Nat.pow_zero, Nat.div_one] at h0
    simp only [sibPath]
    rw [h0, ih (l + 1) (j / 2) (fun s hs => by
      have := h (s + 1) (by omega)
      rw [show l + 1 + s = l + (s + 1) by omega, Nat.div_div_eq_div_mul, ← Nat.pow_succ']
      exact this)]

/-- `replaceFirst` (replace the first digest the map knows with a different value, then stop) turns the path valid
    for `g` into the path valid for `g'`, provided map-or-old is the new sibling root at every level and at most one
    level changes -/
theorem replaceFirst_sibPath [BEq D] [LawfulBEq D] (g g' : Nat → D) (m : DMap D) : ∀ (u l j : Nat),
    (∀ s, s < u → (m (nodeIdx (l + s) (sibBlk (j / 2 ^ s)))).getD (sub H g (l + s) (sibBlk (j / 2 ^ s)))
        = sub H g' (l + s) (sibBlk (j / 2 ^ s))) →
    (∀ s, s < u → sub H g' (l + s) (sibBlk (j / 2 ^ s)) ≠ sub H g (l + s) (sibBlk (j / 2 ^ s)) →
      ∀ s', s < s' → s' < u → sub H g' (l + s') (sibBlk (j / 2 ^ s')) = sub H g (l + s') (sibBlk (j / 2 ^ s'))) →
    replaceFirst m (sibPath H g l u j) ((List.range u).map fun t => nodeIdx (l + t) (sibBlk (j / 2 ^ t)))
      = sibPath H g' l u j := by
  intro u
  induction u with
  | zero => intro l j _ _; simp [sibPath, replaceFirst]
  | succ u ih =>
    intro l j h1 h2
    have e1 : ∀ s, l + 1 + s = l + (s + 1) := by intro s; omega
    have e2 : ∀ s, j / 2 / 2 ^ s = j / 2 ^ (s + 1) := by
      intro s; rw [Nat.div_div_eq_div_mul, ← Nat.pow_succ']
    have h0 := h1 0 (by omega)
    simp only [Nat.add_zero, Nat.pow_zero, Nat.div_one] at h0
    have ih' := ih (l + 1) (j / 2)
      (by intro s hs; rw [e1, e2]; exact h1 (s + 1) (by omega))
      (by
        intro s hs hne s' hss' hs'
        rw [e1, e2] at hne ⊢
        exact h2 (s + 1) (by omega) hne (s' + 1) (by omega) (by omega))
    have hr : (List.range (u + 1)).map (fun t => nodeIdx (l + t) (sibBlk (j / 2 ^ t)))
        = nodeIdx l (sibBlk j) :: (List.range u).map (fun t => nodeIdx (l + 1 + t) (sibBlk (j / 2 / 2 ^ t))) := by
      rw [List.range_succ_eq_map, List.map_cons, List.map_map]
      simp only [Nat.add_zero, Nat.pow_zero, Nat.div_one, List.cons.injEq, true_and]
      apply List.map_congr_left
      intro t _
      simp only [Function.comp, Nat.succ_eq_add_one]
      rw [e1, e2]
    rw [hr]
    simp only [sibPath]
    rw [replaceFirst]
    cases hget : m (nodeIdx l (sibBlk j)) with
    | none =>
      rw [hget] at h0
      simp only [Option.getD_none] at h0
      simp only [ih', h0]
    | some v =>
      rw [hget] at h0
      simp only [Option.getD_some] at h0
      subst h0
      by_cases hd : sub H g l (sibBlk j) = sub H g' l (sibBlk j)
      · simp only [hd, bne_self_eq_false, Bool.false_eq_true, if_false, ih']
      · have hne : (sub H g l (sibBlk j) != sub H g' l (sibBlk j)) = true := by simpa using hd
        simp only [hne, if_true]
        congr 1
        symm
        apply sibPath_congr_levels
        intro s hs
        have := h2 0 (by omega) (by
          simp only [Nat.add_zero, Nat.pow_zero, Nat.div_one]
          exact fun e => hd e.symm) (s + 1) (by omega) (by omega)
        rw [e1, e2]
        exact this

/-- a single leaf mutation changes at most one digest of any other path: above the level where the mutated leaf
    sits in the sibling block, it lies on the path's own side -/
theorem update_changes_once (g : Nat → D) (i j : Nat) (d : D) (u : Nat) :
    ∀ s, s < u → sub H (Function.update g j d) (0 + s) (sibBlk (i / 2 ^ s)) ≠ sub H g (0 + s) (sibBlk (i / 2 ^ s)) →
      ∀ s', s < s' → s' < u →
        sub H (Function.update g j d) (0 + s') (sibBlk (i / 2 ^ s')) = sub H g (0 + s') (sibBlk (i / 2 ^ s')) := by
  intro s _ hne s' hss' _
  simp only [Nat.zero_add] at hne ⊢
  have hj : sibBlk (i / 2 ^ s) = j / 2 ^ s := by
    by_contra hc
    exact hne (sub_update_ne H g j d s _ hc)
  apply sub_update_ne
  obtain ⟨c, rfl⟩ := Nat.exists_eq_add_of_lt hss'
  have e : ∀ x : Nat, x / 2 ^ (s + c + 1) = x / 2 ^ s / 2 / 2 ^ c := by
    intro x; rw [Nat.div_div_eq_div_mul, Nat.div_div_eq_div_mul, show s + c + 1 = s + (c + 1) by omega, Nat.pow_add, Nat.pow_succ']
  rw [e j, ← hj, sibBlk_div, ← e i]
  exact sibBlk_ne _

/-- **`MmrMembershipProof::batch_update_from_leaf_mutation`** (as called by `verify_batch_update`): from-scratch
    paths of any in-range leafs become the from-scratch paths after the mutation -/
theorem batch_update_from_leaf_mutation_spec [BEq D] [LawfulBEq D] (g : Nat → D) (n j : Nat) (d : D) (hj : j < n)
    (hn : n < 2 ^ 63) (lis : List Nat) (hlis : ∀ t ∈ lis, t < n) :
    batch_update_from_leaf_mutation H (lis.map fun t => (authPathOf H g n t, t))
        { leaf_index := j, new_leaf := d, auth := authPathOf H g n j }
      = some (lis.map fun t => (authPathOf H (Function.update g j d) n t, t)) := by
  obtain ⟨m', hrun, inv⟩ := deducible_single H g n j d hj hn
  unfold batch_update_from_leaf_mutation
  simp only [hrun, Option.bind_some]
  clear hrun
  induction lis with
  | nil => rfl
  | cons τ rest ih =>
    have hτ : τ < n := hlis τ (by simp)
    have hh : (locate n τ).1 < 63 := by
      have h1 := two_pow_height_le n τ hτ
      by_contra hc
      have : 2 ^ 63 ≤ 2 ^ (locate n τ).1 := Nat.pow_le_pow_right (by omega) (by omega)
      omega
    have hlen : (authPathOf H g n τ).length = (locate n τ).1 := by unfold authPathOf; rw [sibPath_length]
    have hidx := get_node_indices_spec τ (locate n τ).1 (by omega) (by omega)
      (nodeIdx_lt_of_height n τ _ hτ hn (Nat.le_refl _))
    have hrep := replaceFirst_sibPath H g (Function.update g j d) m' (locate n τ).1 0 τ
      (by
        intro s hs
        rw [Nat.zero_add]
        exact inv.sibling H hn τ s hτ hs)
      (update_changes_once H g τ j d _)
    simp only [Nat.zero_add] at hrep
    have hrep' : replaceFirst m' (authPathOf H g n τ)
        ((List.range (locate n τ).1).map fun t => nodeIdx t (sibBlk (τ / 2 ^ t)))
        = authPathOf H (Function.update g j d) n τ := hrep
    rw [List.map_cons, List.mapM_cons, ih (fun t ht => hlis t (by simp [ht]))]
    simp only [hlen, hidx, Option.map_some, hrep', List.map_cons]
    rfl

/-! ### the loops of `verify_batch_update` -/

/-- `calculate_new_peaks_from_leaf_mutation` with the from-scratch path -/
theorem calc_mutation_spec (g : Nat → D) (n i : Nat) (x : D) (hi : i < n) (hn : n < 2 ^ 64) :
    calculate_new_peaks_from_leaf_mutation H (peaks H n g) n x i (authPathOf H g n i)
      = some (peaks H n (Function.update g i x)) := by
  have h := MmrAccP.mutate_leaf_refines_model H g x n i hi hn _ (authPath_eq H g n i hi)
  unfold mutate_leaf at h
  simp only at h
  rw [peaks_eq, peaks_eq, update_eq] at h
  cases hc : calculate_new_peaks_from_leaf_mutation H (peaks H n g) n x i (authPathOf H g n i) with
  | none => rw [hc] at h; cases h
  | some ps =>
    rw [hc] at h
    simp only [Option.map_some, Option.some.injEq, Acc.mk.injEq, true_and] at h
    rw [h]

/-- the batch of mutations as `verify_batch_update` sees it, with the paths valid in `g` -/
def mkV (g : Nat → D) (n : Nat) (ms : List (Nat × D)) : List (LeafMutation D) :=
  ms.map fun m => { leaf_index := m.1, new_leaf := m.2, auth := authPathOf H g n m.1 }

theorem zip_repair (g g' : Nat → D) (n : Nat) : ∀ ms : List (Nat × D),
    ((mkV H g n ms).zip ((ms.map (·.1)).map fun t => (authPathOf H g' n t, t))).map
        (fun ru => ({ ru.1 with auth := ru.2.1 } : LeafMutation D)) = mkV H g' n ms := by
  intro ms
  induction ms with
  | nil => rfl
  | cons p rest ih =>
    unfold mkV at ih ⊢
    simp only [List.map_cons, List.zip_cons_cons, ih]

/-- the mutation loop: mutations applied in order, the remaining proofs repaired after every step -/
theorem verifyMutLoop_spec [BEq D] [LawfulBEq D] (n : Nat) (hn : n < 2 ^ 63) : ∀ (ms : List (Nat × D)) (fuel : Nat)
    (g : Nat → D), ms.length ≤ fuel → (∀ m ∈ ms, m.1 < n) →
    verifyMutLoop H n fuel (mkV H g n ms) (peaks H n g) = some (peaks H n (applyL g ms)) := by
  intro ms
  induction ms with
  | nil => intro fuel g _ _; cases fuel <;> rfl
  | cons p rest ih =>
    intro fuel g hf hms
    obtain ⟨fuel', rfl⟩ : ∃ f', fuel = f' + 1 := ⟨fuel - 1, by simp at hf; omega⟩
    have hp : p.1 < n := hms p (by simp)
    have hrest : ∀ m ∈ rest, m.1 < n := fun m hm => hms m (by simp [hm])
    have hmk : mkV H g n (p :: rest)
        = { leaf_index := p.1, new_leaf := p.2, auth := authPathOf H g n p.1 } :: mkV H g n rest := rfl
    have hproofs : (mkV H g n rest).map (fun r => (r.auth, r.leaf_index))
        = (rest.map (·.1)).map fun t => (authPathOf H g n t, t) := by
      unfold mkV; simp [List.map_map, Function.comp]
    rw [hmk, verifyMutLoop]
    simp only
    rw [calc_mutation_spec H g n p.1 p.2 hp (by omega), hproofs,
      batch_update_from_leaf_mutation_spec H g n p.1 p.2 hp hn (rest.map (·.1)) (by
        intro t ht
        obtain ⟨m, hm, rfl⟩ := List.mem_map.mp ht
        exact hrest m hm)]
    simp only [Option.bind_some]
    rw [zip_repair]
    exact ih fuel' (Function.update g p.1 p.2) (by simp at hf; omega) hrest

/-- the append loop -/
theorem verifyAppendLoop_spec : ∀ (apps : List D) (n : Nat) (f : Nat → D), n + apps.length < 2 ^ 64 →
    verifyAppendLoop H apps n (Spec.MmrAcc.peaks H n f)
      = some (Spec.MmrAcc.peaks H (n + apps.length)
          (applyUpdates f ((apps.zipIdx n).map fun xk => (xk.2, xk.1)))) := by
  intro apps
  induction apps with
  | nil => intro n f _; rfl
  | cons x xs ih =>
    intro n f hlen
    simp only [List.length_cons] at hlen
    have h1 : Spec.MmrAcc.peaks H n f = Spec.MmrAcc.peaks H n (Spec.MmrAcc.update f n x) :=
      MmrAccP.peaks_congr H n f _ (fun m hm => by unfold Spec.MmrAcc.update; rw [if_neg (by omega)])
    have h2 : Spec.MmrAcc.update f n x n = x := by unfold Spec.MmrAcc.update; rw [if_pos rfl]
    obtain ⟨ap, hc⟩ := MmrAccP.calc_append_refines H n (by omega) (Spec.MmrAcc.update f n x)
    rw [← h1, h2] at hc
    rw [verifyAppendLoop, hc]
    simp only [Option.bind_some]
    rw [MmrAccP.add64_succ n (by omega), ih (n + 1) _ (by omega), List.zipIdx_cons, List.map_cons, applyUpdates,
      List.length_cons, show n + 1 + xs.length = n + (xs.length + 1) by omega]

theorem allUnique_of_nodup : ∀ l : List Nat, l.Nodup → allUnique l = true := by
  intro l
  induction l with
  | nil => intro _; rfl
  | cons a r ih =>
    intro h
    simp only [List.nodup_cons] at h
    simp [allUnique, h.1, ih h.2]

/-- **`verify_batch_update`** with distinct in-range mutated leafs carrying their from-scratch paths, and any
    appended leafs: accepts exactly the from-scratch peaks of the mutated and extended leaf list -/
theorem verify_batch_update_iff_model [BEq D] [LawfulBEq D] (n : Nat) (f : Nat → D) (ms : List (Nat × D))
    (apps np : List D) (hn : n + apps.length < 2 ^ 63) (hnd : (ms.map Prod.fst).Nodup) (hms : ∀ m ∈ ms, m.1 < n) :
    verify_batch_update H { leaf_count := n, peaks := Spec.MmrAcc.peaks H n f } np apps
        (ms.map fun m => { leaf_index := m.1, new_leaf := m.2, auth := (Spec.MmrAcc.authPath H n f m.1).getD [] })
      = some (Spec.MmrAcc.peaks H (n + apps.length)
          (applyUpdates (applyUpdates f ms) (apps.zipIdx.map fun (x, k) => (n + k, x))) == np) := by
  have hmuts : (ms.map fun m => (⟨m.1, m.2, (Spec.MmrAcc.authPath H n f m.1).getD []⟩ : LeafMutation D))
      = mkV H f n ms := by
    unfold mkV
    exact List.map_congr_left fun m hm => by rw [authPath_eq H f n m.1 (hms m hm)]; rfl
  have hidx : (mkV H f n ms).map (·.leaf_index) = ms.map Prod.fst := by
    unfold mkV; simp [List.map_map, Function.comp]
  have hzip : (apps.zipIdx n).map (fun xk => (xk.2, xk.1)) = apps.zipIdx.map fun (x, k) => (n + k, x) := by
    rw [List.zipIdx_eq_map_add, List.map_map]
    rfl
  have hguard : ((({ leaf_count := n, peaks := Spec.MmrAcc.peaks H n f } : Acc D).is_empty
        && !(ms.map Prod.fst).isEmpty) ||
      (!(ms.map Prod.fst).isEmpty && (ms.map Prod.fst).any (· ≥ n))) = false := by
    cases ms with
    | nil => simp
    | cons p rest =>
      have hp := hms p (by simp)
      have hne : (n == 0) = false := by simp; omega
      have hany : (List.map Prod.fst (p :: rest)).any (· ≥ n) = false := by
        rw [List.any_eq_false]
        intro x hx
        obtain ⟨m, hm, rfl⟩ := List.mem_map.mp hx
        have := hms m hm
        simp; omega
      simp only [Acc.is_empty, hne, Bool.false_and, hany, Bool.and_false, Bool.or_false]
  unfold verify_batch_update
  rw [hmuts, hidx, allUnique_of_nodup _ hnd]
  simp only [Bool.not_true, Bool.false_eq_true, if_false, hguard]
  rw [peaks_eq, verifyMutLoop_spec H n (by omega) ms _ f (by unfold mkV; simp) hms]
  simp only [Option.bind_some]
  rw [← peaks_eq, ← applyUpdates_eq, verifyAppendLoop_spec H apps n _ (by omega), hzip]
  rfl

end V
end TF.MmrAccVerify
