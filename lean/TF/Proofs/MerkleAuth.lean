import TF.Proofs.Merkle
/-! sorted sets, and `authIdx = Spec.needed` -/
namespace TF.Merkle
open TF.Gen

theorem mem_insertSet {a x : Nat} : ∀ {l : List Nat}, a ∈ insertSet x l ↔ a = x ∨ a ∈ l
  | [] => by simp [insertSet]
  | y :: ys => by
    unfold insertSet
    split
    · simp
    · split
      · subst_vars; simp
      · simp only [List.mem_cons, mem_insertSet (l := ys)]
        constructor <;> rintro (h|h|h) <;> simp [h]

theorem sorted_insertSet {x : Nat} : ∀ {l : List Nat}, l.Pairwise (· < ·) → (insertSet x l).Pairwise (· < ·)
  | [], _ => by simp [insertSet]
  | y :: ys, h => by
    unfold insertSet
    have ⟨h1, h2⟩ := List.pairwise_cons.1 h
    split
    · refine List.pairwise_cons.2 ⟨?_, h⟩
      intro a ha
      rcases List.mem_cons.1 ha with rfl | ha
      · assumption
      · have := h1 a ha; omega
    · split
      · exact h
      · refine List.pairwise_cons.2 ⟨?_, sorted_insertSet h2⟩
        intro a ha
        rcases mem_insertSet.1 ha with rfl | ha
        · omega
        · exact h1 a ha

theorem mem_toSortedSet {a : Nat} : ∀ {l : List Nat}, a ∈ toSortedSet l ↔ a ∈ l
  | [] => by simp [toSortedSet]
  | x :: xs => by
    have ih := mem_toSortedSet (a := a) (l := xs)
    simp only [toSortedSet, List.foldr_cons] at ih ⊢
    rw [mem_insertSet, ih]; simp

theorem sorted_toSortedSet : ∀ (l : List Nat), (toSortedSet l).Pairwise (· < ·)
  | [] => by simp [toSortedSet]
  | x :: xs => by
    have ih := sorted_toSortedSet xs
    simp only [toSortedSet, List.foldr_cons] at ih ⊢
    exact sorted_insertSet ih

/-- strictly ascending lists are determined by their members -/
theorem sorted_ext : ∀ {l₁ l₂ : List Nat}, l₁.Pairwise (· < ·) → l₂.Pairwise (· < ·) →
    (∀ a, a ∈ l₁ ↔ a ∈ l₂) → l₁ = l₂
  | [], [], _, _, _ => rfl
  | [], b :: _, _, _, h => by have := (h b).2 (List.mem_cons_self ..); cases this
  | a :: _, [], _, _, h => by have := (h a).1 (List.mem_cons_self ..); cases this
  | a :: t₁, b :: t₂, h₁, h₂, h => by
    have ⟨ha, ht₁⟩ := List.pairwise_cons.1 h₁
    have ⟨hb, ht₂⟩ := List.pairwise_cons.1 h₂
    have hab : a = b := by
      have h1 := (h a).1 (List.mem_cons_self ..)
      have h2 := (h b).2 (List.mem_cons_self ..)
      rcases List.mem_cons.1 h1 with e | h1
      · exact e
      · rcases List.mem_cons.1 h2 with e | h2
        · exact e.symm
        · have := hb a h1; have := ha b h2; omega
    subst hab
    congr 1
    apply sorted_ext ht₁ ht₂
    intro x
    constructor
    · intro hx
      have := (h x).1 (List.mem_cons_of_mem _ hx)
      rcases List.mem_cons.1 this with e | h'
      · have := ha x hx; omega
      · exact h'
    · intro hx
      have := (h x).2 (List.mem_cons_of_mem _ hx)
      rcases List.mem_cons.1 this with e | h'
      · have := hb x hx; omega
      · exact h'

/-! ### ancestors -/

/-- the ancestor `j` levels above leaf `i` in a tree of height `h` -/
def anc (h i j : Nat) : Nat := (i + 2^h) / 2^j

theorem two_pow_succ (h : Nat) : 2^(h+1) = 2 * 2^h := by rw [Nat.pow_succ]; omega

theorem anc_zero (h i : Nat) : anc h i 0 = i + 2^h := by simp [anc]
theorem anc_succ (h i j : Nat) : anc h i (j+1) = anc h i j / 2 := by
  simp [anc, Nat.pow_succ, Nat.div_div_eq_div_mul]

/-- the ancestor at level `j` lies in the index range of level `j` -/
theorem anc_range {h i j : Nat} (hi : i < 2^h) (hj : j ≤ h) : 2^(h-j) ≤ anc h i j ∧ anc h i j < 2^(h-j+1) := by
  unfold anc
  have e : 2^h = 2^(h-j) * 2^j := by rw [← Nat.pow_add]; congr 1; omega
  have hp : 0 < 2^j := Nat.two_pow_pos j
  constructor
  · rw [Nat.le_div_iff_mul_le hp]; omega
  · rw [Nat.div_lt_iff_lt_mul hp, two_pow_succ, Nat.mul_assoc, ← e]; omega

theorem anc_top {h i : Nat} (hi : i < 2^h) : anc h i h = 1 := by
  have := anc_range hi (Nat.le_refl h); simp at this; omega

theorem onPath_iff {h i k : Nat} : Spec.onPath h i k = true ↔ ∃ j, j ≤ h ∧ anc h i j = k := by
  simp [Spec.onPath, anc, Nat.lt_succ_iff]

theorem covered_iff {h : Nat} {idxs : List Nat} {k : Nat} :
    Spec.covered h idxs k = true ↔ ∃ i ∈ idxs, ∃ j, j ≤ h ∧ anc h i j = k := by
  simp [Spec.covered, onPath_iff]

theorem two_pow_le_of_le {a b : Nat} (h : a ≤ b) : 2^a ≤ 2^b := Nat.pow_le_pow_right (by omega) h

theorem leaf_add_lt_usize {h i : Nat} (hh : h ≤ 62) (hi : i < 2^h) : i + 2^h < USIZE := by
  have h1 : 2^(h+1) ≤ 2^63 := two_pow_le_of_le (by omega)
  have h2 := two_pow_succ h
  have h3 : (2:Nat)^63 < 2^64 := by decide
  unfold USIZE; omega

/-- the set of computable nodes: all proper-path nodes (levels `0 … h-1`) of the claimed leafs -/
theorem mem_comp {h : Nat} {idxs : List Nat} (hi : ∀ i ∈ idxs, i < 2^h) {k : Nat} :
    k ∈ (idxs.map (· + 2^h)).flatMap nodePath ↔ ∃ i ∈ idxs, ∃ j, j < h ∧ anc h i j = k := by
  simp only [List.mem_flatMap, List.mem_map]
  constructor
  · rintro ⟨x, ⟨i, hi', rfl⟩, hk⟩
    rw [nodePath_eq h (i + 2^h) (by omega) (by have := hi i hi'; have := two_pow_succ h; omega)] at hk
    simp only [List.mem_map, List.mem_range] at hk
    obtain ⟨j, hj, rfl⟩ := hk
    exact ⟨i, hi', j, hj, rfl⟩
  · rintro ⟨i, hi', j, hj, rfl⟩
    refine ⟨i + 2^h, ⟨i, hi', rfl⟩, ?_⟩
    rw [nodePath_eq h (i + 2^h) (by omega) (by have := hi i hi'; have := two_pow_succ h; omega)]
    simp only [List.mem_map, List.mem_range]
    exact ⟨j, hj, rfl⟩

theorem mem_comp_iff_covered {h : Nat} {idxs : List Nat} (hi : ∀ i ∈ idxs, i < 2^h) {k : Nat} :
    k ∈ (idxs.map (· + 2^h)).flatMap nodePath ↔ (Spec.covered h idxs k = true ∧ 2 ≤ k) := by
  rw [mem_comp hi, covered_iff]
  constructor
  · rintro ⟨i, hi', j, hj, rfl⟩
    refine ⟨⟨i, hi', j, by omega, rfl⟩, ?_⟩
    have := (anc_range (hi i hi') (show j ≤ h by omega)).1
    have : 2^1 ≤ 2^(h-j) := two_pow_le_of_le (by omega)
    omega
  · rintro ⟨⟨i, hi', j, hj, rfl⟩, h2⟩
    refine ⟨i, hi', j, ?_, rfl⟩
    rcases Nat.lt_or_eq_of_le hj with h' | rfl
    · exact h'
    · rw [anc_top (hi i hi')] at h2; omega

theorem covered_lt {h : Nat} {idxs : List Nat} (hi : ∀ i ∈ idxs, i < 2^h) {k : Nat}
    (hc : Spec.covered h idxs k = true) : k < 2^(h+1) := by
  obtain ⟨i, hi', j, hj, rfl⟩ := covered_iff.1 hc
  have := (anc_range (hi i hi') hj).2
  have : 2^(h-j+1) ≤ 2^(h+1) := two_pow_le_of_le (by omega)
  omega

theorem sib_lt_two_pow {h k : Nat} (hk : sib k < 2^(h+1)) (h2 : 2 ≤ k) : k < 2^(h+1) := by
  have := two_pow_succ h
  unfold sib at hk
  split at hk <;> omega

/-- membership in the model's `needed ∖ computable` -/
theorem mem_authSet {h : Nat} {idxs : List Nat} (hi : ∀ i ∈ idxs, i < 2^h) {k : Nat} :
    k ∈ (((idxs.map (· + 2^h)).flatMap nodePath).map (· ^^^ 1)).filter
          (fun k => !((idxs.map (· + 2^h)).flatMap nodePath).contains k) ↔
      (k < 2^(h+1) ∧ 2 ≤ k ∧ Spec.covered h idxs k = false ∧ Spec.covered h idxs (sib k) = true) := by
  generalize hcomp : (idxs.map (· + 2^h)).flatMap nodePath = comp
  simp only [List.mem_filter, List.mem_map, Bool.not_eq_true', List.contains_eq_mem, decide_eq_false_iff_not,
    xor_one_eq_sib]
  have hc : ∀ x, x ∈ comp ↔ (Spec.covered h idxs x = true ∧ 2 ≤ x) := fun x => by
    rw [← hcomp]; exact mem_comp_iff_covered hi
  constructor
  · rintro ⟨⟨c, hc1, rfl⟩, hk⟩
    have ⟨hcov, hc2⟩ := (hc c).1 hc1
    have h2 : 2 ≤ sib c := two_le_sib.2 hc2
    refine ⟨?_, h2, ?_, by rw [sib_sib]; exact hcov⟩
    · exact sib_lt_two_pow (by rw [sib_sib]; exact covered_lt hi hcov) h2
    · cases hcv : Spec.covered h idxs (sib c)
      · rfl
      · exact absurd ((hc _).2 ⟨hcv, h2⟩) hk
  · rintro ⟨_, h2, hn, hs⟩
    refine ⟨⟨sib k, (hc _).2 ⟨hs, two_le_sib.2 h2⟩, sib_sib k⟩, ?_⟩
    intro hm
    have := ((hc k).1 hm).1
    rw [hn] at this; cases this

/-- **the authentication structure is the documented minimal node set**: `needed ∖ computable`, descending,
    without repetition -/
theorem authIdx_eq_needed {h : Nat} {idxs : List Nat} (hh : h ≤ 62) (hi : ∀ i ∈ idxs, i < 2^h) :
    authIdx (2^h) idxs = .ok (Spec.needed h idxs) := by
  unfold authIdx
  have hm : Res.mapM (fun i => if i ≥ 2^h then Res.err Err.leafIndexInvalid else cadd i (2^h)) idxs
      = .ok (idxs.map (· + 2^h)) := by
    apply Res.mapM_ok
    intro i hi'
    have h1 := hi i hi'
    have h2 := leaf_add_lt_usize hh h1
    simp [cadd, h2, Nat.not_le.2 h1]
  rw [hm]
  simp only [Res.ok_bind]
  congr 1
  unfold Spec.needed
  rw [List.filter_reverse]
  congr 1
  apply sorted_ext (sorted_toSortedSet _) (List.Pairwise.filter _ List.pairwise_lt_range)
  intro k
  rw [mem_toSortedSet, mem_authSet hi]
  simp only [List.mem_filter, List.mem_range, Bool.and_eq_true, decide_eq_true_eq, Bool.not_eq_true']
  constructor
  · rintro ⟨a, b, c, d⟩; exact ⟨a, ⟨b, c⟩, d⟩
  · rintro ⟨a, ⟨b, c⟩, d⟩; exact ⟨a, b, c, d⟩

theorem authIdx_err {n : Nat} {idxs : List Nat} (hn : n ≤ 2^63) (hbad : ∃ i ∈ idxs, n ≤ i) :
    authIdx n idxs = .err .leafIndexInvalid := by
  unfold authIdx
  have : Res.mapM (fun i => if i ≥ n then Res.err Err.leafIndexInvalid else cadd i n) idxs = .err .leafIndexInvalid := by
    apply Res.mapM_err
    · intro i _
      by_cases h : i ≥ n
      · left; simp [h]
      · right
        have : i + n < USIZE := by
          have : (2:Nat)^63 + 2^63 = 2^64 := by decide
          unfold USIZE; omega
        exact ⟨i + n, by simp [h, cadd, this]⟩
    · obtain ⟨i, hi, hle⟩ := hbad
      exact ⟨i, hi, by simp [hle]⟩
  rw [this]; rfl

end TF.Merkle
