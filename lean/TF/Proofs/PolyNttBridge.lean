import TF.Model.PolyNtt
import TF.Proofs.PolySpecNtt
import TF.Proofs.NttFinal
import TF.Proofs.PolyMulHom
/-!
Bridge between property C06 (the executable model of the Rust in-place NTT, `TF/Model/Ntt.lean`) and property C07
(NTT-based polynomial products, `TF/Model/PolyMul.lean`, proved correct for every transform with `TransformSpec`):

* `nttTransform_spec` — over every field `K`, the model NTT run with the ring operations of `K` and a root table with
  `RootOK` is an evaluation / interpolation pair (`TransformSpec`) at the points `pts n i = ω_n^i`;
* `zRoot_ok`, `bfieldRoot_ok` — `RootOK` for the translated table `PRIMITIVE_ROOTS` read in `ZMod P` (both look-up
  functions: `TF.Model.Ntt.primitiveRoot` and `bfieldOps.rootOfUnity`, which agree);
* `zNtt_spec` — the base-field instance: `TransformSpec (nttTransform zOps zRoot) (rootPts zRoot)`;
* `bNtt_cast` — the transform the driver runs on canonical values (`bNtt`) commutes with `Nat.cast : ℕ → ZMod P`.
-/
open Polynomial Finset

namespace TF.Model.Poly
open TF.Model.Ntt TF.NttFn TF.NttProofs TF.Gen TF.Model.Poly.Hom

/-! ### the model NTT over an arbitrary field -/
section Generic
variable {K : Type} [Field K]

/-- what the transforms need from `inverse` / `inverse_or_zero` -/
structure InvOK (inv : K → Option K) (inv0 : K → K) : Prop where
  inv_mul : ∀ a b, inv a = some b → b * a = 1
  inv0_mul : ∀ L, L ≤ 31 → inv0 ((2^L : ℕ) : K) * ((2^L : ℕ) : K) = 1

variable (inv : K → Option K) (inv0 : K → K) (root : Nat → Option K)

theorem toFn_toArray (xs : List K) (i : Nat) : toFn xs.toArray i = xs.getD i 0 := by
  simp [toFn, Array.getD_eq_getD_getElem?, List.getD_eq_getElem?_getD]

/-- the DFT of a coefficient vector is the evaluation of the denoted polynomial at the powers of `ω` -/
theorem dft_eq_eval (xs : List K) (n : Nat) (hn : xs.length = n) (ω : K) (i : Nat) :
    dft n ω (toFn xs.toArray) i = (denote xs).eval (ω ^ i) := by
  rw [eval_denote_sum, hn]
  unfold dft
  apply Finset.sum_congr rfl
  intro j _
  rw [toFn_toArray, ← pow_mul, mul_comm i j]

theorem ntt_empty {σ α : Type} (ops : Ops σ α) (rt : Nat → Option σ) :
    TF.Model.Ntt.ntt ops rt #[] = (rt 0).map (fun _ => #[]) := by
  cases h : rt 0 <;> simp [TF.Model.Ntt.ntt, h, nttUnchecked, bitrevPermute, swapLoop, stagesLoop]

theorem intt_empty_some {σ α : Type} (ops : Ops σ α) (rt : Nat → Option σ) (z : Array α)
    (h : TF.Model.Ntt.intt ops rt #[] = some z) : z = #[] := by
  cases hr : rt 0 with
  | none => simp [TF.Model.Ntt.intt, hr] at h
  | some w =>
    cases hi : ops.sinv w with
    | none => simp [TF.Model.Ntt.intt, hr, hi] at h
    | some wi =>
      simp [TF.Model.Ntt.intt, hr, hi, nttUnchecked, bitrevPermute, swapLoop, stagesLoop] at h
      exact h

theorem intt_some_inv {σ α : Type} (ops : Ops σ α) (rt : Nat → Option σ) (x y : Array α) (L : Nat) (hL : L ≤ 31)
    (hx : x.size = 2^L) (ω : σ) (hr : rt (2^L) = some ω) (h : TF.Model.Ntt.intt ops rt x = some y) :
    ∃ ωi, ops.sinv ω = some ωi := by
  cases hi : ops.sinv ω with
  | some wi => exact ⟨wi, rfl⟩
  | none =>
    exfalso
    have hlt : ¬ 2^32 ≤ x.size := by
      rw [hx]; have := Nat.pow_le_pow_right (by norm_num : 0 < 2) hL; omega
    unfold TF.Model.Ntt.intt at h
    rw [if_neg hlt] at h
    simp only [hx, isPow2_two_pow, hr, hi] at h
    simp at h

/-- shape of a successful `ntt` of the model over the ring operations of `K` -/
theorem modelNtt_some (hroot : RootOK root) (x y : Array K)
    (h : TF.Model.Ntt.ntt (ringOps K inv inv0) root x = some y) :
    (x = #[] ∧ y = #[]) ∨
    ∃ L ω, L ≤ 31 ∧ x.size = 2^L ∧ root (2^L) = some ω ∧ (0 < L → ω^(2^(L-1)) = -1) ∧ y.size = 2^L ∧
      ∀ i, i < 2^L → toFn y i = dft (2^L) ω (toFn x) i := by
  by_cases hs : x.size = 0 ∨ ∃ k, k ≤ 31 ∧ x.size = 2^k
  · rcases hs with h0 | ⟨L, hL, hx⟩
    · left
      have hx : x = #[] := Array.eq_empty_of_size_eq_zero h0
      subst hx
      rw [ntt_empty] at h
      cases hr : root 0 with
      | none => simp [hr] at h
      | some w => simp [hr] at h; exact ⟨rfl, h⟩
    · right
      cases hr : root (2^L) with
      | none =>
        exfalso
        have hlt : ¬ 2^32 ≤ x.size := by
          rw [hx]; have := Nat.pow_le_pow_right (by norm_num : 0 < 2) hL; omega
        unfold TF.Model.Ntt.ntt at h
        rw [if_neg hlt] at h
        simp only [hx, isPow2_two_pow, hr] at h
        simp at h
      | some ω =>
        have hω : 0 < L → ω^(2^(L-1)) = -1 := hw_of_rootOK root hroot L ω hr
        obtain ⟨y', hy', hys, hyi⟩ := ntt_eq_dft_model inv inv0 root L hL ω hr hω x hx
        rw [hy'] at h
        cases h
        exact ⟨L, ω, hL, hx, hr, hω, hys, hyi⟩
  · rw [(ntt_rejects _ root x hs).1] at h; cases h

theorem toList_eq_map_range (y : Array K) (n : Nat) (hn : y.size = n) (g : Nat → K)
    (h : ∀ i, i < n → toFn y i = g i) : y.toList = (List.range n).map g := by
  apply List.ext_getElem
  · simp [hn]
  · intro i h1 h2
    have hi : i < n := by simpa [hn] using h1
    have := h i hi
    simp only [toFn, Array.getD_eq_getD_getElem?] at this
    rw [Array.getElem?_eq_getElem (by omega)] at this
    simpa using this

/-- **the model of the Rust in-place NTT, run with the operations of a field, is an evaluation / interpolation pair**
    at the powers of the tabulated roots -/
theorem nttTransform_spec (hI : InvOK inv inv0) (hroot : RootOK root) :
    TransformSpec (nttTransform (ringOps K inv inv0) root) (rootPts root) where
  ntt_eval := by
    intro xs ys h
    obtain ⟨y, hy, rfl⟩ := Option.map_eq_some_iff.1 h
    rcases modelNtt_some inv inv0 root hroot _ y hy with ⟨hx, rfl⟩ | ⟨L, ω, hL, hx, hr, hω, hys, hyi⟩
    · have : xs = [] := by simpa using hx
      subst this; simp
    · have hlen : xs.length = 2^L := by simpa using hx
      rw [toList_eq_map_range y (2^L) hys _ hyi, hlen]
      apply List.map_congr_left
      intro i _
      rw [dft_eq_eval xs (2^L) hlen, rootPts, hr]
  ntt_some_of_length := by
    intro xs ys xs' h hl
    obtain ⟨y, hy, rfl⟩ := Option.map_eq_some_iff.1 h
    rcases modelNtt_some inv inv0 root hroot _ y hy with ⟨hx, rfl⟩ | ⟨L, ω, hL, hx, hr, hω, hys, hyi⟩
    · have : xs = [] := by simpa using hx
      subst this
      have : xs' = [] := List.length_eq_zero_iff.1 (by simpa using hl)
      subst this
      exact ⟨_, h⟩
    · have hlen : xs'.toArray.size = 2^L := by
        have : xs.length = 2^L := by simpa using hx
        simp [hl, this]
      obtain ⟨y', hy', _, _⟩ := ntt_eq_dft_model inv inv0 root L hL ω hr hω xs'.toArray hlen
      exact ⟨y'.toList, by simp [nttTransform, hy']⟩
  intt_ntt := by
    intro xs ys zs h hz
    obtain ⟨y, hy, rfl⟩ := Option.map_eq_some_iff.1 h
    obtain ⟨z, hz', rfl⟩ := Option.map_eq_some_iff.1 hz
    simp only [Array.toArray_toList] at hz'
    rcases modelNtt_some inv inv0 root hroot _ y hy with ⟨hx, rfl⟩ | ⟨L, ω, hL, hx, hr, hω, hys, hyi⟩
    · have : xs = [] := by simpa using hx
      subst this
      rw [intt_empty_some _ _ z hz']
    · obtain ⟨ωi, hi⟩ := intt_some_inv _ root y z L hL hys ω hr hz'
      obtain ⟨y', hy', hz''⟩ := intt_ntt_model inv inv0 root L hL ω ωi hr hi (hI.inv_mul _ _ hi)
        (hI.inv0_mul L hL) hω xs.toArray hx
      rw [hy] at hy'
      cases hy'
      rw [hz'] at hz''
      cases hz''
      simp

/-- the model NTT over a field is defined on every length `2^L`, `L ≤ 31`, for which the table has an invertible root -/
theorem nttTransform_definedAt (hroot : RootOK root) (L : Nat) (hL : L ≤ 31) (ω ωi : K)
    (hr : root (2^L) = some ω) (hi : inv ω = some ωi) (hinv : ωi * ω = 1) :
    DefinedAt (nttTransform (ringOps K inv inv0) root) (2^L) := by
  have hω : 0 < L → ω^(2^(L-1)) = -1 := hw_of_rootOK root hroot L ω hr
  constructor
  · intro xs hx
    obtain ⟨y, hy, hys, _⟩ := ntt_eq_dft_model inv inv0 root L hL ω hr hω xs.toArray (by simpa using hx)
    exact ⟨y.toList, by simp [nttTransform, hy], by simpa using hys⟩
  · intro xs hx
    obtain ⟨y, hy, hys, _⟩ := intt_eq_dft_model inv inv0 root L hL ω ωi hr hi hinv hω xs.toArray (by simpa using hx)
    exact ⟨y.toList, by simp [nttTransform, hy], by simpa using hys⟩

end Generic

/-! ### operands over different fields, arbitrary transforms that correspond along the embeddings -/
section MixedT
variable {K K₁ K₂ : Type} [Field K] [Field K₁] [Field K₂]
variable (root : Nat → Option K) (root₁ : Nat → Option K₁) (root₂ : Nat → Option K₂)

/-- `fast_multiply<FF2>` with each operand transformed over its own field is the same-field `fast_multiply` on the
    embedded operands, whenever the transforms correspond along the embeddings (generalises `fastMultiplyG_eq` from
    `specTransform` to any transforms) -/
theorem fastMultiplyG_eq_of_hom (φ₁ : K₁ →+* K) (φ₂ : K₂ →+* K) (T1 : Transform K₁) (T2 : Transform K₂) (T : Transform K)
    (h1 : ∀ xs, (T1.ntt xs).map (List.map φ₁) = T.ntt (xs.map φ₁))
    (h2 : ∀ xs, (T2.ntt xs).map (List.map φ₂) = T.ntt (xs.map φ₂)) (a : List K₁) (b : List K₂) :
    fastMultiplyG (FieldOps.ofField K₁ root₁) (FieldOps.ofField K₂ root₂) (fun x y => φ₁ x * φ₂ y) T1 T2 T a b
      = fastMultiply (FieldOps.ofField K root) T (a.map φ₁) (b.map φ₂) := by
  unfold fastMultiply fastMultiplyG
  simp only [FieldOps.ofField_zero, degree_map root root₁ φ₁ a, degree_map root root₂ φ₂ b, resize_map, ← h1, ← h2]
  split
  · rfl
  · cases T1.ntt (resize a _ 0) with
    | none => rfl
    | some l =>
      cases T2.ntt (resize b _ 0) with
      | none => rfl
      | some r =>
        simp only [Option.map_some, Option.bind_eq_bind, Option.bind_some, FieldOps.ofField_mul_fn, List.zipWith_map]

theorem multiplyG_eq_of_hom (φ₁ : K₁ →+* K) (φ₂ : K₂ →+* K) (T1 : Transform K₁) (T2 : Transform K₂) (T : Transform K)
    (h1 : ∀ xs, (T1.ntt xs).map (List.map φ₁) = T.ntt (xs.map φ₁))
    (h2 : ∀ xs, (T2.ntt xs).map (List.map φ₂) = T.ntt (xs.map φ₂)) (threshold : Int) (a : List K₁) (b : List K₂) :
    multiplyG (FieldOps.ofField K₁ root₁) (FieldOps.ofField K₂ root₂) (FieldOps.ofField K root)
        (fun x y => φ₁ x * φ₂ y) threshold T1 T2 T a b
      = multiply (FieldOps.ofField K root) threshold T (a.map φ₁) (b.map φ₂) := by
  have hf := fastMultiplyG_eq_of_hom root root₁ root₂ φ₁ φ₂ T1 T2 T h1 h2 a b
  have hn := naiveMultiplyG_eq root φ₁ φ₂ root₁ root₂ a b
  unfold multiply multiplyG
  unfold fastMultiply at hf
  unfold naiveMultiply at hn
  rw [degree_map root root₁ φ₁ a, degree_map root root₂ φ₂ b, hf, hn]

end MixedT

/-! ### the base field: `ZMod P`, the translated table `PRIMITIVE_ROOTS` -/
section Base

/-- **`RootOK` for the translated table**: the root `TF.Model.Ntt.primitiveRoot` returns for a length `2^(k+1)`,
    read in `ZMod P`, has `2^k`-th power `-1` (from C06's `table_entries`, decided over the whole table) -/
theorem zRoot_ok : RootOK zRoot := by
  intro k w h
  simp only [zRoot, Option.map_eq_some_iff] at h
  obtain ⟨r, hr, rfl⟩ := h
  rcases table_entries _ r (primitiveRoot_mem _ r hr) with ⟨h0, _⟩ | ⟨j, _, hj, _, hp⟩
  · exact absurd h0 (by positivity)
  · have hjk : k + 1 = j := Nat.pow_right_injective (le_refl 2) hj
    subst hjk
    simp only [Nat.add_eq_zero_iff, one_ne_zero, and_false, if_false, Nat.add_sub_cancel] at hp
    exact cast_pow_eq_neg_one r _ hp

theorem rootTable_eq_find (l : List (Nat × Nat)) (n : Nat) :
    rootTable l n = (l.find? (fun e => e.1 == n)).map (·.2) := by
  induction l with
  | nil => rfl
  | cons hd tl ih =>
    obtain ⟨k, v⟩ := hd
    simp only [rootTable, List.find?_cons]
    by_cases hk : (k == n) = true
    · simp [hk]
    · simp only [hk, if_false]; rw [ih]; simp [hk]

theorem table_keys_small : ∀ e ∈ PRIMITIVE_ROOTS, e.1 < 2^64 := by decide

/-- the two look-up functions of the models (C06: `primitiveRoot`, C07: `bfieldOps.rootOfUnity`) agree -/
theorem bfieldRoot_eq (n : Nat) : TF.bfieldOps.rootOfUnity n = primitiveRoot n := by
  show (PRIMITIVE_ROOTS.find? (fun e => e.1 == n)).map (·.2) = primitiveRoot n
  unfold primitiveRoot
  split
  · next hbig =>
    have : PRIMITIVE_ROOTS.find? (fun e => e.1 == n) = none := by
      rw [List.find?_eq_none]
      intro e he
      have := table_keys_small e he
      simp only [beq_iff_eq]
      omega
    rw [this]; rfl
  · exact (rootTable_eq_find _ _).symm

/-- `RootOK` for `bfieldOps.rootOfUnity` read in `ZMod P` -/
theorem bfieldRoot_ok : RootOK (fun n => (TF.bfieldOps.rootOfUnity n).map (fun r : Nat => (r : ZMod P))) := by
  have : (fun n => (TF.bfieldOps.rootOfUnity n).map (fun r : Nat => (r : ZMod P))) = zRoot := by
    funext n; rw [bfieldRoot_eq]; rfl
  rw [this]; exact zRoot_ok

theorem zInvOK : InvOK zinv zinv0 where
  inv_mul := by
    intro a b h
    unfold zinv at h
    split at h
    · cases h
    · next hne => cases h; exact inv_mul_cancel₀ hne
  inv0_mul := fun L hL => inv_mul_cancel₀ (two_pow_cast_ne_zero L (by omega))

/-- the model NTT over `ZMod P` with the translated root table -/
noncomputable def zNtt : Transform (ZMod P) := nttTransform zOps zRoot

/-- **`TransformSpec` for the model of the Rust NTT over the base field**, evaluation points `pts n i = ω_n^i` with
    `ω_n` the tabulated primitive root — no hypothesis left -/
theorem zNtt_spec : TransformSpec zNtt (rootPts zRoot) := nttTransform_spec zinv zinv0 zRoot zInvOK zRoot_ok

/-- the transform on canonical values (what the driver runs) commutes with `Nat.cast : ℕ → ZMod P` -/
theorem bNtt_cast (xs : List Nat) :
    (bNtt.ntt xs).map (List.map (fun n : Nat => (n : ZMod P))) = zNtt.ntt (xs.map (fun n : Nat => (n : ZMod P))) ∧
    (bNtt.intt xs).map (List.map (fun n : Nat => (n : ZMod P))) = zNtt.intt (xs.map (fun n : Nat => (n : ZMod P))) := by
  have h1 := ntt_map castHom primitiveRoot xs.toArray
  have h2 := intt_map castHom primitiveRoot xs.toArray
  change _ = TF.Model.Ntt.ntt zOps zRoot _ at h1
  change _ = TF.Model.Ntt.intt zOps zRoot _ at h2
  constructor
  · simp only [bNtt, zNtt, nttTransform, ← List.map_toArray, ← h1, Option.map_map]
    congr 1; funext y; simp
  · simp only [bNtt, zNtt, nttTransform, ← List.map_toArray, ← h2, Option.map_map]
    congr 1; funext y; simp

/-- `bNtt.intt` returns canonical values -/
theorem bNtt_intt_canon (xs ys : List Nat) (h : bNtt.intt xs = some ys) : ∀ y ∈ ys, y < P := by
  obtain ⟨z, hz, rfl⟩ := Option.map_eq_some_iff.1 h
  obtain ⟨c, w, rfl⟩ := intt_some_form _ _ _ _ hz
  intro y hy
  simp only [Array.toList_map, List.mem_map] at hy
  obtain ⟨a, _, rfl⟩ := hy
  exact Nat.mod_lt _ P_pos

/-! ### canonical values versus `ZMod P`: the records the driver runs correspond under `Nat.cast` -/

/-- `Nat.cast : ℕ → ZMod P` -/
noncomputable def zc : Nat → ZMod P := fun n => (n : ZMod P)

/-- the operation record of `ZMod P` (root look-up = the translated table) -/
noncomputable abbrev FZ : FieldOps (ZMod P) := FieldOps.ofField (ZMod P) zRoot

/-- `bfieldOps` (integer arithmetic modulo `P` on naturals) corresponds to the field operations of `ZMod P` -/
theorem bfield_opsMap : OpsMap TF.bfieldOps FZ zc (fun a => a < P) where
  zero := by simp [zc, FZ, TF.bfieldOps]
  one := by simp [zc, FZ, TF.bfieldOps]
  add := fun a b => by simp [zc, FZ, TF.bfieldOps, cast_fadd]
  sub := fun a b => by simp [zc, FZ, TF.bfieldOps, cast_fsub]
  mul := fun a b => by simp [zc, FZ, TF.bfieldOps, cast_fmul]
  isZero := by
    intro a ha
    rw [Bool.eq_iff_iff, FZ, FieldOps.ofField_isZero]
    simp only [TF.bfieldOps, beq_iff_eq, zc]
    rw [cast_eq_zero_iff, Nat.mod_eq_of_lt ha]
  ok_zero := P_pos
  ok_one := by decide
  ok_add := fun a b => Nat.mod_lt _ P_pos
  ok_sub := fun a b => Nat.mod_lt _ P_pos
  ok_mul := fun a b => Nat.mod_lt _ P_pos

/-- the transform on canonical values corresponds to the transform over `ZMod P` -/
theorem bNtt_transMap : TransMap bNtt zNtt zc (fun a => a < P) where
  ntt := fun xs => (bNtt_cast xs).1
  intt := fun xs => (bNtt_cast xs).2
  ok_intt := bNtt_intt_canon

/-- the transform on canonical values is defined on every length `2^L`, `L ≤ 31` (C06: `ntt_b_is_dft`,
    `intt_b_is_inverse_dft`), and preserves the length -/
theorem bNtt_definedAt (L : Nat) (hL : L ≤ 31) : DefinedAt bNtt (2^L) := by
  constructor
  · intro xs hx
    obtain ⟨r, y, _, hy, hys, _⟩ := ntt_b_eq_dft L hL xs.toArray (by simpa using hx)
    exact ⟨y.toList, by simp [bNtt, nttTransform, hy], by simpa using hys⟩
  · intro xs hx
    obtain ⟨r, y, _, hy, hys, _⟩ := intt_b_eq_dft L hL xs.toArray (by simpa using hx)
    exact ⟨y.toList, by simp [bNtt, nttTransform, hy], by simpa using hys⟩

theorem nextPowerOfTwo_le_pow (n L : Nat) (h : nextPowerOfTwo n ≤ 2^L) : ∃ k, k ≤ L ∧ nextPowerOfTwo n = 2^k := by
  obtain ⟨k, hk⟩ := nextPowerOfTwo_isPow n
  refine ⟨k, ?_, hk⟩
  rw [hk] at h
  exact (Nat.pow_le_pow_iff_right (by norm_num)).1 h

end Base

end TF.Model.Poly
