import TF.Proofs.MmrTree
/-!
# C16, part 3: S0 = S1 — the explicit forest consists of S1 trees, and every MMR below `2^63` leaves is a prefix of
`tree 0 0 63`: each of its trees hangs in `tree 0 0 63` as a left child, with the same table.
-/
namespace TF.Mmr
open TF TF.Gen TF.Spec.Mmr TF.Model.Mmr

/-! ## S0 = S1: the forest built by appending and merging consists of S1 trees -/

/-- number of nodes of an MMR with `m` leaves -/
def nodesOf (m : Nat) : Nat := 2 * m - popCount m

/-- the trees (most recent = lowest first) of the MMR with `q * 2^h` leaves: one S1 tree of height `h + j` for
    every set bit `j` of `q`, placed after the nodes / leaves of the trees for the higher bits -/
def highTrees : (h : Nat) → (q : Nat) → List TF.Spec.Mmr.Tree
  | _, 0 => []
  | h, q+1 =>
    (if (q+1) % 2 = 1 then [tree (nodesOf (q * 2^h)) (q * 2^h) h] else []) ++ highTrees (h+1) ((q+1)/2)
decreasing_by omega

theorem popCount_two_mul (m : Nat) : popCount (2 * m) = popCount m := by
  rw [popCount_eq (2*m)]
  have : 2 * m / 2 = m := by omega
  rw [this]; omega

theorem popCount_two_mul_add_one (m : Nat) : popCount (2 * m + 1) = popCount m + 1 := by
  rw [popCount_eq (2*m+1)]
  have : (2 * m + 1) / 2 = m := by omega
  rw [this]; omega

theorem popCount_mul_two_pow (m h : Nat) : popCount (m * 2^h) = popCount m := by
  induction h with
  | zero => simp
  | succ h ih =>
    have : m * 2^(h+1) = 2 * (m * 2^h) := by rw [Nat.pow_succ]; ring
    rw [this, popCount_two_mul, ih]

theorem nodesOf_odd (a h : Nat) : nodesOf ((2*a+1) * 2^h) = nodesOf (2*a * 2^h) + 2^(h+1) - 1 := by
  unfold nodesOf
  rw [popCount_mul_two_pow, popCount_mul_two_pow, popCount_two_mul, popCount_two_mul_add_one]
  have h1 : (2*a+1) * 2^h = 2*a*2^h + 2^h := by ring
  have h2 := two_pow_succ' h
  have h3 := popCount_le a
  have h4 : a ≤ 2 * a * 2^h := by
    have := Nat.two_pow_pos h
    nlinarith
  have hpos := Nat.two_pow_pos h
  rw [h1]; omega

theorem highTrees_zero (h : Nat) : highTrees h 0 = [] := by unfold highTrees; rfl

theorem highTrees_odd (h a : Nat) :
    highTrees h (2*a+1) = tree (nodesOf (2*a * 2^h)) (2*a * 2^h) h :: highTrees (h+1) a := by
  rw [highTrees]
  have e1 : (2*a+1) % 2 = 1 := by omega
  have e2 : (2*a+1)/2 = a := by omega
  simp only [e1, e2, if_true, List.singleton_append]

theorem highTrees_even (h a : Nat) (ha : 0 < a) : highTrees h (2*a) = highTrees (h+1) a := by
  obtain ⟨b, rfl⟩ : ∃ b, a = b + 1 := ⟨a - 1, by omega⟩
  have e : 2 * (b+1) = (2*b+1) + 1 := by ring
  rw [e, highTrees]
  have e1 : ¬ ((2*b+1+1) % 2 = 1) := by omega
  have e2 : (2*b+1+1)/2 = b+1 := by omega
  simp only [e1, e2, if_false, List.nil_append]

/-- all trees of `highTrees h q` are at least `h` high -/
theorem highTrees_height (q : Nat) : ∀ h, ∀ t ∈ highTrees h q, h ≤ t.height := by
  induction q using Nat.strongRecOn with
  | _ q ih =>
    intro h t ht
    rcases Nat.even_or_odd' q with ⟨a, rfl | rfl⟩
    · by_cases ha : a = 0
      · subst ha; exact absurd ht (by simp [highTrees_zero])
      · rw [highTrees_even h a (by omega)] at ht
        have := ih a (by omega) (h+1) t ht; omega
    · rw [highTrees_odd] at ht
      rcases List.mem_cons.mp ht with rfl | ht
      · rw [tree_height]
      · have := ih a (by omega) (h+1) t ht; omega

/-- appending a tree of height `h` after `q * 2^h` leaves and merging (the carry chain of `q + 1`) -/
theorem mergeInto_highTrees (q : Nat) : ∀ h,
    mergeInto (tree (nodesOf (q * 2^h)) (q * 2^h) h) (nodesOf (q * 2^h) + 2^(h+1) - 1) (highTrees h q)
      = (highTrees h (q+1), nodesOf ((q+1) * 2^h)) := by
  induction q using Nat.strongRecOn with
  | _ q ih =>
    intro h
    rcases Nat.even_or_odd' q with ⟨a, rfl | rfl⟩
    · -- even: no merge
      have hres : highTrees h (2*a+1) = tree (nodesOf (2*a * 2^h)) (2*a * 2^h) h :: highTrees (h+1) a :=
        highTrees_odd h a
      have hn := nodesOf_odd a h
      by_cases ha : a = 0
      · subst ha
        rw [highTrees_zero] at hres
        rw [highTrees_zero, hres, hn]
        rfl
      · rw [highTrees_even h a (by omega), hres, hn]
        cases hl : highTrees (h+1) a with
        | nil => rfl
        | cons t1 rest =>
          have hh := highTrees_height a (h+1) t1 (by rw [hl]; exact List.mem_cons_self)
          unfold mergeInto
          rw [tree_height, if_neg (by omega)]
    · -- odd: merge with the tree of the same height, continue one level up
      rw [highTrees_odd]
      unfold mergeInto
      rw [tree_height, tree_height, if_pos rfl]
      have hn := nodesOf_odd a h
      have e1 : (2*a+1) * 2^h = (2*a) * 2^h + 2^h := by ring
      have e2 : 2*a * 2^h = a * 2^(h+1) := by rw [Nat.pow_succ]; ring
      have hp1 := two_pow_succ' h
      have hp2 : 2^(h+2) = 2 * 2^(h+1) := two_pow_succ' (h+1)
      have hpos := Nat.two_pow_pos h
      have hnode : TF.Spec.Mmr.Tree.node (nodesOf ((2*a+1) * 2^h) + 2^(h+1) - 1 + 1)
          (tree (nodesOf (2*a * 2^h)) (2*a * 2^h) h) (tree (nodesOf ((2*a+1) * 2^h)) ((2*a+1) * 2^h) h)
          = tree (nodesOf (a * 2^(h+1))) (a * 2^(h+1)) (h+1) := by
        rw [← e2]
        show _ = TF.Spec.Mmr.Tree.node _ _ _
        have i1 : nodesOf ((2*a+1) * 2^h) + 2^(h+1) - 1 + 1 = nodesOf (2*a * 2^h) + 2^(h+2) - 1 := by omega
        have i2 : nodesOf ((2*a+1) * 2^h) = nodesOf (2*a * 2^h) + 2^(h+1) - 1 := hn
        have i3 : (2*a+1) * 2^h = 2*a * 2^h + 2^h := e1
        rw [i1, i2, i3]
      have hcnt : nodesOf ((2*a+1) * 2^h) + 2^(h+1) - 1 + 1 = nodesOf (a * 2^(h+1)) + 2^(h+1+1) - 1 := by
        rw [← e2]; have : 2^(h+1+1) = 2 * 2^(h+1) := two_pow_succ' (h+1)
        omega
      rw [hnode, hcnt, ih a (by omega) (h+1)]
      have e3 : 2*a+1+1 = 2*(a+1) := by ring
      have e4 : (a+1) * 2^(h+1) = (2*a+1+1) * 2^h := by rw [Nat.pow_succ]; ring
      rw [e3, highTrees_even h (a+1) (by omega), ← e3, e4]

/-- **S0 = S1**: the forest built by appending `n` leaves and merging equal heights consists of the S1 trees for the
    set bits of `n`; it has `2n − popcount n` nodes -/
theorem forest_eq (n : Nat) : forest n = { trees := highTrees 0 n, nodes := nodesOf n, leafs := n } := by
  induction n with
  | zero => simp [forest, highTrees_zero, nodesOf, popCount_zero]
  | succ n ih =>
    have hm := mergeInto_highTrees n 0
    simp only [Nat.pow_zero, Nat.mul_one, Nat.zero_add, Nat.pow_one] at hm
    have e : nodesOf n + 2 - 1 = nodesOf n + 1 := by omega
    rw [e] at hm
    rw [forest, ih]
    unfold Forest.append
    simp only
    have ht : TF.Spec.Mmr.Tree.leaf (nodesOf n + 1) n = tree (nodesOf n) n 0 := rfl
    rw [ht, hm]

/-! ## the table of a tree does not depend on where the tree hangs (except `mt`, `auth`, and parent/sibling of its root) -/

/-- same node: index, height, right-lineage length, children, leaf index; parent and sibling unless it is the node `R` -/
structure CoreEq (R : Nat) (r r' : Row) : Prop where
  idx : r.idx = r'.idx
  height : r.height = r'.height
  rll : r.rll = r'.rll
  left : r.left = r'.left
  right : r.right = r'.right
  leaf : r.leaf = r'.leaf
  up : r.idx ≠ R → r.parent = r'.parent ∧ r.sibling = r'.sibling

/-- changing only the Merkle-tree index and the path of the subtree root changes only `mt` and `auth` -/
theorem rows_mt_auth_irrelevant : ∀ (h o l p s : Nat) (isR : Bool) (rp mt mt' : Nat) (auth auth' : List Nat),
    ∀ r ∈ (tree o l h).rows p s isR rp mt auth, ∃ r' ∈ (tree o l h).rows p s isR rp mt' auth', CoreEq 0 r r' := by
  intro h
  induction h with
  | zero =>
    intro o l p s isR rp mt mt' auth auth' r hr
    rw [rows_tree_zero] at hr ⊢
    have := List.mem_singleton.mp hr
    subst this
    exact ⟨_, List.mem_singleton.mpr rfl, ⟨rfl, rfl, rfl, rfl, rfl, rfl, fun _ => ⟨rfl, rfl⟩⟩⟩
  | succ h ih =>
    intro o l p s isR rp mt mt' auth auth' r hr
    rw [rows_tree_succ] at hr ⊢
    rcases List.mem_append.mp hr with hr | hr
    · rcases List.mem_append.mp hr with hr | hr
      · obtain ⟨r', hr', hc⟩ := ih _ _ _ _ _ _ _ (2*mt') _ ((o + 2^(h+1) - 1 + 2^(h+1) - 1) :: auth') r hr
        exact ⟨r', List.mem_append.mpr (Or.inl (List.mem_append.mpr (Or.inl hr'))), hc⟩
      · obtain ⟨r', hr', hc⟩ := ih _ _ _ _ _ _ _ (2*mt'+1) _ ((o + 2^(h+1) - 1) :: auth') r hr
        exact ⟨r', List.mem_append.mpr (Or.inl (List.mem_append.mpr (Or.inr hr'))), hc⟩
    · have := List.mem_singleton.mp hr
      subst this
      exact ⟨_, List.mem_append.mpr (Or.inr (List.mem_singleton.mpr rfl)),
        ⟨rfl, rfl, rfl, rfl, rfl, rfl, fun _ => ⟨rfl, rfl⟩⟩⟩

/-- a tree hanging as a **left** child somewhere has the table it has as a root, except for parent and sibling of
    its own root -/
theorem rows_left_position (h o l p s rp mt : Nat) (auth : List Nat) :
    ∀ r ∈ (tree o l h).rootRows, ∃ r' ∈ (tree o l h).rows p s false rp mt auth, CoreEq (o + 2^(h+1) - 1) r r' := by
  cases h with
  | zero =>
    intro r hr
    unfold TF.Spec.Mmr.Tree.rootRows at hr
    rw [rows_tree_zero] at hr ⊢
    have := List.mem_singleton.mp hr
    subst this
    refine ⟨_, List.mem_singleton.mpr rfl, ⟨rfl, rfl, rfl, rfl, rfl, rfl, fun hne => ?_⟩⟩
    exact absurd (by simp) hne
  | succ h =>
    intro r hr
    unfold TF.Spec.Mmr.Tree.rootRows at hr
    rw [rows_tree_succ] at hr ⊢
    have hp2 : 2^(h+2) = 2 * 2^(h+1) := two_pow_succ' (h+1)
    have hp22 : 2^(h+1+1) = 2 * 2^(h+1) := two_pow_succ' (h+1)
    have hpos := Nat.two_pow_pos (h+1)
    rcases List.mem_append.mp hr with hr | hr
    · rcases List.mem_append.mp hr with hr | hr
      · obtain ⟨r', hr', hc⟩ := rows_mt_auth_irrelevant h o l _ _ false _ _ (2*mt) _
          ((o + 2^(h+1) - 1 + 2^(h+1) - 1) :: auth) r hr
        refine ⟨r', List.mem_append.mpr (Or.inl (List.mem_append.mpr (Or.inl hr'))), ?_⟩
        have hrange := rows_idx_range _ _ _ _ _ _ _ _ _ _ hr
        exact ⟨hc.idx, hc.height, hc.rll, hc.left, hc.right, hc.leaf, fun _ => hc.up (by omega)⟩
      · obtain ⟨r', hr', hc⟩ := rows_mt_auth_irrelevant h (o + 2^(h+1) - 1) (l + 2^h) _ _ true _ _ (2*mt+1) _
          ((o + 2^(h+1) - 1) :: auth) r hr
        refine ⟨r', List.mem_append.mpr (Or.inl (List.mem_append.mpr (Or.inr hr'))), ?_⟩
        have hrange := rows_idx_range _ _ _ _ _ _ _ _ _ _ hr
        exact ⟨hc.idx, hc.height, hc.rll, hc.left, hc.right, hc.leaf, fun _ => hc.up (by omega)⟩
    · have := List.mem_singleton.mp hr
      subst this
      refine ⟨_, List.mem_append.mpr (Or.inr (List.mem_singleton.mpr rfl)),
        ⟨rfl, rfl, rfl, rfl, rfl, rfl, fun hne => ?_⟩⟩
      exact absurd (by dsimp only) hne

/-! ## every aligned block of an S1 tree is an S1 tree hanging in it as a left child -/

theorem popCount_two_pow_add (H m : Nat) (hm : m < 2^H) : popCount (2^H + m) = 1 + popCount m := by
  have h1 : (2^H + m) / 2^H = 1 := by
    rw [Nat.add_div_left _ (Nat.two_pow_pos H), Nat.div_eq_of_lt hm]
  have h2 : (2^H + m) % 2^H = m := by
    rw [Nat.add_mod_left, Nat.mod_eq_of_lt hm]
  rw [popCount_split H (2^H + m), h1, h2]
  have : popCount 1 = 1 := by decide +kernel
  rw [this]

theorem nodesOf_two_pow_add (H m : Nat) (hm : m < 2^H) : nodesOf (2^H + m) = 2^(H+1) - 1 + nodesOf m := by
  unfold nodesOf
  rw [popCount_two_pow_add H m hm]
  have := popCount_le m
  have := two_pow_succ' H
  have := Nat.two_pow_pos H
  omega

theorem CoreEq.trans {R : Nat} {a b c : Row} (h1 : CoreEq R a b) (h2 : CoreEq 0 b c) (hb : 0 < b.idx) : CoreEq R a c :=
  ⟨h1.idx.trans h2.idx, h1.height.trans h2.height, h1.rll.trans h2.rll, h1.left.trans h2.left,
   h1.right.trans h2.right, h1.leaf.trans h2.leaf,
   fun hne => ⟨(h1.up hne).1.trans (h2.up (by omega)).1, (h1.up hne).2.trans (h2.up (by omega)).2⟩⟩

/-- the block of `2^h` leaves starting `m` leaves into `tree o l H` (`m` a multiple of `2^(h+1)`, so the block is a
    *left* child) is the S1 tree `tree (o + nodesOf m) (l + m) h`, with the same table -/
theorem rows_embed : ∀ (H h o l m P S : Nat) (isR : Bool) (RP MT : Nat) (AUTH : List Nat),
    h < H → 2^(h+1) ∣ m → m + 2^h ≤ 2^H →
    ∀ r ∈ (tree (o + nodesOf m) (l + m) h).rootRows,
      ∃ r' ∈ (tree o l H).rows P S isR RP MT AUTH, CoreEq (o + nodesOf m + 2^(h+1) - 1) r r' := by
  intro H
  induction H with
  | zero => intro h o l m P S isR RP MT AUTH hh; omega
  | succ H ih =>
    intro h o l m P S isR RP MT AUTH hh hdvd hle r hr
    rw [rows_tree_succ]
    have hpH := two_pow_succ' H
    have hph := two_pow_succ' h
    have hposH := Nat.two_pow_pos H
    have hposh := Nat.two_pow_pos h
    obtain ⟨c, hc⟩ := hdvd
    by_cases hleft : m + 2^h ≤ 2^H
    · by_cases hhH : h = H
      · -- the left child itself
        subst hhH
        have hm0 : m = 0 := by
          rcases Nat.eq_zero_or_pos c with rfl | hcpos
          · simpa using hc
          · have : 2^(h+1) ≤ m := by rw [hc]; exact Nat.le_mul_of_pos_right _ hcpos
            omega
        subst hm0
        have hn0 : nodesOf 0 = 0 := by simp [nodesOf, popCount_zero]
        rw [hn0, Nat.add_zero, Nat.add_zero] at hr ⊢
        obtain ⟨r', hr', hce⟩ := rows_left_position h o l (o + 2^(h+2) - 1) (o + 2^(h+1) - 1 + 2^(h+1) - 1)
          (if isR then RP + 1 else 0) (2*MT) ((o + 2^(h+1) - 1 + 2^(h+1) - 1) :: AUTH) r hr
        exact ⟨r', List.mem_append.mpr (Or.inl (List.mem_append.mpr (Or.inl hr'))), hce⟩
      · obtain ⟨r', hr', hce⟩ := ih h o l m (o + 2^(H+2) - 1) (o + 2^(H+1) - 1 + 2^(H+1) - 1) false
          (if isR then RP + 1 else 0) (2*MT) ((o + 2^(H+1) - 1 + 2^(H+1) - 1) :: AUTH) (by omega) ⟨c, hc⟩ hleft r hr
        exact ⟨r', List.mem_append.mpr (Or.inl (List.mem_append.mpr (Or.inl hr'))), hce⟩
    · -- right half
      have hhH : h < H := by
        by_contra hcon
        have : h = H := by omega
        subst this
        rcases Nat.eq_zero_or_pos c with rfl | hcpos
        · have : m = 0 := by simpa using hc
          omega
        · have : 2^(h+1) ≤ m := by rw [hc]; exact Nat.le_mul_of_pos_right _ hcpos
          omega
      have hdvdH : 2^(h+1) ∣ 2^H := Nat.pow_dvd_pow 2 (by omega)
      have hmge : 2^H ≤ m := by
        by_contra hcon
        obtain ⟨d, hd⟩ := hdvdH
        -- m < 2^H, both multiples of 2^(h+1): m + 2^(h+1) ≤ 2^H
        have hcd : c < d := by
          have : 2^(h+1) * c < 2^(h+1) * d := by rw [← hc, ← hd]; omega
          exact Nat.lt_of_mul_lt_mul_left this
        have : 2^(h+1) * (c+1) ≤ 2^(h+1) * d := Nat.mul_le_mul_left _ hcd
        rw [Nat.mul_add, ← hc, ← hd] at this
        omega
      have hdvd' : 2^(h+1) ∣ m - 2^H := Nat.dvd_sub ⟨c, hc⟩ hdvdH
      have hm' : m - 2^H < 2^H := by omega
      have hno := nodesOf_two_pow_add H (m - 2^H) hm'
      have em : 2^H + (m - 2^H) = m := by omega
      rw [em] at hno
      have e1 : o + nodesOf m = (o + 2^(H+1) - 1) + nodesOf (m - 2^H) := by omega
      have e2 : l + m = (l + 2^H) + (m - 2^H) := by omega
      rw [e1, e2] at hr
      rw [e1]
      obtain ⟨r', hr', hce⟩ := ih h (o + 2^(H+1) - 1) (l + 2^H) (m - 2^H) (o + 2^(H+2) - 1) (o + 2^(H+1) - 1) true
        (if isR then RP + 1 else 0) (2*MT+1) ((o + 2^(H+1) - 1) :: AUTH) hhH hdvd' (by omega) r hr
      exact ⟨r', List.mem_append.mpr (Or.inl (List.mem_append.mpr (Or.inr hr'))), hce⟩

/-! ## the rows of the explicit forest are rows of `tree 0 0 63` -/

/-- the trees of the forest are aligned S1 blocks -/
theorem highTrees_mem (q : Nat) : ∀ h t, t ∈ highTrees h q →
    ∃ a j, t = tree (nodesOf (2*a * 2^(h+j))) (2*a * 2^(h+j)) (h+j) ∧ (2*a+1) * 2^(h+j) ≤ q * 2^h := by
  induction q using Nat.strongRecOn with
  | _ q ih =>
    intro h t ht
    rcases Nat.even_or_odd' q with ⟨a', rfl | rfl⟩
    · by_cases ha : a' = 0
      · subst ha; exact absurd ht (by simp [highTrees_zero])
      · rw [highTrees_even h a' (by omega)] at ht
        obtain ⟨a, j, h1, h2⟩ := ih a' (by omega) (h+1) t ht
        refine ⟨a, j+1, ?_, ?_⟩
        · have e : h + (j+1) = h + 1 + j := by omega
          rw [e]; exact h1
        · have e : h + (j+1) = h + 1 + j := by omega
          rw [e]
          have : a' * 2^(h+1) = 2 * a' * 2^h := by rw [Nat.pow_succ]; ring
          omega
    · rw [highTrees_odd] at ht
      rcases List.mem_cons.mp ht with rfl | ht
      · exact ⟨a', 0, rfl, Nat.le_refl _⟩
      · obtain ⟨a, j, h1, h2⟩ := ih a' (by omega) (h+1) t ht
        refine ⟨a, j+1, ?_, ?_⟩
        · have e : h + (j+1) = h + 1 + j := by omega
          rw [e]; exact h1
        · have e : h + (j+1) = h + 1 + j := by omega
          rw [e]
          have : a' * 2^(h+1) = 2 * a' * 2^h := by rw [Nat.pow_succ]; ring
          have hpos := Nat.two_pow_pos h
          have : (2 * a' + 1) * 2^h = 2 * a' * 2^h + 2^h := by ring
          omega

theorem forest_rows_go_mem : ∀ (ts : List TF.Spec.Mmr.Tree) (k0 k : Nat) (r : Row),
    (k, r) ∈ Forest.rows.go ts k0 → ∃ t ∈ ts, r ∈ t.rootRows := by
  intro ts
  induction ts with
  | nil => intro k0 k r h; simp [Forest.rows.go] at h
  | cons t ts ih =>
    intro k0 k r h
    unfold Forest.rows.go at h
    rcases List.mem_append.mp h with h | h
    · obtain ⟨r', hr', he⟩ := List.mem_map.mp h
      have : r' = r := by simpa using congrArg Prod.snd he
      subst this
      exact ⟨t, List.mem_cons_self, hr'⟩
    · obtain ⟨t', ht', hr'⟩ := ih _ _ _ h
      exact ⟨t', List.mem_cons_of_mem _ ht', hr'⟩

/-- the row of the root of a subtree carries the inherited parent and sibling -/
theorem rows_root_row : ∀ (h o l p s : Nat) (isR : Bool) (rp mt : Nat) (auth : List Nat),
    ∀ r ∈ (tree o l h).rows p s isR rp mt auth, r.idx = o + 2^(h+1) - 1 → r.parent = p ∧ r.sibling = s := by
  intro h
  cases h with
  | zero =>
    intro o l p s isR rp mt auth r hr _
    rw [rows_tree_zero] at hr
    have := List.mem_singleton.mp hr
    subst this
    exact ⟨rfl, rfl⟩
  | succ h =>
    intro o l p s isR rp mt auth r hr hidx
    rw [rows_tree_succ] at hr
    have hp22 : 2^(h+1+1) = 2 * 2^(h+1) := two_pow_succ' (h+1)
    have hpos := Nat.two_pow_pos (h+1)
    rcases List.mem_append.mp hr with hr | hr
    · rcases List.mem_append.mp hr with hr | hr
      · have := rows_idx_range _ _ _ _ _ _ _ _ _ _ hr; omega
      · have := rows_idx_range _ _ _ _ _ _ _ _ _ _ hr; omega
    · have := List.mem_singleton.mp hr
      subst this
      exact ⟨rfl, rfl⟩

theorem pow_lt_pow_imp (a b : Nat) (h : 2^a < 2^b) : a < b := (Nat.pow_lt_pow_iff_right (by decide)).mp h

/-- **S0 is a prefix of S1**: every row of the explicit forest with `n < 2^63` leaves is a row of `tree 0 0 63` —
    same index, height, right-lineage length, children and leaf index, and same parent and sibling unless the node
    is a peak of the forest (whose parent and sibling are recorded as `0`) -/
theorem forest_row_in_s1 (n : Nat) (hn : n < 2^63) (k : Nat) (r : Row) (hr : (k, r) ∈ (forest n).rows) :
    ∃ r' ∈ (tree 0 0 63).rootRows,
      r.idx = r'.idx ∧ r.height = r'.height ∧ r.rll = r'.rll ∧ r.left = r'.left ∧ r.right = r'.right ∧
      r.leaf = r'.leaf ∧ (r.parent ≠ 0 → r.parent = r'.parent ∧ r.sibling = r'.sibling) := by
  unfold Forest.rows at hr
  obtain ⟨t, ht, hrt⟩ := forest_rows_go_mem _ _ _ _ hr
  rw [forest_eq] at ht
  unfold Forest.peaks at ht
  have ht' : t ∈ highTrees 0 n := List.mem_reverse.mp ht
  obtain ⟨a, j, hte, hle⟩ := highTrees_mem n 0 t ht'
  simp only [Nat.zero_add, Nat.pow_zero, Nat.mul_one] at hte hle
  subst hte
  have hposj := Nat.two_pow_pos j
  have hj : j < 63 := by
    apply pow_lt_pow_imp
    have : 2^j ≤ (2*a+1) * 2^j := Nat.le_mul_of_pos_left _ (by omega)
    omega
  have hdvd : 2^(j+1) ∣ 2*a * 2^j := ⟨a, by rw [Nat.pow_succ]; ring⟩
  have hle2 : 2*a * 2^j + 2^j ≤ 2^63 := by
    have : (2*a+1) * 2^j = 2*a * 2^j + 2^j := by ring
    omega
  have hemb := rows_embed 63 j 0 0 (2*a * 2^j) 0 0 false 0 1 [] hj hdvd hle2 r (by simpa using hrt)
  obtain ⟨r', hr', hc⟩ := hemb
  refine ⟨r', hr', hc.idx, hc.height, hc.rll, hc.left, hc.right, hc.leaf, fun hp => ?_⟩
  apply hc.up
  intro hidx
  have := rows_root_row j (nodesOf (2*a * 2^j)) (2*a * 2^j) 0 0 false 0 1 [] r hrt (by simpa using hidx)
  exact hp this.1


/-! ## the node-level functions on the rows of the explicit forest -/

/-- every node-level index function reproduces the table of the explicit forest S0 -/
theorem forest_node_functions (n : Nat) (hn : n < 2^63) (k : Nat) (r : Row) (hr : (k, r) ∈ (forest n).rows) :
    right_lineage_length_and_own_height r.idx = some (r.rll, r.height) ∧
    node_index_to_leaf_index r.idx = some r.leaf ∧
    (r.parent ≠ 0 → parent r.idx = some r.parent ∧
      (r.rll ≠ 0 → left_sibling r.idx r.height = r.sibling ∧ left_sibling_ok r.idx r.height = true) ∧
      (r.rll = 0 → right_sibling r.idx r.height = r.sibling ∧ right_sibling_ok r.idx r.height = true)) ∧
    (0 < r.height → left_child r.idx r.height = r.left ∧ left_child_ok r.idx r.height = true ∧
      right_child r.idx = r.right ∧ right_child_ok r.idx = true) := by
  obtain ⟨r', hr', e1, e2, e3, e4, e5, e6, e7⟩ := forest_row_in_s1 n hn k r hr
  refine ⟨?_, ?_, ?_, ?_⟩
  · rw [e1, e2, e3]; exact rll_own_rows r' hr'
  · rw [e1, e6]; exact n2l_rows r' hr'
  · intro hp
    obtain ⟨e8, e9⟩ := e7 hp
    have hp' : r'.parent ≠ 0 := by rw [← e8]; exact hp
    have hs := sibling_rows r' hr' hp'
    rw [e1, e2, e3, e8, e9]
    exact ⟨parent_rows r' hr' hp', hs.1, hs.2⟩
  · intro hh
    rw [e1, e2, e4, e5]
    exact children_rows r' hr' (by omega)

/-! ## leaves: node index, Merkle-tree index, right-lineage length -/

theorem trailingOnes_two_pow_sub_one (h : Nat) : trailingOnes (2^h - 1) = h := by
  induction h with
  | zero => simp [trailingOnes_zero]
  | succ h ih =>
    have hp := two_pow_succ' h
    have hpos := Nat.two_pow_pos h
    rw [trailingOnes_odd _ (by omega)]
    have : (2^(h+1) - 1) / 2 = 2^h - 1 := by omega
    rw [this, ih]

/-- bits above a zero bit do not matter for the trailing ones -/
theorem trailingOnes_add_mul (h : Nat) : ∀ c j, j + 1 < 2^h → trailingOnes (c * 2^h + j) = trailingOnes j := by
  induction h with
  | zero => intro c j hj; simp at hj
  | succ h ih =>
    intro c j hj
    have hp := two_pow_succ' h
    have e : c * 2^(h+1) + j = 2 * (c * 2^h) + j := by rw [hp]; ring
    by_cases hodd : j % 2 = 1
    · rw [trailingOnes_odd j hodd, trailingOnes_odd _ (by omega)]
      have : (c * 2^(h+1) + j) / 2 = c * 2^h + j / 2 := by omega
      rw [this, ih c (j/2) (by omega)]
    · rw [trailingOnes_even j (by omega), trailingOnes_even _ (by omega)]

/-- the table entry of a leaf: node index, Merkle-tree index and right-lineage length by position -/
theorem rows_leaf_row : ∀ (h o l p s : Nat) (isR : Bool) (rp mt : Nat) (auth : List Nat) (r : Row) (li : Nat),
    r ∈ (tree o l h).rows p s isR rp mt auth → r.leaf = some li →
    r.idx = o + nodesOf (li - l) + 1 ∧ r.mt = mt * 2^h + (li - l) ∧
    r.rll = (if li - l = 2^h - 1 then h + (if isR then rp + 1 else 0) else trailingOnes (li - l)) := by
  intro h
  induction h with
  | zero =>
    intro o l p s isR rp mt auth r li hr hl
    rw [rows_tree_zero] at hr
    have := List.mem_singleton.mp hr
    subst this
    simp only [Option.some.injEq] at hl
    subst hl
    simp [nodesOf, popCount_zero]
  | succ h ih =>
    intro o l p s isR rp mt auth r li hr hl
    rw [rows_tree_succ] at hr
    have hp1 := two_pow_succ' h
    have hp2 := two_pow_succ' (h+1)
    have hpos := Nat.two_pow_pos h
    rcases List.mem_append.mp hr with hr | hr
    · rcases List.mem_append.mp hr with hr | hr
      · have hlr := rows_leaf_range _ _ _ _ _ _ _ _ _ r li hr hl
        obtain ⟨i1, i2, i3⟩ := ih _ _ _ _ _ _ _ _ r li hr hl
        refine ⟨i1, ?_, ?_⟩
        · rw [i2, hp1]; ring
        · rw [i3]
          simp only [Bool.false_eq_true, if_false, Nat.add_zero]
          have hne : ¬ (li - l = 2^(h+1) - 1) := by omega
          rw [if_neg hne]
          by_cases hc : li - l = 2^h - 1
          · rw [if_pos hc, hc, trailingOnes_two_pow_sub_one]
          · rw [if_neg hc]
      · have hlr := rows_leaf_range _ _ _ _ _ _ _ _ _ r li hr hl
        obtain ⟨i1, i2, i3⟩ := ih _ _ _ _ _ _ _ _ r li hr hl
        have ej : li - l = 2^h + (li - (l + 2^h)) := by omega
        have hjlt : li - (l + 2^h) < 2^h := by omega
        refine ⟨?_, ?_, ?_⟩
        · rw [i1, ej, nodesOf_two_pow_add h _ hjlt]
          have : 2^h + (li - (l + 2^h)) - (2^h + (li - (l + 2^h))) = 0 := by omega
          omega
        · rw [i2, ej, hp1]
          have : 2^h + (li - (l + 2^h)) - 2^h = li - (l + 2^h) := by omega
          ring_nf
        · rw [i3]
          simp only [if_true]
          by_cases hc : li - (l + 2^h) = 2^h - 1
          · have hc' : li - l = 2^(h+1) - 1 := by omega
            rw [if_pos hc, if_pos hc']; omega
          · have hc' : ¬ (li - l = 2^(h+1) - 1) := by omega
            rw [if_neg hc, if_neg hc', ej]
            have := trailingOnes_add_mul h 1 (li - (l + 2^h)) (by omega)
            rw [Nat.one_mul] at this
            rw [this]
    · have := List.mem_singleton.mp hr
      subst this
      simp at hl

/-- leaves of `tree 0 0 63`: `leaf_index_to_node_index` and `right_lineage_length_from_leaf_index` give the table
    entries -/
theorem leaf_rows (r : Row) (hr : r ∈ (tree 0 0 63).rootRows) (li : Nat) (hl : r.leaf = some li) :
    li < 2^63 ∧ leaf_index_to_node_index li = r.idx ∧ right_lineage_length_from_leaf_index li = r.rll := by
  have hlr := rows_leaf_range _ _ _ _ _ _ _ _ _ r li hr hl
  obtain ⟨i1, _, i3⟩ := rows_leaf_row _ _ _ _ _ _ _ _ _ r li hr hl
  simp only [Nat.zero_add, Nat.sub_zero, Bool.false_eq_true, if_false, Nat.add_zero] at hlr i1 i3
  have hl2n := (l2n_spec li hlr.2).1
  have h64 : (2:Nat)^64 = 18446744073709551616 := by decide
  have h63 : (2:Nat)^63 = 9223372036854775808 := by decide
  have hrl := (rll_leaf_spec li (by omega)).1
  refine ⟨hlr.2, ?_, ?_⟩
  · rw [hl2n, i1]; rfl
  · rw [hrl, i3]
    by_cases hc : li = 2^63 - 1
    · rw [if_pos hc, hc, trailingOnes_two_pow_sub_one]
    · rw [if_neg hc]

/-- the same on the explicit forest -/
theorem forest_leaf_functions (n : Nat) (hn : n < 2^63) (k : Nat) (r : Row) (hr : (k, r) ∈ (forest n).rows)
    (li : Nat) (hl : r.leaf = some li) :
    leaf_index_to_node_index li = r.idx ∧ right_lineage_length_from_leaf_index li = r.rll := by
  obtain ⟨r', hr', e1, _, e3, _, _, e6, _⟩ := forest_row_in_s1 n hn k r hr
  obtain ⟨_, h1, h2⟩ := leaf_rows r' hr' li (by rw [← e6]; exact hl)
  rw [e1, e3]; exact ⟨h1, h2⟩

/-! ## `get_peak_heights` -/

theorem two_pow_and (b n : Nat) : 2^b &&& n = 2^b * (n / 2^b % 2) := by
  have h1 : (2^b &&& n) / 2^b = n / 2^b % 2 := by
    rw [Nat.and_div_two_pow, Nat.div_self (Nat.two_pow_pos b), Nat.one_and_eq_mod_two]
  have h2 : (2^b &&& n) % 2^b = 0 := by
    rw [Nat.and_mod_two_pow, Nat.mod_self, Nat.zero_and]
  have := Nat.div_add_mod (2^b &&& n) (2^b)
  rw [h1, h2] at this
  omega

theorem two_pow_and_ne_zero (b n : Nat) : ((2^b &&& n) != 0) = decide (n / 2^b % 2 = 1) := by
  rw [two_pow_and]
  have hpos := Nat.two_pow_pos b
  by_cases h : n / 2^b % 2 = 1
  · rw [h]; simp
  · have : n / 2^b % 2 = 0 := by omega
    rw [this]; simp

theorem bitsBelow_succ (K n : Nat) :
    bitsBelow (K+1) n = if n / 2^K % 2 = 1 then K :: bitsBelow K n else bitsBelow K n := rfl

theorem filter_range_bits (n : Nat) : ∀ K,
    ((List.range K).filter fun b => (2^b &&& n) != 0).reverse = bitsBelow K n := by
  intro K
  induction K with
  | zero => rfl
  | succ K ih =>
    rw [List.range_succ, List.filter_append, List.reverse_append, ih, bitsBelow_succ]
    simp only [List.filter_cons, List.filter_nil, two_pow_and_ne_zero]
    by_cases h : n / 2^K % 2 = 1
    · simp [h]
    · simp [h]

theorem bitsBelow_of_lt (n : Nat) : ∀ K d, n < 2^K → bitsBelow (K + d) n = bitsBelow K n := by
  intro K d hn
  induction d with
  | zero => rfl
  | succ d ih =>
    have : n / 2^(K+d) = 0 := Nat.div_eq_of_lt (Nat.lt_of_lt_of_le hn (Nat.pow_le_pow_right (by decide) (by omega)))
    show bitsBelow (K + d + 1) n = _
    rw [bitsBelow_succ, this]
    simp only [Nat.zero_mod, Nat.zero_ne_one, if_false]
    exact ih

/-- **`get_peak_heights`**: the positions of the set bits of the leaf count, highest first — for every `u64` -/
theorem get_peak_heights_spec (n : Nat) (hn : n < 2^64) : get_peak_heights n = bitsBelow 64 n := by
  unfold get_peak_heights
  by_cases h0 : n = 0
  · subst h0; rw [if_pos rfl]; decide
  · rw [if_neg h0, filter_range_bits]
    have hk := log2_lt_64 n (by omega) hn
    have hlt : n < 2^(Nat.log2 n + 1) := (Nat.log2_lt h0).mp (Nat.lt_succ_self _)
    have := bitsBelow_of_lt n (Nat.log2 n + 1) (64 - (Nat.log2 n + 1)) hlt
    have e : Nat.log2 n + 1 + (64 - (Nat.log2 n + 1)) = 64 := by omega
    rw [e] at this
    exact this.symm

/-- `bitsBelow` by recursion on the low bit -/
theorem bitsBelow_low (K : Nat) : ∀ q,
    bitsBelow (K+1) q = (bitsBelow K (q/2)).map (· + 1) ++ (if q % 2 = 1 then [0] else []) := by
  induction K with
  | zero =>
    intro q
    rw [bitsBelow_succ]
    simp [bitsBelow]
  | succ K ih =>
    intro q
    rw [bitsBelow_succ, ih q, bitsBelow_succ]
    have e : q / 2^(K+1) = q / 2 / 2^K := by rw [Nat.div_div_eq_div_mul, Nat.pow_succ, Nat.mul_comm]
    rw [e]
    by_cases hb : q / 2 / 2^K % 2 = 1
    · simp [hb]
    · simp [hb]

theorem bitsBelow_zero_n (K : Nat) : bitsBelow K 0 = [] := by
  induction K with
  | zero => rfl
  | succ K ih => rw [bitsBelow_succ]; simp [ih]

/-- the heights of the trees of the forest, highest first, are the positions of the set bits -/
theorem highTrees_heights (q : Nat) : ∀ h K, q < 2^K →
    ((highTrees h q).map TF.Spec.Mmr.Tree.height).reverse = (bitsBelow K q).map (· + h) := by
  induction q using Nat.strongRecOn with
  | _ q ih =>
    intro h K hq
    cases K with
    | zero =>
      have : q = 0 := by simpa using hq
      subst this; simp [highTrees_zero, bitsBelow]
    | succ K =>
      have hq2 : q / 2 < 2^K := by rw [Nat.pow_succ] at hq; omega
      rw [bitsBelow_low]
      rcases Nat.even_or_odd' q with ⟨a, rfl | rfl⟩
      · by_cases ha : a = 0
        · subst ha; simp [highTrees_zero, bitsBelow_zero_n]
        · have e1 : 2 * a / 2 = a := by omega
          have e2 : ¬ (2 * a % 2 = 1) := by omega
          rw [highTrees_even h a (by omega), e1, if_neg e2, ih a (by omega) (h+1) K (by omega)]
          simp [List.map_map, Function.comp_def, Nat.add_assoc, Nat.add_comm 1 h]
      · have e1 : (2 * a + 1) / 2 = a := by omega
        have e2 : (2 * a + 1) % 2 = 1 := by omega
        rw [highTrees_odd, e1, if_pos e2]
        simp only [List.map_cons, List.reverse_cons, tree_height, List.map_append, List.map_map]
        rw [ih a (by omega) (h+1) K (by omega)]
        simp [List.map_map, Function.comp_def, Nat.add_assoc, Nat.add_comm 1 h]

/-- the explicit forest: node count, leaf count and peak heights -/
theorem forest_shape (n : Nat) (hn : n < 2^64) :
    (forest n).nodes = 2 * n - popCount n ∧ (forest n).leafs = n ∧
    (forest n).peaks.map TF.Spec.Mmr.Tree.height = bitsBelow 64 n := by
  rw [forest_eq]
  refine ⟨rfl, rfl, ?_⟩
  unfold Forest.peaks
  simp only
  rw [List.map_reverse, highTrees_heights n 0 64 hn]
  simp


/-! ## `right_lineage_length_from_node_index` -/

/-- a table has one row per node index -/
theorem rows_idx_unique : ∀ (h o l p s : Nat) (isR : Bool) (rp mt : Nat) (auth : List Nat) (r1 r2 : Row),
    r1 ∈ (tree o l h).rows p s isR rp mt auth → r2 ∈ (tree o l h).rows p s isR rp mt auth →
    r1.idx = r2.idx → r1 = r2 := by
  intro h
  induction h with
  | zero =>
    intro o l p s isR rp mt auth r1 r2 h1 h2 _
    rw [rows_tree_zero] at h1 h2
    rw [List.mem_singleton.mp h1, List.mem_singleton.mp h2]
  | succ h ih =>
    intro o l p s isR rp mt auth r1 r2 h1 h2 he
    rw [rows_tree_succ] at h1 h2
    have hp22 : 2^(h+1+1) = 2 * 2^(h+1) := two_pow_succ' (h+1)
    have hp2 : 2^(h+2) = 2 * 2^(h+1) := two_pow_succ' (h+1)
    have hpos := Nat.two_pow_pos (h+1)
    rcases List.mem_append.mp h1 with h1 | h1
    · rcases List.mem_append.mp h1 with h1 | h1
      · have g1 := rows_idx_range _ _ _ _ _ _ _ _ _ _ h1
        rcases List.mem_append.mp h2 with h2 | h2
        · rcases List.mem_append.mp h2 with h2 | h2
          · exact ih _ _ _ _ _ _ _ _ r1 r2 h1 h2 he
          · have g2 := rows_idx_range _ _ _ _ _ _ _ _ _ _ h2; omega
        · have := List.mem_singleton.mp h2; subst this; simp only at he; omega
      · have g1 := rows_idx_range _ _ _ _ _ _ _ _ _ _ h1
        rcases List.mem_append.mp h2 with h2 | h2
        · rcases List.mem_append.mp h2 with h2 | h2
          · have g2 := rows_idx_range _ _ _ _ _ _ _ _ _ _ h2; omega
          · exact ih _ _ _ _ _ _ _ _ r1 r2 h1 h2 he
        · have := List.mem_singleton.mp h2; subst this; simp only at he; omega
    · have := List.mem_singleton.mp h1; subst this
      rcases List.mem_append.mp h2 with h2 | h2
      · rcases List.mem_append.mp h2 with h2 | h2
        · have g2 := rows_idx_range _ _ _ _ _ _ _ _ _ _ h2; simp only at he; omega
        · have g2 := rows_idx_range _ _ _ _ _ _ _ _ _ _ h2; simp only at he; omega
      · exact (List.mem_singleton.mp h2).symm

/-- right spine: the node `d` below the root on the right spine has right-lineage length `root's + d` -/
theorem rows_right_spine : ∀ (h o l p s : Nat) (isR : Bool) (rp mt : Nat) (auth : List Nat) (r : Row),
    r ∈ (tree o l h).rows p s isR rp mt auth → o + 2^(h+1) - 1 ≤ r.idx + h →
    r.rll + r.idx = (if isR then rp + 1 else 0) + (o + 2^(h+1) - 1) := by
  intro h
  induction h with
  | zero =>
    intro o l p s isR rp mt auth r hr _
    rw [rows_tree_zero] at hr
    have := List.mem_singleton.mp hr
    subst this
    simp
  | succ h ih =>
    intro o l p s isR rp mt auth r hr hsp
    rw [rows_tree_succ] at hr
    have hp22 : 2^(h+1+1) = 2 * 2^(h+1) := two_pow_succ' (h+1)
    have hp2 : 2^(h+2) = 2 * 2^(h+1) := two_pow_succ' (h+1)
    have hpos := Nat.two_pow_pos (h+1)
    have hhlt : h + 1 < 2^(h+1) := Nat.lt_two_pow_self
    rcases List.mem_append.mp hr with hr | hr
    · rcases List.mem_append.mp hr with hr | hr
      · have g := rows_idx_range _ _ _ _ _ _ _ _ _ _ hr; omega
      · have g := rows_idx_range _ _ _ _ _ _ _ _ _ _ hr
        have := ih _ _ _ _ true _ _ _ r hr (by omega)
        simp only [if_true] at this
        omega
    · have := List.mem_singleton.mp hr
      subst this
      simp only

/-- translation: the table of `tree o' l' h` is the table of `tree o l h` shifted; the right-lineage lengths agree
    everywhere when the subtree roots have the same one, and off the right spine in any case -/
theorem rows_translate : ∀ (h o l p s : Nat) (isR : Bool) (rp mt : Nat) (auth : List Nat)
    (o' l' p' s' : Nat) (isR' : Bool) (rp' mt' : Nat) (auth' : List Nat),
    ∀ r ∈ (tree o l h).rows p s isR rp mt auth, ∃ r' ∈ (tree o' l' h).rows p' s' isR' rp' mt' auth',
      r'.idx + o = r.idx + o' ∧ r'.height = r.height ∧
      ((if isR then rp + 1 else 0) = (if isR' then rp' + 1 else 0) → r'.rll = r.rll) ∧
      (r.idx + h < o + 2^(h+1) - 1 → r'.rll = r.rll) := by
  intro h
  induction h with
  | zero =>
    intro o l p s isR rp mt auth o' l' p' s' isR' rp' mt' auth' r hr
    rw [rows_tree_zero] at hr ⊢
    have := List.mem_singleton.mp hr
    subst this
    refine ⟨_, List.mem_singleton.mpr rfl, by simp only; omega, rfl, fun h => h.symm, fun h => ?_⟩
    simp at h
  | succ h ih =>
    intro o l p s isR rp mt auth o' l' p' s' isR' rp' mt' auth' r hr
    rw [rows_tree_succ] at hr ⊢
    have hp22 : 2^(h+1+1) = 2 * 2^(h+1) := two_pow_succ' (h+1)
    have hp2 : 2^(h+2) = 2 * 2^(h+1) := two_pow_succ' (h+1)
    have hpos := Nat.two_pow_pos (h+1)
    rcases List.mem_append.mp hr with hr | hr
    · rcases List.mem_append.mp hr with hr | hr
      · obtain ⟨r', hr', e1, e2, e3, _⟩ := ih o l _ _ false (if isR then rp + 1 else 0) (2*mt) _ o' l'
          (o' + 2^(h+2) - 1) (o' + 2^(h+1) - 1 + 2^(h+1) - 1) false (if isR' then rp' + 1 else 0) (2*mt')
          ((o' + 2^(h+1) - 1 + 2^(h+1) - 1) :: auth') r hr
        have e3' := e3 (by simp)
        exact ⟨r', List.mem_append.mpr (Or.inl (List.mem_append.mpr (Or.inl hr'))), e1, e2, fun _ => e3', fun _ => e3'⟩
      · obtain ⟨r', hr', e1, e2, e3, e4⟩ := ih (o + 2^(h+1) - 1) (l + 2^h) _ _ true (if isR then rp + 1 else 0) (2*mt+1) _
          (o' + 2^(h+1) - 1) (l' + 2^h) (o' + 2^(h+2) - 1) (o' + 2^(h+1) - 1) true (if isR' then rp' + 1 else 0)
          (2*mt'+1) ((o' + 2^(h+1) - 1) :: auth') r hr
        refine ⟨r', List.mem_append.mpr (Or.inl (List.mem_append.mpr (Or.inr hr'))), by omega, e2, fun hc => ?_, fun hc => ?_⟩
        · exact e3 (by simp only [if_true]; omega)
        · exact e4 (by omega)
    · have := List.mem_singleton.mp hr
      subst this
      refine ⟨_, List.mem_append.mpr (Or.inr (List.mem_singleton.mpr rfl)), by simp only; omega, rfl, fun hc => hc.symm,
        fun hc => ?_⟩
      simp only at hc; omega

theorem rllFromNodeIndexAux_succ (f n : Nat) :
    rllFromNodeIndexAux (f+1) n =
      if bitLen n < (2^(bitLen n) - n) % W64 then
        rllFromNodeIndexAux f (add64 (sub64 n (shl1 (dec32 (bitLen n)))) 1)
      else some (sub64 ((2^(bitLen n) - n) % W64) 1 % W32) := rfl

/-- a row of a small left-spine tree is the row with the same index in a bigger one -/
theorem left_spine_row (k K : Nat) (hkK : k ≤ K) (r : Row) (hr : r ∈ (tree 0 0 k).rootRows) :
    ∃ r' ∈ (tree 0 0 K).rootRows, r'.idx = r.idx ∧ r'.rll = r.rll ∧ r'.height = r.height := by
  by_cases he : k = K
  · subst he; exact ⟨r, hr, rfl, rfl, rfl⟩
  · have := rows_embed K k 0 0 0 0 0 false 0 1 [] (by omega) (Nat.dvd_zero _)
      (by rw [Nat.zero_add]; exact Nat.pow_le_pow_right (by decide) hkK) r
      (by simpa [nodesOf, popCount_zero] using hr)
    obtain ⟨r', hr', hc⟩ := this
    exact ⟨r', hr', hc.idx.symm, hc.rll.symm, hc.height.symm⟩

theorem log2_of_range (n k : Nat) (h1 : 2^k ≤ n) (h2 : n ≤ 2^(k+1) - 1) : Nat.log2 n = k := by
  have hpos := Nat.two_pow_pos k
  have hp := two_pow_succ' k
  exact (Nat.log2_eq_iff (by omega)).mpr ⟨h1, by omega⟩

/-- **`right_lineage_length_from_node_index`** on the nodes of the left-spine tree of their own bit width -/
theorem rllFromNode_rows : ∀ k, k ≤ 63 → ∀ r ∈ (tree 0 0 k).rootRows, 2^k ≤ r.idx →
    ∀ fuel, k + 1 ≤ fuel → rllFromNodeIndexAux fuel r.idx = some r.rll := by
  intro k
  induction k using Nat.strongRecOn with
  | _ k ih =>
    intro hk r hr hlo fuel hf
    obtain ⟨f, rfl⟩ : ∃ f, fuel = f + 1 := ⟨fuel - 1, by omega⟩
    have hrange := rows_idx_range _ _ _ _ _ _ _ _ _ _ hr
    simp only [Nat.zero_add] at hrange
    have hlog := log2_of_range r.idx k hlo hrange.2
    have hbl : bitLen r.idx = k + 1 := by rw [bitLen_pos _ (by omega), hlog]
    have hp := two_pow_succ' k
    have hpos := Nat.two_pow_pos k
    have hW := two_pow_le_W (k+1) (by omega)
    have hdist : (2^(k+1) - r.idx) % W64 = 2^(k+1) - r.idx := by unfold W64; omega
    have hklt : k < 2^k := Nat.lt_two_pow_self
    rw [rllFromNodeIndexAux_succ, hbl, hdist]
    by_cases hc : k + 1 < 2^(k+1) - r.idx
    · -- not on the right spine: strip the top tree
      rw [if_pos hc]
      have hk1 : 1 ≤ k := by
        by_contra h0
        have : k = 0 := by omega
        subst this
        simp at hc hlo
        omega
      obtain ⟨k', rfl⟩ : ∃ k', k = k' + 1 := ⟨k - 1, by omega⟩
      have hn' : add64 (sub64 r.idx (shl1 (dec32 (k'+1+1)))) 1 = r.idx - (2^(k'+1) - 1) := by
        rw [dec32_succ (k'+1) (by omega), shl1_of_lt (k'+1) (by omega)]
        unfold add64 sub64 W64; omega
      rw [hn']
      -- r lies in the right subtree
      have hp22 : 2^(k'+1+1) = 2 * 2^(k'+1) := two_pow_succ' (k'+1)
      have hp2 : 2^(k'+2) = 2 * 2^(k'+1) := two_pow_succ' (k'+1)
      have hr2 := hr
      unfold TF.Spec.Mmr.Tree.rootRows at hr2
      rw [rows_tree_succ] at hr2
      have hright : r ∈ (tree (0 + 2^(k'+1) - 1) (0 + 2^k') k').rows (0 + 2^(k'+2) - 1) (0 + 2^(k'+1) - 1) true
          (if false = true then 0 + 1 else 0) (2*1+1) ((0 + 2^(k'+1) - 1) :: []) := by
        rcases List.mem_append.mp hr2 with h | h
        · rcases List.mem_append.mp h with h | h
          · have g := rows_idx_range _ _ _ _ _ _ _ _ _ _ h; omega
          · exact h
        · have := List.mem_singleton.mp h
          subst this
          simp only at hc hlo; omega
      obtain ⟨r', hr', e1, _, _, e4⟩ := rows_translate k' _ _ _ _ _ _ _ _ 0 0 0 0 false 0 1 [] r hright
      have hrll : r'.rll = r.rll := e4 (by omega)
      have hidx : r'.idx = r.idx - (2^(k'+1) - 1) := by omega
      -- move to the tree of the bit width of the new index
      have hr'range := rows_idx_range _ _ _ _ _ _ _ _ _ _ hr'
      simp only [Nat.zero_add] at hr'range
      have hn1 : 1 ≤ r'.idx := by omega
      have hk'' : Nat.log2 r'.idx ≤ k' := by
        have : Nat.log2 r'.idx < k' + 1 := (Nat.log2_lt (by omega)).mpr (by omega)
        omega
      have hlo'' := Nat.log2_self_le (n := r'.idx) (by omega)
      have hhi'' : r'.idx ≤ 2^(Nat.log2 r'.idx + 1) - 1 := by
        have := (Nat.log2_lt (n := r'.idx) (k := Nat.log2 r'.idx + 1) (by omega)).mp (Nat.lt_succ_self _)
        omega
      obtain ⟨r'', hr'', hidx''⟩ := rows_idx_complete (Nat.log2 r'.idx) 0 0 0 0 false 0 1 [] r'.idx (by omega)
        (by simpa using hhi'')
      obtain ⟨r3, hr3, e5, e6, _⟩ := left_spine_row (Nat.log2 r'.idx) k' hk'' r'' hr''
      have hsame : r3 = r' := rows_idx_unique _ _ _ _ _ _ _ _ _ r3 r' hr3 hr' (by rw [e5, hidx''])
      have := ih (Nat.log2 r'.idx) (by omega) (by omega) r'' hr'' (by rw [hidx'']; exact hlo'') f (by omega)
      rw [hidx'', hidx] at this
      rw [this, ← e6, hsame, hrll]
    · -- on the right spine
      rw [if_neg hc]
      have hsp := rows_right_spine k 0 0 0 0 false 0 1 [] r hr (by omega)
      simp only [Bool.false_eq_true, if_false, Nat.zero_add] at hsp
      have : sub64 (2^(k+1) - r.idx) 1 % W32 = r.rll := by
        unfold sub64 W64 W32
        omega
      rw [this]

/-- **`right_lineage_length_from_node_index`** agrees with the table for every node index `1 … 2^64 − 1` -/
theorem rll_node_rows (r : Row) (hr : r ∈ (tree 0 0 63).rootRows) :
    right_lineage_length_from_node_index r.idx = some r.rll := by
  have hrange := rows_idx_range _ _ _ _ _ _ _ _ _ _ hr
  simp only [Nat.zero_add] at hrange
  have hlo := Nat.log2_self_le (n := r.idx) (by omega)
  have hk : Nat.log2 r.idx ≤ 63 := by
    have : Nat.log2 r.idx < 64 := (Nat.log2_lt (by omega)).mpr (by omega)
    omega
  have hhi : r.idx ≤ 2^(Nat.log2 r.idx + 1) - 1 := by
    have := (Nat.log2_lt (n := r.idx) (k := Nat.log2 r.idx + 1) (by omega)).mp (Nat.lt_succ_self _)
    omega
  obtain ⟨r'', hr'', hidx''⟩ := rows_idx_complete (Nat.log2 r.idx) 0 0 0 0 false 0 1 [] r.idx (by omega)
    (by simpa using hhi)
  obtain ⟨r3, hr3, e5, e6, _⟩ := left_spine_row (Nat.log2 r.idx) 63 hk r'' hr''
  have hsame : r3 = r := rows_idx_unique _ _ _ _ _ _ _ _ _ r3 r hr3 hr (by rw [e5, hidx''])
  have := rllFromNode_rows (Nat.log2 r.idx) hk r'' hr'' (by rw [hidx'']; exact hlo) descentFuel
    (by unfold descentFuel; omega)
  rw [hidx''] at this
  unfold right_lineage_length_from_node_index
  rw [this, ← e6, hsame]

/-! ## `node_indices_added_by_append` -/

/-- every leaf index of the range has a row -/
theorem rows_leaf_complete : ∀ (h o l p s : Nat) (isR : Bool) (rp mt : Nat) (auth : List Nat) (li : Nat),
    l ≤ li → li < l + 2^h → ∃ r ∈ (tree o l h).rows p s isR rp mt auth, r.leaf = some li := by
  intro h
  induction h with
  | zero =>
    intro o l p s isR rp mt auth li h1 h2
    rw [rows_tree_zero]
    have : li = l := by simp at h2; omega
    subst this
    exact ⟨_, List.mem_singleton.mpr rfl, rfl⟩
  | succ h ih =>
    intro o l p s isR rp mt auth li h1 h2
    rw [rows_tree_succ]
    have hp := two_pow_succ' h
    by_cases c : li < l + 2^h
    · obtain ⟨r, hr, hl⟩ := ih o l (o + 2^(h+2) - 1) (o + 2^(h+1) - 1 + 2^(h+1) - 1) false (if isR then rp + 1 else 0)
        (2*mt) ((o + 2^(h+1) - 1 + 2^(h+1) - 1) :: auth) li h1 c
      exact ⟨r, List.mem_append.mpr (Or.inl (List.mem_append.mpr (Or.inl hr))), hl⟩
    · obtain ⟨r, hr, hl⟩ := ih (o + 2^(h+1) - 1) (l + 2^h) (o + 2^(h+2) - 1) (o + 2^(h+1) - 1) true
        (if isR then rp + 1 else 0) (2*mt+1) ((o + 2^(h+1) - 1) :: auth) li (by omega) (by omega)
      exact ⟨r, List.mem_append.mpr (Or.inl (List.mem_append.mpr (Or.inr hr))), hl⟩

theorem popCount_pos (n : Nat) (h : n ≠ 0) : 1 ≤ popCount n := by
  induction n using Nat.strongRecOn with
  | _ n ih =>
    rw [popCount_eq]
    by_cases ho : n % 2 = 1
    · omega
    · have := ih (n/2) (by omega) (by omega)
      omega

/-- the carry chain: incrementing flips the trailing ones -/
theorem popCount_succ_add_trailingOnes (c : Nat) : popCount (c + 1) + trailingOnes c = popCount c + 1 := by
  induction c using Nat.strongRecOn with
  | _ c ih =>
    rcases Nat.even_or_odd' c with ⟨a, rfl | rfl⟩
    · rw [popCount_two_mul_add_one, popCount_two_mul, trailingOnes_even _ (by omega)]
    · have e : 2 * a + 1 + 1 = 2 * (a + 1) := by ring
      rw [e, popCount_two_mul, popCount_two_mul_add_one, trailingOnes_odd _ (by omega)]
      have : (2 * a + 1) / 2 = a := by omega
      rw [this]
      have := ih a (by omega)
      omega

theorem nodesOf_succ (c : Nat) : nodesOf (c + 1) = nodesOf c + 1 + trailingOnes c := by
  unfold nodesOf
  have := popCount_succ_add_trailingOnes c
  have := popCount_le c
  have := popCount_le (c+1)
  omega

theorem added_of (c x t : Nat) (h1 : leaf_index_to_node_index c = x)
    (h2 : right_lineage_length_from_node_index x = some t) :
    node_indices_added_by_append c = some ((List.range (t + 1)).map fun k => add64 x k) := by
  unfold node_indices_added_by_append
  rewrite [h1, h2]
  rfl

/-- **`node_indices_added_by_append`**: the new leaf `2c − popcount c + 1` and the `trailing_ones c` parents created
    with it, consecutive node indices -/
theorem added_spec (c : Nat) (hc : c < 2^63) :
    node_indices_added_by_append c
      = some ((List.range (trailingOnes c + 1)).map fun k => nodesOf c + 1 + k) := by
  obtain ⟨r, hr, hl⟩ := rows_leaf_complete 63 0 0 0 0 false 0 1 [] c (Nat.zero_le _) (by omega)
  obtain ⟨_, h1, h2⟩ := leaf_rows r hr c hl
  have hrll := rll_node_rows r hr
  have ht := (rll_leaf_spec c (by omega)).1
  have hrange := rows_idx_range _ _ _ _ _ _ _ _ _ _ hr
  have hl2n := (l2n_spec c hc).1
  have hspine : r.idx + r.rll ≤ 2^64 - 1 := by
    have hsucc := nodesOf_succ c
    have hpp := popCount_pos (c+1) (by omega)
    have hple := popCount_le (c+1)
    have hidx : r.idx = nodesOf c + 1 := by rw [← h1, hl2n]; rfl
    have h63 : (2:Nat)^63 = 9223372036854775808 := by decide
    have h64 : (2:Nat)^64 = 18446744073709551616 := by decide
    have hn : nodesOf (c+1) = 2 * (c+1) - popCount (c+1) := rfl
    rw [← h2, ht, hidx]
    omega
  have hrt : r.rll = trailingOnes c := by rw [← h2, ht]
  have hidx : nodesOf c + 1 = r.idx := by rw [← h1, hl2n]; rfl
  rw [hrt] at hrll hspine
  rw [added_of c r.idx (trailingOnes c) h1 hrll, hidx]
  have hmap : List.map (fun k => add64 r.idx k) (List.range (trailingOnes c + 1))
      = List.map (fun k => r.idx + k) (List.range (trailingOnes c + 1)) := by
    apply List.map_congr_left
    intro k hk
    have hk' := List.mem_range.mp hk
    have h64 : (2:Nat)^64 = 18446744073709551616 := by decide
    unfold add64 W64
    omega
  rw [hmap]


/-- `right_lineage_length_from_node_index` on the explicit forest -/
theorem forest_rll_node (n : Nat) (hn : n < 2^63) (k : Nat) (r : Row) (hr : (k, r) ∈ (forest n).rows) :
    right_lineage_length_from_node_index r.idx = some r.rll := by
  obtain ⟨r', hr', e1, _, e3, _⟩ := forest_row_in_s1 n hn k r hr
  rw [e1, e3]; exact rll_node_rows r' hr'

/-- `node_indices_added_by_append` against the explicit forest: the nodes that appending one leaf creates -/
theorem forest_added (c : Nat) (hc : c < 2^63) :
    node_indices_added_by_append c
      = some ((List.range ((forest (c+1)).nodes - (forest c).nodes)).map fun k => (forest c).nodes + 1 + k) := by
  rw [added_spec c hc, forest_eq, forest_eq]
  simp only
  have := nodesOf_succ c
  have e : nodesOf (c + 1) - nodesOf c = trailingOnes c + 1 := by omega
  rw [e]

/-! ## `get_peak_heights_and_peak_node_indices` -/

theorem nodesOf_le (m : Nat) : nodesOf m ≤ 2 * m := by unfold nodesOf; omega

theorem nodesOf_mono {m m' : Nat} (h : m ≤ m') : nodesOf m ≤ nodesOf m' := by
  induction h with
  | refl => exact Nat.le_refl _
  | step _ ih => rw [nodesOf_succ]; omega

theorem nodesOf_two_pow (a : Nat) : nodesOf (2^a) = 2^(a+1) - 1 := by
  have := nodesOf_two_pow_add a 0 (Nat.two_pow_pos a)
  simpa [nodesOf, popCount_zero] using this

theorem nodesOf_zero : nodesOf 0 = 0 := by simp [nodesOf, popCount_zero]

/-- node indices of the peaks for the bits of `m` below `h`, highest first, placed after `o` nodes -/
def peakIdxScan : (h : Nat) → (m o : Nat) → List Nat
  | 0, _, _ => []
  | h+1, m, o =>
    if m / 2^h % 2 = 1 then (o + 2^(h+1) - 1) :: peakIdxScan h m (o + 2^(h+1) - 1) else peakIdxScan h m o

theorem peaksLoop_succ (nc h cand : Nat) (hs is : List Nat) :
    peaksLoop nc (h+1) cand hs is =
      if cand > nc then
        if left_child cand (h+1) ≤ nc then
          peaksLoop nc h (right_sibling (left_child cand (h+1)) h) (hs ++ [h]) (is ++ [left_child cand (h+1)])
        else peaksLoop nc h (left_child cand (h+1)) hs is
      else none := rfl

theorem mod_two_pow_succ (m h : Nat) : m % 2^(h+1) = 2^h * (m / 2^h % 2) + m % 2^h := by
  rw [Nat.pow_succ, Nat.mod_mul]; omega

/-- the two nested loops scan the bits of the remaining leaf count from the top -/
theorem peaksLoop_scan : ∀ (h m o : Nat) (hs is : List Nat), o + 2^(h+1) ≤ 2^64 → h ≤ 63 →
    peaksLoop (o + nodesOf (m % 2^h)) h (o + 2^(h+1) - 1) hs is
      = some (hs ++ bitsBelow h m, is ++ peakIdxScan h m o) := by
  intro h
  induction h with
  | zero => intro m o hs is _ _; simp [peaksLoop, bitsBelow, peakIdxScan]
  | succ h ih =>
    intro m o hs is ho hh
    have hp := two_pow_succ' h
    have hp2 : 2^(h+1+1) = 2 * 2^(h+1) := two_pow_succ' (h+1)
    have hpos := Nat.two_pow_pos h
    have h64 : (2:Nat)^64 = 18446744073709551616 := by decide
    have hr := mod_two_pow_succ m h
    have hrlt : m % 2^h < 2^h := Nat.mod_lt _ hpos
    have hrlt' : m % 2^(h+1) < 2^(h+1) := Nat.mod_lt _ (Nat.two_pow_pos _)
    have hnle := nodesOf_le (m % 2^(h+1))
    have hlc := (left_child_spec (o + 2^(h+1+1) - 1) (h+1) (by omega) (by omega) (by omega)).1
    have e : o + 2^(h+1+1) - 1 - 2^(h+1) = o + 2^(h+1) - 1 := by omega
    rw [peaksLoop_succ, hlc, e, if_pos (by omega), bitsBelow_succ]
    have hps : peakIdxScan (h+1) m o = if m / 2^h % 2 = 1 then (o + 2^(h+1) - 1) :: peakIdxScan h m (o + 2^(h+1) - 1)
        else peakIdxScan h m o := rfl
    rw [hps]
    by_cases hb : m / 2^h % 2 = 1
    · rw [hb, Nat.mul_one] at hr
      have hno : nodesOf (m % 2^(h+1)) = 2^(h+1) - 1 + nodesOf (m % 2^h) := by
        rw [hr]; exact nodesOf_two_pow_add h _ hrlt
      have hrs := (right_sibling_spec (o + 2^(h+1) - 1) h (by omega) (by omega)).1
      have enc : o + nodesOf (m % 2^(h+1)) = (o + 2^(h+1) - 1) + nodesOf (m % 2^h) := by omega
      rw [if_pos (by omega), if_pos hb, if_pos hb, hrs, enc]
      have := ih m (o + 2^(h+1) - 1) (hs ++ [h]) (is ++ [o + 2^(h+1) - 1]) (by omega) (by omega)
      rw [this]
      simp
    · have hb0 : m / 2^h % 2 = 0 := by omega
      rw [hb0, Nat.mul_zero, Nat.zero_add] at hr
      have hnle' := nodesOf_le (m % 2^h)
      rw [hr]
      rw [if_neg (by omega), if_neg hb, if_neg hb]
      exact ih m o hs is (by omega) (by omega)

theorem popCount_two_pow_sub_one (a : Nat) : popCount (2^a - 1) = a := by
  induction a with
  | zero => simp [popCount_zero]
  | succ a ih =>
    have hp := two_pow_succ' a
    have hpos := Nat.two_pow_pos a
    have e : 2^(a+1) - 1 = 2 * (2^a - 1) + 1 := by omega
    rw [e, popCount_two_mul_add_one, ih]

/-- the topmost peak: root `2^(a+1) − 1`, height `a = log2 n` -/
theorem top_peak (n : Nat) (hn1 : 1 ≤ n) (hn : n < 2^63) :
    (if (leftmost_ancestor (leaf_index_to_node_index (n - 1))).1 > num_leafs_to_num_nodes n then
        (left_child (leftmost_ancestor (leaf_index_to_node_index (n - 1))).1
          (leftmost_ancestor (leaf_index_to_node_index (n - 1))).2,
         dec32 (leftmost_ancestor (leaf_index_to_node_index (n - 1))).2)
      else leftmost_ancestor (leaf_index_to_node_index (n - 1)))
    = (2^(Nat.log2 n + 1) - 1, Nat.log2 n) := by
  have h63 : (2:Nat)^63 = 9223372036854775808 := by decide
  have h64 : (2:Nat)^64 = 18446744073709551616 := by decide
  have hnn := (num_nodes_spec n hn).1
  have hl2n := (l2n_spec (n-1) (by omega)).1
  have hx : leaf_index_to_node_index (n - 1) = nodesOf (n - 1) + 1 := by rw [hl2n]; rfl
  have hnc : num_leafs_to_num_nodes n = nodesOf n := by rw [hnn]; rfl
  rw [hx, hnc]
  have ha_lo := Nat.log2_self_le (n := n) (by omega)
  have ha_hi : n < 2^(Nat.log2 n + 1) := (Nat.log2_lt (by omega)).mp (Nat.lt_succ_self _)
  have ha : Nat.log2 n < 63 := by
    apply pow_lt_pow_imp; omega
  have h2a : 2^(Nat.log2 n) ≤ 4611686018427387904 := by
    have : (4611686018427387904:Nat) = 2^62 := by decide
    rw [this]; exact Nat.pow_le_pow_right (by decide) (by omega)
  generalize Nat.log2 n = a at *
  have hp := two_pow_succ' a
  have hp2 : 2^(a+1+1) = 2 * 2^(a+1) := two_pow_succ' (a+1)
  have hpos := Nat.two_pow_pos a
  have hxle := nodesOf_le (n - 1)
  have hx1 : 1 ≤ nodesOf (n - 1) + 1 := by omega
  have hx2 : nodesOf (n - 1) + 1 < 2^64 := by omega
  have hla := (leftmost_ancestor_spec (nodesOf (n-1) + 1) hx1 hx2).1
  by_cases hpow : n = 2^a
  · -- a power of two: the leftmost ancestor of the last leaf is the only peak
    have hn1' : n - 1 = 2^a - 1 := by omega
    have hnodes : nodesOf (n - 1) = 2 * (2^a - 1) - a := by
      rw [hn1']; unfold nodesOf; rw [popCount_two_pow_sub_one]
    have halt : a < 2^a := Nat.lt_two_pow_self
    have hk : Nat.log2 (nodesOf (n-1) + 1) = a := log2_of_range _ a (by omega) (by omega)
    rw [hk] at hla
    have hnn2 : nodesOf n = 2^(a+1) - 1 := by rw [hpow]; exact nodesOf_two_pow a
    rw [hla, hnn2, if_neg (by simp)]
  · -- otherwise the last leaf already lies under the next power of two
    have hge : 2^a ≤ n - 1 := by omega
    have hlo := nodesOf_mono hge
    rw [nodesOf_two_pow] at hlo
    have hk : Nat.log2 (nodesOf (n-1) + 1) = a + 1 := log2_of_range _ (a+1) (by omega) (by omega)
    rw [hk] at hla
    have hnle := nodesOf_le n
    rw [hla]
    simp only
    have hlc := (left_child_spec (2^(a+1+1) - 1) (a+1) (by omega) (by omega) (by omega)).1
    rw [if_pos (by omega), hlc, dec32_succ a (by omega)]
    have e : 2^(a+1+1) - 1 - 2^(a+1) = 2^(a+1) - 1 := by omega
    rw [e]

theorem peakIdxScan_of_lt (m : Nat) : ∀ K d o, m < 2^K → peakIdxScan (K + d) m o = peakIdxScan K m o := by
  intro K d o hm
  induction d with
  | zero => rfl
  | succ d ih =>
    have : m / 2^(K+d) = 0 := Nat.div_eq_of_lt (Nat.lt_of_lt_of_le hm (Nat.pow_le_pow_right (by decide) (by omega)))
    show peakIdxScan (K + d + 1) m o = _
    have hps : peakIdxScan (K+d+1) m o = if m / 2^(K+d) % 2 = 1 then (o + 2^(K+d+1) - 1) :: peakIdxScan (K+d) m (o + 2^(K+d+1) - 1)
        else peakIdxScan (K+d) m o := rfl
    rw [hps, this]
    simp only [Nat.zero_mod, Nat.zero_ne_one, if_false]
    exact ih

theorem get_peaks_unfold (n : Nat) (hn0 : n ≠ 0) (t : Nat × Nat)
    (ht : (if (leftmost_ancestor (leaf_index_to_node_index (n - 1))).1 > num_leafs_to_num_nodes n then
        (left_child (leftmost_ancestor (leaf_index_to_node_index (n - 1))).1
          (leftmost_ancestor (leaf_index_to_node_index (n - 1))).2,
         dec32 (leftmost_ancestor (leaf_index_to_node_index (n - 1))).2)
      else leftmost_ancestor (leaf_index_to_node_index (n - 1))) = t) :
    get_peak_heights_and_peak_node_indices n
      = peaksLoop (num_leafs_to_num_nodes n) t.2 (right_sibling t.1 t.2) [t.2] [t.1] := by
  unfold get_peak_heights_and_peak_node_indices
  rewrite [if_neg hn0]
  dsimp only
  rewrite [ht]
  rfl

/-- **`get_peak_heights_and_peak_node_indices`** terminates for every leaf count below `2^63` and returns the heights
    (set bits, highest first) and the node indices (running totals of the tree sizes) of the peaks -/
theorem get_peaks_spec (n : Nat) (hn : n < 2^63) :
    get_peak_heights_and_peak_node_indices n = some (bitsBelow 64 n, peakIdxScan 64 n 0) := by
  by_cases hn0 : n = 0
  · subst hn0
    have e1 : bitsBelow 64 0 = [] := bitsBelow_zero_n 64
    have e2 : peakIdxScan 64 0 0 = [] := by decide
    rw [e1, e2]; rfl
  · have h63 : (2:Nat)^63 = 9223372036854775808 := by decide
    have h64 : (2:Nat)^64 = 18446744073709551616 := by decide
    have htop := top_peak n (by omega) hn
    rw [get_peaks_unfold n hn0 _ htop]
    have ha_lo := Nat.log2_self_le (n := n) (by omega)
    have ha_hi : n < 2^(Nat.log2 n + 1) := (Nat.log2_lt (by omega)).mp (Nat.lt_succ_self _)
    have ha : Nat.log2 n < 63 := by
      apply pow_lt_pow_imp; omega
    have hnc : num_leafs_to_num_nodes n = nodesOf n := by rw [(num_nodes_spec n hn).1]; rfl
    rw [hnc]
    have h2a : 2^(Nat.log2 n) ≤ 4611686018427387904 := by
      have : (4611686018427387904:Nat) = 2^62 := by decide
      rw [this]; exact Nat.pow_le_pow_right (by decide) (by omega)
    generalize Nat.log2 n = a at *
    have hp := two_pow_succ' a
    have hpos := Nat.two_pow_pos a
    have hrs := (right_sibling_spec (2^(a+1) - 1) a ha (by omega)).1
    show peaksLoop (nodesOf n) a (right_sibling (2^(a+1) - 1) a) [a] [2^(a+1) - 1] = _
    rw [hrs]
    have hmod : n % 2^a = n - 2^a := by
      have : n = 2^a + (n - 2^a) := by omega
      conv => lhs; rw [this]
      rw [Nat.add_mod_left, Nat.mod_eq_of_lt (by omega)]
    have hno : nodesOf n = (2^(a+1) - 1) + nodesOf (n % 2^a) := by
      rw [hmod]
      have := nodesOf_two_pow_add a (n - 2^a) (by omega)
      have e : 2^a + (n - 2^a) = n := by omega
      rw [e] at this; exact this
    have hscan := peaksLoop_scan a n (2^(a+1) - 1) [a] [2^(a+1) - 1] (by omega) (by omega)
    rw [← hno] at hscan
    rw [hscan]
    -- the top bit of `n` is bit `a`
    have hbit : n / 2^a % 2 = 1 := by
      have : n / 2^a = 1 := Nat.div_eq_of_lt_le (by omega) (by omega)
      rw [this]
    have hb1 : bitsBelow (a+1) n = a :: bitsBelow a n := by rw [bitsBelow_succ, if_pos hbit]
    have hp1 : peakIdxScan (a+1) n 0 = (2^(a+1) - 1) :: peakIdxScan a n (2^(a+1) - 1) := by
      have hps : peakIdxScan (a+1) n 0 = if n / 2^a % 2 = 1 then (0 + 2^(a+1) - 1) :: peakIdxScan a n (0 + 2^(a+1) - 1)
          else peakIdxScan a n 0 := rfl
      rw [hps, if_pos hbit, Nat.zero_add]
    have hb2 := bitsBelow_of_lt n (a+1) (64 - (a+1)) ha_hi
    have hp2 := peakIdxScan_of_lt n (a+1) (64 - (a+1)) 0 ha_hi
    have e : a + 1 + (64 - (a+1)) = 64 := by omega
    rw [e] at hb2 hp2
    rw [hb2, hp2, hb1, hp1]
    rfl

/-! ### … against the explicit forest -/

theorem peakIdxScan_closed (n : Nat) : ∀ h,
    peakIdxScan h n (nodesOf ((n / 2^h) * 2^h)) = (bitsBelow h n).map fun j => nodesOf ((n / 2^j) * 2^j) := by
  intro h
  induction h with
  | zero => rfl
  | succ h ih =>
    have hps : ∀ o, peakIdxScan (h+1) n o = if n / 2^h % 2 = 1 then (o + 2^(h+1) - 1) :: peakIdxScan h n (o + 2^(h+1) - 1)
        else peakIdxScan h n o := fun _ => rfl
    have hdiv : n / 2^(h+1) = n / 2^h / 2 := by rw [Nat.pow_succ, Nat.div_div_eq_div_mul]
    have hm := Nat.div_add_mod (n / 2^h) 2
    rw [hps, bitsBelow_succ]
    by_cases hb : n / 2^h % 2 = 1
    · have e : n / 2^h = 2 * (n / 2^(h+1)) + 1 := by omega
      have hodd := nodesOf_odd (n / 2^(h+1)) h
      rw [← e] at hodd
      have e2 : 2 * (n / 2^(h+1)) * 2^h = n / 2^(h+1) * 2^(h+1) := by rw [Nat.pow_succ]; ring
      rw [e2] at hodd
      rw [if_pos hb, if_pos hb, ← hodd, ih]
      rfl
    · have e : n / 2^h = 2 * (n / 2^(h+1)) := by omega
      have e2 : n / 2^(h+1) * 2^(h+1) = n / 2^h * 2^h := by
        generalize n / 2^(h+1) = b at *
        rw [e, Nat.pow_succ]; ring
      rw [if_neg hb, if_neg hb, e2, ih]

/-- node indices of the peaks of the forest, by low-bit recursion -/
theorem highTrees_idxs (q : Nat) : ∀ h K, q < 2^K →
    ((highTrees h q).map TF.Spec.Mmr.Tree.idx).reverse
      = (bitsBelow K q).map fun j => nodesOf ((q / 2^j) * 2^j * 2^h) := by
  induction q using Nat.strongRecOn with
  | _ q ih =>
    intro h K hq
    cases K with
    | zero =>
      have : q = 0 := by simpa using hq
      subst this; simp [highTrees_zero, bitsBelow]
    | succ K =>
      have hq2 : q / 2 < 2^K := by rw [Nat.pow_succ] at hq; omega
      rw [bitsBelow_low]
      have hshift : ∀ j, nodesOf ((q / 2^(j+1)) * 2^(j+1) * 2^h) = nodesOf ((q / 2 / 2^j) * 2^j * 2^(h+1)) := by
        intro j
        have e1 : q / 2^(j+1) = q / 2 / 2^j := by rw [Nat.div_div_eq_div_mul, Nat.pow_succ, Nat.mul_comm]
        rw [e1, Nat.pow_succ, Nat.pow_succ]
        congr 1; ring
      rcases Nat.even_or_odd' q with ⟨a, rfl | rfl⟩
      · by_cases ha : a = 0
        · subst ha; simp [highTrees_zero, bitsBelow_zero_n]
        · have e1 : 2 * a / 2 = a := by omega
          have e2 : ¬ (2 * a % 2 = 1) := by omega
          rw [highTrees_even h a (by omega), if_neg e2, ih a (by omega) (h+1) K (by omega)]
          simp only [List.append_nil, List.map_map, e1]
          apply List.map_congr_left
          intro j _
          simp only [Function.comp]
          rw [hshift j, e1]
      · have e1 : (2 * a + 1) / 2 = a := by omega
        have e2 : (2 * a + 1) % 2 = 1 := by omega
        rw [highTrees_odd, if_pos e2]
        simp only [List.map_cons, List.reverse_cons, tree_idx, List.map_append, List.map_map, e1]
        rw [ih a (by omega) (h+1) K (by omega)]
        congr 1
        · apply List.map_congr_left
          intro j _
          simp only [Function.comp]
          rw [hshift j, e1]
        · have hodd := nodesOf_odd a h
          simp only [List.map_cons, List.map_nil, Nat.pow_zero, Nat.div_one, Nat.mul_one]
          rw [hodd]

/-- **`get_peak_heights_and_peak_node_indices` against the explicit forest**: heights and node indices of its trees,
    oldest (highest) first -/
theorem forest_peaks (n : Nat) (hn : n < 2^63) :
    get_peak_heights_and_peak_node_indices n
      = some ((forest n).peaks.map TF.Spec.Mmr.Tree.height, (forest n).peaks.map TF.Spec.Mmr.Tree.idx) := by
  have h64 : n < 2^64 := by
    have : (2:Nat)^63 < 2^64 := by decide
    omega
  rw [get_peaks_spec n hn, (forest_shape n h64).2.2]
  have hidx : (forest n).peaks.map TF.Spec.Mmr.Tree.idx = peakIdxScan 64 n 0 := by
    rw [forest_eq]
    unfold Forest.peaks
    simp only
    rw [List.map_reverse, highTrees_idxs n 0 64 h64]
    have := peakIdxScan_closed n 64
    rw [Nat.div_eq_of_lt h64, Nat.zero_mul, nodesOf_zero] at this
    rw [this]
    simp
  rw [hidx]


end TF.Mmr
