import TF.Gen.ConvLoops
import TF.Proofs.BField
import TF.Proofs.Conv
/-!
Bridge between the Digest / element conversions **regenerated from source** (`TF/Gen/ConvLoops.lean`, written by
`tools/rs2lean_conv.py` from `digest.rs`, `b_field_element.rs`, `x_field_element.rs`) and the hand model
`TF/Model/Conv.lean`.

The regenerated code works on *raw Montgomery words* (a `BFieldElement` is its `u64`), the hand model on canonical values:
`vals l = l.map bfe_value` reads a list of words, `toOpt` forgets which `Err(_)` was returned (the model's `none`).
-/
namespace TF.GenBridge.Conv
open TF.Gen TF.Gen.Loops TF.Conv TF.BF

/-- `Result` → `Option` (the model does not distinguish error kinds) -/
def toOpt {α : Type} : Except String α → Option α
  | .ok v => some v
  | .error _ => none

/-- canonical values of a list of raw words -/
def vals (l : List Nat) : List Nat := l.map bfe_value

/-- raw words: all canonical (`< P`), as every `BFieldElement` built through `new` is -/
def Raw (l : List Nat) : Prop := ∀ x ∈ l, x < P

instance (l : List Nat) : Decidable (Raw l) := inferInstanceAs (Decidable (∀ x ∈ l, x < P))

theorem P_lt_W : P < 18446744073709551616 := by decide

/-! ### the std models of the two layers coincide -/

theorem ofLe_eq : ∀ bs : List Nat, TF.ofLeBytes bs = TF.Conv.ofLeBytes bs
  | [] => rfl
  | b :: bs => by simp only [TF.ofLeBytes, TF.Conv.ofLeBytes, ofLe_eq bs]

theorem toLe_eq : ∀ (n v : Nat), TF.toLeBytes n v = leBytes n v
  | 0, _ => rfl
  | n+1, v => by simp only [TF.toLeBytes, leBytes, toLe_eq n]

theorem chunksAux_eq (k : Nat) : ∀ (f : Nat) (l : List Nat), TF.RustStd.chunksAux k f l = TF.Conv.chunksAux k f l
  | 0, _ => rfl
  | f+1, l => by simp only [TF.RustStd.chunksAux, TF.Conv.chunksAux, chunksAux_eq k f]

theorem chunks_eq (k : Nat) (l : List Nat) : TF.RustStd.chunks_exact k l = chunksExact k l := chunksAux_eq k _ l

theorem iter_cmp_eq : ∀ a b : List Nat, TF.RustStd.iter_cmp a b = lexCmp a b
  | [], [] => rfl
  | [], _ :: _ => rfl
  | _ :: _, [] => rfl
  | x :: xs, y :: ys => by
    simp only [TF.RustStd.iter_cmp, lexCmp, iter_cmp_eq xs ys]
    cases compare x y <;> rfl

/-! ### `try_new`, bytes of an element -/

theorem value_zero : bfe_value (bfe_new 0) = 0 := value_new 0 (by decide)

theorem gen_try_new (v : Nat) :
    conv_bfe_try_new v = if v < P then .ok (bfe_new v) else .error "NotCanonical" := by
  unfold conv_bfe_try_new bfe_is_canonical TF.RustStd.ok_or
  by_cases h : v < P
  · have h' : v < 18446744069414584321 := h
    simp [h, h']
  · have h' : ¬ v < 18446744069414584321 := h
    simp [h, h']

theorem gen_try_new_ok (v : Nat) : conv_bfe_try_new_ok v = true := by
  unfold conv_bfe_try_new_ok bfe_is_canonical_ok bfe_is_canonical
  by_cases h : v < 18446744069414584321
  · have : bfe_new_ok v = true := new_ok v (Nat.lt_trans h (by decide))
    simp [h, this]
  · simp [h]

theorem gen_try_new_model (v : Nat) : (toOpt (conv_bfe_try_new v)).map bfe_value = bfeTryNew v := by
  rw [gen_try_new]; unfold bfeTryNew
  by_cases h : v < P
  · rw [if_pos h, if_pos h]; simp only [toOpt, Option.map_some]; rw [value_new v h]
  · rw [if_neg h, if_neg h]; rfl

theorem gen_bfe_try_from_array (bs : List Nat) :
    (toOpt (conv_bfe_try_from_array bs)).map bfe_value = bfeTryNew (TF.Conv.ofLeBytes bs) ∧
    conv_bfe_try_from_array_ok bs = true := by
  unfold conv_bfe_try_from_array conv_bfe_try_from_array_ok
  rw [ofLe_eq]; exact ⟨gen_try_new_model _, gen_try_new_ok _⟩

theorem gen_bfe_try_from_slice (bs : List Nat) :
    (toOpt (conv_bfe_try_from_slice bs)).map bfe_value = bfeFromBytes bs ∧ conv_bfe_try_from_slice_ok bs = true := by
  unfold conv_bfe_try_from_slice conv_bfe_try_from_slice_ok bfeFromBytes TF.RustStd.array_try_from
  by_cases h : bs.length = 8
  · have h1 : (bs.length == 8) = true := by simp [h]
    rw [h1]
    simp only [if_true, TF.RustStd.map_err, TF.RustStd.tryE, TF.RustStd.okE]
    rw [if_neg (by simpa using h)]
    exact gen_bfe_try_from_array bs
  · have h1 : (bs.length == 8) = false := by simp [h]
    rw [h1]
    simp only [TF.RustStd.map_err, TF.RustStd.tryE, TF.RustStd.okE, Bool.false_eq_true, if_false]
    rw [if_pos h]
    exact ⟨rfl, trivial⟩

theorem gen_bfe_to_bytes (r : Nat) :
    conv_bfe_to_bytes r = bfeToBytes (bfe_value r) ∧ conv_bfe_to_bytes_ok r = true := by
  unfold conv_bfe_to_bytes conv_bfe_to_bytes_ok bfeToBytes
  exact ⟨toLe_eq 8 _, value_ok r⟩

/-! ### digest ↔ bytes -/

theorem gen_digest_to_bytes (d : List Nat) (hd : d.length = 5) :
    conv_digest_to_bytes d = digestToBytes (vals d) ∧ conv_digest_to_bytes_ok d = true := by
  have e : conv_digest_to_bytes d = digestToBytes (vals d) := by
    unfold conv_digest_to_bytes digestToBytes vals
    rw [List.map_map]
    exact congrArg List.flatten (List.map_congr_left (fun x _ => (gen_bfe_to_bytes x).1))
  refine ⟨e, ?_⟩
  have hl : (conv_digest_to_bytes d).length = 40 := by
    rw [e]; exact digestToBytes_length (by unfold vals; rw [List.length_map]; exact hd)
  unfold conv_digest_to_bytes at hl
  unfold conv_digest_to_bytes_ok
  simp only [Bool.and_eq_true, List.all_eq_true, beq_iff_eq]
  exact ⟨fun x _ => (gen_bfe_to_bytes x).2, hl⟩

/-- `try_collect` over a `map` is the model's `mapM`, element-wise bridge given -/
theorem try_collect_mapM {α : Type} (f : α → Except String Nat) (g : α → Option Nat)
    (h : ∀ x, (toOpt (f x)).map bfe_value = g x) :
    ∀ l : List α, (toOpt (TF.RustStd.try_collect (l.map f))).map vals = l.mapM g
  | [] => rfl
  | x :: xs => by
    have ih := try_collect_mapM f g h xs
    have hx := h x
    rw [List.mapM_cons, ← hx, ← ih]
    simp only [List.map_cons]
    cases hf : f x with
    | error e => simp [TF.RustStd.try_collect, toOpt]
    | ok v =>
      cases hr : TF.RustStd.try_collect (xs.map f) with
      | error e => simp [TF.RustStd.try_collect, toOpt, hr]
      | ok vs => simp [TF.RustStd.try_collect, toOpt, hr, vals]

theorem try_collect_length {α : Type} : ∀ (l : List (Except String α)) (vs : List α),
    TF.RustStd.try_collect l = .ok vs → vs.length = l.length
  | [], vs, h => by simp [TF.RustStd.try_collect] at h; subst h; rfl
  | .error e :: _, vs, h => by simp [TF.RustStd.try_collect] at h
  | .ok v :: rest, vs, h => by
    cases hr : TF.RustStd.try_collect rest with
    | error e => simp [TF.RustStd.try_collect, hr] at h
    | ok ws =>
      simp [TF.RustStd.try_collect, hr] at h
      subst h
      simp [try_collect_length rest ws hr]

theorem chunks40 (bs : List Nat) (h : bs.length = 40) : (chunksExact 8 bs).length = 5 := by
  unfold chunksExact
  rw [h]
  simp [TF.Conv.chunksAux, List.length_drop, h]

theorem gen_digest_try_from_array (bs : List Nat) (hl : bs.length = 40) :
    (toOpt (conv_digest_try_from_array bs)).map vals = digestFromByteArray bs ∧
    conv_digest_try_from_array_ok bs = true := by
  have hm := try_collect_mapM conv_bfe_try_from_slice bfeFromBytes (fun x => (gen_bfe_try_from_slice x).1)
    (chunksExact 8 bs)
  constructor
  · unfold conv_digest_try_from_array digestFromByteArray
    rw [chunks_eq, ← hm]
    cases hr : TF.RustStd.try_collect ((chunksExact 8 bs).map conv_bfe_try_from_slice) with
    | error e => simp [TF.RustStd.tryFrom, toOpt]
    | ok vs => simp [TF.RustStd.tryFrom, toOpt]
  · unfold conv_digest_try_from_array_ok
    rw [chunks_eq]
    simp only [Bool.and_eq_true, List.all_eq_true]
    refine ⟨⟨by decide, fun x _ => (gen_bfe_try_from_slice x).2⟩, ?_⟩
    cases hr : TF.RustStd.try_collect ((chunksExact 8 bs).map fun x_fn => conv_bfe_try_from_slice x_fn) with
    | error e => rfl
    | ok vs =>
      have := try_collect_length _ vs hr
      rw [List.length_map, chunks40 bs hl] at this
      simp [TF.RustStd.okE, this]

theorem gen_digest_try_from_slice (bs : List Nat) :
    (toOpt (conv_digest_try_from_slice bs)).map vals = digestFromBytes bs ∧ conv_digest_try_from_slice_ok bs = true := by
  unfold conv_digest_try_from_slice conv_digest_try_from_slice_ok digestFromBytes TF.RustStd.array_try_from
  by_cases h : bs.length = 40
  · have h1 : (bs.length == 40) = true := by simp [h]
    rw [h1]
    simp only [if_true, TF.RustStd.map_err, TF.RustStd.tryE, TF.RustStd.okE]
    rw [if_neg (by simpa using h)]
    exact gen_digest_try_from_array bs h
  · have h1 : (bs.length == 40) = false := by simp [h]
    rw [h1]
    simp only [TF.RustStd.map_err, TF.RustStd.tryE, TF.RustStd.okE, Bool.false_eq_true, if_false]
    rw [if_pos h]
    exact ⟨rfl, trivial⟩

/-! ### digest ↔ big integer -/

theorem modP (v : Nat) : v % P < 18446744073709551616 := Nat.lt_trans (Nat.mod_lt v (by decide)) P_lt_W

theorem vals_map_new (l : List Nat) (h : ∀ x ∈ l, x < P) : vals (l.map bfe_new) = l := by
  induction l with
  | nil => rfl
  | cons x xs ih =>
    have hx := value_new x (h x (List.mem_cons_self ..))
    have ih' := ih (fun y hy => h y (List.mem_cons_of_mem _ hy))
    unfold vals at ih' ⊢
    simp only [List.map_cons, hx, ih']

theorem takeBaseP_lt (n v : Nat) : ∀ x ∈ (takeBaseP n v).1, x < P := by
  rw [takeBaseP_eq]; exact (ofNatP_wf n v).2

theorem range5 : List.range 5 = [0, 1, 2, 3, 4] := by decide

theorem gen_digest_try_from_biguint (v : Nat) :
    (toOpt (conv_digest_try_from_biguint v)).map vals = digestFromNat v ∧ conv_digest_try_from_biguint_ok v = true := by
  have hP : (18446744069414584321 : Nat) = P := rfl
  have hlt := takeBaseP_lt 5 v
  constructor
  · unfold conv_digest_try_from_biguint digestFromNat conv_digest_new
    rw [hP]
    simp only [List.length_replicate, range5]
    simp only [List.foldl_cons, List.foldl_nil, List.replicate, List.set_cons_zero, List.set_cons_succ, takeBaseP] at hlt ⊢
    by_cases hz : v / P / P / P / P / P = 0
    · simp only [hz, toOpt, vals, List.map_cons, List.map_nil, Bool.not_true, beq_self_eq_true,
        Bool.false_eq_true, if_false, Option.map_some, ne_eq, not_true_eq_false]
      simp only [List.mem_cons, List.not_mem_nil, or_false, forall_eq_or_imp, forall_eq] at hlt
      rw [value_new _ hlt.1, value_new _ hlt.2.1, value_new _ hlt.2.2.1, value_new _ hlt.2.2.2.1, value_new _ hlt.2.2.2.2]
    · simp [hz, toOpt]
  · unfold conv_digest_try_from_biguint_ok conv_digest_new_ok
    rw [hP]
    have hP0 : (P != 0) = true := by decide
    have h1 : ∀ r, decide (r % P < 18446744073709551616) = true := fun r => by simpa using modP r
    have h2 : ∀ r, bfe_new_ok (r % P) = true := fun r => new_ok _ (modP r)
    simp only [List.length_replicate, range5]
    simp only [List.foldl_cons, List.foldl_nil, List.replicate, List.set_cons_zero, List.set_cons_succ,
      List.length_cons, List.length_nil, hP0, h1, h2]
    simp

theorem range5r : (List.range 5).reverse = [4, 3, 2, 1, 0] := by decide

theorem gen_digest_to_biguint (a b c d e : Nat) :
    conv_digest_to_biguint [a, b, c, d, e] = digestToNat (vals [a, b, c, d, e]) ∧
    conv_digest_to_biguint_ok [a, b, c, d, e] = true := by
  have hP : (18446744069414584321 : Nat) = P := rfl
  constructor
  · unfold conv_digest_to_biguint digestToNat vals
    rw [hP]
    simp only [range5r, List.map_cons, List.map_nil, List.reverse_cons, List.reverse_nil, List.nil_append, List.cons_append]
    repeat rw [List.foldl_cons]
    rw [List.foldl_nil, List.foldl_nil]
    simp only [List.getD_cons_zero, List.getD_cons_succ]
    unfold conv_bfe_value
    trivial
  · unfold conv_digest_to_biguint_ok
    simp only [range5r]
    repeat rw [List.foldl_cons]
    rw [List.foldl_nil]
    simp only [List.getD_cons_zero, List.getD_cons_succ, List.length_cons, List.length_nil]
    unfold conv_bfe_value_ok
    simp only [value_ok]
    simp

/-! ### order, `reversed`, extension-field elements -/

theorem gen_digest_cmp (a b : List Nat) :
    conv_digest_cmp a b = digestCmp (vals a) (vals b) ∧ conv_digest_cmp_ok a b = true ∧
    conv_digest_partial_cmp a b = some (digestCmp (vals a) (vals b)) := by
  have e : conv_digest_cmp a b = digestCmp (vals a) (vals b) := by
    unfold conv_digest_cmp digestCmp vals
    simp only [iter_cmp_eq, List.map_reverse]
    rfl
  refine ⟨e, ?_, by unfold conv_digest_partial_cmp; rw [e]⟩
  unfold conv_digest_cmp_ok
  simp [conv_bfe_value_ok, value_ok]

theorem gen_digest_reversed (a b c d e : Nat) :
    digestReversed (vals [a, b, c, d, e]) = some (vals (conv_digest_reversed [a, b, c, d, e])) ∧
    conv_digest_reversed [a, b, c, d, e] = [a, b, c, d, e].reverse := ⟨rfl, rfl⟩

theorem gen_xfe_to_digest (a b c : Nat) :
    vals (conv_xfe_to_digest [a, b, c]) = xfeToDigest (bfe_value a, bfe_value b, bfe_value c) ∧
    conv_xfe_to_digest_ok [a, b, c] = true := by
  refine ⟨?_, rfl⟩
  simp [conv_xfe_to_digest, conv_digest_new, vals, xfeToDigest, value_zero]

theorem eq_zero_iff {z : Nat} (hz : z < P) : z = bfe_new 0 ↔ bfe_value z = 0 := by
  have hc : canon (bfe_new 0) := (new_spec 0 (by decide)).1
  exact ⟨fun h => by rw [h, value_zero], fun hv => repr_unique z (bfe_new 0) hz hc (by rw [hv, value_zero])⟩

theorem gen_xfe_try_from_digest (a b c d e : Nat) (hd : d < P) (he : e < P) :
    (toOpt (conv_xfe_try_from_digest [a, b, c, d, e])).map
        (fun l => (bfe_value (l.getD 0 0), bfe_value (l.getD 1 0), bfe_value (l.getD 2 0)))
      = xfeFromDigest (vals [a, b, c, d, e]) ∧
    conv_xfe_try_from_digest_ok [a, b, c, d, e] = true := by
  constructor
  · unfold conv_xfe_try_from_digest conv_digest_values conv_xfe_new vals xfeFromDigest
    simp only [List.map_cons, List.map_nil, List.getD_cons_zero, List.getD_cons_succ]
    have i0 := eq_zero_iff hd
    have i1 := eq_zero_iff he
    generalize bfe_new 0 = zz at i0 i1 ⊢
    generalize bfe_value d = vd at i0 ⊢
    generalize bfe_value e = ve at i1 ⊢
    by_cases h0 : d = zz <;> by_cases h1 : e = zz
    · simp [h0, h1, i0.mp h0, i1.mp h1, toOpt]
    · simp [h0, h1, i0.mp h0, mt i1.mpr h1, toOpt]
    · simp [h0, h1, mt i0.mpr h0, toOpt]
    · simp [h0, h1, mt i0.mpr h0, toOpt]
  · unfold conv_xfe_try_from_digest_ok conv_digest_values_ok conv_xfe_new_ok
    simp only [Bool.true_and, ite_self]

end TF.GenBridge.Conv

/-! ### helpers for the transfer theorems of `TF/Props/C20.lean` -/
namespace TF.GenBridge.Conv
open TF.Gen TF.Gen.Loops TF.Conv TF.BF

theorem len5 {r : List Nat} (h : r.length = 5) : ∃ a b c d e, r = [a, b, c, d, e] := by
  match r, h with
  | [a, b, c, d, e], _ => exact ⟨a, b, c, d, e, rfl⟩

theorem wfd_vals {r : List Nat} (h : r.length = 5) (hr : Raw r) : WFd (vals r) := by
  refine ⟨by unfold vals; rw [List.length_map]; exact h, ?_⟩
  intro x hx
  unfold vals at hx
  obtain ⟨y, hy, rfl⟩ := List.mem_map.mp hx
  exact value_lt y (Nat.lt_trans (hr y hy) P_lt_W)

theorem toOpt_none_of_map {α β : Type} {x : Except String α} {f : α → β} (h : (toOpt x).map f = none) :
    toOpt x = none := by
  cases hx : toOpt x with
  | none => rfl
  | some v => rw [hx] at h; cases h

end TF.GenBridge.Conv
