import TF.Gen.BFieldLoops
import TF.Model.BField
import Mathlib.Data.Nat.Bitwise
/-!
# Bridge: the loops of `b_field_element.rs` *as regenerated from source* = the hand-written model (C01)

`TF/Gen/BFieldLoops.lean` is written by `tools/rs2lean_bfe.py` from the Rust text on every run: a `BFieldElement` is its
raw Montgomery word, `Self(Self::montyred(a.0 as u128 * b.0 as u128))` is emitted as written (and is, term for term, the
translated `bfe_mul`), `while` loops are fuel-indexed recursions (`none` = out of fuel), the nested `const fn exp` of
`inverse` is translated on its own and its calls are sequenced with `Option.bind`.  The theorems say that the
regenerated functions terminate within their fuel and return the hand model's value (`TF/Model/BField.lean`:
`modPow`, `sqN`, `inverse`), for every base and every `u64` exponent — so `mod_pow_exact`, `inverse_exact`, … of C01 are
theorems about the current source text.
-/
namespace TF.GenBridge.BField
open TF TF.Gen TF.Model.BF

theorem mul_unfold (a b : Nat) : montyred ((a * b) % 340282366920938463463374607431768211456) = bfe_mul a b := rfl

/-! ### `mod_pow` -/

theorem bitLen_le (e : Nat) (he : e < 18446744073709551616) : bitLen e ≤ 64 := by
  unfold bitLen
  split
  · omega
  · have h := (Nat.log2_lt (by assumption)).mpr (show e < 2 ^ 64 by simpa using he)
    omega

theorem lt_two_pow_bitLen (e : Nat) : e < 2 ^ bitLen e := by
  unfold bitLen
  split
  · subst_vars; decide
  · exact Nat.lt_log2_self

theorem two_pow_bitLen_le (e : Nat) (he : e ≠ 0) : 2 ^ (bitLen e - 1) ≤ e := by
  unfold bitLen
  rw [if_neg he, Nat.add_sub_cancel]
  exact Nat.log2_self_le he

theorem bit_test (e k : Nat) (hk : k < 64) :
    ((e &&& (1 * 2 ^ (k % 64) % 18446744073709551616)) != 0) = decide (e / 2 ^ k % 2 = 1) := by
  have h1 : k % 64 = k := Nat.mod_eq_of_lt hk
  have h2 : 1 * 2 ^ k % 18446744073709551616 = 2 ^ k := by
    rw [Nat.one_mul]
    exact Nat.mod_eq_of_lt (by
      have : (18446744073709551616 : Nat) = 2 ^ 64 := by decide
      rw [this]; exact Nat.pow_lt_pow_right (by decide) hk)
  rw [h1, h2, Nat.and_two_pow, ← Nat.testBit_eq_decide_div_mod_eq]
  cases e.testBit k <;> simp

theorem modPow_step (a p : Nat) (hp : p ≠ 0) :
    modPow a p = if p % 2 = 1 then bfe_mul (bfe_mul (modPow a (p / 2)) (modPow a (p / 2))) a
      else bfe_mul (modPow a (p / 2)) (modPow a (p / 2)) := by
  obtain ⟨q, rfl⟩ := Nat.exists_eq_succ_of_ne_zero hp
  rw [modPow]

theorem mod_pow_loop_eq (a e bl : Nat) (hbl : bl = bitLen e) (hle : bl ≤ 64) :
    ∀ fuel acc i, i ≤ bl → bl - i < fuel → acc = modPow a (e / 2 ^ (bl - i)) →
      Loops.bfe_mod_pow_loop a e bl fuel acc i = some (modPow a e, bl) := by
  intro fuel
  induction fuel with
  | zero => intro acc i h1 h2; omega
  | succ f ih =>
    intro acc i h1 h2 hacc
    rw [Loops.bfe_mod_pow_loop]
    by_cases hik : i < bl
    · have e1 : (i + 1) % 4294967296 = i + 1 := Nat.mod_eq_of_lt (by omega)
      have e2 : (((bl + 4294967296 - 1) % 4294967296) + 4294967296 - i) % 4294967296 = bl - 1 - i := by omega
      have he0 : e ≠ 0 := by
        intro h; subst h; rw [hbl] at hik; simp [bitLen] at hik
      rw [if_pos (by simpa using hik)]
      dsimp only
      rw [mul_unfold, mul_unfold, e1, e2, bit_test e (bl - 1 - i) (by omega)]
      apply ih _ _ (by omega) (by omega)
      -- the new accumulator is modPow of the prefix extended by one bit
      have hp : e / 2 ^ (bl - (i + 1)) ≠ 0 := by
        have h1 : 2 ^ (bl - (i + 1)) ≤ 2 ^ (bl - 1) := Nat.pow_le_pow_right (by decide) (by omega)
        have h2 := two_pow_bitLen_le e he0
        rw [← hbl] at h2
        have : 0 < e / 2 ^ (bl - (i + 1)) := Nat.div_pos (Nat.le_trans h1 h2) (Nat.two_pow_pos _)
        omega
      have hhalf : e / 2 ^ (bl - (i + 1)) / 2 = e / 2 ^ (bl - i) := by
        rw [Nat.div_div_eq_div_mul, ← Nat.pow_succ]
        congr 2; omega
      have hk : bl - 1 - i = bl - (i + 1) := by omega
      rw [modPow_step a _ hp, hhalf, ← hacc, hk]
      by_cases hb : e / 2 ^ (bl - (i + 1)) % 2 = 1
      · simp [hb]
      · simp [hb]
    · have : i = bl := by omega
      subst this
      rw [if_neg (by simp), hacc, Nat.sub_self, Nat.pow_zero, Nat.div_one]

/-- **`BFieldElement::mod_pow`** regenerated from source (the bit loop) = hand model, every base, every `u64` exponent -/
theorem gen_mod_pow_eq (a e : Nat) (he : e < 18446744073709551616) : Loops.bfe_mod_pow a e = some (modPow a e) := by
  have hle := bitLen_le e he
  have hbl : (64 + 4294967296 - (64 - bitLen e)) % 4294967296 = bitLen e := by omega
  unfold Loops.bfe_mod_pow
  dsimp only
  rw [hbl, mod_pow_loop_eq a e (bitLen e) rfl hle 65 (bfe_new 1) 0 (by omega) (by omega)
    (by rw [Nat.sub_zero, Nat.div_eq_of_lt (lt_two_pow_bitLen e), modPow]; rfl)]
  rfl

/-! ### the local `exp` of `inverse` (k squarings) -/

theorem exp_loop_eq (k : Nat) (hk : k < 18446744073709551616) : ∀ fuel res i, i ≤ k → k - i < fuel →
    Loops.bfe_inverse_exp_loop k fuel res i = some (sqN res (k - i), k) := by
  intro fuel
  induction fuel with
  | zero => intro res i h1 h2; omega
  | succ f ih =>
    intro res i h1 h2
    rw [Loops.bfe_inverse_exp_loop]
    by_cases hik : i < k
    · have e1 : (i + 1) % 18446744073709551616 = i + 1 := Nat.mod_eq_of_lt (by omega)
      have e2 : k - i = (k - (i + 1)) + 1 := by omega
      rw [if_pos (by simpa using hik)]
      dsimp only
      rw [mul_unfold, e1, ih _ _ (by omega) (by omega), e2, sqN]
    · have : i = k := by omega
      subst this
      rw [if_neg (by simp), Nat.sub_self, sqN]

/-- the regenerated local `exp(base, k)` of `inverse` is `k` squarings (`sqN`), every `k < 2^64` -/
theorem gen_exp_eq (base k : Nat) (hk : k < 18446744073709551616) : Loops.bfe_inverse_exp base k = some (sqN base k) := by
  unfold Loops.bfe_inverse_exp
  dsimp only
  rw [exp_loop_eq k hk (k + 1) base 0 (by omega) (by omega)]
  rfl

/-- **`Inverse::inverse`** regenerated from source (the addition chain with its `exp` loops) is the hand model's chain:
    the regenerated function returns the chain value for every input, and the hand model returns it unless `x = 0`,
    where the regenerated `_ok` flag is false (the `assert_ne!` fails) -/
theorem gen_inverse_eq (x : Nat) :
    inverse x = if x == zero then none else Loops.bfe_inverse x := by
  simp only [Loops.bfe_inverse, Loops.bfe_square, inverse, square,
    gen_exp_eq _ 3 (by decide), gen_exp_eq _ 6 (by decide), gen_exp_eq _ 12 (by decide), gen_exp_eq _ 32 (by decide),
    Option.bind_some]

theorem gen_inverse_ok_zero : Loops.bfe_inverse_ok zero = false := by
  unfold Loops.bfe_inverse_ok
  have : (zero != Loops.bfe_zero) = false := by decide
  dsimp only
  rw [this]
  simp

/-- `mod_pow_u32` / `mod_pow_u64` (`self.mod_pow(exp as u64)`) -/
theorem gen_mod_pow_u32_eq (a e : Nat) (he : e < 4294967296) : Loops.bfe_mod_pow_u32 a e = some (modPow a e) := by
  unfold Loops.bfe_mod_pow_u32
  exact gen_mod_pow_eq a e (by omega)

theorem gen_mod_pow_u64_eq (a e : Nat) (he : e < 18446744073709551616) : Loops.bfe_mod_pow_u64 a e = some (modPow a e) := by
  unfold Loops.bfe_mod_pow_u64
  exact gen_mod_pow_eq a e he
end TF.GenBridge.BField
