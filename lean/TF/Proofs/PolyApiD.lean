import TF.Proofs.PolyDiv
import TF.Model.PolyApiD
/-! lemmas for `TF.Model.PolyD.truncateUsize` (API audit) -/
namespace TF.Model.PolyD
variable {K : Type} [Field K] (root : Nat → Option K)
local notation "FK" => FieldOps.ofField K root

theorem truncateUsize_eq (p : List K) (k : Nat) (h : k + 1 < 2 ^ 64) :
    truncateUsize FK p k = truncate FK p k := by
  unfold truncateUsize truncate USIZE_MOD
  rw [Nat.mod_eq_of_lt h]

theorem truncateUsize_max (p : List K) : truncateUsize FK p (2 ^ 64 - 1) = [] := by
  unfold truncateUsize USIZE_MOD
  have : (2 ^ 64 - 1 + 1) % 2 ^ 64 = 0 := by norm_num
  rw [this]; simp

end TF.Model.PolyD
