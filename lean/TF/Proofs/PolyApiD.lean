import TF.Proofs.PolyDiv
import TF.Model.PolyApiD
/-! lemmas for `TF.Model.PolyD.truncateUsize` (API audit) -/
namespace TF.Model.PolyD
variable {K : Type} [Field K] (root : Nat → Option K)
local notation "FK" => FieldOps.ofField K root

/-- after the repair F13: the saturating count takes as much as the mathematical `k + 1` for every polynomial with fewer
    than `2^64` coefficients (every one that fits in memory), for EVERY `k` -/
theorem truncateUsize_eq (p : List K) (k : Nat) (h : (revNorm FK p).length < 2 ^ 64) :
    truncateUsize FK p k = truncate FK p k := by
  unfold truncateUsize truncate USIZE_MOD
  by_cases hk : k + 1 ≤ 2 ^ 64 - 1
  · rw [Nat.min_eq_left hk]
  · rw [Nat.min_eq_right (by omega), List.take_of_length_le (by omega), List.take_of_length_le (by omega)]

theorem truncateBeforeF13_eq (p : List K) (k : Nat) (h : k + 1 < 2 ^ 64) :
    truncateBeforeF13 FK p k = truncate FK p k := by
  unfold truncateBeforeF13 truncate USIZE_MOD
  rw [Nat.mod_eq_of_lt h]

theorem truncateBeforeF13_max (p : List K) : truncateBeforeF13 FK p (2 ^ 64 - 1) = [] := by
  unfold truncateBeforeF13 USIZE_MOD
  have : (2 ^ 64 - 1 + 1) % 2 ^ 64 = 0 := by norm_num
  rw [this]; simp

end TF.Model.PolyD
