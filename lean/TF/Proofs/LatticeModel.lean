import TF.Proofs.LatticeFn
import TF.Proofs.NttModel
import TF.Model.Lattice
/-!
Connects the array model of the coset transforms (`TF/Model/Lattice.lean`, instantiated with the operations of a
commutative ring) to the function-level theory of `TF/Proofs/LatticeFn.lean`.
-/
namespace TF.LatticeProofs
open TF.Model.Ntt TF.Model.Lattice TF.NttFn TF.LatFn TF.NttProofs

variable {R : Type} [CommRing R] (inv : R → Option R) (inv0 : R → R)

/-- a table as a total function (1 outside, so that products of a table with its inverse table are 1 everywhere) -/
def tab (n : Nat) (a : Array R) : Nat → R := fun k => if k < n then a.getD k 0 else 1

theorem cosetNttStage_spec (m t : Nat) (psi : Array R) (x : Array R) :
    (cosetNttStage (ringOps R inv inv0) m t psi x).size = x.size ∧
    ∀ i, i < x.size →
      toFn (cosetNttStage (ringOps R inv inv0) m t psi x) i = stageC m t (fun k => psi.getD k 0) (toFn x) i := by
  constructor
  · simp [cosetNttStage]
  · intro i hi
    simp only [toFn, cosetNttStage, stageC, Array.getD_eq_getD_getElem?, Array.getElem?_ofFn, hi, dite_true,
      Option.getD_some]
    simp [ringOps]

theorem cosetInttStage_spec (h t : Nat) (psiInv : Array R) (x : Array R) :
    (cosetInttStage (ringOps R inv inv0) h t psiInv x).size = x.size ∧
    ∀ i, i < x.size →
      toFn (cosetInttStage (ringOps R inv inv0) h t psiInv x) i = stageCI h t (fun k => psiInv.getD k 0) (toFn x) i := by
  constructor
  · simp [cosetInttStage]
  · intro i hi
    simp only [toFn, cosetInttStage, stageCI, Array.getD_eq_getD_getElem?, Array.getElem?_ofFn, hi, dite_true,
      Option.getD_some]
    simp [ringOps]

/-- block arithmetic shared by the congruence lemmas -/
theorem block_bounds (t q i : Nat) (ht : 0 < t) (hi : i < 2*t*q) :
    i / (2*t) < q ∧ 2*t*(i/(2*t)) + i % (2*t) = i ∧ i % (2*t) < 2*t ∧ 2*t*(i/(2*t)) + 2*t ≤ 2*t*q := by
  have hd : i / (2*t) < q := Nat.div_lt_of_lt_mul hi
  refine ⟨hd, Nat.div_add_mod i (2*t), Nat.mod_lt _ (by omega), ?_⟩
  have := Nat.mul_le_mul_left (2*t) (show i/(2*t) + 1 ≤ q by omega)
  rw [Nat.mul_add, Nat.mul_one] at this
  exact this

theorem stageC_congr (m t n : Nat) (ht : 0 < t) (hdiv : 2*t ∣ n) (ζ ζ' : Nat → R) (f g : Nat → R)
    (hζ : ∀ b, b < n / (2*t) → ζ (m + b) = ζ' (m + b))
    (h : ∀ i, i < n → f i = g i) (i : Nat) (hi : i < n) : stageC m t ζ f i = stageC m t ζ' g i := by
  obtain ⟨q, rfl⟩ := hdiv
  have hq : 2*t*q / (2*t) = q := Nat.mul_div_cancel_left q (by omega)
  rw [hq] at hζ
  obtain ⟨hd, hdm, hr, hle⟩ := block_bounds t q i ht hi
  unfold stageC
  rw [hζ _ hd]
  by_cases hlt : i % (2*t) < t
  · simp only [hlt, if_true]; rw [h i hi, h (i + t) (by omega)]
  · simp only [hlt, if_false]; rw [h i hi, h (i - t) (by omega)]

theorem stageCI_congr' (hh t n : Nat) (ht : 0 < t) (hdiv : 2*t ∣ n) (ζ ζ' : Nat → R) (f g : Nat → R)
    (hζ : ∀ b, b < n / (2*t) → ζ (hh + b) = ζ' (hh + b))
    (h : ∀ i, i < n → f i = g i) (i : Nat) (hi : i < n) : stageCI hh t ζ f i = stageCI hh t ζ' g i := by
  obtain ⟨q, rfl⟩ := hdiv
  have hq : 2*t*q / (2*t) = q := Nat.mul_div_cancel_left q (by omega)
  rw [hq] at hζ
  obtain ⟨hd, hdm, hr, hle⟩ := block_bounds t q i ht hi
  unfold stageCI
  rw [hζ _ hd]
  by_cases hlt : i % (2*t) < t
  · simp only [hlt, if_true]; rw [h i hi, h (i + t) (by omega)]
  · simp only [hlt, if_false]; rw [h i hi, h (i - t) (by omega)]

theorem cosetNttLoop_spec (L : Nat) (psi : Array R) (y0 : Nat → R) :
    ∀ fuel s (x : Array R), s ≤ L → L - s ≤ fuel → x.size = 2^L →
    (∀ i, i < 2^L → toFn x i = cStages L (tab (2^L) psi) s y0 i) →
    (cosetNttLoop (ringOps R inv inv0) psi (2^L) fuel (2^s) (2^(L-s)) x).size = 2^L ∧
    ∀ i, i < 2^L → toFn (cosetNttLoop (ringOps R inv inv0) psi (2^L) fuel (2^s) (2^(L-s)) x) i
      = cStages L (tab (2^L) psi) L y0 i := by
  intro fuel
  induction fuel with
  | zero =>
    intro s x hs hf hx h
    have : s = L := by omega
    subst this
    exact ⟨hx, h⟩
  | succ f ih =>
    intro s x hs hf hx h
    rw [cosetNttLoop]
    by_cases hsL : s = L
    · subst hsL
      rw [if_neg (by omega)]
      exact ⟨hx, h⟩
    · have hlt : 2^s < 2^L := Nat.pow_lt_pow_right (by norm_num) (by omega)
      rw [if_pos hlt]
      obtain ⟨d, hd⟩ : ∃ d, L - s = d + 1 := ⟨L - s - 1, by omega⟩
      have hd' : L - (s+1) = d := by omega
      have hd'' : L - s - 1 = d := by omega
      have hhalf : 2^(L-s) / 2 = 2^d := by rw [hd, pow_succ]; omega
      rw [hhalf, show 2 * 2^s = 2^(s+1) by rw [pow_succ]; ring]
      have hst := cosetNttStage_spec inv inv0 (2^s) (2^d) psi x
      have hdiv : 2 * 2^d ∣ 2^L := by
        rw [show 2 * 2^d = 2^(d+1) by rw [pow_succ]; ring]
        exact pow_dvd_pow 2 (by omega)
      have hblocks : 2^L / (2 * 2^d) = 2^s := by
        rw [show 2 * 2^d = 2^(d+1) by rw [pow_succ]; ring, Nat.pow_div (by omega) (by norm_num)]
        congr 1; omega
      have h2s : 2^s + 2^s ≤ 2^L := by
        have : 2^(s+1) ≤ 2^L := Nat.pow_le_pow_right (by norm_num) (by omega)
        rw [pow_succ] at this; omega
      have := ih (s+1) (cosetNttStage (ringOps R inv inv0) (2^s) (2^d) psi x) (by omega) (by omega)
        (by rw [hst.1, hx]) (by
          intro i hi
          rw [hst.2 i (by omega), cStages, hd'']
          apply stageC_congr (2^s) (2^d) (2^L) (by positivity) hdiv _ _ _ _ _ h i hi
          intro b hb
          rw [hblocks] at hb
          simp only [tab]
          rw [if_pos (by omega)])
      rw [hd'] at this
      exact this

theorem cosetInttLoop_spec (L : Nat) (psiInv : Array R) (y0 : Nat → R) :
    ∀ f k hh (x : Array R), k + f ≤ L → (0 < f → hh = 2^(L-k-1)) → x.size = 2^L →
    (∀ i, i < 2^L → toFn x i = ciStages L (tab (2^L) psiInv) k y0 i) →
    (cosetInttLoop (ringOps R inv inv0) psiInv f (2^k) hh x).size = 2^L ∧
    ∀ i, i < 2^L → toFn (cosetInttLoop (ringOps R inv inv0) psiInv f (2^k) hh x) i
      = ciStages L (tab (2^L) psiInv) (k + f) y0 i := by
  intro f
  induction f with
  | zero => intro k hh x _ _ hx h; exact ⟨hx, h⟩
  | succ f ih =>
    intro k hh x hk hhh hx h
    rw [cosetInttLoop]
    have hh' : hh = 2^(L-k-1) := hhh (by omega)
    subst hh'
    have hst := cosetInttStage_spec inv inv0 (2^(L-k-1)) (2^k) psiInv x
    have hdiv : 2 * 2^k ∣ 2^L := by
      rw [show 2 * 2^k = 2^(k+1) by rw [pow_succ]; ring]
      exact pow_dvd_pow 2 (by omega)
    have hblocks : 2^L / (2 * 2^k) = 2^(L-k-1) := by
      rw [show 2 * 2^k = 2^(k+1) by rw [pow_succ]; ring, Nat.pow_div (by omega) (by norm_num)]
      congr 1
    have h2 : 2^(L-k-1) + 2^(L-k-1) ≤ 2^L := by
      have : 2^(L-k-1+1) ≤ 2^L := Nat.pow_le_pow_right (by norm_num) (by omega)
      rw [pow_succ] at this; omega
    have := ih (k+1) (2^(L-k-1) / 2) (cosetInttStage (ringOps R inv inv0) (2^(L-k-1)) (2^k) psiInv x) (by omega)
      (by
        intro hf
        obtain ⟨e, he⟩ : ∃ e, L - k - 1 = e + 1 := ⟨L - k - 2, by omega⟩
        rw [he, pow_succ, Nat.mul_div_cancel _ (by norm_num)]
        congr 1; omega)
      (by rw [hst.1, hx]) (by
        intro i hi
        rw [hst.2 i (by omega), ciStages]
        apply stageCI_congr' (2^(L-k-1)) (2^k) (2^L) (by positivity) hdiv _ _ _ _ _ h i hi
        intro b hb
        rw [hblocks] at hb
        simp only [tab]
        rw [if_pos (by omega)])
    rw [show 2 * 2^k = 2^(k+1) by rw [pow_succ]; ring]
    rw [show k + 1 + f = k + (f + 1) by omega] at this
    exact this

/-- the forward transform of the model, for length `2^L` -/
theorem cosetNttLoop_eq (L : Nat) (psi : Array R) (x : Array R) (hx : x.size = 2^L) :
    (cosetNttLoop (ringOps R inv inv0) psi (2^L) (2^L) 1 (2^L) x).size = 2^L ∧
    ∀ i, i < 2^L → toFn (cosetNttLoop (ringOps R inv inv0) psi (2^L) (2^L) 1 (2^L) x) i
      = cStages L (tab (2^L) psi) L (toFn x) i := by
  have := cosetNttLoop_spec inv inv0 L psi (toFn x) (2^L) 0 x (Nat.zero_le _)
    (by have := @Nat.lt_two_pow_self L; omega) hx (by intro i _; rfl)
  simpa using this

/-- the inverse loop of the model (before scaling), for length `2^L`, `L ≥ 1` -/
theorem cosetInttLoop_eq (L : Nat) (hL : 0 < L) (psiInv : Array R) (x : Array R) (hx : x.size = 2^L) :
    (cosetInttLoop (ringOps R inv inv0) psiInv L 1 (2^L / 2) x).size = 2^L ∧
    ∀ i, i < 2^L → toFn (cosetInttLoop (ringOps R inv inv0) psiInv L 1 (2^L / 2) x) i
      = ciStages L (tab (2^L) psiInv) L (toFn x) i := by
  have := cosetInttLoop_spec inv inv0 L psiInv (toFn x) L 0 (2^L / 2) x (by omega)
    (by
      intro _
      obtain ⟨e, he⟩ : ∃ e, L = e + 1 := ⟨L - 1, by omega⟩
      rw [he, pow_succ, Nat.mul_div_cancel _ (by norm_num)]
      congr 1)
    hx (by intro i _; rfl)
  simpa using this

end TF.LatticeProofs
