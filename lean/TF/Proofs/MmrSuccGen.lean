import TF.Proofs.MmrSuccBlk
import TF.Proofs.MmrSuccUnfold
/-!
Completeness of `MmrSuccessorProof::new_from_batch_append` (C12): the model `newFromBatchAppend`
(`TF/Model/MmrSucc.lean`) returns, for every old peak, the digests of the sibling blocks on the way up to the new peak
above it, and this proof is accepted by `verify`.

Part 1 (this file): the needed-sibling walk (`neededLoop`) in block coordinates.
-/
namespace TF.MmrE
open TF TF.Gen TF.Model.Mmr TF.Model.MmrE TF.Spec.MmrE TF.Spec.Mmr

/-- every node but the root of the `2^64 − 1`-node tree has a parent with a larger index -/
theorem parent_some_gt (x : Nat) (h1 : 1 ≤ x) (h2 : x < 2 ^ 64 - 1) : ∃ p, parent x = some p ∧ x < p := by
  have h64 : (2:Nat) ^ 64 = 18446744073709551616 := by decide
  obtain ⟨r, hr, rfl⟩ := TF.Mmr.rows_idx_complete 63 0 0 0 0 false 0 1 [] x (by omega) (by omega)
  by_cases hp : r.parent = 0
  · rcases TF.Mmr.rows_parent_range 63 0 0 0 0 false 0 1 [] r hr with ⟨h, _⟩ | ⟨h, _⟩
    · omega
    · omega
  · refine ⟨r.parent, TF.Mmr.parent_rows r hr hp, ?_⟩
    have ha := TF.Mmr.rootRows_arith 63 r hr
    have hpos := Nat.two_pow_pos (r.height + 1)
    by_cases hrll : r.rll = 0
    · have := ha.left_child hp hrll; omega
    · have := ha.right_child hp hrll; omega

theorem mul_pow_succ_le (a l : Nat) (hl : l < 63) (h : a * 2 ^ (l + 1) < 2 ^ 63) : (a + 1) * 2 ^ (l + 1) ≤ 2 ^ 63 := by
  have e : (2:Nat) ^ 63 = 2 ^ (62 - l) * 2 ^ (l + 1) := by rw [← Nat.pow_add]; congr 1; omega
  rw [e] at h ⊢
  have := Nat.lt_of_mul_lt_mul_right h
  exact Nat.mul_le_mul_right _ this

/-- `left_sibling` / `right_sibling` of the node `(l, j)` -/
theorem sibling_spec (l j : Nat) (hl : l < 63) (hlt : nodeIdx (l + 1) (j / 2) < 2 ^ 64) :
    (j % 2 = 1 → left_sibling (nodeIdx l j) l = nodeIdx l (sibBlk j)) ∧
    (j % 2 = 0 → right_sibling (nodeIdx l j) l = nodeIdx l (sibBlk j)) := by
  have hpar := nodeIdx_lt_parent l j
  have h := siblingAndParent_spec l j hl hlt
  unfold siblingAndParent at h
  rw [rll_spec l j (by omega)] at h
  simp only at h
  constructor
  · intro hodd
    rw [if_pos ((trailingOnes_ne_zero_iff j).mpr hodd)] at h
    exact (Prod.mk.inj (Prod.mk.inj (Option.some.inj h)).2).1
  · intro hev
    rw [if_neg (fun hc => by have := (trailingOnes_ne_zero_iff j).mp hc; omega)] at h
    exact (Prod.mk.inj (Prod.mk.inj (Option.some.inj h)).2).1

/-- one round of the `while !indices_of_new_peaks.contains(&current_index)` loop at the node `(l, j)` -/
theorem neededLoop_step (newIdx : List Nat) (fuel l j : Nat) (acc : List Nat)
    (hb : bend (l + 1) (j / 2) < 2 ^ 63) (hnc : nodeIdx l j ∉ newIdx) :
    neededLoop newIdx (fuel + 1) (nodeIdx l j) l acc
      = neededLoop newIdx fuel (nodeIdx (l + 1) (j / 2)) (l + 1) (acc ++ [nodeIdx l (sibBlk j)]) := by
  have hl1 : l + 1 < 63 := level_lt_of_bend (l + 1) (j / 2) _ (Nat.le_refl _) hb
  have hl : l < 63 := by omega
  have hlt : nodeIdx (l + 1) (j / 2) < 2 ^ 64 := nodeIdx_lt_of_bend (l + 1) (j / 2) _ (Nat.le_refl _) hb
  have hpar := nodeIdx_lt_parent l j
  have hinc : inc32 l = l + 1 := by unfold inc32 W32; omega
  have hcont : newIdx.contains (nodeIdx l j) = false := by
    simpa using hnc
  rw [neededLoop_succ, hcont, parent_spec l j hl hlt]
  have hsib := sibling_spec l j hl hlt
  by_cases hev : j % 2 = 0
  · have hs : sibBlk j = j + 1 := by unfold sibBlk; rw [if_pos hev]
    have e : (j + 1) / 2 = j / 2 := by omega
    rw [hsib.2 hev, hs, parent_spec l (j + 1) hl (by rw [e]; exact hlt), e]
    simp only [Bool.false_eq_true, if_false, hinc, Option.bind_some, ne_eq, not_true_eq_false]
  · have hodd : j % 2 = 1 := by omega
    have e : j = 2 * (j / 2) + 1 := by omega
    have hr := nodeIdx_right l (j / 2)
    rw [← e] at hr
    have h2 := two_pow_le_nodeIdx l j
    have heq := nodeIdx_eq l j
    have hpcpos : 1 ≤ TF.popCount j := by
      rw [popCount_unfold]; omega
    -- the node "to the right" is some other node with a larger parent
    have hbnd : (j / 2 + 1 + 1) * 2 ^ (l + 1) ≤ 2 ^ 63 := mul_pow_succ_le (j / 2 + 1) l hl (by unfold bend at hb; exact hb)
    have hmul : (j + 1) * 2 ^ (l + 1) + 2 * 2 ^ (l + 1) = 2 * ((j / 2 + 1 + 1) * 2 ^ (l + 1)) := by
      have : j + 1 = 2 * (j / 2 + 1) := by omega
      rw [this]; ring
    have hpos : 0 < 2 ^ (l + 1) := Nat.pow_pos (by omega)
    have h64 : (2:Nat) ^ 64 = 2 * 2 ^ 63 := by rw [← Nat.pow_succ']
    have hrs := (TF.Mmr.right_sibling_spec (nodeIdx l j) l hl (by omega)).1
    obtain ⟨p, hp, hgt⟩ := parent_some_gt (nodeIdx l j + 2 ^ (l + 1) - 1) (by omega) (by omega)
    have hne : p ≠ nodeIdx (l + 1) (j / 2) := by omega
    rw [hrs, hp, hsib.1 hodd]
    simp only [Bool.false_eq_true, if_false, hinc, Option.bind_some, ne_eq, hne, not_false_eq_true, if_true]

/-- the whole walk: from the node `(l, j)`, `d` rounds up to the first new peak, collecting the sibling blocks -/
theorem neededLoop_walk (newIdx : List Nat) : ∀ (d l j : Nat) (acc : List Nat) (fuel : Nat), d < fuel →
    (∀ t < d, nodeIdx (l + t) (j / 2 ^ t) ∉ newIdx) → nodeIdx (l + d) (j / 2 ^ d) ∈ newIdx →
    bend (l + d) (j / 2 ^ d) < 2 ^ 63 →
    neededLoop newIdx fuel (nodeIdx l j) l acc
      = some (acc ++ (List.range d).map (fun t => nodeIdx (l + t) (sibBlk (j / 2 ^ t)))) := by
  intro d
  induction d with
  | zero =>
    intro l j acc fuel hf _ hin _
    obtain ⟨f, rfl⟩ : ∃ f, fuel = f + 1 := ⟨fuel - 1, by omega⟩
    have hc : newIdx.contains (nodeIdx l j) = true := by simpa using hin
    rw [neededLoop_succ, hc]
    simp
  | succ d ih =>
    intro l j acc fuel hf hnot hin hb
    obtain ⟨f, rfl⟩ : ∃ f, fuel = f + 1 := ⟨fuel - 1, by omega⟩
    have ediv : j / 2 / 2 ^ d = j / 2 ^ (d + 1) := by rw [Nat.div_div_eq_div_mul, Nat.pow_succ']
    have e1 : l + 1 + d = l + (d + 1) := by omega
    have hanc := bend_le_anc (l + 1) (j / 2) d
    rw [ediv, e1] at hanc
    have h0 := hnot 0 (by omega)
    simp only [Nat.add_zero, Nat.pow_zero, Nat.div_one] at h0
    rw [neededLoop_step newIdx f l j acc (by omega) h0]
    rw [ih (l + 1) (j / 2) _ f (by omega) (fun t ht => by
        have := hnot (t + 1) (by omega)
        have e : l + 1 + t = l + (t + 1) := by omega
        rw [Nat.div_div_eq_div_mul, ← Nat.pow_succ', e]; exact this)
      (by rw [ediv, e1]; exact hin) (by rw [ediv, e1]; exact hb)]
    congr 1
    rw [List.append_assoc]
    congr 1
    rw [List.range_succ_eq_map, List.map_cons, List.map_map]
    simp only [List.singleton_append, Nat.pow_zero, Nat.div_one, Nat.add_zero, List.cons.injEq, true_and]
    apply List.map_congr_left
    intro t _
    simp only [Function.comp, Nat.succ_eq_add_one]
    have e : l + 1 + t = l + (t + 1) := by omega
    rw [Nat.div_div_eq_div_mul, ← Nat.pow_succ', e]

/-- node indices of the peaks of the MMR with `n` leaves -/
def peakIdx (n : Nat) : List Nat := (peakBlk n).map (fun b => nodeIdx b.1 b.2)

theorem mem_peakIdx (n l b : Nat) (hn : n < 2 ^ 63) : nodeIdx l b ∈ peakIdx n ↔ (l, b) ∈ peakBlk n := by
  unfold peakIdx
  rw [List.mem_map]
  constructor
  · rintro ⟨⟨l', b'⟩, hmem, heq⟩
    have hlt := nodeIdx_lt_of_bend l' b' n (mem_peakBlk_bend n l' b' hmem) hn
    obtain ⟨rfl, rfl⟩ := nodeIdx_inj l' b' l b hlt heq
    exact hmem
  · intro h; exact ⟨(l, b), h, rfl⟩

/-- number of levels between the block `(h, j)` and the peak above it in the MMR with `n` leaves -/
def upLen (n h j : Nat) : Nat := (locate n (j * 2 ^ h)).1 - h

/-- the sibling blocks on the way up from `(h, j)`, `d` levels -/
def sibBlks (h j d : Nat) : List (Nat × Nat) := (List.range d).map (fun t => (h + t, sibBlk (j / 2 ^ t)))

theorem sibBlks_length (h j d : Nat) : (sibBlks h j d).length = d := by simp [sibBlks]

/-- facts about the chain of ancestors of a block inside the MMR with `n` leaves -/
theorem chain_facts (n h j : Nat) (hb : bend h j ≤ n) :
    (∀ t < upLen n h j, (h + t, j / 2 ^ t) ∉ peakBlk n) ∧
    (h + upLen n h j, j / 2 ^ upLen n h j) ∈ peakBlk n ∧
    h + upLen n h j = (locate n (j * 2 ^ h)).1 := by
  obtain ⟨hle, _⟩ := locate_block h j n hb
  have hpos : 0 < 2 ^ h := Nat.pow_pos (by omega)
  have hlt : j * 2 ^ h < n := by
    unfold bend at hb
    have : (j + 1) * 2 ^ h = j * 2 ^ h + 2 ^ h := by ring
    omega
  have hL : h + upLen n h j = (locate n (j * 2 ^ h)).1 := by unfold upLen; omega
  refine ⟨?_, ?_, hL⟩
  · intro t ht hmem
    have := locate_of_mem_peakBlk (h + t) n (j * 2 ^ h) (by rw [blk_div]; exact hmem)
    omega
  · have := peakBlk_getElem_locate n (j * 2 ^ h) hlt
    rw [← hL, blk_div] at this
    exact List.mem_of_getElem? this

/-- **the needed-sibling walk of `new_from_batch_append`** for the old peak `(h, j)`: the node indices of the sibling
    blocks up to the new peak above it, lowest first -/
theorem needed_spec (n h j : Nat) (hb : bend h j ≤ n) (hn : n < 2 ^ 63) :
    neededLoop (peakIdx n) (2 * descentFuel) (nodeIdx h j) h []
      = some ((sibBlks h j (upLen n h j)).map (fun b => nodeIdx b.1 b.2)) := by
  obtain ⟨h1, h2, h3⟩ := chain_facts n h j hb
  have hbend := mem_peakBlk_bend n _ _ h2
  have hl := level_lt_of_bend _ _ n hbend hn
  have := neededLoop_walk (peakIdx n) (upLen n h j) h j [] (2 * descentFuel) (by unfold descentFuel; omega)
    (fun t ht hmem => h1 t ht ((mem_peakIdx n _ _ hn).mp hmem)) ((mem_peakIdx n _ _ hn).mpr h2) (by omega)
  rw [this]
  simp [sibBlks, List.map_map, Function.comp_def]

end TF.MmrE
