import TF.Proofs.MmrSuccBlk
import TF.Proofs.MmrSuccUnfold
/-!
Completeness of `MmrSuccessorProof::new_from_batch_append` (C12): the model `newFromBatchAppend`
(`TF/Model/MmrSucc.lean`) returns, for every old peak, the digests of the sibling blocks on the way up to the new peak
above it, and this proof is accepted by `verify`.

Part 1 (this file): the needed-sibling walk (`neededLoop`) in block coordinates.
-/
namespace TF.MmrE
open TF TF.Gen TF.Model.Mmr TF.Model.MmrE TF.Spec.MmrE TF.Spec.Mmr

/-- every node but the root of the `2^64 − 1`-node tree has a parent with a larger index -/
theorem parent_some_gt (x : Nat) (h1 : 1 ≤ x) (h2 : x < 2 ^ 64 - 1) : ∃ p, parent x = some p ∧ x < p := by
  have h64 : (2:Nat) ^ 64 = 18446744073709551616 := by decide
  obtain ⟨r, hr, rfl⟩ := TF.Mmr.rows_idx_complete 63 0 0 0 0 false 0 1 [] x (by omega) (by omega)
  by_cases hp : r.parent = 0
  · rcases TF.Mmr.rows_parent_range 63 0 0 0 0 false 0 1 [] r hr with ⟨h, _⟩ | ⟨h, _⟩
    · omega
    · omega
  · refine ⟨r.parent, TF.Mmr.parent_rows r hr hp, ?_⟩
    have ha := TF.Mmr.rootRows_arith 63 r hr
    have hpos := Nat.two_pow_pos (r.height + 1)
    by_cases hrll : r.rll = 0
    · have := ha.left_child hp hrll; omega
    · have := ha.right_child hp hrll; omega

theorem mul_pow_succ_le (a l : Nat) (hl : l < 63) (h : a * 2 ^ (l + 1) < 2 ^ 63) : (a + 1) * 2 ^ (l + 1) ≤ 2 ^ 63 := by
  have e : (2:Nat) ^ 63 = 2 ^ (62 - l) * 2 ^ (l + 1) := by rw [← Nat.pow_add]; congr 1; omega
  rw [e] at h ⊢
  have := Nat.lt_of_mul_lt_mul_right h
  exact Nat.mul_le_mul_right _ this

/-- `left_sibling` / `right_sibling` of the node `(l, j)` -/
theorem sibling_spec (l j : Nat) (hl : l < 63) (hlt : nodeIdx (l + 1) (j / 2) < 2 ^ 64) :
    (j % 2 = 1 → left_sibling (nodeIdx l j) l = nodeIdx l (sibBlk j)) ∧
    (j % 2 = 0 → right_sibling (nodeIdx l j) l = nodeIdx l (sibBlk j)) := by
  have hpar := nodeIdx_lt_parent l j
  have h := siblingAndParent_spec l j hl hlt
  unfold siblingAndParent at h
  rw [rll_spec l j (by omega)] at h
  simp only at h
  constructor
  · intro hodd
    rw [if_pos ((trailingOnes_ne_zero_iff j).mpr hodd)] at h
    exact (Prod.mk.inj (Prod.mk.inj (Option.some.inj h)).2).1
  · intro hev
    rw [if_neg (fun hc => by have := (trailingOnes_ne_zero_iff j).mp hc; omega)] at h
    exact (Prod.mk.inj (Prod.mk.inj (Option.some.inj h)).2).1

/-- one round of the `while !indices_of_new_peaks.contains(&current_index)` loop at the node `(l, j)` -/
theorem neededLoop_step (newIdx : List Nat) (fuel l j : Nat) (acc : List Nat)
    (hb : bend (l + 1) (j / 2) < 2 ^ 63) (hnc : nodeIdx l j ∉ newIdx) :
    neededLoop newIdx (fuel + 1) (nodeIdx l j) l acc
      = neededLoop newIdx fuel (nodeIdx (l + 1) (j / 2)) (l + 1) (acc ++ [nodeIdx l (sibBlk j)]) := by
  have hl1 : l + 1 < 63 := level_lt_of_bend (l + 1) (j / 2) _ (Nat.le_refl _) hb
  have hl : l < 63 := by omega
  have hlt : nodeIdx (l + 1) (j / 2) < 2 ^ 64 := nodeIdx_lt_of_bend (l + 1) (j / 2) _ (Nat.le_refl _) hb
  have hpar := nodeIdx_lt_parent l j
  have hinc : inc32 l = l + 1 := by unfold inc32 W32; omega
  have hcont : newIdx.contains (nodeIdx l j) = false := by
    simpa using hnc
  rw [neededLoop_succ, hcont, parent_spec l j hl hlt]
  have hsib := sibling_spec l j hl hlt
  by_cases hev : j % 2 = 0
  · have hs : sibBlk j = j + 1 := by unfold sibBlk; rw [if_pos hev]
    have e : (j + 1) / 2 = j / 2 := by omega
    rw [hsib.2 hev, hs, parent_spec l (j + 1) hl (by rw [e]; exact hlt), e]
    simp only [Bool.false_eq_true, if_false, hinc, Option.bind_some, ne_eq, not_true_eq_false]
  · have hodd : j % 2 = 1 := by omega
    have e : j = 2 * (j / 2) + 1 := by omega
    have hr := nodeIdx_right l (j / 2)
    rw [← e] at hr
    have h2 := two_pow_le_nodeIdx l j
    have heq := nodeIdx_eq l j
    have hpcpos : 1 ≤ TF.popCount j := by
      rw [popCount_unfold]; omega
    -- the node "to the right" is some other node with a larger parent
    have hbnd : (j / 2 + 1 + 1) * 2 ^ (l + 1) ≤ 2 ^ 63 := mul_pow_succ_le (j / 2 + 1) l hl (by unfold bend at hb; exact hb)
    have hmul : (j + 1) * 2 ^ (l + 1) + 2 * 2 ^ (l + 1) = 2 * ((j / 2 + 1 + 1) * 2 ^ (l + 1)) := by
      have : j + 1 = 2 * (j / 2 + 1) := by omega
      rw [this]; ring
    have hpos : 0 < 2 ^ (l + 1) := Nat.pow_pos (by omega)
    have h64 : (2:Nat) ^ 64 = 2 * 2 ^ 63 := by rw [← Nat.pow_succ']
    have hrs := (TF.Mmr.right_sibling_spec (nodeIdx l j) l hl (by omega)).1
    obtain ⟨p, hp, hgt⟩ := parent_some_gt (nodeIdx l j + 2 ^ (l + 1) - 1) (by omega) (by omega)
    have hne : p ≠ nodeIdx (l + 1) (j / 2) := by omega
    rw [hrs, hp, hsib.1 hodd]
    simp only [Bool.false_eq_true, if_false, hinc, Option.bind_some, ne_eq, hne, not_false_eq_true, if_true]

end TF.MmrE
