import TF.Proofs.MmrMember
import TF.Proofs.MmrNodeIndex
/-!
Helper lemmas for C05, leaf mutations: `update_from_leaf_mutation`, `batch_update_from_leaf_mutation`,
`batch_update_from_batch_leaf_mutation` (`TF/Model/MmrMember.lean`) against the from-scratch authentication paths.

Notation: the node `(l, b)` is the root of the aligned block `b` of `2^l` leaves; its digest is `sub H f l b`, its
post-order index `nodeIdx l b`.  The `t`-th digest of the path of leaf `i` belongs to the node `(t, sibBlk (i / 2^t))`;
a mutation of leaf `j` changes the nodes `(t, j / 2^t)`.
-/
namespace TF.MmrE
open TF TF.Gen TF.Spec.MmrE TF.Model.MmrE TF.Model.Mmr

/-! ### blocks -/

theorem div_pow_succ (x t : Nat) : x / 2 ^ (t + 1) = x / 2 ^ t / 2 := by
  rw [Nat.pow_succ, Nat.div_div_eq_div_mul]

theorem div_pow_succ' (x t : Nat) : x / 2 ^ (t + 1) = x / 2 / 2 ^ t := by
  rw [Nat.pow_succ', Nat.div_div_eq_div_mul]

theorem div_pow_add (x a b : Nat) : x / 2 ^ (a + b) = x / 2 ^ a / 2 ^ b := by
  rw [Nat.pow_add, Nat.div_div_eq_div_mul]

theorem sibBlk_ne (x : Nat) : sibBlk x ≠ x := by unfold sibBlk; split <;> omega

theorem sibBlk_half (x : Nat) : sibBlk x / 2 = x / 2 := by unfold sibBlk; split <;> omega

theorem sibBlk_sibBlk (x : Nat) : sibBlk (sibBlk x) = x := by unfold sibBlk; split <;> split <;> omega

/-- the block `(t, x / 2^t)` ends after `x` -/
theorem succ_le_block (x t : Nat) : x + 1 ≤ (x / 2 ^ t + 1) * 2 ^ t := by
  have hp : 0 < 2 ^ t := Nat.pow_pos (by omega)
  have hdm := Nat.div_add_mod x (2 ^ t)
  have hml := Nat.mod_lt x hp
  have : (x / 2 ^ t + 1) * 2 ^ t = 2 ^ t * (x / 2 ^ t) + 2 ^ t := by
    rw [Nat.add_mul, Nat.one_mul, Nat.mul_comm]
  omega

/-- blocks are nested: the end of the level-`t` block of `x` is at most the end of its level-`(t+d)` block -/
theorem block_mono (x t d : Nat) : (x / 2 ^ t + 1) * 2 ^ t ≤ (x / 2 ^ (t + d) + 1) * 2 ^ (t + d) := by
  have h := succ_le_block (x / 2 ^ t) d
  rw [← div_pow_add] at h
  calc (x / 2 ^ t + 1) * 2 ^ t ≤ ((x / 2 ^ (t + d) + 1) * 2 ^ d) * 2 ^ t := Nat.mul_le_mul_right _ h
    _ = (x / 2 ^ (t + d) + 1) * 2 ^ (t + d) := by rw [Nat.pow_add]; ac_rfl

/-- the sibling block lies inside the parent block -/
theorem sib_block_le (y t : Nat) : (sibBlk y + 1) * 2 ^ t ≤ (y / 2 + 1) * 2 ^ (t + 1) := by
  have h1 : sibBlk y + 1 ≤ (y / 2 + 1) * 2 := by unfold sibBlk; split <;> omega
  calc (sibBlk y + 1) * 2 ^ t ≤ ((y / 2 + 1) * 2) * 2 ^ t := Nat.mul_le_mul_right _ h1
    _ = (y / 2 + 1) * 2 ^ (t + 1) := by rw [Nat.pow_succ]; ac_rfl

/-- the block of the tree of leaf `i` lies inside the range -/
theorem tree_block_le (n i : Nat) (h : i < n) : (i / 2 ^ (locate n i).1 + 1) * 2 ^ (locate n i).1 ≤ n := by
  have h1 := locate_block_le n i h
  have hp : 0 < 2 ^ (locate n i).1 := Nat.pow_pos (by omega)
  have hdm := Nat.div_add_mod i (2 ^ (locate n i).1)
  have : (i / 2 ^ (locate n i).1 + 1) * 2 ^ (locate n i).1
      = 2 ^ (locate n i).1 * (i / 2 ^ (locate n i).1) + 2 ^ (locate n i).1 := by
    rw [Nat.add_mul, Nat.one_mul, Nat.mul_comm]
  omega

/-- every block `(t, i / 2^t)` up to the height of the tree of `i` lies inside the range -/
theorem anc_block_le (n i t : Nat) (h : i < n) (ht : t ≤ (locate n i).1) : (i / 2 ^ t + 1) * 2 ^ t ≤ n := by
  obtain ⟨d, hd⟩ : ∃ d, (locate n i).1 = t + d := ⟨(locate n i).1 - t, by omega⟩
  have := block_mono i t d
  have h2 := tree_block_le n i h
  rw [hd] at h2
  omega

/-- a leaf whose level-`h` block lies inside the range sits in a tree of height at least `h` -/
theorem locate_height_ge' : ∀ (h n j : Nat), (j / 2 ^ h + 1) * 2 ^ h ≤ n → h ≤ (locate n j).1 := by
  intro h
  induction h with
  | zero => intros; omega
  | succ h ih =>
    intro n j hb
    have hj := succ_le_block j (h + 1)
    have hn : n ≠ 0 := by omega
    rw [locate_unfold n j hn]
    have hb2 : (j / 2 / 2 ^ h + 1) * 2 ^ h ≤ n / 2 := by
      rw [div_pow_succ', Nat.pow_succ] at hb
      have : (j / 2 / 2 ^ h + 1) * (2 ^ h * 2) = 2 * ((j / 2 / 2 ^ h + 1) * 2 ^ h) := by ac_rfl
      omega
    have hj2 := succ_le_block (j / 2) h
    by_cases hc : n % 2 = 1 ∧ j = n - 1
    · omega
    · rw [if_neg hc]
      have := ih (n / 2) (j / 2) hb2
      simp only
      omega

/-- meeting points are unique: if leaf `j` lies under the sibling block of `i` at level `t`, it lies under the
    ancestor blocks of `i` at all higher levels -/
theorem meet_above (i j t t' : Nat) (h : sibBlk (i / 2 ^ t) = j / 2 ^ t) (ht : t < t') : j / 2 ^ t' = i / 2 ^ t' := by
  obtain ⟨d, rfl⟩ : ∃ d, t' = t + 1 + d := ⟨t' - t - 1, by omega⟩
  rw [div_pow_add j, div_pow_add i, div_pow_succ j, div_pow_succ i, ← h, sibBlk_half]

theorem meet_unique (i j t t' : Nat) (h : sibBlk (i / 2 ^ t) = j / 2 ^ t) (h' : sibBlk (i / 2 ^ t') = j / 2 ^ t') :
    t = t' := by
  rcases Nat.lt_trichotomy t t' with hlt | heq | hgt
  · have := meet_above i j t t' h hlt
    rw [this] at h'; exact absurd h' (sibBlk_ne _)
  · exact heq
  · have := meet_above i j t' t h' hgt
    rw [this] at h; exact absurd h (sibBlk_ne _)

/-! ### association lists -/

section Maps
variable {D : Type}

theorem get?_cons (m : AMap D) (k k' : Nat) (v : D) :
    AMap.get? ((k', v) :: m) k = if k' = k then some v else AMap.get? m k := rfl

theorem get?_insert (m : AMap D) (k k' : Nat) (v : D) :
    AMap.get? (m.insert k' v) k = if k' = k then some v else AMap.get? m k := rfl

theorem get?_nil (k : Nat) : AMap.get? ([] : AMap D) k = none := rfl

theorem get?_append (a b : AMap D) (k : Nat) :
    AMap.get? (a ++ b) k = (AMap.get? a k).or (AMap.get? b k) := by
  induction a with
  | nil => simp [get?_nil]
  | cons p a ih =>
    obtain ⟨k', v⟩ := p
    rw [List.cons_append, get?_cons, get?_cons, ih]
    split <;> simp

theorem get?_some_mem (a : AMap D) (k : Nat) (v : D) (h : AMap.get? a k = some v) : (k, v) ∈ a := by
  induction a with
  | nil => simp [get?_nil] at h
  | cons p a ih =>
    obtain ⟨k', v'⟩ := p
    rw [get?_cons] at h
    by_cases hk : k' = k
    · rw [if_pos hk] at h; cases h; subst hk; simp
    · rw [if_neg hk] at h; exact List.mem_cons_of_mem _ (ih h)

theorem get?_none_not_mem (a : AMap D) (k : Nat) (h : AMap.get? a k = none) (v : D) : (k, v) ∉ a := by
  induction a with
  | nil => simp
  | cons p a ih =>
    obtain ⟨k', v'⟩ := p
    rw [get?_cons] at h
    by_cases hk : k' = k
    · rw [if_pos hk] at h; cases h
    · rw [if_neg hk] at h
      intro hm
      rcases List.mem_cons.mp hm with he | hm'
      · cases he; exact hk rfl
      · exact ih h hm'

theorem get?_isSome_of_mem (a : AMap D) (k : Nat) (v : D) (h : (k, v) ∈ a) : (AMap.get? a k).isSome := by
  cases hg : AMap.get? a k with
  | none => exact absurd h (get?_none_not_mem a k hg v)
  | some _ => rfl

end Maps

/-! ### the walk up the mutated leaf's path -/

section Walk
variable {D : Type} [DecidableEq D] (H : D → D → D)

/-- the insertions of a walk of `up` steps from the node `(l, jb)`: the ancestors with their digests in `f` -/
def walkIns (f : Nat → D) : (up l jb : Nat) → AMap D → AMap D
  | 0, _, _, m => m
  | up+1, l, jb, m => walkIns f up (l + 1) (jb / 2) (m.insert (nodeIdx (l + 1) (jb / 2)) (sub H f (l + 1) (jb / 2)))

omit [DecidableEq D] in
/-- keys that are not ancestors are not touched -/
theorem walkIns_get?_other (f : Nat → D) (key : Nat) : ∀ (up l jb : Nat) (m : AMap D),
    (∀ k < up, key ≠ nodeIdx (l + k + 1) (jb / 2 ^ (k + 1))) →
    AMap.get? (walkIns H f up l jb m) key = AMap.get? m key := by
  intro up
  induction up with
  | zero => intros; rfl
  | succ up ih =>
    intro l jb m h
    rw [walkIns, ih (l + 1) (jb / 2)]
    · rw [get?_insert, if_neg]
      have := h 0 (by omega)
      simpa using fun e => this e.symm
    · intro k hk
      have := h (k + 1) (by omega)
      rw [div_pow_succ' jb (k + 1)] at this
      have e : l + (k + 1) + 1 = l + 1 + k + 1 := by omega
      rw [e] at this; exact this

omit [DecidableEq D] in
/-- every ancestor passed is stored with its digest -/
theorem walkIns_get?_anc (f : Nat → D) : ∀ (up l jb : Nat) (m : AMap D) (k : Nat), k < up →
    AMap.get? (walkIns H f up l jb m) (nodeIdx (l + k + 1) (jb / 2 ^ (k + 1)))
      = some (sub H f (l + k + 1) (jb / 2 ^ (k + 1))) := by
  intro up
  induction up with
  | zero => intros; omega
  | succ up ih =>
    intro l jb m k hk
    rw [walkIns]
    cases k with
    | zero =>
      rw [walkIns_get?_other]
      · simp [get?_insert]
      · intro k' _
        have := nodeIdx_lt_ancestor (l + 1) (jb / 2) (k' + 1) (by omega)
        have e : l + 1 + (k' + 1) = l + 1 + k' + 1 := by omega
        rw [e] at this
        simp only [Nat.zero_add, Nat.add_zero, Nat.pow_one]
        omega
    | succ k =>
      have := ih (l + 1) (jb / 2) (m.insert (nodeIdx (l + 1) (jb / 2)) (sub H f (l + 1) (jb / 2))) k (by omega)
      rw [div_pow_succ' jb (k + 1)]
      have e : l + (k + 1) + 1 = l + 1 + k + 1 := by omega
      rw [e]; exact this

omit [DecidableEq D] in
/-- **the walk**: from the node `(l, jb)` with its digest in `f`, along sibling digests that are the digests in `f`
    of the sibling blocks (taken from the path, or from the map when `useMap`), all ancestors are stored with their
    digests in `f` -/
theorem deducible_walk (f : Nat → D) (useMap : Bool) : ∀ (path : List D) (l jb : Nat) (m : AMap D),
    l + path.length ≤ 63 → nodeIdx (l + path.length) (jb / 2 ^ path.length) < 2 ^ 64 →
    (∀ k (hk : k < path.length),
      (if useMap then (AMap.get? m (nodeIdx (l + k) (sibBlk (jb / 2 ^ k)))).getD path[k] else path[k])
        = sub H f (l + k) (sibBlk (jb / 2 ^ k))) →
    deducible H none false useMap true path (nodeIdx l jb) (sub H f l jb) m
      = some (walkIns H f path.length l jb m, sub H f (l + path.length) (jb / 2 ^ path.length)) := by
  intro path
  induction path with
  | nil => intro l jb m _ _ _; simp [deducible, walkIns]
  | cons hash rest ih =>
    intro l jb m hl hlt hs
    simp only [List.length_cons] at hl hlt
    have hanc := nodeIdx_le_ancestor (l + 1) (jb / 2) rest.length
    have e1 : l + 1 + rest.length = l + (rest.length + 1) := by omega
    rw [← div_pow_succ', e1] at hanc
    have hpar : nodeIdx (l + 1) (jb / 2) < 2 ^ 64 := by omega
    have h0 := hs 0 (by simp)
    simp only [Nat.add_zero, Nat.pow_zero, Nat.div_one, List.getElem_cons_zero] at h0
    rw [deducible]
    simp only [reduceCtorEq, if_false, Bool.false_and, Bool.false_eq_true, siblingAndParent_spec l jb (by omega) hpar,
      Bool.not_true, Bool.and_false, h0]
    have hacc : (if decide (jb % 2 = 1) = true then H (sub H f l (sibBlk jb)) (sub H f l jb)
        else H (sub H f l jb) (sub H f l (sibBlk jb))) = sub H f (l + 1) (jb / 2) := by
      rw [← step_sib H f l jb]
      by_cases hp : jb % 2 = 0
      · have : ¬ jb % 2 = 1 := by omega
        simp [hp]
      · have : jb % 2 = 1 := by omega
        simp [this]
    rw [hacc]
    have := ih (l + 1) (jb / 2) (m.insert (nodeIdx (l + 1) (jb / 2)) (sub H f (l + 1) (jb / 2))) (by omega)
      (by rw [← div_pow_succ', e1]; exact hlt) ?_
    · rw [this, ← div_pow_succ', e1, List.length_cons, walkIns]
    · intro k hk
      have hk' := hs (k + 1) (by simp; omega)
      rw [div_pow_succ' jb k] at hk'
      have e2 : l + (k + 1) = l + 1 + k := by omega
      simp only [e2, List.getElem_cons_succ] at hk'
      have hkey : ¬ nodeIdx (l + 1) (jb / 2) = nodeIdx (l + 1 + k) (sibBlk (jb / 2 / 2 ^ k)) := by
        intro he
        have := nodeIdx_inj _ _ _ _ hpar he
        have hne := sibBlk_ne (jb / 2 / 2 ^ k)
        obtain ⟨ha, hb⟩ := this
        have : k = 0 := by omega
        subst this
        simp only [Nat.pow_zero, Nat.div_one] at hb hne
        exact hne hb.symm
      rw [get?_insert, if_neg hkey]
      exact hk'

omit [DecidableEq D] in
/-- the batch routines leave out the last digest of the path -/
theorem deducible_skipLast (useMap il : Bool) : ∀ (path : List D) (ni : Nat) (acc : D) (m : AMap D),
    deducible H none true useMap il path ni acc m = deducible H none false useMap true path.dropLast ni acc m := by
  intro path
  induction path with
  | nil => intros; simp [deducible]
  | cons hash rest ih =>
    intro ni acc m
    cases rest with
    | nil => simp [deducible]
    | cons r rs =>
      rw [List.dropLast_cons_cons, deducible, deducible]
      simp only [reduceCtorEq, if_false, List.isEmpty_cons, Bool.and_false, Bool.false_eq_true, Bool.false_and]
      cases siblingAndParent ni with
      | none => rfl
      | some t =>
        obtain ⟨isR, sib, par⟩ := t
        simp only
        rw [ih]
        simp

omit [DecidableEq D] in
/-- `update_from_leaf_mutation` stops at the ancestor `(l + s, jb / 2^s)` -/
theorem deducible_stop : ∀ (s : Nat) (path : List D) (l jb : Nat) (acc : D) (m : AMap D), s ≤ path.length →
    l + s ≤ 63 → nodeIdx (l + s) (jb / 2 ^ s) < 2 ^ 64 →
    deducible H (some (nodeIdx (l + s) (jb / 2 ^ s))) false false true path (nodeIdx l jb) acc m
      = deducible H none false false true (path.take s) (nodeIdx l jb) acc m := by
  intro s
  induction s with
  | zero =>
    intro path l jb acc m _ _ _
    cases path with
    | nil => simp [deducible]
    | cons hash rest => simp [deducible]
  | succ s ih =>
    intro path l jb acc m hs hl hlt
    cases path with
    | nil => simp at hs
    | cons hash rest =>
      have hne : nodeIdx (l + (s + 1)) (jb / 2 ^ (s + 1)) ≠ nodeIdx l jb := by
        have := nodeIdx_lt_ancestor l jb (s + 1) (by omega); omega
      rw [List.take_succ_cons, deducible, deducible]
      simp only [Option.some.injEq, hne, if_false, reduceCtorEq, Bool.false_and, Bool.false_eq_true]
      have hanc := nodeIdx_le_ancestor (l + 1) (jb / 2) s
      have e1 : l + 1 + s = l + (s + 1) := by omega
      rw [← div_pow_succ', e1] at hanc
      rw [siblingAndParent_spec l jb (by omega) (by omega)]
      simp only [Bool.not_true, Bool.and_false, Bool.false_eq_true, if_false]
      have := ih rest (l + 1) (jb / 2) (if decide (jb % 2 = 1) = true then H hash acc else H acc hash)
        (AMap.insert m (nodeIdx (l + 1) (jb / 2)) (if decide (jb % 2 = 1) = true then H hash acc else H acc hash))
        (by simpa using hs) (by omega) (by rw [← div_pow_succ', e1]; exact hlt)
      rw [← div_pow_succ', e1] at this
      exact this

end Walk

/-! ### digests of blocks under mutations -/

section Sub
variable {D : Type} (H : D → D → D)

theorem sibPath_getElem (f : Nat → D) : ∀ (up l j k : Nat) (hk : k < (sibPath H f l up j).length),
    (sibPath H f l up j)[k] = sub H f (l + k) (sibBlk (j / 2 ^ k)) := by
  intro up
  induction up with
  | zero => intro l j k hk; simp [sibPath] at hk
  | succ up ih =>
    intro l j k hk
    cases k with
    | zero => simp [sibPath]
    | succ k =>
      simp only [sibPath, List.getElem_cons_succ]
      rw [ih (l + 1) (j / 2) k (by simpa [sibPath] using hk), ← div_pow_succ']
      congr 1; omega

theorem sibPath_eq_map (f : Nat → D) (up l j : Nat) :
    sibPath H f l up j = (List.range up).map (fun k => sub H f (l + k) (sibBlk (j / 2 ^ k))) := by
  apply List.ext_getElem
  · simp [sibPath_length]
  · intro k h1 h2
    rw [sibPath_getElem]; simp

theorem sibPath_take (f : Nat → D) (up l j s : Nat) (hs : s ≤ up) :
    (sibPath H f l up j).take s = sibPath H f l s j := by
  obtain ⟨v, rfl⟩ : ∃ v, up = s + v := ⟨up - s, by omega⟩
  rw [sibPath_split, List.take_left' (sibPath_length H f s l j)]

theorem sibPath_dropLast (f : Nat → D) (up l j : Nat) :
    (sibPath H f l up j).dropLast = sibPath H f l (up - 1) j := by
  rw [List.dropLast_eq_take, sibPath_length, sibPath_take H f up l j (up - 1) (by omega)]

end Sub

/-! ### the replacement loop -/

section Repl
variable {D : Type} [DecidableEq D]

/-- the replacement loop, all three modes: if the map holds, for every slot, the new digest or nothing (and then the
    digest does not change), the result is the new path and the flag says whether it differs; with
    `stopAfterFirst` provided at most one slot changes -/
theorem replaceFromMap_spec (m : AMap D) (P Q : Nat → D) (K : Nat → Nat) (saf : Bool) : ∀ L : List Nat,
    (∀ t ∈ L, (∀ v, AMap.get? m (K t) = some v → v = Q t) ∧ (AMap.get? m (K t) = none → P t = Q t)) →
    (saf = true → L.Pairwise (fun t t' => P t = Q t ∨ P t' = Q t')) →
    ∃ b, replaceFromMap m true saf (L.map P) (L.map K) = (L.map Q, b) ∧ (b = true ↔ L.map Q ≠ L.map P) := by
  intro L
  induction L with
  | nil => intro _ _; exact ⟨false, by simp [replaceFromMap], by simp⟩
  | cons t L ih =>
    intro h hp
    obtain ⟨h1, h2⟩ := h t (by simp)
    obtain ⟨b, hb, hbi⟩ := ih (fun t' ht' => h t' (by simp [ht']))
      (fun hs => (List.pairwise_cons.mp (hp hs)).2)
    simp only [List.map_cons, replaceFromMap]
    cases hg : AMap.get? m (K t) with
    | none =>
      have := h2 hg
      simp only [hb]
      exact ⟨b, by rw [this], by rw [hbi, this]; simp⟩
    | some v =>
      have hv := h1 v hg
      subst hv
      simp only [Bool.true_and, beq_iff_eq]
      by_cases he : P t = Q t
      · rw [if_pos he]
        simp only [hb]
        exact ⟨b, by rw [he], by rw [hbi, he]; simp⟩
      · rw [if_neg he]
        cases saf with
        | false =>
          simp only [Bool.false_eq_true, if_false, hb]
          exact ⟨true, rfl, by simp [Ne.symm he]⟩
        | true =>
          simp only [if_true]
          have hpw := (List.pairwise_cons.mp (hp rfl)).1
          have : L.map P = L.map Q := by
            apply List.map_congr_left
            intro t' ht'
            rcases hpw t' ht' with h' | h'
            · exact absurd h' he
            · exact h'
          exact ⟨true, by rw [this], by simp [Ne.symm he]⟩

theorem replaceFromMap_spec_ff (m : AMap D) (P Q : Nat → D) (K : Nat → Nat) : ∀ L : List Nat,
    (∀ t ∈ L, (∀ v, AMap.get? m (K t) = some v → v = Q t) ∧ (AMap.get? m (K t) = none → P t = Q t)) →
    (replaceFromMap m false false (L.map P) (L.map K)).1 = L.map Q := by
  intro L
  induction L with
  | nil => intro _; simp [replaceFromMap]
  | cons t L ih =>
    intro h
    obtain ⟨h1, h2⟩ := h t (by simp)
    have := ih (fun t' ht' => h t' (by simp [ht']))
    simp only [List.map_cons, replaceFromMap]
    cases hg : AMap.get? m (K t) with
    | none => simp only [this, h2 hg]
    | some v => simp [this, h1 v hg]

end Repl

/-! ### facts about the path of a leaf in range -/

theorem height_le_62 (n i : Nat) (h : i < n) (hn : n < 2 ^ 63) : (locate n i).1 ≤ 62 := by
  have h1 := two_pow_height_le n i h
  by_contra hc
  have : 2 ^ 63 ≤ 2 ^ (locate n i).1 := Nat.pow_le_pow_right (by omega) (by omega)
  omega

theorem anc_idx_lt (n i t : Nat) (h : i < n) (hn : n < 2 ^ 63) (ht : t ≤ (locate n i).1) :
    nodeIdx t (i / 2 ^ t) < 2 ^ 64 :=
  nodeIdx_lt_of_block t _ n (anc_block_le n i t h ht) hn

theorem sib_idx_lt (n i t : Nat) (h : i < n) (hn : n < 2 ^ 63) (ht : t < (locate n i).1) :
    nodeIdx t (sibBlk (i / 2 ^ t)) < 2 ^ 64 := by
  apply nodeIdx_lt_of_block t _ n _ hn
  have h1 := sib_block_le (i / 2 ^ t) t
  rw [← div_pow_succ] at h1
  have := anc_block_le n i (t + 1) h (by omega)
  omega

theorem own_node_indices (n i : Nat) (h : i < n) (hn : n < 2 ^ 63) :
    get_node_indices i (locate n i).1
      = some ((List.range (locate n i).1).map (fun t => nodeIdx t (sibBlk (i / 2 ^ t)))) :=
  get_node_indices_spec i _ (by omega) (by have := height_le_62 n i h hn; omega)
    (anc_idx_lt n i _ h hn (Nat.le_refl _))

theorem own_direct_path (n i : Nat) (h : i < n) (hn : n < 2 ^ 63) :
    get_direct_path_indices i (locate n i).1
      = some ((List.range ((locate n i).1 + 1)).map (fun t => nodeIdx t (i / 2 ^ t))) :=
  get_direct_path_indices_spec i _ (by omega) (by have := height_le_62 n i h hn; omega)
    (anc_idx_lt n i _ h hn (Nat.le_refl _))

/-- if leaf `j` lies under the sibling block of `i` at a level below the height of `i`'s tree, then `j` is in range
    and its tree is higher than that level -/
theorem meet_height (n i j t : Nat) (h : i < n) (ht : t < (locate n i).1) (hm : sibBlk (i / 2 ^ t) = j / 2 ^ t) :
    t < (locate n j).1 := by
  have h1 := anc_block_le n i (t + 1) h (by omega)
  have h2 : j / 2 ^ (t + 1) = i / 2 ^ (t + 1) := meet_above i j t (t + 1) hm (by omega)
  rw [← h2] at h1
  have := locate_height_ge' (t + 1) n j h1
  omega

/-! ### `eraseDupsNat` -/

theorem mem_eraseDupsNat (x : Nat) : ∀ l : List Nat, x ∈ eraseDupsNat l ↔ x ∈ l := by
  intro l
  induction l with
  | nil => simp [eraseDupsNat]
  | cons y ys ih =>
    simp only [eraseDupsNat, List.mem_cons, List.mem_filter, ih, decide_eq_true_eq]
    constructor
    · rintro (h | ⟨h, _⟩)
      · exact Or.inl h
      · exact Or.inr h
    · rintro (h | h)
      · exact Or.inl h
      · by_cases hx : x = y
        · exact Or.inl hx
        · exact Or.inr ⟨h, hx⟩

theorem nodup_eraseDupsNat : ∀ l : List Nat, (eraseDupsNat l).Nodup := by
  intro l
  induction l with
  | nil => simp [eraseDupsNat]
  | cons y ys ih =>
    simp only [eraseDupsNat, List.nodup_cons, List.mem_filter, decide_eq_true_eq]
    exact ⟨fun h => h.2 rfl, ih.filter _⟩

section T1
variable {D : Type} [DecidableEq D] (H : D → D → D)

omit [DecidableEq D] in
theorem walkIns_get?_some (f : Nat → D) (key : Nat) (v : D) (up l jb : Nat) (m : AMap D)
    (h : AMap.get? (walkIns H f up l jb m) key = some v) :
    (∃ k < up, key = nodeIdx (l + k + 1) (jb / 2 ^ (k + 1)) ∧ v = sub H f (l + k + 1) (jb / 2 ^ (k + 1))) ∨
    ((∀ k < up, key ≠ nodeIdx (l + k + 1) (jb / 2 ^ (k + 1))) ∧ AMap.get? m key = some v) := by
  by_cases hc : ∃ k < up, key = nodeIdx (l + k + 1) (jb / 2 ^ (k + 1))
  · obtain ⟨k, hk, he⟩ := hc
    left
    refine ⟨k, hk, he, ?_⟩
    rw [he, walkIns_get?_anc H f up l jb m k hk] at h
    exact (Option.some.inj h).symm
  · right
    have hc' : ∀ k < up, key ≠ nodeIdx (l + k + 1) (jb / 2 ^ (k + 1)) := fun k hk he => hc ⟨k, hk, he⟩
    rw [walkIns_get?_other H f key up l jb m hc'] at h
    exact ⟨hc', h⟩

omit [DecidableEq D] in
theorem walkIns_get?_none (f : Nat → D) (key : Nat) (up l jb : Nat) (m : AMap D)
    (h : AMap.get? (walkIns H f up l jb m) key = none) :
    (∀ k < up, key ≠ nodeIdx (l + k + 1) (jb / 2 ^ (k + 1))) ∧ AMap.get? m key = none := by
  have hc' : ∀ k < up, key ≠ nodeIdx (l + k + 1) (jb / 2 ^ (k + 1)) := by
    intro k hk he
    rw [he, walkIns_get?_anc H f up l jb m k hk] at h
    cases h
  rw [walkIns_get?_other H f key up l jb m hc'] at h
  exact ⟨hc', h⟩

omit [DecidableEq D] in
/-- the map after walking `s` levels up from leaf `j`, starting from the map holding only the leaf: exactly the
    ancestors `(k, j / 2^k)`, `k ≤ s`, with their digests -/
theorem walk_leaf_get? (f : Nat → D) (j s : Nat) (hlt : nodeIdx s (j / 2 ^ s) < 2 ^ 64) (l b : Nat) :
    AMap.get? (walkIns H f s 0 j (AMap.insert [] (nodeIdx 0 j) (f j))) (nodeIdx l b)
      = if l ≤ s ∧ b = j / 2 ^ l then some (sub H f l b) else none := by
  have hbound : ∀ k ≤ s, nodeIdx k (j / 2 ^ k) < 2 ^ 64 := by
    intro k hk
    obtain ⟨d, rfl⟩ : ∃ d, s = k + d := ⟨s - k, by omega⟩
    have := nodeIdx_le_ancestor k (j / 2 ^ k) d
    rw [← div_pow_add] at this
    omega
  by_cases hc : l ≤ s ∧ b = j / 2 ^ l
  · obtain ⟨hl, rfl⟩ := hc
    rw [if_pos ⟨hl, rfl⟩]
    cases l with
    | zero =>
      rw [walkIns_get?_other]
      · simp [get?_insert, sub]
      · intro k _
        have := nodeIdx_lt_ancestor 0 j (k + 1) (by omega)
        simp only [Nat.pow_zero, Nat.div_one, Nat.zero_add] at this ⊢
        omega
    | succ l =>
      have := walkIns_get?_anc H f s 0 j (AMap.insert [] (nodeIdx 0 j) (f j)) l (by omega)
      simpa using this
  · rw [if_neg hc]
    cases hg : AMap.get? (walkIns H f s 0 j (AMap.insert [] (nodeIdx 0 j) (f j))) (nodeIdx l b) with
    | none => rfl
    | some v =>
      exfalso
      rcases walkIns_get?_some H f _ v s 0 j _ hg with ⟨k, hk, he, _⟩ | ⟨_, h2⟩
      · have := nodeIdx_inj _ _ _ _ (hbound (k + 1) (by omega)) (by simpa using he.symm)
        exact hc ⟨by omega, by rw [← this.2, this.1]⟩
      · rw [get?_insert, get?_nil] at h2
        by_cases he : nodeIdx 0 j = nodeIdx l b
        · have := nodeIdx_inj _ _ _ _ (by simpa using hbound 0 (by omega)) he
          exact hc ⟨by omega, by rw [← this.2, ← this.1]; simp⟩
        · rw [if_neg he] at h2; cases h2

end T1

section T1
variable {D : Type} [DecidableEq D] (H : D → D → D)

omit [DecidableEq D] in
/-- a sibling digest of `i`'s path changes only if the mutated leaf lies under it -/
theorem slot_unchanged (g : Nat → D) (i j t : Nat) (d : D) (h : sibBlk (i / 2 ^ t) ≠ j / 2 ^ t) :
    sub H (Function.update g j d) t (sibBlk (i / 2 ^ t)) = sub H g t (sibBlk (i / 2 ^ t)) :=
  sub_update_ne H g j d t _ h

omit [DecidableEq D] in
theorem authPathOf_eq_map (g : Nat → D) (n i : Nat) :
    authPathOf H g n i = (List.range (locate n i).1).map (fun t => sub H g t (sibBlk (i / 2 ^ t))) := by
  unfold authPathOf; rw [sibPath_eq_map]; simp

/-- **`update_from_leaf_mutation`** on from-scratch paths -/
theorem updateFromLeafMutation_spec (g : Nat → D) (n i j : Nat) (d : D) (hi : i < n) (hj : j < n) (hn : n < 2 ^ 63) :
    ∃ b, updateFromLeafMutation H (authPathOf H g n i) i ⟨j, d, authPathOf H g n j⟩
        = some (authPathOf H (Function.update g j d) n i, b) ∧
      (b = false → authPathOf H (Function.update g j d) n i = authPathOf H g n i) ∧
      (b = true ↔ ∃ t < (locate n i).1, sibBlk (i / 2 ^ t) = j / 2 ^ t) := by
  have hli : (authPathOf H g n i).length = (locate n i).1 := by unfold authPathOf; rw [sibPath_length]
  have hlj : (authPathOf H g n j).length = (locate n j).1 := by unfold authPathOf; rw [sibPath_length]
  have hO := own_node_indices n i hi hn
  have hA := own_direct_path n j hj hn
  have hhj := height_le_62 n j hj hn
  generalize hOd : (List.range (locate n i).1).map (fun t => nodeIdx t (sibBlk (i / 2 ^ t))) = O at hO
  generalize hAd : (List.range ((locate n j).1 + 1)).map (fun t => nodeIdx t (j / 2 ^ t)) = A at hA
  -- membership in the two index lists
  have memO : ∀ x, x ∈ O ↔ ∃ t < (locate n i).1, x = nodeIdx t (sibBlk (i / 2 ^ t)) := by
    intro x; rw [← hOd]; simp only [List.mem_map, List.mem_range]
    exact ⟨fun ⟨t, a, b⟩ => ⟨t, a, b.symm⟩, fun ⟨t, a, b⟩ => ⟨t, a, b.symm⟩⟩
  have memA : ∀ x, x ∈ A ↔ ∃ t ≤ (locate n j).1, x = nodeIdx t (j / 2 ^ t) := by
    intro x; rw [← hAd]; simp only [List.mem_map, List.mem_range]
    exact ⟨fun ⟨t, a, b⟩ => ⟨t, by omega, b.symm⟩, fun ⟨t, a, b⟩ => ⟨t, by omega, b.symm⟩⟩
  -- an element of the intersection is a meeting point
  have meet : ∀ x, x ∈ O → x ∈ A → ∃ t < (locate n i).1, x = nodeIdx t (sibBlk (i / 2 ^ t)) ∧
      sibBlk (i / 2 ^ t) = j / 2 ^ t := by
    intro x hxO hxA
    obtain ⟨t, ht, rfl⟩ := (memO x).mp hxO
    obtain ⟨a, ha, he⟩ := (memA _).mp hxA
    have := nodeIdx_inj _ _ _ _ (sib_idx_lt n i t hi hn ht) he
    exact ⟨t, ht, rfl, by rw [this.2, this.1]⟩
  unfold updateFromLeafMutation
  simp only [hli, hlj, hO, hA, Option.bind_eq_bind, Option.bind_some]
  generalize hL : List.filter (fun x => A.contains x) (eraseDupsNat O) = L
  have memL : ∀ x, x ∈ L ↔ x ∈ O ∧ x ∈ A := by
    intro x; rw [← hL]; simp [List.mem_filter, mem_eraseDupsNat]
  have ndL : L.Nodup := by rw [← hL]; exact (nodup_eraseDupsNat O).filter _
  match L, memL, ndL with
  | [], memL, _ =>
    have nomeet : ∀ t < (locate n i).1, sibBlk (i / 2 ^ t) ≠ j / 2 ^ t := by
      intro t ht' hm
      have h1 := meet_height n i j t hi ht' hm
      have : nodeIdx t (sibBlk (i / 2 ^ t)) ∈ ([] : List Nat) :=
        (memL _).mpr ⟨(memO _).mpr ⟨t, ht', rfl⟩, (memA _).mpr ⟨t, by omega, by rw [hm]⟩⟩
      simp at this
    have key : authPathOf H (Function.update g j d) n i = authPathOf H g n i := by
      rw [authPathOf_eq_map, authPathOf_eq_map]
      apply List.map_congr_left
      intro t ht
      exact slot_unchanged H g i j t d (nomeet t (List.mem_range.mp ht))
    exact ⟨false, by simp [key], fun _ => key,
      ⟨fun h => Bool.noConfusion h, fun ⟨t, ht, hm⟩ => absurd hm (nomeet t ht)⟩⟩
  | [x], memL, _ =>
    obtain ⟨hxO, hxA⟩ := (memL x).mp (by simp)
    obtain ⟨t0, ht0, rfl, hm0⟩ := meet x hxO hxA
    have ht0j := meet_height n i j t0 hi ht0 hm0
    refine ⟨true, ?_, fun h => Bool.noConfusion h, ⟨fun _ => ⟨t0, ht0, hm0⟩, fun _ => rfl⟩⟩
    simp only
    have hx : nodeIdx t0 (sibBlk (i / 2 ^ t0)) = nodeIdx (0 + t0) (j / 2 ^ t0) := by rw [hm0, Nat.zero_add]
    have hlt0 : nodeIdx t0 (j / 2 ^ t0) < 2 ^ 64 := anc_idx_lt n j t0 hj hn (by omega)
    rw [l2n_eq_nodeIdx j (by omega), hx,
      deducible_stop H t0 _ 0 j d _ (by rw [hlj]; omega) (by omega) (by simpa using hlt0)]
    have hpath : (authPathOf H g n j).take t0 = sibPath H (Function.update g j d) 0 t0 j := by
      unfold authPathOf
      rw [sibPath_take H g _ 0 j t0 (by omega)]
      have := sibPath_update_self H g j d t0 0
      simpa using this.symm
    have hw := deducible_walk H (Function.update g j d) false (sibPath H (Function.update g j d) 0 t0 j) 0 j
      (AMap.insert [] (nodeIdx 0 j) d) (by rw [sibPath_length]; omega)
      (by rw [sibPath_length]; simpa using hlt0)
      (by intro k hk; simp only [Bool.false_eq_true, if_false]; rw [sibPath_getElem])
    rw [show sub H (Function.update g j d) 0 j = d by simp [sub]] at hw
    rw [hpath, hw]
    simp only [Option.bind_some, Option.pure_def, Option.some.injEq, Prod.mk.injEq, and_true, sibPath_length]
    rw [← hOd, authPathOf_eq_map, authPathOf_eq_map]
    apply replaceFromMap_spec_ff
    intro t ht
    have ht' := List.mem_range.mp ht
    have hdd : Function.update g j d j = d := by simp
    have hget := walk_leaf_get? H (Function.update g j d) j t0 hlt0 t (sibBlk (i / 2 ^ t))
    rw [hdd] at hget
    rw [hget]
    constructor
    · intro v hv
      split at hv
      · exact (Option.some.inj hv).symm
      · cases hv
    · intro hnone
      split at hnone
      · cases hnone
      · rename_i hc
        symm
        apply slot_unchanged
        intro hm
        have := meet_unique i j t t0 hm hm0
        subst this
        exact hc ⟨Nat.le_refl _, hm⟩
  | x :: y :: rest, memL, ndL =>
    exfalso
    obtain ⟨hxO, hxA⟩ := (memL x).mp (by simp)
    obtain ⟨hyO, hyA⟩ := (memL y).mp (by simp)
    obtain ⟨t, _, rfl, hm⟩ := meet x hxO hxA
    obtain ⟨t', _, rfl, hm'⟩ := meet y hyO hyA
    have := meet_unique i j t t' hm hm'
    subst this
    simp at ndL

end T1

section Batch
variable {D : Type} [DecidableEq D] (H : D → D → D)

omit [DecidableEq D] in
/-- the map after walking `s` levels up from leaf `j` on top of a map `m`: the ancestors `(k, j / 2^k)`, `k ≤ s`, with
    their digests, over the old entries -/
theorem walk_get? (f : Nat → D) (j s : Nat) (m : AMap D) (hlt : nodeIdx s (j / 2 ^ s) < 2 ^ 64) (l b : Nat) :
    AMap.get? (walkIns H f s 0 j (AMap.insert m (nodeIdx 0 j) (f j))) (nodeIdx l b)
      = if l ≤ s ∧ b = j / 2 ^ l then some (sub H f l b) else AMap.get? m (nodeIdx l b) := by
  have hbound : ∀ k ≤ s, nodeIdx k (j / 2 ^ k) < 2 ^ 64 := by
    intro k hk
    obtain ⟨d, rfl⟩ : ∃ d, s = k + d := ⟨s - k, by omega⟩
    have := nodeIdx_le_ancestor k (j / 2 ^ k) d
    rw [← div_pow_add] at this
    omega
  by_cases hc : l ≤ s ∧ b = j / 2 ^ l
  · obtain ⟨hl, rfl⟩ := hc
    rw [if_pos ⟨hl, rfl⟩]
    cases l with
    | zero =>
      rw [walkIns_get?_other]
      · simp [get?_insert, sub]
      · intro k _
        have := nodeIdx_lt_ancestor 0 j (k + 1) (by omega)
        simp only [Nat.pow_zero, Nat.div_one, Nat.zero_add] at this ⊢
        omega
    | succ l =>
      have := walkIns_get?_anc H f s 0 j (AMap.insert m (nodeIdx 0 j) (f j)) l (by omega)
      simpa using this
  · rw [if_neg hc, walkIns_get?_other, get?_insert, if_neg]
    · intro he
      have := nodeIdx_inj _ _ _ _ (by simpa using hbound 0 (by omega)) he
      exact hc ⟨by omega, by rw [← this.2, ← this.1]; simp⟩
    · intro k hk he
      have := nodeIdx_inj _ _ _ _ (hbound (k + 1) (by omega)) (by simpa using he.symm)
      exact hc ⟨by omega, by rw [← this.2, this.1]⟩

/-- invariant of the map of recomputed digests: `g` the leaves the handed paths belong to, `g'` the leaves after the
    mutations processed so far (`S` their indices).  Nodes below a peak: what is stored is the digest in `g'`; what is
    not stored did not change.  Stored leaf nodes are mutated leafs. -/
def MapInv (n : Nat) (g g' : Nat → D) (S : List Nat) (m : AMap D) : Prop :=
  (∀ l b v, (b / 2 + 1) * 2 ^ (l + 1) ≤ n → AMap.get? m (nodeIdx l b) = some v → v = sub H g' l b) ∧
  (∀ l b, (b / 2 + 1) * 2 ^ (l + 1) ≤ n → AMap.get? m (nodeIdx l b) = none → sub H g' l b = sub H g l b) ∧
  (∀ A, (AMap.get? m (nodeIdx 0 A)).isSome → A ∈ S)

omit [DecidableEq D] in
theorem MapInv_nil (n : Nat) (g : Nat → D) : MapInv H n g g [] [] :=
  ⟨fun _ _ _ _ h => by simp [get?_nil] at h, fun _ _ _ _ => rfl, fun _ h => by simp [get?_nil] at h⟩

omit [DecidableEq D] in
/-- a node on the path of `B` that is below a peak is below the height of `B`'s tree -/
theorem nonpeak_on_path (n B l : Nat) (h : (B / 2 ^ l / 2 + 1) * 2 ^ (l + 1) ≤ n) : l < (locate n B).1 := by
  rw [← div_pow_succ] at h
  have := locate_height_ge' (l + 1) n B h
  omega

omit [DecidableEq D] in
/-- **one mutation processed by a batch routine**: the walk up the path of leaf `B` (last digest left out; siblings from
    the map when `useMap`) succeeds and re-establishes the invariant for the leaves with `B` replaced -/
theorem mutation_step (n : Nat) (g g' : Nat → D) (S : List Nat) (m : AMap D) (useMap il : Bool) (B : Nat) (dB : D)
    (hB : B < n) (hn : n < 2 ^ 63) (hinv : MapInv H n g g' S m) (hm : useMap = false → m = []) :
    ∃ m' acc, deducible H none true useMap il (authPathOf H g n B) (nodeIdx 0 B) dB (AMap.insert m (nodeIdx 0 B) dB)
        = some (m', acc) ∧ MapInv H n g (Function.update g' B dB) (B :: S) m' := by
  obtain ⟨hgood, hunt, hkeys⟩ := hinv
  have hh := height_le_62 n B hB hn
  have hlt : nodeIdx ((locate n B).1 - 1) (B / 2 ^ ((locate n B).1 - 1)) < 2 ^ 64 :=
    anc_idx_lt n B _ hB hn (by omega)
  have hlt0 : nodeIdx 0 B < 2 ^ 64 := by simpa using anc_idx_lt n B 0 hB hn (by omega)
  have hdd : Function.update g' B dB B = dB := by simp
  -- the walk
  have hw := deducible_walk H (Function.update g' B dB) useMap (sibPath H g 0 ((locate n B).1 - 1) B) 0 B
    (AMap.insert m (nodeIdx 0 B) dB) (by rw [sibPath_length]; omega) (by rw [sibPath_length, Nat.zero_add]; exact hlt) (by
      intro k hk
      rw [sibPath_length] at hk
      have hnp : (sibBlk (B / 2 ^ k) / 2 + 1) * 2 ^ (0 + k + 1) ≤ n := by
        rw [sibBlk_half, ← div_pow_succ, Nat.zero_add]
        exact anc_block_le n B (k + 1) hB (by omega)
      have hne := sibBlk_ne (B / 2 ^ k)
      have hs2 : sub H (Function.update g' B dB) (0 + k) (sibBlk (B / 2 ^ k)) = sub H g' (0 + k) (sibBlk (B / 2 ^ k)) :=
        sub_update_ne H g' B dB _ _ (by simpa using hne)
      rw [sibPath_getElem, hs2]
      cases useMap with
      | false =>
        have := hm rfl
        subst this
        simp only [Bool.false_eq_true, if_false]
        exact (hunt _ _ hnp (get?_nil _)).symm
      | true =>
        simp only [if_true]
        have hkey : ¬ nodeIdx 0 B = nodeIdx (0 + k) (sibBlk (B / 2 ^ k)) := by
          intro he
          have := nodeIdx_inj _ _ _ _ hlt0 he
          have hk0 : k = 0 := by omega
          subst hk0
          simp only [Nat.pow_zero, Nat.div_one] at this hne
          exact hne this.2.symm
        rw [get?_insert, if_neg hkey]
        cases hg : AMap.get? m (nodeIdx (0 + k) (sibBlk (B / 2 ^ k))) with
        | none => simp only [Option.getD_none]; exact (hunt _ _ hnp hg).symm
        | some v => simp only [Option.getD_some]; exact hgood _ _ v hnp hg)
  rw [show sub H (Function.update g' B dB) 0 B = dB by simp [sub]] at hw
  have hpath : (authPathOf H g n B).dropLast = sibPath H g 0 ((locate n B).1 - 1) B := by
    unfold authPathOf; rw [sibPath_dropLast]
  refine ⟨_, _, by rw [deducible_skipLast, hpath, hw], ?_⟩
  rw [sibPath_length]
  have hget := fun l b => walk_get? H (Function.update g' B dB) B ((locate n B).1 - 1) m hlt l b
  simp only [hdd] at hget
  refine ⟨?_, ?_, ?_⟩
  · intro l b v hnp hv
    rw [hget] at hv
    split at hv
    · exact (Option.some.inj hv).symm
    · rename_i hc
      have hb : b ≠ B / 2 ^ l := by
        intro hb; subst hb
        have := nonpeak_on_path n B l hnp
        exact hc ⟨by omega, rfl⟩
      rw [sub_update_ne H g' B dB l b hb]
      exact hgood l b v hnp hv
  · intro l b hnp hv
    rw [hget] at hv
    split at hv
    · cases hv
    · rename_i hc
      have hb : b ≠ B / 2 ^ l := by
        intro hb; subst hb
        have := nonpeak_on_path n B l hnp
        exact hc ⟨by omega, rfl⟩
      rw [sub_update_ne H g' B dB l b hb]
      exact hunt l b hnp hv
  · intro A hA
    rw [hget] at hA
    split at hA
    · rename_i hc
      have : A = B := by simpa using hc.2
      subst this; simp
    · exact List.mem_cons_of_mem _ (hkeys A hA)

end Batch

section Batch2
variable {D : Type} [DecidableEq D] (H : D → D → D)

/-- **one proof through the replacement loop of a batch routine**: with a map satisfying the invariant, the
    from-scratch path of leaf `li` becomes the from-scratch path in the new leaves; the flag says whether it changed
    (`stopAfterFirst`: provided at most one digest of the path changes) -/
theorem replace_path_spec (n : Nat) (g g' : Nat → D) (S : List Nat) (m : AMap D) (saf : Bool) (li : Nat)
    (hli : li < n) (hinv : MapInv H n g g' S m)
    (hone : saf = true → ∀ t t', sub H g t (sibBlk (li / 2 ^ t)) ≠ sub H g' t (sibBlk (li / 2 ^ t)) →
      sub H g t' (sibBlk (li / 2 ^ t')) ≠ sub H g' t' (sibBlk (li / 2 ^ t')) → t = t') :
    ∃ b, replaceFromMap m true saf (authPathOf H g n li)
          ((List.range (locate n li).1).map (fun t => nodeIdx t (sibBlk (li / 2 ^ t))))
        = (authPathOf H g' n li, b) ∧ (b = true ↔ authPathOf H g' n li ≠ authPathOf H g n li) := by
  obtain ⟨hgood, hunt, _⟩ := hinv
  rw [authPathOf_eq_map, authPathOf_eq_map]
  apply replaceFromMap_spec m (fun t => sub H g t (sibBlk (li / 2 ^ t))) (fun t => sub H g' t (sibBlk (li / 2 ^ t)))
    (fun t => nodeIdx t (sibBlk (li / 2 ^ t))) saf
  · intro t ht
    have ht' := List.mem_range.mp ht
    have hnp : (sibBlk (li / 2 ^ t) / 2 + 1) * 2 ^ (t + 1) ≤ n := by
      rw [sibBlk_half, ← div_pow_succ]
      exact anc_block_le n li (t + 1) hli (by omega)
    exact ⟨fun v hv => hgood _ _ v hnp hv, fun hv => (hunt _ _ hnp hv).symm⟩
  · intro hs
    refine List.Pairwise.imp ?_ (List.nodup_range (n := (locate n li).1))
    intro t t' hne
    by_contra hc
    simp only [not_or] at hc
    exact hne (hone hs t t' hc.1 hc.2)

/-- positions (counted from `s`) of the proofs that changed -/
def chgIdx (P Q : Nat → List D) : Nat → List Nat → List Nat
  | _, [] => []
  | s, li :: lis => if Q li ≠ P li then s :: chgIdx P Q (s + 1) lis else chgIdx P Q (s + 1) lis

theorem chgIdx_eq (P Q : Nat → List D) : ∀ (lis : List Nat) (s : Nat),
    chgIdx P Q s lis
      = ((List.range lis.length).filter (fun k => decide (Q (lis.getD k 0) ≠ P (lis.getD k 0)))).map (· + s) := by
  intro lis
  induction lis with
  | nil => intro s; simp [chgIdx]
  | cons li lis ih =>
    intro s
    rw [chgIdx, ih (s + 1), List.length_cons, List.range_succ_eq_map, List.filter_cons, List.filter_map]
    have hf : ((fun k => decide (Q ((li :: lis).getD k 0) ≠ P ((li :: lis).getD k 0))) ∘ Nat.succ)
        = fun k => decide (Q (lis.getD k 0) ≠ P (lis.getD k 0)) := by
      funext k; simp
    have hm : ((fun x => x + s) ∘ Nat.succ) = fun x => x + (s + 1) := by funext k; simp; omega
    rw [hf]
    have h0 : (li :: lis).getD 0 0 = li := rfl
    rw [h0]
    by_cases hc : Q li ≠ P li
    · rw [if_pos hc, if_pos (by simpa using hc), List.map_cons, List.map_map, hm, Nat.zero_add]
    · rw [if_neg hc, if_neg (by simpa using hc), List.map_map, hm]

/-- the per-proof loop of the batch mutation routines -/
theorem batchReplaceLoop_spec (m : AMap D) (saf : Bool) (P Q : Nat → List D) (K : Nat → List Nat) :
    ∀ (lis : List Nat) (s : Nat),
    (∀ li ∈ lis, get_node_indices li (P li).length = some (K li) ∧
      ∃ b, replaceFromMap m true saf (P li) (K li) = (Q li, b) ∧ (b = true ↔ Q li ≠ P li)) →
    batchReplaceLoop m saf (lis.map P) lis s = some (lis.map Q, chgIdx P Q s lis) := by
  intro lis
  induction lis with
  | nil => intro s _; simp [batchReplaceLoop, chgIdx]
  | cons li lis ih =>
    intro s h
    obtain ⟨h1, b, h2, h3⟩ := h li (by simp)
    have := ih (s + 1) (fun x hx => h x (by simp [hx]))
    simp only [List.map_cons, batchReplaceLoop, h1, h2, this, Option.bind_eq_bind, Option.bind_some, Option.pure_def,
      chgIdx]
    by_cases hc : Q li ≠ P li
    · have : b = true := h3.mpr hc
      subst this; simp [hc]
    · have : b = false := by
        cases b with
        | false => rfl
        | true => exact absurd (h3.mp rfl) hc
      subst this; simp [hc]

end Batch2

section Batch3
variable {D : Type} [DecidableEq D] (H : D → D → D)

omit [DecidableEq D] in
theorem slot_changed_meet (g : Nat → D) (i j t : Nat) (d : D)
    (h : sub H g t (sibBlk (i / 2 ^ t)) ≠ sub H (Function.update g j d) t (sibBlk (i / 2 ^ t))) :
    sibBlk (i / 2 ^ t) = j / 2 ^ t := by
  by_contra hc
  exact h (slot_unchanged H g i j t d hc).symm

/-- **`batch_update_from_leaf_mutation`** on from-scratch paths: every path becomes the from-scratch path of the
    changed leaf list, and exactly the positions of the changed paths are reported -/
theorem batchUpdateFromLeafMutation_spec (g : Nat → D) (n j : Nat) (d : D) (lis : List Nat)
    (hlis : ∀ i ∈ lis, i < n) (hj : j < n) (hn : n < 2 ^ 63) :
    batchUpdateFromLeafMutation H (lis.map (authPathOf H g n)) lis ⟨j, d, authPathOf H g n j⟩
      = some (lis.map (authPathOf H (Function.update g j d) n),
          (List.range lis.length).filter (fun k => decide
            (authPathOf H (Function.update g j d) n (lis.getD k 0) ≠ authPathOf H g n (lis.getD k 0)))) := by
  unfold batchUpdateFromLeafMutation
  obtain ⟨m', acc, hded, hinv⟩ :=
    mutation_step H n g g [] [] false true j d hj hn (MapInv_nil H n g) (fun _ => rfl)
  simp only [List.length_map, ne_eq, not_true_eq_false, if_false, l2n_eq_nodeIdx j (by omega), hded,
    Option.bind_eq_bind, Option.bind_some]
  rw [batchReplaceLoop_spec m' true (authPathOf H g n) (authPathOf H (Function.update g j d) n)
    (fun li => (List.range (locate n li).1).map (fun t => nodeIdx t (sibBlk (li / 2 ^ t)))) lis 0]
  · rw [chgIdx_eq]; simp
  · intro li hli
    have hl : (authPathOf H g n li).length = (locate n li).1 := by unfold authPathOf; rw [sibPath_length]
    refine ⟨by rw [hl]; exact own_node_indices n li (hlis li hli) hn, ?_⟩
    apply replace_path_spec H n g _ [j] m' true li (hlis li hli) hinv
    intro _ t t' h1 h2
    exact meet_unique li j t t' (slot_changed_meet H g li j t d h1) (slot_changed_meet H g li j t' d h2)

/-! ### batches of mutations -/

/-- the leaf list after a batch of assignments -/
def applyMutsL (g : Nat → D) (ms : List (Nat × D)) : Nat → D := ms.foldl (fun g m => Function.update g m.1 m.2) g

omit [DecidableEq D] in
theorem applyMutsL_not_mem : ∀ (ms : List (Nat × D)) (g : Nat → D) (k : Nat), k ∉ ms.map (·.1) →
    applyMutsL g ms k = g k := by
  intro ms
  induction ms with
  | nil => intros; rfl
  | cons x ms ih =>
    intro g k hk
    simp only [List.map_cons, List.mem_cons, not_or] at hk
    show applyMutsL (Function.update g x.1 x.2) ms k = g k
    rw [ih _ k hk.2, Function.update_of_ne hk.1]

omit [DecidableEq D] in
theorem applyMutsL_mem : ∀ (ms : List (Nat × D)) (g : Nat → D) (k : Nat) (d : D), (ms.map (·.1)).Nodup →
    (k, d) ∈ ms → applyMutsL g ms k = d := by
  intro ms
  induction ms with
  | nil => intro _ _ _ _ h; simp at h
  | cons x ms ih =>
    intro g k d hnd hm
    simp only [List.map_cons, List.nodup_cons] at hnd
    show applyMutsL (Function.update g x.1 x.2) ms k = d
    rcases List.mem_cons.mp hm with he | hm'
    · subst he
      rw [applyMutsL_not_mem ms _ _ hnd.1]; simp
    · exact ih _ k d hnd.2 hm'

omit [DecidableEq D] in
/-- distinct leafs: the order of the assignments does not matter -/
theorem applyMutsL_reverse (ms : List (Nat × D)) (g : Nat → D) (hnd : (ms.map (·.1)).Nodup) :
    applyMutsL g ms.reverse = applyMutsL g ms := by
  funext k
  by_cases hk : k ∈ ms.map (·.1)
  · obtain ⟨x, hx, rfl⟩ := List.mem_map.mp hk
    rw [applyMutsL_mem ms g x.1 x.2 hnd hx,
      applyMutsL_mem ms.reverse g x.1 x.2 (by rw [List.map_reverse]; exact List.pairwise_reverse.mpr (hnd.imp Ne.symm))
        (List.mem_reverse.mpr hx)]
  · rw [applyMutsL_not_mem ms g k hk, applyMutsL_not_mem ms.reverse g k (by simpa using hk)]

omit [DecidableEq D] in
/-- the `while let Some(..) = leaf_mutations.pop()` loop of `batch_update_from_batch_leaf_mutation` -/
theorem mutationsLoop_spec (n : Nat) (g : Nat → D) (hn : n < 2 ^ 63) : ∀ (rest : List (Nat × D)) (m : AMap D)
    (g' : Nat → D) (S : List Nat), MapInv H n g g' S m → (∀ x ∈ rest, x.1 < n) → (rest.map (·.1)).Nodup →
    (∀ x ∈ rest, x.1 ∉ S) →
    ∃ m' S', mutationsLoop H false 0 (rest.map fun x => ⟨x.1, x.2, authPathOf H g n x.1⟩) m []
        = some (m', []) ∧ MapInv H n g (applyMutsL g' rest) S' m' := by
  intro rest
  induction rest with
  | nil => intro m g' S hinv _ _ _; exact ⟨m, S, rfl, hinv⟩
  | cons x rest ih =>
    intro m g' S hinv hlt hnd hS
    have hx := hlt x (by simp)
    simp only [List.map_cons, List.nodup_cons] at hnd
    have hfresh : (AMap.get? m (nodeIdx 0 x.1)).isSome = false := by
      cases hc : (AMap.get? m (nodeIdx 0 x.1)).isSome with
      | false => rfl
      | true => exact absurd (hinv.2.2 x.1 hc) (hS x (by simp))
    obtain ⟨m1, acc, hded, hinv1⟩ := mutation_step H n g g' S m true false x.1 x.2 hx hn hinv (by simp)
    obtain ⟨m', S', hloop, hinv'⟩ := ih m1 (Function.update g' x.1 x.2) (x.1 :: S) hinv1
      (fun y hy => hlt y (by simp [hy])) hnd.2 (by
        intro y hy
        simp only [List.mem_cons, not_or]
        refine ⟨?_, hS y (by simp [hy])⟩
        intro he
        exact hnd.1 (by rw [← he]; exact List.mem_map.mpr ⟨y, hy, rfl⟩))
    refine ⟨m', S', ?_, hinv'⟩
    rw [List.map_cons, mutationsLoop]
    simp only [l2n_eq_nodeIdx x.1 (by omega), hfresh, Bool.false_eq_true, if_false, Bool.not_false, hded,
      Option.bind_eq_bind, Option.bind_some]
    exact hloop

/-- **`batch_update_from_batch_leaf_mutation`** on from-scratch paths, distinct mutated leafs in any order -/
theorem batchUpdateFromBatchLeafMutation_spec (g : Nat → D) (n : Nat) (ms : List (Nat × D)) (lis : List Nat)
    (hlis : ∀ i ∈ lis, i < n) (hms : ∀ m ∈ ms, m.1 < n) (hnd : (ms.map (·.1)).Nodup) (hn : n < 2 ^ 63) :
    batchUpdateFromBatchLeafMutation H (lis.map (authPathOf H g n)) lis
        (ms.map fun m => ⟨m.1, m.2, authPathOf H g n m.1⟩)
      = some (lis.map (authPathOf H (applyMutsL g ms) n),
          (List.range lis.length).filter (fun k => decide
            (authPathOf H (applyMutsL g ms) n (lis.getD k 0) ≠ authPathOf H g n (lis.getD k 0)))) := by
  unfold batchUpdateFromBatchLeafMutation
  obtain ⟨m', S', hloop, hinv⟩ := mutationsLoop_spec H n g hn ms.reverse [] g [] (MapInv_nil H n g)
    (fun x hx => hms x (List.mem_reverse.mp hx))
    (by rw [List.map_reverse]; exact List.pairwise_reverse.mpr (hnd.imp Ne.symm)) (fun _ _ => by simp)
  rw [applyMutsL_reverse ms g hnd] at hinv
  simp only [List.length_map, ne_eq, not_true_eq_false, if_false, ← List.map_reverse, hloop,
    Option.bind_eq_bind, Option.bind_some]
  rw [batchReplaceLoop_spec m' false (authPathOf H g n) (authPathOf H (applyMutsL g ms) n)
    (fun li => (List.range (locate n li).1).map (fun t => nodeIdx t (sibBlk (li / 2 ^ t)))) lis 0]
  · rw [chgIdx_eq]; simp
  · intro li hli
    have hl : (authPathOf H g n li).length = (locate n li).1 := by unfold authPathOf; rw [sibPath_length]
    refine ⟨by rw [hl]; exact own_node_indices n li (hlis li hli) hn, ?_⟩
    exact replace_path_spec H n g _ S' m' false li (hlis li hli) hinv (by simp)

end Batch3

section Dup
variable {D : Type} [DecidableEq D] (H : D → D → D)

omit [DecidableEq D] in
/-- the walk only adds keys -/
theorem deducible_keeps_keys (stop : Option Nat) (sk u il : Bool) : ∀ (path : List D) (ni : Nat) (acc : D)
    (m m' : AMap D) (a : D), deducible H stop sk u il path ni acc m = some (m', a) →
    ∀ k, (AMap.get? m k).isSome → (AMap.get? m' k).isSome := by
  intro path
  induction path with
  | nil => intro ni acc m m' a h k hk; simp only [deducible, Option.some.injEq, Prod.mk.injEq] at h; rw [← h.1]; exact hk
  | cons hash rest ih =>
    intro ni acc m m' a h k hk
    rw [deducible] at h
    split at h
    · simp only [Option.some.injEq, Prod.mk.injEq] at h; rw [← h.1]; exact hk
    · split at h
      · simp only [Option.some.injEq, Prod.mk.injEq] at h; rw [← h.1]; exact hk
      · split at h
        · cases h
        · apply ih _ _ _ _ _ h k
          split
          · exact hk
          · rw [get?_insert]; split
            · rfl
            · exact hk

omit [DecidableEq D] in
/-- a mutation of a leaf whose node is already stored: `assert!(former_value.is_none())` fails -/
theorem mutationsLoop_stored_panics (lc : Nat) : ∀ (l : List (LeafMutation D)) (m : AMap D) (pk : List D),
    (∃ x ∈ l, (AMap.get? m (leaf_index_to_node_index x.leaf_index)).isSome) →
    mutationsLoop H false lc l m pk = none := by
  intro l
  induction l with
  | nil => intro m pk ⟨x, hx, _⟩; simp at hx
  | cons y rest ih =>
    intro m pk ⟨x, hx, hs⟩
    rw [mutationsLoop]
    by_cases hy : (AMap.get? m (leaf_index_to_node_index y.leaf_index)).isSome
    · simp [hy]
    · have hxr : x ∈ rest := by
        rcases List.mem_cons.mp hx with he | hr
        · subst he; exact absurd hs hy
        · exact hr
      simp only [hy, Bool.false_eq_true, if_false, Bool.not_false, Option.bind_eq_bind]
      cases hd : deducible H none true true false y.path (leaf_index_to_node_index y.leaf_index) y.new_leaf
          (AMap.insert m (leaf_index_to_node_index y.leaf_index) y.new_leaf) with
      | none => rfl
      | some r =>
        obtain ⟨m2, acc⟩ := r
        simp only [Option.bind_some]
        apply ih
        refine ⟨x, hxr, deducible_keeps_keys H _ _ _ _ _ _ _ _ _ _ hd _ ?_⟩
        rw [get?_insert]; split
        · rfl
        · exact hs

omit [DecidableEq D] in
theorem mutationsLoop_dup_panics (lc : Nat) : ∀ (l : List (LeafMutation D)) (m : AMap D) (pk : List D),
    ¬ (l.map (·.leaf_index)).Nodup → mutationsLoop H false lc l m pk = none := by
  intro l
  induction l with
  | nil => intro m pk h; simp at h
  | cons y rest ih =>
    intro m pk h
    simp only [List.map_cons, List.nodup_cons, not_and_or, not_not] at h
    rw [mutationsLoop]
    by_cases hy : (AMap.get? m (leaf_index_to_node_index y.leaf_index)).isSome
    · simp [hy]
    · simp only [hy, Bool.false_eq_true, if_false, Bool.not_false, Option.bind_eq_bind]
      cases hd : deducible H none true true false y.path (leaf_index_to_node_index y.leaf_index) y.new_leaf
          (AMap.insert m (leaf_index_to_node_index y.leaf_index) y.new_leaf) with
      | none => rfl
      | some r =>
        obtain ⟨m2, acc⟩ := r
        simp only [Option.bind_some]
        rcases h with h | h
        · obtain ⟨x, hx, he⟩ := List.mem_map.mp h
          apply mutationsLoop_stored_panics
          refine ⟨x, hx, deducible_keeps_keys H _ _ _ _ _ _ _ _ _ _ hd _ ?_⟩
          rw [he, get?_insert, if_pos rfl]; rfl
        · exact ih _ _ h

/-- **duplicated mutated leafs are refused** by `batch_update_from_batch_leaf_mutation`, whatever the proofs -/
theorem batchUpdateFromBatchLeafMutation_dup_panics (paths : List (List D)) (lis : List Nat)
    (lms : List (LeafMutation D)) (h : ¬ (lms.map (·.leaf_index)).Nodup) :
    batchUpdateFromBatchLeafMutation H paths lis lms = none := by
  unfold batchUpdateFromBatchLeafMutation
  have : ¬ (lms.reverse.map (·.leaf_index)).Nodup := by
    intro hc
    apply h
    rw [List.map_reverse] at hc
    have := List.pairwise_reverse.mp hc
    exact this.imp Ne.symm
  rw [mutationsLoop_dup_panics H 0 lms.reverse [] [] this]
  split <;> rfl

end Dup

end TF.MmrE
