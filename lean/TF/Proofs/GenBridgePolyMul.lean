import TF.Proofs.GenBridgePoly
/-!
Bridge for the two index double loops of `polynomial.rs` regenerated from source (`TF/Gen/PolyLoops.lean`):
`naive_multiply` (`product[i + j] = product[i + j] + self[i] * other[j]`) and `slow_square`
(`sq[2i] += cᵢ²`, `sq[i + j] += (two·cᵢ)·cⱼ` for `j > i`) are the hand models `naiveMultiplyG` (`mulRows`) and `slowSquare`
(`squareRows`) of `TF/Model/Poly.lean` / `PolyMul.lean`.

The hand models add row `i` to the *already summed* rows `i+1, …` shifted by one (`a₀·b + X·(rest·b)`), the loops add row `i`
to the accumulated rows `0 … i-1` starting from zeros.  The two parenthesise the sums differently and pad with `zero` on
different sides, so the bridge is false for an arbitrary operation record; it needs exactly that `add` is associative with the
two-sided unit `zero` (`AddLaws`; commutativity is *not* needed — `AddLaws.of_comm` derives the right unit from the left unit
for a commutative `add`).  No law of `mul` is used.

Core Lean + the list lemmas already imported by `GenBridgePoly`.
-/
namespace TF.GenBridge.Poly
open TF TF.Model.Poly TF.PolyStd

variable {α β γ : Type}

/-- the laws of `add`/`zero` of the coefficient type of the result that the double-loop bridges use: an additive monoid -/
structure AddLaws (F : FieldOps α) : Prop where
  add_assoc : ∀ a b c, F.add (F.add a b) c = F.add a (F.add b c)
  zero_add : ∀ a, F.add F.zero a = a
  add_zero : ∀ a, F.add a F.zero = a

/-- a commutative, associative `add` with left unit `zero` satisfies `AddLaws` -/
theorem AddLaws.of_comm {F : FieldOps α} (hc : ∀ a b, F.add a b = F.add b a)
    (ha : ∀ a b c, F.add (F.add a b) c = F.add a (F.add b c)) (hz : ∀ a, F.add F.zero a = a) : AddLaws F :=
  ⟨ha, hz, fun a => by rw [hc, hz]⟩

/-! ### list lemmas -/

/-- adding a row `r` to the head of the accumulator and then the remaining rows `M`, position by position, is adding
    `zipLongestWith add id r M` (only associativity) -/
theorem zipWith_add_row (F : FieldOps γ) (hA : ∀ a b c, F.add (F.add a b) c = F.add a (F.add b c)) (r : List γ) :
    ∀ (acc M : List γ), acc.length = M.length →
      List.zipWith F.add (List.zipWith F.add (acc.take r.length) r ++ acc.drop r.length) M =
        List.zipWith F.add acc (zipLongestWith F.add id r M) := by
  induction r with
  | nil => intro acc M _; simp [zipLongestWith]
  | cons x r ih =>
    intro acc M hl
    cases acc with
    | nil => simp
    | cons c acc =>
      cases M with
      | nil => simp at hl
      | cons y M =>
        simp only [List.length_cons, Nat.add_right_cancel_iff] at hl
        simp only [List.length_cons, List.take_succ_cons, List.zipWith_cons_cons, List.drop_succ_cons, List.cons_append,
          zipLongestWith, hA, ih acc M hl]

theorem zipWith_replicate_zero (F : FieldOps γ) (hZ : ∀ a, F.add F.zero a = a) (l : List γ) :
    List.zipWith F.add (List.replicate l.length F.zero) l = l := by
  induction l with
  | nil => rfl
  | cons x l ih => simp [List.replicate_succ, hZ, ih]

theorem length_zipLongestWith (f : γ → γ → γ) (g : γ → γ) (a b : List γ) :
    (zipLongestWith f g a b).length = max a.length b.length := by
  induction a generalizing b with
  | nil => simp [zipLongestWith]
  | cons x a ih =>
    cases b with
    | nil => simp [zipLongestWith]
    | cons y b => simp only [zipLongestWith, List.length_cons, ih]; omega

theorem length_mulRows (F3 : FieldOps γ) (mul : α → β → γ) (b : List β) (hb : b ≠ []) :
    ∀ (a : List α), a ≠ [] → (mulRows F3 mul a b).length = a.length + b.length - 1 := by
  have hbl : 0 < b.length := List.length_pos_of_ne_nil hb
  intro a
  induction a with
  | nil => intro h; exact absurd rfl h
  | cons a0 as ih =>
    intro _
    cases as with
    | nil => simp [mulRows]
    | cons a1 as =>
      have := ih (by simp)
      simp only [mulRows, length_zipLongestWith, List.length_map, List.length_cons] at this ⊢
      omega

theorem length_squareRows (F : FieldOps α) : ∀ (c : List α), c ≠ [] → (squareRows F c).length = 2 * c.length - 1 := by
  intro c
  induction c with
  | nil => intro h; exact absurd rfl h
  | cons c0 cs ih =>
    intro _
    cases cs with
    | nil => simp [squareRows]
    | cons c1 cs =>
      have := ih (by simp)
      simp only [squareRows, length_zipLongestWith, List.length_map, List.length_cons] at this ⊢
      omega

/-! ### `naive_multiply` -/

/-- the inner loop of `naive_multiply` for row `i`: the window `mid` of the accumulator at offset `i + |bpre|` gets
    `self[i] * other[j]` added position by position, nothing else is touched, no index panic -/
theorem naive_for2_eq (F : FieldOps α) (F2 : FieldOps β) (F3 : FieldOps γ) (mul : α → β → γ)
    (self_ : List α) (i : Nat) (ai : α) (hi : self_[i]? = some ai) (bpost : List β) (post : List γ) :
    ∀ (bmid bpre : List β) (pre mid : List γ), mid.length = bmid.length → pre.length = i + bpre.length →
      TF.Gen.Poly.naive_multiply_for2 F F2 F3 mul self_ (bpre ++ bmid ++ bpost) i
          (List.range' bpre.length bmid.length) (pre ++ mid ++ post) =
        some (pre ++ List.zipWith (fun p b => F3.add p (mul ai b)) mid bmid ++ post) := by
  intro bmid
  induction bmid with
  | nil =>
    intro bpre pre mid hm _
    have : mid = [] := List.eq_nil_of_length_eq_zero (by simpa using hm)
    subst this
    simp [TF.Gen.Poly.naive_multiply_for2]
  | cons b bmid ih =>
    intro bpre pre mid hm hp
    cases mid with
    | nil => simp at hm
    | cons p mid =>
      simp only [List.length_cons, Nat.add_right_cancel_iff] at hm
      have hget : (pre ++ p :: mid ++ post)[i + bpre.length]? = some p := by
        rw [← hp]; simp
      have hgetb : (bpre ++ b :: bmid ++ bpost)[bpre.length]? = some b := by simp
      have hset : (pre ++ p :: mid ++ post).set (i + bpre.length) (F3.add p (mul ai b)) =
          (pre ++ [F3.add p (mul ai b)]) ++ mid ++ post := by
        rw [← hp]; simp
      have hother : bpre ++ b :: bmid ++ bpost = (bpre ++ [b]) ++ bmid ++ bpost := by simp
      have hlen : bpre.length + 1 = (bpre ++ [b]).length := by simp
      rw [List.length_cons, List.range'_succ]
      simp only [TF.Gen.Poly.naive_multiply_for2, hget, hi, hgetb, Option.bind_some, hset]
      rw [hother, hlen, ih (bpre ++ [b]) (pre ++ [F3.add p (mul ai b)]) mid hm (by simp; omega)]
      simp

/-- the outer loop of `naive_multiply` over the rows `amid` (at offset `|apre|` of the storage): the window `acc` of the
    accumulator gets the rows of `mulRows amid b` added — associativity and the right unit are used -/
theorem naive_for_eq (F : FieldOps α) (F2 : FieldOps β) (F3 : FieldOps γ) (hL : AddLaws F3) (mul : α → β → γ)
    (b bpost : List β) (hb : b ≠ []) (degree_rhs : Nat) (hdr : degree_rhs + 1 = b.length) (apost : List α) :
    ∀ (amid : List α), amid ≠ [] → ∀ (apre : List α) (pre acc : List γ), pre.length = apre.length →
      acc.length = amid.length + b.length - 1 →
      TF.Gen.Poly.naive_multiply_for F F2 F3 mul (apre ++ amid ++ apost) (b ++ bpost) degree_rhs
          (List.range' apre.length amid.length) (pre ++ acc) =
        some (pre ++ List.zipWith F3.add acc (mulRows F3 mul amid b)) := by
  have hbl : 0 < b.length := List.length_pos_of_ne_nil hb
  have hr : degree_rhs + 1 - 0 = b.length := by omega
  intro amid
  induction amid with
  | nil => intro h; exact absurd rfl h
  | cons a0 as ih =>
    intro _ apre pre acc hp hacc
    have hi : (apre ++ a0 :: as ++ apost)[apre.length]? = some a0 := by simp
    have h2 := naive_for2_eq F F2 F3 mul (apre ++ a0 :: as ++ apost) apre.length a0 hi bpost (acc.drop b.length)
      b [] pre (acc.take b.length) (by simp only [List.length_take, List.length_cons] at hacc ⊢; omega) (by simpa using hp)
    simp only [List.nil_append, List.length_nil] at h2
    rw [List.append_assoc pre, List.take_append_drop] at h2
    rw [List.length_cons, List.range'_succ]
    simp only [TF.Gen.Poly.naive_multiply_for, hr, h2, Option.bind_some]
    cases as with
    | nil =>
      have hd : acc.drop b.length = [] := List.drop_eq_nil_of_le (by simp only [List.length_cons, List.length_nil] at hacc; omega)
      have ht : acc.take b.length = acc := List.take_of_length_le (by simp only [List.length_cons, List.length_nil] at hacc; omega)
      simp [TF.Gen.Poly.naive_multiply_for, hd, ht, mulRows, List.zipWith_map_right]
    | cons a1 as =>
      obtain ⟨b0, bt, rfl⟩ := List.exists_cons_of_ne_nil hb
      cases acc with
      | nil => simp only [List.length_cons, List.length_nil] at hacc; omega
      | cons c0 acct =>
        have hM := length_mulRows F3 mul (b0 :: bt) hb (a1 :: as) (by simp)
        simp only [List.length_cons] at hacc hM
        have hstore : apre ++ a0 :: a1 :: as ++ apost = (apre ++ [a0]) ++ (a1 :: as) ++ apost := by simp
        have hal : apre.length + 1 = (apre ++ [a0]).length := by simp
        have hprod : pre ++ List.zipWith (fun p b => F3.add p (mul a0 b)) (List.take (b0 :: bt).length (c0 :: acct)) (b0 :: bt) ++
            List.drop (b0 :: bt).length (c0 :: acct) =
            (pre ++ [F3.add c0 (mul a0 b0)]) ++
              (List.zipWith F3.add (acct.take (bt.map (mul a0)).length) (bt.map (mul a0)) ++ acct.drop (bt.map (mul a0)).length) := by
          simp [List.zipWith_map_right]
        rw [hprod, hstore, hal, ih (by simp) (apre ++ [a0]) (pre ++ [F3.add c0 (mul a0 b0)]) _ (by simp; omega)
          (by simp only [List.length_append, List.length_zipWith, List.length_take, List.length_map, List.length_drop,
                List.length_cons]; omega)]
        rw [zipWith_add_row F3 hL.add_assoc _ acct _ (by simp only [hM]; omega)]
        simp [mulRows, zipLongestWith, hL.add_zero]

/-- **regenerated `naive_multiply<FF2>` = hand model `naiveMultiplyG`** for every record of operations whose result type
    has an associative `add` with two-sided unit `zero`; every storage of the operands (stored leading zeros are not
    read); no index panic -/
theorem naive_multiply_eq (F : FieldOps α) (F2 : FieldOps β) (F3 : FieldOps γ) (hL : AddLaws F3) (mul : α → β → γ)
    (a : List α) (b : List β) :
    TF.Gen.Poly.naive_multiply F F2 F3 mul a b = some (naiveMultiplyG F F2 F3 mul a b) := by
  obtain ⟨n, hn, hpa, hda⟩ := normalize_prefix F a
  obtain ⟨m, hm, hpb, hdb⟩ := normalize_prefix F2 b
  simp only [TF.Gen.Poly.naive_multiply, degree_eq, Option.bind_some, naiveMultiplyG, hpa, hpb, hda, hdb,
    TF.Gen.Poly.zero, TF.Gen.Poly.new]
  cases n with
  | zero => simp [toUsize?]
  | succ n =>
    have h1 : toUsize? (((n + 1 : Nat) : Int) - 1) = some n := by
      simp [toUsize?]
    obtain ⟨a0, at', hat⟩ : ∃ a0 at', a.take (n + 1) = a0 :: at' := by
      cases a with
      | nil => simp at hn
      | cons a0 a => exact ⟨a0, a.take n, rfl⟩
    simp only [h1, hat]
    cases m with
    | zero => simp [toUsize?]
    | succ m =>
      have h2 : toUsize? (((m + 1 : Nat) : Int) - 1) = some m := by
        simp [toUsize?]
      obtain ⟨b0, bt, hbt⟩ : ∃ b0 bt, b.take (m + 1) = b0 :: bt := by
        cases b with
        | nil => simp at hm
        | cons b0 b => exact ⟨b0, b.take m, rfl⟩
      simp only [h2, hbt]
      have hla : (a0 :: at').length = n + 1 := by rw [← hat, List.length_take]; omega
      have hlb : (b0 :: bt).length = m + 1 := by rw [← hbt, List.length_take]; omega
      have hM := length_mulRows F3 mul (b0 :: bt) (by simp) (a0 :: at') (by simp)
      have hfor := naive_for_eq F F2 F3 hL mul (b0 :: bt) (b.drop (m + 1)) (by simp) m (by omega) (a.drop (n + 1))
        (a0 :: at') (by simp) [] [] (List.replicate (n + m + 1) F3.zero) rfl (by simp only [List.length_replicate]; omega)
      rw [← hat, ← hbt] at hfor
      simp only [List.nil_append, List.take_append_drop, List.length_nil, List.length_take, Nat.min_eq_left hn] at hfor
      rw [Nat.sub_zero, hfor, hat, hbt]
      have : n + m + 1 = (mulRows F3 mul (a0 :: at') (b0 :: bt)).length := by omega
      rw [this, zipWith_replicate_zero F3 hL.zero_add]
      rfl

/-! ### `slow_square` -/

/-- the inner loop of `slow_square` for row `i` -/
theorem slow_for2_eq (F : FieldOps α) (two : α) (i : Nat) (ci : α) (cpost post : List α) :
    ∀ (cmid cpre pre mid : List α), mid.length = cmid.length → pre.length = i + cpre.length →
      TF.Gen.Poly.slow_square_for2 F two (cpre ++ cmid ++ cpost) i ci
          (List.range' cpre.length cmid.length) (pre ++ mid ++ post) =
        some (pre ++ List.zipWith (fun p c => F.add p (F.mul (F.mul two ci) c)) mid cmid ++ post) := by
  intro cmid
  induction cmid with
  | nil =>
    intro cpre pre mid hm _
    have : mid = [] := List.eq_nil_of_length_eq_zero (by simpa using hm)
    subst this
    simp [TF.Gen.Poly.slow_square_for2]
  | cons c cmid ih =>
    intro cpre pre mid hm hp
    cases mid with
    | nil => simp at hm
    | cons p mid =>
      simp only [List.length_cons, Nat.add_right_cancel_iff] at hm
      have hget : (pre ++ p :: mid ++ post)[i + cpre.length]? = some p := by
        rw [← hp]; simp
      have hgetc : (cpre ++ c :: cmid ++ cpost)[cpre.length]? = some c := by simp
      have hset : (pre ++ p :: mid ++ post).set (i + cpre.length) (F.add p (F.mul (F.mul two ci) c)) =
          (pre ++ [F.add p (F.mul (F.mul two ci) c)]) ++ mid ++ post := by
        rw [← hp]; simp
      have hother : cpre ++ c :: cmid ++ cpost = (cpre ++ [c]) ++ cmid ++ cpost := by simp
      have hlen : cpre.length + 1 = (cpre ++ [c]).length := by simp
      rw [List.length_cons, List.range'_succ]
      simp only [TF.Gen.Poly.slow_square_for2, hget, hgetc, Option.bind_some, hset]
      rw [hother, hlen, ih (cpre ++ [c]) (pre ++ [F.add p (F.mul (F.mul two ci) c)]) mid hm (by simp; omega)]
      simp

/-- the outer loop of `slow_square` over the coefficients `cmid` at offset `|cpre|` -/
theorem slow_for_eq (F : FieldOps α) (hL : AddLaws F) :
    ∀ (cmid : List α), cmid ≠ [] → ∀ (cpre pre acc : List α), pre.length = 2 * cpre.length →
      acc.length = 2 * cmid.length - 1 →
      TF.Gen.Poly.slow_square_for F (F.add F.one F.one) (cpre ++ cmid)
          (List.range' cpre.length cmid.length) (pre ++ acc) =
        some (pre ++ List.zipWith F.add acc (squareRows F cmid)) := by
  intro cmid
  induction cmid with
  | nil => intro h; exact absurd rfl h
  | cons c cs ih =>
    intro _ cpre pre acc hp hacc
    cases acc with
    | nil => simp only [List.length_cons, List.length_nil] at hacc; omega
    | cons x0 acc =>
      have hci : (cpre ++ c :: cs)[cpre.length]? = some c := by simp
      have hget : (pre ++ x0 :: acc)[2 * cpre.length]? = some x0 := by rw [← hp]; simp
      have hset : (pre ++ x0 :: acc).set (2 * cpre.length) (F.add x0 (F.mul c c)) =
          pre ++ F.add x0 (F.mul c c) :: acc := by rw [← hp]; simp
      rw [List.length_cons, List.range'_succ]
      simp only [TF.Gen.Poly.slow_square_for, hci, hget, hset, Option.bind_some]
      have hcnt : (cpre ++ c :: cs).length - (cpre.length + 1) = cs.length := by
        simp only [List.length_append, List.length_cons]; omega
      rw [hcnt]
      have h2 := slow_for2_eq F (F.add F.one F.one) cpre.length c [] (acc.drop cs.length) cs (cpre ++ [c])
        (pre ++ [F.add x0 (F.mul c c)]) (acc.take cs.length)
        (by simp only [List.length_take, List.length_cons] at hacc ⊢; omega) (by simp; omega)
      simp only [List.append_nil, List.length_append, List.length_cons, List.length_nil, Nat.zero_add] at h2
      rw [List.append_assoc (pre ++ _), List.take_append_drop] at h2
      have e1 : cpre ++ c :: cs = cpre ++ [c] ++ cs := by simp
      have e2 : pre ++ F.add x0 (F.mul c c) :: acc = pre ++ [F.add x0 (F.mul c c)] ++ acc := by simp
      rw [e1, e2, h2, Option.bind_some]
      cases cs with
      | nil =>
        have : acc = [] := List.eq_nil_of_length_eq_zero (by simp only [List.length_cons, List.length_nil] at hacc; omega)
        subst this
        simp [TF.Gen.Poly.slow_square_for, squareRows]
      | cons c1 cs =>
        cases acc with
        | nil => simp only [List.length_cons, List.length_nil] at hacc; omega
        | cons x1 acct =>
          have hS := length_squareRows F (c1 :: cs) (by simp)
          simp only [List.length_cons] at hacc hS
          have hprod : pre ++ [F.add x0 (F.mul c c)] ++
              List.zipWith (fun p c_1 => F.add p (F.mul (F.mul (F.add F.one F.one) c) c_1))
                (List.take (c1 :: cs).length (x1 :: acct)) (c1 :: cs) ++ List.drop (c1 :: cs).length (x1 :: acct) =
              (pre ++ [F.add x0 (F.mul c c), F.add x1 (F.mul (F.mul (F.add F.one F.one) c) c1)]) ++
                (List.zipWith F.add (acct.take (cs.map (fun cj => F.mul (F.mul (F.add F.one F.one) c) cj)).length)
                    (cs.map (fun cj => F.mul (F.mul (F.add F.one F.one) c) cj)) ++
                  acct.drop (cs.map (fun cj => F.mul (F.mul (F.add F.one F.one) c) cj)).length) := by
            simp [List.zipWith_map_right]
          have hlen : cpre.length + 1 = (cpre ++ [c]).length := by simp
          rw [hprod, hlen, ih (by simp) (cpre ++ [c]) _ _ (by simp; omega)
            (by simp only [List.length_append, List.length_zipWith, List.length_take, List.length_map, List.length_drop,
                  List.length_cons]; omega)]
          rw [zipWith_add_row F hL.add_assoc _ acct _ (by simp only [hS]; omega)]
          simp [squareRows, zipLongestWith, hL.add_zero]

/-- **regenerated `slow_square` = hand model `slowSquare`** for every record of operations with an associative `add` with
    two-sided unit `zero`; every storage; no index panic (the loops run over `coefficients()`, fix F5) -/
theorem slow_square_eq (F : FieldOps α) (hL : AddLaws F) (p : List α) :
    TF.Gen.Poly.slow_square F p = some (slowSquare F p) := by
  obtain ⟨n, hn, hp, hd⟩ := normalize_prefix F p
  have hlen : (normalize F p).length = n := by rw [hp, List.length_take]; omega
  simp only [TF.Gen.Poly.slow_square, degree_eq, Option.bind_some, coefficients_eq, coefficients, slowSquare, hd,
    TF.Gen.Poly.zero, TF.Gen.Poly.new, beq_iff_eq]
  cases n with
  | zero =>
    have : normalize F p = [] := List.eq_nil_of_length_eq_zero hlen
    simp [this, squareRows]
  | succ n =>
    have h1 : ((n + 1 : Nat) : Int) - 1 = (n : Int) := by omega
    have h2 : ¬ ((n : Int) = -1) := by omega
    simp only [h1, h2, if_false, toUsize?, Int.natCast_nonneg, if_true, Int.toNat_natCast, Option.bind_some]
    have hne : normalize F p ≠ [] := by intro h; rw [h] at hlen; simp at hlen
    have hS := length_squareRows F (normalize F p) hne
    have hfor := slow_for_eq F hL (normalize F p) hne [] [] (List.replicate (n * 2 + 1) F.zero) rfl
      (by simp only [List.length_replicate, hlen]; omega)
    simp only [List.nil_append, List.length_nil] at hfor
    rw [Nat.sub_zero, hfor]
    have : n * 2 + 1 = (squareRows F (normalize F p)).length := by omega
    rw [this, zipWith_replicate_zero F hL.zero_add]
    rfl

end TF.GenBridge.Poly
