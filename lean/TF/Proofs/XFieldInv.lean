import TF.Proofs.PolyHom
import TF.Proofs.PolyDiv
import TF.Proofs.Shah
import TF.Proofs.NttField
import TF.Proofs.XField
/-!
`XFieldElement::inverse` (model `TF.Model.XFInv.xfeInverse`, the extended-gcd route of the Rust code) returns the
multiplicative inverse of every non-zero element and panics exactly on zero.

Route
1. over `K = ZMod P` with the record `FieldOps.ofField K`: `xgcd_spec` (C09) gives a gcd that is zero or monic, divides
   both `c0 + c1 X + c2 X²` and `X³ − X + 1`, with Bézout coefficients; coprimality (`TF.Shah.xfe_coprime`, from the
   irreducibility of the cubic) forces the gcd to be `1`; `naiveDivide_spec` (C09) reduces the Bézout coefficient
   modulo the cubic to a remainder of degree `< 3`, whose (normalised, zero-padded) coefficients are the result;
2. `ZMod.val` is a homomorphism of operation records `FieldOps.ofField (ZMod P) → bfieldOps`, so by naturality
   (`TF/Proofs/PolyHom.lean`) the executable instance on canonical values returns the `val`-image of that result;
3. `TF.Shah.inverse_iff_coeffs` / `xmul_eq_xone_iff` translate "inverse modulo the cubic" into `xmul r x = xone`.
-/
open Polynomial

namespace TF.XFInvProofs
open TF TF.Gen TF.Spec TF.Shah TF.Model.Poly TF.Model.PolyD TF.Model.XFInv TF.PolyHom

local notation "FF" => FieldOps.ofField F (fun _ => none)

/-- the cubic -/
noncomputable abbrev shahP : F[X] := X^3 - X + 1

theorem denote_shahG : denote (shahG FF) = shahP := by
  simp only [shahG, FieldOps.ofField_one, FieldOps.ofField_zero, FieldOps.ofField_neg, denote_cons, denote_nil]
  simp only [C_neg, C_1, C_0]
  ring

theorem shahP_ne_zero : shahP ≠ 0 := shah_monic.ne_zero

/-! ### step 1: over `ZMod P` -/

/-- `From<Polynomial> for XFieldElement`: never panics and returns the three coefficients of the remainder modulo the
    cubic -/
theorem ofPolyG_spec (p : List F) :
    ∃ r0 r1 r2 q, ofPolyG FF p = some (r0, r1, r2) ∧
      denote p = q * shahP + (C r0 + C r1 * X + C r2 * X^2) := by
  obtain ⟨q, r, hdiv, heq, hdeg⟩ := TF.Proofs.PolyD.naiveDivide_spec (fun _ => none) p (shahG FF)
    (by rw [denote_shahG]; exact shahP_ne_zero)
  rw [denote_shahG] at heq hdeg
  rw [shah_degree] at hdeg
  have hn : denote (normalize FF r) = denote r := denote_normalize _ r
  have hlen : (normalize FF r).length ≤ 3 := by
    by_cases h0 : denote r = 0
    · rw [(normalize_eq_nil_iff _ r).2 h0]; simp
    · rw [length_normalize _ r h0]
      have : (denote r).natDegree < 3 := (natDegree_lt_iff_degree_lt h0).2 (by exact_mod_cast hdeg)
      omega
  unfold ofPolyG
  rw [hdiv]
  simp only [coefficients]
  rcases hr : normalize FF r with _ | ⟨c0, _ | ⟨c1, _ | ⟨c2, _ | ⟨c3, l⟩⟩⟩⟩
  · refine ⟨0, 0, 0, denote q, rfl, ?_⟩
    rw [heq, ← hn, hr]; simp
  · refine ⟨c0, 0, 0, denote q, rfl, ?_⟩
    rw [heq, ← hn, hr]; simp
  · refine ⟨c0, c1, 0, denote q, rfl, ?_⟩
    rw [heq, ← hn, hr]; simp
  · refine ⟨c0, c1, c2, denote q, rfl, ?_⟩
    rw [heq, ← hn, hr]; simp; ring
  · rw [hr] at hlen; simp only [List.length_cons] at hlen; omega

theorem isZeroG_FF (x : F × F × F) : isZeroG FF x = true ↔ (x.1 = 0 ∧ x.2.1 = 0 ∧ x.2.2 = 0) := by
  simp [isZeroG, and_assoc]

theorem denote_toPoly (x : F × F × F) : denote (toPoly x) = C x.1 + C x.2.1 * X + C x.2.2 * X^2 := by
  simp [toPoly]; ring

/-- the model over `ZMod P`: for a non-zero element it returns an inverse modulo the cubic -/
theorem inverseG_spec (x : F × F × F) (hx : ¬ (x.1 = 0 ∧ x.2.1 = 0 ∧ x.2.2 = 0)) :
    ∃ r0 r1 r2 q, inverseG FF x = some (r0, r1, r2) ∧
      (C x.1 + C x.2.1 * X + C x.2.2 * X^2) * (C r0 + C r1 * X + C r2 * X^2) = 1 + shahP * q := by
  obtain ⟨g, u, v, hxg, hg, hdx, hds, hbez⟩ := TF.Proofs.PolyD.xgcd_spec (fun _ => none) (toPoly x) (shahG FF)
  rw [denote_toPoly] at hdx hbez
  rw [denote_shahG] at hds hbez
  have hcop := xfe_coprime x.1 x.2.1 x.2.2 hx
  have hunit : IsUnit (denote g) := hcop.isUnit_of_dvd' hdx hds
  have hg1 : denote g = 1 := by
    rcases hg with h0 | hm
    · rw [h0] at hunit; exact absurd hunit not_isUnit_zero
    · exact hm.eq_one_of_isUnit hunit
  obtain ⟨r0, r1, r2, q, hof, hu⟩ := ofPolyG_spec u
  refine ⟨r0, r1, r2, - denote v - q * (C x.1 + C x.2.1 * X + C x.2.2 * X^2), ?_, ?_⟩
  · unfold inverseG
    have hz : isZeroG FF x = false := by
      rw [← Bool.not_eq_true, isZeroG_FF]; exact hx
    rw [hz, hxg]
    exact hof
  · rw [hg1, hu] at hbez
    linear_combination -hbez

theorem inverseG_zero (x : F × F × F) (hx : x.1 = 0 ∧ x.2.1 = 0 ∧ x.2.2 = 0) : inverseG FF x = none := by
  unfold inverseG
  rw [(isZeroG_FF x).2 hx]; rfl

/-! ### step 2: `ZMod.val` is a homomorphism onto the executable instance -/

theorem val_eq (z : F) (n : ℕ) (hn : n < P) (h : (n : F) = z) : z.val = n := by
  subst h
  exact ZMod.val_cast_of_lt (by rw [P_val] at hn; exact hn)

theorem fmul_lt (a b : ℕ) : fmul a b < P := Nat.mod_lt _ (by decide)
theorem fneg_eq (a : ℕ) : fneg a = fsub 0 a := by unfold fneg fsub; rw [Nat.zero_add]

theorem fpow_lt (a : ℕ) (e : ℕ) : fpow a e < P := by
  cases e with
  | zero => rw [fpow]; exact Nat.mod_lt _ (by decide)
  | succ e =>
    rw [fpow]
    split
    · exact fmul_lt _ _
    · exact fmul_lt _ _

theorem cast_finv' (a : ℕ) : ((finv a : ℕ) : F) = (a : F)⁻¹ := by
  by_cases h : a % P = 0
  · have h0 : (a : F) = 0 := (TF.NttProofs.cast_eq_zero_iff a).2 h
    have hp : ((fpow a (P - 2) : ℕ) : F) = (a : F) ^ (P - 2) := TF.NttProofs.cast_fpow a (P - 2)
    rw [finv, hp, h0, inv_zero]
    exact zero_pow (by decide)
  · exact TF.NttProofs.cast_finv a h

theorem valHom : FieldOps.Hom FF bfieldOps (ZMod.val : F → ℕ) where
  zero := ZMod.val_zero
  one := val_eq _ _ (by decide) (by simp [bfieldOps])
  add := fun a b => val_eq _ _ (fadd_lt _ _) (by simp [bfieldOps, cast_fadd])
  sub := fun a b => val_eq _ _ (fsub_lt _ _) (by simp [bfieldOps, cast_fsub])
  mul := fun a b => val_eq _ _ (fmul_lt _ _) (by simp [bfieldOps, cast_fmul])
  neg := fun a => val_eq _ _ (by rw [show bfieldOps.neg = fneg from rfl, fneg_eq]; exact fsub_lt _ _)
    (by rw [show bfieldOps.neg = fneg from rfl, fneg_eq, cast_fsub]; simp)
  inv := fun a => val_eq _ _ (fpow_lt _ _) (by rw [show bfieldOps.inv = finv from rfl, cast_finv']; simp)
  isZero := fun a => by
    rw [Bool.eq_iff_iff]
    simp [bfieldOps, ZMod.val_eq_zero]

/-- the triple of residues of a triple of naturals -/
def castT (x : X3) : F × F × F := ((x.1 : F), (x.2.1 : F), (x.2.2 : F))

theorem mapT_val_castT (x : X3) (hx : canon3 x) : mapT (ZMod.val : F → ℕ) (castT x) = x := by
  obtain ⟨h0, h1, h2⟩ := hx
  rw [P_val] at h0 h1 h2
  simp only [mapT, castT]
  rw [ZMod.val_cast_of_lt h0, ZMod.val_cast_of_lt h1, ZMod.val_cast_of_lt h2]

/-- **transfer**: the executable model on canonical values is the `val`-image of the model over `ZMod P` -/
theorem xfeInverse_eq (x : X3) (hx : canon3 x) :
    xfeInverse x = (inverseG FF (castT x)).map (mapT (ZMod.val : F → ℕ)) := by
  rw [inverseG_map valHom, mapT_val_castT x hx]; rfl

/-! ### step 3: the specification product -/

theorem xmul_one_comm (x y : X3) (h : xmul x y = xone) : xmul y x = xone := by
  rw [xmul_eq_xone_iff] at h ⊢
  obtain ⟨h0, h1, h2⟩ := h
  exact ⟨by linear_combination h0, by linear_combination h1, by linear_combination h2⟩

theorem isZeroG_bfield (x : X3) : isZeroG bfieldOps x = true ↔ x = xzero := by
  obtain ⟨a, b, c⟩ := x
  simp [isZeroG, bfieldOps, xzero, and_assoc]

/-- **`XFieldElement::inverse` returns the inverse**: for every non-zero canonical triple the model (extended gcd
    with the cubic, reduction of the Bézout coefficient, zero padding) does not panic and returns a canonical triple
    `r` with `r·x = 1` for the product of the specification -/
theorem xfeInverse_spec (x : X3) (hx : canon3 x) (hnz : x ≠ xzero) :
    ∃ r, xfeInverse x = some r ∧ canon3 r ∧ xmul r x = xone ∧ xmul x r = xone := by
  have hne := cast_triple_ne_zero x hx hnz
  obtain ⟨r0, r1, r2, q, hinv, hprod⟩ := inverseG_spec (castT x) hne
  have lt (v : F) : v.val < P := ZMod.val_lt v
  have hmul : xmul x (r0.val, r1.val, r2.val) = xone := by
    rw [xmul_eq_xone_iff]
    simp only [ZMod.natCast_zmod_val]
    exact (inverse_iff_coeffs _ _ _ r0 r1 r2).1 ⟨q, hprod⟩
  refine ⟨(r0.val, r1.val, r2.val), ?_, ⟨lt _, lt _, lt _⟩, xmul_one_comm _ _ hmul, hmul⟩
  rw [xfeInverse_eq x hx, hinv]; rfl

/-- it panics exactly on zero -/
theorem xfeInverse_zero : xfeInverse xzero = none := by
  unfold xfeInverse inverseG
  rw [(isZeroG_bfield xzero).2 rfl]; rfl

theorem xfeInverse_none_iff (x : X3) (hx : canon3 x) : xfeInverse x = none ↔ x = xzero := by
  constructor
  · intro h
    by_contra hnz
    obtain ⟨r, hr, _⟩ := xfeInverse_spec x hx hnz
    rw [h] at hr; exact absurd hr (by simp)
  · rintro rfl; exact xfeInverse_zero

/-! ### the specification product is associative and unital (through `ZMod P`) -/

theorem xmul_assoc (a b c : X3) : xmul (xmul a b) c = xmul a (xmul b c) := by
  obtain ⟨l0, l1, l2⟩ := cast_xmul (xmul a b) c
  obtain ⟨r0, r1, r2⟩ := cast_xmul a (xmul b c)
  obtain ⟨p0, p1, p2⟩ := cast_xmul a b
  obtain ⟨q0, q1, q2⟩ := cast_xmul b c
  obtain ⟨cl0, cl1, cl2⟩ := xmul_canon (xmul a b) c
  obtain ⟨cr0, cr1, cr2⟩ := xmul_canon a (xmul b c)
  refine Prod.ext (cast_inj_of_lt cl0 cr0 ?_) (Prod.ext (cast_inj_of_lt cl1 cr1 ?_) (cast_inj_of_lt cl2 cr2 ?_))
  · rw [l0, r0, p0, p1, p2, q0, q1, q2]; ring
  · rw [l1, r1, p0, p1, p2, q0, q1, q2]; ring
  · rw [l2, r2, p0, p1, p2, q0, q1, q2]; ring

theorem xmul_xone (a : X3) (ha : canon3 a) : xmul a xone = a := by
  obtain ⟨l0, l1, l2⟩ := cast_xmul a xone
  obtain ⟨c0, c1, c2⟩ := xmul_canon a xone
  obtain ⟨h0, h1, h2⟩ := ha
  refine Prod.ext (cast_inj_of_lt c0 h0 ?_) (Prod.ext (cast_inj_of_lt c1 h1 ?_) (cast_inj_of_lt c2 h2 ?_))
  · rw [l0]; simp [xone]
  · rw [l1]; simp [xone]
  · rw [l2]; simp [xone]

/-! ### raw Montgomery words: `TF.Model.XF.inverse`, `inverseOrZero`, `div` -/
section raw
open TF.BF TF.Model

theorem toVal_canon (x : XF.X3) (hx : XFp.canon3 x) : canon3 (XF.toVal x) :=
  ⟨value_lt _ (Nat.lt_trans hx.1 Pn_lt_W), value_lt _ (Nat.lt_trans hx.2.1 Pn_lt_W),
    value_lt _ (Nat.lt_trans hx.2.2 Pn_lt_W)⟩

theorem ofVal_canon (v : X3) (hv : canon3 v) : XFp.canon3 (XF.ofVal v) ∧ XF.toVal (XF.ofVal v) = v := by
  obtain ⟨h0, h1, h2⟩ := hv
  have n (a : ℕ) (h : a < Pn) := new_spec a (Nat.lt_trans h Pn_lt_W)
  refine ⟨⟨(n _ h0).1, (n _ h1).1, (n _ h2).1⟩, ?_⟩
  exact Prod.ext (value_new _ h0) (Prod.ext (value_new _ h1) (value_new _ h2))

theorem toVal_inj (x y : XF.X3) (hx : XFp.canon3 x) (hy : XFp.canon3 y) (h : XF.toVal x = XF.toVal y) : x = y := by
  have h0 : bfe_value x.1 = bfe_value y.1 := congrArg Prod.fst h
  have h1 : bfe_value x.2.1 = bfe_value y.2.1 := congrArg (fun t => t.2.1) h
  have h2 : bfe_value x.2.2 = bfe_value y.2.2 := congrArg (fun t => t.2.2) h
  exact Prod.ext (repr_unique _ _ hx.1 hy.1 h0)
    (Prod.ext (repr_unique _ _ hx.2.1 hy.2.1 h1) (repr_unique _ _ hx.2.2 hy.2.2 h2))

theorem toVal_zero : XF.toVal XF.zero = xzero := by
  simp only [XF.toVal, XF.zero, xzero, show bfe_value BF.zero = 0 from val_zero]

theorem toVal_one : XF.toVal XF.one = xone := by
  simp only [XF.toVal, XF.one, xone, show bfe_value BF.zero = 0 from val_zero,
    show bfe_value BF.one = 1 from val_one]

theorem canon_zero : canon BF.zero := by unfold canon; decide
theorem canon_one : canon BF.one := by unfold canon; decide
theorem canon3_zero : XFp.canon3 XF.zero := ⟨canon_zero, canon_zero, canon_zero⟩
theorem canon3_one : XFp.canon3 XF.one := ⟨canon_one, canon_zero, canon_zero⟩

/-- the word-level product formula of `XFieldElement::mul` computes the specification product of the values -/
theorem toVal_mul (x y : XF.X3) (hx : XFp.canon3 x) (hy : XFp.canon3 y) :
    XF.toVal (XF.mul x y) = xmul (XF.toVal x) (XF.toVal y) := by
  obtain ⟨hc, h0, h1, h2⟩ := XFp.mul_coeffs x y hx hy
  obtain ⟨g0, g1, g2⟩ := cast_xmul (XF.toVal x) (XF.toVal y)
  obtain ⟨c0, c1, c2⟩ := xmul_canon (XF.toVal x) (XF.toVal y)
  obtain ⟨d0, d1, d2⟩ := toVal_canon _ hc
  exact Prod.ext (cast_inj_of_lt d0 c0 (h0.trans g0.symm))
    (Prod.ext (cast_inj_of_lt d1 c1 (h1.trans g1.symm)) (cast_inj_of_lt d2 c2 (h2.trans g2.symm)))

theorem toVal_ne_zero (x : XF.X3) (hx : XFp.canon3 x) (hnz : x ≠ XF.zero) : XF.toVal x ≠ xzero := fun h =>
  hnz (toVal_inj x XF.zero hx canon3_zero (h.trans toVal_zero.symm))

/-- **`XFieldElement::inverse` on raw words**: for every non-zero element with canonical coefficient words the model
    does not panic and returns canonical words `r` with `r·x = x·r = 1` for the word-level product `XF.mul` (the three
    result expressions of the Rust `Mul`), and `r` is the only such element -/
theorem inverse_spec (x : XF.X3) (hx : XFp.canon3 x) (hnz : x ≠ XF.zero) :
    ∃ r, XF.inverse x = some r ∧ XFp.canon3 r ∧ XF.mul r x = XF.one ∧ XF.mul x r = XF.one ∧
      ∀ y, XFp.canon3 y → XF.mul y x = XF.one → y = r := by
  have hvx := toVal_canon x hx
  have hvnz := toVal_ne_zero x hx hnz
  obtain ⟨v, hv, hvc, hl, hr⟩ := xfeInverse_spec (XF.toVal x) hvx hvnz
  obtain ⟨hrc, hrv⟩ := ofVal_canon v hvc
  have hone := (XFp.mul_coeffs (XF.ofVal v) x hrc hx).1
  have hone' := (XFp.mul_coeffs x (XF.ofVal v) hx hrc).1
  refine ⟨XF.ofVal v, by unfold XF.inverse; rw [hv]; rfl, hrc, ?_, ?_, ?_⟩
  · apply toVal_inj _ _ hone canon3_one
    rw [toVal_mul _ _ hrc hx, hrv, hl, toVal_one]
  · apply toVal_inj _ _ hone' canon3_one
    rw [toVal_mul _ _ hx hrc, hrv, hr, toVal_one]
  · intro y hy hyx
    apply toVal_inj _ _ hy hrc
    rw [hrv]
    have : xmul (XF.toVal y) (XF.toVal x) = xone := by
      rw [← toVal_mul _ _ hy hx, hyx, toVal_one]
    exact spec_inverse_unique (XF.toVal x) _ _ hvx hvnz (toVal_canon y hy) hvc (xmul_one_comm _ _ this) hr

theorem inverse_zero : XF.inverse XF.zero = none := by
  unfold XF.inverse
  rw [toVal_zero, xfeInverse_zero]; rfl

theorem inverse_none_iff (x : XF.X3) (hx : XFp.canon3 x) : XF.inverse x = none ↔ x = XF.zero := by
  constructor
  · intro h
    by_contra hnz
    obtain ⟨r, hr, _⟩ := inverse_spec x hx hnz
    rw [h] at hr; exact absurd hr (by simp)
  · rintro rfl; exact inverse_zero

/-- `inverse_or_zero`: zero for zero, the inverse otherwise; never panics -/
theorem inverseOrZero_spec (x : XF.X3) (hx : XFp.canon3 x) :
    (x = XF.zero → XF.inverseOrZero x = some XF.zero) ∧
    (x ≠ XF.zero → ∃ r, XF.inverseOrZero x = some r ∧ XF.inverse x = some r) := by
  constructor
  · rintro rfl; rfl
  · intro hnz
    obtain ⟨r, hr, _⟩ := inverse_spec x hx hnz
    have h0 : (x == XF.zero) = false := by simpa using hnz
    exact ⟨r, by unfold XF.inverseOrZero; rw [h0]; exact hr, hr⟩

/-- `Div`: `a / b = a·b⁻¹`, canonical, and `(a / b)·b = a`; panics exactly for `b = 0` -/
theorem div_spec (a b : XF.X3) (ha : XFp.canon3 a) (hb : XFp.canon3 b) :
    (b = XF.zero → XF.div a b = none) ∧
    (b ≠ XF.zero → ∃ bi r, XF.inverse b = some bi ∧ XF.div a b = some r ∧ r = XF.mul a bi ∧ XFp.canon3 r ∧
      XF.mul r b = a) := by
  constructor
  · rintro rfl; unfold XF.div; rw [inverse_zero]; rfl
  · intro hnz
    obtain ⟨bi, hbi, hbc, hl, _, _⟩ := inverse_spec b hb hnz
    have hrc := (XFp.mul_coeffs a bi ha hbc).1
    refine ⟨bi, XF.mul a bi, hbi, by unfold XF.div; rw [hbi]; rfl, rfl, hrc, ?_⟩
    apply toVal_inj _ _ (XFp.mul_coeffs _ b hrc hb).1 ha
    rw [toVal_mul _ _ hrc hb, toVal_mul _ _ ha hbc, xmul_assoc, ← toVal_mul _ _ hbc hb, hl, toVal_one,
      xmul_xone _ (toVal_canon a ha)]

end raw

end TF.XFInvProofs
