import TF.Proofs.GenBridgeNtt
/-!
# Bridge, part 2: from the in-place butterfly loops of `math/ntt.rs` to the functional stages of the model (C06)

`GenBridgeNtt.lean` proves the innermost `for j` loop equal to the in-place reference pass `refBlock` and gives its
pointwise content (`refBlock_spec`).  Here:

* `stageAt` — the pointwise formula of one butterfly stage on a list; `stage_toList`: the model's `stage`
  (`Array.ofFn`, twiddle table `powers`) *is* that formula;
* `unchecked_loop3_eq` / `intt_loop3_eq` — the `while k < len { ..; k += 2 * m }` block loop: invariant "blocks below `k`
  hold the stage formula of the slice before the loop, everything from `k` on is untouched"; fuel `#blocks + 1`
  suffices, no index/`k` arithmetic overflows;
* `unchecked_for2_eq` / `intt_for2_eq` — the stage loop (`m = 1; for _ in 0..log { w_m = ω^(n/(2m)); ..; m *= 2 }`)
  = the model's `stagesLoop`;
* the `logn` loops (`while (1 << logn) < len { logn += 1 }`) = the model's `ceilLog2`, for every length `≤ 2^63`;
* the full functions.  Core Lean only.
-/
namespace TF.GenBridge.Ntt
open TF TF.Gen TF.Model.Ntt

variable {σ α : Type}

/-! ### twiddles -/

theorem wp_succ (ops : Ops σ α) (w_m : σ) : ∀ t w, wp ops w_m w (t + 1) = ops.smul (wp ops w_m w t) w_m := by
  intro t
  induction t with
  | zero => intro w; rfl
  | succ t ih => intro w; rw [wp, ih (ops.smul w w_m)]; rfl

theorem powersAux_wp (ops : Ops σ α) (w : σ) : ∀ k (cur : σ) (acc : Array σ), cur = wp ops w ops.sone acc.size →
    (∀ j, j < acc.size → acc[j]? = some (wp ops w ops.sone j)) →
    (powersAux ops w k cur acc).size = acc.size + k ∧
    ∀ j, j < acc.size + k → (powersAux ops w k cur acc)[j]? = some (wp ops w ops.sone j) := by
  intro k
  induction k with
  | zero => intro cur acc _ h; exact ⟨rfl, fun j hj => h j hj⟩
  | succ k ih =>
    intro cur acc hc h
    rw [powersAux]
    have := ih (ops.smul cur w) (acc.push cur)
      (by rw [Array.size_push, wp_succ, hc])
      (by
        intro j hj
        rw [Array.size_push] at hj
        rw [Array.getElem?_push]
        by_cases hjs : j = acc.size
        · simp [hjs, hc]
        · rw [if_neg hjs]; exact h j (by omega))
    rw [Array.size_push] at this
    constructor
    · omega
    · intro j hj; exact this.2 j (by omega)

/-- the twiddle table of the model: entry `j` is `1 · w_m^j` computed by `j` updates `w *= w_m` -/
theorem powers_wp (ops : Ops σ α) (w : σ) (m : Nat) :
    (powers ops w m).size = m ∧ ∀ j, j < m → (powers ops w m)[j]? = some (wp ops w ops.sone j) := by
  have := powersAux_wp ops w m ops.sone (Array.mkEmpty m) (by simp [wp]) (by simp)
  simpa [powers] using this

/-! ### one stage, pointwise -/

/-- the pointwise formula of one butterfly stage with half-block size `m` on a list (twiddles by repeated `w *= w_m`) -/
def stageAt (ops : Ops σ α) (m : Nat) (w_m : σ) (x : List α) (idx : Nat) : α :=
  if idx % (2*m) < m then
    ops.add (x.getD (idx - idx % (2*m) + idx % m) ops.zero)
      (ops.scale (wp ops w_m ops.sone (idx % m)) (x.getD (idx - idx % (2*m) + idx % m + m) ops.zero))
  else
    ops.sub (x.getD (idx - idx % (2*m) + idx % m) ops.zero)
      (ops.scale (wp ops w_m ops.sone (idx % m)) (x.getD (idx - idx % (2*m) + idx % m + m) ops.zero))

/-- the model's functional stage (`Array.ofFn`, twiddle table `powers`) is `stageAt` at every position -/
theorem stage_toList (ops : Ops σ α) (m : Nat) (hm : 0 < m) (w_m : σ) (a : Array α) :
    (stage ops m (powers ops w_m m) a).size = a.size ∧
    ∀ idx, idx < a.size → (stage ops m (powers ops w_m m) a).toList[idx]? = some (stageAt ops m w_m a.toList idx) := by
  constructor
  · simp [stage]
  · intro idx hi
    have hj : idx % m < m := Nat.mod_lt _ hm
    have htw := (powers_wp ops w_m m).2 (idx % m) hj
    simp only [Array.getElem?_toList, stage, Array.getElem?_ofFn, hi, dite_true, stageAt, Array.getD_eq_getD_getElem?,
      htw, Option.getD_some, List.getD_eq_getElem?_getD]

/-! ### block arithmetic -/

theorem blk_mod2 (b m r : Nat) (hr : r < 2*m) : (b*(2*m) + r) % (2*m) = r := by
  rw [Nat.add_comm, Nat.add_mul_mod_self_right, Nat.mod_eq_of_lt hr]

theorem blk_mod_lo (b m r : Nat) (hr : r < m) : (b*(2*m) + r) % m = r := by
  have : b*(2*m) = (b*2)*m := by rw [Nat.mul_assoc]
  rw [this, Nat.add_comm, Nat.add_mul_mod_self_right, Nat.mod_eq_of_lt hr]

theorem blk_mod_hi (b m r : Nat) (hr : r < m) : (b*(2*m) + (m + r)) % m = r := by
  have : b*(2*m) + (m + r) = r + (b*2+1)*m := by
    rw [Nat.add_mul, Nat.mul_assoc]; omega
  rw [this, Nat.add_mul_mod_self_right, Nat.mod_eq_of_lt hr]

theorem getD_of_getElem?_eq {x y : List α} {i : Nat} (h : y[i]? = x[i]?) (z : α) : y.getD i z = x.getD i z := by
  rw [List.getD_eq_getElem?_getD, List.getD_eq_getElem?_getD, h]

/-- the state of the slice after blocks `0 .. b-1` of a stage: below `b·2m` the stage formula of the slice `x` before
    the stage, from `b·2m` on still `x` -/
def BlockInv (ops : Ops σ α) (m : Nat) (w_m : σ) (x y : List α) (b : Nat) : Prop :=
  y.length = x.length ∧ ∀ idx, y[idx]? = if idx < b*(2*m) then some (stageAt ops m w_m x idx) else x[idx]?

/-- one in-place block pass (`refBlock` over the block at `k = b·2m`) advances the invariant from `b` to `b+1` -/
theorem blockInv_step (ops : Ops σ α) (m : Nat) (hm : 0 < m) (w_m : σ) (x y : List α) (b : Nat)
    (inv : BlockInv ops m w_m x y b) (hk : b*(2*m) + 2*m ≤ x.length) :
    BlockInv ops m w_m x (refBlock ops m w_m (b*(2*m)) m 0 y ops.sone).1 (b+1) := by
  obtain ⟨hl, hy⟩ := inv
  obtain ⟨rl, _, rp⟩ := refBlock_spec ops m w_m (b*(2*m)) m 0 y ops.sone (by omega) (by omega)
  refine ⟨by rw [rl, hl], fun idx => ?_⟩
  rw [rp idx]
  have hk1 : (b+1)*(2*m) = b*(2*m) + 2*m := by rw [Nat.add_mul]; omega
  generalize hkk : b*(2*m) = k at *
  simp only [Nat.add_zero]
  by_cases c0 : idx < k
  · have c1 : ¬ (k ≤ idx ∧ idx < k + m) := by omega
    have c2 : ¬ (k + m ≤ idx ∧ idx < k + m + m) := by omega
    rw [if_neg c1, if_neg c2, hy idx, if_pos c0, if_pos (by omega)]
  · by_cases c1 : k ≤ idx ∧ idx < k + m
    · obtain ⟨r, rfl⟩ := Nat.exists_eq_add_of_le c1.1
      have hr : r < m := by omega
      have e1 : y.getD (k + r) ops.zero = x.getD (k + r) ops.zero :=
        getD_of_getElem?_eq (by rw [hy, if_neg (by omega)]) _
      have e2 : y.getD (k + r + m) ops.zero = x.getD (k + r + m) ops.zero :=
        getD_of_getElem?_eq (by rw [hy, if_neg (by omega)]) _
      have m1 : (k + r) % (2*m) = r := by rw [← hkk]; exact blk_mod2 b m r (by omega)
      have m2 : (k + r) % m = r := by rw [← hkk]; exact blk_mod_lo b m r hr
      have s1 : k + r - r + r = k + r := by omega
      have s2 : k + r - k = r := by omega
      rw [if_pos c1, if_pos (by omega), e1, e2, stageAt, m1, m2, if_pos hr, s1, s2]
    · by_cases c2 : k + m ≤ idx ∧ idx < k + m + m
      · obtain ⟨r, rfl⟩ := Nat.exists_eq_add_of_le c2.1
        have hr : r < m := by omega
        have e1 : y.getD (k + m + r - m) ops.zero = x.getD (k + m + r - m) ops.zero :=
          getD_of_getElem?_eq (by rw [hy, if_neg (by omega)]) _
        have e2 : y.getD (k + m + r) ops.zero = x.getD (k + m + r) ops.zero :=
          getD_of_getElem?_eq (by rw [hy, if_neg (by omega)]) _
        have m1 : (k + m + r) % (2*m) = m + r := by
          rw [← hkk, Nat.add_assoc]; exact blk_mod2 b m (m + r) (by omega)
        have m2 : (k + m + r) % m = r := by rw [← hkk, Nat.add_assoc]; exact blk_mod_hi b m r hr
        have s1 : k + m + r - (m + r) + r = k + m + r - m := by omega
        have s2 : k + m + r - (k + m) = r := by omega
        have s3 : k + m + r - m + m = k + m + r := by omega
        rw [if_neg c1, if_pos c2, if_pos (by omega), e1, e2, stageAt, m1, m2, if_neg (by omega), s1, s2, s3]
      · rw [if_neg c1, if_neg c2, hy idx, if_neg c0, if_neg (by omega)]

/-! ### the block loop `while k < len { <block pass>; k += 2 * m }` -/

theorem blk_le (b r B m : Nat) (hb : b + (r + 1) = B) : b*(2*m) + 2*m ≤ B*(2*m) := by
  have : (b+1)*(2*m) ≤ B*(2*m) := Nat.mul_le_mul_right _ (by omega)
  rw [Nat.add_mul] at this; omega

/-- the block loop of `ntt_unchecked` (`u32` counters): started at block `b` with `r` blocks left it finishes within
    `r + 1` evaluations of the loop head, nothing overflows, and the invariant holds for all `B` blocks at the end -/
theorem unchecked_loop3_eq (ops : Ops σ α) (m : Nat) (hm : 0 < m) (w_m : σ) (x : List α) (B : Nat)
    (hlen : x.length = B*(2*m)) (hU : x.length < 4294967296) (N : Nat) (hN : x.length = N) :
    ∀ r b (y : List α), b + r = B → BlockInv ops m w_m x y b → ∀ fuel, r + 1 ≤ fuel →
    ∃ z, Loops.ntt_unchecked_loop3 ops N m w_m fuel y (b*(2*m)) = some (z, N) ∧
      Loops.ntt_unchecked_loop3_ok ops N m w_m fuel y (b*(2*m)) = true ∧ BlockInv ops m w_m x z B := by
  subst hN
  intro r
  induction r with
  | zero =>
    intro b y hb inv fuel hf
    obtain ⟨f, rfl⟩ : ∃ f, fuel = f + 1 := ⟨fuel - 1, by omega⟩
    have hbB : b = B := by omega
    subst hbB
    have hn : ¬ (b*(2*m) < x.length) := by omega
    refine ⟨y, ?_, ?_, inv⟩
    · simp only [Loops.ntt_unchecked_loop3, hlen, Nat.lt_irrefl, decide_false, Bool.false_eq_true, if_false]
    · simp only [Loops.ntt_unchecked_loop3_ok, hn, decide_false, Bool.false_eq_true, if_false]
  | succ r ih =>
    intro b y hb inv fuel hf
    obtain ⟨f, rfl⟩ : ∃ f, fuel = f + 1 := ⟨fuel - 1, by omega⟩
    have hk : b*(2*m) + 2*m ≤ x.length := by rw [hlen]; exact blk_le b r B m hb
    have hlt : b*(2*m) < x.length := by omega
    obtain ⟨e, ok⟩ := unchecked_for4_eq ops m w_m (b*(2*m)) m 0 y ops.sone (by rw [inv.1]; omega) (by rw [inv.1]; exact hU)
    have inv' := blockInv_step ops m hm w_m x y b inv hk
    have hk1 : (b+1)*(2*m) = b*(2*m) + 2*m := by rw [Nat.add_mul]; omega
    have h2m : (2*m) % 4294967296 = 2*m := Nat.mod_eq_of_lt (by omega)
    have h2m' : 2*m < 4294967296 := by omega
    have hkk' : b*(2*m) + 2*m < 4294967296 := by omega
    have hkk : (b*(2*m) + 2*m) % 4294967296 = (b+1)*(2*m) := by rw [hk1]; exact Nat.mod_eq_of_lt (by omega)
    obtain ⟨z, hz, hzok, hzi⟩ := ih (b+1) _ (by omega) inv' f (by omega)
    refine ⟨z, ?_, ?_, hzi⟩
    · simp only [Loops.ntt_unchecked_loop3, hlt, decide_true, if_true, Nat.sub_zero, e, h2m, hkk]; exact hz
    · simp only [Loops.ntt_unchecked_loop3_ok, hlt, decide_true, if_true, Nat.sub_zero, e, ok, h2m, hkk, h2m', hkk',
        Bool.and_self, hzok]

theorem blockInv_zero (ops : Ops σ α) (m : Nat) (w_m : σ) (x : List α) : BlockInv ops m w_m x x 0 :=
  ⟨rfl, fun idx => by simp⟩

/-- after all blocks the slice is the model's functional stage -/
theorem blockInv_full (ops : Ops σ α) (m : Nat) (hm : 0 < m) (w_m : σ) (a : Array α) (B : Nat) (hlen : a.size = B*(2*m))
    (z : List α) (h : BlockInv ops m w_m a.toList z B) : z = (stage ops m (powers ops w_m m) a).toList := by
  obtain ⟨hs, hp⟩ := stage_toList ops m hm w_m a
  apply List.ext_getElem?
  intro idx
  by_cases hi : idx < a.size
  · rw [h.2 idx, if_pos (by omega), hp idx hi]
  · rw [List.getElem?_eq_none (by rw [h.1]; simpa using hi), List.getElem?_eq_none (by simp [hs]; omega)]

theorem two_pow_31 : (2:Nat)^31 = 2147483648 := by decide

theorem pow_split (log s : Nat) (h : s + 1 ≤ log) : 2^log = 2^(log - (s+1)) * (2 * 2^s) := by
  have : 2 * 2^s = 2^(s+1) := by rw [Nat.pow_succ, Nat.mul_comm]
  rw [this, ← Nat.pow_add]; congr 1; omega

/-! ### the stage loop -/

/-- the stage loop of `ntt_unchecked` = the model's `stagesLoop`; finishes, nothing overflows (`2^log ≤ 2^31`) -/
theorem unchecked_for2_eq (ops : Ops σ α) (omega : σ) (log : Nat) (hl : log ≤ 31) :
    ∀ n s it (a : Array α), s + n = log → a.size = 2^log →
    Loops.ntt_unchecked_for2 ops omega (2^log) n it a.toList (2^s)
      = some ((stagesLoop ops omega (2^log) n (2^s) a).toList, 2^(s+n)) ∧
    Loops.ntt_unchecked_for2_ok ops omega (2^log) n it a.toList (2^s) = true := by
  intro n
  induction n with
  | zero => intro s it a _ _; exact ⟨rfl, rfl⟩
  | succ n ih =>
    intro s it a hs ha
    have hle : (2:Nat)^log ≤ 2^31 := Nat.pow_le_pow_right (by omega) hl
    rw [two_pow_31] at hle
    have hs1 : (2:Nat)^(s+1) ≤ 2^log := Nat.pow_le_pow_right (by omega) (by omega)
    have e2 : 2 * 2^s = 2^(s+1) := by rw [Nat.pow_succ, Nat.mul_comm]
    have e2' : 2^s * 2 = 2^(s+1) := by rw [Nat.pow_succ]
    have hm : 0 < 2^s := Nat.two_pow_pos s
    have hx : a.toList.length = 2^log := by simpa using ha
    have hB := pow_split log s (by omega)
    have hBpos : 2^(log - (s+1)) ≤ 2^log := Nat.pow_le_pow_right (by omega) (by omega)
    have h2m : (2 * 2^s) % 4294967296 = 2 * 2^s := Nat.mod_eq_of_lt (by omega)
    have h2m' : (2^s * 2) % 4294967296 = 2^(s+1) := by rw [e2']; exact Nat.mod_eq_of_lt (by omega)
    obtain ⟨z, hz, hzok, hzi⟩ := unchecked_loop3_eq ops (2^s) hm (ops.spow omega (2^log / (2 * 2^s))) a.toList
      (2^(log - (s+1))) (by rw [hx]; exact hB) (by omega) (2^log) hx (2^(log - (s+1))) 0 a.toList (by omega)
      (blockInv_zero _ _ _ _) (a.toList.length + 1) (by omega)
    rw [Nat.zero_mul] at hz hzok
    have hzeq := blockInv_full ops (2^s) hm _ a (2^(log - (s+1))) (by rw [ha]; exact hB) z hzi
    subst hzeq
    obtain ⟨e, ok⟩ := ih (s+1) (it+1) (stage ops (2^s) (powers ops (ops.spow omega (2^log / (2 * 2^s))) (2^s)) a)
      (by omega) (by simp [stage, ha])
    have hsn : s + (n + 1) = s + 1 + n := by omega
    simp only [e2] at hz hzok e ok h2m
    constructor
    · simp only [Loops.ntt_unchecked_for2, e2, h2m, hz, Option.bind_some, h2m', e, stagesLoop, hsn]
    · have c1 : 2^(s+1) < 4294967296 := by omega
      have c2 : ((2:Nat)^(s+1) != 0) = true := by simp
      have c3 : 2^s * 2 < 4294967296 := by omega
      simp only [Loops.ntt_unchecked_for2_ok, e2, h2m, hz, hzok, Option.elim_some, h2m', ok, c1, c2, c3, decide_true,
        Bool.and_self]

/-! ### `ntt_unchecked` -/

theorem swapLoop_size (log : Nat) : ∀ n k (a b : Array α), swapLoop log n k a = some b → b.size = a.size := by
  intro n
  induction n with
  | zero => intro k a b h; simp only [swapLoop, Option.some.injEq] at h; rw [← h]
  | succ n ih =>
    intro k a b h
    rw [swapLoop] at h
    split at h
    · split at h
      · have := ih _ _ _ h; simpa using this
      · cases h
    · exact ih _ _ _ h

theorem ite_some_none_eq_some {β : Type} {c : Bool} {v w : β} (h : (if c = true then some v else none) = some w) :
    c = true ∧ v = w := by
  cases c
  · simp at h
  · simpa using h

theorem ite_some_none_eq_none {β : Type} {c : Bool} {v : β} (h : (if c = true then some v else none) = none) :
    c = false := by
  cases c
  · rfl
  · simp at h

/-- **`ntt_unchecked` regenerated from source = the model** (swap loop, then `log` functional stages), for every `ops`,
    every `ω`, every `log ≤ 31` and every vector of length `2^log`: the regenerated function finishes within its fuel,
    its `_ok` twin is false exactly when the model panics, and the values agree. -/
theorem gen_ntt_unchecked_eq (ops : Ops σ α) (x : Array α) (omega : σ) (log : Nat) (hl : log ≤ 31) (hx : x.size = 2^log) :
    (Loops.ntt_unchecked ops x.toList omega log).bind
        (fun r => if Loops.ntt_unchecked_ok ops x.toList omega log then some r else none)
      = (nttUnchecked ops x omega log).map Array.toList := by
  have hle : (2:Nat)^log ≤ 2^31 := Nat.pow_le_pow_right (by omega) hl
  rw [two_pow_31] at hle
  have hsl : x.toList.length % 4294967296 = 2^log := by
    rw [Array.length_toList, hx]; exact Nat.mod_eq_of_lt (by omega)
  have hsw := unchecked_for_eq ops log (by omega) (2^log) 0 x
  simp only [Loops.ntt_unchecked, Loops.ntt_unchecked_ok, hsl, Nat.sub_zero, nttUnchecked, bitrevPermute, hx]
  cases hs : swapLoop log (2^log) 0 x with
  | none =>
    rw [hs] at hsw
    have hf := ite_some_none_eq_none hsw
    simp only [hf, Bool.false_and, Bool.false_eq_true, if_false, Option.map_none]
    cases Loops.ntt_unchecked_for2 ops omega (2 ^ log) log 0 (Loops.ntt_unchecked_for ops log (2 ^ log) 0 x.toList) 1 <;> rfl
  | some y =>
    rw [hs] at hsw
    obtain ⟨hok, hval⟩ := ite_some_none_eq_some hsw
    have hy := swapLoop_size log _ _ _ _ hs
    obtain ⟨e, ok⟩ := unchecked_for2_eq ops omega log hl log 0 0 y (by omega) (by omega)
    rw [Nat.pow_zero] at e ok
    simp only [hok, hval, e, ok, Bool.and_self, if_true, Option.bind_some, Option.map_some]

/-- the empty slice (`ntt`/`intt` call `ntt_unchecked(x, ω, 0)` on it): nothing happens on either side -/
theorem gen_ntt_unchecked_empty (ops : Ops σ α) (omega : σ) :
    Loops.ntt_unchecked ops ([] : List α) omega 0 = some [] ∧ Loops.ntt_unchecked_ok ops ([] : List α) omega 0 = true ∧
    nttUnchecked ops (#[] : Array α) omega 0 = some #[] := ⟨rfl, rfl, rfl⟩

/-! ### `intt_noswap`: the same composition with `usize` counters -/

/-- the block loop of `intt_noswap` (`usize` counters): started at block `b` with `r` blocks left it finishes within
    `r + 1` evaluations of the loop head, nothing overflows, and the invariant holds for all `B` blocks at the end -/
theorem intt_loop3_eq (ops : Ops σ α) (root : Nat → Option σ) (m : Nat) (hm : 0 < m) (w_m : σ) (x : List α) (B : Nat)
    (hlen : x.length = B*(2*m)) (hU : x.length < 18446744073709551616) (N : Nat) (hN : x.length = N) :
    ∀ r b (y : List α), b + r = B → BlockInv ops m w_m x y b → ∀ fuel, r + 1 ≤ fuel →
    ∃ z, Loops.intt_noswap_loop3 ops root N m w_m fuel y (b*(2*m)) = some (z, N) ∧
      Loops.intt_noswap_loop3_ok ops root N m w_m fuel y (b*(2*m)) = true ∧ BlockInv ops m w_m x z B := by
  subst hN
  intro r
  induction r with
  | zero =>
    intro b y hb inv fuel hf
    obtain ⟨f, rfl⟩ : ∃ f, fuel = f + 1 := ⟨fuel - 1, by omega⟩
    have hbB : b = B := by omega
    subst hbB
    have hn : ¬ (b*(2*m) < x.length) := by omega
    refine ⟨y, ?_, ?_, inv⟩
    · simp only [Loops.intt_noswap_loop3, hlen, Nat.lt_irrefl, decide_false, Bool.false_eq_true, if_false]
    · simp only [Loops.intt_noswap_loop3_ok, hn, decide_false, Bool.false_eq_true, if_false]
  | succ r ih =>
    intro b y hb inv fuel hf
    obtain ⟨f, rfl⟩ : ∃ f, fuel = f + 1 := ⟨fuel - 1, by omega⟩
    have hk : b*(2*m) + 2*m ≤ x.length := by rw [hlen]; exact blk_le b r B m hb
    have hlt : b*(2*m) < x.length := by omega
    obtain ⟨e, ok⟩ := intt_noswap_for4_eq ops root m w_m (b*(2*m)) m 0 y ops.sone (by rw [inv.1]; omega) (by rw [inv.1]; exact hU)
    have inv' := blockInv_step ops m hm w_m x y b inv hk
    have hk1 : (b+1)*(2*m) = b*(2*m) + 2*m := by rw [Nat.add_mul]; omega
    have h2m : (2*m) % 18446744073709551616 = 2*m := Nat.mod_eq_of_lt (by omega)
    have h2m' : 2*m < 18446744073709551616 := by omega
    have hkk' : b*(2*m) + 2*m < 18446744073709551616 := by omega
    have hkk : (b*(2*m) + 2*m) % 18446744073709551616 = (b+1)*(2*m) := by rw [hk1]; exact Nat.mod_eq_of_lt (by omega)
    obtain ⟨z, hz, hzok, hzi⟩ := ih (b+1) _ (by omega) inv' f (by omega)
    refine ⟨z, ?_, ?_, hzi⟩
    · simp only [Loops.intt_noswap_loop3, hlt, decide_true, if_true, Nat.sub_zero, e, h2m, hkk]; exact hz
    · simp only [Loops.intt_noswap_loop3_ok, hlt, decide_true, if_true, Nat.sub_zero, e, ok, h2m, hkk, h2m', hkk',
        Bool.and_self, hzok]


theorem two_pow_32 : (2:Nat)^32 = 4294967296 := by decide
theorem two_pow_63 : (2:Nat)^63 = 9223372036854775808 := by decide
theorem two_pow_64 : (2:Nat)^64 = 18446744073709551616 := by decide

/-- the stage loop of `intt_noswap` = the model's `stagesLoop`; finishes, nothing overflows, the exponent of
    `mod_pow_u32` fits a `u32` (`2^log ≤ 2^32`) -/
theorem intt_for2_eq (ops : Ops σ α) (root : Nat → Option σ) (omega : σ) (log : Nat) (hl : log ≤ 32) :
    ∀ n s it (a : Array α), s + n = log → a.size = 2^log →
    Loops.intt_noswap_for2 ops root (2^log) omega n it a.toList (2^s)
      = some ((stagesLoop ops omega (2^log) n (2^s) a).toList, 2^(s+n)) ∧
    Loops.intt_noswap_for2_ok ops root (2^log) omega n it a.toList (2^s) = true := by
  intro n
  induction n with
  | zero => intro s it a _ _; exact ⟨rfl, rfl⟩
  | succ n ih =>
    intro s it a hs ha
    have hle : (2:Nat)^log ≤ 2^32 := Nat.pow_le_pow_right (by omega) hl
    rw [two_pow_32] at hle
    have hs1 : (2:Nat)^(s+1) ≤ 2^log := Nat.pow_le_pow_right (by omega) (by omega)
    have e2 : 2 * 2^s = 2^(s+1) := by rw [Nat.pow_succ, Nat.mul_comm]
    have e2' : 2^s * 2 = 2^(s+1) := by rw [Nat.pow_succ]
    have hm : 0 < 2^s := Nat.two_pow_pos s
    have hx : a.toList.length = 2^log := by simpa using ha
    have hB := pow_split log s (by omega)
    have hBpos : 2^(log - (s+1)) ≤ 2^log := Nat.pow_le_pow_right (by omega) (by omega)
    have h2m : (2 * 2^s) % 18446744073709551616 = 2 * 2^s := Nat.mod_eq_of_lt (by omega)
    have h2m' : (2^s * 2) % 18446744073709551616 = 2^(s+1) := by rw [e2']; exact Nat.mod_eq_of_lt (by omega)
    obtain ⟨z, hz, hzok, hzi⟩ := intt_loop3_eq ops root (2^s) hm (ops.spow omega (2^log / (2 * 2^s))) a.toList
      (2^(log - (s+1))) (by rw [hx]; exact hB) (by omega) (2^log) hx (2^(log - (s+1))) 0 a.toList (by omega)
      (blockInv_zero _ _ _ _) (a.toList.length + 65) (by omega)
    rw [Nat.zero_mul] at hz hzok
    have hzeq := blockInv_full ops (2^s) hm _ a (2^(log - (s+1))) (by rw [ha]; exact hB) z hzi
    subst hzeq
    obtain ⟨e, ok⟩ := ih (s+1) (it+1) (stage ops (2^s) (powers ops (ops.spow omega (2^log / (2 * 2^s))) (2^s)) a)
      (by omega) (by simp [stage, ha])
    have hsn : s + (n + 1) = s + 1 + n := by omega
    simp only [e2] at hz hzok e ok h2m
    constructor
    · simp only [Loops.intt_noswap_for2, e2, h2m, hz, Option.bind_some, h2m', e, stagesLoop, hsn]
    · have c1 : 2^(s+1) < 18446744073709551616 := by omega
      have c2 : ((2:Nat)^(s+1) != 0) = true := by simp
      have c3 : 2^s * 2 < 18446744073709551616 := by omega
      have c4 : 2^log / 2^(s+1) < 4294967296 := by
        rw [Nat.pow_div (by omega) (by omega)]
        have : (2:Nat)^(log - (s+1)) ≤ 2^31 := Nat.pow_le_pow_right (by omega) (by omega)
        rw [two_pow_31] at this; omega
      simp only [Loops.intt_noswap_for2_ok, e2, h2m, hz, hzok, Option.elim_some, h2m', ok, c1, c2, c3, c4, decide_true,
        Bool.and_self]

/-! ### the `logn` loops `while (1 << logn) < len { logn += 1 }` -/

theorem shl_one_eq (l : Nat) (h : l < 64) : 1 * 2 ^ (l % 64) % 18446744073709551616 = 2^l := by
  rw [Nat.one_mul, Nat.mod_eq_of_lt h]
  apply Nat.mod_eq_of_lt
  rw [← two_pow_64]; exact Nat.pow_lt_pow_right (by omega) h

theorem lt_of_two_pow_lt (l N : Nat) (h : 2^l < N) (hN : N ≤ 2^63) : l < 63 := by
  rcases Nat.lt_or_ge l 63 with h1 | h1
  · exact h1
  · have : (2:Nat)^63 ≤ 2^l := Nat.pow_le_pow_right (by omega) h1
    omega

theorem bitreverse_order_loop_eq (ops : Ops σ α) (array : List α) (hN : array.length ≤ 2^63) :
    ∀ f l fuel, f + l = array.length → l ≤ 63 → 65 ≤ fuel + l →
    Loops.ntt_bitreverse_order_loop ops array fuel l = some (ceilLog2Aux array.length f l) ∧
    Loops.ntt_bitreverse_order_loop_ok ops array fuel l = true ∧ ceilLog2Aux array.length f l ≤ 63 := by
  intro f
  induction f with
  | zero =>
    intro l fuel hf hl hfu
    obtain ⟨fu, rfl⟩ : ∃ fu, fuel = fu + 1 := ⟨fuel - 1, by omega⟩
    have hn : ¬ (2^l < array.length) := by
      have := Nat.lt_two_pow_self (n := l); omega
    have hl64 : l < 64 := by omega
    simp only [Loops.ntt_bitreverse_order_loop, Loops.ntt_bitreverse_order_loop_ok, shl_one_eq l hl64, hn, decide_false,
      Bool.false_eq_true, if_false, ceilLog2Aux, hl64, decide_true, Bool.and_self, true_and]
    exact hl
  | succ f ih =>
    intro l fuel hf hl hfu
    obtain ⟨fu, rfl⟩ : ∃ fu, fuel = fu + 1 := ⟨fuel - 1, by omega⟩
    have hl64 : l < 64 := by omega
    by_cases hc : 2^l < array.length
    · have hl63 := lt_of_two_pow_lt l _ hc hN
      obtain ⟨e, ok, hb⟩ := ih (l+1) fu (by omega) (by omega) (by omega)
      have h1 : (l + 1) % 18446744073709551616 = l + 1 := Nat.mod_eq_of_lt (by omega)
      have h2 : l + 1 < 18446744073709551616 := by omega
      simp only [Loops.ntt_bitreverse_order_loop, Loops.ntt_bitreverse_order_loop_ok, shl_one_eq l hl64, hc, decide_true,
        if_true, h1, h2, e, ok, ceilLog2Aux, hl64, Bool.and_self, true_and]
      exact hb
    · simp only [Loops.ntt_bitreverse_order_loop, Loops.ntt_bitreverse_order_loop_ok, shl_one_eq l hl64, hc, decide_false,
        Bool.false_eq_true, if_false, ceilLog2Aux, hl64, decide_true, Bool.and_self, true_and]
      exact hl

theorem intt_noswap_loop_eq (ops : Ops σ α) (root : Nat → Option σ) (array : List α) (hN : array.length ≤ 2^63) :
    ∀ f l fuel, f + l = array.length → l ≤ 63 → 65 ≤ fuel + l →
    Loops.intt_noswap_loop ops root array fuel l = some (ceilLog2Aux array.length f l) ∧
    Loops.intt_noswap_loop_ok ops root array fuel l = true ∧ ceilLog2Aux array.length f l ≤ 63 := by
  intro f
  induction f with
  | zero =>
    intro l fuel hf hl hfu
    obtain ⟨fu, rfl⟩ : ∃ fu, fuel = fu + 1 := ⟨fuel - 1, by omega⟩
    have hn : ¬ (2^l < array.length) := by
      have := Nat.lt_two_pow_self (n := l); omega
    have hl64 : l < 64 := by omega
    simp only [Loops.intt_noswap_loop, Loops.intt_noswap_loop_ok, shl_one_eq l hl64, hn, decide_false,
      Bool.false_eq_true, if_false, ceilLog2Aux, hl64, decide_true, Bool.and_self, true_and]
    exact hl
  | succ f ih =>
    intro l fuel hf hl hfu
    obtain ⟨fu, rfl⟩ : ∃ fu, fuel = fu + 1 := ⟨fuel - 1, by omega⟩
    have hl64 : l < 64 := by omega
    by_cases hc : 2^l < array.length
    · have hl63 := lt_of_two_pow_lt l _ hc hN
      obtain ⟨e, ok, hb⟩ := ih (l+1) fu (by omega) (by omega) (by omega)
      have h1 : (l + 1) % 18446744073709551616 = l + 1 := Nat.mod_eq_of_lt (by omega)
      have h2 : l + 1 < 18446744073709551616 := by omega
      simp only [Loops.intt_noswap_loop, Loops.intt_noswap_loop_ok, shl_one_eq l hl64, hc, decide_true,
        if_true, h1, h2, e, ok, ceilLog2Aux, hl64, Bool.and_self, true_and]
      exact hb
    · simp only [Loops.intt_noswap_loop, Loops.intt_noswap_loop_ok, shl_one_eq l hl64, hc, decide_false,
        Bool.false_eq_true, if_false, ceilLog2Aux, hl64, decide_true, Bool.and_self, true_and]
      exact hl

theorem ceilLog2Aux_pow (L : Nat) : ∀ fuel l, l ≤ L → L - l ≤ fuel → ceilLog2Aux (2^L) fuel l = L := by
  intro fuel
  induction fuel with
  | zero => intro l h1 h2; simp only [ceilLog2Aux]; omega
  | succ f ih =>
    intro l h1 h2
    rw [ceilLog2Aux]
    by_cases hl : l = L
    · subst hl; simp
    · have : 2^l < 2^L := Nat.pow_lt_pow_right (by omega) (by omega)
      rw [if_pos this]
      exact ih (l+1) (by omega) (by omega)

theorem ceilLog2_pow (L : Nat) : ceilLog2 (2^L) = L :=
  ceilLog2Aux_pow L (2^L) 0 (Nat.zero_le _) (by have := @Nat.lt_two_pow_self L; omega)

/-! ### `intt_noswap` and `bitreverse_order` -/

theorem bind_none_fun {β γ : Type} (o : Option β) : o.bind (fun _ => (none : Option γ)) = none := by
  cases o <;> rfl

/-- **`intt_noswap` regenerated from source = the model**, for every `ops`, every root look-up `root` and every vector of
    length `2^L`, `L ≤ 32`: same panics (root missing, `inverse` of zero), finishes within its fuel, same values. -/
theorem gen_intt_noswap_eq (ops : Ops σ α) (root : Nat → Option σ) (x : Array α) (L : Nat) (hL : L ≤ 32)
    (hx : x.size = 2^L) :
    (Loops.intt_noswap ops root x.toList).bind
        (fun r => if Loops.intt_noswap_ok ops root x.toList then some r else none)
      = (inttNoswap ops root x).map Array.toList := by
  have hle : (2:Nat)^L ≤ 2^32 := Nat.pow_le_pow_right (by omega) hL
  rw [two_pow_32] at hle
  have hlen : x.toList.length = 2^L := by simpa using hx
  obtain ⟨e, ok, _⟩ := intt_noswap_loop_eq ops root x.toList (by rw [hlen, two_pow_63]; omega) (2^L) 0
    (x.toList.length + 65) (by omega) (by omega) (by omega)
  have hc : ceilLog2Aux x.toList.length (2^L) 0 = L := by rw [hlen]; exact ceilLog2_pow L
  rw [hc] at e
  rw [hlen] at e ok
  have hlt : 2^L < 18446744073709551616 := by omega
  cases hr : root (2^L) with
  | none =>
    simp only [Loops.intt_noswap_ok, inttNoswap, hx, hlen, hr, Option.isSome_none, Bool.false_and, Bool.and_false,
      Bool.false_eq_true, if_false, bind_none_fun, Option.map_none]
  | some w =>
    cases hi : ops.sinv w with
    | none =>
      simp only [Loops.intt_noswap_ok, inttNoswap, hx, hlen, hr, hi, Option.getD_some, Option.isSome_none,
        Bool.false_and, Bool.and_false, Bool.false_eq_true, if_false, bind_none_fun, Option.map_none]
    | some wi =>
      obtain ⟨e2, ok2⟩ := intt_for2_eq ops root wi L hL L 0 0 x (by omega) hx
      rw [Nat.pow_zero] at e2 ok2
      rw [Nat.zero_add] at e2
      simp only [Loops.intt_noswap, Loops.intt_noswap_ok, inttNoswap, hx, hlen, hr, hi, Option.getD_some,
        Option.isSome_some, e, ok, Option.bind_some, Option.elim_some, Nat.sub_zero, e2, ok2, hlt, decide_true,
        Bool.and_self, if_true, Option.map_some, ceilLog2_pow]

/-- the empty slice -/
theorem gen_intt_noswap_empty (ops : Ops σ α) (root : Nat → Option σ) :
    (Loops.intt_noswap ops root ([] : List α)).bind
        (fun r => if Loops.intt_noswap_ok ops root ([] : List α) then some r else none)
      = (inttNoswap ops root (#[] : Array α)).map Array.toList := by
  cases hr : root 0 with
  | none =>
    simp only [Loops.intt_noswap_ok, inttNoswap, List.length_nil, List.size_toArray, hr, Option.isSome_none,
      Bool.false_and, Bool.and_false, Bool.false_eq_true, if_false, bind_none_fun, Option.map_none]
  | some w =>
    cases hi : ops.sinv w with
    | none =>
      simp only [Loops.intt_noswap_ok, inttNoswap, List.length_nil, List.size_toArray, hr, hi, Option.getD_some,
        Option.isSome_none, Bool.false_and, Bool.and_false, Bool.false_eq_true, if_false, bind_none_fun, Option.map_none]
    | some wi =>
      simp [Loops.intt_noswap, Loops.intt_noswap_ok, inttNoswap, hr, hi, Loops.intt_noswap_loop,
        Loops.intt_noswap_loop_ok, Loops.intt_noswap_for2, Loops.intt_noswap_for2_ok, ceilLog2, ceilLog2Aux, stagesLoop]

/-- **every length**: when the root look-up is defined only for `0` and the powers of two up to `2^32` (as
    `BFieldElement::primitive_root_of_unity` is — C06 `primitive_roots_table`), the regenerated `intt_noswap` and the model
    agree on *every* vector (all other lengths panic in `unwrap` on both sides) -/
theorem gen_intt_noswap_eq_all (ops : Ops σ α) (root : Nat → Option σ)
    (hroot : ∀ n, (root n).isSome = true → n = 0 ∨ ∃ L, L ≤ 32 ∧ n = 2^L) (x : Array α) :
    (Loops.intt_noswap ops root x.toList).bind
        (fun r => if Loops.intt_noswap_ok ops root x.toList then some r else none)
      = (inttNoswap ops root x).map Array.toList := by
  cases hr : root x.size with
  | none =>
    have hlen : x.toList.length = x.size := by simp
    simp only [Loops.intt_noswap_ok, inttNoswap, hlen, hr, Option.isSome_none, Bool.false_and, Bool.and_false,
      Bool.false_eq_true, if_false, bind_none_fun, Option.map_none]
  | some w =>
    rcases hroot x.size (by rw [hr]; rfl) with h0 | ⟨L, hL, hx⟩
    · have : x = #[] := Array.eq_empty_of_size_eq_zero h0
      subst this
      exact gen_intt_noswap_empty ops root
    · exact gen_intt_noswap_eq ops root x L hL hx

/-- **`bitreverse_order` regenerated from source = the model**, for every array of length `≤ 2^63`: the `logn` loop
    finishes within its fuel and computes `⌈log₂ len⌉`, the swap loop agrees in value and panic -/
theorem gen_bitreverse_order_eq (ops : Ops σ α) (a : Array α) (ha : a.size ≤ 2^63) :
    (Loops.ntt_bitreverse_order ops a.toList).bind
        (fun r => if Loops.ntt_bitreverse_order_ok ops a.toList then some r else none)
      = (bitreverseOrder a).map Array.toList := by
  have hlen : a.toList.length = a.size := by simp
  obtain ⟨e, ok, hb⟩ := bitreverse_order_loop_eq ops a.toList (by rw [hlen]; exact ha) a.size 0 65 (by omega) (by omega)
    (by omega)
  have hc : ceilLog2Aux a.toList.length a.size 0 = ceilLog2 a.size := by rw [hlen]; rfl
  rw [hc] at e hb
  have hsw := bitreverse_order_for2_eq ops (ceilLog2 a.size) (by omega) a.size 0 a
  simp only [Loops.ntt_bitreverse_order, Loops.ntt_bitreverse_order_ok, e, ok, Option.bind_some, Option.elim_some,
    Nat.sub_zero, hlen, Bool.true_and, bitreverseOrder, bitrevPermute]
  exact hsw

end TF.GenBridge.Ntt
