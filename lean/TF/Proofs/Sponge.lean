import TF.Model.Sponge
import TF.Spec.Sponge
import Mathlib.Tactic.Ring
import Mathlib.Tactic.Linarith
/-! helper lemmas for C15 (sponge discipline) -/
namespace TF.Sponge
open TF.Gen (RATE STATE_SIZE CAPACITY DIGEST_LEN P)

theorem RATE_eq : RATE = 10 := rfl
theorem STATE_eq : STATE_SIZE = 16 := rfl

/-! ### padding -/

theorem nextMultipleOf_eq (n : Nat) : nextMultipleOf (n + 1) RATE = n + 1 + padK n := by
  unfold nextMultipleOf padK
  rw [RATE_eq]
  split <;> omega

theorem padK_spec (n : Nat) :
    padK n < RATE ∧ (n + 1 + padK n) % RATE = 0 ∧ ∀ j, (n + 1 + j) % RATE = 0 → padK n ≤ j := by
  unfold padK
  rw [RATE_eq]
  refine ⟨by omega, by omega, fun j hj => by omega⟩

theorem padded_eq (input : List Nat) : padded input = padSpec input := by
  unfold padded padSpec
  simp only [nextMultipleOf_eq]
  rw [List.take_append]
  have h1 : (input ++ [1]).length = input.length + 1 := by simp
  rw [List.take_of_length_le (by rw [h1]; omega), h1, List.take_replicate]
  congr 2
  omega

theorem padSpec_length (input : List Nat) : (padSpec input).length = RATE * ((input.length + 1 + padK input.length) / RATE) := by
  have := (padK_spec input.length).2.1
  unfold padSpec
  simp only [List.length_append, List.length_replicate, List.length_singleton]
  rw [RATE_eq] at *
  omega

/-- chunks of a list whose length is a multiple of `k`: full blocks that concatenate to the list -/
theorem chunksOf_spec {k : Nat} (hk : 0 < k) :
    ∀ (f m : Nat) (l : List Nat), l.length = k * m → m ≤ f →
      (chunksOf k f l).flatten = l ∧ (chunksOf k f l).length = m ∧ ∀ c ∈ chunksOf k f l, c.length = k
  | 0, m, l, hl, hm => by
    have : m = 0 := by omega
    subst this
    have : l = [] := List.length_eq_zero_iff.mp (by simpa using hl)
    subst this; simp [chunksOf]
  | f+1, m, l, hl, hm => by
    rw [chunksOf]
    cases m with
    | zero =>
      have : l = [] := List.length_eq_zero_iff.mp (by simpa using hl)
      subst this; simp
    | succ m =>
      have hge : k ≤ l.length := by rw [hl, Nat.mul_succ]; omega
      have hne : l.isEmpty = false := by
        cases l with
        | nil => simp at hge; omega
        | cons _ _ => rfl
      rw [hne]
      simp only [Bool.false_eq_true, if_false]
      have hd : (l.drop k).length = k * m := by rw [List.length_drop, hl, Nat.mul_succ]; omega
      obtain ⟨h1, h2, h3⟩ := chunksOf_spec hk f m (l.drop k) hd (by omega)
      refine ⟨?_, ?_, ?_⟩
      · rw [List.flatten_cons, h1, List.take_append_drop]
      · rw [List.length_cons, h2]
      · intro c hc
        rcases List.mem_cons.mp hc with h | h
        · subst h; rw [List.length_take]; omega
        · exact h3 c h

theorem padBlocks_spec (input : List Nat) :
    (padBlocks input).flatten = padSpec input ∧ (∀ b ∈ padBlocks input, b.length = RATE) ∧
      (padBlocks input).length = (input.length + 1 + padK input.length) / RATE := by
  unfold padBlocks
  rw [padded_eq]
  have hl := padSpec_length input
  have hm : (input.length + 1 + padK input.length) / RATE ≤ (padSpec input).length := by
    rw [hl, RATE_eq]; omega
  obtain ⟨h1, h2, h3⟩ := chunksOf_spec (k := RATE) (by decide) _ _ (padSpec input) hl hm
  exact ⟨h1, h3, h2⟩

theorem foldl_blocks {σ : Type} (ab : σ → List Nat → σ) :
    ∀ (blocks : List (List Nat)) (s : σ), (∀ b ∈ blocks, b.length = RATE) →
      blocks.foldl (fun acc c => acc.bind fun st => if c.length = RATE then some (ab st c) else none) (some s)
        = some (blocks.foldl ab s)
  | [], s, _ => rfl
  | b :: bs, s, h => by
    rw [List.foldl_cons, List.foldl_cons, Option.bind_some, if_pos (h b (List.mem_cons_self))]
    exact foldl_blocks ab bs (ab s b) (fun c hc => h c (List.mem_cons_of_mem _ hc))

theorem padAndAbsorbAll_eq {σ : Type} (ab : σ → List Nat → σ) (s : σ) (input : List Nat) :
    padAndAbsorbAll ab s input = some ((padBlocks input).foldl ab s) := by
  unfold padAndAbsorbAll
  exact foldl_blocks ab _ s (padBlocks_spec input).2.1

theorem strip_zeros : ∀ (k m : Nat) (x y : List Nat),
    List.replicate k 0 ++ 1 :: x = List.replicate m 0 ++ 1 :: y → x = y
  | 0, 0, x, y, h => by simpa using h
  | 0, m+1, x, y, h => by simp [List.replicate_succ] at h
  | k+1, 0, x, y, h => by simp [List.replicate_succ] at h
  | k+1, m+1, x, y, h => by
    simp only [List.replicate_succ, List.cons_append, List.cons.injEq, true_and] at h
    exact strip_zeros k m x y h

theorem padSpec_injective {a b : List Nat} (h : padSpec a = padSpec b) : a = b := by
  unfold padSpec at h
  have h' := congrArg List.reverse h
  simp only [List.reverse_append, List.reverse_replicate, List.reverse_cons, List.reverse_nil, List.nil_append,
    List.append_assoc, List.singleton_append] at h'
  have := strip_zeros _ _ _ _ h'
  exact List.reverse_inj.mp this

end TF.Sponge

namespace TF.Sponge
open TF.Gen (RATE STATE_SIZE CAPACITY DIGEST_LEN P)

/-- the permutation keeps the state width -/
def Pres (perm : List Nat → List Nat) : Prop := ∀ s, s.length = STATE_SIZE → (perm s).length = STATE_SIZE

/-- the elements produced by `K` successive squeezes, in order -/
def stream (perm : List Nat → List Nat) (K : Nat) (st : List Nat) : List Nat := (squeezeN perm K st).1
/-- the sponge state after `K` squeezes -/
def stateAfter (perm : List Nat → List Nat) (K : Nat) (st : List Nat) : List Nat := (squeezeN perm K st).2

variable {perm : List Nat → List Nat}

theorem stream_zero (st : List Nat) : stream perm 0 st = [] := rfl
theorem stateAfter_zero (st : List Nat) : stateAfter perm 0 st = st := rfl
theorem stream_succ (K : Nat) (st : List Nat) : stream perm (K + 1) st = st.take RATE ++ stream perm K (perm st) := rfl
theorem stateAfter_succ (K : Nat) (st : List Nat) : stateAfter perm (K + 1) st = stateAfter perm K (perm st) := rfl

theorem stream_length (hp : Pres perm) : ∀ (K : Nat) (st : List Nat), st.length = STATE_SIZE →
    (stream perm K st).length = RATE * K ∧ (stateAfter perm K st).length = STATE_SIZE
  | 0, st, h => ⟨rfl, h⟩
  | K+1, st, h => by
    obtain ⟨h1, h2⟩ := stream_length hp K (perm st) (hp st h)
    rw [stream_succ, stateAfter_succ, List.length_append, h1, List.length_take, h, RATE_eq, STATE_eq]
    exact ⟨by omega, h2⟩

theorem toIndex_eq (bound e : Nat) : toIndex bound e = (e % 2 ^ 32) % bound := by
  unfold toIndex; norm_num

theorem usable_iff (e : Nat) : usable e = true ↔ e ≠ P - 1 := by
  unfold usable; simp

theorem sel_nil (b : Nat) : sel b [] = [] := rfl
theorem sel_cons_usable {b e : Nat} (xs : List Nat) (h : e ≠ P - 1) : sel b (e :: xs) = toIndex b e :: sel b xs := by
  unfold sel
  rw [List.filter_cons, if_pos ((usable_iff e).mpr h), List.map_cons, toIndex_eq]
theorem sel_cons_unusable {b e : Nat} (xs : List Nat) (h : ¬ e ≠ P - 1) : sel b (e :: xs) = sel b xs := by
  unfold sel
  rw [List.filter_cons, if_neg (fun hh => h ((usable_iff e).mp hh))]

/-- result of the loop in terms of the stream: `u` elements consumed -/
def loopResult (perm : List Nat → List Nat) (bound : Nat) (st buf acc xs : List Nat) (u : Nat) :
    List Nat × List Nat :=
  (acc ++ sel bound (xs.take u), stateAfter perm ((u - buf.length + 9) / 10) st)

theorem sampleLoop_done {bound num fuel : Nat} {st buf acc : List Nat} (h : acc.length = num) :
    sampleLoop perm bound num fuel st buf acc = some (acc, st) := by
  cases fuel <;> simp [sampleLoop, h]

/-- one iteration with a non-empty buffer, given the statement for the remaining fuel -/
theorem sampleLoop_step {bound num f K : Nat} {st rest acc : List Nat} {e : Nat}
    (hacc : acc.length < num)
    (ih : ∀ (acc' : List Nat), acc'.length ≤ num →
      sampleLoop perm bound num f st rest acc' =
        (usedCount ((rest ++ stream perm K st).take f) (num - acc'.length)).map
          (loopResult perm bound st rest acc' (rest ++ stream perm K st))) :
    sampleLoop perm bound num (f + 1) st (e :: rest) acc =
      (usedCount (((e :: rest) ++ stream perm K st).take (f + 1)) (num - acc.length)).map
        (loopResult perm bound st (e :: rest) acc ((e :: rest) ++ stream perm K st)) := by
  obtain ⟨m, hm⟩ : ∃ m, num - acc.length = m + 1 := ⟨num - acc.length - 1, by omega⟩
  rw [sampleLoop, if_neg (by omega)]
  simp only [List.isEmpty_cons, Bool.false_eq_true, if_false, List.cons_append, List.take_succ_cons, hm, usedCount]
  by_cases hu : e ≠ P - 1
  · rw [if_pos hu, if_pos ((usable_iff e).mpr hu), ih _ (by simp; omega)]
    have : num - (acc ++ [toIndex bound e]).length = m := by simp; omega
    rw [this, Option.map_map]
    congr 1
    funext u
    simp only [Function.comp, loopResult, List.take_succ_cons, sel_cons_usable _ hu, List.length_cons,
      List.append_assoc, List.singleton_append]
    congr 3
    omega
  · rw [if_neg hu, if_neg (fun hh => hu ((usable_iff e).mp hh)), ih _ (by omega), hm, Option.map_map]
    congr 1
    funext u
    simp only [Function.comp, loopResult, List.take_succ_cons, sel_cons_unusable _ hu, List.length_cons]
    congr 3
    omega

theorem sampleLoop_spec (hp : Pres perm) (bound num : Nat) :
    ∀ (fuel K : Nat) (st buf acc : List Nat), st.length = STATE_SIZE → acc.length ≤ num →
      fuel ≤ buf.length + RATE * K →
      sampleLoop perm bound num fuel st buf acc =
        (usedCount ((buf ++ stream perm K st).take fuel) (num - acc.length)).map
          (loopResult perm bound st buf acc (buf ++ stream perm K st))
  | 0, K, st, buf, acc, hst, hacc, hf => by
    rw [List.take_zero]
    by_cases h : acc.length = num
    · rw [sampleLoop_done h, h, Nat.sub_self]
      simp [usedCount, loopResult, sel_nil, stateAfter_zero]
    · obtain ⟨m, hm⟩ : ∃ m, num - acc.length = m + 1 := ⟨num - acc.length - 1, by omega⟩
      rw [hm]; simp [sampleLoop, h, usedCount]
  | f+1, K, st, buf, acc, hst, hacc, hf => by
    by_cases h : acc.length = num
    · rw [sampleLoop_done h, h, Nat.sub_self]
      simp [usedCount, loopResult, sel_nil, stateAfter_zero]
    · have hlt : acc.length < num := by omega
      cases buf with
      | cons e rest =>
        exact sampleLoop_step hlt (fun acc' ha' =>
          sampleLoop_spec hp bound num f K st rest acc' hst ha' (by simp at hf; omega))
      | nil =>
        cases K with
        | zero => simp at hf
        | succ K =>
          -- the squeeze happens now; afterwards the iteration is the one with the fresh block as buffer
          have hlen : (st.take RATE).length = RATE := by rw [List.length_take, hst, RATE_eq, STATE_eq]; rfl
          obtain ⟨e, rest, hout⟩ : ∃ e rest, st.take RATE = e :: rest := by
            cases hc : st.take RATE with
            | nil => rw [hc, RATE_eq] at hlen; simp at hlen
            | cons e rest => exact ⟨e, rest, rfl⟩
          have hrest : rest.length = 9 := by
            have := hlen; rw [hout, RATE_eq] at this; simpa using this
          have hsame : sampleLoop perm bound num (f + 1) st [] acc =
              sampleLoop perm bound num (f + 1) (perm st) (e :: rest) acc := by
            rw [sampleLoop, sampleLoop, if_neg h, if_neg h]
            simp only [List.isEmpty_nil, if_true, squeeze, hout, List.isEmpty_cons, Bool.false_eq_true, if_false]
          rw [hsame, List.nil_append, stream_succ, hout]
          rw [sampleLoop_step hlt (K := K) (fun acc' ha' =>
            sampleLoop_spec hp bound num f K (perm st) rest acc' (hp st hst) ha' (by
              rw [hrest]; simp at hf; rw [RATE_eq] at *; omega))]
          -- same consumption count, one more squeeze
          obtain ⟨m, hm⟩ : ∃ m, num - acc.length = m + 1 := ⟨num - acc.length - 1, by omega⟩
          have hpos : ∀ u, usedCount (((e :: rest) ++ stream perm K (perm st)).take (f + 1)) (num - acc.length) = some u →
              1 ≤ u := by
            intro u hu
            rw [hm] at hu
            simp only [List.cons_append, List.take_succ_cons, usedCount] at hu
            split at hu
            all_goals
              cases hc : usedCount (List.take f (rest ++ stream perm K (perm st))) _ with
              | none => rw [hc] at hu; simp at hu
              | some v => rw [hc] at hu; simp at hu; omega
          cases hc : usedCount (((e :: rest) ++ stream perm K (perm st)).take (f + 1)) (num - acc.length) with
          | none => rfl
          | some u =>
            have := hpos u hc
            simp only [Option.map_some, loopResult, List.length_cons, List.length_nil, hrest]
            congr 2
            have e1 : (u - 0 + 9) / 10 = (u - (9 + 1) + 9) / 10 + 1 := by omega
            rw [e1, stateAfter_succ]
end TF.Sponge

namespace TF.Sponge
open TF.Gen (RATE STATE_SIZE CAPACITY DIGEST_LEN P)
variable {perm : List Nat → List Nat}

/-- number of usable elements of a list -/
def usableCount (xs : List Nat) : Nat := (xs.filter usable).length

theorem usableCount_cons (x : Nat) (xs : List Nat) :
    usableCount (x :: xs) = (if usable x then 1 else 0) + usableCount xs := by
  unfold usableCount
  rw [List.filter_cons]
  split <;> simp <;> omega

/-- `usedCount xs n = some u`: `u` is the length of the *shortest* prefix with `n` usable elements -/
theorem usedCount_some : ∀ (xs : List Nat) (n u : Nat), usedCount xs n = some u →
    u ≤ xs.length ∧ usableCount (xs.take u) = n ∧ ∀ v, v < u → usableCount (xs.take v) < n
  | xs, 0, u, h => by
    have : u = 0 := by cases xs <;> simp [usedCount] at h <;> omega
    subst this
    exact ⟨Nat.zero_le _, by simp [usableCount], fun v hv => absurd hv (Nat.not_lt_zero v)⟩
  | [], n+1, u, h => by simp [usedCount] at h
  | x :: xs, n+1, u, h => by
    rw [usedCount] at h
    by_cases hx : usable x = true
    · rw [if_pos hx] at h
      cases hc : usedCount xs n with
      | none => rw [hc] at h; simp at h
      | some u' =>
        rw [hc] at h; simp at h; subst h
        obtain ⟨h1, h2, h3⟩ := usedCount_some xs n u' hc
        refine ⟨by simp; omega, ?_, ?_⟩
        · rw [List.take_succ_cons, usableCount_cons, if_pos hx, h2]; omega
        · intro v hv
          cases v with
          | zero => simp [usableCount]
          | succ v =>
            rw [List.take_succ_cons, usableCount_cons, if_pos hx]
            have := h3 v (by omega); omega
    · rw [if_neg hx] at h
      cases hc : usedCount xs (n + 1) with
      | none => rw [hc] at h; simp at h
      | some u' =>
        rw [hc] at h; simp at h; subst h
        obtain ⟨h1, h2, h3⟩ := usedCount_some xs (n + 1) u' hc
        refine ⟨by simp; omega, ?_, ?_⟩
        · rw [List.take_succ_cons, usableCount_cons, if_neg hx, h2]; omega
        · intro v hv
          cases v with
          | zero => simp [usableCount]
          | succ v =>
            rw [List.take_succ_cons, usableCount_cons, if_neg hx]
            have := h3 v (by omega); omega

/-- a stream with at least `n` usable elements always yields a prefix length -/
theorem usedCount_isSome : ∀ (xs : List Nat) (n : Nat), n ≤ usableCount xs → ∃ u, usedCount xs n = some u
  | xs, 0, _ => ⟨0, by cases xs <;> rfl⟩
  | [], n+1, h => by simp [usableCount] at h
  | x :: xs, n+1, h => by
    rw [usableCount_cons] at h
    rw [usedCount]
    by_cases hx : usable x = true
    · rw [if_pos hx] at h ⊢
      obtain ⟨u, hu⟩ := usedCount_isSome xs n (by omega)
      exact ⟨u + 1, by rw [hu]; rfl⟩
    · rw [if_neg hx] at h ⊢
      obtain ⟨u, hu⟩ := usedCount_isSome xs (n + 1) (by omega)
      exact ⟨u + 1, by rw [hu]; rfl⟩

theorem sampleIndices_exact (hp : Pres perm) {st : List Nat} (hst : st.length = STATE_SIZE) (bound num fuel K : Nat)
    (hf : fuel ≤ RATE * K) :
    sampleIndices perm fuel st bound num =
      (usedCount ((stream perm K st).take fuel) num).map fun u =>
        (sel bound ((stream perm K st).take u), stateAfter perm ((u + 9) / 10) st) := by
  unfold sampleIndices
  rw [sampleLoop_spec hp bound num fuel K st [] [] hst (Nat.zero_le _) (by simpa using hf)]
  simp only [List.nil_append, List.length_nil, Nat.sub_zero]
  congr 1

/-! ### scalars -/

theorem chunks3_take : ∀ (n f : Nat) (l : List Nat), 3 * n ≤ l.length → n ≤ f →
    ∃ groups : List (Nat × Nat × Nat),
      ((chunks3 f l).take n).mapM toTriple = some groups ∧
      groups.length = n ∧ (groups.flatMap fun t => [t.1, t.2.1, t.2.2]) = l.take (3 * n)
  | 0, f, l, _, _ => ⟨[], by simp, rfl, by simp⟩
  | n+1, 0, l, _, hf => by omega
  | n+1, f+1, l, hl, hf => by
    match l, hl with
    | a :: b :: c :: l', hl =>
      obtain ⟨g, h1, h2, h3⟩ := chunks3_take n f l' (by simp at hl; omega) (by omega)
      refine ⟨(a, b, c) :: g, ?_, by simp [h2], ?_⟩
      · rw [chunks3]
        simp only [List.isEmpty_cons, Bool.false_eq_true, if_false, List.take_succ_cons, List.take_zero,
          List.drop_succ_cons, List.drop_zero, List.mapM_cons, toTriple]
        rw [h1]; rfl
      · rw [List.flatMap_cons, h3]
        have : 3 * (n + 1) = 3 * n + 1 + 1 + 1 := by ring
        rw [this]; rfl
    | [], hl => simp at hl
    | [_], hl => simp at hl; omega
    | [_, _], hl => simp at hl; omega

theorem sampleScalars_eq (hp : Pres perm) {st : List Nat} (hst : st.length = STATE_SIZE) (num : Nat) :
    ∃ groups : List (Nat × Nat × Nat),
      sampleScalars perm st num = some (groups, stateAfter perm ((num * 3 + 9) / 10) st) ∧
      groups.length = num ∧
      (groups.flatMap fun t => [t.1, t.2.1, t.2.2]) = (stream perm ((num * 3 + 9) / 10) st).take (3 * num) := by
  have hlen := (stream_length hp ((num * 3 + 9) / 10) st hst).1
  rw [RATE_eq] at hlen
  obtain ⟨g, h1, h2, h3⟩ := chunks3_take num (stream perm ((num * 3 + 9) / 10) st).length
    (stream perm ((num * 3 + 9) / 10) st) (by rw [hlen]; omega) (by rw [hlen]; omega)
  refine ⟨g, ?_, h2, h3⟩
  unfold sampleScalars
  have e : (num * 3 + RATE - 1) / RATE = (num * 3 + 9) / 10 := by rw [RATE_eq]; omega
  simp only [e]
  unfold stream at h1
  rw [h1]; rfl
end TF.Sponge
