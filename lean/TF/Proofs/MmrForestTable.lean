import TF.Proofs.MmrForest
import TF.Proofs.MmrBounded
import TF.Proofs.MmrAuthPathIdx
/-!
# C16, part 4: the `mt` / `auth` / peak-index columns of the table of the explicit forest S0, and `forestAgrees`

Bridge between the two vocabularies:
* S0/S1 tables (`Tree.rows`, `Forest.rows`, `TF/Proofs/MmrTree.lean`, `MmrForest.lean`) and
* node coordinates `(l, j)` ↦ `nodeIdx l j` (`TF/Proofs/MmrNodeIndex.lean`, `MmrAuthPathIdx.lean`).

`rows_coords`: every row of the aligned S1 tree over the block `J` of `2^h` leaves is a node `(r.height, j)` below
`(h, J)`; its Merkle-tree index and its authentication path (as recorded in the table by walking the tree) are
`2^(h−height) + j mod 2^(h−height)` and the sibling node indices `sibsUp` bottom-up.
`forest_row_coords`: the `k`-th tree of the explicit forest with `n` leaves is the aligned block for the `k`-th set
bit `b` of `n` (from the top), `k = popcount (n / 2^(b+1))`.
With these, `get_authentication_path_node_indices` and `leaf_index_to_mt_index_and_peak_index` agree with the table,
which closes `forestAgrees n = true` for every `n < 2^63`.
-/
namespace TF.Mmr
open TF TF.Gen TF.Spec.Mmr TF.Model.Mmr
open TF.MmrE (nodeIdx anc sibsUp)
open TF.Spec.MmrE (sibBlk)

/-- the root of the aligned block `J` of `2^h` leaves: post-order index by position = offset + size of the S1 tree -/
theorem nodeIdx_eq_nodesOf (h J : Nat) : nodeIdx h J = nodesOf (J * 2^h) + 2^(h+1) - 1 := by
  have h1 := TF.MmrE.nodeIdx_eq h J
  have h2 := popCount_le J
  have h3 : J ≤ J * 2^h := Nat.le_mul_of_pos_right _ (Nat.two_pow_pos h)
  unfold nodesOf
  rw [popCount_mul_two_pow]
  have e : (J + 1) * 2^(h+1) = 2 * (J * 2^h) + 2^(h+1) := by rw [Nat.pow_succ]; ring
  omega

theorem sibBlk_even (J : Nat) : sibBlk (2 * J) = 2 * J + 1 := by
  unfold sibBlk; rw [if_pos (by omega)]

theorem sibBlk_odd (J : Nat) : sibBlk (2 * J + 1) = 2 * J := by
  unfold sibBlk; rw [if_neg (by omega)]; omega

/-- **table ↔ coordinates**: every row of the S1 tree over the aligned block `(h, J)` is the node `(r.height, j)` for
    a `j` below `J`; the `mt` and `auth` columns (computed by walking the tree) in closed form -/
theorem rows_coords : ∀ (h J p s : Nat) (isR : Bool) (rp mt : Nat) (auth : List Nat) (r : Row),
    r ∈ (tree (nodesOf (J * 2^h)) (J * 2^h) h).rows p s isR rp mt auth →
    ∃ j, r.height ≤ h ∧ j / 2^(h - r.height) = J ∧ r.idx = nodeIdx r.height j ∧
      r.mt = mt * 2^(h - r.height) + j % 2^(h - r.height) ∧
      r.auth = sibsUp r.height j (h - r.height) ++ auth ∧
      (∀ li, r.leaf = some li → r.height = 0 ∧ li = j) := by
  intro h
  induction h with
  | zero =>
    intro J p s isR rp mt auth r hr
    rw [rows_tree_zero] at hr
    have := List.mem_singleton.mp hr
    subst this
    refine ⟨J, Nat.le_refl _, by simp, ?_, by simp [Nat.mod_one], by simp [TF.MmrE.sibsUp_zero], ?_⟩
    · have := nodeIdx_eq_nodesOf 0 J
      simp only [Nat.pow_zero, Nat.mul_one, Nat.zero_add, Nat.pow_one] at this ⊢
      omega
    · intro li hl
      simp only [Option.some.injEq, Nat.pow_zero, Nat.mul_one] at hl
      exact ⟨rfl, hl.symm⟩
  | succ h ih =>
    intro J p s isR rp mt auth r hr
    have e1 : J * 2^(h+1) = 2 * J * 2^h := by rw [Nat.pow_succ]; ring
    have e3 : (2 * J + 1) * 2^h = 2 * J * 2^h + 2^h := by ring
    have hodd := nodesOf_odd J h
    have hroot := nodeIdx_eq_nodesOf (h+1) J
    have hL := nodeIdx_eq_nodesOf h (2 * J)
    have hR := nodeIdx_eq_nodesOf h (2 * J + 1)
    rw [e1] at hr hroot
    rw [rows_tree_succ] at hr
    have hp2 : 2^(h+2) = 2 * 2^(h+1) := two_pow_succ' (h+1)
    have hp22 : 2^(h+1+1) = 2 * 2^(h+1) := two_pow_succ' (h+1)
    have hpos := Nat.two_pow_pos (h+1)
    rcases List.mem_append.mp hr with hr | hr
    · rcases List.mem_append.mp hr with hr | hr
      · -- left subtree: block `(h, 2J)`
        obtain ⟨j, hle, hdiv, hidx, hmt, hauth, hleaf⟩ := ih (2 * J) _ _ _ _ _ _ r hr
        obtain ⟨k, hk⟩ : ∃ k, h - r.height = k := ⟨_, rfl⟩
        have ek : h + 1 - r.height = k + 1 := by omega
        have ehk : r.height + k = h := by omega
        rw [hk] at hdiv hmt hauth
        refine ⟨j, by omega, ?_, hidx, ?_, ?_, hleaf⟩
        · rw [ek, Nat.pow_succ, ← Nat.div_div_eq_div_mul, hdiv]; omega
        · rw [ek, hmt, mod_two_pow_succ j k, hdiv]
          have : 2 * J % 2 = 0 := by omega
          rw [this, Nat.pow_succ]; ring
        · rw [ek, hauth, TF.MmrE.sibsUp_succ_last, hdiv, ehk, sibBlk_even, hR, hodd, List.append_assoc]
          rfl
      · -- right subtree: block `(h, 2J+1)`
        rw [← hodd, ← e3] at hr
        obtain ⟨j, hle, hdiv, hidx, hmt, hauth, hleaf⟩ := ih (2 * J + 1) _ _ _ _ _ _ r hr
        obtain ⟨k, hk⟩ : ∃ k, h - r.height = k := ⟨_, rfl⟩
        have ek : h + 1 - r.height = k + 1 := by omega
        have ehk : r.height + k = h := by omega
        rw [hk] at hdiv hmt hauth
        refine ⟨j, by omega, ?_, hidx, ?_, ?_, hleaf⟩
        · rw [ek, Nat.pow_succ, ← Nat.div_div_eq_div_mul, hdiv]; omega
        · rw [ek, hmt, mod_two_pow_succ j k, hdiv]
          have : (2 * J + 1) % 2 = 1 := by omega
          rw [this, Nat.pow_succ]; ring
        · rw [ek, hauth, TF.MmrE.sibsUp_succ_last, hdiv, ehk, sibBlk_odd, hL, ← hodd, List.append_assoc]
          rfl
    · have := List.mem_singleton.mp hr
      subst this
      refine ⟨J, Nat.le_refl _, by simp, ?_, by simp [Nat.mod_one], by simp [TF.MmrE.sibsUp_zero], ?_⟩
      · simp only
        rw [hroot]
      · intro li hl
        simp at hl

/-! ## the trees of the explicit forest by position -/

/-- the trees of the forest, highest first: one aligned S1 block per set bit `b` of the leaf count -/
theorem highTrees_rev (q : Nat) : ∀ h K, q < 2^K →
    (highTrees h q).reverse = (bitsBelow K q).map fun b =>
      tree (nodesOf (2 * (q / 2^(b+1)) * 2^(b+h))) (2 * (q / 2^(b+1)) * 2^(b+h)) (b+h) := by
  induction q using Nat.strongRecOn with
  | _ q ih =>
    intro h K hq
    cases K with
    | zero =>
      have : q = 0 := by simpa using hq
      subst this; simp [highTrees_zero, bitsBelow]
    | succ K =>
      have hq2 : q / 2 < 2^K := by rw [Nat.pow_succ] at hq; omega
      rw [bitsBelow_low]
      have hshift : ∀ b, q / 2^(b+1+1) = q / 2 / 2^(b+1) := by
        intro b
        rw [Nat.div_div_eq_div_mul, Nat.pow_succ _ (b+1), Nat.mul_comm]
      rcases Nat.even_or_odd' q with ⟨a, rfl | rfl⟩
      · by_cases ha : a = 0
        · subst ha; simp [highTrees_zero, bitsBelow_zero_n]
        · have e1 : 2 * a / 2 = a := by omega
          have e2 : ¬ (2 * a % 2 = 1) := by omega
          rw [highTrees_even h a (by omega), if_neg e2, ih a (by omega) (h+1) K (by omega)]
          simp only [List.append_nil, List.map_map, e1]
          apply List.map_congr_left
          intro b _
          simp only [Function.comp]
          have e : b + (h+1) = b + 1 + h := by omega
          rw [hshift b, e1, e]
      · have e1 : (2 * a + 1) / 2 = a := by omega
        have e2 : (2 * a + 1) % 2 = 1 := by omega
        rw [highTrees_odd, if_pos e2]
        simp only [List.reverse_cons, List.map_append, List.map_map, e1]
        rw [ih a (by omega) (h+1) K (by omega)]
        congr 1
        · apply List.map_congr_left
          intro b _
          simp only [Function.comp]
          have e : b + (h+1) = b + 1 + h := by omega
          rw [hshift b, e1, e]
        · simp only [List.map_cons, List.map_nil, Nat.zero_add, Nat.pow_one, e1]

theorem forest_rows_go_getElem : ∀ (ts : List TF.Spec.Mmr.Tree) (k0 k : Nat) (r : Row),
    (k, r) ∈ Forest.rows.go ts k0 → ∃ t, k0 ≤ k ∧ ts[k - k0]? = some t ∧ r ∈ t.rootRows := by
  intro ts
  induction ts with
  | nil => intro k0 k r h; simp [Forest.rows.go] at h
  | cons t ts ih =>
    intro k0 k r h
    unfold Forest.rows.go at h
    rcases List.mem_append.mp h with h | h
    · obtain ⟨r', hr', he⟩ := List.mem_map.mp h
      have h1 : r' = r := by simpa using congrArg Prod.snd he
      have h2 : k0 = k := by simpa using congrArg Prod.fst he
      subst h1 h2
      exact ⟨t, Nat.le_refl _, by simp, hr'⟩
    · obtain ⟨t', hle, ht', hr'⟩ := ih _ _ _ h
      refine ⟨t', by omega, ?_, hr'⟩
      have e : k - k0 = (k - (k0 + 1)) + 1 := by omega
      rw [e, List.getElem?_cons_succ]
      exact ht'

theorem bitsBelow_length : ∀ K q, q < 2^K → (bitsBelow K q).length = popCount q := by
  intro K
  induction K with
  | zero => intro q hq; have : q = 0 := by simpa using hq
            subst this; simp [bitsBelow, popCount_zero]
  | succ K ih =>
    intro q hq
    have hq2 : q / 2 < 2^K := by rw [Nat.pow_succ] at hq; omega
    rw [bitsBelow_low, List.length_append, List.length_map, ih _ hq2, popCount_eq q]
    by_cases h : q % 2 = 1
    · rw [if_pos h, h]; simp; omega
    · have : q % 2 = 0 := by omega
      rw [if_neg h, this]; simp

/-- the `k`-th set bit from the top is a set bit with `k` set bits above it -/
theorem bitsBelow_getElem : ∀ K q k b, q < 2^K → (bitsBelow K q)[k]? = some b →
    q / 2^b % 2 = 1 ∧ k = popCount (q / 2^(b+1)) := by
  intro K
  induction K with
  | zero => intro q k b _ h; simp [bitsBelow] at h
  | succ K ih =>
    intro q k b hq h
    have hq2 : q / 2 < 2^K := by rw [Nat.pow_succ] at hq; omega
    rw [bitsBelow_low, List.getElem?_append] at h
    split at h
    · rw [List.getElem?_map] at h
      cases hb : (bitsBelow K (q / 2))[k]? with
      | none => rw [hb] at h; simp at h
      | some b' =>
        rw [hb] at h
        simp only [Option.map_some, Option.some.injEq] at h
        subst h
        obtain ⟨i1, i2⟩ := ih (q / 2) k b' hq2 hb
        have e : ∀ c, q / 2^(c+1) = q / 2 / 2^c := by
          intro c; rw [Nat.div_div_eq_div_mul, Nat.pow_succ, Nat.mul_comm]
        rw [e b', e (b'+1)]
        exact ⟨i1, i2⟩
    · rename_i hlen
      rw [List.length_map, bitsBelow_length K _ hq2] at hlen h
      by_cases hodd : q % 2 = 1
      · rw [if_pos hodd] at h
        have hk : k - popCount (q / 2) = 0 := by
          by_contra hc
          rw [List.getElem?_eq_none (by simp; omega)] at h
          simp at h
        rw [hk] at h
        simp only [List.getElem?_cons_zero, Option.some.injEq] at h
        subst h
        simp only [Nat.pow_zero, Nat.div_one, Nat.zero_add, Nat.pow_one]
        exact ⟨hodd, by omega⟩
      · rw [if_neg hodd] at h
        simp at h

/-- the set bit `b` of `n`: the block `2·(n / 2^(b+1))` of `2^b` leaves lies inside the MMR -/
theorem block_le (n b : Nat) (hb : n / 2^b % 2 = 1) : (2 * (n / 2^(b+1)) + 1) * 2^b ≤ n := by
  have h1 := Nat.div_add_mod n (2^(b+1))
  have h2 := mod_two_pow_succ n b
  rw [hb, Nat.mul_one] at h2
  have e : (2 * (n / 2^(b+1)) + 1) * 2^b = 2^(b+1) * (n / 2^(b+1)) + 2^b := by rw [Nat.pow_succ]; ring
  omega

/-- **the rows of the explicit forest by position**: the tree with peak index `k` belongs to a set bit `b` of `n`
    with `k` set bits above it; it is the aligned S1 block `(b, 2·(n / 2^(b+1)))`, and the `k`-th peak node index is
    the node index of that block -/
theorem forest_row_coords (n : Nat) (hn : n < 2^64) (k : Nat) (r : Row) (hr : (k, r) ∈ (forest n).rows) :
    ∃ b, n / 2^b % 2 = 1 ∧ k = popCount (n / 2^(b+1)) ∧
      ((forest n).peaks.map TF.Spec.Mmr.Tree.idx)[k]? = some (nodeIdx b (2 * (n / 2^(b+1)))) ∧
      r ∈ (tree (nodesOf (2 * (n / 2^(b+1)) * 2^b)) (2 * (n / 2^(b+1)) * 2^b) b).rootRows := by
  unfold Forest.rows at hr
  obtain ⟨t, _, ht, hrt⟩ := forest_rows_go_getElem _ _ _ _ hr
  have hpeaks : (forest n).peaks = (bitsBelow 64 n).map fun b =>
      tree (nodesOf (2 * (n / 2^(b+1)) * 2^(b+0))) (2 * (n / 2^(b+1)) * 2^(b+0)) (b+0) := by
    rw [forest_eq]
    unfold Forest.peaks
    exact highTrees_rev n 0 64 hn
  simp only [Nat.add_zero] at hpeaks
  rw [Nat.sub_zero, hpeaks, List.getElem?_map] at ht
  cases hb : (bitsBelow 64 n)[k]? with
  | none => rw [hb] at ht; simp at ht
  | some b =>
    rw [hb] at ht
    simp only [Option.map_some, Option.some.injEq] at ht
    subst ht
    obtain ⟨i1, i2⟩ := bitsBelow_getElem 64 n k b hn hb
    refine ⟨b, i1, i2, ?_, hrt⟩
    rw [hpeaks, List.map_map, List.getElem?_map, hb]
    simp only [Option.map_some, Function.comp, tree_idx, nodeIdx_eq_nodesOf]

/-! ## `get_authentication_path_node_indices` and the Merkle-tree / peak index against the table -/

/-- everything the table of the explicit forest says about a row, in coordinates -/
theorem forest_row_facts (n : Nat) (hn : n < 2^63) (k : Nat) (r : Row) (hr : (k, r) ∈ (forest n).rows) :
    ∃ b j, n / 2^b % 2 = 1 ∧ k = popCount (n / 2^(b+1)) ∧ r.height ≤ b ∧
      j / 2^(b - r.height) = 2 * (n / 2^(b+1)) ∧ r.idx = nodeIdx r.height j ∧
      ((forest n).peaks.map TF.Spec.Mmr.Tree.idx)[k]? = some (anc r.height j (b - r.height)) ∧
      anc r.height j (b - r.height) ≤ (forest n).nodes ∧
      r.mt = 2^(b - r.height) + j % 2^(b - r.height) ∧
      r.auth = sibsUp r.height j (b - r.height) ∧
      (∀ li, r.leaf = some li → r.height = 0 ∧ li = j) := by
  have hn64 : n < 2^64 := by
    have : (2:Nat)^63 < 2^64 := by decide
    omega
  obtain ⟨b, hb, hk, hpk, hrt⟩ := forest_row_coords n hn64 k r hr
  obtain ⟨j, hle, hdiv, hidx, hmt, hauth, hleaf⟩ := rows_coords b _ 0 0 false 0 1 [] r hrt
  have hanc : anc r.height j (b - r.height) = nodeIdx b (2 * (n / 2^(b+1))) := by
    unfold TF.MmrE.anc
    rw [hdiv]; congr 1; omega
  refine ⟨b, j, hb, hk, hle, hdiv, hidx, by rw [hanc]; exact hpk, ?_, by rw [hmt]; omega, by simpa using hauth, hleaf⟩
  rw [hanc, nodeIdx_eq_nodesOf, forest_eq]
  simp only
  have hblk := block_le n b hb
  have hodd := nodesOf_odd (n / 2^(b+1)) b
  have hm := nodesOf_mono hblk
  omega

/-- **`get_authentication_path_node_indices` against the explicit forest**: for every leaf count below `2^63` and
    **every node** of the forest (in particular every leaf), started at the node with the node index of the peak of its
    tree and the node count of the forest, the function terminates and returns `Some` of the authentication path
    recorded in the table (the sibling node indices from the node up to, excluding, the peak, lowest first) -/
theorem forest_auth_path (n : Nat) (hn : n < 2^63) (k : Nat) (r : Row) (hr : (k, r) ∈ (forest n).rows) :
    ∃ pk, ((forest n).peaks.map TF.Spec.Mmr.Tree.idx)[k]? = some pk ∧
      get_authentication_path_node_indices r.idx pk (forest n).nodes = some (some r.auth) := by
  obtain ⟨b, j, _, _, _, _, hidx, hpk, hle, _, hauth, _⟩ := forest_row_facts n hn k r hr
  refine ⟨_, hpk, ?_⟩
  have hnodes : (forest n).nodes ≤ 2 * n := by rw [forest_eq]; exact nodesOf_le n
  have h64 : (2:Nat)^64 = 2 * 2^63 := by decide
  rw [hidx, hauth]
  exact TF.MmrE.get_auth_path_ancestor r.height j (b - r.height) _ (by omega)
    (fun t ht => by have := TF.MmrE.anc_strictMono r.height j ht; omega)

/-- two descriptions of "the highest bit in which `i` and `n` differ" agree -/
theorem diff_bit_unique (i n a b : Nat) (ha1 : i / 2^(a+1) = n / 2^(a+1)) (ha2 : n / 2^a % 2 = 1) (ha3 : i / 2^a % 2 = 0)
    (hb1 : i / 2^(b+1) = n / 2^(b+1)) (hb2 : n / 2^b % 2 = 1) (hb3 : i / 2^b % 2 = 0) : a = b := by
  rcases Nat.lt_trichotomy a b with h | h | h
  · have := div_pow_eq_of_le ha1 (K := b) (by omega)
    rw [this] at hb3; omega
  · exact h
  · have := div_pow_eq_of_le hb1 (K := a) (by omega)
    rw [this] at ha3; omega

/-- **`leaf_index_to_mt_index_and_peak_index` against the table of the explicit forest**: for every leaf of the forest
    with `n < 2^63` leaves the function returns the Merkle-tree index recorded in the table (root `1`, children `2k`,
    `2k+1`, computed by walking the tree) and the position of the leaf's tree in the peak list -/
theorem forest_mt_peak (n : Nat) (hn : n < 2^63) (k : Nat) (r : Row) (hr : (k, r) ∈ (forest n).rows)
    (li : Nat) (hl : r.leaf = some li) :
    li < n ∧ leaf_index_to_mt_index_and_peak_index li n = (r.mt, k) := by
  have hn64 : n < 2^64 := by
    have : (2:Nat)^63 < 2^64 := by decide
    omega
  obtain ⟨b, j, hb, hk, _, hdiv, _, _, _, hmt, _, hleaf⟩ := forest_row_facts n hn k r hr
  obtain ⟨hh, rfl⟩ := hleaf li hl
  rw [hh, Nat.sub_zero] at hdiv hmt
  have hblk := block_le n b hb
  have hpos := Nat.two_pow_pos b
  have hdm := Nat.div_add_mod li (2^b)
  have hmod := Nat.mod_lt li hpos
  have hlt : li < n := by
    have e : (2 * (n / 2^(b+1)) + 1) * 2^b = 2^b * (2 * (n / 2^(b+1))) + 2^b := by ring
    rw [hdiv] at hdm
    omega
  refine ⟨hlt, ?_⟩
  obtain ⟨hv, _⟩ := mt_spec li n hlt hn64
  obtain ⟨f1, f2, f3⟩ := xor_log2_facts li n hlt
  have g1 : li / 2^(b+1) = n / 2^(b+1) := by
    have : li / 2^(b+1) = li / 2^b / 2 := by rw [Nat.pow_succ, Nat.div_div_eq_div_mul]
    rw [this, hdiv]; omega
  have g3 : li / 2^b % 2 = 0 := by rw [hdiv]; omega
  have := diff_bit_unique li n _ b f1 f2 f3 g1 hb g3
  rw [hv, this, hmt, hk]

/-! ## the executable statement -/

theorem forest_idx_le (n : Nat) (hn : n < 2^63) (k : Nat) (r : Row) (hr : (k, r) ∈ (forest n).rows) :
    1 ≤ r.idx ∧ r.idx ≤ (forest n).nodes := by
  obtain ⟨b, j, _, _, _, _, hidx, _, hle, _, _, _⟩ := forest_row_facts n hn k r hr
  have := TF.MmrE.anc_mono r.height j (a := 0) (b := b - r.height) (by omega)
  rw [TF.MmrE.anc_zero, ← hidx] at this
  have := TF.MmrE.nodeIdx_pos r.height j
  omega

/-! ## every node index is a coordinate pair; chains of parents in the table of the forest -/

/-- every node index `1 … 2^64 − 1` is `nodeIdx l j` for exactly one pair `(l, j)` (uniqueness: `nodeIdx_inj`) -/
theorem exists_coords (x : Nat) (h1 : 1 ≤ x) (h2 : x < 2^64) : ∃ l j, x = nodeIdx l j := by
  have h64 : (2:Nat)^64 = 18446744073709551616 := by decide
  obtain ⟨r, hr, hidx⟩ := rows_idx_complete 63 0 0 0 0 false 0 1 [] x (by omega) (by omega)
  have e : tree 0 0 63 = tree (nodesOf (0 * 2^63)) (0 * 2^63) 63 := by
    rw [Nat.zero_mul, nodesOf_zero]
  rw [e] at hr
  obtain ⟨j, _, _, hi, _⟩ := rows_coords 63 0 _ _ _ _ _ _ r hr
  exact ⟨r.height, j, by rw [← hidx, hi]⟩

/-- one step up in the table of the explicit forest, in coordinates: a row at `(L, J)` that has a parent has its
    parent at `(L+1, J/2)` and its sibling at `(L, sibBlk J)` -/
theorem forest_step_coords (n : Nat) (hn : n < 2^63) (k : Nat) (r : Row) (hr : (k, r) ∈ (forest n).rows)
    (hp : r.parent ≠ 0) (L J : Nat) (hidx : r.idx = nodeIdx L J) :
    r.parent = nodeIdx (L + 1) (J / 2) ∧ r.sibling = nodeIdx L (sibBlk J) := by
  obtain ⟨r', hr', e1, e2, _, _, _, _, e7⟩ := forest_row_in_s1 n hn k r hr
  obtain ⟨e8, e9⟩ := e7 hp
  have hp' : r'.parent ≠ 0 := by rw [← e8]; exact hp
  have hsp := siblingAndParent_rows r' hr' hp'
  obtain ⟨_, hb2, hb3, _⟩ := nonroot_bounds r' hr' hp'
  have h64 : (2:Nat)^64 = 18446744073709551616 := by decide
  have hlt : nodeIdx L J < 2^64 := by rw [← hidx, e1]; omega
  -- the level of the row is `L`
  have hown := rll_own_rows r' hr'
  rw [← e1, hidx, TF.MmrE.rll_spec L J hlt] at hown
  have hL : L = r'.height := (Prod.mk.inj (Option.some.inj hown)).2
  have hpar := TF.MmrE.anc_le_top L J 1 hlt (by omega)
  have ea : anc L J 1 = nodeIdx (L + 1) (J / 2) := by simp [TF.MmrE.anc]
  rw [ea] at hpar
  have hspec := TF.MmrE.siblingAndParent_spec L J (by omega) (by omega)
  rw [← e1, hidx, hspec] at hsp
  have h := Option.some.inj hsp
  have h2 := (Prod.mk.inj h).2
  rw [e8, e9]
  exact ⟨(Prod.mk.inj h2).2.symm, (Prod.mk.inj h2).1.symm⟩

/-- **`get_authentication_path_node_indices` for a node and an ancestor in the explicit forest**: let
    `c 0, c 1, …, c d` be rows of the table of the forest with `n < 2^63` leaves such that each `c (t+1)` is the
    parent recorded for `c t`.  Then from the node `c 0` to its ancestor `c d` (with the node count of the forest) the
    function returns `Some` of the siblings recorded for `c 0, …, c (d−1)`, in this order -/
theorem forest_auth_path_chain (n : Nat) (hn : n < 2^63) (d : Nat) (c : Nat → Row) (kk : Nat → Nat)
    (hrows : ∀ t, t ≤ d → (kk t, c t) ∈ (forest n).rows)
    (hpar : ∀ t, t < d → (c t).parent = (c (t+1)).idx) :
    get_authentication_path_node_indices (c 0).idx (c d).idx (forest n).nodes
      = some (some ((List.range d).map fun t => (c t).sibling)) := by
  obtain ⟨_, j, _, _, _, _, hidx0, _⟩ := forest_row_facts n hn (kk 0) (c 0) (hrows 0 (by omega))
  generalize (c 0).height = l at hidx0
  have hall : ∀ t, t ≤ d → (c t).idx = anc l j t := by
    intro t
    induction t with
    | zero => intro _; rw [TF.MmrE.anc_zero]; exact hidx0
    | succ t ih =>
      intro ht
      have hi := ih (by omega)
      have hp : (c t).parent ≠ 0 := by
        rw [hpar t (by omega)]
        have := (forest_idx_le n hn _ _ (hrows (t+1) ht)).1
        omega
      have := (forest_step_coords n hn _ _ (hrows t (by omega)) hp (l + t) (j / 2^t) hi).1
      rw [← hpar t (by omega), this]
      unfold TF.MmrE.anc
      rw [Nat.div_div_eq_div_mul, ← Nat.pow_succ]
      rfl
  have hsib : (List.range d).map (fun t => (c t).sibling) = sibsUp l j d := by
    unfold TF.MmrE.sibsUp
    apply List.map_congr_left
    intro t ht
    have ht' := List.mem_range.mp ht
    have hp : (c t).parent ≠ 0 := by
      rw [hpar t ht']
      have := (forest_idx_le n hn _ _ (hrows (t+1) (by omega))).1
      omega
    exact (forest_step_coords n hn _ _ (hrows t (by omega)) hp (l + t) (j / 2^t) (hall t (by omega))).2
  have hnodes : (forest n).nodes ≤ 2 * n := by rw [forest_eq]; exact nodesOf_le n
  have h64 : (2:Nat)^64 = 2 * 2^63 := by decide
  have hd := (forest_idx_le n hn _ _ (hrows d (Nat.le_refl _))).2
  rw [hsib, hall d (Nat.le_refl _), hidx0]
  rw [hall d (Nat.le_refl _)] at hd
  exact TF.MmrE.get_auth_path_ancestor l j d _ (by omega)
    (fun t ht => by rw [← hall t (by omega)]; exact (forest_idx_le n hn _ _ (hrows t (by omega))).2)

/-! ## the result on the explicit forest for an arbitrary second argument -/

/-- node counts add up over disjoint bit ranges -/
theorem nodesOf_add_low (A a B : Nat) (hB : B < 2^a) : nodesOf (A * 2^a + B) = nodesOf (A * 2^a) + nodesOf B := by
  unfold nodesOf
  have hpos := Nat.two_pow_pos a
  have h1 : (A * 2^a + B) / 2^a = A := by
    rw [Nat.mul_comm, Nat.mul_add_div hpos, Nat.div_eq_of_lt hB]; omega
  have h2 : (A * 2^a + B) % 2^a = B := by
    rw [Nat.mul_comm, Nat.mul_add_mod, Nat.mod_eq_of_lt hB]
  rw [popCount_split a (A * 2^a + B), h1, h2, popCount_mul_two_pow]
  have := popCount_le A
  have := popCount_le B
  have : A ≤ A * 2^a := Nat.le_mul_of_pos_right _ hpos
  omega

/-- the would-be parent of the peak for the set bit `b` of `n` is not a node of the forest -/
theorem peak_parent_gt (n b : Nat) (hb : n / 2^b % 2 = 1) : nodesOf n < nodeIdx (b+1) (n / 2^(b+1)) := by
  have h1 := Nat.div_add_mod n (2^(b+1))
  have h2 := mod_two_pow_succ n b
  rw [hb, Nat.mul_one] at h2
  have hlt := Nat.mod_lt n (Nat.two_pow_pos b)
  have hlt1 := Nat.mod_lt n (Nat.two_pow_pos (b+1))
  have e : n = n / 2^(b+1) * 2^(b+1) + n % 2^(b+1) := by rw [Nat.mul_comm]; omega
  have hs := nodesOf_add_low (n / 2^(b+1)) (b+1) (n % 2^(b+1)) hlt1
  rw [← e] at hs
  have hlow : nodesOf (n % 2^(b+1)) = 2^(b+1) - 1 + nodesOf (n % 2^b) := by
    rw [h2]; exact nodesOf_two_pow_add b _ hlt
  have hle := nodesOf_le (n % 2^b)
  have hp := two_pow_succ' b
  have hp2 : 2^(b+1+1) = 2 * 2^(b+1) := two_pow_succ' (b+1)
  rw [nodeIdx_eq_nodesOf]
  omega
/-- **`get_authentication_path_node_indices` on the explicit forest, exactly**: for a node `r` of the forest with
    `n < 2^63` leaves (coordinates `(r.height, j)`, its tree belonging to bit `b` of `n`), the node count of the forest
    and an *arbitrary* second argument `p`: the result is `Some(path)` iff `p` is the node itself, one of its
    ancestors inside its tree (up to the peak, `b − r.height` levels up), **or the would-be parent of the peak** (one
    level further, a node index that is not in the forest — the Rust code does not notice); `None` in every other
    case (in particular for nodes of other trees and for non-ancestors inside the same tree) -/
theorem forest_auth_path_exact (n : Nat) (hn : n < 2^63) (k : Nat) (r : Row) (hr : (k, r) ∈ (forest n).rows) :
    ∃ b j, r.idx = nodeIdx r.height j ∧ r.height ≤ b ∧
      ((forest n).peaks.map TF.Spec.Mmr.Tree.idx)[k]? = some (anc r.height j (b - r.height)) ∧
      (∀ p path, get_authentication_path_node_indices r.idx p (forest n).nodes = some (some path) ↔
         ∃ d, d ≤ b - r.height + 1 ∧ anc r.height j d = p ∧ path = sibsUp r.height j d) ∧
      (∀ p, get_authentication_path_node_indices r.idx p (forest n).nodes = some none ↔
         ∀ d, d ≤ b - r.height + 1 → anc r.height j d ≠ p) := by
  obtain ⟨b, j, hb, _, hle, hdiv, hidx, hpk, hancle, _, _, _⟩ := forest_row_facts n hn k r hr
  refine ⟨b, j, hidx, hle, hpk, ?_⟩
  generalize r.height = l at *
  obtain ⟨D, hD⟩ : ∃ D, b - l = D := ⟨_, rfl⟩
  rw [hD] at hdiv hancle ⊢
  have hnodes : (forest n).nodes = nodesOf n := by rw [forest_eq]
  have hnle := nodesOf_le n
  have h64 : (2:Nat)^64 = 2 * 2^63 := by decide
  have hblk := block_le n b hb
  have hb62 : b < 63 := by
    apply pow_lt_pow_imp
    have : 2^b ≤ (2 * (n / 2^(b+1)) + 1) * 2^b := Nat.le_mul_of_pos_left _ (by omega)
    omega
  have hgt : (forest n).nodes < anc l j (D + 1) := by
    have e : anc l j (D + 1) = nodeIdx (b + 1) (n / 2^(b+1)) := by
      unfold TF.MmrE.anc
      rw [Nat.pow_succ, ← Nat.div_div_eq_div_mul, hdiv]
      have : 2 * (n / 2^(b+1)) / 2 = n / 2^(b+1) := by omega
      rw [this]; congr 1; omega
    rw [e, hnodes]; exact peak_parent_gt n b hb
  have key : ∀ d, (∀ t, t < d → anc l j t ≤ (forest n).nodes) ↔ d ≤ D + 1 := by
    intro d
    constructor
    · intro h
      by_contra hc
      have := h (D + 1) (by omega)
      omega
    · intro h t ht
      have := TF.MmrE.anc_mono l j (a := t) (b := D) (by omega)
      omega
  have hlt : nodeIdx l j < 2^64 := by
    have := TF.MmrE.anc_mono l j (a := 0) (b := D) (by omega)
    rw [TF.MmrE.anc_zero] at this
    omega
  have hnc : (forest n).nodes < 2^64 - 1 := by omega
  rw [hidx]
  constructor
  · intro p path
    rw [TF.MmrE.get_auth_path_some_iff l j p _ hlt hnc path]
    constructor
    · rintro ⟨d, _, hp, hbelow, hpath⟩
      exact ⟨d, (key d).mp hbelow, hp, hpath⟩
    · rintro ⟨d, hd, hp, hpath⟩
      exact ⟨d, by omega, hp, (key d).mpr hd, hpath⟩
  · intro p
    rw [TF.MmrE.get_auth_path_none_iff l j p _ hlt hnc]
    constructor
    · intro h d hd hp
      obtain ⟨t, ht, hnt⟩ := h d (by omega) hp
      have := (key d).mpr hd t ht
      omega
    · intro h d _ hp
      have hd : ¬ d ≤ D + 1 := fun hc => h d hc hp
      exact ⟨D + 1, by omega, hgt⟩
/-- in the table of a root, a row without parent has no sibling either, and a leaf-level row has no children -/
theorem forest_row_zero_cols (n : Nat) (hn : n < 2^63) (k : Nat) (r : Row) (hr : (k, r) ∈ (forest n).rows) :
    (r.parent = 0 → r.sibling = 0) ∧ (r.height = 0 → r.left = 0) := by
  have hr0 := hr
  unfold Forest.rows at hr
  obtain ⟨t, ht, hrt⟩ := forest_rows_go_mem _ _ _ _ hr
  rw [forest_eq] at ht
  unfold Forest.peaks at ht
  have ht' : t ∈ highTrees 0 n := List.mem_reverse.mp ht
  obtain ⟨a, j, hte, _⟩ := highTrees_mem n 0 t ht'
  subst hte
  constructor
  · intro hp
    rcases rows_parent_range _ _ _ _ _ _ _ _ _ r hrt with ⟨h1, _⟩ | ⟨h1, _⟩
    · exact (rows_root_row _ _ _ _ _ _ _ _ _ r hrt h1).2
    · omega
  · intro hh
    obtain ⟨r', hr', _, e2, _, e4, _⟩ := forest_row_in_s1 n hn k r hr0
    have := (rootRows_arith 63 r' hr').leaf (by rw [← e2]; exact hh)
    rw [e4]; exact this.1

/-- every index function reproduces the row of the table -/
theorem forest_rowAgrees (n : Nat) (hn : n < 2^63) (k : Nat) (r : Row) (hr : (k, r) ∈ (forest n).rows) :
    rowAgrees n (forest n).nodes ((forest n).peaks.map TF.Spec.Mmr.Tree.idx) k r = true := by
  obtain ⟨f1, f2, f3, f4⟩ := forest_node_functions n hn k r hr
  have f5 := forest_rll_node n hn k r hr
  obtain ⟨z1, z2⟩ := forest_row_zero_cols n hn k r hr
  obtain ⟨pk, hpk, hauth⟩ := forest_auth_path n hn k r hr
  have hgetD : ((forest n).peaks.map TF.Spec.Mmr.Tree.idx).getD k 0 = pk := by
    rw [List.getD_eq_getElem?_getD, hpk]; rfl
  unfold rowAgrees
  rw [f1, f2, f5, hgetD, hauth]
  have c3 : (r.parent == 0 || parent r.idx == some r.parent) = true := by
    by_cases hp : r.parent = 0
    · simp [hp]
    · rw [(f3 hp).1]; simp
  have c5 : (r.left == 0 || (left_child r.idx r.height == r.left && right_child r.idx == r.right)) = true := by
    by_cases hh : r.height = 0
    · simp [z2 hh]
    · obtain ⟨g1, _, g2, _⟩ := f4 (by omega)
      rw [g1, g2]; simp
  have c6 : (r.sibling == 0 ||
      (if r.rll != 0 then left_sibling r.idx r.height == r.sibling else right_sibling r.idx r.height == r.sibling)) = true := by
    by_cases hp : r.parent = 0
    · simp [z1 hp]
    · obtain ⟨_, g1, g2⟩ := f3 hp
      by_cases hrll : r.rll = 0
      · rw [(g2 hrll).1]; simp [hrll]
      · rw [(g1 hrll).1]; simp [hrll]
  rw [c3, c5, c6]
  cases hl : r.leaf with
  | none => simp
  | some li =>
    obtain ⟨g1, g2⟩ := forest_leaf_functions n hn k r hr li hl
    obtain ⟨_, g3⟩ := forest_mt_peak n hn k r hr li hl
    simp only [g1, g2, g3, beq_self_eq_true, Bool.and_self]

/-- **C16 in executable form, for every leaf count below `2^63`**: every index function (translated and
    hand-modelled) reproduces the table of the explicit forest on every node and every leaf -/
theorem forestAgrees_all (n : Nat) (hn : n < 2^63) : forestAgrees n = true := by
  have hn64 : n < 2^64 := by
    have : (2:Nat)^63 < 2^64 := by decide
    omega
  have hs := forest_shape n hn64
  unfold forestAgrees
  simp only
  have c1 : (num_leafs_to_num_nodes n == (forest n).nodes) = true := by
    rw [(num_nodes_spec n hn).1, hs.1]; simp
  have c2 : (get_peak_heights n == (forest n).peaks.map TF.Spec.Mmr.Tree.height) = true := by
    rw [get_peak_heights_spec n hn64, hs.2.2]; simp
  have c3 : (get_peak_heights_and_peak_node_indices n
      == some ((forest n).peaks.map TF.Spec.Mmr.Tree.height, (forest n).peaks.map TF.Spec.Mmr.Tree.idx)) = true := by
    rw [forest_peaks n hn]; simp
  have c4 : (node_indices_added_by_append n
      == some ((List.range ((forest n).append.nodes - (forest n).nodes)).map fun k => (forest n).nodes + 1 + k)) = true := by
    rw [forest_added n hn]
    exact beq_self_eq_true _
  rw [c1, c2, c3, c4]
  simp only [Bool.true_and, List.all_eq_true]
  rintro ⟨k, r⟩ hx
  exact forest_rowAgrees n hn k r hx

end TF.Mmr
