import TF.Proofs.LatticeModule
import TF.Proofs.LatticeEmbed
namespace TF.LatticeProofs
open TF.Gen TF.Model.Ntt TF.Model.Lattice TF.NttFn TF.LatFn TF.NttProofs TF.Spec
/-- the evaluation point `ρ_k` of the concrete tables in `ZMod P` -/
noncomputable def zrho (k : Nat) : ZMod P := rho 6 (-1) (tab (2^6) zpsi) k

/-- evaluation of a ring element (read in `ZMod P`) at `ρ_k` -/
noncomputable def ev (x : Ring) (k : Nat) : ZMod P := ∑ q ∈ Finset.range 64, zvec x q * (zrho k)^q

/-- coefficient `k` of `ntt64 x` is the evaluation of `x` at `ρ_k` -/
theorem zvec_ntt64 (x : Ring) (hx : x.size = 64) (k : Nat) (hk : k < 64) : zvec (ntt64 x) k = ev x k := by
  have h := cosetNtt_map castHom psi x
  have e := (cosetNtt_eval zinv zinv0 zpsi zpsiInv ((LATTICE_N_INV : ℕ) : ZMod P) tables_zmod
    (x.map (fun n : Nat => (n : ZMod P))) (by simpa using hx) k hk).1
  rw [toFn_map_cast] at e
  rw [← toFn_map_cast, ntt64, h]
  exact e

theorem zrho_pow (k : Nat) (hk : k < 64) : (zrho k)^64 = -1 :=
  (cosetNtt_eval zinv zinv0 zpsi zpsiInv ((LATTICE_N_INV : ℕ) : ZMod P) tables_zmod
    (Array.replicate 64 0) (by simp) k hk).2

theorem zvec_ringAdd (a b : Ring) (k : Nat) (hk : k < 64) : zvec (ringAdd a b) k = zvec a k + zvec b k := by
  simp only [zvec, ringAdd, ringZip_get _ a b k hk, cast_fadd]
theorem zvec_ringSub (a b : Ring) (k : Nat) (hk : k < 64) : zvec (ringSub a b) k = zvec a k - zvec b k := by
  simp only [zvec, ringSub, ringZip_get _ a b k hk, cast_fsub]
theorem zvec_ringHadamard (a b : Ring) (k : Nat) (hk : k < 64) : zvec (ringHadamard a b) k = zvec a k * zvec b k := by
  simp only [zvec, ringHadamard, ringZip_get _ a b k hk, cast_fmul]
theorem zvec_ringZero (k : Nat) : zvec ringZero k = 0 := by
  simp [zvec, ringZero, Array.getD_eq_getD_getElem?, Array.getElem?_replicate]
  split <;> simp

theorem ev_add (a b : Ring) (k : Nat) : ev (ringAdd a b) k = ev a k + ev b k := by
  unfold ev
  rw [← Finset.sum_add_distrib]
  apply Finset.sum_congr rfl; intro q hq
  rw [zvec_ringAdd a b q (Finset.mem_range.1 hq)]; ring
theorem ev_sub (a b : Ring) (k : Nat) : ev (ringSub a b) k = ev a k - ev b k := by
  unfold ev
  rw [← Finset.sum_sub_distrib]
  apply Finset.sum_congr rfl; intro q hq
  rw [zvec_ringSub a b q (Finset.mem_range.1 hq)]; ring
theorem ev_zero (k : Nat) : ev ringZero k = 0 := by
  unfold ev; apply Finset.sum_eq_zero; intro q _; rw [zvec_ringZero]; ring

theorem zvec_negacyclic (a b : Ring) (q : Nat) (hq : q < 64) :
    zvec (negacyclic a b) q = negaConv 64 (zvec a) (zvec b) q := by
  have h := negacyclic_map_cast a b
  have := congrArg (fun arr => toFn arr q) h
  simp only [toFn_map_cast] at this
  rw [this, toFn_ofFn64 (fun k => negaConv 64 (zvec a) (zvec b) k) q hq]

/-- evaluation is multiplicative for the negacyclic product -/
theorem ev_negacyclic (a b : Ring) (k : Nat) (hk : k < 64) : ev (negacyclic a b) k = ev a k * ev b k := by
  unfold ev
  rw [← negaConv_eval 64 _ (zrho_pow k hk)]
  apply Finset.sum_congr rfl; intro q hq
  rw [zvec_negacyclic a b q (Finset.mem_range.1 hq)]


/-! ### sums of ring elements -/

theorem zvec_foldl_ringAdd (g : Nat → Ring) (k : Nat) (hk : k < 64) : ∀ (l : List Nat) (acc : Ring),
    zvec (l.foldl (fun acc i => ringAdd acc (g i)) acc) k = zvec acc k + (l.map (fun i => zvec (g i) k)).sum := by
  intro l
  induction l with
  | nil => intro acc; simp
  | cons i l ih =>
    intro acc
    rw [List.foldl_cons, ih, zvec_ringAdd _ _ k hk, List.map_cons, List.sum_cons, add_assoc]

theorem ev_foldl_ringAdd (g : Nat → Ring) (k : Nat) : ∀ (l : List Nat) (acc : Ring),
    ev (l.foldl (fun acc i => ringAdd acc (g i)) acc) k = ev acc k + (l.map (fun i => ev (g i) k)).sum := by
  intro l
  induction l with
  | nil => intro acc; simp
  | cons i l ih =>
    intro acc
    rw [List.foldl_cons, ih, ev_add, List.map_cons, List.sum_cons, add_assoc]

/-- coefficient `k` of entry `idx` of a Hadamard matrix product -/
theorem zvec_modMultiplyHadamard (H I W : Nat) (l r : Module) (idx : Nat) (hidx : idx < H * W) (k : Nat) (hk : k < 64) :
    zvec ((modMultiplyHadamard H I W l r).getD idx ringZero) k
      = ∑ i ∈ Finset.range I, zvec (l.getD (idx / W * I + i) ringZero) k * zvec (r.getD (i * W + idx % W) ringZero) k := by
  have hget : (modMultiplyHadamard H I W l r).getD idx ringZero
      = (List.range I).foldl (fun acc i =>
          ringAdd acc (ringHadamard (l.getD (idx / W * I + i) ringZero) (r.getD (i * W + idx % W) ringZero))) ringZero := by
    simp [modMultiplyHadamard, modMulWith, Array.getD_eq_getD_getElem?, hidx]
  rw [hget, zvec_foldl_ringAdd _ k hk, zvec_ringZero, zero_add, sum_map_range]
  apply Finset.sum_congr rfl; intro i _
  rw [zvec_ringHadamard _ _ k hk]

/-- evaluation of entry `idx` of a schoolbook matrix product -/
theorem ev_modMulWith_negacyclic (H I W : Nat) (l r : Module) (idx : Nat) (hidx : idx < H * W) (k : Nat) (hk : k < 64) :
    ev ((modMulWith negacyclic H I W l r).getD idx ringZero) k
      = ∑ i ∈ Finset.range I, ev (l.getD (idx / W * I + i) ringZero) k * ev (r.getD (i * W + idx % W) ringZero) k := by
  have hget : (modMulWith negacyclic H I W l r).getD idx ringZero
      = (List.range I).foldl (fun acc i =>
          ringAdd acc (negacyclic (l.getD (idx / W * I + i) ringZero) (r.getD (i * W + idx % W) ringZero))) ringZero := by
    simp [modMulWith, Array.getD_eq_getD_getElem?, hidx]
  rw [hget, ev_foldl_ringAdd, ev_zero, zero_add, sum_map_range]
  apply Finset.sum_congr rfl; intro i _
  rw [ev_negacyclic _ _ k hk]

theorem modZip_getD (f : Ring → Ring → Ring) (a b : Module) (idx : Nat) (h : idx < a.size) :
    (modZip f a b).getD idx ringZero = f (a.getD idx ringZero) (b.getD idx ringZero) := by
  simp [modZip, Array.getD_eq_getD_getElem?, h]

theorem modIntt_getD (m : Module) (k : Nat) (hk : k < m.size) : (modIntt m).getD k ringZero = intt64 (m.getD k ringZero) := by
  simp [modIntt, Array.getD_eq_getD_getElem?, hk]

theorem modMultiplyHadamard_size (H I W : Nat) (l r : Module) : (modMultiplyHadamard H I W l r).size = H * W := by
  simp [modMultiplyHadamard, modMulWith]

/-- `intt64` only depends on its argument modulo `P` -/
theorem intt64_congr (x y : Ring) (hs : x.size = y.size) (h : ∀ k, k < x.size → zvec x k = zvec y k) : intt64 x = intt64 y := by
  apply eq_of_map_cast_eq _ _ (intt64_canon x) (intt64_canon y)
  simp only [intt64]
  rw [cosetIntt_map castHom, cosetIntt_map castHom]
  congr 1
  apply Array.ext (by simpa using hs)
  intro i h1 h2
  simp only [Array.size_map] at h1 h2
  have := h i h1
  simpa [zvec, Array.getD_eq_getD_getElem?, h1, h2] using this

/-! ### the element `dec` extracts from, and KEM correctness under the noise bound -/

theorem sampleShortModule_shaped (n : Nat) (rnd : List Nat) : Shaped n (sampleShortModule n rnd) := by
  refine ⟨by simp [sampleShortModule], ?_⟩
  intro k hk
  simp [sampleShortModule, sampleShortRing, Array.getD_eq_getD_getElem?, hk]

theorem sampleUniformModule_shaped (n : Nat) (rnd : List Nat) : Shaped n (sampleUniformModule n rnd) := by
  refine ⟨by simp [sampleUniformModule], ?_⟩
  intro k hk
  simp [sampleUniformModule, sampleUniformRing, Array.getD_eq_getD_getElem?, hk]

theorem embedMsg_size (m : List Nat) : (embedMsg m).size = 64 := by simp [embedMsg]

/-- coefficient `k` of ring `i` of the transformed module is the evaluation of ring `i` at `ρ_k` -/
theorem zvec_modNtt (n : Nat) (m : Module) (hm : Shaped n m) (i : Nat) (hi : i < n) (k : Nat) (hk : k < 64) :
    zvec ((modNtt m).getD i ringZero) k = ev (m.getD i ringZero) k := by
  rw [modNtt_getD m i (by rw [hm.1]; exact hi), zvec_ntt64 _ (hm.2 i hi) k hk]


/-- The ring element `dec` extracts from, for an honest ciphertext, is `embed_msg payload + noise` with
    `noise = Σ b_i·c_i − Σ d_i·a_i` (negacyclic products of the short secret vectors). -/
theorem dec_element_honest (g a c b d : Module) (hg : Shaped 16 g) (ha : Shaped 4 a) (hc : Shaped 4 c)
    (hb : Shaped 4 b) (hd : Shaped 4 d) (m : Ring) (hm : m.size = 64) :
    let ga := modAdd (modMultiplyHadamard 4 4 1 g (modNtt a)) (modNtt c)
    let bg := modAdd (modMultiplyHadamard 1 4 4 (modNtt b) g) (modNtt d)
    let bgaM := modAdd (modMultiplyHadamard 1 4 1 (modNtt b) ga) (modNtt #[m])
    let bga := modMultiplyHadamard 1 4 1 bg (modNtt a)
    let E := (modSub (modMulWith negacyclic 1 4 1 b c) (modMulWith negacyclic 1 4 1 d a)).getD 0 ringZero
    (modIntt (modSub bgaM bga)).getD 0 ringZero = ringAdd m E := by
  intro ga bg bgaM bga E
  have dga : ga = modAdd (modMultiplyHadamard 4 4 1 g (modNtt a)) (modNtt c) := rfl
  have dbg : bg = modAdd (modMultiplyHadamard 1 4 4 (modNtt b) g) (modNtt d) := rfl
  have dbgaM : bgaM = modAdd (modMultiplyHadamard 1 4 1 (modNtt b) ga) (modNtt #[m]) := rfl
  have dbga : bga = modMultiplyHadamard 1 4 1 bg (modNtt a) := rfl
  have dE : E = (modSub (modMulWith negacyclic 1 4 1 b c) (modMulWith negacyclic 1 4 1 d a)).getD 0 ringZero := rfl
  clear_value ga bg bgaM bga E
  have hgas : ga.size = 4 := by simp [dga, modAdd, modZip, modMultiplyHadamard_size]
  have hbgs : bg.size = 4 := by simp [dbg, modAdd, modZip, modMultiplyHadamard_size]
  have hbgaMs : bgaM.size = 1 := by simp [dbgaM, modAdd, modZip, modMultiplyHadamard_size]
  have hsubs : (modSub bgaM bga).size = 1 := by simp [modSub, modZip, hbgaMs]
  rw [modIntt_getD _ 0 (by rw [hsubs]; omega)]
  simp only [modSub]
  rw [modZip_getD _ bgaM bga 0 (by rw [hbgaMs]; omega)]
  have hmE : intt64 (ntt64 (ringAdd m E)) = ringAdd m E := by
    rw [intt64_ntt64 _ (ringAdd_size _ _)]
    apply Array.ext (by simp)
    intro i h1 h2
    simp only [Array.getElem_map]
    exact Nat.mod_eq_of_lt (ringZip_canon _ (fun _ _ => Nat.mod_lt _ P_pos) _ _ i h2)
  rw [← hmE]
  apply intt64_congr
  · rw [show (ringSub (bgaM.getD 0 ringZero) (bga.getD 0 ringZero)).size = 64 from ringZip_size _ _ _, ntt64_size _ (ringAdd_size _ _)]
  · intro k hk
    have hk64 : k < 64 := by rwa [show (ringSub (bgaM.getD 0 ringZero) (bga.getD 0 ringZero)).size = 64 from ringZip_size _ _ _] at hk
    rw [zvec_ringSub _ _ k hk64, zvec_ntt64 _ (ringAdd_size _ _) k hk64, ev_add]
    -- the four module entries, coefficient k
    have hgaE : ∀ i, i < 4 → zvec (ga.getD i ringZero) k
        = (∑ j ∈ Finset.range 4, zvec (g.getD (i * 4 + j) ringZero) k * ev (a.getD j ringZero) k)
          + ev (c.getD i ringZero) k := by
      intro i hi
      rw [dga]; simp only [modAdd]
      rw [modZip_getD _ _ _ i (by rw [modMultiplyHadamard_size]; omega), zvec_ringAdd _ _ k hk64,
        zvec_modMultiplyHadamard 4 4 1 g (modNtt a) i (by omega) k hk64, zvec_modNtt 4 c hc i hi k hk64]
      refine congrArg (· + ev (c.getD i ringZero) k) ?_
      apply Finset.sum_congr rfl; intro j hj
      have hj4 : j < 4 := Finset.mem_range.1 hj
      rw [show i / 1 * 4 + j = i * 4 + j by simp, show j * 1 + i % 1 = j by rw [Nat.mod_one]; simp, zvec_modNtt 4 a ha j hj4 k hk64]
    have hbgE : ∀ w, w < 4 → zvec (bg.getD w ringZero) k
        = (∑ i ∈ Finset.range 4, ev (b.getD i ringZero) k * zvec (g.getD (i * 4 + w) ringZero) k)
          + ev (d.getD w ringZero) k := by
      intro w hw
      rw [dbg]; simp only [modAdd]
      rw [modZip_getD _ _ _ w (by rw [modMultiplyHadamard_size]; omega), zvec_ringAdd _ _ k hk64,
        zvec_modMultiplyHadamard 1 4 4 (modNtt b) g w (by omega) k hk64, zvec_modNtt 4 d hd w hw k hk64]
      refine congrArg (· + ev (d.getD w ringZero) k) ?_
      apply Finset.sum_congr rfl; intro i hi
      have hi4 : i < 4 := Finset.mem_range.1 hi
      rw [show w / 4 * 4 + i = i by rw [Nat.div_eq_of_lt hw]; simp, show w % 4 = w from Nat.mod_eq_of_lt hw,
        zvec_modNtt 4 b hb i hi4 k hk64]
    have hm1 : Shaped 1 #[m] := ⟨rfl, fun j hj => by
      have : j = 0 := by omega
      subst this; simpa using hm⟩
    have hbgaME : zvec (bgaM.getD 0 ringZero) k
        = (∑ i ∈ Finset.range 4, ev (b.getD i ringZero) k * zvec (ga.getD i ringZero) k) + ev m k := by
      rw [dbgaM]; simp only [modAdd]
      rw [modZip_getD _ _ _ 0 (by rw [modMultiplyHadamard_size]; omega), zvec_ringAdd _ _ k hk64,
        zvec_modMultiplyHadamard 1 4 1 (modNtt b) ga 0 (by omega) k hk64, zvec_modNtt 1 #[m] hm1 0 (by omega) k hk64]
      refine congrArg (· + ev m k) ?_
      apply Finset.sum_congr rfl; intro i hi
      have hi4 : i < 4 := Finset.mem_range.1 hi
      rw [show 0 / 1 * 4 + i = i by simp, show i * 1 + 0 % 1 = i by rw [Nat.mod_one]; simp, zvec_modNtt 4 b hb i hi4 k hk64]
    have hbgaE : zvec (bga.getD 0 ringZero) k
        = ∑ i ∈ Finset.range 4, zvec (bg.getD i ringZero) k * ev (a.getD i ringZero) k := by
      rw [dbga]
      rw [zvec_modMultiplyHadamard 1 4 1 bg (modNtt a) 0 (by omega) k hk64]
      apply Finset.sum_congr rfl; intro i hi
      have hi4 : i < 4 := Finset.mem_range.1 hi
      rw [show 0 / 1 * 4 + i = i by simp, show i * 1 + 0 % 1 = i by rw [Nat.mod_one]; simp, zvec_modNtt 4 a ha i hi4 k hk64]
    have hE : ev E k = (∑ i ∈ Finset.range 4, ev (b.getD i ringZero) k * ev (c.getD i ringZero) k)
        - ∑ i ∈ Finset.range 4, ev (d.getD i ringZero) k * ev (a.getD i ringZero) k := by
      rw [dE]; simp only [modSub]
      rw [modZip_getD _ _ _ 0 (by simp [modMulWith]), ev_sub,
        ev_modMulWith_negacyclic 1 4 1 b c 0 (by omega) k hk64, ev_modMulWith_negacyclic 1 4 1 d a 0 (by omega) k hk64]
      have e1 : ∀ (x y : Module), (∑ i ∈ Finset.range 4, ev (x.getD (0 / 1 * 4 + i) ringZero) k * ev (y.getD (i * 1 + 0 % 1) ringZero) k)
          = ∑ i ∈ Finset.range 4, ev (x.getD i ringZero) k * ev (y.getD i ringZero) k := by
        intro x y; apply Finset.sum_congr rfl; intro i _; rw [Nat.mod_one]; simp
      rw [e1, e1]
    rw [hbgaME, hbgaE, hE]
    simp only [Finset.sum_range_succ, Finset.sum_range_zero, zero_add]
    rw [hgaE 0 (by omega), hgaE 1 (by omega), hgaE 2 (by omega), hgaE 3 (by omega),
      hbgE 0 (by omega), hbgE 1 (by omega), hbgE 2 (by omega), hbgE 3 (by omega)]
    simp only [Finset.sum_range_succ, Finset.sum_range_zero, zero_add]
    norm_num
    ring


theorem addNoise_fadd (v e : Nat) (he : e < P) (hsmall : e < 16384 ∨ P - 16384 < e) :
    fadd v e = addNoise v (if e < 16384 then (e : Int) else (e : Int) - (P : Nat)) ∧
    -16384 < (if e < 16384 then (e : Int) else (e : Int) - (P : Nat)) ∧
    (if e < 16384 then (e : Int) else (e : Int) - (P : Nat)) < 16384 := by
  have hP : (P : Nat) = 18446744069414584321 := rfl
  unfold fadd addNoise
  rw [hP] at he hsmall ⊢
  by_cases h : e < 16384
  · simp only [h, if_true]
    refine ⟨by omega, by omega, by omega⟩
  · simp only [h, if_false]
    refine ⟨?_, by omega, by omega⟩
    have h2 : ((v : Int) + ((e : Int) - ((18446744069414584321 : Nat) : Int))) % ((18446744069414584321 : Nat) : Int)
        = ((v : Int) + (e : Int)) % ((18446744069414584321 : Nat) : Int) := by
      rw [show (v : Int) + ((e : Int) - ((18446744069414584321 : Nat) : Int)) = (v : Int) + (e : Int) - ((18446744069414584321 : Nat) : Int) by ring,
        Int.sub_emod_right]
    rw [h2]
    omega

theorem modSub_getD_canon (X Y : Module) (h : 0 < X.size) (k : Nat) (hk : k < 64) :
    ((modSub X Y).getD 0 ringZero).getD k 0 < P := by
  rw [show modSub = modZip ringSub from rfl, modZip_getD _ _ _ 0 h,
    show (ringSub (X.getD 0 ringZero) (Y.getD 0 ringZero)).getD k 0
      = fsub ((X.getD 0 ringZero).getD k 0) ((Y.getD 0 ringZero).getD k 0) from ringZip_get _ _ _ k hk]
  exact Nat.mod_lt _ P_pos

/-- extraction from `embed_msg m + E` recovers `m` when every coefficient of `E` is small as a signed field element -/
theorem extract_of_small (m : List Nat) (hlen : m.length = 32) (hb : ∀ x ∈ m, x < 256) (E : Ring)
    (hcan : ∀ k, k < 64 → E.getD k 0 < P)
    (hE : ∀ k, k < 64 → E.getD k 0 < 16384 ∨ P - 16384 < E.getD k 0) :
    extractMsg (ringAdd (embedMsg m) E) = m := by
  apply extract_embed_noise m hlen hb
    (fun k => if E.getD k 0 < 16384 then (E.getD k 0 : Int) else (E.getD k 0 : Int) - (P : Nat))
  · intro k hk
    exact (addNoise_fadd 0 _ (hcan k hk) (hE k hk)).2
  · intro k hk
    rw [show (ringAdd (embedMsg m) E).getD k 0 = fadd ((embedMsg m).getD k 0) (E.getD k 0) from ringZip_get _ _ _ k hk]
    exact (addNoise_fadd _ _ (hcan k hk) (hE k hk)).1

/-- for an honest ciphertext `dec` extracts from `embed_msg payload + noise` -/
theorem decPayload_honest (O : Oracles) (key seed payload : List Nat) :
    decPayload O ⟨key, seed⟩ (generateCiphertext O (derivePublicKey O key seed) payload)
      = extractMsg (ringAdd (embedMsg payload)
          ((modSub (modMulWith negacyclic 1 4 1 (deriveSecretVectors O payload).1 (deriveSecretVectors O key).2)
            (modMulWith negacyclic 1 4 1 (deriveSecretVectors O payload).2 (deriveSecretVectors O key).1)).getD 0 ringZero)) := by
  have h := dec_element_honest (derivePublicMatrix O seed) (deriveSecretVectors O key).1 (deriveSecretVectors O key).2
    (deriveSecretVectors O payload).1 (deriveSecretVectors O payload).2
    (sampleUniformModule_shaped _ _) (sampleShortModule_shaped _ _) (sampleShortModule_shaped _ _)
    (sampleShortModule_shaped _ _) (sampleShortModule_shaped _ _) (embedMsg payload) (embedMsg_size _)
  simp only at h
  rw [← h]
  rfl

/-- **KEM correctness under the noise bound** -/
theorem kem_correct_noise (O : Oracles) (rk r : List Nat)
    (hlen : (O.xof r 32).length = 32) (hb : ∀ x ∈ O.xof r 32, x < 256)
    (hE : ∀ k, k < 64 →
      ((modSub (modMulWith negacyclic 1 4 1 (deriveSecretVectors O (O.xof r 32)).1 (deriveSecretVectors O (keygen O rk).1.key).2)
        (modMulWith negacyclic 1 4 1 (deriveSecretVectors O (O.xof r 32)).2 (deriveSecretVectors O (keygen O rk).1.key).1)).getD 0 ringZero).getD k 0 < 16384 ∨
      P - 16384 < ((modSub (modMulWith negacyclic 1 4 1 (deriveSecretVectors O (O.xof r 32)).1 (deriveSecretVectors O (keygen O rk).1.key).2)
        (modMulWith negacyclic 1 4 1 (deriveSecretVectors O (O.xof r 32)).2 (deriveSecretVectors O (keygen O rk).1.key).1)).getD 0 ringZero).getD k 0) :
    dec O (keygen O rk).1 (enc O (keygen O rk).2 r).2 = some (enc O (keygen O rk).2 r).1 := by
  rw [dec_eq_some_iff]
  have hp : decPayload O (keygen O rk).1 (enc O (keygen O rk).2 r).2 = O.xof r 32 := by
    have := decPayload_honest O (O.xof (rk ++ [1]) 32) (O.xof (rk ++ [0]) 32) (O.xof r 32)
    refine Eq.trans this ?_
    apply extract_of_small _ hlen hb
    · intro k hk
      exact modSub_getD_canon _ _ (by simp [modMulWith]) k hk
    · exact hE
  rw [hp]
  exact ⟨rfl, rfl⟩

end TF.LatticeProofs
