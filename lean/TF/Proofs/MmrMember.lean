import TF.Proofs.MmrE
import TF.Proofs.MmrIndex
import TF.Model.MmrMember
/-!
Helper lemmas for C05 (membership proofs): the model of `MmrMembershipProof::verify` equals the reference verifier;
from-scratch authentication paths verify and are the only ones that do (up to collisions); `append` returns the
from-scratch path of the new leaf; a leaf mutation keeps the leaf's own path.
-/
namespace TF.MmrE
open TF.Gen TF.Spec.MmrE TF.Model.MmrE TF.Model.Mmr

section M
variable {D : Type} [DecidableEq D] (H : D → D → D)

/-- the `while mt_index != 1` loop over a path of exactly `⌊log2 mt⌋` digests is the reference fold -/
theorem foldMt_spec : ∀ (k fuel mt : Nat) (acc : D) (path : List D),
    2 ^ k ≤ mt → mt < 2 ^ (k + 1) → k < fuel → path.length = k →
    foldMt H fuel mt acc path = some (foldBlk H mt acc path) := by
  intro k
  induction k with
  | zero =>
    intro fuel mt acc path h1 h2 hf hl
    have : mt = 1 := by simp at h1 h2; omega
    subst this
    have : path = [] := List.eq_nil_of_length_eq_zero hl
    subst this
    cases fuel with
    | zero => omega
    | succ f => simp [foldMt, foldBlk]
  | succ k ih =>
    intro fuel mt acc path h1 h2 hf hl
    cases fuel with
    | zero => omega
    | succ f =>
      rw [Nat.pow_succ] at h1 h2
      have hm : mt ≠ 1 := by have : 0 < 2 ^ k := Nat.pow_pos (by omega); omega
      match path, hl with
      | s :: ss, hl =>
        rw [foldMt]; simp only [hm, if_false]
        rw [ih f (mt / 2) _ ss (by omega) (by rw [Nat.pow_succ]; omega) (by omega) (by simpa using hl), foldBlk]

theorem log2_two_pow_add (h r : Nat) (hr : r < 2 ^ h) : Nat.log2 (2 ^ h + r) = h := by
  have hpos : 0 < 2 ^ h := Nat.pow_pos (by omega)
  have hne : 2 ^ h + r ≠ 0 := by omega
  have h1 : h ≤ Nat.log2 (2 ^ h + r) := (Nat.le_log2 hne).mpr (by omega)
  have h2 : Nat.log2 (2 ^ h + r) < h + 1 := (Nat.log2_lt hne).mpr (by rw [Nat.pow_succ]; omega)
  omega

/-- **`MmrMembershipProof::verify` is total and equals the reference verifier** for every `u64` leaf count and every
    peak list that fits a `u32` length -/
theorem memberVerify_eq_spec (path : List D) (i : Nat) (leaf : D) (pks : List D) (n : Nat) (hn : n < 2 ^ 64)
    (hlen : pks.length < 2 ^ 32) :
    memberVerify H path i leaf pks n = some (memberVerifyRef H path i leaf pks n) := by
  unfold memberVerify memberVerifyRef
  have hf : 64 < descentFuel := by decide
  generalize descentFuel = fuel at hf ⊢
  by_cases h1 : i ≥ n
  · have : ¬ i < n := by omega
    rw [if_pos h1]; simp [this]
  · have hlt : i < n := by omega
    have hl : ¬ (pks.length ≥ 2 ^ 32) := by omega
    rw [if_neg h1]
    simp only [hl, if_false, hlt, decide_true, Bool.true_and]
    by_cases h2 : TF.popCount n ≠ pks.length
    · have : ¬ pks.length = TF.popCount n := fun e => h2 e.symm
      rw [if_pos h2]; simp [this]
    · have h2' : pks.length = TF.popCount n := (not_not.mp h2).symm
      rw [if_neg h2]
      simp only [h2', decide_true, Bool.true_and]
      have hgen := (gen_locate i n hlt hn).1
      have hh := height_lt_64 n i hlt hn
      have hpos : 0 < 2 ^ (locate n i).1 := Nat.pow_pos (by omega)
      have hr : i % 2 ^ (locate n i).1 < 2 ^ (locate n i).1 := Nat.mod_lt _ hpos
      have hlog := log2_two_pow_add (locate n i).1 _ hr
      rw [hgen]
      simp only [hlog]
      by_cases h3 : (locate n i).1 ≠ path.length
      · have : ¬ path.length = (locate n i).1 := fun e => h3 e.symm
        rw [if_pos h3]; simp [this]
      · have h3' : path.length = (locate n i).1 := (not_not.mp h3).symm
        rw [if_neg h3]
        have hpk := locate_pk_lt n i hlt
        have hpk' : (locate n i).2.2 < pks.length := by omega
        have hfold : foldBlk H (2 ^ (locate n i).1 + i % 2 ^ (locate n i).1) leaf path = foldBlk H i leaf path := by
          rw [foldBlk_mod H path (2 ^ (locate n i).1 + i % 2 ^ (locate n i).1), foldBlk_mod H path i, h3',
            Nat.add_mod_left, Nat.mod_mod]
        rw [foldMt_spec H (locate n i).1 fuel _ leaf path (by omega) (by rw [Nat.pow_succ]; omega) (by omega) h3',
          hfold, List.getElem?_eq_getElem hpk']
        simp [h3']

/-! ### from-scratch paths -/

/-- completeness: the from-scratch authentication path verifies against the from-scratch peaks -/
theorem member_complete (g : Nat → D) (n i : Nat) (hlt : i < n) :
    memberVerifyRef H (authPathOf H g n i) i (g i) (peaks H n g) n = true := by
  unfold memberVerifyRef authPathOf
  have h := foldBlk_sibPath H g (locate n i).1 0 i
  simp only [sub, Nat.zero_add] at h
  simp only [hlt, peaks_length, sibPath_length, decide_true, Bool.true_and, beq_iff_eq]
  rw [peaks_getElem_locate H n g i hlt, h]

/-- soundness: a claim accepted against the from-scratch peaks is the true leaf with the from-scratch path, or an
    explicit collision -/
theorem member_sound (g : Nat → D) (path : List D) (n i : Nat) (leaf : D)
    (h : memberVerifyRef H path i leaf (peaks H n g) n = true) :
    (i < n ∧ leaf = g i ∧ path = authPathOf H g n i) ∨ Collision H := by
  unfold memberVerifyRef at h
  simp only [Bool.and_eq_true, decide_eq_true_eq, beq_iff_eq] at h
  obtain ⟨⟨⟨hlt, _⟩, hl⟩, hp⟩ := h
  rw [peaks_getElem_locate H n g i hlt] at hp
  have hf := (Option.some.inj hp).symm
  have hf' : foldBlk H i leaf path = sub H g (0 + path.length) (i / 2 ^ path.length) := by
    rw [hf, hl, Nat.zero_add]
  rcases foldBlk_sound H g path 0 i leaf hf' with ⟨h1, h2⟩ | hc
  · refine Or.inl ⟨hlt, by simpa [sub] using h1, ?_⟩
    unfold authPathOf; rw [← hl]; exact h2
  · exact Or.inr hc

/-! ### `append` returns the from-scratch path of the new leaf -/

theorem sibPath_pair (f : Nat → D) : ∀ (u l j : Nat), sibPath H (pair H f) l u j = sibPath H f (l + 1) u j := by
  intro u
  induction u with
  | zero => intros; simp [sibPath]
  | succ u ih => intro l j; simp only [sibPath, sub_pair, ih]

omit [DecidableEq D] in
theorem mergeLoop_acc : ∀ (t : Nat) (st ap : List D),
    mergeLoop H t st ap = (mergeLoop H t st []).map (fun r => (r.1, ap ++ r.2)) := by
  intro t
  induction t with
  | zero => intro st ap; simp [mergeLoop]
  | succ t ih =>
    intro st ap
    match st with
    | [] => simp [mergeLoop]
    | [_] => simp [mergeLoop]
    | new :: prev :: rest =>
      simp only [mergeLoop]
      rw [ih _ (ap ++ [prev]), ih _ ([] ++ [prev])]
      cases mergeLoop H t (H prev new :: rest) [] with
      | none => rfl
      | some r => simp

theorem locate_succ_self : ∀ n : Nat, (locate (n + 1) n).1 = TF.trailingOnes n := by
  intro n
  induction n using Nat.strongRecOn with
  | _ n ih =>
    rw [locate_unfold (n + 1) n (by omega)]
    by_cases h : n % 2 = 0
    · have : (n + 1) % 2 = 1 ∧ n = n + 1 - 1 := ⟨by omega, by omega⟩
      rw [if_pos this, TF.Mmr.trailingOnes_even n h]
    · have hne : ¬ ((n + 1) % 2 = 1 ∧ n = n + 1 - 1) := by omega
      rw [if_neg hne, TF.Mmr.trailingOnes_odd n (by omega)]
      have e : (n + 1) / 2 = n / 2 + 1 := by omega
      simp only [e]
      rw [ih (n / 2) (by omega)]

/-- the merge loop of `calculate_new_peaks_from_append` on the from-scratch peaks: the new from-scratch peaks, and the
    popped peaks are the siblings of the new leaf from the bottom up -/
theorem mergeLoop_peaks : ∀ (n : Nat) (f : Nat → D),
    mergeLoop H (TF.trailingOnes n) (f n :: (peaks H n f).reverse) []
      = some ((peaks H (n + 1) f).reverse, sibPath H f 0 (TF.trailingOnes n) n) := by
  intro n
  induction n using Nat.strongRecOn with
  | _ n ih =>
    intro f
    by_cases h : n % 2 = 0
    · rw [TF.Mmr.trailingOnes_even n h]
      simp only [mergeLoop, sibPath]
      rw [peaks_unfold H (n + 1) f (by omega)]
      have e : (n + 1) / 2 = n / 2 := by omega
      have e1 : (n + 1) % 2 = 1 := by omega
      simp only [e, e1, if_true, Nat.add_sub_cancel]
      by_cases hn : n = 0
      · subst hn; simp [peaks_zero]
      · rw [peaks_unfold H n f hn]
        have e2 : ¬ n % 2 = 1 := by omega
        simp [e2]
    · have hodd : n % 2 = 1 := by omega
      rw [TF.Mmr.trailingOnes_odd n hodd, peaks_unfold H n f (by omega)]
      simp only [hodd, if_true, List.reverse_append, List.reverse_cons, List.reverse_nil, List.nil_append,
        List.singleton_append, mergeLoop]
      have hp : H (f (n - 1)) (f n) = pair H f (n / 2) := by
        unfold pair; congr 2 <;> omega
      rw [hp, mergeLoop_acc H _ _ [f (n - 1)], ih (n / 2) (by omega) (pair H f)]
      have e : n / 2 + 1 = (n + 1) / 2 := by omega
      have e1 : ¬ (n + 1) % 2 = 1 := by omega
      rw [peaks_unfold H (n + 1) f (by omega)]
      simp only [e, e1, if_false, List.append_nil, Option.map_some, List.nil_append, List.singleton_append, sibPath]
      have hs : sub H f 0 (sibBlk n) = f (n - 1) := by simp [sub, sibBlk, hodd]
      rw [hs, sibPath_pair]

/-- `calculate_new_peaks_from_append` on the from-scratch peaks -/
theorem calcAppend_spec (n : Nat) (f : Nat → D) (hn : n + 1 < 2 ^ 64) :
    calculateNewPeaksFromAppend H n (peaks H n f) (f n) = some (peaks H (n + 1) f, authPathOf H f (n + 1) n) := by
  unfold calculateNewPeaksFromAppend authPathOf
  rw [(TF.Mmr.rll_leaf_spec n hn).1, locate_succ_self]
  simp only [Option.bind_eq_bind, Option.pure_def]
  rw [mergeLoop_peaks]
  simp

/-- `MmrAccumulator::append` on the accumulator of the first `n` leaves: the accumulator of the first `n+1` leaves and
    the from-scratch authentication path of the new leaf -/
theorem append_spec (n : Nat) (f : Nat → D) (hn : n + 1 < 2 ^ 64) :
    Acc.append H ⟨n, peaks H n f⟩ (f n) = some (⟨n + 1, peaks H (n + 1) f⟩, authPathOf H f (n + 1) n) := by
  unfold Acc.append
  simp only [calcAppend_spec H n f hn, Option.bind_eq_bind, Option.pure_def, Option.bind_some]
  have : add64 n 1 = n + 1 := by unfold add64 W64; omega
  rw [this]

/-- appending the leaves `f m … f (m+k-1)` one by one to the accumulator of the first `m` leaves -/
theorem appendAll_spec' (f : Nat → D) (B : Nat) (hB : B ≤ 2 ^ 64) : ∀ (k m : Nat), m + k < B →
    Acc.appendAll H ((List.range' m k).map f) ⟨m, peaks H m f⟩ = some ⟨m + k, peaks H (m + k) f⟩ := by
  intro k
  induction k with
  | zero => intro m _; rw [List.range'_zero, List.map_nil, Acc.appendAll]; rfl
  | succ k ih =>
    intro m hm
    have hm1 : m + 1 < 2 ^ 64 := by omega
    rw [List.range'_succ, List.map_cons, Acc.appendAll, append_spec H m f hm1]
    simp only [Option.bind_some]
    have e : m + 1 + k = m + (k + 1) := by omega
    rw [ih (m + 1) (by omega), e]

theorem appendAll_spec (f : Nat → D) (k m : Nat) (h : m + k < 2 ^ 64) :
    Acc.appendAll H ((List.range k).map (fun i => f (m + i))) ⟨m, peaks H m f⟩ = some ⟨m + k, peaks H (m + k) f⟩ := by
  have := appendAll_spec' H f (2 ^ 64) (Nat.le_refl _) k m h
  rw [List.range'_eq_map_range, List.map_map] at this
  exact this

/-! ### a leaf mutation: new peaks, and the leaf's own path is unchanged -/

omit [DecidableEq D] in
/-- a block that does not contain leaf `i` does not see a change of leaf `i` -/
theorem sub_update_ne (g : Nat → D) (i : Nat) (d : D) : ∀ (l j : Nat), j ≠ i / 2 ^ l →
    sub H (Function.update g i d) l j = sub H g l j := by
  intro l
  induction l with
  | zero => intro j hj; simp only [sub]; rw [Function.update_of_ne]; simpa using hj
  | succ l ih =>
    intro j hj
    have hd : i / 2 ^ (l + 1) = i / 2 ^ l / 2 := by rw [Nat.pow_succ, Nat.div_div_eq_div_mul]
    rw [hd] at hj
    simp only [sub]
    rw [ih (2 * j) (by omega), ih (2 * j + 1) (by omega)]

omit [DecidableEq D] in
/-- the authentication path of a leaf does not depend on the leaf itself -/
theorem sibPath_update_self (g : Nat → D) (i : Nat) (d : D) : ∀ (u l : Nat),
    sibPath H (Function.update g i d) l u (i / 2 ^ l) = sibPath H g l u (i / 2 ^ l) := by
  intro u
  induction u with
  | zero => intros; simp [sibPath]
  | succ u ih =>
    intro l
    simp only [sibPath]
    have hs : sibBlk (i / 2 ^ l) ≠ i / 2 ^ l := by unfold sibBlk; split <;> omega
    have hd : i / 2 ^ l / 2 = i / 2 ^ (l + 1) := by rw [Nat.pow_succ, Nat.div_div_eq_div_mul]
    rw [sub_update_ne H g i d l _ hs, hd, ih (l + 1)]

omit [DecidableEq D] in
theorem authPathOf_update_self (g : Nat → D) (n i : Nat) (d : D) :
    authPathOf H (Function.update g i d) n i = authPathOf H g n i := by
  unfold authPathOf
  have := sibPath_update_self H g i d (locate n i).1 0
  simpa using this

omit [DecidableEq D] in
theorem peaks_congr : ∀ (n : Nat) (f f' : Nat → D), (∀ j < n, f j = f' j) → peaks H n f = peaks H n f' := by
  intro n
  induction n using Nat.strongRecOn with
  | _ n ih =>
    intro f f' hff
    by_cases hn : n = 0
    · subst hn; simp [peaks_zero]
    · rw [peaks_unfold H n f hn, peaks_unfold H n f' hn, hff (n - 1) (by omega)]
      congr 1
      apply ih (n / 2) (by omega)
      intro j hj
      unfold pair
      rw [hff (2 * j) (by omega), hff (2 * j + 1) (by omega)]

omit [DecidableEq D] in
theorem pair_update (g : Nat → D) (i : Nat) (d : D) :
    pair H (Function.update g i d) = Function.update (pair H g) (i / 2) (pair H (Function.update g i d) (i / 2)) := by
  funext j
  by_cases hj : j = i / 2
  · subst hj; simp
  · rw [Function.update_of_ne hj]
    unfold pair
    rw [Function.update_of_ne (by omega), Function.update_of_ne (by omega)]

omit [DecidableEq D] in
/-- the from-scratch peaks after changing leaf `i`: only the peak above `i` changes, to the new root of its tree -/
theorem peaks_update : ∀ (n : Nat) (g : Nat → D) (i : Nat) (d : D), i < n →
    peaks H n (Function.update g i d)
      = (peaks H n g).set (locate n i).2.2
          (sub H (Function.update g i d) (locate n i).1 (i / 2 ^ (locate n i).1)) := by
  intro n
  induction n using Nat.strongRecOn with
  | _ n ih =>
    intro g i d hlt
    have hn : n ≠ 0 := by omega
    rw [peaks_unfold H n _ hn, peaks_unfold H n g hn]
    have hloc := locate_unfold n i hn
    have hlen := peaks_length H (n / 2) (pair H g)
    have hpc := popCount_unfold n
    by_cases hc : n % 2 = 1 ∧ i = n - 1
    · rw [if_pos hc] at hloc
      obtain ⟨h1, h2⟩ := hc
      rw [hloc]
      simp only [h1, if_true, sub, Nat.pow_zero, Nat.div_one]
      have hp : peaks H (n / 2) (pair H (Function.update g i d)) = peaks H (n / 2) (pair H g) := by
        apply peaks_congr
        intro j hj
        unfold pair
        rw [Function.update_of_ne (by omega), Function.update_of_ne (by omega)]
      rw [hp, ← h2, Function.update_self]
      have hidx : TF.popCount n - 1 = (peaks H (n / 2) (pair H g)).length := by omega
      rw [hidx, List.set_append_right _ _ (by omega)]
      simp
    · rw [if_neg hc] at hloc
      rw [hloc]
      have hlt2 : i / 2 < n / 2 := by omega
      have hpk := locate_pk_lt (n / 2) (i / 2) hlt2
      have hlast : (if n % 2 = 1 then [Function.update g i d (n - 1)] else []) = (if n % 2 = 1 then [g (n - 1)] else []) := by
        by_cases h1 : n % 2 = 1
        · simp only [h1, if_true]; rw [Function.update_of_ne (by omega)]
        · simp [h1]
      rw [hlast, pair_update H g i d, ih (n / 2) (by omega) (pair H g) (i / 2) _ hlt2, ← pair_update H g i d]
      simp only
      rw [List.set_append_left _ _ (by omega), sub_pair, Nat.div_div_eq_div_mul, ← Nat.pow_succ']

/-- `MmrAccumulator::mutate_leaf` with the from-scratch path on the from-scratch accumulator gives the from-scratch
    accumulator of the changed leaf list -/
theorem mutateLeaf_spec (g : Nat → D) (n i : Nat) (d : D) (hlt : i < n) (hn : n < 2 ^ 64) :
    Acc.mutateLeaf H ⟨n, peaks H n g⟩ i d (authPathOf H g n i) = some ⟨n, peaks H n (Function.update g i d)⟩ := by
  unfold Acc.mutateLeaf calculateNewPeaksFromLeafMutation
  have hf : 64 < descentFuel := by decide
  generalize descentFuel = fuel at hf ⊢
  have hgen := (gen_locate i n hlt hn).1
  have hh := height_lt_64 n i hlt hn
  have hpos : 0 < 2 ^ (locate n i).1 := Nat.pow_pos (by omega)
  have hr : i % 2 ^ (locate n i).1 < 2 ^ (locate n i).1 := Nat.mod_lt _ hpos
  have hl : (authPathOf H g n i).length = (locate n i).1 := by unfold authPathOf; rw [sibPath_length]
  have hpk := locate_pk_lt n i hlt
  have hfold : foldBlk H (2 ^ (locate n i).1 + i % 2 ^ (locate n i).1) d (authPathOf H g n i)
      = sub H (Function.update g i d) (locate n i).1 (i / 2 ^ (locate n i).1) := by
    have h := foldBlk_sibPath H (Function.update g i d) (locate n i).1 0 i
    have hs := sibPath_update_self H g i d (locate n i).1 0
    simp only [Nat.pow_zero, Nat.div_one] at hs
    simp only [sub, Nat.zero_add, Function.update_self, hs] at h
    have e : (2 ^ (locate n i).1 + i % 2 ^ (locate n i).1) % 2 ^ (authPathOf H g n i).length
        = i % 2 ^ (authPathOf H g n i).length := by
      rw [hl, Nat.add_mod_left, Nat.mod_mod]
    rw [foldBlk_mod H _ (2 ^ (locate n i).1 + i % 2 ^ (locate n i).1), e, ← foldBlk_mod H _ i]
    exact h
  simp only [hlt, decide_true, Bool.not_true, Bool.false_eq_true, if_false, hgen, Option.bind_eq_bind,
    Option.pure_def]
  rw [foldMt_spec H (locate n i).1 fuel _ d _ (by omega) (by rw [Nat.pow_succ]; omega) (by omega) hl, hfold]
  simp only [Option.bind_some, peaks_length, hpk, if_true]
  rw [peaks_update H n g i d hlt]

/-! ### how the from-scratch path of an old leaf changes under an append -/

theorem locate_height_mono : ∀ (n i : Nat), i < n → (locate n i).1 ≤ (locate (n + 1) i).1 := by
  intro n
  induction n using Nat.strongRecOn with
  | _ n ih =>
    intro i hlt
    rw [locate_unfold n i (by omega), locate_unfold (n + 1) i (by omega)]
    have hne : ¬ ((n + 1) % 2 = 1 ∧ i = n + 1 - 1) := by omega
    rw [if_neg hne]
    by_cases hc : n % 2 = 1 ∧ i = n - 1
    · rw [if_pos hc]; simp
    · rw [if_neg hc]
      simp only
      by_cases h2 : n % 2 = 0
      · have e : (n + 1) / 2 = n / 2 := by omega
        rw [e]
      · have e : (n + 1) / 2 = n / 2 + 1 := by omega
        rw [e]
        have := ih (n / 2) (by omega) (i / 2) (by omega)
        omega

omit [DecidableEq D] in
theorem sibPath_split (f : Nat → D) : ∀ (u v l j : Nat),
    sibPath H f l (u + v) j = sibPath H f l u j ++ sibPath H f (l + u) v (j / 2 ^ u) := by
  intro u
  induction u with
  | zero => intro v l j; simp [sibPath]
  | succ u ih =>
    intro v l j
    have e : u + 1 + v = (u + v) + 1 := by omega
    rw [e]
    simp only [sibPath, List.cons_append]
    rw [ih v (l + 1) (j / 2), Nat.div_div_eq_div_mul, ← Nat.pow_succ']
    congr 3; omega

omit [DecidableEq D] in
/-- after an append the from-scratch path of an old leaf is its old path, extended by the sibling digests from its
    old peak up to its new peak (nothing if its peak was not merged) -/
theorem authPathOf_append (g : Nat → D) (n i : Nat) (hlt : i < n) :
    (locate n i).1 ≤ (locate (n + 1) i).1 ∧
    authPathOf H g (n + 1) i = authPathOf H g n i ++
      sibPath H g (locate n i).1 ((locate (n + 1) i).1 - (locate n i).1) (i / 2 ^ (locate n i).1) := by
  have hm := locate_height_mono n i hlt
  refine ⟨hm, ?_⟩
  unfold authPathOf
  have e : (locate (n + 1) i).1 = (locate n i).1 + ((locate (n + 1) i).1 - (locate n i).1) := by omega
  conv => lhs; rw [e]
  rw [sibPath_split H g _ _ 0 i, Nat.zero_add]

/-! ### congruence: a from-scratch path only looks at the leaves of its own tree -/

omit [DecidableEq D] in
theorem sub_congr (f f' : Nat → D) (n : Nat) (hff : ∀ j < n, f j = f' j) : ∀ (l j : Nat), (j + 1) * 2 ^ l ≤ n →
    sub H f l j = sub H f' l j := by
  intro l
  induction l with
  | zero => intro j h; simp only [sub]; exact hff j (by simp at h; omega)
  | succ l ih =>
    intro j h
    rw [Nat.pow_succ] at h
    have hp : 0 < 2 ^ l := Nat.pow_pos (by omega)
    simp only [sub]
    rw [ih (2 * j) (by
        have : (2 * j + 1) * 2 ^ l ≤ (j + 1) * (2 ^ l * 2) := by
          rw [← Nat.mul_assoc, Nat.mul_right_comm]; exact Nat.mul_le_mul_right _ (by omega)
        omega),
      ih (2 * j + 1) (by
        have : (2 * j + 1 + 1) * 2 ^ l = (j + 1) * (2 ^ l * 2) := by
          rw [← Nat.mul_assoc, Nat.mul_right_comm]; congr 1; omega
        omega)]

omit [DecidableEq D] in
theorem sibPath_congr (f f' : Nat → D) (n : Nat) (hff : ∀ j < n, f j = f' j) : ∀ (u l j : Nat),
    (j / 2 ^ u + 1) * 2 ^ (l + u) ≤ n → sibPath H f l u j = sibPath H f' l u j := by
  intro u
  induction u with
  | zero => intros; simp [sibPath]
  | succ u ih =>
    intro l j h
    simp only [sibPath]
    have hd : j / 2 ^ (u + 1) = j / 2 / 2 ^ u := by rw [Nat.pow_succ', Nat.div_div_eq_div_mul]
    have e : l + (u + 1) = l + 1 + u := by omega
    rw [hd, e] at h
    rw [ih (l + 1) (j / 2) h]
    congr 1
    apply sub_congr H f f' n hff
    -- the sibling block lies inside the enclosing block of level `l + 1 + u`
    have hp : 0 < 2 ^ l := Nat.pow_pos (by omega)
    have h1 : sibBlk j + 1 ≤ (j / 2 + 1) * 2 := by unfold sibBlk; split <;> omega
    have h2 : j / 2 + 1 ≤ (j / 2 / 2 ^ u + 1) * 2 ^ u := by
      have hpu : 0 < 2 ^ u := Nat.pow_pos (by omega)
      have hdm := Nat.div_add_mod (j / 2) (2 ^ u)
      have hml := Nat.mod_lt (j / 2) hpu
      have : (j / 2 / 2 ^ u + 1) * 2 ^ u = 2 ^ u * (j / 2 / 2 ^ u) + 2 ^ u := by
        rw [Nat.add_mul, Nat.one_mul, Nat.mul_comm]
      omega
    calc (sibBlk j + 1) * 2 ^ l ≤ ((j / 2 + 1) * 2) * 2 ^ l := Nat.mul_le_mul_right _ h1
      _ ≤ (((j / 2 / 2 ^ u + 1) * 2 ^ u) * 2) * 2 ^ l := Nat.mul_le_mul_right _ (Nat.mul_le_mul_right _ h2)
      _ = (j / 2 / 2 ^ u + 1) * 2 ^ (l + 1 + u) := by
          rw [Nat.pow_add, Nat.pow_succ]; ac_rfl
      _ ≤ n := h

omit [DecidableEq D] in
theorem authPathOf_congr (f f' : Nat → D) (n i : Nat) (hlt : i < n) (hff : ∀ j < n, f j = f' j) :
    authPathOf H f n i = authPathOf H f' n i := by
  unfold authPathOf
  apply sibPath_congr H f f' n hff
  have h := locate_block_le n i hlt
  have hpos : 0 < 2 ^ (locate n i).1 := Nat.pow_pos (by omega)
  have hdm := Nat.div_add_mod i (2 ^ (locate n i).1)
  have : (i / 2 ^ (locate n i).1 + 1) * 2 ^ (0 + (locate n i).1)
      = 2 ^ (locate n i).1 * (i / 2 ^ (locate n i).1) + 2 ^ (locate n i).1 := by
    rw [Nat.zero_add, Nat.add_mul, Nat.one_mul, Nat.mul_comm]
  omega

/-! ### helpers for the induction over a history -/

omit [DecidableEq D] in
theorem mapIdxM_spec (f : Nat → List D → Option (List D)) (P Q : Nat → List D) : ∀ (m s : Nat),
    (∀ k, s ≤ k → k < s + m → f k (P k) = some (Q k)) →
    mapIdxM f ((List.range' s m).map P) s = some ((List.range' s m).map Q) := by
  intro m
  induction m with
  | zero => intro s _; simp [mapIdxM]
  | succ m ih =>
    intro s h
    rw [List.range'_succ, List.map_cons, mapIdxM, h s (Nat.le_refl _) (by omega)]
    simp only [Option.bind_some]
    rw [ih (s + 1) (fun k h1 h2 => h k (by omega) (by omega))]
    simp [List.range'_succ]

omit [DecidableEq D] in
theorem range_map_getElem? (P : Nat → List D) (n i : Nat) (h : i < n) :
    ((List.range n).map P)[i]? = some (P i) := by
  simp [h]

end M

end TF.MmrE
