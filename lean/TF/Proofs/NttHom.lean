import TF.Proofs.NttNoswapModel

/-! naturality of the generic model: a pair of maps commuting with the operations commutes with every function of the model -/
namespace TF.NttProofs
open TF.Model.Ntt TF.NttFn

/-- a pair of maps commuting with all operations -/
structure OpsHom {σ α σ' α' : Type} (o : Ops σ α) (o' : Ops σ' α') (fs : σ → σ') (fa : α → α') : Prop where
  szero : fs o.szero = o'.szero
  sone : fs o.sone = o'.sone
  smul : ∀ a b, fs (o.smul a b) = o'.smul (fs a) (fs b)
  spow : ∀ a e, fs (o.spow a e) = o'.spow (fs a) e
  sinv : ∀ a, (o.sinv a).map fs = o'.sinv (fs a)
  sinv0 : ∀ a, fs (o.sinv0 a) = o'.sinv0 (fs a)
  sofNat : ∀ n, fs (o.sofNat n) = o'.sofNat n
  zero : fa o.zero = o'.zero
  add : ∀ a b, fa (o.add a b) = o'.add (fa a) (fa b)
  sub : ∀ a b, fa (o.sub a b) = o'.sub (fa a) (fa b)
  scale : ∀ c a, fa (o.scale c a) = o'.scale (fs c) (fa a)

section
variable {σ α σ' α' : Type} {o : Ops σ α} {o' : Ops σ' α'} {fs : σ → σ'} {fa : α → α'}

theorem swap_map {α β : Type} (g : α → β) (a : Array α) (i j : Nat) (hi : i < a.size) (hj : j < a.size) :
    (a.swap i j hi hj).map g = (a.map g).swap i j (by simpa using hi) (by simpa using hj) := by
  apply Array.ext (by simp)
  intro k h1 h2
  simp only [Array.getElem_map, Array.getElem_swap]
  split
  · rfl
  · split <;> rfl

theorem swapLoop_map {α β : Type} (g : α → β) (log : Nat) : ∀ fuel k (a : Array α),
    (swapLoop log fuel k a).map (Array.map g) = swapLoop log fuel k (a.map g) := by
  intro fuel
  induction fuel with
  | zero => intro k a; rfl
  | succ f ih =>
    intro k a
    simp only [swapLoop]
    split
    · by_cases h : bitreverse k log < a.size ∧ k < a.size
      · rw [dif_pos h, dif_pos (by simpa using h), ih, swap_map]
      · rw [dif_neg h, dif_neg (by simpa using h)]; rfl
    · exact ih _ _

theorem bitrevPermute_map {α β : Type} (g : α → β) (a : Array α) (log : Nat) :
    (bitrevPermute a log).map (Array.map g) = bitrevPermute (a.map g) log := by
  simp [bitrevPermute, swapLoop_map]

theorem powersAux_map (h : OpsHom o o' fs fa) (w : σ) : ∀ k cur (acc : Array σ),
    (powersAux o w k cur acc).map fs = powersAux o' (fs w) k (fs cur) (acc.map fs) := by
  intro k
  induction k with
  | zero => intro cur acc; rfl
  | succ k ih => intro cur acc; simp [powersAux, ih, h.smul]

theorem powers_map (h : OpsHom o o' fs fa) (w : σ) (m : Nat) : (powers o w m).map fs = powers o' (fs w) m := by
  simp [powers, powersAux_map h, h.sone]

theorem getD_map {α β : Type} (g : α → β) (a : Array α) (i : Nat) (d : α) : (a.map g).getD i (g d) = g (a.getD i d) := by
  simp [Array.getD_eq_getD_getElem?]

theorem stage_map (h : OpsHom o o' fs fa) (m : Nat) (tw : Array σ) (x : Array α) :
    (stage o m tw x).map fa = stage o' m (tw.map fs) (x.map fa) := by
  apply Array.ext (by simp [TF.Model.Ntt.stage])
  intro i h1 h2
  simp only [TF.Model.Ntt.stage, Array.getElem_map, Array.getElem_ofFn, Array.size_map]
  rw [← h.zero, ← h.szero, getD_map, getD_map, getD_map, ← h.scale, ← h.add, ← h.sub]
  split <;> rfl

theorem stagesLoop_map (h : OpsHom o o' fs fa) (omega : σ) (n : Nat) : ∀ f m (x : Array α),
    (stagesLoop o omega n f m x).map fa = stagesLoop o' (fs omega) n f m (x.map fa) := by
  intro f
  induction f with
  | zero => intro m x; rfl
  | succ f ih => intro m x; simp only [stagesLoop, ih, stage_map h, powers_map h, h.spow]

theorem nttUnchecked_map (h : OpsHom o o' fs fa) (x : Array α) (omega : σ) (log : Nat) :
    (nttUnchecked o x omega log).map (Array.map fa) = nttUnchecked o' (x.map fa) (fs omega) log := by
  simp only [nttUnchecked, ← bitrevPermute_map, Option.map_map, Array.size_map]
  congr 1
  funext y
  exact stagesLoop_map h omega x.size log 1 y

theorem ntt_map (h : OpsHom o o' fs fa) (root : Nat → Option σ) (x : Array α) :
    (ntt o root x).map (Array.map fa) = ntt o' (fun n => (root n).map fs) (x.map fa) := by
  simp only [ntt, Array.size_map]
  split
  · rfl
  · split
    · rfl
    · cases root x.size with
      | none => rfl
      | some w => simp only [Option.map_some]; exact nttUnchecked_map h x w _

theorem intt_map (h : OpsHom o o' fs fa) (root : Nat → Option σ) (x : Array α) :
    (intt o root x).map (Array.map fa) = intt o' (fun n => (root n).map fs) (x.map fa) := by
  simp only [intt, Array.size_map]
  split
  · rfl
  · split
    · rfl
    · cases root x.size with
      | none => rfl
      | some w =>
        simp only [Option.map_some, ← h.sinv]
        cases o.sinv w with
        | none => rfl
        | some wi =>
          simp only [Option.map_some, ← nttUnchecked_map h]
          cases nttUnchecked o x wi _ with
          | none => rfl
          | some y =>
            simp only [Option.map_some, Array.map_map, ← h.sofNat, ← h.sinv0]
            congr 2
            funext a; simp [h.scale]


theorem setIfInBounds_map {α β : Type} (g : α → β) (a : Array α) (i : Nat) (v : α) :
    (a.setIfInBounds i v).map g = (a.map g).setIfInBounds i (g v) := Array.map_setIfInBounds

theorem powersBitrevAux_map (h : OpsHom o o' fs fa) (omega : σ) (lg : Nat) : ∀ f i cur (acc : Array σ),
    (powersBitrevAux o omega lg f i cur acc).map (Array.map fs)
      = powersBitrevAux o' (fs omega) lg f i (fs cur) (acc.map fs) := by
  intro f
  induction f with
  | zero => intro i cur acc; rfl
  | succ f ih =>
    intro i cur acc
    simp only [powersBitrevAux, Array.size_map]
    split
    · rw [ih, h.smul, setIfInBounds_map]
    · rfl

theorem powersBitrev_map (h : OpsHom o o' fs fa) (omega : σ) (n logn : Nat) :
    (powersBitrev o omega n logn).map (Array.map fs) = powersBitrev o' (fs omega) n logn := by
  simp only [powersBitrev, powersBitrevAux_map h, h.sone, ← h.szero]
  congr 1
  simp

theorem stageNoswap_map (h : OpsHom o o' fs fa) (t : Nat) (zetas : Array σ) (x : Array α) :
    (stageNoswap o t zetas x).map fa = stageNoswap o' t (zetas.map fs) (x.map fa) := by
  apply Array.ext (by simp [stageNoswap])
  intro i h1 h2
  simp only [stageNoswap, Array.getElem_map, Array.getElem_ofFn, Array.size_map]
  rw [← h.zero, ← h.szero, getD_map, getD_map, getD_map, getD_map, ← h.scale, ← h.scale, ← h.add, ← h.sub]
  split <;> rfl

theorem noswapLoop_map (h : OpsHom o o' fs fa) (zetas : Array σ) (n : Nat) : ∀ f m t (x : Array α),
    (noswapLoop o zetas n f m t x).map fa = noswapLoop o' (zetas.map fs) n f m t (x.map fa) := by
  intro f
  induction f with
  | zero => intro m t x; rfl
  | succ f ih =>
    intro m t x
    simp only [noswapLoop]
    split
    · rw [ih, stageNoswap_map h]
    · rfl

theorem nttNoswap_map (h : OpsHom o o' fs fa) (root : Nat → Option σ) (x : Array α) :
    (nttNoswap o root x).map (Array.map fa) = nttNoswap o' (fun n => (root n).map fs) (x.map fa) := by
  simp only [nttNoswap, Array.size_map]
  cases root x.size with
  | none => rfl
  | some w =>
    simp only [Option.map_some, ← powersBitrev_map h]
    cases powersBitrev o w x.size (ceilLog2 x.size) with
    | none => rfl
    | some z => simp only [Option.map_some, noswapLoop_map h]

theorem inttNoswap_map (h : OpsHom o o' fs fa) (root : Nat → Option σ) (x : Array α) :
    (inttNoswap o root x).map (Array.map fa) = inttNoswap o' (fun n => (root n).map fs) (x.map fa) := by
  simp only [inttNoswap, Array.size_map]
  cases root x.size with
  | none => rfl
  | some w =>
    simp only [Option.map_some, ← h.sinv]
    cases o.sinv w with
    | none => rfl
    | some wi => simp only [Option.map_some, stagesLoop_map h]

theorem unscale_map (h : OpsHom o o' fs fa) (x : Array α) :
    (unscale o x).map (Array.map fa) = unscale o' (x.map fa) := by
  simp only [unscale, Array.size_map, ← h.sofNat, ← h.sinv]
  cases o.sinv (o.sofNat x.size) with
  | none => rfl
  | some c =>
    simp only [Option.map_some, Array.map_map]
    congr 2
    funext a; simp [h.scale]

end
end TF.NttProofs
