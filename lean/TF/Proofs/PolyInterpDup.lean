import TF.Proofs.PolyInterp
import Mathlib.Data.List.Duplicate
/-!
C08, the excluded inputs: with a repeated abscissa every interpolation strategy panics (division by zero in the
Lagrange loop, or batch inversion of a zero offset in the divide-and-conquer step).
-/
open Polynomial

namespace TF.Model.PolyI
open TF TF.Model.Poly

variable {K : Type} [Field K]
variable (root : Nat → Option K)
local notation "FK" => FieldOps.ofField K root

section
open Classical

theorem exists_dup_of_not_nodup (l : List K) (h : ¬ l.Nodup) : ∃ x ∈ l, x ∈ l.erase x := by
  obtain ⟨x, hx⟩ := List.exists_duplicate_iff_not_nodup.2 h
  have h2 : 2 ≤ l.count x := List.duplicate_iff_two_le_count.1 hx
  refine ⟨x, List.count_pos_iff.1 (by omega), List.count_pos_iff.1 ?_⟩
  rw [List.count_erase_self]; omega

/-- the loop panics as soon as one abscissa is a multiple root of the zerofier -/
theorem lagrangeLoop_none (domain : List K) (zn : K) (zs : List K)
    (hz : denote (zn :: zs).reverse = zpoly domain) (hlen : zs.length = domain.length) :
    ∀ (pairs : List (K × K)) (sum : List K), (∀ p ∈ pairs, p.1 ∈ domain) →
      (∃ p ∈ pairs, p.1 ∈ domain.erase p.1) → lagrangeLoop FK (zn :: zs) pairs sum = none := by
  intro pairs
  induction pairs with
  | nil => intro _ _ h; obtain ⟨p, hp, _⟩ := h; simp at hp
  | cons p pairs ih =>
    intro sum hmem hex
    obtain ⟨x, y⟩ := p
    have hx : x ∈ domain := hmem (x, y) (by simp)
    obtain ⟨_, q2, _⟩ := synth_zerofier root domain x hx zn zs hz hlen
    rw [lagrangeLoop]
    simp only
    by_cases hdup : x ∈ domain.erase x
    · have : (FK).isZero (synthGo FK x zn (FK).zero [] zs).2 = true := by
        rw [FieldOps.ofField_zero, q2, FieldOps.ofField_isZero, eval_zpoly_eq_zero_iff]; exact hdup
      rw [this]; rfl
    · split
      · rfl
      · apply ih _ (fun q hq => hmem q (by simp [hq]))
        obtain ⟨p, hp, hpd⟩ := hex
        rcases List.mem_cons.1 hp with rfl | hp
        · exact absurd hpd hdup
        · exact ⟨p, hp, hpd⟩

end

section
variable {E : Ext K} (hE : E.Lawful)
include hE

/-- `lagrange_interpolate` with a repeated abscissa panics (`abscis / summand_eval` with `summand_eval = 0`) -/
theorem lagrangeInterpolateWith_dup (T : Nat) (domain values : List K) (hdup : ¬ domain.Nodup)
    (hl : domain.length = values.length) : lagrangeInterpolateWith FK E T domain values = none := by
  classical
  unfold lagrangeInterpolateWith
  simp only
  rw [if_neg (by omega)]
  cases hz : zerofierWith FK E T domain with
  | none => rfl
  | some z =>
    simp only [Option.bind_eq_bind, Option.bind_some]
    split
    · rfl
    · next hzl =>
      have hzd := zerofierWith_sound root hE T domain z hz
      have hnat : (denote z).natDegree = domain.length := by rw [hzd, natDegree_zpoly]
      have htake : denote (z.take (domain.length + 1)) = zpoly domain := by
        rw [denote_take_of_natDegree z _ (le_of_eq hnat), hzd]
      obtain ⟨zn, zs, hzz⟩ : ∃ zn zs, (z.take (domain.length + 1)).reverse = zn :: zs := by
        cases h : (z.take (domain.length + 1)).reverse with
        | nil =>
          have := congrArg List.length h
          simp at this
          rw [this] at hzl; simp at hzl
        | cons a b => exact ⟨a, b, rfl⟩
      have hzslen : zs.length = domain.length := by
        have := congrArg List.length hzz
        simp at this; omega
      have hzrev : denote (zn :: zs).reverse = zpoly domain := by
        rw [← hzz, List.reverse_reverse, htake]
      rw [hzz]
      apply lagrangeLoop_none root domain zn zs hzrev hzslen _ _ (fun p hp => (List.of_mem_zip hp).1)
      obtain ⟨x, hx, hxe⟩ := exists_dup_of_not_nodup domain hdup
      obtain ⟨y, hy⟩ := mem_zip_of_mem_left domain values hl x hx
      exact ⟨(x, y), hy, hxe⟩

/-- every dispatcher (`interpolate`, `par_interpolate`) and the divide-and-conquer step panic on a repeated
    abscissa, for every cut-off and every evaluator satisfying its contract -/
theorem interpolateFuel_dup (t : Thr) (cut : Nat) (bev : List K → List K → Option (List K)) (hbev : BevOK bev) :
    ∀ (fuel : Nat) (domain values : List K), ¬ domain.Nodup → interpolateFuel FK E t cut bev fuel domain values = none := by
  intro fuel
  induction fuel with
  | zero => intro _ _ _; rfl
  | succ fuel ih =>
    intro domain values hdup
    rw [interpolateFuel]
    split
    · rfl
    · split
      · rfl
      · next hl =>
        have hl' : domain.length = values.length := by simpa using hl
        split
        · exact lagrangeInterpolateWith_dup root hE t.zf domain values hdup hl'
        · -- divide and conquer
          unfold fastInterpolateStep
          split
          · next h1 =>
            exfalso
            have h1' : domain.length = 1 := by simpa using h1
            obtain ⟨x, rfl⟩ := List.length_eq_one_iff.1 h1'
            exact hdup (List.nodup_singleton x)
          · simp only
            split
            · rfl
            · set mid := domain.length / 2
              cases hlz : zerofierWith FK E t.zf (domain.take mid) with
              | none => rfl
              | some lz =>
                cases hrz : zerofierWith FK E t.zf (domain.drop mid) with
                | none => rfl
                | some rz =>
                  simp only [Option.bind_eq_bind, Option.bind_some, hbev rz _, hbev lz _]
                  have hlzd := zerofierWith_sound root hE t.zf _ _ hlz
                  have hrzd := zerofierWith_sound root hE t.zf _ _ hrz
                  have hsplit : domain.take mid ++ domain.drop mid = domain := List.take_append_drop mid domain
                  -- where is the repetition?
                  by_cases hcross : ∃ x, x ∈ domain.take mid ∧ x ∈ domain.drop mid
                  · obtain ⟨x, hxl, hxr⟩ := hcross
                    have : batchInversion FK ((domain.take mid).map (fun x => (denote rz).eval x)) = none := by
                      unfold batchInversion
                      have : ((domain.take mid).map (fun x => (denote rz).eval x)).any (FK).isZero = true := by
                        rw [List.any_eq_true]
                        refine ⟨(denote rz).eval x, List.mem_map.2 ⟨x, hxl, rfl⟩, ?_⟩
                        rw [FieldOps.ofField_isZero, hrzd, eval_zpoly_eq_zero_iff]; exact hxr
                      rw [this]; rfl
                    rw [this]; rfl
                  · have hnn : ¬ (domain.take mid).Nodup ∨ ¬ (domain.drop mid).Nodup := by
                      by_contra hboth
                      rw [not_or, not_not, not_not] at hboth
                      apply hdup
                      rw [← hsplit, List.nodup_append]
                      refine ⟨hboth.1, hboth.2, ?_⟩
                      intro a ha b hb hab
                      exact hcross ⟨a, ha, hab ▸ hb⟩
                    cases hloi : batchInversion FK ((domain.take mid).map (fun x => (denote rz).eval x)) with
                    | none => rfl
                    | some loi =>
                      simp only [Option.bind_some]
                      rcases hnn with hL | hR
                      · rw [ih _ _ hL]; rfl
                      · cases hli : interpolateFuel FK E t cut bev fuel (domain.take mid)
                            (List.zipWith (FK).mul (values.take mid) loi) with
                        | none => rfl
                        | some li =>
                          simp only [Option.bind_some]
                          cases hroi : batchInversion FK ((domain.drop mid).map (fun x => (denote lz).eval x)) with
                          | none => rfl
                          | some roi =>
                            simp only [Option.bind_some]
                            rw [ih _ _ hR]; rfl

end

end TF.Model.PolyI
