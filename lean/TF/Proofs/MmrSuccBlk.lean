import TF.Proofs.MmrNodeIndex
import TF.Proofs.MmrForest
import TF.Proofs.MmrSucc
import TF.Proofs.MmrMember
/-!
Block arithmetic for the completeness proof of `MmrSuccessorProof::new_from_batch_append` (C12).

A node of an MMR is addressed as the aligned block `(l, b)` = leaves `b·2^l … (b+1)·2^l − 1`; its post-order node index
is `nodeIdx l b` (`TF/Proofs/MmrNodeIndex.lean`).  `peakBlk n` lists the peaks of the MMR with `n` leaves in these
coordinates.  This file connects `peakPos` / `locate` (low-bit recursion, used by the reference verifier) with
`get_peak_heights_and_peak_node_indices` (bit scan from the top, C16) and proves the facts about the chain of ancestors
of an old peak that the needed-sibling walk of `new_from_batch_append` relies on.
-/
namespace TF.MmrE
open TF TF.Gen TF.Model.Mmr TF.Spec.MmrE TF.Spec.Mmr

/-- the peaks of the MMR with `n` leaves as `(height, block index)`, highest first -/
def peakBlk (n : Nat) : List (Nat × Nat) := (peakPos n).map (fun p => (p.1, p.2 / 2 ^ p.1))

theorem peakBlk_zero : peakBlk 0 = [] := by simp [peakBlk, peakPos_zero]

theorem peakBlk_length (n : Nat) : (peakBlk n).length = TF.popCount n := by
  simp [peakBlk, peakPos_length]

theorem peakBlk_unfold (n : Nat) (hn : n ≠ 0) :
    peakBlk n = (peakBlk (n / 2)).map (fun b => (b.1 + 1, b.2)) ++ (if n % 2 = 1 then [(0, n - 1)] else []) := by
  unfold peakBlk
  rw [peakPos_unfold n hn, List.map_append, List.map_map, List.map_map]
  congr 1
  · apply List.map_congr_left
    intro p _
    simp only [Function.comp]
    rw [Nat.pow_succ, Nat.mul_comm (2 ^ p.1) 2, Nat.mul_div_mul_left _ _ (by omega : 0 < 2)]
  · by_cases h : n % 2 = 1
    · simp [h]
    · simp [h]

/-- closed form: the peaks are the set bits `l` of `n`, the block index is `n / 2^l − 1` -/
theorem mem_peakBlk : ∀ (n l b : Nat), (l, b) ∈ peakBlk n ↔ n / 2 ^ l % 2 = 1 ∧ b + 1 = n / 2 ^ l := by
  intro n
  induction n using Nat.strongRecOn with
  | _ n ih =>
    intro l b
    by_cases hn : n = 0
    · subst hn; simp [peakBlk_zero]
    · rw [peakBlk_unfold n hn, List.mem_append, List.mem_map]
      cases l with
      | zero =>
        simp only [Nat.pow_zero, Nat.div_one]
        constructor
        · rintro (⟨q, _, hq⟩ | h)
          · simp at hq
          · by_cases h1 : n % 2 = 1
            · simp [h1] at h; omega
            · simp [h1] at h
        · rintro ⟨h1, h2⟩
          right; simp [h1]; omega
      | succ l =>
        have e : n / 2 ^ (l + 1) = n / 2 / 2 ^ l := by rw [Nat.div_div_eq_div_mul, Nat.pow_succ, Nat.mul_comm]
        rw [e]
        constructor
        · rintro (⟨q, hq, hq2⟩ | h)
          · obtain ⟨q1, q2⟩ := q
            simp only [Prod.mk.injEq, Nat.add_right_cancel_iff] at hq2
            obtain ⟨rfl, rfl⟩ := hq2
            exact (ih (n / 2) (by omega) _ _).mp hq
          · by_cases h1 : n % 2 = 1
            · simp [h1] at h
            · simp [h1] at h
        · intro h
          left
          exact ⟨(l, b), (ih (n / 2) (by omega) l b).mpr h, rfl⟩

theorem mem_bitsBelow : ∀ (K n j : Nat), j ∈ bitsBelow K n → n / 2 ^ j % 2 = 1 := by
  intro K
  induction K with
  | zero => intro n j h; simp [bitsBelow] at h
  | succ K ih =>
    intro n j h
    rw [TF.Mmr.bitsBelow_succ] at h
    by_cases hb : n / 2 ^ K % 2 = 1
    · rw [if_pos hb] at h
      rcases List.mem_cons.mp h with rfl | h
      · exact hb
      · exact ih n j h
    · rw [if_neg hb] at h; exact ih n j h

theorem bitsBelow_peakBlk : ∀ (K n : Nat), n < 2 ^ K → peakBlk n = (bitsBelow K n).map (fun j => (j, n / 2 ^ j - 1)) := by
  intro K
  induction K with
  | zero => intro n hn; have : n = 0 := by simpa using hn
            subst this; simp [peakBlk_zero, bitsBelow]
  | succ K ih =>
    intro n hn
    by_cases h0 : n = 0
    · subst h0; simp [peakBlk_zero, TF.Mmr.bitsBelow_zero_n]
    · have hn2 : n / 2 < 2 ^ K := by rw [Nat.pow_succ] at hn; omega
      rw [peakBlk_unfold n h0, TF.Mmr.bitsBelow_low, ih (n / 2) hn2, List.map_append, List.map_map, List.map_map]
      congr 1
      · apply List.map_congr_left
        intro j _
        simp only [Function.comp]
        rw [Nat.div_div_eq_div_mul, ← Nat.pow_succ']
      · by_cases h : n % 2 = 1
        · simp [h]
        · simp [h]

/-- node index of a peak: `nodesOf` of the leaves up to and including the peak -/
theorem nodesOf_peak (n j : Nat) (hb : n / 2 ^ j % 2 = 1) :
    TF.Mmr.nodesOf (n / 2 ^ j * 2 ^ j) = nodeIdx j (n / 2 ^ j - 1) := by
  have h1 := nodeIdx_eq j (n / 2 ^ j - 1)
  generalize n / 2 ^ j = q at *
  have hq : q = 2 * (q / 2) + 1 := by omega
  have hpc : TF.popCount q = TF.popCount (q - 1) + 1 := by
    have e1 : q - 1 = 2 * (q / 2) := by omega
    rw [e1, pc_double]
    conv => lhs; rw [hq, pc_double_succ]
  unfold TF.Mmr.nodesOf
  rw [TF.Mmr.popCount_mul_two_pow]
  have e : q - 1 + 1 = q := by omega
  rw [e] at h1
  have e2 : q * 2 ^ (j + 1) = 2 * (q * 2 ^ j) := by rw [Nat.pow_succ]; ring
  omega

/-- **`get_peak_heights_and_peak_node_indices`** in block coordinates -/
theorem peaksIdx_spec (n : Nat) (hn : n < 2 ^ 63) :
    get_peak_heights_and_peak_node_indices n
      = some ((peakBlk n).map (·.1), (peakBlk n).map (fun b => nodeIdx b.1 b.2)) := by
  have h64 : n < 2 ^ 64 := by
    have : (2:Nat) ^ 63 < 2 ^ 64 := by decide
    omega
  rw [TF.Mmr.get_peaks_spec n hn, bitsBelow_peakBlk 64 n h64]
  have := TF.Mmr.peakIdxScan_closed n 64
  rw [Nat.div_eq_of_lt h64, Nat.zero_mul, TF.Mmr.nodesOf_zero] at this
  rw [this, List.map_map, List.map_map]
  congr 2
  · simp [Function.comp_def]
  · apply List.map_congr_left
    intro j hj
    simp only [Function.comp]
    exact nodesOf_peak n j (mem_bitsBelow 64 n j hj)

/-! ### `locate` and the peaks -/

/-- the peak with index `(locate n i).2.2` is the block of height `(locate n i).1` around leaf `i` -/
theorem peakBlk_getElem_locate : ∀ (n i : Nat), i < n →
    (peakBlk n)[(locate n i).2.2]? = some ((locate n i).1, i / 2 ^ (locate n i).1) := by
  intro n
  induction n using Nat.strongRecOn with
  | _ n ih =>
    intro i hlt
    have hn : n ≠ 0 := by omega
    rw [peakBlk_unfold n hn, locate_unfold n i hn]
    have hlen := peakBlk_length (n / 2)
    have hpc := popCount_unfold n
    by_cases hc : n % 2 = 1 ∧ i = n - 1
    · rw [if_pos hc]
      obtain ⟨h1, h2⟩ := hc
      simp only [h1, if_true]
      rw [List.getElem?_append_right (by simp only [List.length_map]; omega)]
      have : TF.popCount n - 1 - ((peakBlk (n / 2)).map (fun b => (b.1 + 1, b.2))).length = 0 := by
        simp only [List.length_map]; omega
      rw [this]; simp [h2]
    · rw [if_neg hc]
      have hlt2 : i / 2 < n / 2 := by omega
      have h3 := locate_pk_lt (n / 2) (i / 2) hlt2
      simp only
      rw [List.getElem?_append_left (by simp only [List.length_map]; omega), List.getElem?_map,
        ih (n / 2) (by omega) (i / 2) hlt2]
      simp only [Option.map_some, Option.some.injEq, Prod.mk.injEq, true_and]
      rw [Nat.div_div_eq_div_mul, Nat.pow_succ, Nat.mul_comm 2]

/-- a peak block that contains leaf `i` is the tree of leaf `i` -/
theorem locate_of_mem_peakBlk : ∀ (l n i : Nat), (l, i / 2 ^ l) ∈ peakBlk n → (locate n i).1 = l := by
  intro l
  induction l with
  | zero =>
    intro n i h
    rw [mem_peakBlk] at h
    simp only [Nat.pow_zero, Nat.div_one] at h
    rw [locate_unfold n i (by omega), if_pos ⟨h.1, by omega⟩]
  | succ l ih =>
    intro n i h
    rw [mem_peakBlk] at h
    have e : ∀ x, x / 2 ^ (l + 1) = x / 2 / 2 ^ l := fun x => by
      rw [Nat.div_div_eq_div_mul, Nat.pow_succ, Nat.mul_comm]
    rw [e n, e i] at h
    have hlt : i / 2 < n / 2 := by
      apply Nat.lt_of_div_lt_div (c := 2 ^ l); omega
    have := ih (n / 2) (i / 2) ((mem_peakBlk _ _ _).mpr h)
    rw [locate_unfold n i (by omega), if_neg (by omega)]
    simp only [this]

/-! ### block ends -/

/-- the number of leaves up to the end of block `(l, b)` -/
def bend (l b : Nat) : Nat := (b + 1) * 2 ^ l

theorem bend_le_parent (l b : Nat) : bend l b ≤ bend (l + 1) (b / 2) := by
  unfold bend
  have e : (b / 2 + 1) * 2 ^ (l + 1) = (2 * (b / 2) + 2) * 2 ^ l := by rw [Nat.pow_succ]; ring
  rw [e]
  exact Nat.mul_le_mul_right _ (by omega)

theorem bend_le_anc (l b : Nat) : ∀ d, bend l b ≤ bend (l + d) (b / 2 ^ d) := by
  intro d
  induction d with
  | zero => simp
  | succ d ih =>
    have := bend_le_parent (l + d) (b / 2 ^ d)
    have e2 : b / 2 ^ d / 2 = b / 2 ^ (d + 1) := by rw [Nat.div_div_eq_div_mul, Nat.pow_succ]
    rw [e2] at this
    have e : l + (d + 1) = l + d + 1 := by omega
    rw [e]; omega

theorem bend_odd (l b : Nat) (hb : b % 2 = 1) : bend l b = bend (l + 1) (b / 2) := by
  unfold bend
  have e : (b / 2 + 1) * 2 ^ (l + 1) = (2 * (b / 2) + 2) * 2 ^ l := by rw [Nat.pow_succ]; ring
  rw [e]
  congr 1; omega

theorem two_pow_le_bend (l b : Nat) : 2 ^ l ≤ bend l b := by
  unfold bend; exact Nat.le_mul_of_pos_left _ (by omega)

theorem mem_peakBlk_bend (n l b : Nat) (h : (l, b) ∈ peakBlk n) : bend l b ≤ n := by
  rw [mem_peakBlk] at h
  unfold bend
  rw [h.2]
  exact Nat.div_mul_le_self n (2 ^ l)

theorem nodeIdx_lt_of_bend (l b n : Nat) (h : bend l b ≤ n) (hn : n < 2 ^ 63) : nodeIdx l b < 2 ^ 64 :=
  nodeIdx_lt_of_block l b n h hn

theorem level_lt_of_bend (l b n : Nat) (h : bend l b ≤ n) (hn : n < 2 ^ 63) : l < 63 := by
  have := two_pow_le_bend l b
  by_contra hc
  have : 2 ^ 63 ≤ 2 ^ l := Nat.pow_le_pow_right (by omega) (by omega)
  omega

/-- the tree of leaf `b·2^l` in an MMR that contains block `(l, b)` -/
theorem locate_block (l b n : Nat) (h : bend l b ≤ n) :
    l ≤ (locate n (b * 2 ^ l)).1 ∧ bend (locate n (b * 2 ^ l)).1 (b * 2 ^ l / 2 ^ (locate n (b * 2 ^ l)).1) ≤ n := by
  have hpos : 0 < 2 ^ l := Nat.pow_pos (by omega)
  have hlt : b * 2 ^ l < n := by
    unfold bend at h
    have : (b + 1) * 2 ^ l = b * 2 ^ l + 2 ^ l := by ring
    omega
  refine ⟨locate_height_ge l n (b * 2 ^ l) ⟨b, Nat.mul_comm _ _⟩ (by
    unfold bend at h
    have : (b + 1) * 2 ^ l = b * 2 ^ l + 2 ^ l := by ring
    omega), ?_⟩
  have := locate_block_le n (b * 2 ^ l) hlt
  unfold bend
  generalize (locate n (b * 2 ^ l)).1 = L at *
  generalize b * 2 ^ l = s at *
  have hd := Nat.div_add_mod s (2 ^ L)
  have e : (s / 2 ^ L + 1) * 2 ^ L = 2 ^ L * (s / 2 ^ L) + 2 ^ L := by ring
  omega

theorem blk_div (l b t : Nat) : b * 2 ^ l / 2 ^ (l + t) = b / 2 ^ t := by
  rw [Nat.pow_add, ← Nat.div_div_eq_div_mul, Nat.mul_div_cancel _ (Nat.pow_pos (by omega))]

/-! ### an old peak `(h, j)` of the MMR with `m` leaves -/

theorem oldPeak_even (m h j : Nat) (hp : (h, j) ∈ peakBlk m) : j % 2 = 0 := by
  rw [mem_peakBlk] at hp; omega

/-- every strict ancestor of an old peak reaches beyond the old leaves -/
theorem oldPeak_anc_gt (m h j : Nat) (hp : (h, j) ∈ peakBlk m) (t : Nat) : m < bend (h + t + 1) (j / 2 ^ (t + 1)) := by
  have hev := oldPeak_even m h j hp
  rw [mem_peakBlk] at hp
  have h1 : m < bend (h + 1) (j / 2) := by
    unfold bend
    have e : (j / 2 + 1) * 2 ^ (h + 1) = (2 * (j / 2) + 2) * 2 ^ h := by rw [Nat.pow_succ]; ring
    have e2 : 2 * (j / 2) + 2 = m / 2 ^ h + 1 := by omega
    rw [e, e2]
    have := Nat.div_add_mod m (2 ^ h)
    have := Nat.mod_lt m (Nat.pow_pos (by omega : 0 < 2) (n := h))
    have e3 : (m / 2 ^ h + 1) * 2 ^ h = 2 ^ h * (m / 2 ^ h) + 2 ^ h := by ring
    omega
  have h2 := bend_le_anc (h + 1) (j / 2) t
  have e : j / 2 / 2 ^ t = j / 2 ^ (t + 1) := by rw [Nat.div_div_eq_div_mul, Nat.pow_succ']
  have e' : h + 1 + t = h + t + 1 := by omega
  rw [e, e'] at h2
  omega

/-- a left sibling on the way up from an old peak is itself an old peak -/
theorem oldPeak_left_sibling (m h j : Nat) (hp : (h, j) ∈ peakBlk m) (t : Nat) (hodd : j / 2 ^ t % 2 = 1) :
    (h + t, j / 2 ^ t - 1) ∈ peakBlk m := by
  have hev := oldPeak_even m h j hp
  rw [mem_peakBlk] at hp ⊢
  cases t with
  | zero => simp at hodd; omega
  | succ t =>
    have e1 : m / 2 ^ (h + (t + 1)) = m / 2 ^ h / 2 ^ (t + 1) := by rw [Nat.pow_add, Nat.div_div_eq_div_mul]
    have e2 : m / 2 ^ h / 2 ^ (t + 1) = j / 2 ^ (t + 1) := by
      rw [Nat.pow_succ', ← Nat.div_div_eq_div_mul, ← Nat.div_div_eq_div_mul]
      congr 1; omega
    rw [e1, e2]
    generalize j / 2 ^ (t + 1) = q at *
    exact ⟨hodd, by omega⟩

/-- the leaf whose append completes block `(l, b)`, `b` odd, creates it as a non-top node -/
theorem trailingOnes_bend (b : Nat) : ∀ l, TF.trailingOnes (bend l b - 1) = l + TF.trailingOnes b := by
  intro l
  induction l with
  | zero => simp [bend]
  | succ l ih =>
    have hpos : 0 < 2 ^ l := Nat.pow_pos (by omega)
    have hb : bend (l + 1) b = 2 * bend l b := by unfold bend; rw [Nat.pow_succ]; ring
    have hge : 1 ≤ bend l b := by have := two_pow_le_bend l b; omega
    rw [TF.Mmr.trailingOnes_odd _ (by omega)]
    have e : (bend (l + 1) b - 1) / 2 = bend l b - 1 := by omega
    rw [e, ih]; omega

theorem bend_sub_one_div (l b : Nat) : (bend l b - 1) / 2 ^ l = b := by
  unfold bend
  have hpos : 0 < 2 ^ l := Nat.pow_pos (by omega)
  have e : (b + 1) * 2 ^ l - 1 = 2 ^ l * b + (2 ^ l - 1) := by
    have : (b + 1) * 2 ^ l = 2 ^ l * b + 2 ^ l := by ring
    omega
  rw [e, Nat.mul_add_div hpos, Nat.div_eq_of_lt (by omega)]
  rfl

end TF.MmrE
