import TF.Model.RustStdConv
import TF.Model.Codec
import Mathlib.Tactic.NormNum
/-! arithmetic core of the regenerated `u64` / `u128` decoders (field elements already abstracted); kept in a file with
minimal imports -/
namespace TF.GenBridge.CodecArith
open TF.Codec

theorem sh0 : 2 ^ (((0 * 32) % 18446744073709551616) % 64) = 1 := by norm_num
theorem sh1 : 2 ^ (((1 * 32) % 18446744073709551616) % 64) = 4294967296 := by norm_num
theorem lh0 : 2 ^ (((0 * 32) % 18446744073709551616) % 128) = 1 := by norm_num
theorem lh1 : 2 ^ (((1 * 32) % 18446744073709551616) % 128) = 4294967296 := by norm_num
theorem lh2 : 2 ^ (((2 * 32) % 18446744073709551616) % 128) = 18446744073709551616 := by norm_num
theorem lh3 : 2 ^ (((3 * 32) % 18446744073709551616) % 128) = 79228162514264337593543950336 := by norm_num

theorem u64_sum (x y : Nat) (hx : x ≤ 4294967295) (hy : y ≤ 4294967295) :
    TF.RustStd.sum_w 18446744073709551616
      [x * 2 ^ (((0 * 32) % 18446744073709551616) % 64) % 18446744073709551616,
       y * 2 ^ (((1 * 32) % 18446744073709551616) % 64) % 18446744073709551616] = limbsValue [x, y] := by
  rw [sh0, sh1]
  simp only [TF.RustStd.sum_w, limbsValue]
  omega

end TF.GenBridge.CodecArith
