import TF.Model.RustStdConv
import TF.Model.Codec
/-! arithmetic core of the regenerated `u64` / `u128` codecs (field elements already abstracted).  Core Lean only.
Big constants are hidden behind `def`s (`H32 = 2^32`, `W64 = 2^64`, `H96 = 2^96`, `W128 = 2^128`) wherever a goal goes to
`omega`; the 128-bit sum is split into two 64-bit halves. -/
namespace TF.GenBridge.CodecArith
open TF.Codec

def H32 : Nat := 4294967296
def W64 : Nat := 18446744073709551616
def H96 : Nat := 79228162514264337593543950336
def W128 : Nat := 340282366920938463463374607431768211456

theorem H32_eq : H32 = 2 ^ 32 := by decide
theorem W64_eq : W64 = H32 * H32 := by decide
theorem H96_eq : H96 = W64 * H32 := by decide
theorem W128_eq : W128 = W64 * W64 := by decide

/-! ### the shift amounts `(i * 32) as usize % BITS` of the two loops, evaluated -/
theorem sh0 : 2 ^ (((0 * 32) % 18446744073709551616) % 64) = 1 := by decide
theorem sh1 : 2 ^ (((1 * 32) % 18446744073709551616) % 64) = 4294967296 := by decide
theorem lh0 : 2 ^ (((0 * 32) % 18446744073709551616) % 128) = 1 := by decide
theorem lh1 : 2 ^ (((1 * 32) % 18446744073709551616) % 128) = 4294967296 := by decide
theorem lh2 : 2 ^ (((2 * 32) % 18446744073709551616) % 128) = 18446744073709551616 := by decide
theorem lh3 : 2 ^ (((3 * 32) % 18446744073709551616) % 128) = 79228162514264337593543950336 := by decide

/-! ### decoding: the wrapping `sum()` of the shifted limbs is the little-endian value -/

theorem u64_sum (x y : Nat) (hx : x ≤ 4294967295) (hy : y ≤ 4294967295) :
    TF.RustStd.sum_w 18446744073709551616
      [x * 2 ^ (((0 * 32) % 18446744073709551616) % 64) % 18446744073709551616,
       y * 2 ^ (((1 * 32) % 18446744073709551616) % 64) % 18446744073709551616] = limbsValue [x, y] := by
  rw [sh0, sh1]
  simp only [TF.RustStd.sum_w, limbsValue]
  omega

/-- `sum_ok` from the bound on the left fold; generic in the bound, so no `decide (_ < 2^64)` is ever reduced (the kernel
    would run `Nat.ble` on the literal) -/
theorem sum_ok_intro (M : Nat) (l : List Nat) (h : l.foldl (· + ·) 0 < M) : TF.RustStd.sum_ok M l = true := by
  unfold TF.RustStd.sum_ok; exact decide_eq_true h

/-- … and no partial sum overflows `u64` -/
theorem u64_sum_ok (x y : Nat) (hx : x ≤ 4294967295) (hy : y ≤ 4294967295) :
    TF.RustStd.sum_ok 18446744073709551616
      [x * 2 ^ (((0 * 32) % 18446744073709551616) % 64) % 18446744073709551616,
       y * 2 ^ (((1 * 32) % 18446744073709551616) % 64) % 18446744073709551616] = true := by
  rw [sh0, sh1]
  apply sum_ok_intro
  rw [List.foldl_cons, List.foldl_cons, List.foldl_nil]
  omega

theorem limbs2 (x y : Nat) : limbsValue [x, y] = x + H32 * y := by
  simp only [limbsValue, H32]; omega

theorem limbs4 (x y z w : Nat) : limbsValue [x, y, z, w] = (x + H32 * y) + W64 * (z + H32 * w) := by
  have e : limbsValue [x, y, z, w] = x + H32 * (y + H32 * (z + H32 * w)) := by
    simp only [limbsValue, H32]; omega
  rw [e, W64_eq, Nat.mul_add H32 y, ← Nat.mul_assoc H32 H32 (z + H32 * w), Nat.add_assoc]

/-- a 64-bit half `lo + 2^32 * hi` of two limbs is below `2^64` -/
theorem half_lt (x y : Nat) (hx : x < H32) (hy : y < H32) : x + H32 * y < W64 := by
  have h : H32 * (y + 1) ≤ H32 * H32 := Nat.mul_le_mul_left H32 hy
  rw [Nat.mul_add, Nat.mul_one] at h
  rw [W64_eq]; omega

/-- two 64-bit halves make a value below `2^128` -/
theorem halves_lt (lo hi : Nat) (hlo : lo < W64) (hhi : hi < W64) : lo + W64 * hi < W128 := by
  have h : W64 * (hi + 1) ≤ W64 * W64 := Nat.mul_le_mul_left W64 hhi
  rw [Nat.mul_add, Nat.mul_one] at h
  rw [W128_eq]; omega

theorem u128_terms (x y z w : Nat) (hx : x < H32) (hy : y < H32) (hz : z < H32) (hw : w < H32) :
    x * 1 % W128 = x ∧ y * H32 % W128 = H32 * y ∧ z * W64 % W128 = W64 * z ∧ w * H96 % W128 = W64 * (H32 * w) ∧
    x + (H32 * y + (W64 * z + W64 * (H32 * w))) = limbsValue [x, y, z, w] ∧ limbsValue [x, y, z, w] < W128 := by
  have hl := half_lt x y hx hy
  have hh := half_lt z w hz hw
  have hv := halves_lt _ _ hl hh
  have e4 := limbs4 x y z w
  have ed : W64 * (z + H32 * w) = W64 * z + W64 * (H32 * w) := Nat.mul_add ..
  have e96 : w * H96 = W64 * (H32 * w) := by rw [H96_eq, Nat.mul_comm w, Nat.mul_assoc]
  have h0 : (0 : Nat) < W64 := by decide
  have pz : 0 ≤ W64 * z := Nat.zero_le _
  have py : 0 ≤ H32 * y := Nat.zero_le _
  have pw : 0 ≤ W64 * (H32 * w) := Nat.zero_le _
  refine ⟨?_, ?_, ?_, ?_, ?_, ?_⟩
  · rw [Nat.mul_one]; exact Nat.mod_eq_of_lt (by omega)
  · rw [Nat.mul_comm y]; exact Nat.mod_eq_of_lt (by omega)
  · rw [Nat.mul_comm z]; exact Nat.mod_eq_of_lt (by omega)
  · rw [e96]; exact Nat.mod_eq_of_lt (by omega)
  · omega
  · omega

theorem u128_sum (x y z w : Nat) (hx : x ≤ 4294967295) (hy : y ≤ 4294967295) (hz : z ≤ 4294967295)
    (hw : w ≤ 4294967295) :
    TF.RustStd.sum_w 340282366920938463463374607431768211456
      [x * 2 ^ (((0 * 32) % 18446744073709551616) % 128) % 340282366920938463463374607431768211456,
       y * 2 ^ (((1 * 32) % 18446744073709551616) % 128) % 340282366920938463463374607431768211456,
       z * 2 ^ (((2 * 32) % 18446744073709551616) % 128) % 340282366920938463463374607431768211456,
       w * 2 ^ (((3 * 32) % 18446744073709551616) % 128) % 340282366920938463463374607431768211456]
      = limbsValue [x, y, z, w] ∧
    TF.RustStd.sum_ok 340282366920938463463374607431768211456
      [x * 2 ^ (((0 * 32) % 18446744073709551616) % 128) % 340282366920938463463374607431768211456,
       y * 2 ^ (((1 * 32) % 18446744073709551616) % 128) % 340282366920938463463374607431768211456,
       z * 2 ^ (((2 * 32) % 18446744073709551616) % 128) % 340282366920938463463374607431768211456,
       w * 2 ^ (((3 * 32) % 18446744073709551616) % 128) % 340282366920938463463374607431768211456] = true := by
  rw [lh0, lh1, lh2, lh3]
  obtain ⟨t0, t1, t2, t3, es, hb⟩ := u128_terms x y z w (by unfold H32; omega) (by unfold H32; omega)
    (by unfold H32; omega) (by unfold H32; omega)
  change TF.RustStd.sum_w W128 [x * 1 % W128, y * H32 % W128, z * W64 % W128, w * H96 % W128] = _ ∧
    TF.RustStd.sum_ok W128 [x * 1 % W128, y * H32 % W128, z * W64 % W128, w * H96 % W128] = true
  rw [t0, t1, t2, t3]
  have m3 : (W64 * (H32 * w) + 0) % W128 = W64 * (H32 * w) := by rw [Nat.add_zero]; exact Nat.mod_eq_of_lt (by omega)
  have m2 : (W64 * z + W64 * (H32 * w)) % W128 = W64 * z + W64 * (H32 * w) := Nat.mod_eq_of_lt (by omega)
  have m1 : (H32 * y + (W64 * z + W64 * (H32 * w))) % W128 = H32 * y + (W64 * z + W64 * (H32 * w)) :=
    Nat.mod_eq_of_lt (by omega)
  have m0 : (x + (H32 * y + (W64 * z + W64 * (H32 * w)))) % W128 = x + (H32 * y + (W64 * z + W64 * (H32 * w))) :=
    Nat.mod_eq_of_lt (by omega)
  constructor
  · simp only [TF.RustStd.sum_w]
    rw [m3, m2, m1, m0]
    exact es
  · apply sum_ok_intro
    rw [List.foldl_cons, List.foldl_cons, List.foldl_cons, List.foldl_cons, List.foldl_nil]
    omega

/-! ### encoding: shift + mask is the limb split -/

theorem mask32 (v : Nat) : v &&& 4294967295 = v % 2 ^ 32 := by
  have : (4294967295 : Nat) = 2 ^ 32 - 1 := by decide
  rw [this]; exact Nat.and_two_pow_sub_one_eq_mod v 32

theorem div_div_64 (n : Nat) : n / 18446744073709551616 = n / 2 ^ 64 := by
  have : (18446744073709551616 : Nat) = 2 ^ 64 := by decide
  rw [this]

end TF.GenBridge.CodecArith
