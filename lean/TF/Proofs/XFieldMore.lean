import TF.Proofs.BFieldMore
import TF.Proofs.XFieldInv
/-!
C01 growth, extension field: the assign / mixed operators, `Sub` through `Neg`, `increment`/`decrement`, `Sum`,
`mod_pow_u64` (= repeated product), `get_cyclic_group_elements`.
-/
namespace TF.XFp
open TF.Gen TF.BF TF.Model TF.Spec

theorem ext_toF (x y : XF.X3) (hx : canon3 x) (hy : canon3 y) (h0 : toF x.1 = toF y.1) (h1 : toF x.2.1 = toF y.2.1)
    (h2 : toF x.2.2 = toF y.2.2) : x = y :=
  Prod.ext (toF_inj _ _ hx.1 hy.1 h0) (Prod.ext (toF_inj _ _ hx.2.1 hy.2.1 h1) (toF_inj _ _ hx.2.2 hy.2.2 h2))

theorem canon_neg (a : Nat) (ha : canon a) : canon (BF.neg a) := canon_sub _ _ canon_zero ha

/-- `a + (-b) = a - b` on canonical words -/
theorem add_neg_eq_sub (a b : Nat) (ha : canon a) (hb : canon b) : bfe_add a (BF.neg b) = bfe_sub a b := by
  apply toF_inj _ _ (canon_add _ _ ha (canon_neg b hb)) (canon_sub _ _ ha hb)
  rw [toF_add _ _ ha (canon_neg b hb), toF_neg b hb, toF_sub _ _ ha hb]; ring

/-- `(-a) + b = b - a` on canonical words -/
theorem neg_add_eq_sub (a b : Nat) (ha : canon a) (hb : canon b) : bfe_add (BF.neg a) b = bfe_sub b a := by
  apply toF_inj _ _ (canon_add _ _ (canon_neg a ha) hb) (canon_sub _ _ hb ha)
  rw [toF_add _ _ (canon_neg a ha) hb, toF_neg a ha, toF_sub _ _ hb ha]; ring

theorem add_zero_right (a : Nat) (ha : canon a) : bfe_add a BF.zero = a := by
  apply toF_inj _ _ (canon_add _ _ ha canon_zero) ha
  rw [toF_add _ _ ha canon_zero, toF_zero, add_zero]

theorem sub_zero_right (a : Nat) (ha : canon a) : bfe_sub a BF.zero = a := by
  apply toF_inj _ _ (canon_sub _ _ ha canon_zero) ha
  rw [toF_sub _ _ ha canon_zero, toF_zero, sub_zero]

theorem neg'_eq (a : XF.X3) : XF.neg' a = XF.neg a := rfl

theorem sub'_eq (a b : XF.X3) (ha : canon3 a) (hb : canon3 b) : XF.sub' a b = XF.sub a b := by
  unfold XF.sub' XF.sub XF.add
  rw [neg'_eq]
  simp only [XF.neg]
  rw [add_neg_eq_sub _ _ ha.1 hb.1, add_neg_eq_sub _ _ ha.2.1 hb.2.1, add_neg_eq_sub _ _ ha.2.2 hb.2.2]

theorem subB'_eq (a : XF.X3) (b : Nat) (ha : canon3 a) (hb : canon b) : XF.subB' a b = XF.subB a b := by
  unfold XF.subB' XF.addB' XF.subB
  rw [show bfe_add_assign a.1 (bfe_neg b) = bfe_add a.1 (BF.neg b) from rfl, add_neg_eq_sub _ _ ha.1 hb]

theorem bSub'_eq (b : Nat) (a : XF.X3) (ha : canon3 a) (hb : canon b) : XF.bSub' b a = XF.bSub b a := by
  unfold XF.bSub' XF.bAdd XF.bSub
  rw [neg'_eq]
  simp only [XF.neg]
  rw [show bfe_add_assign (BF.neg a.1) b = bfe_add (BF.neg a.1) b from rfl, neg_add_eq_sub _ _ ha.1 hb]

/-- the mixed operators are the operators on the lifted element -/
theorem addB_eq_lift (a : XF.X3) (b : Nat) (ha : canon3 a) : XF.addB a b = XF.add a (XF.lift b) := by
  unfold XF.addB XF.add XF.lift
  simp only
  rw [add_zero_right _ ha.2.1, add_zero_right _ ha.2.2]

theorem subB_eq_lift (a : XF.X3) (b : Nat) (ha : canon3 a) : XF.subB a b = XF.sub a (XF.lift b) := by
  unfold XF.subB XF.sub XF.lift
  simp only
  rw [sub_zero_right _ ha.2.1, sub_zero_right _ ha.2.2]

theorem canon3_lift (b : Nat) (hb : canon b) : canon3 (XF.lift b) := ⟨hb, canon_zero, canon_zero⟩

theorem canon3_mulB (a : XF.X3) (b : Nat) (ha : canon3 a) (hb : canon b) : canon3 (XF.mulB a b) :=
  ⟨canon_mul _ _ ha.1 hb, canon_mul _ _ ha.2.1 hb, canon_mul _ _ ha.2.2 hb⟩

theorem mulB_eq_lift (a : XF.X3) (b : Nat) (ha : canon3 a) (hb : canon b) : XF.mulB a b = XF.mul a (XF.lift b) := by
  obtain ⟨hc, h0, h1, h2⟩ := mul_coeffs a (XF.lift b) ha (canon3_lift b hb)
  apply ext_toF _ _ (canon3_mulB a b ha hb) hc
  · rw [h0]; simp only [XF.mulB, XF.lift, toF_mul _ _ ha.1 hb, toF_zero]; ring
  · rw [h1]; simp only [XF.mulB, XF.lift, toF_mul _ _ ha.2.1 hb, toF_zero]; ring
  · rw [h2]; simp only [XF.mulB, XF.lift, toF_mul _ _ ha.2.2 hb, toF_zero]; ring

/-! ### `increment` / `decrement` -/

theorem increment_word (a : Nat) (ha : canon a) : canon (bfe_increment a) ∧ toF (bfe_increment a) = toF a + 1 := by
  have : bfe_increment a = bfe_add a BF.one := rfl
  rw [this]
  exact ⟨canon_add _ _ ha canon_one, by rw [toF_add _ _ ha canon_one, toF_one]⟩

theorem decrement_word (a : Nat) (ha : canon a) : canon (bfe_decrement a) ∧ toF (bfe_decrement a) = toF a - 1 := by
  have : bfe_decrement a = bfe_sub a BF.one := rfl
  rw [this]
  exact ⟨canon_sub _ _ ha canon_one, by rw [toF_sub _ _ ha canon_one, toF_one]⟩

/-! ### `Sum` -/

theorem foldl_add_spec (t : Fp) : ∀ (xs : List XF.X3) (a : XF.X3), canon3 a → (∀ x ∈ xs, canon3 x) →
    canon3 (xs.foldl XF.add a) ∧ ev t (xs.foldl XF.add a) = ev t a + (xs.map (ev t)).sum
  | [], a, ha, _ => ⟨ha, by simp⟩
  | x :: xs, a, ha, h => by
    have hx := h x (by simp)
    obtain ⟨hc0, hv0⟩ := add_coeffs a x ha hx t
    obtain ⟨hc, hv⟩ := foldl_add_spec t xs (XF.add a x) hc0 (fun y hy => h y (by simp [hy]))
    refine ⟨hc, ?_⟩
    rw [List.foldl_cons, hv, hv0, List.map_cons, List.sum_cons]; ring

theorem canon3_zero' : canon3 XF.zero := ⟨canon_zero, canon_zero, canon_zero⟩

theorem ev_zero (t : Fp) : ev t XF.zero = 0 := by
  simp only [ev, XF.zero, toF_zero]; ring

theorem sum_spec (t : Fp) (xs : List XF.X3) (h : ∀ x ∈ xs, canon3 x) :
    canon3 (XF.sum xs) ∧ ev t (XF.sum xs) = (xs.map (ev t)).sum := by
  cases xs with
  | nil => exact ⟨canon3_zero', by rw [show XF.sum [] = XF.zero from rfl, ev_zero]; simp⟩
  | cons x xs =>
    obtain ⟨hc, hv⟩ := foldl_add_spec t xs x (h x (by simp)) (fun y hy => h y (by simp [hy]))
    exact ⟨hc, by rw [XF.sum, hv, List.map_cons, List.sum_cons]⟩


open TF.XFInvProofs

/-- the repeated product of the specification: `x · x · … · x` (`n` factors), `1` for `n = 0` -/
def xnpow (x : Spec.X3) : Nat → Spec.X3
  | 0 => xone
  | n+1 => xmul (xnpow x n) x

theorem xnpow_zero (x : Spec.X3) : xnpow x 0 = xone := rfl
theorem xnpow_succ (x : Spec.X3) (n : Nat) : xnpow x (n+1) = xmul (xnpow x n) x := rfl

theorem xone_canon : TF.Shah.canon3 xone := by
  refine ⟨?_, ?_, ?_⟩ <;> (unfold xone P; simp)

theorem xnpow_canon (x : Spec.X3) : ∀ n, TF.Shah.canon3 (xnpow x n)
  | 0 => xone_canon
  | _+1 => TF.Shah.xmul_canon _ _

theorem xmul_comm (a b : Spec.X3) : xmul a b = xmul b a := by
  obtain ⟨l0, l1, l2⟩ := TF.Shah.cast_xmul a b
  obtain ⟨r0, r1, r2⟩ := TF.Shah.cast_xmul b a
  obtain ⟨cl0, cl1, cl2⟩ := TF.Shah.xmul_canon a b
  obtain ⟨cr0, cr1, cr2⟩ := TF.Shah.xmul_canon b a
  refine Prod.ext (TF.Shah.cast_inj_of_lt cl0 cr0 ?_) (Prod.ext (TF.Shah.cast_inj_of_lt cl1 cr1 ?_) (TF.Shah.cast_inj_of_lt cl2 cr2 ?_))
  · rw [l0, r0]; ring
  · rw [l1, r1]; ring
  · rw [l2, r2]; ring

theorem xone_xmul (a : Spec.X3) (ha : TF.Shah.canon3 a) : xmul xone a = a := by
  rw [xmul_comm, xmul_xone a ha]

theorem xnpow_add (x : Spec.X3) (m : Nat) : ∀ n, xnpow x (m + n) = xmul (xnpow x m) (xnpow x n)
  | 0 => by rw [Nat.add_zero, xnpow_zero, xmul_xone _ (xnpow_canon x m)]
  | n+1 => by rw [← Nat.add_assoc, xnpow_succ, xnpow_add x m n, xnpow_succ, xmul_assoc]

theorem xnpow_one (x : Spec.X3) (hx : TF.Shah.canon3 x) : xnpow x 1 = x := by
  rw [xnpow_succ, xnpow_zero, xone_xmul x hx]

theorem xnpow_sq (x : Spec.X3) (hx : TF.Shah.canon3 x) : ∀ k, xnpow (xmul x x) k = xnpow x (2 * k)
  | 0 => by rw [Nat.mul_zero, xnpow_zero, xnpow_zero]
  | k+1 => by
    rw [xnpow_succ, xnpow_sq x hx k, show 2 * (k+1) = 2 * k + (1 + 1) by omega, xnpow_add x (2*k) (1+1), xnpow_add x 1 1,
      xnpow_one x hx]

/-- loop invariant of `mod_pow_u64`: `result · x^i` is preserved; `fuel` bounds the bit length of `i` -/

theorem modPowAux_spec : ∀ (fuel : Nat) (x r : XF.X3) (i : Nat), canon3 x → canon3 r → i < 2^fuel →
    canon3 (XF.modPowAux fuel x r i) ∧
      XF.toVal (XF.modPowAux fuel x r i) = xmul (XF.toVal r) (xnpow (XF.toVal x) i)
  | 0, x, r, i, _, hr, hi => by
    have : i = 0 := by simpa using hi
    subst this
    rw [XF.modPowAux, xnpow_zero, xmul_xone _ (toVal_canon r hr)]
    exact ⟨hr, rfl⟩
  | fuel+1, x, r, i, hx, hr, hi => by
    rw [XF.modPowAux]
    by_cases h0 : i = 0
    · subst h0
      simp only [beq_self_eq_true, if_true]
      rw [xnpow_zero, xmul_xone _ (toVal_canon r hr)]
      exact ⟨hr, rfl⟩
    · have hb : (i == 0) = false := by simpa using h0
      simp only [hb, Bool.false_eq_true, if_false]
      have hxx := (mul_coeffs x x hx hx).1
      have hi2 : i / 2 < 2^fuel := by rw [Nat.pow_succ] at hi; omega
      have hX := toVal_canon x hx
      by_cases hodd : i % 2 = 1
      · have hbo : (i % 2 == 1) = true := by simpa using hodd
        simp only [hbo, if_true]
        have hrx := (mul_coeffs r x hr hx).1
        obtain ⟨hc, hv⟩ := modPowAux_spec fuel (XF.mul x x) (XF.mul r x) (i / 2) hxx hrx hi2
        refine ⟨hc, ?_⟩
        rw [hv, toVal_mul r x hr hx, toVal_mul x x hx hx, xnpow_sq _ hX, xmul_assoc]
        congr 1
        have : i = 1 + 2 * (i / 2) := by omega
        conv_rhs => rw [this]
        rw [xnpow_add, xnpow_one _ hX]
      · have hbo : (i % 2 == 1) = false := by simpa using hodd
        simp only [hbo, Bool.false_eq_true, if_false]
        obtain ⟨hc, hv⟩ := modPowAux_spec fuel (XF.mul x x) r (i / 2) hxx hr hi2
        refine ⟨hc, ?_⟩
        rw [hv, toVal_mul x x hx hx, xnpow_sq _ hX]
        congr 2
        omega

/-- `mod_pow_u64` on every `u64` exponent is the repeated product -/
theorem modPow_spec (x : XF.X3) (hx : canon3 x) (e : Nat) (he : e < 2^64) :
    canon3 (XF.modPow x e) ∧ XF.toVal (XF.modPow x e) = xnpow (XF.toVal x) e := by
  obtain ⟨hc, hv⟩ := modPowAux_spec 64 x XF.one e hx canon3_one he
  refine ⟨hc, ?_⟩
  rw [XF.modPow, hv, toVal_one, xone_xmul _ (xnpow_canon _ _)]


/-! ### `get_cyclic_group_elements` on the extension field -/

abbrev xpw (g : XF.X3) : Nat → XF.X3 := pwG XF.mulAssign g

theorem mulAssign_eq (a b : XF.X3) : XF.mulAssign a b = XF.mul a b := rfl

theorem xpw_spec (g : XF.X3) (hg : canon3 g) :
    ∀ n, canon3 (xpw g n) ∧ XF.toVal (xpw g n) = xnpow (XF.toVal g) (n+1) := by
  intro n
  induction n with
  | zero => rw [xpw, pwG_zero, Nat.zero_add, xnpow_one _ (toVal_canon g hg)]; exact ⟨hg, rfl⟩
  | succ n ih =>
    obtain ⟨hc, hv⟩ := ih
    rw [xpw, pwG_succ, mulAssign_eq]
    exact ⟨(mul_coeffs _ _ hc hg).1, by rw [toVal_mul _ _ hc hg, hv]; exact (xnpow_succ _ _).symm⟩

theorem x_one_eq : ((bfe_ONE, bfe_ZERO, bfe_ZERO) : XF.X3) = XF.one := rfl
theorem x_zero_eq : ((bfe_ZERO, bfe_ZERO, bfe_ZERO) : XF.X3) = XF.zero := rfl

theorem x_is_one_iff (a : XF.X3) : XF.isOne a = true ↔ a = XF.one := by
  unfold XF.isOne; rw [x_one_eq]; exact beq_iff_eq
theorem x_is_zero_iff (a : XF.X3) : XF.isZero a = true ↔ a = XF.zero := by
  unfold XF.isZero; rw [x_zero_eq]; exact beq_iff_eq

theorem toVal_eq_one_iff (a : XF.X3) (ha : canon3 a) : a = XF.one ↔ XF.toVal a = xone :=
  ⟨fun h => h ▸ toVal_one, fun h => toVal_inj a XF.one ha canon3_one (h.trans toVal_one.symm)⟩

/-- the loop's exit test at iteration `n` in terms of values -/
theorem xstop_iff (g : XF.X3) (hg : canon3 g) (max : Option Nat) (n : Nat) :
    stopG XF.mulAssign XF.isOne g max n = true ↔
      (xnpow (XF.toVal g) (n + 2) = xone ∨ ∃ m, max = some m ∧ m ≤ n + 2) := by
  unfold stopG
  rw [Bool.or_eq_true, x_is_one_iff, toVal_eq_one_iff _ (xpw_spec g hg (n+1)).1, (xpw_spec g hg (n+1)).2]
  cases max with
  | none => simp
  | some m => simp

theorem x_cyclicGroup_core (g : XF.X3) (hg : canon3 g) (max : Option Nat) (N fuel : Nat) (hf : N < fuel)
    (hs : stopG XF.mulAssign XF.isOne g max N = true)
    (hb : ∀ j, j < N → stopG XF.mulAssign XF.isOne g max j = false) :
    ∃ l, XF.cyclicGroup fuel g max = some l ∧ (∀ x ∈ l, canon3 x) ∧
      l.map XF.toVal = (List.range (N + 2)).map (xnpow (XF.toVal g)) := by
  have h := cyclicTail_stops XF.mulAssign XF.isOne g max fuel 0 N (Nat.zero_le _) (by omega) hs
    (fun j _ hj => hb j hj)
  refine ⟨XF.one :: (List.range' 0 (N - 0 + 1)).map (xpw g), ?_, ?_, ?_⟩
  · unfold XF.cyclicGroup
    rw [cyclicGroupG_eq, h, Option.map_some, x_one_eq]
  · intro x hx
    rcases List.mem_cons.1 hx with rfl | hx
    · exact canon3_one
    · obtain ⟨j, _, rfl⟩ := List.mem_map.1 hx
      exact (xpw_spec g hg j).1
  · rw [List.range_succ_eq_map, List.map_cons, List.map_cons, List.map_map, List.map_map]
    refine congrArg₂ List.cons ?_ ?_
    · rw [toVal_one, xnpow_zero]
    · rw [Nat.sub_zero, List.range_eq_range']
      apply List.map_congr_left
      intro j _
      simp only [Function.comp]
      exact (xpw_spec g hg j).2


theorem mul_zero_zero : XF.mul XF.zero XF.zero = XF.zero := by decide

theorem xpw_zero : ∀ n, xpw XF.zero n = XF.zero
  | 0 => pwG_zero _ _
  | n+1 => by rw [xpw, pwG_succ, mulAssign_eq, show pwG XF.mulAssign XF.zero n = XF.zero from xpw_zero n, mul_zero_zero]

/-- zero without a bound never returns -/
theorem x_cyclicGroup_zero_none (fuel : Nat) : XF.cyclicGroup fuel XF.zero none = none := by
  unfold XF.cyclicGroup
  rw [cyclicGroupG_eq, cyclicTail_running, Option.map_none]
  intro j _ _
  unfold stopG
  rw [show pwG XF.mulAssign XF.zero (j+1) = XF.zero from xpw_zero (j+1)]
  have : XF.isOne XF.zero = false := by decide
  rw [this]; rfl


theorem increment_oob (x : XF.X3) (n : Nat) : XF.increment x (n+3) = none ∧ XF.decrement x (n+3) = none := ⟨rfl, rfl⟩
theorem increment_0 (x : XF.X3) : XF.increment x 0 = some (bfe_increment x.1, x.2.1, x.2.2) := rfl
theorem increment_1 (x : XF.X3) : XF.increment x 1 = some (x.1, bfe_increment x.2.1, x.2.2) := rfl
theorem increment_2 (x : XF.X3) : XF.increment x 2 = some (x.1, x.2.1, bfe_increment x.2.2) := rfl
theorem decrement_0 (x : XF.X3) : XF.decrement x 0 = some (bfe_decrement x.1, x.2.1, x.2.2) := rfl
theorem decrement_1 (x : XF.X3) : XF.decrement x 1 = some (x.1, bfe_decrement x.2.1, x.2.2) := rfl
theorem decrement_2 (x : XF.X3) : XF.decrement x 2 = some (x.1, x.2.1, bfe_decrement x.2.2) := rfl


theorem ev_mk (t : Fp) (a b c : Nat) : ev t (a, b, c) = toF a + toF b * t + toF c * t^2 := rfl

/-- opaque-word forms: the changed coefficient is an abstract canonical word `w` with `toF w = toF c ± 1` -/
theorem incdec_0 (x : XF.X3) (hx : canon3 x) : ∃ w v, XF.increment x 0 = some (w, x.2.1, x.2.2) ∧
    XF.decrement x 0 = some (v, x.2.1, x.2.2) ∧ canon w ∧ canon v ∧ toF w = toF x.1 + 1 ∧ toF v = toF x.1 - 1 :=
  ⟨_, _, rfl, rfl, (increment_word _ hx.1).1, (decrement_word _ hx.1).1, (increment_word _ hx.1).2, (decrement_word _ hx.1).2⟩
theorem incdec_1 (x : XF.X3) (hx : canon3 x) : ∃ w v, XF.increment x 1 = some (x.1, w, x.2.2) ∧
    XF.decrement x 1 = some (x.1, v, x.2.2) ∧ canon w ∧ canon v ∧ toF w = toF x.2.1 + 1 ∧ toF v = toF x.2.1 - 1 :=
  ⟨_, _, rfl, rfl, (increment_word _ hx.2.1).1, (decrement_word _ hx.2.1).1, (increment_word _ hx.2.1).2, (decrement_word _ hx.2.1).2⟩
theorem incdec_2 (x : XF.X3) (hx : canon3 x) : ∃ w v, XF.increment x 2 = some (x.1, x.2.1, w) ∧
    XF.decrement x 2 = some (x.1, x.2.1, v) ∧ canon w ∧ canon v ∧ toF w = toF x.2.2 + 1 ∧ toF v = toF x.2.2 - 1 :=
  ⟨_, _, rfl, rfl, (increment_word _ hx.2.2).1, (decrement_word _ hx.2.2).1, (increment_word _ hx.2.2).2, (decrement_word _ hx.2.2).2⟩

theorem incdec_spec (x : XF.X3) (hx : canon3 x) (i : Nat) (hi : i < 3) (t : Fp) :
    ∃ y z, XF.increment x i = some y ∧ XF.decrement x i = some z ∧ canon3 y ∧ canon3 z ∧
      ev t y = ev t x + t ^ i ∧ ev t z = ev t x - t ^ i := by
  have hi3 : i = 0 ∨ i = 1 ∨ i = 2 := by omega
  obtain ⟨c0, c1, c2⟩ := x
  obtain ⟨h0, h1, h2⟩ := hx
  obtain rfl | rfl | rfl := hi3
  · obtain ⟨w, v, e1, e2, cw, cv, hw, hv⟩ := incdec_0 (c0, c1, c2) ⟨h0, h1, h2⟩
    refine ⟨_, _, e1, e2, ⟨cw, h1, h2⟩, ⟨cv, h1, h2⟩, ?_, ?_⟩
    · rw [ev_mk, ev_mk, hw]; ring
    · rw [ev_mk, ev_mk, hv]; ring
  · obtain ⟨w, v, e1, e2, cw, cv, hw, hv⟩ := incdec_1 (c0, c1, c2) ⟨h0, h1, h2⟩
    refine ⟨_, _, e1, e2, ⟨h0, cw, h2⟩, ⟨h0, cv, h2⟩, ?_, ?_⟩
    · rw [ev_mk, ev_mk, hw]; ring
    · rw [ev_mk, ev_mk, hv]; ring
  · obtain ⟨w, v, e1, e2, cw, cv, hw, hv⟩ := incdec_2 (c0, c1, c2) ⟨h0, h1, h2⟩
    refine ⟨_, _, e1, e2, ⟨h0, h1, cw⟩, ⟨h0, h1, cv⟩, ?_, ?_⟩
    · rw [ev_mk, ev_mk, hw]; ring
    · rw [ev_mk, ev_mk, hv]; ring


/-- with a bound the loop always ends: some iteration `N ≤ max m 2 - 2` is the first at which the exit test holds -/
theorem x_first_stop (g : XF.X3) (m : Nat) :
    ∃ N, N + 2 ≤ max m 2 ∧ stopG XF.mulAssign XF.isOne g (some m) N = true ∧
      ∀ j, j < N → stopG XF.mulAssign XF.isOne g (some m) j = false := by
  have hex : ∃ n, stopG XF.mulAssign XF.isOne g (some m) n = true := by
    refine ⟨max m 2 - 2, ?_⟩
    unfold stopG
    rw [Bool.or_eq_true]; right
    simp only [decide_eq_true_eq]; omega
  refine ⟨Nat.find hex, ?_, Nat.find_spec hex, fun j hj => ?_⟩
  · have : Nat.find hex ≤ max m 2 - 2 := Nat.find_min' hex (by
      unfold stopG
      rw [Bool.or_eq_true]; right
      simp only [decide_eq_true_eq]; omega)
    omega
  · have := Nat.find_min hex hj
    simpa using this

theorem x_cyclicGroup_some (g : XF.X3) (hg : canon3 g) (m fuel : Nat) (hf : max m 2 ≤ fuel + 1) :
    ∃ l, XF.cyclicGroup fuel g (some m) = some l ∧ (∀ x ∈ l, canon3 x) ∧ 2 ≤ l.length ∧ l.length ≤ max m 2 ∧
      l.map XF.toVal = (List.range l.length).map (xnpow (XF.toVal g)) := by
  obtain ⟨N, hN, hs, hb⟩ := x_first_stop g m
  obtain ⟨l, h1, h2, h3⟩ := x_cyclicGroup_core g hg (some m) N fuel (by omega) hs hb
  have hlen : l.length = N + 2 := by
    have := congrArg List.length h3
    simpa using this
  exact ⟨l, h1, h2, by omega, by omega, by rw [hlen]; exact h3⟩

/-! ### `batch_inversion` on the extension field: the panicking inputs -/

theorem batchPrefixG_zero (mul : XF.X3 → XF.X3 → XF.X3) : ∀ (l : List XF.X3) (acc : XF.X3), XF.zero ∈ l →
    batchPrefixG mul XF.isZero l acc = none
  | [], _, h => by simp at h
  | y :: ys, acc, hm => by
    unfold batchPrefixG
    by_cases hy : XF.isZero y = true
    · simp [hy]
    · have : XF.zero ∈ ys := by
        rcases List.mem_cons.1 hm with h | h
        · exact absurd ((x_is_zero_iff y).2 h.symm) hy
        · exact h
      simp [hy, batchPrefixG_zero mul ys _ this]

theorem x_batchInversion_zero (xs : List XF.X3) (h : XF.zero ∈ xs) : XF.batchInversion xs = none := by
  cases xs with
  | nil => simp at h
  | cons x xs => unfold XF.batchInversion batchInversionG; simp [batchPrefixG_zero _ _ _ h]

theorem x_batchInversion_nil : XF.batchInversion [] = some [] := rfl


end TF.XFp
